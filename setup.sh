#!/bin/bash
# Build the framework from files on disk only (offline).
set -e
export CARGO_NET_OFFLINE=true
mkdir -p /verif/work
cd /verif/lean && lake build
cd /verif/harness && cp /repo/Cargo.lock Cargo.lock 2>/dev/null || true
cd /verif/harness && cargo build --offline --target-dir target-stable --features hooks
cd /verif/harness && cargo +nightly build --offline --target-dir target-nightly --features hooks,nightly
cd /verif/harness && cargo +nightly build --offline --target-dir target-simd --features hooks,nightly,simd
# release-profile runners (optimised, no debug assertions / overflow checks): every request is answered by them too (VERIF_RELEASE=0 skips)
cd /verif/harness && cargo build --release --offline --target-dir target-release --features hooks
cd /verif/harness && cargo +nightly build --release --offline --target-dir target-nightly-release --features nightly
clang -shared -fPIC -O1 -o /verif/work/mlock_fail.so /verif/interpose/mlock_fail.c -ldl
clang -shared -fPIC -O1 -o /verif/work/free_scan.so /verif/interpose/free_scan.c -ldl
echo setup-ok
