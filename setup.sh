#!/bin/bash
# Build the framework from files on disk only (offline).
set -e
export CARGO_NET_OFFLINE=true
cd /verif/lean && lake build
cd /verif/harness && cp /repo/Cargo.lock Cargo.lock 2>/dev/null || true
cd /verif/harness && cargo build --offline --target-dir target-stable --features hooks
echo setup-ok
