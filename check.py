#!/usr/bin/env python3
"""Entry point:  check.py Cxx [--tier quick|thorough] [--replay file]   (see DESIGN.md §4)"""
import argparse, importlib, json, os, sys
sys.path.insert(0, os.path.join(os.path.dirname(os.path.abspath(__file__)), "gen"))
import common


def main():
    ap = argparse.ArgumentParser()
    ap.add_argument("prop")
    ap.add_argument("--tier", default=os.environ.get("VERIF_TIER", "quick"))
    ap.add_argument("--replay")
    a = ap.parse_args()
    seed = int(os.environ.get("VERIF_SEED", "20260927"))
    # a runner that gives no new answer for this long is killed and the pending request reported (non-termination)
    os.environ.setdefault("VERIF_STALL", "300" if a.tier == "quick" else "1800")
    mod = importlib.import_module(a.prop.lower())
    if a.replay:
        sys.exit(replay(mod, a.prop, a.replay))
    try:
        rc = mod.run(a.tier, seed)
    except common.BuildError as e:
        print(str(e))
        if getattr(e, "harness_only", False):
            # /repo compiles, the runner (a client of its public API) does not: the correspondence cannot be run.  That is a broken
            # correspondence — reported as such, with the compiler's errors as the replay — not "nothing was checked".
            res = common.Result(a.prop, a.tier, seed)
            lean = common.lean_obligations(a.prop)
            res.corr_breaks.append({"line": "runner-build", "answers": {"compiler_errors": getattr(e, "errors", []), "note": "the crate compiles; the runner, written against the public API of the unchanged crate, does not"}})
            sys.exit(common.conclude(res, lean, trusted=getattr(mod, "TRUSTED", []), rule="the runner does not compile against the crate's current public API: no request could be sent", assumptions=[]))
        print("BUILD-ERROR property=%s: /repo (or the harness) does not build; nothing was checked" % a.prop)
        sys.exit(2)
    sys.exit(rc)


def replay(mod, prop, path):
    """Re-run the request lines of a replay file on all engines and print the answers."""
    r = json.load(open(path))
    reqs = r.get("requests") or [c["request"] for c in r.get("correspondence_breaks", [])]
    if not reqs:
        print(json.dumps(r, indent=1))
        return 1
    cfg = r.get("runner_cfg", getattr(mod, "RUNNER", "stable"))
    runner = common.build_runner(cfg)
    common.lean_obligations(prop)
    lines = ["%d %s" % (i, q) for i, q in enumerate(reqs)]
    impl = common.run_engine(runner, lines, nproc=1)
    model = common.run_engine(common.driver_path(), lines, nproc=1)
    bad = 0
    for i, q in enumerate(reqs):
        ia, ma = impl.get(str(i), ["missing"]), model.get(str(i), ["missing"])
        print("request:", q[:400])
        print("  impl  :", ia[0][:200])
        print("  sodium:", (ia[1] if len(ia) > 1 else "n/a")[:200])
        print("  model :", ma[0][:200])
        print("  spec  :", (ma[1] if len(ma) > 1 else "n/a")[:200])
    print("kind:", r.get("kind"), "|", r.get("explanation", ""))
    return 1


if __name__ == "__main__":
    main()
