#!/usr/bin/env python3
"""run_seed.py <patch.diff> <Cxx> [more Cyy…] — apply a seeded change to /repo, run the quick checks, undo it.
Prints for each property whether the check raised a VIOLATION (caught) and how."""
import subprocess, sys, os, json
patch = os.path.abspath(sys.argv[1]); props = sys.argv[2:]
def sh(c, **k): return subprocess.run(c, shell=True, stdout=subprocess.PIPE, stderr=subprocess.STDOUT, text=True, **k)
assert sh("git -C /repo status --porcelain -- src").stdout.strip() == "", "/repo/src is dirty"
r = sh("git -C /repo apply %s" % patch)
if r.returncode: print("patch does not apply:", r.stdout); sys.exit(2)
out = {}
try:
    for p in props:
        r = sh("cd /verif && python3 check.py %s --tier quick" % p)
        viol = [l for l in r.stdout.splitlines() if l.startswith("VIOLATION")]
        kinds = []
        for v in viol:
            path = v.split("replay=")[1].split()[0]
            try: kinds.append(json.load(open(path)).get("kind"))
            except Exception: pass
        out[p] = {"exit": r.returncode, "violations": len(viol), "kinds": kinds, "no_failing_input": any("no-failing-input-found" in v for v in viol), "tail": r.stdout.strip().splitlines()[-1] if r.stdout.strip() else ""}
finally:
    sh("git -C /repo checkout -- .")
print(json.dumps(out, indent=1))
