#!/usr/bin/env python3
"""run_seed.py [--scratch] <patch.diff> <Cxx> [more Cyy…] — apply a seeded change, run the quick checks, undo it.
Default: the change is applied to /repo itself (and reverted afterwards).  With --scratch the change is applied to a scratch git
worktree of /repo (/tmp/verif-seedrepo) and the checks are pointed at it (VERIF_REPO / VERIF_HARNESS: a copy of the harness whose
path dependency is that worktree), so /repo is never touched; the lake project is copied to /tmp/verif-seedlean (VERIF_LEAN) and evidence / replays / build
output go to /tmp/verif-seedout (VERIF_OUT), so nothing under /verif changes either and ordinary checks can run at the same time.
Prints for each property whether the check raised a VIOLATION (caught) and how."""
import subprocess, sys, os, json, shutil
args = sys.argv[1:]
scratch = False
if args and args[0] == "--scratch":
    scratch = True
    args = args[1:]
patch = os.path.abspath(args[0]); props = args[1:]
def sh(c, **k): return subprocess.run(c, shell=True, stdout=subprocess.PIPE, stderr=subprocess.STDOUT, text=True, **k)
env = dict(os.environ)
repo = "/repo"
if scratch:
    repo = "/tmp/verif-seedrepo"
    hz = "/tmp/verif-seedharness"
    if not os.path.isdir(repo):
        r = sh("git -C /repo worktree add --detach %s HEAD" % repo)
        assert r.returncode == 0, r.stdout
    else:
        sh("git -C %s checkout -q --detach %s && git -C %s checkout -- ." % (repo, sh("git -C /repo rev-parse HEAD").stdout.strip(), repo))
    os.makedirs(hz, exist_ok=True)
    for item in ("Cargo.toml", "Cargo.lock", "src", ".cargo"):
        src = os.path.join("/verif/harness", item); dst = os.path.join(hz, item)
        if os.path.isdir(src):
            shutil.rmtree(dst, ignore_errors=True); shutil.copytree(src, dst)
        elif os.path.exists(src):
            shutil.copy(src, dst)
    t = open(os.path.join(hz, "Cargo.toml")).read().replace('path = "/repo"', 'path = "%s"' % repo)
    open(os.path.join(hz, "Cargo.toml"), "w").write(t)
    env["VERIF_REPO"] = repo
    env["VERIF_HARNESS"] = hz
    # private copy of the lake project (generated kernels are rewritten by every check) and of the output directories
    lz, oz = "/tmp/verif-seedlean", "/tmp/verif-seedout"
    os.makedirs(oz, exist_ok=True)
    r = sh("rsync -a --delete --exclude '*.lock' /verif/lean/ %s/" % lz)
    assert r.returncode == 0, r.stdout
    env["VERIF_LEAN"] = lz
    env["VERIF_OUT"] = oz
assert sh("git -C %s status --porcelain -- src" % repo).stdout.strip() == "", "%s/src is dirty" % repo
r = sh("git -C %s apply %s" % (repo, patch))
if r.returncode: print("patch does not apply:", r.stdout); sys.exit(2)
out = {}
try:
    for p in props:
        r = sh("cd /verif && python3 check.py %s --tier quick" % p, env=env)
        viol = [l for l in r.stdout.splitlines() if l.startswith("VIOLATION")]
        kinds = []
        for v in viol:
            path = v.split("replay=")[1].split()[0]
            try: kinds.append(json.load(open(path)).get("kind"))
            except Exception: pass
        out[p] = {"exit": r.returncode, "violations": len(viol), "kinds": kinds, "no_failing_input": any("no-failing-input-found" in v for v in viol), "tail": r.stdout.strip().splitlines()[-1] if r.stdout.strip() else ""}
finally:
    sh("git -C %s checkout -- ." % repo)
    if not scratch:
        sh("python3 /verif/tools/rs2lean.py --all /repo /verif/lean/DryocVerif/Gen")
print(json.dumps(out, indent=1))
