#!/bin/bash
# coverage.sh [Cxx …] — AUDIT tool, not a check: which functions of /repo/src do the quick corpora of the checks execute?
# Builds instrumented runners in a scratch directory (removed at the end), replays the quick tier of the named
# properties (default: all), and prints the dryoc functions that were never entered.
set -e
cd /verif
COV=${COVDIR:-/tmp/verif-cov.$$}
mkdir -p $COV/prof
export LLVM_PROFILE_FILE=$COV/prof/build-%p-%m.profraw   # build scripts of instrumented crates write profiles too: keep them out of /repo
props=${@:-$(seq -f "C%02g" 1 20)}
for p in $props; do VERIF_COVERAGE=$COV python3 check.py $p --tier quick 2>&1 | tail -1; done
BIN=$(dirname $(rustc +nightly --print target-libdir))/bin
$BIN/llvm-profdata merge -sparse $COV/prof/*.profraw -o $COV/all.profdata
objs=""
for r in $COV/target-*/debug/runner; do objs="$objs -object $r"; done
$BIN/llvm-cov export -format=text -instr-profile=$COV/all.profdata $objs -ignore-filename-regex='(\.cargo|rustc|/verif/)' > $COV/cov.json 2>/dev/null
python3 tools/coverage_report.py $COV/cov.json > work/coverage_report.txt
tail -5 work/coverage_report.txt
rm -rf $COV
