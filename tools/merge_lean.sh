#!/bin/bash
# merge_lean.sh <agent-dir>: 3-way merge an agent's scratch copy of the lake project into /verif/lean (base = /tmp/lean-base)
A=$1; B=${2:-/tmp/lean-base}; C=/verif/lean
cd $A
find . -name '*.lean' -not -path './.lake/*' -o -name 'lakefile.toml' -not -path './.lake/*' | while read f; do
  f=${f#./}
  if [ ! -f "$B/$f" ]; then
    if [ -f "$C/$f" ] && ! cmp -s "$A/$f" "$C/$f"; then echo "CONFLICT(new in both): $f"; cp "$A/$f" "$C/$f.theirs"; else mkdir -p "$(dirname $C/$f)"; cp "$A/$f" "$C/$f"; echo "added   $f"; fi
  elif ! cmp -s "$A/$f" "$B/$f"; then
    if cmp -s "$C/$f" "$B/$f"; then cp "$A/$f" "$C/$f"; echo "updated $f";
    else cp "$C/$f" /tmp/merge.cur; if git merge-file -q /tmp/merge.cur "$B/$f" "$A/$f"; then cp /tmp/merge.cur "$C/$f"; echo "merged  $f"; else echo "CONFLICT: $f (left in $C/$f.conflict)"; cp /tmp/merge.cur "$C/$f.conflict"; fi
    fi
  fi
done
