#!/bin/bash
# confirm_seed.sh <worktree> <k> <id>  — independently confirm a candidate regression delivered in <worktree>/DELIVER:
#   (1) the patch applies and builds, (2) the whole existing suite passes with it (default and serde,base64 features),
#   (3) the demo fails with it, (4) the demo passes without it.   Prints a one-line verdict; writes log to <worktree>/DELIVER/confirm_<k>.log
WT=$1; K=$2; ID=$3
cd $WT || exit 2
export CARGO_NET_OFFLINE=true
LOG=$WT/DELIVER/confirm_$K.log; : > $LOG
git checkout -q -- src; rm -f tests/demo_*.rs
FEAT="serde,base64"
TC=""
if [ -f DELIVER/demo_$K.rs ] && grep -q 'feature = "nightly"\|simd_backend' DELIVER/demo_$K.rs DELIVER/meta_$K.txt 2>/dev/null; then TC="+nightly"; FEAT="nightly,serde,base64"; fi
if grep -q 'simd_backend' DELIVER/meta_$K.txt 2>/dev/null; then FEAT="nightly,simd_backend,serde,base64"; fi
git apply DELIVER/patch_$K.diff >> $LOG 2>&1 || { echo "$ID/$K: PATCH-DOES-NOT-APPLY"; exit 1; }
cargo test --offline >> $LOG 2>&1; S1=$?
cargo $TC test --offline --features $FEAT >> $LOG 2>&1; S2=$?
cp DELIVER/demo_$K.rs tests/demo_${ID}_$K.rs
cargo $TC test --offline --features $FEAT --test demo_${ID}_$K >> $LOG 2>&1; D1=$?
git checkout -q -- src
cargo $TC test --offline --features $FEAT --test demo_${ID}_$K >> $LOG 2>&1; D2=$?
rm -f tests/demo_${ID}_$K.rs
if [ $S1 -eq 0 ] && [ $S2 -eq 0 ] && [ $D1 -ne 0 ] && [ $D2 -eq 0 ]; then echo "$ID/$K: CONFIRMED (suite passes with change; demo fails with, passes without)"; else echo "$ID/$K: NOT-CONFIRMED suite=$S1/$S2 demo_with=$D1 demo_without=$D2"; fi
