#!/usr/bin/env python3
"""ingest_seed.py <worktree> <Cxx> — confirm every delivered candidate of a mutation agent and store the confirmed
ones under /verif/seeded/<Cxx>-<tag>/ (patch.diff, demo.rs, meta.json)."""
import glob, json, os, re, shutil, subprocess, sys
wt, prop = sys.argv[1], sys.argv[2]
tagp = sys.argv[3] if len(sys.argv) > 3 else ""
for pf in sorted(glob.glob(os.path.join(wt, "DELIVER", "patch_*.diff"))):
    k = re.search(r"patch_(\w+)\.diff", pf).group(1)
    r = subprocess.run(["/verif/tools/confirm_seed.sh", wt, k, prop], stdout=subprocess.PIPE, text=True)
    print(r.stdout.strip())
    if "CONFIRMED (" not in r.stdout:
        continue
    d = "/verif/seeded/%s-%s%s" % (prop, tagp, k)
    os.makedirs(d, exist_ok=True)
    shutil.copy(pf, os.path.join(d, "patch.diff"))
    shutil.copy(os.path.join(wt, "DELIVER", "demo_%s.rs" % k), os.path.join(d, "demo.rs"))
    meta_txt = open(os.path.join(wt, "DELIVER", "meta_%s.txt" % k)).read() if os.path.exists(os.path.join(wt, "DELIVER", "meta_%s.txt" % k)) else ""
    json.dump({"property": prop, "source": "independent sub-agent given only the property text and a scratch worktree",
               "confirmed": "tools/confirm_seed.sh: patch applies; cargo test --offline and --features serde,base64 pass with it; demo fails with it and passes without it",
               "description": meta_txt[:6000]}, open(os.path.join(d, "meta.json"), "w"), indent=1)
