#!/usr/bin/env python3
"""summarise an llvm-cov export (audit aid, not a check): for every `fn` in /repo/src (outside #[cfg(test)] modules) say whether
the quick corpora entered it, instantiated it without entering it, or never even instantiated / compiled it"""
import glob, json, os, re, sys
d = json.load(open(sys.argv[1]))
recs = {}       # (file, start line) -> total count
for data in d["data"]:
    for f in data["functions"]:
        files = [x for x in f["filenames"] if x.startswith("/repo/src")]
        if not files:
            continue
        r = f["regions"][0]
        key = (files[0], r[0])
        recs[key] = recs.get(key, 0) + f["count"]
entered = never = absent = 0
report = {}
for path in sorted(glob.glob("/repo/src/**/*.rs", recursive=True)):
    src = open(path).read()
    cut = src.find("#[cfg(test)]\nmod tests")
    if cut < 0:
        cut = src.find("#[cfg(test)]")
    body = src if cut < 0 else src[:cut]
    lines = body.splitlines()
    for i, l in enumerate(lines):
        m = re.match(r"^\s*(pub(\([a-z]+\))?\s+)?(const\s+)?(unsafe\s+)?fn\s+(\w+)", l)
        if not m:
            continue
        ln = i + 1
        cands = [c for (f, s0), c in recs.items() if f == path and ln <= s0 <= ln + 25]
        # stop at the next fn
        nxt = next((j + 1 for j in range(i + 1, len(lines)) if re.match(r"^\s*(pub(\([a-z]+\))?\s+)?(const\s+)?(unsafe\s+)?fn\s+\w+", lines[j])), len(lines) + 1)
        cands = [c for (f, s0), c in recs.items() if f == path and ln <= s0 < nxt]
        if any(c > 0 for c in cands):
            entered += 1
        elif cands:
            never += 1
            report.setdefault(path, []).append((ln, "never entered      ", l.strip()[:120]))
        else:
            absent += 1
            report.setdefault(path, []).append((ln, "not instantiated   ", l.strip()[:120]))
print("fn items in /repo/src (outside tests): %d entered, %d instantiated but never entered, %d never instantiated/compiled in the runner builds" % (entered, never, absent))
for path in sorted(report):
    print(path)
    for ln, what, text in report[path]:
        print("   %5d  %s %s" % (ln, what, text))
