#!/usr/bin/env python3
"""
rs2lean.py -- translate the integer kernels of dryoc's Rust source into Lean 4 definitions.

    python3 tools/rs2lean.py <kernel> /repo            (prints the Lean module on stdout)
    python3 tools/rs2lean.py --all /repo <outdir>      (writes DryocVerif/Gen/<Kernel>.lean, only changed files)

What it is: a small compiler for the subset of Rust in which the arithmetic kernels are written --
`let` / assignment / compound assignment over u8..u128 / usize scalars and fixed arrays indexed by constants,
`if` expressions, `for` over constant ranges (unrolled) and over `chunks(N)` of a byte slice (a fold),
closures that are only called (inlined at the call site), helper functions of the same file (translated too).
Every Rust integer is a Lean `Nat`; the translation of each operator says where Rust drops bits:

    a + b, a * b            a + b, a * b         (panic on overflow in the dev profile: range is a proof obligation)
    a - b                   a - b                (ditto; truncated subtraction in Lean)
    a.wrapping_add(b)       (a + b) % 2^w        w = width of the receiver's type
    a.wrapping_sub(b)       (a + 2^w - b) % 2^w
    a.wrapping_mul(b)       (a * b) % 2^w
    a << k                  (a <<< k) % 2^w      (Rust keeps the low w bits; k < w is a proof obligation)
    a >> k, &, |, ^         >>>, &&&, |||, ^^^
    !a                      2^w - 1 - a
    e as T                  e % 2^w(T) when T is narrower than the type of e, else e
    a.rotate_right(k)       ((a >>> k) ||| (a <<< (w - k))) % 2^w
    &s[a..b]                (s.drop a).take (b - a)     s[i] as uN  ->  byteAt s i

Anything outside the subset is a hard error (exit 1, message on stderr, nothing written): the translator never guesses.
The generated modules are import-free apart from DryocVerif.Bytes and DryocVerif.Gen.Prelude.
"""
import os
import re
import sys


class Unsupported(Exception):
    pass


def fail(msg):
    raise Unsupported(msg)


LEANKW = {"partial", "end", "from", "in", "at", "open", "where", "then", "do", "fun", "show", "have", "by", "match", "with", "def",
          "theorem", "instance", "structure", "class", "import", "namespace", "section", "variable", "local", "private", "protected",
          "unsafe", "if", "else", "let", "mut", "return", "for", "type", "Type", "Prop", "Sort", "deriving", "extends", "infix", "notation",
          "macro", "syntax", "using", "calc", "suffices", "obtain", "this", "nomatch", "mutual", "universe", "export", "attribute"}


def lid(n):
    n = n.replace("::", "_")
    return n + "_" if n in LEANKW else n


WIDTH = {"u8": 8, "u16": 16, "u32": 32, "u64": 64, "usize": 64, "u128": 128}

# ------------------------------------------------------------------------------------------------ lexer
TOKEN = re.compile(r"""
   (?P<ws>\s+|//[^\n]*|/\*.*?\*/)
 | (?P<str>b?"(?:[^"\\]|\\.)*")
 | (?P<num>0x[0-9a-fA-F_]+|\d[\d_]*)(?P<suf>u8|u16|u32|u64|u128|usize)?
 | (?P<id>[A-Za-z_][A-Za-z0-9_]*)
 | (?P<op><<=|>>=|\.\.=|::|&&|\|\||<<|>>|\+=|-=|\*=|/=|%=|\^=|&=|\|=|==|!=|<=|>=|->|=>|\.\.|[-+*/%&|^!<>=.,;:(){}\[\]\#?])
""", re.X | re.S)


def lex(src):
    out, i = [], 0
    while i < len(src):
        m = TOKEN.match(src, i)
        if not m:
            fail("cannot tokenize at: %r" % src[i:i + 30])
        i = m.end()
        if m.group("ws") is not None:
            continue
        if m.group("str") is not None:
            out.append(("str", m.group("str")))
            continue
        if m.group("num") is not None:
            out.append(("num", int(m.group("num").replace("_", ""), 0), m.group("suf")))
        elif m.group("id") is not None:
            out.append(("id", m.group("id")))
        else:
            out.append(("op", m.group("op")))
    out.append(("eof",))
    return out


# ------------------------------------------------------------------------------------------------ parser
BINPREC = {"*": 12, "/": 12, "%": 12, "+": 11, "-": 11, "<<": 10, ">>": 10, "&": 9, "^": 8, "|": 7,
           "==": 6, "!=": 6, "<": 6, ">": 6, "<=": 6, ">=": 6, "&&": 5, "||": 4, "..": 3}


class Parser:
    def __init__(self, toks):
        self.t, self.i = toks, 0

    def peek(self, k=0):
        return self.t[self.i + k]

    def next(self):
        x = self.t[self.i]
        self.i += 1
        return x

    def isop(self, s, k=0):
        return self.peek(k) == ("op", s)

    def isid(self, s=None, k=0):
        p = self.peek(k)
        return p[0] == "id" and (s is None or p[1] == s)

    def expect(self, s):
        if not self.isop(s):
            fail("expected %r, found %r" % (s, self.peek()))
        self.next()

    def ident(self):
        if not self.isid():
            fail("expected identifier, found %r" % (self.peek(),))
        return self.next()[1]

    # ---- types: u64 | usize | bool | [u64; 3] | &[u8] | &mut [u64; 8] | &T | Name
    def type_(self):
        if self.isop("&"):
            self.next()
            if self.isid("mut"):
                self.next()
            return self.type_()
        if self.isop("("):          # tuple type
            self.next()
            items = []
            while not self.isop(")"):
                items.append(self.type_())
                if self.isop(","):
                    self.next()
            self.expect(")")
            return ("tuplety", items)
        if self.isop("*"):          # raw pointer type
            self.next()
            if self.isid("mut") or self.isid("const"):
                self.next()
            return ("ptr", self.type_())
        if self.isop("["):
            self.next()
            el = self.type_()
            if self.isop(";"):
                self.next()
                n = self.expr()
                self.expect("]")
                return ("arr", el, n)
            self.expect("]")
            return ("slice", el)
        name = self.ident()
        while self.isop("::"):
            self.next()
            name += "::" + self.ident()
        if self.isop("<"):      # generic arguments: skip balanced
            depth = 0
            while True:
                t = self.next()
                if t == ("op", "<"):
                    depth += 1
                elif t == ("op", ">"):
                    depth -= 1
                    if depth == 0:
                        break
                elif t == ("op", ">>"):
                    depth -= 2
                    if depth <= 0:
                        break
        return name

    # ---- expressions
    def expr(self, minprec=0, nostruct=False):
        lhs = self.unary(nostruct)
        while True:
            p = self.peek()
            if p[0] == "id" and p[1] == "as":
                self.next()
                lhs = ("cast", lhs, self.type_())
                continue
            if p[0] != "op" or p[1] not in BINPREC:
                return lhs
            op = p[1]
            prec = BINPREC[op]
            if prec < minprec:
                return lhs
            self.next()
            if op == "..":
                # open-ended range `a..` (followed by `]`)
                if self.isop("]") or self.isop(")"):
                    lhs = ("range", lhs, None)
                    continue
                rhs = self.expr(prec + 1, nostruct)
                lhs = ("range", lhs, rhs)
                continue
            rhs = self.expr(prec + 1, nostruct)
            lhs = ("bin", op, lhs, rhs)

    def unary(self, nostruct=False):
        if self.isop("!"):
            self.next()
            return ("not", self.unary(nostruct))
        if self.isop("-"):
            self.next()
            return ("neg", self.unary(nostruct))
        if self.isop("*"):
            self.next()
            return self.unary(nostruct)          # deref: transparent
        if self.isop("&"):
            self.next()
            if self.isid("mut"):
                self.next()
            return self.unary(nostruct)          # borrow: transparent
        if self.isop(".."):                      # `..b`
            self.next()
            return ("range", None, self.expr(BINPREC[".."] + 1, nostruct))
        return self.postfix(self.primary(nostruct))

    def args(self, close=")"):
        a = []
        while not self.isop(close):
            a.append(self.expr())
            if self.isop(","):
                self.next()
        self.expect(close)
        return a

    def postfix(self, e):
        while True:
            if self.isop("."):
                self.next()
                if self.peek()[0] == "num":
                    e = ("field", e, str(self.next()[1]))
                    continue
                name = self.ident()
                if self.isop("("):
                    self.next()
                    e = ("method", e, name, self.args())
                else:
                    e = ("field", e, name)
            elif self.isop("["):
                self.next()
                idx = self.expr()
                self.expect("]")
                e = ("index", e, idx)
            elif self.isop("("):
                self.next()
                e = ("call", e, self.args())
            else:
                return e

    def primary(self, nostruct=False):
        p = self.peek()
        if p[0] == "num":
            self.next()
            return ("num", p[1], p[2])
        if p[0] == "str":
            self.next()
            return ("str", p[1])
        if self.isop("("):
            self.next()
            e = self.expr()
            if self.isop(","):
                items = [e]
                while self.isop(","):
                    self.next()
                    if self.isop(")"):
                        break
                    items.append(self.expr())
                self.expect(")")
                return ("tuple", items)
            self.expect(")")
            return ("paren", e)
        if self.isop("["):
            self.next()
            first = self.expr()
            if self.isop(";"):
                self.next()
                n = self.expr()
                self.expect("]")
                return ("arrrep", first, n)
            items = [first]
            while self.isop(","):
                self.next()
                if self.isop("]"):
                    break
                items.append(self.expr())
            self.expect("]")
            return ("arrlit", items)
        if self.isop("|") or self.isop("||"):
            return self.closure()
        if self.isid("if"):
            return self.ifexpr()
        if self.isid("true") or self.isid("false"):
            return ("bool", self.next()[1] == "true")
        if p[0] == "id":
            name = self.next()[1]
            while self.isop("::"):
                self.next()
                if self.isop("<"):     # turbofish: skip
                    self.type_generic_skip()
                    continue
                name += "::" + self.ident()
            return ("var", name)
        if self.isop("{"):
            return ("block", self.block())
        fail("unexpected token %r" % (p,))

    def type_generic_skip(self):
        depth = 0
        while True:
            t = self.next()
            if t == ("op", "<"):
                depth += 1
            elif t == ("op", ">"):
                depth -= 1
                if depth == 0:
                    return

    def closure(self):
        params = []
        if self.isop("||"):
            self.next()
        else:
            self.expect("|")
            while not self.isop("|"):
                if self.isid("mut"):
                    self.next()
                name = self.ident()
                ty = None
                if self.isop(":"):
                    self.next()
                    ty = self.type_()
                params.append((name, ty))
                if self.isop(","):
                    self.next()
            self.expect("|")
        if self.isop("{"):
            body = self.block()
        else:
            body = [("expr", self.expr())]
        return ("closure", params, body)

    def ifexpr(self):
        self.next()
        c = self.expr(nostruct=True)
        a = self.block()
        b = None
        if self.isid("else"):
            self.next()
            if self.isid("if"):
                b = [("value", self.ifexpr())]
            else:
                b = self.block()
        return ("if", c, a, b)

    # ---- statements
    def block(self):
        self.expect("{")
        st = []
        while not self.isop("}"):
            st.append(self.stmt())
        self.expect("}")
        return st

    def pattern(self):
        if self.isop("("):
            self.next()
            items = []
            while not self.isop(")"):
                items.append(self.pattern())
                if self.isop(","):
                    self.next()
            self.expect(")")
            return ("ptuple", items)
        if self.isid("mut"):
            self.next()
        return ("pvar", self.ident())

    def stmt(self):
        if self.isop("#"):           # attribute: skip `#[...]`
            self.next()
            self.expect("[")
            depth = 1
            while depth:
                t = self.next()
                if t == ("op", "["):
                    depth += 1
                elif t == ("op", "]"):
                    depth -= 1
            return self.stmt()
        if self.isid("let"):
            self.next()
            pat = self.pattern()
            ty = None
            if self.isop(":"):
                self.next()
                ty = self.type_()
            self.expect("=")
            e = self.expr()
            self.expect(";")
            return ("let", pat, ty, e)
        if self.isid("for"):
            self.next()
            pat = self.pattern()
            if not self.isid("in"):
                fail("expected `in`")
            self.next()
            it = self.expr(nostruct=True)
            body = self.block()
            return ("for", pat, it, body)
        if self.isid("while"):
            fail("while loops are outside the subset")
        if self.isid("return"):
            self.next()
            e = None if self.isop(";") else self.expr()
            self.expect(";")
            return ("return", e)
        if self.isid("use"):
            while not self.isop(";"):
                self.next()
            self.next()
            return ("nop",)
        if self.isid() and self.isop("!", 1) and self.peek(2) == ("op", "("):
            name = self.next()[1]
            self.next()
            self.next()
            depth = 1
            while depth:
                t = self.next()
                if t == ("op", "("):
                    depth += 1
                elif t == ("op", ")"):
                    depth -= 1
            if self.isop(";"):
                self.next()
            if name not in ("assert", "assert_eq", "assert_ne", "debug_assert", "debug_assert_eq"):
                fail("macro %s! is outside the subset" % name)
            return ("nop",)
        e = self.expr()
        if self.isop("="):
            self.next()
            r = self.expr()
            self.expect(";")
            return ("assign", e, None, r)
        for op in ("+=", "-=", "*=", "/=", "%=", "^=", "&=", "|=", "<<=", ">>="):
            if self.isop(op):
                self.next()
                r = self.expr()
                self.expect(";")
                return ("assign", e, op[:-1], r)
        if self.isop(";"):
            self.next()
            return ("expr", e)
        if self.isop("}"):
            return ("value", e)          # trailing expression of a block
        if e[0] in ("if", "block"):
            return ("expr", e)
        fail("unexpected token after expression: %r" % (self.peek(),))


# ------------------------------------------------------------------------------------------------ source access
def strip_tests(src):
    i = src.find("#[cfg(test)]")
    return src if i < 0 else src[:i]


def find_fn(src, name):
    """(params_text, ret_text, body_text) of `fn name`"""
    m = re.search(r"\bfn\s+%s\s*(<[^>]*>)?\s*\(" % re.escape(name), src)
    if not m:
        fail("fn %s not found" % name)
    i = m.end() - 1
    j = match_bracket(src, i, "(", ")")
    params = src[i + 1:j]
    k = src.index("{", j)
    head = src[j + 1:k]
    ret = None
    mm = re.search(r"->\s*([^\{]+?)\s*(where\b|$)", head.strip())
    if mm:
        ret = mm.group(1).strip()
    e = match_bracket(src, k, "{", "}")
    return params, ret, src[k:e + 1]


def match_bracket(s, i, o, c):
    depth = 0
    for j in range(i, len(s)):
        if s[j] == o:
            depth += 1
        elif s[j] == c:
            depth -= 1
            if depth == 0:
                return j
    fail("unbalanced %s" % o)


def parse_params(text):
    p = Parser(lex(text))
    out = []
    while p.peek()[0] != "eof":
        if p.isop("&"):
            p.next()
            if p.isid("mut"):
                p.next()
        if p.isid("mut"):
            p.next()
        name = p.ident()
        if name == "self":
            out.append(("self", "Self"))
        else:
            p.expect(":")
            out.append((name, p.type_()))
        if p.isop(","):
            p.next()
    return out


def parse_body(text):
    return Parser(lex(text)).block()


def parse_expr(text):
    p = Parser(lex(text))
    e = p.expr()
    return e


def find_const(src, name):
    m = re.search(r"\bconst\s+%s\s*:\s*([^=]+?)\s*=\s*" % re.escape(name), src)
    if not m:
        fail("const %s not found" % name)
    j = m.end()
    # value runs to the `;` at bracket depth 0
    depth = 0
    k = j
    while True:
        ch = src[k]
        if ch in "([{":
            depth += 1
        elif ch in ")]}":
            depth -= 1
        elif ch == ";" and depth == 0:
            break
        k += 1
    return m.group(1).strip(), src[j:k]


# ------------------------------------------------------------------------------------------------ translation
class Ctx:
    """translation context: variable types, closures, constants, known helper functions"""
    def __init__(self, fns=None, consts=None):
        self.types = {}         # lean name -> rust type
        self.closures = {}      # name -> (params, body)
        self.fns = fns or {}    # helper fn name -> (param types, ret type)
        self.consts = consts or {}   # NAME -> python int | list
        self.subst = {}         # closure parameter -> ast (inlining)
        self.lines = []
        self.indent = "  "
        self.fold_loops = False  # constant-range loops whose index is unused become folds instead of being unrolled
        self.outline = set()    # closures emitted as separate defs (one per constant argument tuple)
        self.outlined = []      # [(def name, text)]

    def emit(self, s):
        self.lines.append(self.indent + s)


INT_MAX = {"usize::MAX": 2 ** 64 - 1, "u64::MAX": 2 ** 64 - 1, "u32::MAX": 2 ** 32 - 1, "u16::MAX": 65535, "u8::MAX": 255,
           "usize::BITS": 64, "u64::BITS": 64, "u32::BITS": 32, "u16::BITS": 16, "u8::BITS": 8}
CAST_BITS = {"u8": 8, "u16": 16, "u32": 32, "u64": 64, "usize": 64}


def in_scope(cx, entry, f):
    """evaluate f(ast) for a closure-parameter / loop-index binding in the scope where the argument was written"""
    ast, scope = entry
    old = cx.subst
    cx.subst = scope
    try:
        return f(ast)
    finally:
        cx.subst = old


def const_eval(e, cx):
    """python int value of a constant expression, or None"""
    k = e[0]
    if k == "num":
        return e[1]
    if k == "paren":
        return const_eval(e[1], cx)
    if k == "var":
        if e[1] in cx.subst:
            return in_scope(cx, cx.subst[e[1]], lambda a: const_eval(a, cx))
        if e[1] in INT_MAX:
            return INT_MAX[e[1]]
        v = cx.consts.get(e[1])
        return v if isinstance(v, int) else None
    if k == "call" and e[1][0] == "var" and e[1][1] in ("min", "max") and len(e[2]) == 2:
        a, b = const_eval(e[2][0], cx), const_eval(e[2][1], cx)
        if a is None or b is None:
            return None
        return min(a, b) if e[1][1] == "min" else max(a, b)
    if k == "cast":
        v = const_eval(e[1], cx)
        t = e[2] if len(e) > 2 and isinstance(e[2], str) else None
        if v is not None and t in CAST_BITS and v >= 0:
            return v % (1 << CAST_BITS[t])        # a narrowing `as` truncates
        return v
    if k == "bin":
        a, b = const_eval(e[2], cx), const_eval(e[3], cx)
        if a is None or b is None:
            return None
        op = e[1]
        return {"+": a + b, "-": a - b, "*": a * b, "/": a // b if b else None, "%": a % b if b else None,
                "<<": a << b, ">>": a >> b, "&": a & b, "|": a | b, "^": a ^ b}.get(op)
    if k == "index":
        base = e[1]
        while base[0] in ("paren", "cast"):
            base = base[1]
        idx = const_eval(e[2], cx)
        if idx is None:
            return None
        if base[0] == "var" and isinstance(cx.consts.get(base[1]), list):
            v = cx.consts[base[1]][idx]
            return v if isinstance(v, int) else None
        if base[0] == "index":
            inner = const_lookup_list(base, cx)
            if isinstance(inner, list):
                return inner[idx]
        return None
    return None


def const_lookup_list(e, cx):
    while e[0] in ("paren", "cast"):
        e = e[1]
    if e[0] == "var" and isinstance(cx.consts.get(e[1]), list):
        return cx.consts[e[1]]
    if e[0] == "index":
        base = const_lookup_list(e[1], cx)
        idx = const_eval(e[2], cx)
        if isinstance(base, list) and idx is not None:
            return base[idx]
    return None


def lvalue_name(e, cx):
    """lean variable name of an lvalue: x | self.f | a[const] | self.f[const] | closure parameter standing for one"""
    k = e[0]
    if k == "paren":
        return lvalue_name(e[1], cx)
    if k == "var":
        if e[1] in cx.subst:
            return in_scope(cx, cx.subst[e[1]], lambda a: lvalue_name(a, cx))
        return lid(e[1])
    if k == "field":
        return lvalue_name(e[1], cx) + "_" + e[2]
    if k == "index":
        i = const_eval(e[2], cx)
        if i is None:
            fail("array index is not a compile-time constant: %r" % (e[2],))
        return "%s_%d" % (lvalue_name(e[1], cx), i)
    fail("unsupported lvalue %r" % (e,))


def bytes_elem(e, cx):
    """(base lean name, index ast) if e is `s[i]` on a byte-slice variable, else None"""
    while e[0] == "paren":
        e = e[1]
    if e[0] == "index" and e[2][0] != "range" and e[1][0] == "var" and e[1][1] not in cx.subst and cx.types.get(lid(e[1][1])) == "bytes":
        return lid(e[1][1]), e[2]
    return None


def typeof(e, cx):
    k = e[0]
    if k == "num":
        return e[2]
    if k == "bool":
        return "bool"
    if k == "paren":
        return typeof(e[1], cx)
    if k == "var":
        if e[1] in cx.subst:
            return in_scope(cx, cx.subst[e[1]], lambda a: typeof(a, cx))
        n = lid(e[1])
        if n in cx.types:
            return cx.types[n]
        if e[1] in cx.consts:
            return cx.consts.get("type:" + e[1])
        return None
    if k == "index" and bytes_elem(e, cx) is not None:
        return "u8"
    if k in ("field", "index"):
        try:
            n = lvalue_name(e, cx)
            if n in cx.types:
                return cx.types[n]
        except Unsupported:
            pass
        if k == "index":
            bt = typeof(e[1], cx)
            if isinstance(bt, tuple) and bt[0] in ("arr", "slice"):
                if e[2][0] == "range":
                    return ("slice", bt[1])
                return bt[1]
            c = const_lookup_list(e[1], cx)
            if c is not None:
                return cx.consts.get("eltype:" + root_name(e[1]))
        return None
    if k == "cast":
        return e[2]
    if k == "not" or k == "neg":
        return typeof(e[1], cx)
    if k == "bin":
        if e[1] in ("==", "!=", "<", ">", "<=", ">=", "&&", "||"):
            return "bool"
        if e[1] in ("<<", ">>"):
            return typeof(e[2], cx)
        return typeof(e[2], cx) or typeof(e[3], cx)
    if k == "call":
        f = e[1]
        if f[0] == "var":
            name = f[1]
            if name in ("u128::from", "u64::from", "u32::from", "usize::from", "u16::from"):
                return name.split("::")[0]
            if name in ("std::cmp::min", "std::cmp::max", "core::cmp::min", "min", "max"):
                return typeof(e[2][0], cx) or typeof(e[2][1], cx)
            if name in cx.fns:
                return cx.fns[name][1]
        return None
    if k == "method":
        if e[2] in ("wrapping_add", "wrapping_sub", "wrapping_mul", "rotate_right", "rotate_left", "min", "max", "pow"):
            return typeof(e[1], cx)
        if e[2] == "len":
            return "usize"
        if e[2] in ("remainder", "to_le_bytes"):
            return "bytes"
        return None
    if k == "if":
        return block_type(e[2], cx)
    return None


def root_name(e):
    while e[0] in ("paren", "cast", "index", "field"):
        e = e[1]
    return e[1] if e[0] == "var" else "?"


def block_type(b, cx):
    if b and b[-1][0] == "value":
        return typeof(b[-1][1], cx)
    return None


def pw(w):
    return {8: "256", 16: "65536", 32: "U32", 64: "U64", 128: "U128"}[w]


def ex(e, cx, want=None):
    """Lean text of an expression; `want` is the Rust type an untyped literal takes"""
    k = e[0]
    if k == "num":
        return str(e[1])
    if k == "bool":
        return "true" if e[1] else "false"
    if k == "paren":
        return ex(e[1], cx, want)
    if k == "var":
        if e[1] in cx.subst:
            return in_scope(cx, cx.subst[e[1]], lambda a: ex(a, cx, want))
        if e[1] in cx.consts and isinstance(cx.consts[e[1]], int):
            return str(cx.consts[e[1]])
        n = lid(e[1])
        if n not in cx.types:
            fail("unknown variable %s" % e[1])
        return n
    if k == "field":
        n = lvalue_name(e, cx)
        if n not in cx.types:
            fail("unknown field %s" % n)
        return n
    if k == "index":
        if e[2][0] == "range":
            base = ex(e[1], cx)
            lo, hi = e[2][1], e[2][2]
            if lo is None and hi is None:
                return base
            if lo is None:
                return "(%s.take %s)" % (base, ex(hi, cx, "usize"))
            if hi is None:
                return "(%s.drop %s)" % (base, ex(lo, cx, "usize"))
            lo_s, hi_s = ex(lo, cx, "usize"), ex(hi, cx, "usize")
            lc, hc = const_eval(lo, cx), const_eval(hi, cx)
            if lc is not None and hc is not None:
                return "((%s.drop %d).take %d)" % (base, lc, hc - lc)
            return "((%s.drop %s).take (%s - %s))" % (base, lo_s, hi_s, lo_s)
        c = const_eval(e, cx)
        if c is not None:
            return str(c)
        bt = typeof(e[1], cx)
        if isinstance(bt, tuple) and bt[0] == "slice" or bt == "bytes":
            return "(byteAt %s %s)" % (ex(e[1], cx), ex(e[2], cx, "usize"))
        n = lvalue_name(e, cx)
        if n not in cx.types:
            fail("unknown array element %s" % n)
        return n
    if k == "cast":
        src = typeof(e[1], cx)
        tgt = e[2]
        inner = ex(e[1], cx, tgt if src is None else None)
        if isinstance(tgt, tuple):          # `SIGMA[r] as [usize; 16]`
            return inner
        if src is None or src == "bool" or tgt not in WIDTH:
            if src == "bool":
                return "(if %s then 1 else 0)" % inner
            return inner
        if src not in WIDTH:
            fail("cast from %r" % (src,))
        if WIDTH[tgt] >= WIDTH[src]:
            return inner
        return "(%s %% %s)" % (inner, pw(WIDTH[tgt]))
    if k == "not":
        t = typeof(e[1], cx) or want
        if t == "bool":
            return "(!%s)" % ex(e[1], cx)
        if t not in WIDTH:
            fail("`!` on a value of unknown width")
        return "(%s - 1 - %s)" % (pw(WIDTH[t]), ex(e[1], cx, t))
    if k == "bin":
        op = e[1]
        lt, rt = typeof(e[2], cx), typeof(e[3], cx)
        if op in ("<<", ">>"):
            t = lt or want
            a, b = ex(e[2], cx, t), ex(e[3], cx, "u32")
            if op == ">>":
                return "(%s >>> %s)" % (a, b)
            if t not in WIDTH:
                fail("`<<` on a value of unknown width: %r" % (e,))
            return "((%s <<< %s) %% %s)" % (a, b, pw(WIDTH[t]))
        t = lt or rt or want
        a, b = ex(e[2], cx, t), ex(e[3], cx, t)
        if op in ("+", "*", "-", "/", "%"):
            return "(%s %s %s)" % (a, op, b)
        if op in ("&", "|", "^"):
            return "(%s %s %s)" % (a, {"&": "&&&", "|": "|||", "^": "^^^"}[op], b)
        if op in ("==", "!=", "<", ">", "<=", ">="):
            return "(decide (%s %s %s))" % (a, {"==": "=", "!=": "≠", "<": "<", ">": ">", "<=": "≤", ">=": "≥"}[op], b)
        if op in ("&&", "||"):
            return "(%s %s %s)" % (a, op, b)
        fail("operator %s" % op)
    if k == "call":
        f = e[1]
        if f[0] != "var":
            fail("call of a non-name")
        name = f[1]
        if name in ("u128::from", "u64::from", "u32::from", "usize::from", "u16::from"):
            return ex(e[2][0], cx, name.split("::")[0])
        if name in ("std::cmp::min", "core::cmp::min", "min"):
            return "(min %s %s)" % (ex(e[2][0], cx, want), ex(e[2][1], cx, want))
        if name in ("std::cmp::max", "core::cmp::max", "max"):
            return "(max %s %s)" % (ex(e[2][0], cx, want), ex(e[2][1], cx, want))
        if name in cx.fns:
            ptys = cx.fns[name][0]
            if len(ptys) != len(e[2]):
                fail("arity of %s" % name)
            return "(%s %s)" % (name, " ".join(ex(a, cx, t) for a, t in zip(e[2], ptys)))
        fail("call of unknown function %s" % name)
    if k == "method":
        recv, m, args = e[1], e[2], e[3]
        t = typeof(recv, cx) or want
        if m in ("wrapping_add", "wrapping_sub", "wrapping_mul", "rotate_right", "rotate_left"):
            if t not in WIDTH:
                fail("%s on a value of unknown width: %r" % (m, recv))
            a, b, W = ex(recv, cx, t), ex(args[0], cx, t if m.startswith("wrapping") else "u32"), pw(WIDTH[t])
            if m == "wrapping_add":
                return "((%s + %s) %% %s)" % (a, b, W)
            if m == "wrapping_sub":
                return "((%s + %s - %s) %% %s)" % (a, W, b, W)
            if m == "wrapping_mul":
                return "((%s * %s) %% %s)" % (a, b, W)
            if m == "rotate_right":
                return "(((%s >>> %s) ||| (%s <<< (%d - %s))) %% %s)" % (a, b, a, WIDTH[t], b, W)
            return "(((%s <<< %s) ||| (%s >>> (%d - %s))) %% %s)" % (a, b, a, WIDTH[t], b, W)
        if m == "remainder" and not args and recv[0] == "method" and recv[2] == "chunks_exact":
            n = const_eval(recv[3][0], cx)
            base = ex(recv[1], cx)
            return "(%s.drop (%s.length / %d * %d))" % (base, base, n, n)
        if m == "len" and not args:
            return "%s.length" % ex(recv, cx)
        if m in ("min", "max"):
            return "(%s %s %s)" % (m, ex(recv, cx, want), ex(args[0], cx, t))
        if m in ("clone", "as_slice", "as_array", "as_ref", "to_vec", "borrow", "into") and not args:
            return ex(recv, cx, want)
        if m == "to_le_bytes" and not args:
            if t not in WIDTH:
                fail("to_le_bytes on unknown width")
            return "(toLE %d %s)" % (WIDTH[t] // 8, ex(recv, cx, t))
        fail("method .%s()" % m)
    if k == "if":
        if e[3] is None:
            fail("`if` without else used as a value")
        c = ex(e[1], cx)
        return "(if %s then %s else %s)" % (c, block_value(e[2], cx, want), block_value(e[3], cx, want))
    if k == "block":
        return block_value(e[1], cx, want)
    if k == "tuple":
        return "(%s)" % ", ".join(ex(x, cx, want) for x in e[1])
    fail("expression form %s" % k)


def block_value(b, cx, want):
    if len(b) == 1 and b[0][0] == "value":
        return ex(b[0][1], cx, want)
    fail("a block used as a value must be a single expression")


def collect_assigned(stmts, cx, acc, declared):
    """lean names assigned (not declared) inside stmts — the loop-carried variables of a fold"""
    for s in stmts:
        k = s[0]
        if k == "let":
            for n in pat_names(s[1]):
                declared.add(n)
        elif k == "assign":
            be = bytes_elem(s[1], cx)
            try:
                n = be[0] if be else lvalue_name(s[1], cx)
            except Unsupported:
                continue
            if n not in declared and n not in acc:
                acc.append(n)
        elif k == "for":
            collect_assigned(s[3], cx, acc, set(declared) | set(pat_names(s[1])))
        elif k == "expr" and s[1][0] == "call" and s[1][1][0] == "var" and s[1][1][1] in cx.closures:
            params, body = cx.closures[s[1][1][1]]
            saved = dict(cx.subst)
            for (pn, _), a in zip(params, s[1][2]):
                cx.subst[pn] = (a, saved)
            collect_assigned(body, cx, acc, set(declared))
            cx.subst = saved
        elif k == "expr" and s[1][0] == "if":
            collect_assigned(s[1][2], cx, acc, set(declared))
            if s[1][3]:
                collect_assigned(s[1][3], cx, acc, set(declared))


def subst_expr(e, subst):
    """resolve closure parameters inside an argument expression (arguments are evaluated in the caller's scope)"""
    if not isinstance(e, tuple):
        return e
    if e[0] == "var" and e[1] in subst:
        return subst[e[1]]
    return tuple(subst_expr(x, subst) if isinstance(x, tuple) else ([subst_expr(y, subst) for y in x] if isinstance(x, list) else x) for x in e)


def pat_names(p):
    if p[0] == "pvar":
        return [lid(p[1])]
    out = []
    for q in p[1]:
        out += pat_names(q)
    return out


def stmts(ss, cx):
    for s in ss:
        stmt(s, cx)


def bind(cx, name, text, ty):
    cx.emit("let %s := %s" % (name, text))
    cx.types[name] = ty


def stmt(s, cx):
    k = s[0]
    if k == "nop":
        return
    if k == "let":
        pat, ty, e = s[1], s[2], s[3]
        if e[0] == "closure":
            if pat[0] != "pvar":
                fail("closure bound to a pattern")
            cx.closures[pat[1]] = (e[1], e[2])
            return
        if pat[0] == "ptuple" and e[0] == "method" and e[2] == "unwrap_or" and e[1][0] == "var" and cx.types.get(lid(e[1][1])) == "option_tuple":
            d = e[3][0]
            while d[0] == "paren":
                d = d[1]
            if d[0] != "tuple" or len(d[1]) != len(pat[1]):
                fail("unwrap_or default shape")
            names = [pat_names(q)[0] for q in pat[1]]
            el = cx.consts.get("optiontype:" + e[1][1], "u32")
            cx.emit("let (%s) := %s.getD (%s)" % (", ".join(names), lid(e[1][1]), ", ".join(ex(x, cx, el) for x in d[1])))
            for n in names:
                cx.types[n] = el
            return
        if pat[0] == "ptuple":
            if e[0] != "tuple" or len(e[1]) != len(pat[1]):
                fail("tuple pattern needs a tuple literal")
            vals = [(pat_names(p)[0], ex(x, cx), typeof(x, cx)) for p, x in zip(pat[1], e[1])]
            for n, t, tt in vals:
                bind(cx, n, t, tt)
            return
        name = lid(pat[1])
        if e[0] == "arrrep":                       # let mut tv = [0u64; 16];
            n = const_eval(e[2], cx)
            if n is None:
                fail("array length not constant")
            el = typeof(e[1], cx) or (ty[1] if isinstance(ty, tuple) else None)
            if el == "u8":          # byte arrays stay byte strings
                v = const_eval(e[1], cx)
                if v is None:
                    fail("byte array initialiser")
                bind(cx, name, "(List.replicate %d (%d : UInt8))" % (n, v), "bytes")
                return
            for i in range(n):
                bind(cx, "%s_%d" % (name, i), ex(e[1], cx, el), el)
            cx.types[name] = ("arr", el, ("num", n, None))
            return
        if e[0] == "arrlit":
            el = ty[1] if isinstance(ty, tuple) else None
            for i, x in enumerate(e[1]):
                bind(cx, "%s_%d" % (name, i), ex(x, cx, el), typeof(x, cx) or el)
            cx.types[name] = ("arr", el, ("num", len(e[1]), None))
            return
        t = ty or typeof(e, cx)
        bind(cx, name, ex(e, cx, t), t)
        return
    if k == "assign":
        lhs, op, rhs = s[1], s[2], s[3]
        bl = bytes_elem(lhs, cx)
        if bl is not None:      # out[i] = e / out[i] ^= e on a byte slice with a run-time index
            base, idx = bl
            val = ex(rhs, cx, "u8") if op is None else ex(("bin", op, lhs, rhs), cx, "u8")
            bind(cx, base, "(setByte %s %s %s)" % (base, ex(idx, cx, "usize"), val), "bytes")
            return
        # whole-array copies: tv[..8].copy_from_slice(sh) are handled as method statements
        n = lvalue_name(lhs, cx)
        if n not in cx.types:
            fail("assignment to undeclared %s" % n)
        t = cx.types[n]
        if isinstance(t, tuple) and t[0] == "arr":
            fail("whole-array assignment to %s" % n)
        if op is None:
            bind(cx, n, ex(rhs, cx, t), t)
        else:
            bind(cx, n, ex(("bin", op, lhs, rhs), cx, t), t)
        return
    if k == "expr":
        e = s[1]
        if e[0] == "call" and e[1][0] == "var" and e[1][1] in cx.closures:
            params, body = cx.closures[e[1][1]]
            if len(params) != len(e[2]):
                fail("closure arity")
            cname = e[1][1]
            if cname in cx.outline:
                outline_call(cx, cname, params, body, e[2])
                return
            saved = dict(cx.subst)
            for (pn, _), a in zip(params, e[2]):
                cx.subst[pn] = (a, saved)
            # closure-local lets must not leak: translate in the same let-chain (shadowing is harmless for locals
            # that are re-bound before use; we check that no closure-local name collides with an outer live name)
            for st in body:
                if st[0] == "let":
                    for nm in pat_names(st[1]):
                        if nm in cx.types:
                            fail("closure local %s shadows an outer variable" % nm)
            stmts(body, cx)
            cx.subst = saved
            return
        if e[0] == "method" and e[2] == "copy_from_slice":
            d = e[1]
            if d[0] == "var" and d[1] not in cx.subst and cx.types.get(lid(d[1])) == "bytes":
                n = lid(d[1])
                bind(cx, n, "(setSlice %s 0 %s)" % (n, ex(e[3][0], cx)), "bytes")
                return
            if d[0] == "index" and d[2][0] == "range" and d[1][0] == "var" and cx.types.get(lid(d[1][1])) == "bytes":
                n = lid(d[1][1])
                lo = "0" if d[2][1] is None else ex(d[2][1], cx, "usize")
                bind(cx, n, "(setSlice %s %s %s)" % (n, lo, ex(e[3][0], cx)), "bytes")
                return
            copy_from_slice(e[1], e[3][0], cx)
            return
        if e[0] == "method" and e[2] == "fill" and const_eval(e[3][0], cx) is not None:
            t = typeof(e[1], cx)
            if isinstance(t, tuple) and t[0] == "arr":
                base = lvalue_name(e[1], cx)
                for i in range(const_eval(t[2], cx)):
                    bind(cx, "%s_%d" % (base, i), str(const_eval(e[3][0], cx)), t[1])
                return
        if e[0] == "if":
            if_stmt(e, cx)
            return
        if e[0] == "method" and e[2] == "zeroize" and not e[3] and e[1][0] == "var" and cx.types.get(lid(e[1][1])) == "bytes":
            n = lid(e[1][1])
            bind(cx, n, "(List.replicate %s.length (0 : UInt8))" % n, "bytes")
            return
        fail("expression statement %r" % (e[:3],))
    if k == "for":
        for_stmt(s, cx)
        return
    if k == "value":
        cx.value = ex(s[1], cx, getattr(cx, "ret", None))
        return
    if k == "return":
        fail("`return` is outside the subset")
    fail("statement %s" % k)


def outline_call(cx, cname, params, body, args):
    """a closure called with constant arguments becomes its own def over the variables it touches"""
    vals = [const_eval(a, cx) for a in args]
    if any(v is None for v in vals):
        fail("outlined closure %s called with a non-constant argument" % cname)
    dname = "%s_%s" % (cname, "_".join(str(v) for v in vals)) if vals else cname
    sub = Ctx(cx.fns, cx.consts)
    sub.types = dict(cx.types)
    sub.closures = dict(cx.closures)
    sub.outline = cx.outline - {cname}
    sub.outlined = cx.outlined
    saved = dict(cx.subst)
    sub.subst = dict(saved)
    for (pn, _), a in zip(params, args):
        sub.subst[pn] = (a, saved)
    acc = []
    collect_assigned(body, sub, acc, set())
    acc = [a for a in acc if a in cx.types]
    stmts(body, sub)
    text = "\n".join(sub.lines)
    words = set(re.findall(r"[A-Za-z_][A-Za-z0-9_]*", text))
    ins = [n for n, t in cx.types.items() if n in words and not isinstance(t, tuple) and t != "bytes" and t != "bool"]
    res = "(%s)" % ", ".join(acc) if len(acc) > 1 else acc[0]
    if dname not in [d for d, _ in cx.outlined]:
        head = "def %s (%s : Nat) : %s :=" % (dname, " ".join(ins), " × ".join("Nat" for _ in acc))
        cx.outlined.append((dname, "\n".join([head] + sub.lines + ["  " + res]) + "\n"))
    cx.emit("let %s := %s %s" % (res, dname, " ".join(ins)))


def copy_from_slice(dst, src, cx):
    """a[lo..hi].copy_from_slice(b) between constant-indexed arrays"""
    def span(e):
        if e[0] == "index" and e[2][0] == "range":
            base = lvalue_name(e[1], cx)
            t = cx.types.get(base)
            n = const_eval(t[2], cx) if isinstance(t, tuple) and t[0] == "arr" else None
            lo = 0 if e[2][1] is None else const_eval(e[2][1], cx)
            hi = n if e[2][2] is None else const_eval(e[2][2], cx)
            return base, lo, hi, t
        base = lvalue_name(e, cx)
        t = cx.types.get(base)
        if not (isinstance(t, tuple) and t[0] == "arr"):
            fail("copy_from_slice on %s" % base)
        return base, 0, const_eval(t[2], cx), t
    db, dlo, dhi, dt = span(dst)
    sb, slo, shi, st_ = span(src)
    if None in (dlo, dhi, slo, shi) or dhi - dlo != shi - slo:
        fail("copy_from_slice with non-constant or mismatched spans")
    for i in range(dhi - dlo):
        bind(cx, "%s_%d" % (db, dlo + i), "%s_%d" % (sb, slo + i), dt[1])


def if_stmt(e, cx):
    """statement-level `if c { … } [else { … }]`: both branches become one tuple-valued if over the variables they assign"""
    acc = []
    collect_assigned(e[2], cx, acc, set())
    if e[3]:
        collect_assigned(e[3], cx, acc, set())
    acc = [n for n in acc if n in cx.types]
    if not acc:
        fail("`if` statement assigns nothing")
    c = ex(e[1], cx)

    def branch(b):
        sub = Ctx(cx.fns, cx.consts)
        sub.types = dict(cx.types)
        sub.closures = dict(cx.closures)
        sub.subst = dict(cx.subst)
        sub.indent = cx.indent + "    "
        stmts(b or [], sub)
        sub.emit("(%s)" % ", ".join(acc))
        return "\n".join(sub.lines)
    tup = "(%s)" % ", ".join(acc)
    cx.emit("let %s :=" % tup if len(acc) > 1 else "let %s :=" % acc[0])
    cx.emit("  if %s then" % c)
    cx.lines.append(branch(e[2]))
    cx.emit("  else")
    cx.lines.append(branch(e[3]))


def uses_var(x, name):
    if isinstance(x, tuple):
        if x[0] == "var" and x[1] == name:
            return True
        return any(uses_var(y, name) for y in x[1:])
    if isinstance(x, list):
        return any(uses_var(y, name) for y in x)
    return False


def fold_stmt(cx, body, var, var_type, lean_list_expr, declared):
    """`for var in <list>` as a foldl over the loop-carried variables (those assigned in the body and declared outside)"""
    acc = []
    collect_assigned(body, cx, acc, set(declared))
    acc = [a for a in acc if a in cx.types]
    if not acc:
        fail("loop carries no state")
    sub = Ctx(cx.fns, cx.consts)
    sub.types = dict(cx.types)
    sub.types[var] = var_type
    sub.closures = dict(cx.closures)
    sub.subst = dict(cx.subst)
    sub.outline = cx.outline
    sub.outlined = cx.outlined
    sub.fold_loops = cx.fold_loops
    sub.indent = cx.indent + "    "
    stmts(body, sub)
    tup = "(%s)" % ", ".join(acc) if len(acc) > 1 else acc[0]
    sub.emit(tup)
    cx.emit("let %s := (%s).foldl (fun x__ %s =>" % (tup, lean_list_expr, var))
    cx.emit("    let %s := x__" % tup)
    cx.lines.append("\n".join(sub.lines))
    cx.emit("  ) %s" % tup)


def for_stmt(s, cx):
    pat, it, body = s[1], s[2], s[3]
    rng_ = it
    rev = False
    if rng_[0] == "method" and rng_[2] == "rev" and rng_[1][0] == "paren":
        rng_, rev = rng_[1][1], True
    step = 1
    if rng_[0] == "method" and rng_[2] == "step_by" and rng_[1][0] == "paren":
        step = const_eval(rng_[3][0], cx)
        if not step:
            fail("step_by argument")
        rng_ = rng_[1][1]
        lo0, hi0 = const_eval(rng_[1], cx), const_eval(rng_[2], cx)
        if lo0 is None or hi0 is None:
            fail("step_by on a run-time range")
        if uses_var(body, pat[1]):
            fail("step_by loop that uses its index")
        rng_ = ("range", ("num", 0, None), ("num", len(range(lo0, hi0, step)), None))
        step = 1
    if rng_[0] == "paren":
        rng_ = rng_[1]
    if rng_[0] == "range":
        if pat[0] != "pvar":
            fail("for pattern")
        lo, hi = const_eval(rng_[1], cx), const_eval(rng_[2], cx)
        if lo is not None and hi is not None and cx.fold_loops and not rev and step == 1 and hi - lo >= 4 and not uses_var(body, pat[1]):
            fold_stmt(cx, body, "_i", "usize", "List.range' %d %d" % (lo, hi - lo), [])
            return
        if lo is None or hi is None:
            # run-time bounds: a fold over the index list
            los, his = ex(rng_[1], cx, "usize"), ex(rng_[2], cx, "usize")
            lst = "List.range' %s (%s - %s)" % (los, his, los)
            if rev:
                lst = "(%s).reverse" % lst
            fold_stmt(cx, body, lid(pat[1]), "usize", lst, pat_names(pat))
            return
        # constant range: unroll
        idxs = list(range(lo, hi))
        if rev:
            idxs.reverse()
        saved = dict(cx.subst)
        for i in idxs:
            cx.subst[pat[1]] = (("num", i, "usize"), {})
            stmts(body, cx)
        cx.subst = saved
        return
    # `for b in bytes` over a (mutable) byte slice: a fold that rebuilds the slice element by element
    if it[0] == "var" and it[1] not in cx.subst and cx.types.get(lid(it[1])) == "bytes" and pat[0] == "pvar":
        base, var = lid(it[1]), lid(pat[1])
        acc = []
        collect_assigned(body, cx, acc, set())
        writes = var in acc
        acc = [a for a in acc if a in cx.types and a != var and a != base]
        sub = Ctx(cx.fns, cx.consts)
        sub.types = dict(cx.types)
        sub.types[var] = "u8"
        sub.closures = dict(cx.closures)
        sub.subst = dict(cx.subst)
        sub.indent = cx.indent + "    "
        stmts(body, sub)
        state = acc + ["out__"]
        tup = "(%s)" % ", ".join(state)
        sub.emit("(%s)" % ", ".join(acc + ["out__ ++ [UInt8.ofNat %s]" % var]))
        cx.emit("let (%s) := (%s).foldl (fun x__ b__ =>" % (", ".join(acc + [base]), base))
        cx.emit("    let %s := x__" % tup)
        cx.emit("    let %s := b__.toNat" % var)
        cx.lines.append("\n".join(sub.lines))
        cx.emit("  ) (%s)" % ", ".join(acc + ["([] : Bytes)"]))
        if not writes:
            fail("byte loop that does not write its element: use chunks or an index loop")
        return
    # chunks(N) / chunks_exact(N) of a byte slice: a fold over the loop-carried variables
    if it[0] == "method" and it[2] in ("chunks", "chunks_exact"):
        n = const_eval(it[3][0], cx)
        if n is None:
            fail("chunk size not constant")
        chunker = "chunks" if it[2] == "chunks" else "chunksExact"
        fold_stmt(cx, body, lid(pat[1]), "bytes", "%s %d %s" % (chunker, n, ex(it[1], cx)), pat_names(pat))
        return
    fail("for-loop iterator %r" % (it[:3],))


# ------------------------------------------------------------------------------------------------ function-level driver
def lean_type(t):
    if isinstance(t, tuple) and t[0] == "tuplety":
        return " × ".join(lean_type(x) for x in t[1])
    if isinstance(t, tuple) and t[0] == "arr" and t[1] == "u8":
        return "Bytes"
    if t in WIDTH:
        return "Nat"
    if t == "bool":
        return "Bool"
    if t == "bytes" or (isinstance(t, tuple) and t[0] == "slice"):
        return "Bytes"
    fail("lean type of %r" % (t,))


def translate_fn(src, name, cx_fns, consts, self_fields=None, lean_name=None, outputs=None, array_params=None, ret_bytes=False, outline=(),
                 structs=None, const_params=None, field_override=None, inline_fns=(), fold_loops=False, param_types=None):
    """one Rust function -> one Lean def.
    self_fields: {field: rust type} for `self`; array params and self fields are scalar-replaced (name_i).
    outputs: list of lean variable names returned as a tuple (default: the function's return value)."""
    params_t, ret_t, body_t = find_fn(src, name)
    params = parse_params(params_t)
    body = parse_body(body_t)
    cx = Ctx(cx_fns, consts)
    cx.fold_loops = fold_loops
    for f in inline_fns:       # helper functions with `&mut` scalar parameters behave like closures: inlined at each call
        fp, _, fb = find_fn(src, f)
        cx.closures[f] = ([(n, t) for n, t in parse_params(fp)], parse_body(fb))
    lean_params = []
    for pn, pt in params:
        if param_types and pn in param_types:
            pt = param_types[pn]
        if pt == "option_tuple":
            cx.types[lid(pn)] = "option_tuple"
            lean_params.append("(%s : Option (Nat × Nat × Nat × Nat))" % lid(pn))
            continue
        if pn == "self":
            for f, ft in (self_fields or {}).items():
                declare(cx, "self_" + f, ft, lean_params)
        elif const_params and pn in const_params:
            cx.subst[pn] = (("num", const_params[pn], pt if pt in WIDTH else "usize"), {})
        elif structs and isinstance(pt, str) and pt in structs:
            for f, ft in structs[pt].items():
                if field_override and (pt, f) in field_override:
                    ft = field_override[(pt, f)]
                declare(cx, lid(pn) + "_" + f, ft, lean_params)
        else:
            declare(cx, pn, pt, lean_params)
    if ret_t:
        cx.ret = Parser(lex(ret_t)).type_()
    cx.outline = set(outline)
    stmts(body, cx)
    pre_defs = "".join(t + "\n" for _, t in cx.outlined)
    lines = ["def %s %s : %s :=" % (lean_name or name, " ".join(lean_params), "%s")]
    if outputs:
        for o in outputs:
            if o not in cx.types:
                fail("output %s is not a variable of %s" % (o, name))
        res = "(%s)" % ", ".join(outputs) if len(outputs) > 1 else outputs[0]
        rty = " × ".join("Nat" for _ in outputs)
    else:
        if not hasattr(cx, "value"):
            fail("%s has no value and no outputs were named" % name)
        res = cx.value
        rty = "Bytes" if ret_bytes else lean_type(cx.ret)
    if outputs and all(cx.types.get(o) == "bytes" for o in outputs):
        rty = " × ".join("Bytes" for _ in outputs)
    lines[0] = lines[0] % rty
    return pre_defs + "\n".join(lines + cx.lines + ["  " + res]) + "\n"


def declare(cx, name, t, lean_params):
    name = lid(name)
    if isinstance(t, tuple) and t[0] == "arr":
        n = const_eval(t[2], cx)
        if n is None:
            fail("array length of %s" % name)
        if t[1] == "u8":
            cx.types[name] = "bytes"
            lean_params.append("(%s : Bytes)" % name)
            return
        cx.types[name] = ("arr", t[1], ("num", n, None))
        names = ["%s_%d" % (name, i) for i in range(n)]
        for x in names:
            cx.types[x] = t[1]
        lean_params.append("(%s : Nat)" % " ".join(names))
        return
    if isinstance(t, tuple) and t[0] == "slice":
        if t[1] != "u8":
            fail("slice of %s" % t[1])
        cx.types[name] = "bytes"
        lean_params.append("(%s : Bytes)" % name)
        return
    cx.types[name] = t
    lean_params.append("(%s : %s)" % (name, lean_type(t)))


def struct_fields(src, name):
    """{field: type} of `struct name { … }` (scalar and fixed-array fields only; others are skipped)"""
    m = re.search(r"\bstruct\s+%s\s*\{" % re.escape(name), src)
    if not m:
        fail("struct %s not found" % name)
    j = match_bracket(src, m.end() - 1, "{", "}")
    body = re.sub(r"#\[[^\]]*\]", "", src[m.end():j])
    body = re.sub(r"//[^\n]*", "", body)
    body = re.sub(r"/\*.*?\*/", "", body, flags=re.S)
    out = {}
    for item in split_top(body):
        item = item.strip()
        if not item:
            continue
        item = re.sub(r"^pub(\([^)]*\))?\s+", "", item)
        fname, _, ftype = item.partition(":")
        try:
            t = Parser(lex(ftype.strip())).type_()
        except Unsupported:
            continue
        if t in WIDTH or t == "bool" or (isinstance(t, tuple) and t[0] == "arr"):
            out[fname.strip()] = t
    return out


def split_top(text):
    parts, depth, cur = [], 0, ""
    for ch in text:
        if ch in "([{<":
            depth += 1
        elif ch in ")]}>":
            depth -= 1
        if ch == "," and depth == 0:
            parts.append(cur)
            cur = ""
        else:
            cur += ch
    parts.append(cur)
    return parts


def helper_sigs(src, names):
    sigs = {}
    for n in names:
        params_t, ret_t, _ = find_fn(src, n)
        ps = parse_params(params_t)
        sigs[n] = ([t for _, t in ps], Parser(lex(ret_t)).type_() if ret_t else None)
    return sigs


def const_table(src, name):
    """python value of `const NAME: T = …;` made of integer literals / nested arrays"""
    ty, val = find_const(src, name)
    e = parse_expr(val)

    def ev(x):
        if x[0] == "arrlit":
            return [ev(y) for y in x[1]]
        v = const_eval(x, Ctx())
        if v is None:
            fail("constant %s is not literal" % name)
        return v
    return ev(e), ty


def header(path, ns, imports=()):
    return ("/-\nGENERATED by tools/rs2lean.py from %s -- do not edit; regenerated on every run of the checks.\n-/\n"
            "import DryocVerif.Bytes\nimport DryocVerif.Gen.Prelude\n%s"
            "set_option linter.unusedVariables false\nnamespace DryocVerif.Gen.%s\nopen DryocVerif DryocVerif.Gen\n\n"
            % (path, "".join("import %s\n" % m for m in imports), ns))



def lean_list(v):
    if isinstance(v, list):
        return "[" + ", ".join(lean_list(x) for x in v) + "]"
    return str(v)


# ------------------------------------------------------------------------------------------------ kernels
def k_utils(repo):
    src = strip_tests(open(os.path.join(repo, "src/utils.rs")).read())
    out = header("src/utils.rs", "Utils")
    for fn in ("load_u64_le", "load_u32_le", "rotr64", "pad16"):
        out += translate_fn(src, fn, {}, {}) + "\n"
    out += translate_fn(src, "increment_bytes", {}, {}, outputs=["bytes"]) + "\n"
    out += translate_fn(src, "xor_buf", {}, {}, outputs=["out"]) + "\n"
    return out + "end DryocVerif.Gen.Utils\n"


def utils_sigs(repo):
    src = strip_tests(open(os.path.join(repo, "src/utils.rs")).read())
    return helper_sigs(src, ["load_u64_le", "load_u32_le", "rotr64", "pad16"])


def k_poly1305(repo):
    path = "src/poly1305/poly1305_soft.rs"
    src = strip_tests(open(os.path.join(repo, path)).read())
    fns = utils_sigs(repo)
    fns.update(helper_sigs(src, ["mul", "shr", "lo"]))
    blk, _ = const_table(src, "BLOCK_SIZE")
    consts = {"BLOCK_SIZE": blk}
    fields = {"r": ("arr", "u64", ("num", 3, None)), "h": ("arr", "u64", ("num", 3, None)), "pad": ("arr", "u64", ("num", 2, None))}
    out = with_utils(path, "Poly1305")
    for h in ("mul", "shr", "lo"):
        out += translate_fn(src, h, fns, consts) + "\n"
    # `new`: only the clamping arithmetic (the struct construction is modelled by hand)
    out += translate_region(src, "new", fns, consts, start="let (t0, t1)", stop="state\n", lean_name="new",
                            params=[("key", "bytes")], pre={"state_r": fields["r"], "state_h": fields["h"], "state_pad": fields["pad"]},
                            rename={"state.r": "state_r", "state.h": "state_h", "state.pad": "state_pad"},
                            outputs=["state_r_0", "state_r_1", "state_r_2", "state_h_0", "state_h_1", "state_h_2", "state_pad_0", "state_pad_1"]) + "\n"
    out += translate_fn(src, "blocks", fns, consts, self_fields={"r": fields["r"], "h": fields["h"]},
                        outputs=["self_h_0", "self_h_1", "self_h_2"]) + "\n"
    # `finalize`: the arithmetic tail, from "fully carry h" to the two output words
    out += translate_region(src, "finalize", fns, consts, start="let mut h0 = self.h[0];", stop="output[0..8]", lean_name="finish",
                            params=[], pre={"self_h": fields["h"], "self_pad": fields["pad"]}, rename={},
                            outputs=["h0", "h1"]) + "\n"
    # `update`: where the run of whole blocks ends in the (rest of the) input — the one length computation of the buffering code
    _, _, ub = find_fn(src, "update")
    mm = re.search(r"let\s+full_blocks_end\s*=\s*([^;]+);", ub)
    if not mm:
        fail("poly1305 update: `let full_blocks_end = …;` not found")
    cx = Ctx(fns, consts)
    cx.types["m_len"] = "usize"
    e = subst_call(parse_expr(mm.group(1)), "m.len()", "m_len")
    out += "/-- `update`: `let full_blocks_end = %s;` with `m.len()` as the parameter -/\ndef update_full_blocks_end (m_len : Nat) : Nat :=\n  %s\n\n" % (mm.group(1).strip(), ex(e, cx, "usize"))
    return out + "end DryocVerif.Gen.Poly1305\n"


def translate_region(src, fn, fns, consts, start, stop, lean_name, params, pre, rename, outputs):
    """a contiguous run of statements of `fn` (from the statement starting with `start` up to the text `stop`) as a def
    whose parameters are `params` plus the scalar-replaced arrays in `pre`"""
    _, _, body_t = find_fn(src, fn)
    i = body_t.find(start)
    j = body_t.find(stop, i)
    if i < 0 or j < 0:
        fail("region %r … %r not found in %s" % (start, stop, fn))
    text = body_t[i:j]
    for a, b in rename.items():
        text = text.replace(a, b)
    # key.as_array()[a..b] -> key[a..b]
    text = re.sub(r"\.as_array\(\)", "", text)
    body = parse_body("{" + text + "}")
    cx = Ctx(fns, consts)
    lean_params = []
    for pn, pt in params:
        cx.types[pn] = pt
        lean_params.append("(%s : %s)" % (pn, lean_type(pt)))
    for pn, pt in pre.items():
        if pn.startswith("self_"):
            declare(cx, pn, pt, lean_params)
        else:
            # locally zero-initialised struct (Default)
            n = const_eval(pt[2], cx)
            cx.types[pn] = pt
            for k in range(n):
                bind(cx, "%s_%d" % (pn, k), "0", pt[1])
    stmts(body, cx)
    for o in outputs:
        if o not in cx.types:
            fail("output %s not defined in region of %s" % (o, fn))
    head = "def %s %s : %s :=" % (lean_name, " ".join(lean_params), " × ".join("Bytes" if cx.types.get(o) == "bytes" else "Nat" for o in outputs))
    res = "(%s)" % ", ".join(outputs) if len(outputs) > 1 else outputs[0]
    return "\n".join([head] + cx.lines + ["  " + res]) + "\n"


def with_utils(path, ns):
    return header(path, ns, ["DryocVerif.Gen.Utils"]) + "open DryocVerif.Gen.Utils\n\n"


def k_blake2b(repo):
    path = "src/blake2b/blake2b_soft.rs"
    src = strip_tests(open(os.path.join(repo, path)).read())
    fns = utils_sigs(repo)
    iv, _ = const_table(src, "IV")
    sigma, _ = const_table(src, "SIGMA")
    consts = {"IV": iv, "SIGMA": sigma, "type:IV": ("arr", "u64", None), "eltype:IV": "u64", "eltype:SIGMA": "usize"}
    out = with_utils(path, "Blake2b")
    out += "def IV : List Nat := %s\n\ndef SIGMA : List (List Nat) := %s\n\n" % (lean_list(iv), lean_list(sigma))
    out += translate_fn(src, "compress", fns, consts, outputs=["sh_%d" % i for i in range(8)], outline=("round",)) + "\n"
    out += translate_fn(src, "increment_counter", fns, consts, outputs=["t_0", "t_1"]) + "\n"
    return out + "end DryocVerif.Gen.Blake2b\n"


def k_siphash(repo):
    path = "src/siphash24.rs"
    src = strip_tests(open(os.path.join(repo, path)).read())
    fns = utils_sigs(repo)
    fns.update(helper_sigs(src, ["rotl64"]))
    out = with_utils(path, "SipHash")
    out += translate_fn(src, "rotl64", fns, {}) + "\n"
    out += translate_region(src, "siphash24", fns, {}, start="let mut v0", stop="output.copy_from_slice", lean_name="siphash24",
                            params=[("input", "bytes"), ("key", "bytes")], pre={}, rename={}, outputs=["b"]) + "\n"
    return out + "end DryocVerif.Gen.SipHash\n"


def k_argon2(repo):
    path = "src/argon2.rs"
    src = strip_tests(open(os.path.join(repo, path)).read())
    fns = utils_sigs(repo)
    fns.update(helper_sigs(src, ["fblamka"]))
    consts = {}
    for c in ("ARGON2_SYNC_POINTS", "ARGON2_QWORDS_IN_BLOCK", "ARGON2_ADDRESSES_IN_BLOCK", "ARGON2_BLOCK_SIZE"):
        try:
            v, _ = const_table(src, c)
            consts[c] = v
        except Unsupported:
            pass
    structs = {"Argon2Position": struct_fields(src, "Argon2Position"), "Argon2Instance": struct_fields(src, "Argon2Instance")}
    out = with_utils(path, "Argon2")
    out += "".join("def %s : Nat := %d\n" % (k, v) for k, v in consts.items()) + "\n"
    out += translate_fn(src, "fblamka", fns, consts) + "\n"
    out += translate_fn(src, "index_alpha", fns, consts, structs=structs) + "\n"
    # the permutation P on 16 words: blake2_round_nomsg specialised to the identity index tuple (the function is generic in its indices)
    out += translate_fn(src, "blake2_round_nomsg", fns, consts, lean_name="round16", structs={"Block": {"v": ("arr", "u64", ("num", 16, None))}},
                        const_params={"v%d" % i: i for i in range(16)}, outputs=["block_v_%d" % i for i in range(16)]) + "\n"
    # the index tuples fill_block passes to it (rows, then columns)
    _, _, body_t = find_fn(src, "fill_block")
    body = parse_body(body_t)
    loops = [st for st in body if st[0] == "for"]
    if len(loops) != 2:
        fail("fill_block: expected two for-loops")
    tables = []
    for lp in loops:
        lo, hi = const_eval(lp[2][1], Ctx()), const_eval(lp[2][2], Ctx())
        if (lo, hi) != (0, 8) or len(lp[3]) != 1 or lp[3][0][0] != "expr" or lp[3][0][1][0] != "call" or lp[3][0][1][1] != ("var", "blake2_round_nomsg"):
            fail("fill_block: loop shape")
        args = lp[3][0][1][2]
        if len(args) != 17:
            fail("fill_block: round arity")
        rows = []
        for i in range(lo, hi):
            cx = Ctx({}, {})
            cx.subst[lp[1][1]] = (("num", i, "usize"), {})
            rows.append([const_eval(a, cx) for a in args[1:]])
            if None in rows[-1]:
                fail("fill_block: index not constant")
        tables.append(rows)
    out += "def FILL_ROWS : List (List Nat) := %s\n\ndef FILL_COLS : List (List Nat) := %s\n\n" % (lean_list(tables[0]), lean_list(tables[1]))
    return out + "end DryocVerif.Gen.Argon2\n"


def k_core(repo):
    path = "src/classic/crypto_core.rs"
    src = strip_tests(open(os.path.join(repo, path)).read())
    fns = utils_sigs(repo)
    fns.update(helper_sigs(src, ["salsa20_rotl32"]))
    out = with_utils(path, "Core")
    out += translate_fn(src, "salsa20_rotl32", fns, {}) + "\n"
    pt = {"output": "bytes", "input": "bytes", "key": "bytes", "constants": "option_tuple"}
    out += translate_fn(src, "crypto_core_hchacha20", fns, {}, param_types=pt, outputs=["output"], fold_loops=True,
                        inline_fns=("chacha20_round", "chacha20_quarterround")) + "\n"
    out += translate_fn(src, "crypto_core_hsalsa20", fns, {}, param_types=pt, outputs=["output"], fold_loops=True) + "\n"
    return out + "end DryocVerif.Gen.Core\n"


def k_protected(repo):
    """the integer arithmetic of the page-aligned allocator (src/protected.rs): `_page_round`, the size handed to
    posix_memalign and the offset of the trailing guard page in `allocate` and in `deallocate`"""
    path = "src/protected.rs"
    src = strip_tests(open(os.path.join(repo, path)).read())
    fns = helper_sigs(src, ["_page_round"])
    out = header(path, "Protected")
    out += translate_fn(src, "_page_round", fns, {}) + "\n"
    ren = {"layout.size()": "layout_size"}
    ps = [("layout_size", "usize"), ("pagesize", "usize")]
    out += translate_region(src, "allocate", fns, {}, start="let size =", stop="#[cfg(unix)]", lean_name="allocate_size",
                            params=ps, pre={}, rename=ren, outputs=["size"]) + "\n"
    out += translate_region(src, "allocate", fns, {}, start="let aft_protected_region_offset", stop="let aft_protected_region = unsafe",
                            lean_name="allocate_aft_offset", params=ps, pre={}, rename=ren, outputs=["aft_protected_region_offset"]) + "\n"
    out += translate_region(src, "deallocate", fns, {}, start="let aft_protected_region_offset", stop="let aft_protected_region =",
                            lean_name="deallocate_aft_offset", params=ps, pre={}, rename=ren, outputs=["aft_protected_region_offset"]) + "\n"
    # the arguments handed to the system calls (unix branch): length expression and protection flags, as data
    def call_args(fn, callee):
        _, _, body = find_fn(src, fn)
        i = body.find(callee + "(")
        if i < 0:
            fail("%s: no call of %s" % (fn, callee))
        pz = Parser(lex(body[i + len(callee):]))
        pz.expect("(")
        return pz.args()

    def len_def(name, e):
        cx = Ctx({}, {})
        cx.types["data"] = "bytes"
        return "def %s (data : Bytes) : Nat :=\n  %s\n\n" % (name, ex(e, cx, "usize"))

    def flags(e):
        while e[0] in ("paren", "cast"):
            e = e[1]
        if e[0] == "var":
            return [e[1]]
        if e[0] == "bin" and e[1] == "|":
            return flags(e[2]) + flags(e[3])
        fail("protection flags expression")
    for fn, callee, nm in (("dryoc_mlock", "c_mlock", "mlock_len"), ("dryoc_mlock", "libc::munlock", "mlock_undo_len"),
                           ("dryoc_munlock", "c_munlock", "munlock_len")):
        a = call_args(fn, callee)
        if len(a) != 2:
            fail("%s: arity of %s" % (fn, callee))
        out += len_def(nm, a[1])
    for fn, nm in (("dryoc_mprotect_readonly", "mprotect_readonly"), ("dryoc_mprotect_readwrite", "mprotect_readwrite"), ("dryoc_mprotect_noaccess", "mprotect_noaccess")):
        a = call_args(fn, "c_mprotect")
        if len(a) != 3:
            fail("%s: arity of mprotect" % fn)
        out += len_def(nm + "_len", a[1])
        out += "def %s_prot : List String := [%s]\n\n" % (nm, ", ".join('"%s"' % f for f in sorted(flags(a[2]))))
    # the ADDRESS handed to every system call (the start of the slice the wrapper was given, nothing else) and the empty-slice guard
    addr_rows, guard_rows = [], []
    for fn, callee in (("dryoc_mlock", "c_mlock"), ("dryoc_mlock", "libc::munlock"), ("dryoc_munlock", "c_munlock"), ("dryoc_mprotect_readonly", "c_mprotect"),
                       ("dryoc_mprotect_readwrite", "c_mprotect"), ("dryoc_mprotect_noaccess", "c_mprotect")):
        a = call_args(fn, callee)
        addr_rows.append(("%s/%s" % (fn, callee.split("::")[-1]), norm_text(a[0])))
    for fn in ("dryoc_mlock", "dryoc_munlock", "dryoc_mprotect_readonly", "dryoc_mprotect_readwrite", "dryoc_mprotect_noaccess"):
        _, _, wb = find_fn(src, fn)
        tkz = [t for t in lex(wb) if t[0] != "eof"]
        want = [t for t in lex("{ if data.is_empty() { return Ok(()); }") if t[0] != "eof"]
        guard_rows.append((fn, tkz[:len(want)] == want))
    # the advice given to madvise next to locking / unlocking (exclude from / include in core dumps — never anything that discards pages)
    adv_rows = []
    for fn in ("dryoc_mlock", "dryoc_munlock"):
        _, _, wb = find_fn(src, fn)
        calls = list(re.finditer(r"\bmadvise\s*\(", wb))
        if len(calls) != 1:
            fail("%s: expected exactly one madvise call" % fn)
        pz = Parser(lex(wb[calls[0].end() - 1:]))
        pz.expect("(")
        a = pz.args()
        if len(a) != 3 or norm_text(a[0]) != "data.as_ptr()" or norm_text(a[1]) != "data.len()":
            fail("%s: madvise arguments" % fn)
        adv_rows.append((fn, norm_text(a[2])))
    out += "def madvise_advice : List (String × String) := [%s]\n\n" % ", ".join('("%s", "%s")' % r for r in adv_rows)
    out += "def syscall_addr_args : List (String × String) := [%s]\n\n" % ", ".join('("%s", "%s")' % r for r in addr_rows)
    out += "def empty_slice_guards : List (String × Bool) := [%s]\n\n" % ", ".join('("%s", %s)' % (n, "true" if v else "false") for n, v in guard_rows)
    # the five type-state transitions: which wrapper is called on which slice, that its failure returns (`?`) BEFORE the record is
    # updated, and which field of the runtime record is set to what
    trows = []
    for meth, wrapper in (("munlock", "dryoc_munlock"), ("mlock", "dryoc_mlock"), ("mprotect_readonly", "dryoc_mprotect_readonly"),
                          ("mprotect_readwrite", "dryoc_mprotect_readwrite"), ("mprotect_noaccess", "dryoc_mprotect_noaccess")):
        found = None
        for m_ in re.finditer(r"fn\s+%s\s*\(\s*mut\s+self\s*,?\s*\)" % meth, src):
            j0 = src.index("{", m_.end())
            body_t = src[j0:match_bracket(src, j0, "{", "}") + 1]
            if "swap_some_or_err" in body_t:
                found = body_t
                break
        if found is None:
            fail("transition %s: no `fn %s(mut self)` going through swap_some_or_err" % (meth, meth))
        canon = re.compile(r"^\{\s*self\s*\.\s*swap_some_or_err\s*\(\s*\|\s*old\s*\|\s*\{\s*%s\s*\(\s*(old\.a\.as_slice\(\))\s*\)\s*\?\s*;\s*old\s*\.\s*(lm|pm)\s*=\s*int\s*::\s*(LockMode|ProtectMode)\s*::\s*(\w+)\s*;\s*Ok\s*\(\s*Protected\s*::\s*<([^>]*)>\s*::\s*new\s*\(\s*\)\s*\)\s*\}\s*\)\s*\}$" % wrapper, re.S)
        mm = canon.match(re.sub(r"//[^\n]*", "", found).strip())
        if not mm:
            fail("transition %s: body is not `swap_some_or_err(|old| { %s(old.a.as_slice())?; old.<field> = …; Ok(Protected::<…>::new()) })`" % (meth, wrapper))
        trows.append((meth, wrapper, mm.group(1), mm.group(2), mm.group(4), " ".join(mm.group(5).split())))
    out += "def transitions : List (String × String × String × String × String × String) := [%s]\n\n" % ", ".join('("%s", "%s", "%s", "%s", "%s", "%s")' % r for r in trows)
    # Zeroize for Protected (= the drop path): make writable if the RECORD says it is not, wipe, unlock if the RECORD says locked — in
    # this order, all under "the region is not empty"; Drop calls exactly this
    zm = re.search(r"impl<[^>]*>\s*Zeroize\s+for\s+Protected<A,\s*PM,\s*LM>\s*\{", src)
    if not zm:
        fail("impl Zeroize for Protected<A, PM, LM> not found")
    zb = src[zm.end() - 1:match_bracket(src, zm.end() - 1, "{", "}") + 1]
    zb = re.sub(r"//[^\n]*", "", zb)
    zb = re.sub(r"\.map_err\(\|err\|\s*eprintln!\([^;]*?\)\)\s*\.ok\(\)", ".ok()", zb, flags=re.S)
    zcanon = ("{ fn zeroize(&mut self) { if let Some(d) = &mut self.i { if !d.a.as_slice().is_empty() { if d.pm != int::ProtectMode::ReadWrite { "
              "dryoc_mprotect_readwrite(d.a.as_slice()).ok(); } d.a.zeroize(); if d.lm == int::LockMode::Locked { dryoc_munlock(d.a.as_slice()).ok(); } } } } }")
    tkz2 = lambda t: [x for x in lex(t) if x[0] != "eof"]
    out += "def zeroize_body_is_canonical : Bool := %s\n\n" % ("true" if tkz2(zb) == tkz2(zcanon) else "false")
    dm = re.search(r"fn\s+drop\s*\(\s*&mut\s+self\s*\)\s*\{\s*self\s*\.\s*zeroize\s*\(\s*\)\s*;?\s*\}", src)
    out += "def drop_is_zeroize : Bool := %s\n\n" % ("true" if dm else "false")
    # deallocate: which bytes are wiped, and that the wipe precedes the release
    _, _, dbody = find_fn(src, "deallocate")
    m = re.search(r"let\s+region\s*=\s*std::slice::from_raw_parts_mut\(", dbody)
    if not m:
        fail("deallocate: `let region = std::slice::from_raw_parts_mut(…)` not found")
    pz = Parser(lex(dbody[m.end() - 1:]))
    pz.expect("(")
    a = pz.args()
    if len(a) != 2 or norm_text(a[0]) != "ptr.as_ptr()":
        fail("deallocate: region does not start at the allocation's pointer")
    cx = Ctx({}, {})
    cx.types["layout_size"] = "usize"
    wipe_len = ex(subst_call(a[1], "layout.size()", "layout_size"), cx, "usize")
    iz, ifree = dbody.find("region.zeroize()"), dbody.find("libc::free(")

    def depth_at(text, pos):
        d = 0
        for ch in text[:pos]:
            d += ch == "{"
            d -= ch == "}"
        return d
    # the wipe is an UNCONDITIONAL statement of the function body (brace depth 1: not inside an `if`, a closure or a loop), nothing
    # returns before it, and it comes after the region is made writable and before the block is handed to free()
    irw = dbody.find("dryoc_mprotect_readwrite(region)")
    order_ok = (0 <= iz < ifree and iz > m.start() and depth_at(dbody, iz) == 1 and depth_at(dbody, m.start()) == 1
                and not re.search(r"\breturn\b", dbody[:iz]) and 0 <= irw < iz and dbody.count("region.zeroize()") == 1)
    out += "def deallocate_wipe_len (layout_size : Nat) : Nat :=\n  %s\n\n" % wipe_len
    out += "def deallocate_wipes_before_free : Bool := %s\n\n" % ("true" if order_ok else "false")
    return out + "end DryocVerif.Gen.Protected\n"


def norm_text(e):
    """source-like text of simple ASTs (used to compare an argument with an expected spelling)"""
    k = e[0]
    if k == "var":
        return e[1]
    if k == "method":
        return "%s.%s(%s)" % (norm_text(e[1]), e[2], ",".join(norm_text(x) for x in e[3]))
    if k == "field":
        return "%s.%s" % (norm_text(e[1]), e[2])
    if k == "paren":
        return norm_text(e[1])
    if k == "cast":
        return norm_text(e[1])
    return "?"


def subst_call(e, text, var):
    """replace every sub-expression spelled `text` by the variable `var`"""
    if isinstance(e, tuple):
        if e[0] in ("method", "field", "var") and norm_text(e) == text:
            return ("var", var)
        return tuple(subst_call(x, text, var) if isinstance(x, (tuple, list)) else x for x in e)
    if isinstance(e, list):
        return [subst_call(x, text, var) for x in e]
    return e


def crate_consts(repo, names):
    src = open(os.path.join(repo, "src/constants.rs")).read()
    out = {}

    def names_in(e, acc):
        if isinstance(e, tuple):
            if e[0] == "var":
                acc.add(e[1])
            for x in e[1:]:
                names_in(x, acc)
        elif isinstance(e, list):
            for x in e:
                names_in(x, acc)

    def resolve(n, depth=0):
        if n in out:
            return
        if depth > 8:
            fail("constant %s: reference chain too deep" % n)
        ty, val = find_const(src, n)
        e = parse_expr(val)
        refs = set()
        names_in(e, refs)
        for r in refs:
            if r in INT_MAX or r in ("min", "max"):
                continue
            resolve(r, depth + 1)
        v = const_eval(e, Ctx({}, out))
        if v is None:
            fail("constant %s is not a literal expression" % n)
        out[n] = v
    for n in names:
        resolve(n)
    return out


def k_curve(repo):
    """scalar clamping (X25519 and Ed25519→X25519) and the BLAKE2b parameter assembly of crypto_kdf"""
    out = header("src/scalarmult_curve25519.rs, src/classic/crypto_sign_ed25519.rs, src/classic/crypto_kdf.rs", "Curve")
    consts = crate_consts(repo, ["CRYPTO_SCALARMULT_CURVE25519_SCALARBYTES", "CRYPTO_SCALARMULT_CURVE25519_BYTES", "CRYPTO_HASH_SHA512_BYTES",
                                 "CRYPTO_GENERICHASH_BLAKE2B_PERSONALBYTES", "CRYPTO_GENERICHASH_BLAKE2B_SALTBYTES", "CRYPTO_KDF_CONTEXTBYTES",
                                 "CRYPTO_KDF_BLAKE2B_BYTES_MIN", "CRYPTO_KDF_BLAKE2B_BYTES_MAX"])
    src = strip_tests(open(os.path.join(repo, "src/scalarmult_curve25519.rs")).read())
    out += translate_fn(src, "clamp", {}, consts, ret_bytes=True) + "\n"
    src = strip_tests(open(os.path.join(repo, "src/classic/crypto_sign_ed25519.rs")).read())
    out += translate_fn(src, "clamp_hash", {}, consts, ret_bytes=True) + "\n"
    src = strip_tests(open(os.path.join(repo, "src/classic/crypto_kdf.rs")).read())
    out += translate_region(src, "crypto_kdf_derive_from_key", {}, consts, start="let mut ctx_padded", stop="let state =", lean_name="kdf_params",
                            params=[("subkey_id", "u64"), ("context", "bytes")], pre={}, rename={}, outputs=["ctx_padded", "salt"]) + "\n"
    out += "def KDF_BYTES_MIN : Nat := %d\ndef KDF_BYTES_MAX : Nat := %d\n\n" % (consts["CRYPTO_KDF_BLAKE2B_BYTES_MIN"], consts["CRYPTO_KDF_BLAKE2B_BYTES_MAX"])
    # the arguments of the BLAKE2b initialisation: digest length expression, and which buffer goes where (key, salt, personal)
    _, _, kbody = find_fn(src, "crypto_kdf_derive_from_key")
    m = re.search(r"blake2b::State::init\s*\(", kbody)
    if not m:
        fail("crypto_kdf_derive_from_key: blake2b::State::init(…) not found")
    pz = Parser(lex(kbody[m.end() - 1:]))
    pz.expect("(")
    ia = pz.args()
    if len(ia) != 4:
        fail("crypto_kdf_derive_from_key: State::init arity")
    cxk = Ctx({}, consts)
    cxk.types["subkey_len"] = "usize"
    out += "def kdf_outlen (subkey_len : Nat) : Nat :=\n  %s\n\n" % ex(subst_call(ia[0], "subkey.len()", "subkey_len"), cxk, "u8")

    def some_arg(e):
        while e[0] == "paren":
            e = e[1]
        if e[0] == "call" and e[1] == ("var", "Some") and len(e[2]) == 1:
            return norm_text(e[2][0])
        return "?" + norm_text(e)
    out += "def kdf_init_args : List String := [%s]\n\n" % ", ".join('"%s"' % some_arg(a) for a in ia[1:])
    # … and the digest is written into the caller's subkey buffer
    if not re.search(r"state\s*\.\s*finalize\s*\(\s*subkey\s*\)", kbody):
        fail("crypto_kdf_derive_from_key: state.finalize(subkey) not found")
    return out + "end DryocVerif.Gen.Curve\n"


def k_pwhash(repo):
    """cost conversion and parameter guards of crypto_pwhash / crypto_pwhash_str, and the memory geometry of argon2_hash"""
    path = "src/classic/crypto_pwhash.rs"
    src = strip_tests(open(os.path.join(repo, path)).read())
    out = header(path + ", src/argon2.rs", "Pwhash")
    out += translate_fn(src, "convert_costs", {}, {}) + "\n"
    names = sorted(set(re.findall(r"\bCRYPTO_PWHASH_[A-Z0-9_]+", src)))
    for fn in ("crypto_pwhash", "crypto_pwhash_str"):
        _, _, body = find_fn(src, fn)
        ic = body.find("convert_costs(")
        if ic < 0:
            fail("%s: no call of convert_costs" % fn)
        guards, last_end = [], 0
        for m in re.finditer(r"validate!\s*\(", body):
            pz = Parser(lex(body[m.end() - 1:]))
            pz.expect("(")
            a = pz.args()
            if len(a) != 4 or a[3][0] != "str":
                fail("%s: validate! shape" % fn)
            cs_ = crate_consts(repo, [n for n in names if n in (norm_text(a[0]), norm_text(a[1]))])
            lo, hi = const_eval(a[0], Ctx({}, cs_)), const_eval(a[1], Ctx({}, cs_))
            if lo is None or hi is None or a[2][0] != "var":
                fail("%s: validate! bounds are not constants / value is not a parameter" % fn)
            guards.append((lo, hi, a[2][1], m.start()))
        out += "def %s_guards : List (Nat × Nat × String) := [%s]\n\n" % (fn, ", ".join('(%d, %d, "%s")' % (g[0], g[1], g[2]) for g in guards))
        out += "def %s_validates_before_convert : Bool := %s\n\n" % (fn, "true" if guards and all(g[3] < ic for g in guards) else "false")
    asrc = strip_tests(open(os.path.join(repo, "src/argon2.rs")).read())
    # the parameter ranges Argon2Context::new validates (64-bit target: size_of::<usize>() = 8), constants resolved inside argon2.rs
    asub = re.sub(r"(std\s*::\s*)?mem\s*::\s*size_of\s*::\s*<\s*usize\s*>\s*\(\s*\)", "8", asrc)
    aconsts = {}

    def aresolve(n, depth=0):
        if n in aconsts or n in INT_MAX or n in ("min", "max"):
            return
        if depth > 8:
            fail("argon2 constant %s: reference chain too deep" % n)
        ty, val = find_const(asub, n)
        e = parse_expr(val)
        for r in sorted(set(re.findall(r"\b[A-Z][A-Z0-9_]{2,}\b", val))):
            aresolve(r, depth + 1)
        v = const_eval(e, Ctx({}, aconsts))
        if v is None:
            fail("argon2 constant %s is not a literal expression" % n)
        aconsts[n] = v
    vpos = asub.find("// validate the inputs")
    vend = asub.find("Ok(Self", vpos)
    if vpos < 0 or vend < 0:
        fail("argon2: the validation block of Argon2Context::new was not found")
    aguards = []
    for m in re.finditer(r"validate!\s*\(", asub[vpos:vend]):
        pz = Parser(lex(asub[vpos + m.end() - 1:vend]))
        pz.expect("(")
        a = pz.args()
        if len(a) != 4 or a[3][0] != "str" or a[0][0] != "var" or a[1][0] != "var":
            fail("argon2: validate! shape")
        aresolve(a[0][1]); aresolve(a[1][1])
        aguards.append((aconsts[a[0][1]], aconsts[a[1][1]], a[3][1].strip('"')))
    out += "def argon2_validate_guards : List (Nat × Nat × String) := [%s]\n\n" % ", ".join('(%d, %d, "%s")' % g for g in aguards)
    sp, _ = const_table(asrc, "ARGON2_SYNC_POINTS")
    out += translate_region(asrc, "argon2_hash", {}, {"ARGON2_SYNC_POINTS": sp}, start="let memory_blocks = if", stop="let context", lean_name="memory_geometry",
                            params=[("m_cost", "u32"), ("parallelism", "u32")], pre={}, rename={}, outputs=["memory_blocks", "segment_length"]) + "\n"
    return out + "end DryocVerif.Gen.Pwhash\n"


def k_simdtext(repo):
    """blake2b_simd.rs: everything AROUND the compression function (counter, init, update, finalize, hash, longhash, flags) must be the
    software backend's text up to the representation of the chaining value (h[0..8] ↔ two 4-lane vectors a, b).  The C18 theorems
    instantiate ONE buffering model with two compression functions; this kernel checks that premise on the source text.
    Emitted: one boolean per function (normalised token streams equal after the documented substitutions)."""
    soft = strip_tests(open(os.path.join(repo, "src/blake2b/blake2b_soft.rs")).read())
    simd = strip_tests(open(os.path.join(repo, "src/blake2b/blake2b_simd.rs")).read())

    def toks(text):
        ts = [t for t in lex(text) if t[0] != "eof"]
        # a trailing comma before a closing bracket is not significant
        return [t for i, t in enumerate(ts) if not (t == ("op", ",") and i + 1 < len(ts) and ts[i + 1] in (("op", ")"), ("op", "]"), ("op", "}")))]

    def norm_simd(body):
        # the chaining value: `self.a[i]` ↦ `self.h[i]`, `self.b[i]` ↦ `self.h[4+i]`; the two vector arguments of compress ↦ one `h`
        body = re.sub(r"self\s*\.\s*b\s*\[\s*(\d)\s*\]", lambda m: "self.h[%d]" % (4 + int(m.group(1))), body)
        body = re.sub(r"self\s*\.\s*a\s*\[\s*(\d)\s*\]", lambda m: "self.h[%s]" % m.group(1), body)
        body = re.sub(r"let\s+a\s*=\s*&mut\s+self\s*\.\s*a\s*;\s*let\s+b\s*=\s*&mut\s+self\s*\.\s*b\s*;", "let h = &mut self.h;", body)
        body = re.sub(r"compress\s*\(\s*a\s*,\s*b\s*,", "compress(h,", body)
        body = re.sub(r"compress\s*\(\s*&mut\s+self\s*\.\s*a\s*,\s*&mut\s+self\s*\.\s*b\s*,", "compress(&mut self.h,", body)
        return body

    WIPES = [(r"self\s*\.\s*buf\s*\.\s*zeroize\s*\(\s*\)\s*;", r"self\s*\.\s*buf\b"), (r"self\s*\.\s*h\s*\.\s*zeroize\s*\(\s*\)\s*;", r"self\s*\.\s*h\b"),
             (r"self\s*\.\s*a\s*=\s*Simd\s*::\s*splat\s*\(\s*0\s*\)\s*;", r"self\s*\.\s*a\b"), (r"self\s*\.\s*b\s*=\s*Simd\s*::\s*splat\s*\(\s*0\s*\)\s*;", r"self\s*\.\s*b\b")]

    def drop_wipes(body):
        # a statement that only wipes a field is irrelevant to the output IF the field is not used again afterwards (other than by
        # further wipes): only such statements are removed; a wipe in the middle of the computation stays and is compared
        def without_all(text):
            for w, _ in WIPES:
                text = re.sub(w, "", text)
            return text
        changed = True
        while changed:
            changed = False
            for w, use in WIPES:
                for m in list(re.finditer(w, body))[::-1]:
                    rest = without_all(body[m.end():])
                    if not re.search(use, rest):
                        body = body[:m.start()] + body[m.end():]
                        changed = True
        return body

    def let_h_order(body):
        # soft: `let h = …; let t = …; let f = …;`  simd: `let t…; let f…; let a…; let b…;` — order of these independent borrows is irrelevant
        m = re.search(r"let\s+h\s*=\s*&mut\s+self\s*\.\s*h\s*;", body)
        if m:
            body = body[:m.start()] + body[m.end():]
            body = re.sub(r"(let\s+f\s*=\s*&mut\s+self\s*\.\s*f\s*;)", r"\1 let h = &mut self.h;", body, count=1)
        return body
    out = header("src/blake2b/blake2b_simd.rs vs src/blake2b/blake2b_soft.rs", "SimdText")
    rows = []
    for fn in ("increment_counter", "init", "update", "finalize", "hash", "longhash", "set_lastnode", "is_lastblock", "set_lastblock"):
        try:
            pa, ra, ba = find_fn(soft, fn)
            pb, rb, bb = find_fn(simd, fn)
        except Unsupported:
            rows.append((fn, False))
            continue
        a = toks(let_h_order(drop_wipes(ba)))
        b = toks(let_h_order(drop_wipes(norm_simd(bb))))
        rows.append((fn, a == b and toks(pa) == toks(pb) and (ra or "") .split() == (rb or "").split()))
    # init_param: the SIMD text must be the software text with its word loop replaced by exactly the two 4-lane xors (words 0..3 into a,
    # 4..7 into b, byte ranges 8i..8i+8, in order); init0: exactly the two loads of IV[..4] and IV[4..8]
    def tk(text):
        return toks(text)
    try:
        pa, ra, ip_soft = find_fn(soft, "init_param")
        pb, rb, ip_simd = find_fn(simd, "init_param")
        loop = re.search(r"for\s+i\s+in\s+0\s*\.\.\s*8\s*\{[^{}]*\}", ip_soft)
        canon = ("state.a ^= Simd::<u64, 4>::from([load_u64_le(&pslice[0..8]), load_u64_le(&pslice[8..16]), load_u64_le(&pslice[16..24]), load_u64_le(&pslice[24..32]),]);"
                 "state.b ^= Simd::<u64, 4>::from([load_u64_le(&pslice[32..40]), load_u64_le(&pslice[40..48]), load_u64_le(&pslice[48..56]), load_u64_le(&pslice[56..64]),]);")
        soft_loop_ok = bool(loop) and tk(loop.group(0)) == tk("for i in 0..8 { state.h[i] ^= load_u64_le(&pslice[(8 * i)..(8 * i + 8)]); }")
        expected = ip_soft[:loop.start()] + canon + ip_soft[loop.end():] if loop else ""
        rows.append(("init_param", soft_loop_ok and tk(expected) == tk(ip_simd) and tk(pa) == tk(pb)))
    except Unsupported:
        rows.append(("init_param", False))
    try:
        _, _, i0_soft = find_fn(soft, "init0")
        _, _, i0_simd = find_fn(simd, "init0")
        rows.append(("init0", tk(i0_soft) == tk("{ self.h[..8].copy_from_slice(&IV); }") and
                     tk(i0_simd) == tk("{ self.a = Simd::from_slice(&IV[..4]); self.b = Simd::from_slice(&IV[4..8]); }")))
    except Unsupported:
        rows.append(("init0", False))
    # the items around the functions: the constants, the parameter block and its defaults (fanout = depth = 1), the IV, and the state's
    # fields other than the chaining value
    def item(text, pat):
        m = re.search(pat, text, re.S)
        return tk(m.group(0)) if m else None
    for nm, pat in (("consts", r"const\s+BLOCKBYTES.*?const\s+PERSONALBYTES[^;]*;"), ("struct_Params", r"#\[repr\(packed\)\].*?struct\s+Params\s*\{.*?\n\}"),
                    ("default_Params", r"impl\s+Default\s+for\s+Params\s*\{.*?\n\}\n"), ("IV", r"const\s+IV\s*:.*?\];")):
        a, b = item(soft, pat), item(simd, pat)
        rows.append((nm, a is not None and a == b))
    def state_fields(text, drop):
        m = re.search(r"(#\[derive\([^)]*\)\])\s*pub\s+struct\s+State\s*\{(.*?)\n\}", text, re.S)
        if not m:
            return None
        fields = [l.strip().rstrip(",") for l in m.group(2).splitlines() if l.strip() and not l.strip().startswith("#[")]
        return (tk(m.group(1)), sorted(" ".join(f.split()) for f in fields if f.split(":")[0].strip() not in drop))
    rows.append(("struct_State", state_fields(soft, {"h"}) is not None and state_fields(soft, {"h"}) == state_fields(simd, {"a", "b"})))
    out += "def same_as_software : List (String × Bool) := [%s]\n\n" % ", ".join('("%s", %s)' % (n, "true" if v else "false") for n, v in rows)
    return out + "end DryocVerif.Gen.SimdText\n"


def k_stream(repo):
    """the length guards in front of crypto_secretstream_xchacha20poly1305_push / _pull — every `if … { return Err(…) }` in source
    order up to the first statement that touches the key — with every constant they mention evaluated (crate constants from
    src/constants.rs, file-local ones from the file itself)"""
    path = "src/classic/crypto_secretstream_xchacha20poly1305.rs"
    src = strip_tests(open(os.path.join(repo, path)).read())
    out = header(path + ", src/constants.rs", "Stream")

    def names_in(e, acc):
        if isinstance(e, tuple):
            if e[0] == "var":
                acc.add(e[1])
            for x in e[1:]:
                names_in(x, acc)
        elif isinstance(e, list):
            for x in e:
                names_in(x, acc)

    def resolve(names, consts, depth=0):
        if depth > 6:
            fail("stream guards: constant chain too deep")
        csrc = open(os.path.join(repo, "src/constants.rs")).read()
        for n in sorted(names):
            if n in consts or not re.fullmatch(r"[A-Z][A-Z0-9_]*", n):
                continue
            if re.search(r"\bconst\s+%s\b" % n, csrc):
                consts.update(crate_consts(repo, [n]))
                continue
            ty, val = find_const(src, n)
            e = parse_expr(val)
            refs = set()
            names_in(e, refs)
            resolve(refs, consts, depth + 1)
            v = const_eval(e, Ctx({}, consts))
            if v is None:
                fail("stream guards: constant %s is not a literal expression" % n)
            consts[n] = v

    allc = {}
    for fn, short in (("crypto_secretstream_xchacha20poly1305_push", "push"), ("crypto_secretstream_xchacha20poly1305_pull", "pull")):
        _, _, b = find_fn(src, fn)
        stop = b.find("let associated_data")
        if stop < 0:
            fail("%s: `let associated_data` not found" % fn)
        reg = re.sub(r"\buse\s[^;]*;", "", b[:stop])
        while True:
            i = reg.find("dryoc_error!")
            if i < 0:
                break
            j = match_bracket(reg, reg.index("(", i), "(", ")")
            reg = reg[:i] + "0" + reg[j + 1:]
        body = parse_body(reg + "}")
        guards = []
        for st in body:
            if st[0] == "let" and st[1][0] == "pvar" and st[1][1].startswith("_"):
                continue
            if st[0] in ("expr", "value") and st[1][0] == "if" and st[1][3] is None and len(st[1][2]) == 1 and st[1][2][0][0] == "return" \
                    and st[1][2][0][1][0] == "call" and st[1][2][0][1][1] == ("var", "Err"):
                guards.append(st[1][1])
                continue
            fail("%s: statement before `let associated_data` is not a length guard: %r" % (fn, st[0:2]))
        refs = set()
        for g in guards:
            names_in(g, refs)
        consts = {}
        resolve(refs, consts)
        allc.update(consts)
        cx = Ctx({}, consts)
        cx.types["message_len"] = "usize"
        cx.types["ciphertext_len"] = "usize"
        texts = []
        for g in guards:
            g = subst_call(subst_call(g, "message.len()", "message_len"), "ciphertext.len()", "ciphertext_len")
            texts.append(ex(g, cx, "bool"))
        out += "/-- `%s` returns `Err` at the first of these that is true (source order) -/\ndef %s_guards (message_len ciphertext_len : Nat) : List Bool :=\n  [%s]\n\n" % (fn, short, ",\n   ".join(texts))
    out += "def constants : List (String × Nat) := [%s]\n\n" % ", ".join('("%s", %d)' % (k, v) for k, v in sorted(allc.items()))
    return out + "end DryocVerif.Gen.Stream\n"


def k_kx(repo):
    """src/classic/crypto_kx.rs as DATA: what is hashed and in which order, how the 64-byte digest is split, how the client and the
    server function call the common helper (the server passes (tx, rx)), which operands go into the scalar multiplication, and that the
    all-zero check (exactly: constant-time equality with 32 zero bytes → Err) sits between the two"""
    path = "src/classic/crypto_kx.rs"
    src = strip_tests(open(os.path.join(repo, path)).read())
    consts = crate_consts(repo, ["CRYPTO_KX_SESSIONKEYBYTES", "CRYPTO_SCALARMULT_BYTES"])
    out = header(path, "Kx")

    def call_args_text(body, callee, nth=0):
        ms = list(re.finditer(r"\b%s\s*\(" % re.escape(callee), body))
        if len(ms) <= nth:
            fail("crypto_kx: call %d of %s not found" % (nth, callee))
        pz = Parser(lex(body[ms[nth].end() - 1:]))
        pz.expect("(")
        return pz.args(), ms[nth].start()

    def names(asts):
        out_ = []
        for a in asts:
            while a[0] in ("paren", "cast"):
                a = a[1]
            if a[0] != "var":
                fail("crypto_kx: argument is not a plain name")
            out_.append(a[1])
        return out_
    _, _, kb = find_fn(src, "crypto_kx")
    n_upd = len(re.findall(r"\bcrypto_generichash_update\s*\(", kb))
    upd = [call_args_text(kb, "crypto_generichash_update", i)[0] for i in range(n_upd)]
    if any(len(a) != 2 for a in upd):
        fail("crypto_kx: update arity")
    upd = [names(a) for a in upd]
    init_args, _ = call_args_text(kb, "crypto_generichash_init")
    cx = Ctx({}, consts)
    outlen = const_eval(init_args[1], cx)
    if init_args[0] != ("var", "None") or outlen is None:
        fail("crypto_kx: generichash_init(None, <const>) expected")
    splits = []
    for m in re.finditer(r"\b(x\d)\s*\.\s*copy_from_slice\s*\(\s*&\s*keys\s*\[([^\]]*)\]\s*\)", kb):
        lo, hi = (m.group(2).split("..") + [""])[:2]
        lo_v = const_eval(parse_expr(lo), cx) if lo.strip() else 0
        hi_v = const_eval(parse_expr(hi), cx) if hi.strip() else outlen
        if lo_v is None or hi_v is None:
            fail("crypto_kx: split bounds")
        splits.append((m.group(1), lo_v, hi_v))
    out += "def hash_updates : List String := [%s]\n\n" % ", ".join('"%s"' % a[1] for a in upd)
    out += "def hash_outlen : Nat := %d\n\n" % outlen
    out += "def digest_split : List (String × Nat × Nat) := [%s]\n\n" % ", ".join('("%s", %d, %d)' % t for t in splits)
    for fn, short in (("crypto_kx_client_session_keys", "client"), ("crypto_kx_server_session_keys", "server")):
        _, _, b = find_fn(src, fn)
        sm, ism = call_args_text(b, "crypto_scalarmult")
        ck, ick = call_args_text(b, "check_shared_secret")
        kx, ikx = call_args_text(b, "crypto_kx")
        sm, ck, kx = names(sm), names(ck), names(kx)
        checked = ism < ick < ikx and bool(re.search(r"check_shared_secret\s*\([^)]*\)\s*\?\s*;", b)) and ck == [sm[0]]
        out += "def %s_scalarmult_args : List String := [%s]\n\n" % (short, ", ".join('"%s"' % x for x in sm[1:]))
        out += "def %s_helper_args : List String := [%s]\n\n" % (short, ", ".join('"%s"' % x for x in kx))
        out += "def %s_checks_zero_between : Bool := %s\n\n" % (short, "true" if checked else "false")
    _, _, cb = find_fn(src, "check_shared_secret")
    canon = "{ use subtle::ConstantTimeEq; if shared_secret.ct_eq(&[0u8; CRYPTO_SCALARMULT_BYTES]).unwrap_u8() == 1 { Err(0) } else { Ok(()) } }"
    cbn = cb
    while True:
        i = cbn.find("dryoc_error!")
        if i < 0:
            break
        j = match_bracket(cbn, cbn.index("(", i), "(", ")")
        cbn = cbn[:i] + "0" + cbn[j + 1:]
    tkz = lambda t: [x for x in lex(t) if x[0] != "eof"]
    out += "def zero_check_is_exact : Bool := %s\n\n" % ("true" if tkz(cbn) == tkz(canon) and consts["CRYPTO_SCALARMULT_BYTES"] == 32 else "false")
    return out + "end DryocVerif.Gen.Kx\n"


def k_rand(repo):
    """where the password-hash entry points draw their salt relative to their parameter checks, and how many bytes:
    `crypto_pwhash_str` validates the cost limits first and then draws a 16-byte salt; `PwHash::hash` sizes the salt from
    `config.salt_length`, draws it, and only then calls `crypto_pwhash` (which validates) — so an invalid Config costs a draw"""
    out = header("src/classic/crypto_pwhash.rs, src/pwhash.rs", "Rand")
    csrc = strip_tests(open(os.path.join(repo, "src/classic/crypto_pwhash.rs")).read())
    _, _, b = find_fn(csrc, "crypto_pwhash_str")
    vals = [m.start() for m in re.finditer(r"validate!\s*\(", b)]
    draws = [m.start() for m in re.finditer(r"copy_randombytes\s*\(", b)]
    out += "def pwhash_str_draws : Nat := %d\n\n" % len(draws)
    out += "def pwhash_str_draws_after_validate : Bool := %s\n\n" % ("true" if len(draws) == 1 and vals and max(vals) < draws[0] else "false")
    m = re.search(r"let\s+mut\s+salt\s*=\s*\[\s*0u8\s*;\s*([A-Z0-9_]+)\s*\]\s*;", b)
    if not m:
        fail("crypto_pwhash_str: `let mut salt = [0u8; CONST];` not found")
    n = crate_consts(repo, [m.group(1)])[m.group(1)]
    arg = re.search(r"copy_randombytes\s*\(\s*&mut\s+salt\s*\)", b)
    out += "def pwhash_str_salt_bytes : Nat := %d\n\n" % (n if arg else 0)
    psrc = strip_tests(open(os.path.join(repo, "src/pwhash.rs")).read())
    _, _, hb = find_fn(psrc, "hash")
    i_resize = hb.find("salt.resize(config.salt_length, 0)")
    i_draw = hb.find("copy_randombytes(salt.as_mut_slice())")
    i_call = hb.find("crypto_pwhash::crypto_pwhash(")
    out += "def pwhash_obj_draws_salt_length_before_validate : Bool := %s\n\n" % ("true" if 0 <= i_resize < i_draw < i_call and hb.count("copy_randombytes") == 1 else "false")
    return out + "end DryocVerif.Gen.Rand\n"


KERNELS = {"Rand": k_rand, "Kx": k_kx, "Stream": k_stream, "SimdText": k_simdtext, "Pwhash": k_pwhash, "Curve": k_curve, "Protected": k_protected, "Core": k_core, "Argon2": k_argon2, "Utils": k_utils, "Poly1305": k_poly1305, "Blake2b": k_blake2b, "SipHash": k_siphash}


def main(argv):
    if len(argv) >= 3 and argv[1] == "--all":
        repo, outdir = argv[2], argv[3]
        rc = 0
        for name, f in KERNELS.items():
            try:
                text = f(repo)
            except Unsupported as e:
                sys.stderr.write("rs2lean: %s: %s\n" % (name, e))
                rc = 1
                continue
            except Exception as e:      # anything unexpected is a rejection too, never a silent pass
                sys.stderr.write("rs2lean: %s: internal error %s: %s\n" % (name, type(e).__name__, str(e)[:200]))
                rc = 1
                continue
            path = os.path.join(outdir, name + ".lean")
            old = open(path).read() if os.path.exists(path) else None
            if old != text:
                open(path, "w").write(text)
                print("%s: CHANGED" % name)
            else:
                print("%s: unchanged" % name)
        return rc
    name, repo = argv[1], argv[2]
    try:
        sys.stdout.write(KERNELS[name](repo))
    except Unsupported as e:
        sys.stderr.write("rs2lean: %s: %s\n" % (name, e))
        return 1
    return 0


if __name__ == "__main__":
    sys.exit(main(sys.argv))
