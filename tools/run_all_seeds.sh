#!/bin/bash
# run every seeded change against the check of the property it targets (plus closely related ones); results → seeded/<id>/check_result.json
cd /verif
for d in seeded/*/; do
  id=$(basename $d); prop=$(python3 -c "import json;print(json.load(open('$d/meta.json'))['property'])")
  if [ -n "$1" ] && [[ "$id" != $1* ]]; then continue; fi
  extra=""
  case $prop in C04) extra="C03 C10";; C11) extra="C09";; C13) extra="C09";; C14) extra="C15 C19";; C15) extra="C14";; C16) extra="C01 C10";; C17) extra="C02 C03";; C18) extra="C08 C14";; C19) extra="C14";; C20) extra="C14";; C01) extra="C02 C07";; C02) extra="C01 C17 C03";; C07) extra="C08 C01";; C08) extra="C07 C18";; C09) extra="C10";; C03) extra="C02";; esac
  python3 tools/run_seed.py $SEED_MODE $d/patch.diff $prop $extra > $d/check_result.json 2>&1
  echo "$id: $(python3 -c "
import json,sys
try:
    r=json.load(open('$d/check_result.json'))
    print(' '.join('%s=%s%s'%(k,'CAUGHT' if v['exit']==1 else ('exit%d'%v['exit']), '('+','.join(sorted(set(map(str,v['kinds']))))+')' if v['kinds'] else '') for k,v in r.items()))
except Exception as e: print('ERR', e)
")"
done
