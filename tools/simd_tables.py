#!/usr/bin/env python3
"""
simd_tables.py -- translate the data of /repo/src/blake2b/blake2b_simd.rs into Lean tables.

    python3 tools/simd_tables.py /repo/src/blake2b/blake2b_simd.rs \
        > DryocVerif/Model/Blake2bSimdTables.lean
    (or: ... blake2b_simd.rs -o DryocVerif/Model/Blake2bSimdTables.lean -- the file is only
     written when the translation succeeds)

The Rust text of `IV`, `loadm`, `rotru64`, `g1`, `g2`, `permute`, `unpermute` and `compress`
is parsed (plain python3, no third-party modules).  Every number that the code contains --
swizzle indices, message-vector sources, rotation amounts, IV words, byte offsets of `loadm`,
the order of the flag words, the final xors -- is emitted as a plain Lean table
(namespace `DryocVerif.Model.Blake2bSimdTables`).  `DryocVerif/Model/Blake2bSimd.lean` is an
interpreter of those tables, and `DryocVerif/Proofs/Blake2bSimd.lean` proves the interpreter
equal to the model of `blake2b_soft.rs`; an edit of a constant in the Rust therefore changes the
table and the proof is re-checked against what the code says now.

Everything that is NOT data (the order of the statements, the names of the variables, the
shape of the expressions) is compared against the one shape the interpreter implements.  Any
deviation is a hard error: exit status 1, message on stderr, nothing on stdout.
"""
import re
import sys


class ShapeError(Exception):
    pass


def fail(msg):
    raise ShapeError(msg)


# ---------------------------------------------------------------------------------------
# lexical helpers
# ---------------------------------------------------------------------------------------

def strip_comments(src):
    src = re.sub(r"/\*.*?\*/", " ", src, flags=re.S)
    src = re.sub(r"//[^\n]*", " ", src)
    return src


def norm(s):
    """canonical spacing: no whitespace at all except a single blank between two word characters"""
    s = re.sub(r"\s+", " ", s).strip()
    s = re.sub(r"(?<![A-Za-z0-9_]) ", "", s)
    s = re.sub(r" (?![A-Za-z0-9_])", "", s)
    # a trailing comma before a closing bracket is not significant in Rust
    s = re.sub(r",(?=[\)\]\}])", "", s)
    return s


def matching(src, i, open_ch, close_ch):
    """index of the bracket matching src[i] (== open_ch)"""
    assert src[i] == open_ch
    depth = 0
    for j in range(i, len(src)):
        if src[j] == open_ch:
            depth += 1
        elif src[j] == close_ch:
            depth -= 1
            if depth == 0:
                return j
    fail("unbalanced %s%s" % (open_ch, close_ch))


def function(src, name):
    """(normalised signature text between `fn name` and `{`, raw body) of the unique top-level fn"""
    hits = [m for m in re.finditer(r"\bfn\s+%s\s*\(" % re.escape(name), src)]
    if len(hits) != 1:
        fail("expected exactly one `fn %s`, found %d" % (name, len(hits)))
    m = hits[0]
    par = src.index("(", m.start())
    par_end = matching(src, par, "(", ")")
    brace = src.index("{", par_end)
    brace_end = matching(src, brace, "{", "}")
    sig = norm(src[par:brace])
    return sig, src[brace + 1:brace_end]


def statements(body):
    """split a (macro free, block free) function body at `;`"""
    parts = [norm(p) for p in body.split(";")]
    if parts and parts[-1] == "":
        parts.pop()
        trailing_expr = None
    else:
        trailing_expr = parts.pop() if parts else None
    if any(p == "" for p in parts):
        fail("empty statement")
    return parts, trailing_expr


def expect(actual, wanted, what):
    if actual != norm(wanted):
        fail("%s: expected `%s`, found `%s`" % (what, norm(wanted), actual))


def idx_list(text, what, n=4, bound=None):
    m = re.fullmatch(r"\[(\d+(?:,\d+)*)\]", text)
    if not m:
        fail("%s: `%s` is not a list of index literals" % (what, text))
    xs = [int(x) for x in m.group(1).split(",")]
    if len(xs) != n:
        fail("%s: expected %d indices, found %d in `%s`" % (what, n, len(xs), text))
    if bound is not None and any(x >= bound for x in xs):
        fail("%s: index out of range (must be < %d) in `%s`" % (what, bound, text))
    return xs


V4 = "Simd<u64,4>"

# ---------------------------------------------------------------------------------------
# the individual items
# ---------------------------------------------------------------------------------------

def parse_iv(src):
    m = re.findall(r"\bconst\s+IV\s*:\s*\[\s*u64\s*;\s*8\s*\]\s*=\s*\[(.*?)\]\s*;", src, flags=re.S)
    if len(m) != 1:
        fail("expected exactly one `const IV: [u64; 8] = [...]`")
    words = [w for w in norm(m[0]).split(",") if w != ""]
    if len(words) != 8:
        fail("IV: expected 8 words, found %d" % len(words))
    out = []
    for w in words:
        w = w.replace("_", "")
        if not re.fullmatch(r"0x[0-9a-fA-F]{1,16}", w):
            fail("IV: `%s` is not a 64-bit hexadecimal literal" % w)
        out.append(int(w, 16))
    return out


def parse_rotru64(src):
    sig, body = function(src, "rotru64")
    expect(sig, "(v: Simd<u64, 4>, n: u64) -> Simd<u64, 4>", "rotru64 signature")
    stmts, tail = statements(body)
    if stmts:
        fail("rotru64: unexpected statements %r" % stmts)
    m = re.fullmatch(
        r"\(v>>Simd::from\(\[n,n,n,n\]\)\)\|\(v<<Simd::from\(\[(\d+)-n,(\d+)-n,(\d+)-n,(\d+)-n\]\)\)",
        tail or "")
    if not m:
        fail("rotru64: body is not `(v >> Simd::from([n; 4])) | (v << Simd::from([W - n; 4]))`: `%s`" % tail)
    ws = set(int(x) for x in m.groups())
    if len(ws) != 1:
        fail("rotru64: the four lanes use different word sizes %r" % sorted(ws))
    return ws.pop()


def parse_g(src, name):
    sig, body = function(src, name)
    expect(sig, "(a: &mut Simd<u64, 4>, b: &mut Simd<u64, 4>, c: &mut Simd<u64, 4>, "
                "d: &mut Simd<u64, 4>, m: &Simd<u64, 4>)", name + " signature")
    stmts, tail = statements(body)
    if tail is not None or len(stmts) != 4:
        fail("%s: expected four statements, found %r / %r" % (name, stmts, tail))
    expect(stmts[0], "*a = *a + *b + *m", name + " statement 1")
    m1 = re.fullmatch(r"\*d=rotru64\(\*d\^\*a,(\d+)\)", stmts[1])
    if not m1:
        fail("%s statement 2: expected `*d = rotru64(*d ^ *a, N)`, found `%s`" % (name, stmts[1]))
    expect(stmts[2], "*c += *d", name + " statement 3")
    m2 = re.fullmatch(r"\*b=rotru64\(\*b\^\*c,(\d+)\)", stmts[3])
    if not m2:
        fail("%s statement 4: expected `*b = rotru64(*b ^ *c, N)`, found `%s`" % (name, stmts[3]))
    r1, r2 = int(m1.group(1)), int(m2.group(1))
    for r in (r1, r2):
        if not (0 < r < 64):
            fail("%s: rotation amount %d outside 1..63" % (name, r))
    return r1, r2


def parse_permute(src, name):
    sig, body = function(src, name)
    expect(sig, "(a: &mut Simd<u64, 4>, c: &mut Simd<u64, 4>, d: &mut Simd<u64, 4>)", name + " signature")
    stmts, tail = statements(body)
    if tail is not None or len(stmts) != 3:
        fail("%s: expected three statements" % name)
    out = {}
    for s in stmts:
        m = re.fullmatch(r"\*([acd])=simd_swizzle!\(\*([acd]),(\[[^\]]*\])\)", s)
        if not m or m.group(1) != m.group(2):
            fail("%s: expected `*x = simd_swizzle!(*x, [..])` with x in a, c, d; found `%s`" % (name, s))
        if m.group(1) in out:
            fail("%s: `%s` assigned twice" % (name, m.group(1)))
        out[m.group(1)] = idx_list(m.group(3), "%s %s" % (name, m.group(1)), 4, 4)
    return out


def parse_loadm(src):
    sig, body = function(src, "loadm")
    expect(sig, "(block: &[u8]) -> [Simd<u64, 4>; 8]", "loadm signature")
    mm = re.search(r"macro_rules!\s*swizzle_my_jizzle\s*\{", body)
    if not mm:
        fail("loadm: macro `swizzle_my_jizzle` not found")
    mb = body.index("{", mm.start())
    me = matching(body, mb, "{", "}")
    macro = norm(body[mb + 1:me])
    rest = body[:mm.start()] + body[me + 1:]
    m = re.fullmatch(
        r"\(\$arr:expr,\$start:expr,\$mid:expr,\$end:expr\)=>\{\{\{simd_swizzle!\("
        r"Simd::<u64,2>::from\(\[load_u64_le\(&\$arr\[\$start\.\.\$mid\]\),"
        r"load_u64_le\(&block\[\$mid\.\.\$end\]\)\]\),(\[[^\]]*\])\)\}\}\};?", macro)
    if not m:
        fail("loadm: macro body has an unexpected shape: `%s`" % macro)
    dup = idx_list(m.group(1), "loadm lane duplication", 4, 2)
    stmts, tail = statements(rest)
    if stmts:
        fail("loadm: unexpected statements %r" % stmts)
    m = re.fullmatch(r"\[(.*)\]", tail or "")
    if not m:
        fail("loadm: the result is not an array expression")
    calls = re.findall(r"swizzle_my_jizzle!\(([^)]*)\)", m.group(1))
    if norm(",".join("swizzle_my_jizzle!(%s)" % c for c in calls)) != m.group(1):
        fail("loadm: the result array contains something else than swizzle_my_jizzle!(..) calls")
    if len(calls) != 8:
        fail("loadm: expected 8 vectors, found %d" % len(calls))
    offs = []
    for c in calls:
        a = c.split(",")
        if len(a) != 4 or a[0] != "block" or not all(re.fullmatch(r"\d+", x) for x in a[1:]):
            fail("loadm: expected `swizzle_my_jizzle!(block, START, MID, END)`, found `%s`" % c)
        offs.append(tuple(int(x) for x in a[1:]))
    return dup, offs


SW2 = re.compile(r"simd_swizzle!\(m\[(\d+)\],m\[(\d+)\],(\[[^\]]*\])\)")
SW1 = re.compile(r"simd_swizzle!\(m\[(\d+)\],(\[[^\]]*\])\)")


def parse_sw(text, what):
    m = SW2.fullmatch(text)
    if m:
        i, j = int(m.group(1)), int(m.group(2))
        if i >= 8 or j >= 8:
            fail("%s: message vector index out of range in `%s`" % (what, text))
        return ("two", i, j, idx_list(m.group(3), what, 4, 8))
    m = SW1.fullmatch(text)
    if m:
        i = int(m.group(1))
        if i >= 8:
            fail("%s: message vector index out of range in `%s`" % (what, text))
        return ("one", i, idx_list(m.group(2), what, 4, 4))
    fail("%s: expected simd_swizzle!(m[i], m[j], [..]) or simd_swizzle!(m[i], [..]), found `%s`" % (what, text))


def parse_compress(src):
    sig, body = function(src, "compress")
    expect(sig, "(a: &mut Simd<u64, 4>, b: &mut Simd<u64, 4>, st: &[u64; 2], sf: &[u64; 2], block: &[u8])",
           "compress signature")
    stmts, tail = statements(body)
    if tail is not None:
        fail("compress: unexpected trailing expression `%s`" % tail)
    pos = [0]

    def nxt(what):
        if pos[0] >= len(stmts):
            fail("compress: source ends where %s was expected" % what)
        s = stmts[pos[0]]
        pos[0] += 1
        return s

    # --- prologue ------------------------------------------------------------------
    def iv_slice(s, var, suffix, what):
        m = re.fullmatch(r"let mut %s=Simd::<u64,4>::from_slice\(&IV\[(\d*)\.\.(\d*)\]\)%s" % (var, suffix), s)
        if not m:
            fail("compress %s: found `%s`" % (what, s))
        lo = int(m.group(1)) if m.group(1) else 0
        hi = int(m.group(2)) if m.group(2) else 8
        if hi > 8 or hi - lo != 4:
            fail("compress %s: IV[%d..%d] is not a 4-word slice of IV" % (what, lo, hi))
        return lo

    c_iv = iv_slice(nxt("let mut c"), "c", "", "`let mut c = Simd::<u64, 4>::from_slice(&IV[..])`")
    s = nxt("let flags")
    m = re.fullmatch(r"let flags=Simd::<u64,4>::from\(\[(s[tf])\[(\d)\],(s[tf])\[(\d)\],(s[tf])\[(\d)\],(s[tf])\[(\d)\]\]\)", s)
    if not m:
        fail("compress: expected `let flags = Simd::<u64, 4>::from([st[i], ..])`, found `%s`" % s)
    g = m.groups()
    flags = [(g[0], int(g[1])), (g[2], int(g[3])), (g[4], int(g[5])), (g[6], int(g[7]))]
    if any(k > 1 for _, k in flags):
        fail("compress: flags index out of range in `%s`" % s)
    d_iv = iv_slice(nxt("let mut d"), "d", r"\^flags", "`let mut d = Simd::<u64, 4>::from_slice(&IV[..]) ^ flags`")
    expect(nxt("let m"), "let m = loadm(block)", "compress")
    expect(nxt("let iv0"), "let iv0 = *a", "compress")
    expect(nxt("let iv1"), "let iv1 = *b", "compress")
    expect(nxt("let mut t0"), "let mut t0", "compress")
    expect(nxt("let mut t1"), "let mut t1", "compress")
    expect(nxt("let mut b0"), "let mut b0", "compress")

    # --- rounds --------------------------------------------------------------------
    def msgvec(rn, k, gname):
        what = "compress round %d message vector %d" % (rn, k)
        s = nxt(what)
        if not s.startswith("t0="):
            fail("%s: expected `t0 = ...`, found `%s`" % (what, s))
        t0 = parse_sw(s[3:], what + " t0")
        s = nxt(what)
        if not s.startswith("t1="):
            fail("%s: expected `t1 = ...`, found `%s`" % (what, s))
        t1 = parse_sw(s[3:], what + " t1")
        s = nxt(what)
        m = re.fullmatch(r"b0=simd_swizzle!\(t0,t1,(\[[^\]]*\])\)", s)
        if not m:
            fail("%s: expected `b0 = simd_swizzle!(t0, t1, [..])`, found `%s`" % (what, s))
        b0 = idx_list(m.group(1), what + " b0", 4, 8)
        expect(nxt(what), "%s(a, b, &mut c, &mut d, &b0)" % gname, what)
        return (t0, t1, b0)

    rounds = []
    while pos[0] < len(stmts) and stmts[pos[0]].startswith("t0="):
        rn = len(rounds) + 1
        m1 = msgvec(rn, 1, "g1")
        m2 = msgvec(rn, 2, "g2")
        expect(nxt("permute"), "permute(a, &mut c, &mut d)", "compress round %d" % rn)
        m3 = msgvec(rn, 3, "g1")
        m4 = msgvec(rn, 4, "g2")
        expect(nxt("unpermute"), "unpermute(a, &mut c, &mut d)", "compress round %d" % rn)
        rounds.append((m1, m2, m3, m4))
    if not rounds:
        fail("compress: no round found")

    # --- epilogue ------------------------------------------------------------------
    final = []
    while pos[0] < len(stmts):
        s = nxt("final xor")
        m = re.fullmatch(r"\*([ab])\^=(c|d|iv0|iv1)", s)
        if not m:
            fail("compress epilogue: expected `*a ^= x` / `*b ^= x` with x in c, d, iv0, iv1; found `%s`" % s)
        final.append((m.group(1), m.group(2)))
    if not final:
        fail("compress: no final xor found")
    return c_iv, flags, d_iv, rounds, final


def check_state_layout(src):
    """`State` keeps h[0..4] in `a` and h[4..8] in `b` (init0, init_param, finalize)"""
    n = norm(src)
    wanted = [
        "a: Simd<u64, 4>,",
        "b: Simd<u64, 4>,",
        "self.a = Simd::from_slice(&IV[..4]);",
        "self.b = Simd::from_slice(&IV[4..8]);",
        "state.a ^= Simd::<u64, 4>::from([load_u64_le(&pslice[0..8]), load_u64_le(&pslice[8..16]), "
        "load_u64_le(&pslice[16..24]), load_u64_le(&pslice[24..32])]);",
        "state.b ^= Simd::<u64, 4>::from([load_u64_le(&pslice[32..40]), load_u64_le(&pslice[40..48]), "
        "load_u64_le(&pslice[48..56]), load_u64_le(&pslice[56..64])]);",
    ]
    for k in range(8):
        wanted.append("buffer[%d..%d].copy_from_slice(&self.%s[%d].to_le_bytes());"
                      % (8 * k, 8 * k + 8, "a" if k < 4 else "b", k % 4))
    wanted.append("use crate::utils::load_u64_le;")
    for w in wanted:
        if norm(w) not in n:
            fail("State layout: `%s` not found" % w)


# ---------------------------------------------------------------------------------------
# Lean output
# ---------------------------------------------------------------------------------------

def lean_list(xs):
    return "[" + ", ".join(str(x) for x in xs) + "]"


def lean_sw(sw):
    if sw[0] == "two":
        return "Sw.two %d %d %s" % (sw[1], sw[2], lean_list(sw[3]))
    return "Sw.one %d %s" % (sw[1], lean_list(sw[2]))


def lean_mv(mv):
    return "{ t0 := %s, t1 := %s, b0 := %s }" % (lean_sw(mv[0]), lean_sw(mv[1]), lean_list(mv[2]))


def emit(path, iv, width, g1, g2, perm, unperm, dup, offs, c_iv, flags, d_iv, rounds, final):
    o = []
    w = o.append
    w("/-")
    w("GENERATED by tools/simd_tables.py from %s -- DO NOT EDIT." % path)
    w("Regenerate:  python3 tools/simd_tables.py <blake2b_simd.rs> > DryocVerif/Model/Blake2bSimdTables.lean")
    w("")
    w("The data of the portable-SIMD BLAKE2b backend (`fn compress`, `loadm`, `permute`, `unpermute`,")
    w("`g1`, `g2`, `rotru64`, `IV`), as plain tables.  The interpreter is `DryocVerif.Model.Blake2bSimd`.")
    w("-/")
    w("namespace DryocVerif.Model.Blake2bSimdTables")
    w("")
    w("/-- a message-vector swizzle: `simd_swizzle!(m[i], m[j], idx)` (indices 0..3 select lanes of")
    w("`m[i]`, 4..7 lanes of `m[j]`) or the one-source form `simd_swizzle!(m[i], idx)` -/")
    w("inductive Sw where")
    w("  | two (i j : Nat) (idx : List Nat)")
    w("  | one (i : Nat) (idx : List Nat)")
    w("  deriving Repr, DecidableEq, Inhabited")
    w("")
    w("/-- `t0 = …; t1 = …; b0 = simd_swizzle!(t0, t1, b0);` -/")
    w("structure MsgVec where")
    w("  t0 : Sw")
    w("  t1 : Sw")
    w("  b0 : List Nat")
    w("  deriving Repr, DecidableEq, Inhabited")
    w("")
    w("/-- one round: message vector `m1`, `g1`, `m2`, `g2`, `permute`, `m3`, `g1`, `m4`, `g2`, `unpermute` -/")
    w("structure Round where")
    w("  m1 : MsgVec")
    w("  m2 : MsgVec")
    w("  m3 : MsgVec")
    w("  m4 : MsgVec")
    w("  deriving Repr, DecidableEq, Inhabited")
    w("")
    w("/-- the two arrays of `compress` that select the flag words: `st` = counter, `sf` = finalisation flags -/")
    w("inductive Flag where")
    w("  | st (i : Nat)")
    w("  | sf (i : Nat)")
    w("  deriving Repr, DecidableEq, Inhabited")
    w("")
    w("/-- the vector registers of `compress` that the final xors mention -/")
    w("inductive Reg where")
    w("  | a | b | c | d | iv0 | iv1")
    w("  deriving Repr, DecidableEq, Inhabited")
    w("")
    w("/-- `const IV: [u64; 8]` -/")
    w("def IV : List UInt64 := [")
    w(",\n".join("  0x%016x" % x for x in iv) + "]")
    w("")
    w("/-- `rotru64(v, n) = (v >> n) | (v << (W - n))`: the constant `W` -/")
    w("def rotWidth : UInt64 := %d" % width)
    w("")
    w("/-- rotation amounts of `g1`: `*d = rotru64(*d ^ *a, _)`, `*b = rotru64(*b ^ *c, _)` -/")
    w("def g1RotD : UInt64 := %d" % g1[0])
    w("def g1RotB : UInt64 := %d" % g1[1])
    w("/-- rotation amounts of `g2` -/")
    w("def g2RotD : UInt64 := %d" % g2[0])
    w("def g2RotB : UInt64 := %d" % g2[1])
    w("")
    w("/-- `permute`: `*x = simd_swizzle!(*x, _)` for `x` = `a`, `c`, `d` (`b` is not touched) -/")
    w("def permuteA : List Nat := %s" % lean_list(perm["a"]))
    w("def permuteC : List Nat := %s" % lean_list(perm["c"]))
    w("def permuteD : List Nat := %s" % lean_list(perm["d"]))
    w("/-- `unpermute` -/")
    w("def unpermuteA : List Nat := %s" % lean_list(unperm["a"]))
    w("def unpermuteC : List Nat := %s" % lean_list(unperm["c"]))
    w("def unpermuteD : List Nat := %s" % lean_list(unperm["d"]))
    w("")
    w("/-- `loadm`: each vector is `simd_swizzle!(Simd::<u64, 2>::from([load_u64_le(&block[s..m]),")
    w("load_u64_le(&block[m..e])]), loadmDup)`; `loadmOffsets` lists the `(s, m, e)` -/")
    w("def loadmDup : List Nat := %s" % lean_list(dup))
    w("def loadmOffsets : List (Nat × Nat × Nat) := [")
    w(",\n".join("  (%d, %d, %d)" % t for t in offs) + "]")
    w("")
    w("/-- `let mut c = Simd::from_slice(&IV[cIv..cIv+4])` -/")
    w("def cIv : Nat := %d" % c_iv)
    w("/-- `let mut d = Simd::from_slice(&IV[dIv..dIv+4]) ^ flags` -/")
    w("def dIv : Nat := %d" % d_iv)
    w("/-- `let flags = Simd::from([_, _, _, _])` -/")
    w("def flags : List Flag := [%s]" % ", ".join("Flag.%s %d" % f for f in flags))
    w("")
    w("/-- the rounds of `compress`, in source order -/")
    w("def rounds : List Round := [")
    rs = []
    for n, r in enumerate(rounds):
        rs.append("  -- round %d\n  { m1 := %s,\n    m2 := %s,\n    m3 := %s,\n    m4 := %s }"
                  % (n + 1, lean_mv(r[0]), lean_mv(r[1]), lean_mv(r[2]), lean_mv(r[3])))
    w(",\n".join(rs) + "]")
    w("")
    w("/-- the statements `*x ^= y;` that end `compress`, in source order, as `(x, y)` -/")
    w("def finalXor : List (Reg × Reg) := [%s]" % ", ".join("(Reg.%s, Reg.%s)" % f for f in final))
    w("")
    w("end DryocVerif.Model.Blake2bSimdTables")
    return "\n".join(o) + "\n"


def main(argv):
    out_path = None
    if len(argv) == 4 and argv[2] == "-o":
        out_path = argv[3]
    elif len(argv) != 2:
        sys.stderr.write("usage: simd_tables.py <path to blake2b_simd.rs> [-o <out.lean>]\n")
        return 2
    path = argv[1]
    try:
        with open(path, "r", encoding="utf-8") as f:
            src = strip_comments(f.read())
        # the test module is not part of the backend
        cut = re.search(r"#\[cfg\(test\)\]\s*mod\s+tests\b", src)
        if cut:
            src = src[:cut.start()]
        iv = parse_iv(src)
        width = parse_rotru64(src)
        g1 = parse_g(src, "g1")
        g2 = parse_g(src, "g2")
        perm = parse_permute(src, "permute")
        unperm = parse_permute(src, "unpermute")
        dup, offs = parse_loadm(src)
        c_iv, flags, d_iv, rounds, final = parse_compress(src)
        check_state_layout(src)
        text = emit(path, iv, width, g1, g2, perm, unperm, dup, offs, c_iv, flags, d_iv, rounds, final)
    except ShapeError as e:
        sys.stderr.write("simd_tables.py: %s: UNEXPECTED SHAPE: %s\n" % (path, e))
        return 1
    except OSError as e:
        sys.stderr.write("simd_tables.py: %s\n" % e)
        return 1
    if out_path is None:
        sys.stdout.write(text)
    else:
        # written only on success: a failed run leaves the previous tables untouched
        with open(out_path, "w", encoding="utf-8") as f:
            f.write(text)
    return 0


if __name__ == "__main__":
    sys.exit(main(sys.argv))
