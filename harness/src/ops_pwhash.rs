//! C09 / C10 / C04 / C13: Argon2 password hashing, password-hash strings, password-derived key pairs.
use crate::util::*;
use crate::Ans;
use dryoc::classic::crypto_pwhash::*;
use dryoc::pwhash::{Config, PwHash, VecPwHash};
use libsodium_sys as so;
use std::ffi::CString;

fn alg_of(n: u32) -> PasswordHashAlgorithm {
    if n == 1 { PasswordHashAlgorithm::Argon2i13 } else { PasswordHashAlgorithm::Argon2id13 }
}

fn so_str(buf: &[i8; 128]) -> String {
    let b: Vec<u8> = buf.iter().take_while(|c| **c != 0).map(|c| *c as u8).collect();
    String::from_utf8_lossy(&b).into_owned()
}

fn cstr128(s: &str) -> Option<[i8; 128]> {
    let b = s.as_bytes();
    if b.len() >= 128 || b.contains(&0) {
        return None;
    }
    let mut out = [0i8; 128];
    for (i, c) in b.iter().enumerate() {
        out[i] = *c as i8;
    }
    Some(out)
}

pub fn dispatch(op: &str, a: &[&str]) -> Option<Ans> {
    Some(match op {
        // pwhash <alg 1|2> <outlen> <opslimit> <memlimit> <pwd> <salt>
        // `pwhash_big`: the same request under a name the Lean driver does not evaluate (memory sizes of gigabytes)
        "pwhash" | "pwhash_big" => {
            let alg: u32 = a[0].parse().unwrap();
            let outlen: usize = a[1].parse().unwrap();
            let ops: u64 = a[2].parse().unwrap();
            let mem: usize = a[3].parse().unwrap();
            let (pwd, salt) = (unhex(a[4]), unhex(a[5]));
            let mut out = vec![0xA5u8; outlen];
            let r = crypto_pwhash(&mut out, &pwd, &salt, ops, mem, alg_of(alg));
            // libsodium: 16-byte salt only; Argon2i needs opslimit >= 3
            let sa = if salt.len() == 16 && outlen >= 16 {
                let mut s = vec![0u8; outlen];
                let sr = unsafe {
                    so::crypto_pwhash(s.as_mut_ptr(), outlen as u64, pwd.as_ptr() as *const _, pwd.len() as u64, salt.as_ptr(), ops, mem, alg as i32)
                };
                if sr == 0 { ok(&s) } else if alg == 1 && ops < 3 { "n/a".into() } else { "err".into() }
            } else {
                "n/a".into()
            };
            (if r.is_ok() { ok(&out) } else { "err".into() }, sa)
        }
        // pwhash_obj <opslimit> <memlimit> <hashlen> <pwd> <salt> <wrongpwd>
        //   hash_with_salt → hash; verify(pwd)=ok; verify(wrong)=err; to_string/from_string round trip; hash() draws a salt of the configured length
        "pwhash_obj" => {
            let ops: u64 = a[0].parse().unwrap();
            let mem: usize = a[1].parse().unwrap();
            let hl: usize = a[2].parse().unwrap();
            let (pwd, salt, wrong) = (unhex(a[3]), unhex(a[4]), unhex(a[5]));
            // the builder calls are applied in an order that depends on the arguments: the result must not depend on it
            let mut cfg = Config::interactive();
            let order = (ops as usize + mem / 1024 + hl + salt.len()) % 6;
            let perms: [[u8; 4]; 6] = [[0, 1, 2, 3], [3, 2, 1, 0], [1, 0, 3, 2], [2, 3, 0, 1], [1, 2, 3, 0], [3, 0, 1, 2]];
            for step in perms[order] {
                cfg = match step {
                    0 => cfg.with_opslimit(ops),
                    1 => cfg.with_memlimit(mem),
                    2 => cfg.with_hash_length(hl),
                    // optional 7th argument: the Config's salt_length differs from the length of the salt the caller supplies
                    _ => cfg.with_salt_length(a.get(6).and_then(|x| x.parse::<usize>().ok()).unwrap_or(salt.len())),
                };
            }
            let h: Result<VecPwHash, _> = PwHash::hash_with_salt(&pwd, salt.clone(), cfg.clone());
            match h {
                Err(_) => ("err".into(), "n/a".into()),
                Ok(h) => {
                    let v1 = h.verify(&pwd);
                    let v2 = h.verify(&wrong);
                    let s = h.to_string();
                    let back: Result<VecPwHash, _> = PwHash::from_string(&s);
                    let (hash, _salt, _cfg) = h.into_parts();
                    let rt = match back {
                        Ok(b) => {
                            let again = b.to_string();
                            let bv = b.verify(&pwd).is_ok() && b.verify(&wrong).is_err();
                            if again != s { format!("restring-differs:{}", again) } else if !bv { "reparsed-verify-wrong".to_string() } else { "rt".to_string() }
                        }
                        Err(_) => "from_string(to_string)-failed".to_string(),
                    };
                    // libsodium must accept the string (32-byte hashes, 16-byte salts are what its decoder takes)
                    let sv = match (cstr128(&s), hl == 32 && salt.len() == 16) {
                        (Some(c), true) => {
                            let r1 = unsafe { so::crypto_pwhash_str_verify(c.as_ptr(), pwd.as_ptr() as *const _, pwd.len() as u64) };
                            let r2 = unsafe { so::crypto_pwhash_str_verify(c.as_ptr(), wrong.as_ptr() as *const _, wrong.len() as u64) };
                            format!("so={}{}", if r1 == 0 { "ok" } else { "err" }, if r2 == 0 { "ok" } else { "err" })
                        }
                        _ => "so=n/a".to_string(),
                    };
                    // what libsodium's crypto_pwhash gives for exactly the requested parameters, rendered the same way
                    let expect = if salt.len() == 16 && hl >= 16 && mem >= 8192 && ops >= 1 {
                        let mut sh = vec![0u8; hl];
                        let r = unsafe { so::crypto_pwhash(sh.as_mut_ptr(), hl as u64, pwd.as_ptr() as *const _, pwd.len() as u64, salt.as_ptr(), ops, mem, 2) };
                        if r == 0 {
                            format!("ok {} verify=okerr rt {} $argon2id$v=19$m={},t={},p=1${}${}", hex(&sh), sv, mem / 1024, ops, b64_nopad(&salt), b64_nopad(&sh))
                        } else { "n/a".into() }
                    } else { "n/a".into() };
                    (format!("ok {} verify={}{} {} {} {}", hex(&hash), res(&v1), res(&v2), rt, sv, s), expect)
                }
            }
        }
        // pwhash_presets: the cost presets of the object API, rendered through from_parts/to_string (no hashing), against libsodium's constants
        "pwhash_presets" => {
            let render = |c: Config| -> String {
                let p: VecPwHash = PwHash::from_parts(vec![1u8; 32], vec![2u8; 16], c);
                let s = p.to_string();
                s.split('$').nth(3).unwrap_or("?").to_string()
            };
            let got = format!("interactive={} moderate={} sensitive={} default={}", render(Config::interactive()), render(Config::moderate()), render(Config::sensitive()), render(Config::default()));
            let so_p = |o: usize, m: usize| format!("m={},t={},p=1", m / 1024, o);
            let want = unsafe { format!("interactive={} moderate={} sensitive={} default={}",
                so_p(so::crypto_pwhash_opslimit_interactive(), so::crypto_pwhash_memlimit_interactive()),
                so_p(so::crypto_pwhash_opslimit_moderate(), so::crypto_pwhash_memlimit_moderate()),
                so_p(so::crypto_pwhash_opslimit_sensitive(), so::crypto_pwhash_memlimit_sensitive()),
                so_p(so::crypto_pwhash_opslimit_interactive(), so::crypto_pwhash_memlimit_interactive())) };
            (format!("ok {}", got), format!("ok {}", want))
        }
        // pwhash_hash_preset <interactive|moderate|sensitive> <pwd>: the random-salt wrappers `PwHash::hash_<preset>` really run; the
        // result must be libsodium's crypto_pwhash at ITS constants for that preset with the salt the object reports
        "pwhash_hash_preset" => {
            let pwd = unhex(a[1]);
            let (h, ops, mem): (Result<VecPwHash, _>, usize, usize) = unsafe { match a[0] {
                "interactive" => (PwHash::hash_interactive(&pwd), so::crypto_pwhash_opslimit_interactive(), so::crypto_pwhash_memlimit_interactive()),
                "moderate" => (PwHash::hash_moderate(&pwd), so::crypto_pwhash_opslimit_moderate(), so::crypto_pwhash_memlimit_moderate()),
                _ => (PwHash::hash_sensitive(&pwd), so::crypto_pwhash_opslimit_sensitive(), so::crypto_pwhash_memlimit_sensitive()),
            } };
            match h {
                Err(_) => ("err".into(), "ok".into()),
                Ok(h) => {
                    let s = h.to_string();
                    let (hash, salt, _cfg) = h.into_parts();
                    if salt.len() != 16 || hash.len() != 32 { return Some((format!("mismatch preset lengths salt {} hash {}", salt.len(), hash.len()), "ok".into())); }
                    let mut sh = vec![0u8; 32];
                    let r = unsafe { so::crypto_pwhash(sh.as_mut_ptr(), 32, pwd.as_ptr() as *const _, pwd.len() as u64, salt.as_ptr(), ops as u64, mem, 2) };
                    let params = s.split('$').nth(3).unwrap_or("?").to_string();
                    (format!("ok {} {}", params, if hash == sh { "hash=libsodium" } else { "hash!=libsodium" }),
                     if r == 0 { format!("ok m={},t={},p=1 hash=libsodium", mem / 1024, ops) } else { "n/a".into() })
                }
            }
        }
        // pwhash_rehash_parsed <string as hex> <opslimit> <pwd>: a Config carried over from a PARSED string (the only way to an
        // Argon2i Config), its opslimit changed, then `PwHash::hash` with a random salt.  What the new object's string says must be
        // what was computed: dryoc and libsodium verify it, and the hash equals crypto_pwhash at the encoded parameters.
        "pwhash_rehash_parsed" => {
            let sb = unhex(a[0]);
            let ops: u64 = a[1].parse().unwrap();
            let pwd = unhex(a[2]);
            let s = match String::from_utf8(sb) { Ok(s) => s, Err(_) => return Some(("n/a".into(), "n/a".into())) };
            let p: Result<VecPwHash, _> = PwHash::from_string(&s);
            let p = match p { Ok(p) => p, Err(_) => return Some(("err parse".into(), "n/a".into())) };
            let (_h, _s, cfg) = p.into_parts();
            let argon2i = s.starts_with("$argon2i$");
            let h: Result<VecPwHash, _> = PwHash::hash(&pwd, cfg.with_opslimit(ops));
            match h {
                Err(_) => ("err".into(), "n/a".into()),
                Ok(h) => {
                    let ns = h.to_string();
                    let own = h.verify(&pwd);
                    let cl = crypto_pwhash_str_verify(&ns, &pwd);
                    let back: Result<VecPwHash, _> = PwHash::from_string(&ns);
                    let bv = match back { Ok(b) => res(&b.verify(&pwd)).to_string(), Err(_) => "parse-failed".into() };
                    let sv = match cstr128(&ns) {
                        Some(c) => rc(unsafe { so::crypto_pwhash_str_verify(c.as_ptr(), pwd.as_ptr() as *const _, pwd.len() as u64) }).to_string(),
                        None => "n/a".into(),
                    };
                    let t_ok = ns.contains(&format!(",t={},", ops));
                    let alg_ok = ns.starts_with(if argon2i { "$argon2i$" } else { "$argon2id$" });
                    (format!("ok own={} classic={} reparsed={} sodium={} t-recorded={} alg-kept={}", res(&own), res(&cl), bv, sv, t_ok, alg_ok),
                     "ok own=ok classic=ok reparsed=ok sodium=ok t-recorded=true alg-kept=true".into())
                }
            }
        }
        // pwhash_defaults <pwd> <wrong>: hash_with_defaults / hash_interactive (64 MiB, t = 2) and from_string_with_defaults
        "pwhash_defaults" => {
            let (pwd, wrong) = (unhex(a[0]), unhex(a[1]));
            let h = dryoc::pwhash::PwHash::hash_with_defaults(&pwd);
            let h2: Result<VecPwHash, _> = PwHash::hash_interactive(&pwd);
            match (h, h2) {
                (Ok(h), Ok(h2)) => {
                    let s = h.to_string();
                    let back = dryoc::pwhash::PwHash::from_string_with_defaults(&s);
                    let okb = match back { Ok(b) => b.verify(&pwd).is_ok() && b.verify(&wrong).is_err() && b.to_string() == s, Err(_) => false };
                    let params = |x: &str| x.split('$').take(4).collect::<Vec<_>>().join("$");
                    let sv = match cstr128(&s) { Some(c) => { let r = unsafe { so::crypto_pwhash_str_verify(c.as_ptr(), pwd.as_ptr() as *const _, pwd.len() as u64) }; r == 0 } None => false };
                    (format!("ok verify={}{} reparse={} sodium={} params={} same-params={}", res(&h.verify(&pwd)), res(&h.verify(&wrong)), okb, sv, params(&s), params(&s) == params(&h2.to_string())),
                     "ok verify=okerr reparse=true sodium=true params=$argon2id$v=19$m=65536,t=2,p=1 same-params=true".into())
                }
                _ => ("err".into(), "n/a".into()),
            }
        }
        // pwhash_str <opslimit> <memlimit> <pwd> <entropy> <wrongpwd>
        "pwhash_str" => {
            let ops: u64 = a[0].parse().unwrap();
            let mem: usize = a[1].parse().unwrap();
            let (pwd, ent, wrong) = (unhex(a[2]), unhex(a[3]), unhex(a[4]));
            #[cfg(feature = "hooks")]
            dryoc::rng::verif_hooks::set_entropy(Some(ent.clone()));
            let r = crypto_pwhash_str(&pwd, ops, mem);
            #[cfg(feature = "hooks")]
            let draws = dryoc::rng::verif_hooks::draws();
            #[cfg(not(feature = "hooks"))]
            let draws: Vec<usize> = vec![];
            #[cfg(feature = "hooks")]
            dryoc::rng::verif_hooks::set_entropy(None);
            let _ = ent;
            match r {
                Err(_) => ("err".into(), "n/a".into()),
                Ok(s) => {
                    let own1 = crypto_pwhash_str_verify(&s, &pwd);
                    let own2 = crypto_pwhash_str_verify(&s, &wrong);
                    let sv = match cstr128(&s) {
                        Some(c) => {
                            let r1 = unsafe { so::crypto_pwhash_str_verify(c.as_ptr(), pwd.as_ptr() as *const _, pwd.len() as u64) };
                            let r2 = unsafe { so::crypto_pwhash_str_verify(c.as_ptr(), wrong.as_ptr() as *const _, wrong.len() as u64) };
                            format!("so={}{}", if r1 == 0 { "ok" } else { "err" }, if r2 == 0 { "ok" } else { "err" })
                        }
                        None => "so=n/a".to_string(),
                    };
                    (format!("ok {} own={}{} {} draws={:?}", s, res(&own1), res(&own2), sv, draws).replace(' ', " ").replace("[", "").replace("]", "").replace(", ", "+"), "n/a".into())
                }
            }
        }
        // pwhash_str_verify <string as hex> <pwd>
        "pwhash_str_verify" => {
            let sb = unhex(a[0]);
            let pwd = unhex(a[1]);
            let s = match String::from_utf8(sb) { Ok(s) => s, Err(_) => return Some(("n/a".into(), "n/a".into())) };
            let r = crypto_pwhash_str_verify(&s, &pwd);
            let sa = match cstr128(&s) {
                Some(c) => rc(unsafe { so::crypto_pwhash_str_verify(c.as_ptr(), pwd.as_ptr() as *const _, pwd.len() as u64) }).to_string(),
                None => "n/a".into(),
            };
            (res(&r).into(), sa)
        }
        // pwhash_objverify_str <string as hex> <pwd>: the OBJECT route `PwHash::from_string(s)?.verify(pwd)` (the hash is recomputed with
        // the stored hash's own length, whatever it is)
        "pwhash_objverify_str" => {
            let sb = unhex(a[0]);
            let pwd = unhex(a[1]);
            let s = match String::from_utf8(sb) { Ok(s) => s, Err(_) => return Some(("n/a".into(), "n/a".into())) };
            let r = std::panic::catch_unwind(std::panic::AssertUnwindSafe(|| -> String {
                let p: Result<VecPwHash, _> = PwHash::from_string(&s);
                match p { Err(_) => "err".into(), Ok(p) => res(&p.verify(&pwd)).into() }
            }));
            (r.unwrap_or_else(|_| "panic".into()), "n/a".into())
        }
        // pwhash_needs_rehash <string as hex> <opslimit> <memlimit>
        "pwhash_needs_rehash" => {
            let sb = unhex(a[0]);
            let ops: u64 = a[1].parse().unwrap();
            let mem: usize = a[2].parse().unwrap();
            let s = match String::from_utf8(sb) { Ok(s) => s, Err(_) => return Some(("n/a".into(), "n/a".into())) };
            let r = crypto_pwhash_str_needs_rehash(&s, ops, mem);
            let sa = match cstr128(&s) {
                Some(c) => match unsafe { so::crypto_pwhash_str_needs_rehash(c.as_ptr(), ops, mem) } { 0 => "ok false".to_string(), 1 => "ok true".to_string(), _ => "err".to_string() },
                None => "n/a".into(),
            };
            (match r { Ok(b) => format!("ok {}", b), Err(_) => "err".into() }, sa)
        }
        // pwhash_parse <string as hex>  → ok <re-encoded string> | err
        "pwhash_parse" => {
            let sb = unhex(a[0]);
            let s = match String::from_utf8(sb) { Ok(s) => s, Err(_) => return Some(("n/a".into(), "n/a".into())) };
            let r: Result<VecPwHash, _> = PwHash::from_string(&s);
            (match r { Ok(p) => format!("ok {}", p.to_string()), Err(_) => "err".into() }, "n/a".into())
        }
        // so_pwhash_str <alg> <opslimit> <memlimit> <pwd> <wrongpwd>: libsodium makes the string, dryoc verifies / parses / re-encodes it
        "so_pwhash_str" => {
            let alg: i32 = a[0].parse().unwrap();
            let ops: u64 = a[1].parse().unwrap();
            let mem: usize = a[2].parse().unwrap();
            let (pwd, wrong) = (unhex(a[3]), unhex(a[4]));
            let mut buf = [0i8; 128];
            let sr = unsafe { so::crypto_pwhash_str_alg(buf.as_mut_ptr(), pwd.as_ptr() as *const _, pwd.len() as u64, ops, mem, alg) };
            if sr != 0 {
                return Some(("n/a".into(), "n/a".into()));
            }
            let s = so_str(&buf);
            let r1 = crypto_pwhash_str_verify(&s, &pwd);
            let r2 = crypto_pwhash_str_verify(&s, &wrong);
            let p: Result<VecPwHash, _> = PwHash::from_string(&s);
            let re = match &p { Ok(p) => if p.to_string() == s { "same".to_string() } else { format!("differs:{}", p.to_string()) }, Err(_) => "parse-failed".to_string() };
            let nr = crypto_pwhash_str_needs_rehash(&s, ops, mem);
            let nr2 = crypto_pwhash_str_needs_rehash(&s, ops + 1, mem);
            let nr3 = crypto_pwhash_str_needs_rehash(&s, ops, mem + 1024);
            // the object parsed from the string must verify exactly like the classic function (the string names its algorithm)
            let ov = match &p { Ok(p) => format!("{}{}", res(&p.verify(&pwd)), res(&p.verify(&wrong))), Err(_) => "parse-failed".to_string() };
            (format!("verify={}{} objverify={} reencode={} rehash={:?}{:?}{:?}", res(&r1), res(&r2), ov, re, nr.ok(), nr2.ok(), nr3.ok()), "verify=okerr objverify=okerr reencode=same rehash=Some(false)Some(true)Some(true)".into())
        }
        // pwhash_keypair_preset <interactive|moderate|sensitive|default> <pwd> <salt16>: the key pair derived under a cost PRESET is
        // libsodium's crypto_pwhash(32 bytes) at ITS constants for that preset → scalarmult_base
        "pwhash_keypair_preset" => {
            let (pwd, salt) = (unhex(a[1]), unhex(a[2]));
            let (cfg, ops, mem) = unsafe { match a[0] {
                "moderate" => (Config::moderate(), so::crypto_pwhash_opslimit_moderate(), so::crypto_pwhash_memlimit_moderate()),
                "sensitive" => (Config::sensitive(), so::crypto_pwhash_opslimit_sensitive(), so::crypto_pwhash_memlimit_sensitive()),
                "default" => (Config::default(), so::crypto_pwhash_opslimit_interactive(), so::crypto_pwhash_memlimit_interactive()),
                _ => (Config::interactive(), so::crypto_pwhash_opslimit_interactive(), so::crypto_pwhash_memlimit_interactive()),
            } };
            let kp: Result<dryoc::keypair::StackKeyPair, _> = VecPwHash::derive_keypair(&pwd, salt.clone(), cfg);
            let mut sk = [0u8; 32];
            let sr = unsafe { so::crypto_pwhash(sk.as_mut_ptr(), 32, pwd.as_ptr() as *const _, pwd.len() as u64, salt.as_ptr(), ops as u64, mem, 2) };
            let mut pk = [0u8; 32];
            unsafe { so::crypto_scalarmult_base(pk.as_mut_ptr(), sk.as_ptr()) };
            (match kp { Ok(k) => format!("ok {} {}", hex(k.public_key.as_ref()), hex(k.secret_key.as_ref())), Err(_) => "err".into() },
             if sr == 0 && salt.len() == 16 { format!("ok {} {}", hex(&pk), hex(&sk)) } else { "n/a".into() })
        }
        // pwhash_keypair <opslimit> <memlimit> <pwd> <salt>
        "pwhash_keypair" => {
            let ops: u64 = a[0].parse().unwrap();
            let mem: usize = a[1].parse().unwrap();
            let (pwd, salt) = (unhex(a[2]), unhex(a[3]));
            // optional 5th argument: a non-default hash_length in the Config (must not influence the derived key)
            // the builder calls are applied in an order that depends on the arguments, starting from a preset that depends on them too:
            // the derived key must depend on neither
            let start = [Config::interactive(), Config::moderate(), Config::sensitive(), Config::default()][(pwd.len() + salt.first().copied().unwrap_or(0) as usize) % 4].clone();
            let mut cfg = if (ops as usize + mem / 1024 + pwd.len()) % 2 == 0 { start.with_opslimit(ops).with_memlimit(mem) } else { start.with_memlimit(mem).with_opslimit(ops) };
            if a.len() > 4 {
                let hl: usize = a[4].parse().unwrap();
                cfg = if hl % 2 == 0 { cfg.with_hash_length(hl).with_salt_length(salt.len()).with_opslimit(ops) } else { cfg.with_salt_length(salt.len()).with_hash_length(hl).with_memlimit(mem) };
            }
            let kp: Result<dryoc::keypair::StackKeyPair, _> = VecPwHash::derive_keypair(&pwd, salt.clone(), cfg);
            let sa = if salt.len() == 16 {
                let mut sk = [0u8; 32];
                let sr = unsafe { so::crypto_pwhash(sk.as_mut_ptr(), 32, pwd.as_ptr() as *const _, pwd.len() as u64, salt.as_ptr(), ops, mem, 2) };
                let mut pk = [0u8; 32];
                unsafe { so::crypto_scalarmult_base(pk.as_mut_ptr(), sk.as_ptr()) };
                if sr == 0 { format!("ok {} {}", hex(&pk), hex(&sk)) } else { "err".into() }
            } else { "n/a".into() };
            (match kp { Ok(k) => format!("ok {} {}", hex(k.public_key.as_ref()), hex(k.secret_key.as_ref())), Err(_) => "err".into() }, sa)
        }
        _ => return None,
    })
}


fn b64_nopad(b: &[u8]) -> String {
    const T: &[u8; 64] = b"ABCDEFGHIJKLMNOPQRSTUVWXYZabcdefghijklmnopqrstuvwxyz0123456789+/";
    let mut o = String::new();
    for ch in b.chunks(3) {
        let n = (ch[0] as u32) << 16 | (*ch.get(1).unwrap_or(&0) as u32) << 8 | *ch.get(2).unwrap_or(&0) as u32;
        o.push(T[(n >> 18) as usize & 63] as char);
        o.push(T[(n >> 12) as usize & 63] as char);
        if ch.len() > 1 { o.push(T[(n >> 6) as usize & 63] as char); }
        if ch.len() > 2 { o.push(T[n as usize & 63] as char); }
    }
    o
}
