//! C16: byte and serde encodings.  `serde_fixed <cont> <N> <json|bincode> <payload>`: decode a fixed-length
//! container from an encoding that carries `payload` (JSON: array of numbers; bincode: length-prefixed bytes);
//! `serde_bytes <cont> <fmt> <payload>`: the resizable heap containers; `serde_obj <type> <fmt> …`: whole objects.
use crate::util::*;
use crate::Ans;
use dryoc::types::*;
use serde::de::DeserializeOwned;
use serde::Serialize;

fn encode(fmt: &str, payload: &[u8]) -> Vec<u8> {
    match fmt {
        "json" | "jsonval" | "jsonR" => format!("[{}]", payload.iter().map(|b| b.to_string()).collect::<Vec<_>>().join(",")).into_bytes(),
        "jsonstr" | "jsonstrR" => format!("\"{}\"", payload.iter().map(|b| (b'a' + b % 26) as char).collect::<String>()).into_bytes(),
        _ => {
            let mut v = (payload.len() as u64).to_le_bytes().to_vec();
            v.extend_from_slice(payload);
            v
        }
    }
}

fn de<T: DeserializeOwned>(fmt: &str, enc: &[u8]) -> Result<T, ()> {
    match fmt {
        "json" | "jsonstr" => serde_json::from_slice(enc).map_err(|_| ()),
        // READER-fed routes: the deserialiser owns a transient buffer and calls `visit_bytes` / `visit_str` (the slice routes above
        // call the `visit_borrowed_*` forms when the visitor has them)
        "jsonstrR" | "jsonR" => serde_json::from_reader(std::io::Cursor::new(enc)).map_err(|_| ()),
        "bincodeR" => bincode::deserialize_from(std::io::Cursor::new(enc)).map_err(|_| ()),
        // through serde_json::Value: unlike the text deserialiser, `from_value` hands the visitors a sequence WITH a size hint
        "jsonval" => serde_json::from_slice::<serde_json::Value>(enc).and_then(serde_json::from_value).map_err(|_| ()),
        _ => bincode::deserialize(enc).map_err(|_| ()),
    }
}

fn ser<T: Serialize>(fmt: &str, v: &T) -> Vec<u8> {
    match fmt {
        "json" | "jsonstr" | "jsonval" | "jsonR" | "jsonstrR" => serde_json::to_vec(v).unwrap(),
        _ => bincode::serialize(v).unwrap(),
    }
}

fn fixed<T: DeserializeOwned + Serialize + Bytes>(fmt: &str, payload: &[u8]) -> String {
    let enc = encode(fmt, payload);
    match de::<T>(fmt, &enc) {
        Ok(v) => {
            // serialise again: must reproduce an equal value
            let again = ser(fmt, &v);
            match de::<T>(fmt, &again) {
                Ok(w) if w.as_slice() == v.as_slice() => ok(v.as_slice()),
                _ => "mismatch reserialise".into(),
            }
        }
        Err(_) => "err".into(),
    }
}

/// serialise → deserialise → equal, for any serde object
fn rt<T: DeserializeOwned + Serialize>(fmt: &str, v: &T, eq: impl Fn(&T, &T) -> bool) -> Result<T, String> {
    let enc = ser(fmt, v);
    match de::<T>(fmt, &enc) {
        Ok(w) => if eq(v, &w) { Ok(w) } else { Err("mismatch not-equal-after-roundtrip".into()) },
        Err(_) => Err("mismatch deserialise-failed".into()),
    }
}

pub fn dispatch(op: &str, a: &[&str]) -> Option<Ans> {
    Some(match op {
        "serde_fixed" => {
            let (cont, n, fmt) = (a[0], a[1].parse::<usize>().unwrap(), a[2]);
            let payload = unhex(a[3]);
            macro_rules! go {
                ($t:ty) => { fixed::<$t>(fmt, &payload) };
            }
            let r = match (cont, n) {
                ("stack", 8) => go!(StackByteArray<8>),
                ("stack", 16) => go!(StackByteArray<16>),
                ("stack", 24) => go!(StackByteArray<24>),
                ("stack", 32) => go!(StackByteArray<32>),
                ("stack", 64) => go!(StackByteArray<64>),
                #[cfg(feature = "nightly")]
                ("locked", 16) => go!(dryoc::protected::Locked<dryoc::protected::HeapByteArray<16>>),
                #[cfg(feature = "nightly")]
                ("locked", 24) => go!(dryoc::protected::Locked<dryoc::protected::HeapByteArray<24>>),
                #[cfg(feature = "nightly")]
                ("locked", 32) => go!(dryoc::protected::Locked<dryoc::protected::HeapByteArray<32>>),
                #[cfg(feature = "nightly")]
                ("locked", 64) => go!(dryoc::protected::Locked<dryoc::protected::HeapByteArray<64>>),
                _ => "n/a".into(),
            };
            (r, "n/a".into())
        }
        // cont_ops <m> <data>: resize(m, 0) and clone give the same bytes in every resizable container (Vec, heap, unlocked, locked,
        // read-only locked for clone)
        #[cfg(feature = "nightly")]
        "cont_ops" => {
            use dryoc::protected::*;
            let m: usize = a[0].parse().unwrap();
            let data = unhex(a[1]);
            let mut v = data.clone();
            v.resize(m, 0);
            let mut hb = HeapBytes::from(data.as_slice());
            hb.resize(m, 0);
            if hb.as_slice() != v { return Some((format!("mismatch HeapBytes::resize {}", hex(hb.as_slice())), ok(&v))); }
            let mut lk = HeapBytes::from_slice_into_locked(&data).unwrap();
            lk.resize(m, 0);
            if lk.as_slice() != v { return Some((format!("mismatch Locked<HeapBytes>::resize {}", hex(lk.as_slice())), ok(&v))); }
            let mut ul = HeapBytes::from_slice_into_locked(&data).unwrap().munlock().unwrap();
            ul.resize(m, 0);
            if ul.as_slice() != v { return Some((format!("mismatch Unlocked<HeapBytes>::resize {}", hex(ul.as_slice())), ok(&v))); }
            // … and growing again (into whatever capacity the shrink left behind) pads with zeros, like Vec
            let back = data.len() + 3;
            let mut v2 = v.clone();
            v2.resize(back, 0);
            hb.resize(back, 0);
            if hb.as_slice() != v2 { return Some((format!("mismatch HeapBytes::resize({}) then resize({}) {}", m, back, hex(hb.as_slice())), ok(&v))); }
            lk.resize(back, 0);
            if lk.as_slice() != v2 { return Some((format!("mismatch Locked<HeapBytes>::resize({}) then resize({}) {}", m, back, hex(lk.as_slice())), ok(&v))); }
            ul.resize(back, 0);
            if ul.as_slice() != v2 { return Some((format!("mismatch Unlocked<HeapBytes>::resize({}) then resize({}) {}", m, back, hex(ul.as_slice())), ok(&v))); }
            // the same through a plain container that was locked and unlocked again, and with a non-zero fill byte
            let mut h3 = HeapBytes::from(data.as_slice());
            h3.resize(m, 7);
            h3.resize(back, 9);
            let mut v3 = data.clone();
            v3.resize(m, 7);
            v3.resize(back, 9);
            if h3.as_slice() != v3 { return Some((format!("mismatch HeapBytes resize({},7) then resize({},9) {}", m, back, hex(h3.as_slice())), ok(&v))); }
            // … a non-zero fill byte in the protected containers too (locked, and unlocked again): `resize(n, value)` pads with `value`
            let r_nz = std::panic::catch_unwind(|| -> Option<String> {
                let mut l3 = HeapBytes::from_slice_into_locked(&data).unwrap();
                l3.resize(m, 7);
                l3.resize(back, 9);
                if l3.as_slice() != v3 { return Some(format!("mismatch Locked<HeapBytes> resize({},7) then resize({},9) {}", m, back, hex(l3.as_slice()))); }
                let mut u3 = HeapBytes::from_slice_into_locked(&data).unwrap().munlock().unwrap();
                u3.resize(m, 7);
                u3.resize(back, 9);
                if u3.as_slice() != v3 { return Some(format!("mismatch Unlocked<HeapBytes> resize({},7) then resize({},9) {}", m, back, hex(u3.as_slice()))); }
                None
            });
            match r_nz {
                Ok(None) => {}
                Ok(Some(msg)) => return Some((msg, ok(&v))),
                Err(_) => return Some(("mismatch resize with a non-zero fill byte panicked in a protected container".into(), ok(&v))),
            }
            // clones keep the bytes
            let l2 = HeapBytes::from_slice_into_locked(&data).unwrap();
            let c1 = l2.clone();
            let ro = HeapBytes::from_slice_into_readonly_locked(&data).unwrap();
            let c2 = ro.clone();
            let uro = HeapBytes::from_slice_into_locked(&data).unwrap().munlock().unwrap().mprotect_readonly().unwrap();
            let c3 = uro.clone();
            let c4 = HeapBytes::from(data.as_slice()).clone();
            // `munlock` is offered in every lock mode: on a region that is NOT locked it must leave the bytes alone
            let twice = HeapBytes::from_slice_into_locked(&data).unwrap().munlock().unwrap().munlock().unwrap();
            if twice.as_slice() != data { return Some((format!("mismatch munlock of an unlocked region changed the bytes: {}", hex(twice.as_slice())), ok(&v))); }
            let ro_then_unlock = HeapBytes::from_slice_into_locked(&data).unwrap().munlock().unwrap().mprotect_readonly().unwrap().munlock().unwrap();
            if ro_then_unlock.as_slice() != data { return Some((format!("mismatch munlock of an unlocked read-only region changed the bytes: {}", hex(ro_then_unlock.as_slice())), ok(&v))); }
            let relocked = twice.mlock().unwrap();
            if relocked.as_slice() != data { return Some((format!("mismatch re-locking after munlock·munlock changed the bytes: {}", hex(relocked.as_slice())), ok(&v))); }
            if c1.as_slice() != data || c2.as_slice() != data || c3.as_slice() != data || c4.as_slice() != data {
                return Some((format!("mismatch clone locked={} lockedro={} unlockedro={} heap={}", hex(c1.as_slice()), hex(c2.as_slice()), hex(c3.as_slice()), hex(c4.as_slice())), ok(&v)));
            }
            (ok(&v), ok(&v))
        }
        #[cfg(not(feature = "nightly"))]
        "cont_ops" => ("n/a".into(), "n/a".into()),
        // alias_lengths: the fixed-length type aliases of the `protected` modules hold exactly as many bytes as libsodium's constants say
        // (an alias with another length silently changes what the length-inferring forms — `hash()`, `finalize()` — compute)
        #[cfg(feature = "nightly")]
        "alias_lengths" => {
            use dryoc::types::NewByteArray;
            use libsodium_sys as so;
            macro_rules! len_of { ($t:ty) => { <$t>::new_byte_array().as_slice().len() } }
            let got = format!("auth.Key={} auth.Mac={} secretbox.Key={} generichash.Key={} generichash.Hash={} kdf.Key={} kdf.Context={} onetimeauth.Key={} onetimeauth.Mac={} sign.PublicKey={} sign.SecretKey={} sign.Signature={}",
                len_of!(dryoc::auth::protected::Key), len_of!(dryoc::auth::protected::Mac), len_of!(dryoc::dryocsecretbox::protected::Key),
                len_of!(dryoc::generichash::protected::Key), len_of!(dryoc::generichash::protected::Hash), len_of!(dryoc::kdf::protected::Key), len_of!(dryoc::kdf::protected::Context),
                len_of!(dryoc::onetimeauth::protected::Key), len_of!(dryoc::onetimeauth::protected::Mac),
                len_of!(dryoc::sign::protected::PublicKey), len_of!(dryoc::sign::protected::SecretKey), len_of!(dryoc::sign::protected::Signature));
            let want = unsafe { format!("auth.Key={} auth.Mac={} secretbox.Key={} generichash.Key={} generichash.Hash={} kdf.Key={} kdf.Context={} onetimeauth.Key={} onetimeauth.Mac={} sign.PublicKey={} sign.SecretKey={} sign.Signature={}",
                so::crypto_auth_keybytes(), so::crypto_auth_bytes(), so::crypto_secretbox_keybytes(), so::crypto_generichash_keybytes(), so::crypto_generichash_bytes(),
                so::crypto_kdf_keybytes(), so::crypto_kdf_contextbytes(), so::crypto_onetimeauth_keybytes(), so::crypto_onetimeauth_bytes(),
                so::crypto_sign_publickeybytes(), so::crypto_sign_secretkeybytes(), so::crypto_sign_bytes()) };
            (format!("ok {}", got), format!("ok {}", want))
        }
        #[cfg(not(feature = "nightly"))]
        "alias_lengths" => ("n/a".into(), "n/a".into()),
        // serde_ser <cont> <fmt> <payload>: every container serialises a byte string the same way
        "serde_ser" => {
            let (cont, fmt) = (a[0], a[1]);
            let p = unhex(a[2]);
            let want = encode(fmt, &p);
            macro_rules! fixedser { ($t:ty) => { match <$t>::try_from(p.as_slice()) { Ok(v) => Some(ser(fmt, &v)), Err(_) => None } }; }
            let got: Option<Vec<u8>> = match (cont, p.len()) {
                ("vec", _) => Some(ser(fmt, &p)),
                ("stack", 16) => fixedser!(StackByteArray<16>),
                ("stack", 32) => fixedser!(StackByteArray<32>),
                ("stack", 64) => fixedser!(StackByteArray<64>),
                #[cfg(feature = "nightly")]
                ("heaparr", 16) => fixedser!(dryoc::protected::HeapByteArray<16>),
                #[cfg(feature = "nightly")]
                ("heaparr", 32) => fixedser!(dryoc::protected::HeapByteArray<32>),
                #[cfg(feature = "nightly")]
                ("heaparr", 64) => fixedser!(dryoc::protected::HeapByteArray<64>),
                #[cfg(feature = "nightly")]
                ("heap", _) => Some(ser(fmt, &dryoc::protected::HeapBytes::from(p.as_slice()))),
                #[cfg(feature = "nightly")]
                ("locked", _) => { use dryoc::protected::*; HeapBytes::from_slice_into_locked(&p).ok().map(|v| ser(fmt, &v)) }
                #[cfg(feature = "nightly")]
                ("lockedro", _) => { use dryoc::protected::*; HeapBytes::from_slice_into_readonly_locked(&p).ok().map(|v| ser(fmt, &v)) }
                #[cfg(feature = "nightly")]
                ("lockedarr", 32) => { use dryoc::protected::*; HeapByteArray::<32>::from_slice_into_locked(&p).ok().map(|v| ser(fmt, &v)) }
                _ => return Some(("n/a".into(), "n/a".into())),
            };
            (match got { Some(g) => ok(&g), None => "err".into() }, ok(&want))
        }
        // tryfrom <cont> <N> <payload>: TryFrom<&[u8]> of a fixed-length container, and the key-pair slice decoders
        "tryfrom" => {
            let (cont, n) = (a[0], a[1].parse::<usize>().unwrap());
            let p = unhex(a[2]);
            use std::convert::TryFrom;
            macro_rules! tf { ($t:ty) => { match <$t>::try_from(p.as_slice()) { Ok(v) => ok(v.as_slice()), Err(_) => "err".to_string() } }; }
            let r: String = match (cont, n) {
                ("stack", 8) => tf!(StackByteArray<8>),
                ("stack", 16) => tf!(StackByteArray<16>),
                ("stack", 24) => tf!(StackByteArray<24>),
                ("stack", 32) => tf!(StackByteArray<32>),
                ("stack", 64) => tf!(StackByteArray<64>),
                #[cfg(feature = "nightly")]
                ("heap", 16) => tf!(dryoc::protected::HeapByteArray<16>),
                #[cfg(feature = "nightly")]
                ("heap", 32) => tf!(dryoc::protected::HeapByteArray<32>),
                #[cfg(feature = "nightly")]
                ("heap", 64) => tf!(dryoc::protected::HeapByteArray<64>),
                // by-value conversion of an array into a heap container (`HeapByteArray::from([u8; N])`, `.into()`)
                #[cfg(feature = "nightly")]
                ("heapval", 16) | ("heapval", 24) | ("heapval", 32) | ("heapval", 64) => {
                    use dryoc::protected::HeapByteArray;
                    macro_rules! hv { ($n:literal) => {
                        match <[u8; $n]>::try_from(p.as_slice()) {
                            Ok(arr) => { let h: HeapByteArray<$n> = arr.into(); let h2 = HeapByteArray::<$n>::from(arr); if h.as_slice() != h2.as_slice() { "mismatch into/from".to_string() } else { ok(h.as_slice()) } }
                            Err(_) => "err".to_string(),
                        } }; }
                    match n { 16 => hv!(16), 24 => hv!(24), 32 => hv!(32), _ => hv!(64) }
                }
                // the slice constructors of locked fixed-length containers (keys, nonces, tags held in protected memory)
                #[cfg(feature = "nightly")]
                ("locked", 16) | ("locked", 24) | ("locked", 32) | ("locked", 64) | ("lockedro", 16) | ("lockedro", 24) | ("lockedro", 32) | ("lockedro", 64) => {
                    use dryoc::protected::{HeapByteArray, NewLockedFromSlice};
                    macro_rules! fl { ($n:literal) => {
                        if cont == "locked" {
                            match HeapByteArray::<$n>::from_slice_into_locked(p.as_slice()) { Ok(v) => ok(v.as_slice()), Err(_) => "err".to_string() }
                        } else {
                            match HeapByteArray::<$n>::from_slice_into_readonly_locked(p.as_slice()) { Ok(v) => ok(v.as_slice()), Err(_) => "err".to_string() }
                        } }; }
                    match n { 16 => fl!(16), 24 => fl!(24), 32 => fl!(32), _ => fl!(64) }
                }
                // key-pair decoders: public key ‖ secret key, split in the middle of the payload
                ("keypair", _) => {
                    let (pk, sk) = p.split_at(p.len() / 2);
                    match dryoc::keypair::StackKeyPair::from_slices(pk, sk) { Ok(k) => ok(&[k.public_key.to_vec(), k.secret_key.to_vec()].concat()), Err(_) => "err".into() }
                }
                ("signkeypair", _) => {
                    let cut = p.len() / 3;
                    let (pk, sk) = p.split_at(cut);
                    match dryoc::sign::SigningKeyPair::<dryoc::sign::PublicKey, dryoc::sign::SecretKey>::from_slices(pk, sk) { Ok(k) => ok(&[k.public_key.to_vec(), k.secret_key.to_vec()].concat()), Err(_) => "err".into() }
                }
                _ => "n/a".into(),
            };
            (r, "n/a".into())
        }
        "serde_bytes" => {
            let (cont, fmt) = (a[0], a[1]);
            let payload = unhex(a[2]);
            let _ = (&payload, fmt);
            let r: String = match cont {
                "vec" => fixed::<Vec<u8>>(fmt, &payload),
                #[cfg(feature = "nightly")]
                "heap" => fixed::<dryoc::protected::HeapBytes>(fmt, &payload),
                #[cfg(feature = "nightly")]
                "locked" => fixed::<dryoc::protected::LockedBytes>(fmt, &payload),
                _ => "n/a".into(),
            };
            (r, "n/a".into())
        }
        // serde_obj <type> <fmt> <args…>
        "serde_obj" => {
            let (ty, fmt) = (a[0], a[1]);
            let b: Vec<Vec<u8>> = a[2..].iter().map(|s| unhex_lenient(s)).collect();
            let r: String = match ty {
                // secretbox key nonce msg
                "secretbox" => {
                    let (k, n): ([u8; 32], [u8; 24]) = (arr(&b[0]), arr(&b[1]));
                    let bx = dryoc::dryocsecretbox::VecBox::encrypt_to_vecbox(&b[2], &n, &k);
                    match rt(fmt, &bx, |x, y| x == y) {
                        Ok(w) => match w.decrypt_to_vec(&n, &k) {
                            // the consuming conversion of the decoded object (its payload Vec carries whatever capacity the decoder left)
                            Ok(m) if m == b[2] => { let v = w.to_vec(); if w.into_vec() != v { "mismatch into_vec-after-roundtrip != to_vec".into() } else { ok(&v) } }
                            _ => "mismatch decrypt-after-roundtrip".into(),
                        },
                        Err(e) => e,
                    }
                }
                // box pk sk nonce msg
                "box" => {
                    let (pk, sk, n): ([u8; 32], [u8; 32], [u8; 24]) = (arr(&b[0]), arr(&b[1]), arr(&b[2]));
                    let bx = dryoc::dryocbox::VecBox::encrypt_to_vecbox(&b[3], &n.into(), &pk.into(), &sk).unwrap();
                    match rt(fmt, &bx, |x, y| x == y) {
                        Ok(w) => match w.decrypt_to_vec(&n.into(), &pk.into(), &sk) { Ok(m) if m == b[3] => ok(&w.to_vec()), _ => "mismatch decrypt-after-roundtrip".into() },
                        Err(e) => e,
                    }
                }
                // sealed rpk rsk msg
                "sealed" => {
                    let kp = dryoc::dryocbox::KeyPair::from_slices(&b[0], &b[1]).unwrap();
                    let bx = dryoc::dryocbox::VecBox::seal_to_vecbox(&b[2], &kp.public_key).unwrap();
                    match rt(fmt, &bx, |x, y| x == y) {
                        Ok(w) => match w.unseal_to_vec(&kp) { Ok(m) if m == b[2] => format!("ok len={}", w.to_vec().len()), _ => "mismatch unseal-after-roundtrip".into() },
                        Err(e) => e,
                    }
                }
                // signed sk64 msg
                "signed" => {
                    let sk: [u8; 64] = arr(&b[0]);
                    let kp = dryoc::sign::SigningKeyPair::<dryoc::sign::PublicKey, dryoc::sign::SecretKey>::from_secret_key(sk.into());
                    let sm = kp.sign_with_defaults(b[1].clone()).unwrap();
                    match rt(fmt, &sm, |x, y| x == y) {
                        Ok(w) => if w.verify(&kp.public_key).is_ok() { ok(&w.to_vec()) } else { "mismatch verify-after-roundtrip".into() },
                        Err(e) => e,
                    }
                }
                // keypair sk
                "keypair" => {
                    let sk: [u8; 32] = arr(&b[0]);
                    let kp = dryoc::keypair::StackKeyPair::from_secret_key(sk.into());
                    match rt(fmt, &kp, |x, y| x == y) { Ok(w) => ok(&[w.public_key.to_vec(), w.secret_key.to_vec()].concat()), Err(e) => e }
                }
                "signkeypair" => {
                    let seed: [u8; 32] = arr(&b[0]);
                    let kp = dryoc::sign::SigningKeyPair::<dryoc::sign::PublicKey, dryoc::sign::SecretKey>::from_seed(&seed);
                    match rt(fmt, &kp, |x, y| x == y) { Ok(w) => ok(&[w.public_key.to_vec(), w.secret_key.to_vec()].concat()), Err(e) => e }
                }
                // session cpk csk spk
                "session" => {
                    let kp = dryoc::kx::KeyPair::from_slices(&b[0], &b[1]).unwrap();
                    let spk: [u8; 32] = arr(&b[2]);
                    match dryoc::kx::StackSession::new_client(&kp, &spk.into()) {
                        Ok(s) => match rt(fmt, &s, |x, y| x.rx_as_slice() == y.rx_as_slice() && x.tx_as_slice() == y.tx_as_slice()) {
                            Ok(w) => ok(&[w.rx_as_slice(), w.tx_as_slice()].concat()), Err(e) => e },
                        Err(_) => "err".into(),
                    }
                }
                // kdf key ctx
                "kdf" => {
                    let (k, c): ([u8; 32], [u8; 8]) = (arr(&b[0]), arr(&b[1]));
                    let kdf = dryoc::kdf::StackKdf::from_parts(k.into(), c.into());
                    let enc = ser(fmt, &kdf);
                    match de::<dryoc::kdf::StackKdf>(fmt, &enc) {
                        Ok(w) => match (w.derive_subkey_to_vec(7), kdf.derive_subkey_to_vec(7)) { (Ok(x), Ok(y)) if x == y => ok(&x), _ => "mismatch derive-after-roundtrip".into() },
                        Err(_) => "mismatch deserialise-failed".into(),
                    }
                }
                // pwhash pwd salt
                "pwhash" => {
                    let cfg = dryoc::pwhash::Config::interactive().with_opslimit(1).with_memlimit(8192);
                    let h: dryoc::pwhash::VecPwHash = dryoc::pwhash::PwHash::hash_with_salt(&b[0], b[1].clone(), cfg).unwrap();
                    let enc = ser(fmt, &h);
                    match de::<dryoc::pwhash::VecPwHash>(fmt, &enc) {
                        Ok(w) => if w.verify(&b[0]).is_ok() && w.verify(&b"zz".to_vec()).is_err() { let (hh, _, _) = w.into_parts(); ok(&hh) } else { "mismatch verify-after-roundtrip".into() },
                        Err(_) => "mismatch deserialise-failed".into(),
                    }
                }
                _ => "n/a".into(),
            };
            (r, "n/a".into())
        }
        _ => return None,
    })
}
