//! Counting global allocator: largest single allocation requested since reset.
use std::alloc::{GlobalAlloc, Layout, System};
use std::sync::atomic::{AtomicUsize, Ordering};

pub struct Counting;
static MAX_SINGLE: AtomicUsize = AtomicUsize::new(0);

unsafe impl GlobalAlloc for Counting {
    unsafe fn alloc(&self, l: Layout) -> *mut u8 {
        MAX_SINGLE.fetch_max(l.size(), Ordering::Relaxed);
        System.alloc(l)
    }
    unsafe fn dealloc(&self, p: *mut u8, l: Layout) {
        System.dealloc(p, l)
    }
    unsafe fn realloc(&self, p: *mut u8, l: Layout, n: usize) -> *mut u8 {
        MAX_SINGLE.fetch_max(n, Ordering::Relaxed);
        System.realloc(p, l, n)
    }
    unsafe fn alloc_zeroed(&self, l: Layout) -> *mut u8 {
        MAX_SINGLE.fetch_max(l.size(), Ordering::Relaxed);
        System.alloc_zeroed(l)
    }
}

#[global_allocator]
static A: Counting = Counting;

pub fn reset() {
    MAX_SINGLE.store(0, Ordering::Relaxed);
}
pub fn max_single() -> usize {
    MAX_SINGLE.load(Ordering::Relaxed)
}
