//! C14 / C15 / C19 (nightly): protected-memory histories observed through /proc, forked fault probes,
//! the allocator release observer (hook H2) and the mlock-refusal shim (interpose/mlock_fail.c).
//!
//! `prot <bytes|arrN> <len> tok…` — regions are numbered from 0; every token acts on region `@i` (default 0):
//!   new  lock unlock ro rw na clone resize:N fill:HH drop  wprobe:OFF rprobe:OFF gprobe:fore|aft
//!   fsl:N (HeapBytes::from_slice_into_locked of N bytes 0x5a → new region)  fsro:N  newlocked  genlocked  failfrom:K
//! Answer per token: `<result>/<R0>/<R1>…` with Ri = `<state>,<len>,<fore><data…><after…>,<sum>` and a trailer
//! `lck=<locked kB delta>` `rel=<size>:<nonzero>+…` (regions released by the allocator during the token).
use crate::util::*;
use crate::Ans;
use dryoc::protected::*;
use dryoc::types::*;
use std::sync::Mutex;

static RELEASES: Mutex<Vec<(usize, usize, usize)>> = Mutex::new(Vec::new());

fn observer(addr: usize, size: usize, nonzero: usize) {
    RELEASES.lock().unwrap().push((addr, size, nonzero));
}

fn page() -> usize {
    unsafe { libc::sysconf(libc::_SC_PAGE_SIZE) as usize }
}

fn maps() -> Vec<(usize, usize, char)> {
    let s = std::fs::read_to_string("/proc/self/maps").unwrap_or_default();
    let mut v = vec![];
    for l in s.lines() {
        let mut it = l.split_whitespace();
        let (range, perms) = (it.next().unwrap_or(""), it.next().unwrap_or(""));
        let mut r = range.split('-');
        let a = usize::from_str_radix(r.next().unwrap_or("0"), 16).unwrap_or(0);
        let b = usize::from_str_radix(r.next().unwrap_or("0"), 16).unwrap_or(0);
        let c = if perms.starts_with("rw") { 'w' } else if perms.starts_with("r-") { 'r' } else if perms.starts_with("--") { 'n' } else { '?' };
        v.push((a, b, c));
    }
    v
}

fn perm_at(m: &[(usize, usize, char)], addr: usize) -> char {
    for (a, b, c) in m {
        if *a <= addr && addr < *b {
            return *c;
        }
    }
    'u'
}

fn vmlck_kb() -> usize {
    let s = std::fs::read_to_string("/proc/self/status").unwrap_or_default();
    for l in s.lines() {
        if let Some(r) = l.strip_prefix("VmLck:") {
            return r.trim().trim_end_matches("kB").trim().parse().unwrap_or(0);
        }
    }
    0
}

enum Reg<A: zeroize::Zeroize + Bytes> {
    Plain(A),
    UR(Unlocked<A>),
    URO(UnlockedRO<A>),
    UNA(NoAccess<A>),
    LR(Locked<A>),
    LRO(LockedRO<A>),
    LNA(Protected<A, traits::NoAccess, traits::Locked>),
    Gone,
}

struct Slot<A: zeroize::Zeroize + Bytes> {
    r: Reg<A>,
    ptr: usize,
    len: usize,
}

trait Cont: zeroize::Zeroize + Bytes + MutBytes + NewBytes + Default + Clone + Lockable<Self> + Sized {
    fn resize_plain(&mut self, _n: usize) -> bool { false }
    fn resize_unlocked(_p: &mut Unlocked<Self>, _n: usize) -> bool { false }
    fn resize_locked(_p: &mut Locked<Self>, _n: usize) -> bool { false }
    fn clone_locked(_p: &Locked<Self>) -> Option<Locked<Self>> { None }
    fn clone_lockedro(_p: &LockedRO<Self>) -> Option<LockedRO<Self>> { None }
    fn clone_from_locked(_d: &mut Locked<Self>, _s: &Locked<Self>) -> bool { false }
    fn clone_from_lockedro(_d: &mut LockedRO<Self>, _s: &LockedRO<Self>) -> bool { false }
    fn from_slice_locked(_s: &[u8]) -> Option<Result<Locked<Self>, dryoc::Error>> { None }
    fn from_slice_lockedro(_s: &[u8]) -> Option<Result<LockedRO<Self>, dryoc::Error>> { None }
    /// serde decode of an encoding that carries `payload` into the locked form of the container
    fn serde_locked(_fmt: &str, _payload: &[u8]) -> Option<Result<Locked<Self>, ()>> { None }
    /// `StackByteArray::<N>::mlock()`: a stack array moved into locked heap memory
    fn stack_lock(_fill: u8) -> Option<Result<Locked<Self>, std::io::Error>> { None }
}
fn serde_encode(fmt: &str, payload: &[u8]) -> Vec<u8> {
    if fmt == "json" {
        format!("[{}]", payload.iter().map(|b| b.to_string()).collect::<Vec<_>>().join(",")).into_bytes()
    } else {
        let mut v = (payload.len() as u64).to_le_bytes().to_vec();
        v.extend_from_slice(payload);
        v
    }
}
fn serde_decode<T: serde::de::DeserializeOwned>(fmt: &str, enc: &[u8]) -> Result<T, ()> {
    if fmt == "json" { serde_json::from_slice(enc).map_err(|_| ()) } else { bincode::deserialize(enc).map_err(|_| ()) }
}
impl Cont for HeapBytes {
    fn serde_locked(fmt: &str, payload: &[u8]) -> Option<Result<Locked<Self>, ()>> { Some(serde_decode::<Locked<HeapBytes>>(fmt, &serde_encode(fmt, payload))) }
    fn resize_plain(&mut self, n: usize) -> bool { self.resize(n, 0); true }
    fn resize_unlocked(p: &mut Unlocked<Self>, n: usize) -> bool { p.resize(n, 0); true }
    fn resize_locked(p: &mut Locked<Self>, n: usize) -> bool { p.resize(n, 0); true }
    fn clone_locked(p: &Locked<Self>) -> Option<Locked<Self>> { Some(p.clone()) }
    fn clone_lockedro(p: &LockedRO<Self>) -> Option<LockedRO<Self>> { Some(p.clone()) }
    fn clone_from_locked(d: &mut Locked<Self>, s: &Locked<Self>) -> bool { d.clone_from(s); true }
    fn clone_from_lockedro(d: &mut LockedRO<Self>, s: &LockedRO<Self>) -> bool { d.clone_from(s); true }
    fn from_slice_locked(s: &[u8]) -> Option<Result<Locked<Self>, dryoc::Error>> { Some(HeapBytes::from_slice_into_locked(s)) }
    fn from_slice_lockedro(s: &[u8]) -> Option<Result<LockedRO<Self>, dryoc::Error>> { Some(HeapBytes::from_slice_into_readonly_locked(s)) }
}
impl<const N: usize> Cont for HeapByteArray<N> {
    fn stack_lock(fill: u8) -> Option<Result<Locked<Self>, std::io::Error>> { Some(StackByteArray::<N>::from([fill; N]).mlock()) }
    fn serde_locked(fmt: &str, payload: &[u8]) -> Option<Result<Locked<Self>, ()>> { Some(serde_decode::<Locked<HeapByteArray<N>>>(fmt, &serde_encode(fmt, payload))) }
    fn from_slice_locked(s: &[u8]) -> Option<Result<Locked<Self>, dryoc::Error>> { Some(HeapByteArray::<N>::from_slice_into_locked(s)) }
    fn from_slice_lockedro(s: &[u8]) -> Option<Result<LockedRO<Self>, dryoc::Error>> { Some(HeapByteArray::<N>::from_slice_into_readonly_locked(s)) }
}

impl<A: Cont> Slot<A> {
    fn state(&self) -> &'static str {
        match &self.r {
            Reg::Plain(_) => "P", Reg::UR(_) => "UR", Reg::URO(_) => "URO", Reg::UNA(_) => "UNA",
            Reg::LR(_) => "LR", Reg::LRO(_) => "LRO", Reg::LNA(_) => "LNA", Reg::Gone => "-",
        }
    }
    fn slice(&self) -> Option<&[u8]> {
        match &self.r {
            Reg::Plain(a) => Some(a.as_slice()), Reg::UR(p) => Some(p.as_slice()), Reg::URO(p) => Some(p.as_slice()),
            Reg::LR(p) => Some(p.as_slice()), Reg::LRO(p) => Some(p.as_slice()), _ => None,
        }
    }
    fn refresh(&mut self) {
        if let Some(s) = self.slice() {
            let (p, l) = (s.as_ptr() as usize, s.len());
            self.ptr = p;
            self.len = l;
        }
    }
    fn describe(&self, m: &[(usize, usize, char)]) -> String {
        if let Reg::Gone = self.r {
            return "-".into();
        }
        let pg = page();
        let mut perms = String::new();
        if self.len == 0 || self.ptr == 0 || self.ptr % pg != 0 {
            perms.push_str("none");
        } else {
            perms.push(perm_at(m, self.ptr - pg));
            perms.push('|');
            let npages = (self.len + pg - 1) / pg;
            for i in 0..npages {
                perms.push(perm_at(m, self.ptr + i * pg));
            }
            perms.push('|');
            // pages after the data up to and including the first inaccessible one
            for i in npages..npages + 40 {
                let c = perm_at(m, self.ptr + i * pg);
                perms.push(c);
                if c != 'w' && c != 'r' {
                    break;
                }
            }
        }
        let sum = match self.slice() {
            Some(s) => {
                let mut x: u32 = 0;
                for (i, b) in s.iter().enumerate() {
                    x = x.wrapping_mul(31).wrapping_add(*b as u32 + (i as u32 & 0xff));
                }
                format!("{:08x}", x)
            }
            None => "?".into(),
        };
        format!("{},{},{},{}", self.state(), self.len, perms, sum)
    }
}

fn child_probe(f: impl FnOnce()) -> &'static str {
    unsafe {
        let pid = libc::fork();
        if pid == 0 {
            // default SIGSEGV action; make sure rust's handler isn't in the way
            libc::signal(libc::SIGSEGV, libc::SIG_DFL);
            libc::signal(libc::SIGBUS, libc::SIG_DFL);
            f();
            libc::_exit(0);
        }
        let mut st: i32 = 0;
        libc::waitpid(pid, &mut st, 0);
        if libc::WIFSIGNALED(st) {
            match libc::WTERMSIG(st) { libc::SIGSEGV => "segv", libc::SIGBUS => "bus", _ => "sig" }
        } else if libc::WIFEXITED(st) && libc::WEXITSTATUS(st) == 0 { "ok" } else { "exit" }
    }
}

/// the free()-scanning shim (interpose/free_scan.c), when it is preloaded
fn free_scan_enable(on: bool) -> bool {
    unsafe {
        let sym = libc::dlsym(libc::RTLD_DEFAULT, b"verif_free_scan_enable\0".as_ptr() as *const _);
        if sym.is_null() { return false; }
        let f: unsafe extern "C" fn(i32) = std::mem::transmute(sym);
        f(on as i32);
        true
    }
}
fn free_scan_take() -> Vec<(usize, usize, usize)> {
    unsafe {
        let sym = libc::dlsym(libc::RTLD_DEFAULT, b"verif_free_scan_take\0".as_ptr() as *const _);
        if sym.is_null() { return vec![]; }
        let f: unsafe extern "C" fn(*mut usize, *mut usize, *mut usize, i32) -> i32 = std::mem::transmute(sym);
        let (mut a, mut b, mut c) = ([0usize; 64], [0usize; 64], [0usize; 64]);
        let k = f(a.as_mut_ptr(), b.as_mut_ptr(), c.as_mut_ptr(), 64) as usize;
        (0..k).map(|i| (a[i], b[i], c[i])).collect()
    }
}

type SetFail = unsafe extern "C" fn(i64);
fn set_mprotect_fail_at(k: i64) -> bool {
    unsafe {
        let sym = libc::dlsym(libc::RTLD_DEFAULT, b"verif_mprotect_fail_at\0".as_ptr() as *const _);
        if sym.is_null() {
            return false;
        }
        let f: SetFail = std::mem::transmute(sym);
        f(k);
        true
    }
}
fn set_fail_from(k: i64) -> bool {
    unsafe {
        let sym = libc::dlsym(libc::RTLD_DEFAULT, b"verif_mlock_fail_from\0".as_ptr() as *const _);
        if sym.is_null() {
            return false;
        }
        let f: SetFail = std::mem::transmute(sym);
        f(k);
        true
    }
}

fn run<A: Cont>(len: usize, toks: &[&str]) -> String {
    #[cfg(feature = "hooks")]
    dryoc::protected::verif_hooks::set_release_observer(Some(observer));
    RELEASES.lock().unwrap().clear();
    set_fail_from(-1);
    let scanning = free_scan_enable(true);
    let base_lck = vmlck_kb();
    let mut slots: Vec<Slot<A>> = vec![];
    let mut out: Vec<String> = vec![];
    for tok in toks {
        let (t, idx) = match tok.split_once('@') {
            Some((t, i)) => (t, i.parse::<usize>().unwrap_or(0)),
            None => (*tok, 0usize),
        };
        let (name, arg) = match t.split_once(':') { Some((n, a)) => (n, a), None => (t, "") };
        let res = std::panic::catch_unwind(std::panic::AssertUnwindSafe(|| -> String {
            macro_rules! take { () => {{ if idx >= slots.len() { return "noslot".into(); } std::mem::replace(&mut slots[idx].r, Reg::Gone) }}; }
            macro_rules! put { ($e:expr) => {{ match $e { Ok(v) => { slots[idx].r = v; slots[idx].refresh(); "ok".to_string() } Err(_) => "err".to_string() } }}; }
            match name {
                "new" => {
                    let mut a = A::new_bytes();
                    if a.len() != len { if !a.resize_plain(len) { return "n/a".into(); } }
                    let mut s = Slot { r: Reg::Plain(a), ptr: 0, len: 0 };
                    s.refresh();
                    slots.push(s);
                    "ok".into()
                }
                "wrap" => { // Plain → Unlocked RW without locking (mprotect_readwrite on a plain container)
                    "n/a".into()
                }
                "fill" => {
                    if idx >= slots.len() { return "noslot".into(); }
                    let b = u8::from_str_radix(arg, 16).unwrap_or(0xa5);
                    match &mut slots[idx].r {
                        Reg::Plain(a) => { a.as_mut_slice().fill(b); "ok".into() }
                        Reg::UR(p) => { p.as_mut_slice().fill(b); "ok".into() }
                        Reg::LR(p) => { p.as_mut_slice().fill(b); "ok".into() }
                        _ => "n/a".into(),
                    }
                }
                // fillfrom:<offset>:<byte> — write the byte from an offset to the end (leaves an all-zero prefix)
                "fillfrom" => {
                    if idx >= slots.len() { return "noslot".into(); }
                    let (o, b) = arg.split_once(':').unwrap_or(("0", "a5"));
                    let (o, b) = (o.parse::<usize>().unwrap_or(0), u8::from_str_radix(b, 16).unwrap_or(0xa5));
                    match &mut slots[idx].r {
                        Reg::Plain(a) => { let s = a.as_mut_slice(); if o <= s.len() { s[o..].fill(b); } "ok".into() }
                        Reg::UR(p) => { let s = p.as_mut_slice(); if o <= s.len() { s[o..].fill(b); } "ok".into() }
                        Reg::LR(p) => { let s = p.as_mut_slice(); if o <= s.len() { s[o..].fill(b); } "ok".into() }
                        _ => "n/a".into(),
                    }
                }
                "lock" => {
                    match take!() {
                        Reg::Plain(a) => put!(a.mlock().map(Reg::LR)),
                        Reg::UR(p) => put!(p.mlock().map(Reg::LR)),
                        Reg::URO(p) => put!(p.mlock().map(Reg::LRO)),
                        Reg::UNA(p) => put!(p.mlock().map(Reg::LNA)),
                        other => { slots[idx].r = other; "n/a".into() }
                    }
                }
                "unlock" => {
                    match take!() {
                        Reg::LR(p) => put!(p.munlock().map(Reg::UR)),
                        Reg::LRO(p) => put!(p.munlock().map(Reg::URO)),
                        Reg::LNA(p) => put!(p.munlock().map(Reg::UNA)),
                        Reg::UR(p) => put!(p.munlock().map(Reg::UR)),
                        Reg::URO(p) => put!(p.munlock().map(Reg::URO)),
                        Reg::UNA(p) => put!(p.munlock().map(Reg::UNA)),
                        other => { slots[idx].r = other; "n/a".into() }
                    }
                }
                "ro" => {
                    match take!() {
                        Reg::UR(p) => put!(p.mprotect_readonly().map(Reg::URO)),
                        Reg::URO(p) => put!(p.mprotect_readonly().map(Reg::URO)),
                        Reg::UNA(p) => put!(p.mprotect_readonly().map(Reg::URO)),
                        Reg::LR(p) => put!(p.mprotect_readonly().map(Reg::LRO)),
                        Reg::LRO(p) => put!(p.mprotect_readonly().map(Reg::LRO)),
                        Reg::LNA(p) => put!(p.mprotect_readonly().map(Reg::LRO)),
                        other => { slots[idx].r = other; "n/a".into() }
                    }
                }
                "rw" => {
                    match take!() {
                        Reg::UR(p) => put!(p.mprotect_readwrite().map(Reg::UR)),
                        Reg::URO(p) => put!(p.mprotect_readwrite().map(Reg::UR)),
                        Reg::UNA(p) => put!(p.mprotect_readwrite().map(Reg::UR)),
                        Reg::LR(p) => put!(p.mprotect_readwrite().map(Reg::LR)),
                        Reg::LRO(p) => put!(p.mprotect_readwrite().map(Reg::LR)),
                        Reg::LNA(p) => put!(p.mprotect_readwrite().map(Reg::LR)),
                        other => { slots[idx].r = other; "n/a".into() }
                    }
                }
                "na" => {
                    match take!() {
                        Reg::UR(p) => put!(p.mprotect_noaccess().map(Reg::UNA)),
                        Reg::URO(p) => put!(p.mprotect_noaccess().map(Reg::UNA)),
                        Reg::UNA(p) => put!(p.mprotect_noaccess().map(Reg::UNA)),
                        other => { slots[idx].r = other; "n/a".into() }
                    }
                }
                "clone" => {
                    if idx >= slots.len() { return "noslot".into(); }
                    let c: Option<Reg<A>> = match &slots[idx].r {
                        Reg::Plain(a) => Some(Reg::Plain(a.clone())),
                        Reg::UR(p) => Some(Reg::UR(p.clone())),
                        Reg::URO(p) => Some(Reg::URO(p.clone())),
                        Reg::LR(p) => A::clone_locked(p).map(Reg::LR),
                        Reg::LRO(p) => A::clone_lockedro(p).map(Reg::LRO),
                        _ => None,
                    };
                    match c {
                        Some(r) => { let mut s = Slot { r, ptr: 0, len: 0 }; s.refresh(); slots.push(s); "ok".into() }
                        None => "n/a".into(),
                    }
                }
                // clonefrom:<j>@<i> — slots[i].clone_from(&slots[j]) (the `Clone::clone_from` form: same type state on both sides)
                "clonefrom" => {
                    let j: usize = arg.parse().unwrap_or(0);
                    if idx >= slots.len() || j >= slots.len() || j == idx { return "noslot".into(); }
                    let (dst, src) = if idx < j { let (a, b) = slots.split_at_mut(j); (&mut a[idx], &b[0]) } else { let (a, b) = slots.split_at_mut(idx); (&mut b[0], &a[j]) };
                    let done = match (&mut dst.r, &src.r) {
                        (Reg::Plain(d), Reg::Plain(s)) => { d.clone_from(s); true }
                        (Reg::UR(d), Reg::UR(s)) => { d.clone_from(s); true }
                        (Reg::URO(d), Reg::URO(s)) => { d.clone_from(s); true }
                        (Reg::LR(d), Reg::LR(s)) => match A::clone_locked(s) { Some(_) => A::clone_from_locked(d, s), None => false },
                        (Reg::LRO(d), Reg::LRO(s)) => match A::clone_lockedro(s) { Some(_) => A::clone_from_lockedro(d, s), None => false },
                        _ => false,
                    };
                    if !done { return "n/a".into(); }
                    dst.refresh();
                    if dst.slice().map(|x| x.to_vec()) == src.slice().map(|x| x.to_vec()) { "ok".into() } else { "mismatch-clone_from-contents".into() }
                }
                // panicdrop — the region is dropped while a panic unwinds through its owner
                "panicdrop" => {
                    let r = take!();
                    let _ = std::panic::catch_unwind(std::panic::AssertUnwindSafe(move || { let _owned = r; panic!("unwind through the owner of a protected region"); }));
                    "ok".into()
                }
                "resize" => {
                    if idx >= slots.len() { return "noslot".into(); }
                    let n: usize = arg.parse().unwrap_or(0);
                    let ok = match &mut slots[idx].r {
                        Reg::Plain(a) => a.resize_plain(n),
                        Reg::UR(p) => A::resize_unlocked(p, n),
                        Reg::LR(p) => A::resize_locked(p, n),
                        _ => false,
                    };
                    if ok { slots[idx].refresh(); "ok".into() } else { "n/a".into() }
                }
                "drop" => { let r = take!(); drop(r); "ok".into() }
                // tdrop — the region is handed to ANOTHER thread and released there (a worker thread finishing with a key): same wipes
                "tdrop" => {
                    struct SendBox<T>(T);
                    unsafe impl<T> Send for SendBox<T> {}
                    let r = SendBox(take!());
                    std::thread::scope(|sc| { sc.spawn(move || { let b = r; drop(b); }); });
                    "ok".into()
                }
                // tresize:N — the region is resized on another thread (the reallocation and the release of the old block happen there)
                "tresize" => {
                    if idx >= slots.len() { return "noslot".into(); }
                    let n: usize = arg.parse().unwrap_or(0);
                    struct SendPtr<T>(*mut T);
                    unsafe impl<T> Send for SendPtr<T> {}
                    let p = SendPtr(&mut slots[idx].r as *mut Reg<A>);
                    let okr = std::thread::scope(|sc| sc.spawn(move || {
                        let p = p;
                        match unsafe { &mut *p.0 } {
                            Reg::Plain(a) => a.resize_plain(n),
                            Reg::UR(q) => A::resize_unlocked(q, n),
                            Reg::LR(q) => A::resize_locked(q, n),
                            _ => false,
                        }
                    }).join().unwrap_or(false));
                    if okr { slots[idx].refresh(); "ok".into() } else { "n/a".into() }
                }
                // an explicit Zeroize::zeroize() on the live container (public trait): only on plain / unlocked read-write
                // regions, where it leaves the type state intact (outside the Lean model: judged by the release events alone)
                "zeroize" => {
                    if idx >= slots.len() { return "noslot".into(); }
                    use zeroize::Zeroize;
                    let ok = match &mut slots[idx].r {
                        Reg::Plain(a) => { a.zeroize(); true }
                        Reg::UR(p) => { p.zeroize(); true }
                        _ => false,
                    };
                    if ok { slots[idx].refresh(); "ok".into() } else { "n/a".into() }
                }
                "fsl" | "fsro" => {
                    let n: usize = arg.parse().unwrap_or(0);
                    let src = vec![0x5au8; n];
                    let r: Option<Result<Reg<A>, dryoc::Error>> = if name == "fsl" {
                        A::from_slice_locked(&src).map(|r| r.map(Reg::LR))
                    } else {
                        A::from_slice_lockedro(&src).map(|r| r.map(Reg::LRO))
                    };
                    match r {
                        Some(Ok(r)) => { let mut s = Slot { r, ptr: 0, len: 0 }; s.refresh(); slots.push(s); "ok".into() }
                        Some(Err(_)) => "err".into(),
                        None => "n/a".into(),
                    }
                }
                // serde:<json|bincode>:<n> — decode n bytes (0x5a) into the LOCKED form of the container → new region
                "serde" => {
                    let (fmt, n) = arg.split_once(':').unwrap_or(("json", "0"));
                    let src = vec![0x5au8; n.parse().unwrap_or(0)];
                    match A::serde_locked(fmt, &src) {
                        Some(Ok(r)) => { let mut s = Slot { r: Reg::LR(r), ptr: 0, len: 0 }; s.refresh(); slots.push(s); "ok".into() }
                        Some(Err(_)) => "err".into(),
                        None => "n/a".into(),
                    }
                }
                "stacklock" => {
                    match A::stack_lock(0x5a) {
                        Some(Ok(r)) => { let mut s = Slot { r: Reg::LR(r), ptr: 0, len: 0 }; s.refresh(); slots.push(s); "ok".into() }
                        Some(Err(_)) => "err".into(),
                        None => "n/a".into(),
                    }
                }
                "newlocked" | "genlocked" | "newrolocked" | "genrolocked" => {
                    let r: Result<Reg<A>, std::io::Error> = match name {
                        "newlocked" => A::new_locked().map(Reg::LR),
                        "genlocked" => A::gen_locked().map(Reg::LR),
                        "newrolocked" => A::new_readonly_locked().map(Reg::LRO),
                        _ => A::gen_readonly_locked().map(Reg::LRO),
                    };
                    match r {
                        Ok(r) => { let mut s = Slot { r, ptr: 0, len: 0 }; s.refresh(); slots.push(s); "ok".into() }
                        Err(_) => "err".into(),
                    }
                }
                // defaultlocked — `Locked::<A>::default()` (also what `std::mem::take` leaves behind): a region that is really locked, or a
                // panic (Default has no Result) — never a region typed Locked that the kernel has not locked
                "defaultlocked" => {
                    let r = std::panic::catch_unwind(std::panic::AssertUnwindSafe(|| Locked::<A>::default()));
                    match r {
                        Ok(r) => { let mut s = Slot { r: Reg::LR(r), ptr: 0, len: 0 }; s.refresh(); slots.push(s); "ok".into() }
                        Err(_) => "panic-default".into(),
                    }
                }
                // failsys — an unrelated system call of the application fails on this thread (errno stays set): must not influence anything
                "failsys" => {
                    let r = unsafe { libc::open(b"/nonexistent/verif-no-such-file\0".as_ptr() as *const libc::c_char, libc::O_RDONLY) };
                    let _ = std::fs::read("/nonexistent/verif-no-such-file");
                    if r < 0 { "ok".into() } else { "err".into() }
                }
                // rawmlock — the APPLICATION locks the region's pages itself (libc::mlock on the container's buffer, behind the crate's back;
                // the same situation as a process running under mlockall): releases must still wipe
                "rawmlock" => {
                    if idx >= slots.len() { return "noslot".into(); }
                    let (ptr, l) = (slots[idx].ptr, slots[idx].len);
                    if l == 0 { return "n/a".into(); }
                    let r = unsafe { libc::mlock(ptr as *const libc::c_void, l) };
                    if r == 0 { "ok".into() } else { "err".into() }
                }
                // mpfail:K — the K-th mprotect request from here on (one request only) is refused with ENOMEM
                "mpfail" => { if set_mprotect_fail_at(arg.parse().unwrap_or(-1)) { "ok".into() } else { "noshim".into() } }
                "failfrom" => { if set_fail_from(arg.parse().unwrap_or(-1)) { "ok".into() } else { "noshim".into() } }
                "wprobe" | "rprobe" => {
                    if idx >= slots.len() { return "noslot".into(); }
                    let off: usize = arg.parse().unwrap_or(0);
                    if let Reg::Gone = slots[idx].r { return "n/a".into(); } // a dropped region has no pages of its own any more
                    let (ptr, l) = (slots[idx].ptr, slots[idx].len);
                    if l == 0 || off >= l { return "n/a".into(); }
                    let p = (ptr + off) as *mut u8;
                    if name == "wprobe" {
                        child_probe(|| unsafe { std::ptr::write_volatile(p, 0x77) }).into()
                    } else {
                        child_probe(|| unsafe { let _ = std::ptr::read_volatile(p); }).into()
                    }
                }
                "gprobe" => {
                    if idx >= slots.len() { return "noslot".into(); }
                    if let Reg::Gone = slots[idx].r { return "n/a".into(); }
                    let (ptr, l) = (slots[idx].ptr, slots[idx].len);
                    if l == 0 { return "n/a".into(); }
                    let pg = page();
                    let m = maps();
                    let target = if arg == "fore" { ptr - 1 } else {
                        // first non-accessible page after the data
                        let np = (l + pg - 1) / pg;
                        let mut a = ptr + np * pg;
                        for i in np..np + 40 { a = ptr + i * pg; let c = perm_at(&m, a); if c != 'w' && c != 'r' { break; } }
                        a
                    };
                    let p = target as *const u8;
                    child_probe(|| unsafe { let _ = std::ptr::read_volatile(p); }).into()
                }
                _ => "bad".into(),
            }
        }));
        let r = match res { Ok(s) => s, Err(_) => "panic".to_string() };
        let m = maps();
        let mut parts = vec![r];
        for s in &slots {
            parts.push(s.describe(&m));
        }
        let lck = vmlck_kb() as i64 - base_lck as i64;
        let rel: Vec<String> = RELEASES.lock().unwrap().drain(..).map(|(_, sz, nz)| format!("{}:{}", sz, nz)).collect();
        let fr = if scanning { let e = free_scan_take(); format!(" fr={}", if e.is_empty() { "-".to_string() } else { e.iter().map(|(s, n, u)| format!("{}:{}:{}", s, n, u)).collect::<Vec<_>>().join("+") }) } else { String::new() };
        out.push(format!("{} lck={} rel={}{}", parts.join("/"), lck, if rel.is_empty() { "-".to_string() } else { rel.join("+") }, fr));
    }
    // final teardown: drop everything and report the residue
    slots.clear();
    let lck = vmlck_kb() as i64 - base_lck as i64;
    let rel: Vec<String> = RELEASES.lock().unwrap().drain(..).map(|(_, sz, nz)| format!("{}:{}", sz, nz)).collect();
    let fr = if scanning { let e = free_scan_take(); free_scan_enable(false); format!(" fr={}", if e.is_empty() { "-".to_string() } else { e.iter().map(|(s, n, u)| format!("{}:{}:{}", s, n, u)).collect::<Vec<_>>().join("+") }) } else { String::new() };
    out.push(format!("end lck={} rel={}{}", lck, if rel.is_empty() { "-".to_string() } else { rel.join("+") }, fr));
    set_fail_from(-1);
    #[cfg(feature = "hooks")]
    dryoc::protected::verif_hooks::set_release_observer(None);
    out.join(";")
}

/// `lockedctor <name> <k>`: a crate-level constructor that places keys in locked memory, with the k-th and all later lock requests
/// refused (k = 0: none).  Answer `<ok|err|panic> lck=<kB still locked after the result was dropped> [check=<ok|bad>]`
fn locked_ctor(name: &str, k: i64) -> String {
    use dryoc::keypair::KeyPair;
    use dryoc::precalc::PrecalcSecretKey;
    use dryoc::sign::SigningKeyPair;
    type L32 = Locked<HeapByteArray<32>>;
    type L64 = Locked<HeapByteArray<64>>;
    type R32 = LockedRO<HeapByteArray<32>>;
    type R64 = LockedRO<HeapByteArray<64>>;
    let base = vmlck_kb();
    let (pk, sk) = dryoc::classic::crypto_box::crypto_box_keypair();
    let want = dryoc::classic::crypto_box::crypto_box_beforenm(&pk, &sk);
    if k > 0 { set_fail_from(k); }
    let r = std::panic::catch_unwind(std::panic::AssertUnwindSafe(|| -> Result<bool, ()> {
        match name {
            "box_new_locked_keypair" => KeyPair::<L32, L32>::new_locked_keypair().map(|kp| kp.secret_key.as_slice() == [0u8; 32]).map_err(|_| ()),
            "box_gen_locked_keypair" => KeyPair::<L32, L32>::gen_locked_keypair().map(|kp| {
                let mut p = [0u8; 32];
                dryoc::classic::crypto_core::crypto_scalarmult_base(&mut p, kp.secret_key.as_array());
                kp.public_key.as_slice() == p && kp.secret_key.as_slice() != [0u8; 32]
            }).map_err(|_| ()),
            "box_gen_readonly_locked_keypair" => KeyPair::<R32, R32>::gen_readonly_locked_keypair().map(|kp| {
                let mut p = [0u8; 32];
                dryoc::classic::crypto_core::crypto_scalarmult_base(&mut p, kp.secret_key.as_array());
                kp.public_key.as_slice() == p
            }).map_err(|_| ()),
            "precalculate_locked" => PrecalcSecretKey::<L32>::precalculate_locked(&pk, &sk).map(|p| p.as_slice() == want).map_err(|_| ()),
            "precalculate_readonly_locked" => PrecalcSecretKey::<R32>::precalculate_readonly_locked(&pk, &sk).map(|p| p.as_slice() == want).map_err(|_| ()),
            "keypair_precalculate_locked" => {
                set_fail_from(-1);
                let kp = KeyPair::<L32, L32>::gen_locked_keypair().map_err(|_| ())?;
                if k > 0 { set_fail_from(k); }
                let mut w = [0u8; 32];
                w.copy_from_slice(&dryoc::classic::crypto_box::crypto_box_beforenm(&pk, kp.secret_key.as_array()));
                kp.precalculate_locked(&pk).map(|p| p.as_slice() == w).map_err(|_| ())
            }
            "keypair_precalculate_readonly_locked" => {
                set_fail_from(-1);
                let kp = KeyPair::<R32, R32>::gen_readonly_locked_keypair().map_err(|_| ())?;
                if k > 0 { set_fail_from(k); }
                let mut w = [0u8; 32];
                w.copy_from_slice(&dryoc::classic::crypto_box::crypto_box_beforenm(&pk, kp.secret_key.as_array()));
                kp.precalculate_readonly_locked(&pk).map(|p| p.as_slice() == w).map_err(|_| ())
            }
            "sign_new_locked_keypair" => SigningKeyPair::<L32, L64>::new_locked_keypair().map(|kp| kp.secret_key.as_slice() == [0u8; 64]).map_err(|_| ()),
            "sign_gen_locked_keypair" => SigningKeyPair::<L32, L64>::gen_locked_keypair().map(|kp| kp.secret_key.as_slice()[32..] == *kp.public_key.as_slice()).map_err(|_| ()),
            "sign_gen_readonly_locked_keypair" => SigningKeyPair::<R32, R64>::gen_readonly_locked_keypair().map(|kp| kp.secret_key.as_slice()[32..] == *kp.public_key.as_slice()).map_err(|_| ()),
            _ => Err(()),
        }
    }));
    set_fail_from(-1);
    let lck = vmlck_kb() as i64 - base as i64;
    match r {
        Ok(Ok(good)) => format!("ok lck={} check={}", lck, if good { "ok" } else { "bad" }),
        Ok(Err(())) => format!("err lck={}", lck),
        Err(_) => format!("panic lck={}", lck),
    }
}

pub fn dispatch(op: &str, a: &[&str]) -> Option<Ans> {
    if op == "lockedctor" {
        return Some((locked_ctor(a[0], a.get(1).and_then(|x| x.parse().ok()).unwrap_or(0)), "n/a".into()));
    }
    if op != "prot" {
        return None;
    }
    let len: usize = a[1].parse().unwrap_or(0);
    let toks = &a[2..];
    let r = match (a[0], len) {
        ("bytes", _) => run::<HeapBytes>(len, toks),
        ("arr", 1) => run::<HeapByteArray<1>>(len, toks),
        ("arr", 16) => run::<HeapByteArray<16>>(len, toks),
        ("arr", 32) => run::<HeapByteArray<32>>(len, toks),
        ("arr", 64) => run::<HeapByteArray<64>>(len, toks),
        ("arr", 4095) => run::<HeapByteArray<4095>>(len, toks),
        ("arr", 4096) => run::<HeapByteArray<4096>>(len, toks),
        ("arr", 4097) => run::<HeapByteArray<4097>>(len, toks),
        ("arr", 8192) => run::<HeapByteArray<8192>>(len, toks),
        ("arr", 8193) => run::<HeapByteArray<8193>>(len, toks),
        _ => "n/a".into(),
    };
    let _ = unhex_lenient;
    Some((r, "n/a".into()))
}
