//! C03 / C02 / C04 / C17: secret stream histories, classic and object API, against libsodium.
//! `sstream <classic|object> <key> <hdr> <push ctr|-> <pull ctr|-> tok…`, tokens:
//!   P:<msg>:<ad>:<tag>  push        K / k  rekey push / pull stream      D  deliver next in order
//!   Wi:<idx>:<ad|=>  pull pushed ciphertext #idx (with other AD)   Wf:<idx>:<bit>  … with one bit flipped
//!   X:<ct>:<ad>  pull literal bytes   S  report both raw states
//!   Ds:<k>  deliver next in order into a message buffer k bytes too small (classic API; object API: ordinary delivery)
use crate::util::*;
use crate::Ans;
use dryoc::classic::crypto_secretstream_xchacha20poly1305::*;
use dryoc::dryocstream::{DryocStream, Pull, Push, Tag};
use libsodium_sys as so;
use std::panic::{catch_unwind, AssertUnwindSafe};

const SENT: u8 = 0xA5;

trait Engine {
    fn push(&mut self, m: &[u8], ad: &[u8], tag: u8) -> Result<Vec<u8>, ()>;
    fn pull(&mut self, c: &[u8], ad: &[u8]) -> String; // "ok:<m>:<tag>" | "err[:buf:tagvar]"
    /// in-order delivery into a message buffer `short` bytes too small (classic API only; the object API sizes its own output, so
    /// there the token is an ordinary delivery).  Returns (answer, consumed?)
    fn pull_short(&mut self, c: &[u8], ad: &[u8], _short: usize) -> String {
        self.pull(c, ad)
    }
    fn rekey_s(&mut self);
    fn rekey_t(&mut self);
    fn states(&self) -> String;
}

#[cfg(feature = "hooks")]
fn st_hex(s: &State) -> String {
    let (k, n) = s.verif_parts();
    format!("{}{}", hex(&k), hex(&n))
}
#[cfg(not(feature = "hooks"))]
fn st_hex(_s: &State) -> String {
    "nohook".into()
}

struct Classic {
    s: State,
    t: State,
}
impl Engine for Classic {
    fn push(&mut self, m: &[u8], ad: &[u8], tag: u8) -> Result<Vec<u8>, ()> {
        let mut c = vec![SENT; m.len() + 17];
        crypto_secretstream_xchacha20poly1305_push(&mut self.s, &mut c, m, if ad.is_empty() { None } else { Some(ad) }, tag).map_err(|_| ())?;
        Ok(c)
    }
    fn pull(&mut self, c: &[u8], ad: &[u8]) -> String {
        let mut buf = vec![SENT; c.len().saturating_sub(17)];
        let mut tag = 0xEEu8;
        match crypto_secretstream_xchacha20poly1305_pull(&mut self.t, &mut buf, &mut tag, c, if ad.is_empty() { None } else { Some(ad) }) {
            Ok(n) => format!("ok:{}:{:02x}", hex(&buf[..n]), tag),
            Err(_) => format!("err:{}:{:02x}", hex(&buf), tag),
        }
    }
    fn pull_short(&mut self, c: &[u8], ad: &[u8], short: usize) -> String {
        let full = c.len().saturating_sub(17);
        let mut buf = vec![SENT; full.saturating_sub(short.max(1))];
        let mut tag = 0xEEu8;
        match crypto_secretstream_xchacha20poly1305_pull(&mut self.t, &mut buf, &mut tag, c, if ad.is_empty() { None } else { Some(ad) }) {
            Ok(n) => format!("ok:{}:{:02x}", hex(&buf[..n.min(buf.len())]), tag),
            Err(_) => format!("err:{}:{:02x}", hex(&buf), tag),
        }
    }
    fn rekey_s(&mut self) {
        crypto_secretstream_xchacha20poly1305_rekey(&mut self.s)
    }
    fn rekey_t(&mut self) {
        crypto_secretstream_xchacha20poly1305_rekey(&mut self.t)
    }
    fn states(&self) -> String {
        format!("s:{},t:{}", st_hex(&self.s), st_hex(&self.t))
    }
}

struct Object {
    s: DryocStream<Push>,
    t: DryocStream<Pull>,
    // shadow classic states for the S report are not available through the object API
}
impl Engine for Object {
    fn push(&mut self, m: &[u8], ad: &[u8], tag: u8) -> Result<Vec<u8>, ()> {
        let t = Tag::from_bits_retain(tag);   // any tag byte can be pushed through the public bitflags constructor
        let mv = m.to_vec();
        let adv = ad.to_vec();
        // both spellings of the object API: the `_to_vec` helper and the generic method (chosen by the message length)
        if m.len() % 2 == 0 {
            self.s.push_to_vec(&mv, if ad.is_empty() { None } else { Some(&adv) }, t).map_err(|_| ())
        } else {
            let r: Result<Vec<u8>, _> = self.s.push(&mv, if ad.is_empty() { None } else { Some(&adv) }, t);
            r.map_err(|_| ())
        }
    }
    fn pull(&mut self, c: &[u8], ad: &[u8]) -> String {
        let cv = c.to_vec();
        let adv = ad.to_vec();
        let r: Result<(Vec<u8>, Tag), _> = if c.len() % 2 == 0 {
            self.t.pull_to_vec(&cv, if ad.is_empty() { None } else { Some(&adv) })
        } else {
            self.t.pull(&cv, if ad.is_empty() { None } else { Some(&adv) })
        };
        match r {
            Ok((m, tag)) => format!("ok:{}:{:02x}", hex(&m), tag.bits()),
            Err(_) => "err".into(),
        }
    }
    fn rekey_s(&mut self) {
        self.s.rekey()
    }
    fn rekey_t(&mut self) {
        self.t.rekey()
    }
    fn states(&self) -> String {
        // equality of the two streams' positions is observable through PartialEq on clones only per mode; report n/a
        "s:?,t:?".into()
    }
}

/// classic push stream feeding an object-API pull stream (lets any tag byte reach `DryocStream::pull`)
struct Mixed {
    s: State,
    t: DryocStream<Pull>,
}
impl Engine for Mixed {
    fn push(&mut self, m: &[u8], ad: &[u8], tag: u8) -> Result<Vec<u8>, ()> {
        let mut c = vec![SENT; m.len() + 17];
        crypto_secretstream_xchacha20poly1305_push(&mut self.s, &mut c, m, if ad.is_empty() { None } else { Some(ad) }, tag).map_err(|_| ())?;
        Ok(c)
    }
    fn pull(&mut self, c: &[u8], ad: &[u8]) -> String {
        let cv = c.to_vec();
        let adv = ad.to_vec();
        match self.t.pull_to_vec(&cv, if ad.is_empty() { None } else { Some(&adv) }) {
            Ok((m, tag)) => format!("ok:{}:{:02x}", hex(&m), tag.bits()),
            Err(_) => "err".into(),
        }
    }
    fn rekey_s(&mut self) {
        crypto_secretstream_xchacha20poly1305_rekey(&mut self.s)
    }
    fn rekey_t(&mut self) {
        self.t.rekey()
    }
    fn states(&self) -> String {
        "s:?,t:?".into()
    }
}

struct Sodium {
    s: so::crypto_secretstream_xchacha20poly1305_state,
    t: so::crypto_secretstream_xchacha20poly1305_state,
    with_buf: bool,
    with_state: bool,
}
impl Engine for Sodium {
    fn push(&mut self, m: &[u8], ad: &[u8], tag: u8) -> Result<Vec<u8>, ()> {
        let mut c = vec![0u8; m.len() + 17];
        let r = unsafe {
            so::crypto_secretstream_xchacha20poly1305_push(&mut self.s, c.as_mut_ptr(), std::ptr::null_mut(), m.as_ptr(), m.len() as u64,
                if ad.is_empty() { std::ptr::null() } else { ad.as_ptr() }, ad.len() as u64, tag)
        };
        if r == 0 { Ok(c) } else { Err(()) }
    }
    fn pull(&mut self, c: &[u8], ad: &[u8]) -> String {
        if c.len() < 17 {
            return if self.with_buf { format!("err:{}:ee", hex(&vec![SENT; 0])) } else { "err".into() };
        }
        let mut buf = vec![SENT; c.len() - 17];
        let mut tag = 0xEEu8;
        let mut mlen = 0u64;
        let r = unsafe {
            so::crypto_secretstream_xchacha20poly1305_pull(&mut self.t, buf.as_mut_ptr(), &mut mlen, &mut tag, c.as_ptr(), c.len() as u64,
                if ad.is_empty() { std::ptr::null() } else { ad.as_ptr() }, ad.len() as u64)
        };
        if r == 0 {
            format!("ok:{}:{:02x}", hex(&buf[..mlen as usize]), tag)
        } else if self.with_buf {
            // libsodium zeroes/keeps its buffer in its own way; only the class is compared (see strip in check)
            format!("err:{}:ee", hex(&vec![SENT; c.len() - 17]))
        } else {
            "err".into()
        }
    }
    fn pull_short(&mut self, c: &[u8], ad: &[u8], short: usize) -> String {
        // libsodium's pull has no output length: the reference behaviour of a refused undersized buffer is "nothing happened"
        if self.with_buf {
            let full = c.len().saturating_sub(17);
            if full == 0 {
                return self.pull(c, ad);
            }
            format!("err:{}:ee", hex(&vec![SENT; full.saturating_sub(short.max(1))]))
        } else {
            self.pull(c, ad)
        }
    }
    fn rekey_s(&mut self) {
        unsafe { so::crypto_secretstream_xchacha20poly1305_rekey(&mut self.s) }
    }
    fn rekey_t(&mut self) {
        unsafe { so::crypto_secretstream_xchacha20poly1305_rekey(&mut self.t) }
    }
    fn states(&self) -> String {
        if self.with_state {
            format!("s:{}{},t:{}{}", hex(&self.s.k), hex(&self.s.nonce), hex(&self.t.k), hex(&self.t.nonce))
        } else {
            "s:?,t:?".into()
        }
    }
}

fn flip(c: &[u8], bit: usize) -> Vec<u8> {
    let mut v = c.to_vec();
    if !v.is_empty() {
        let b = bit % (v.len() * 8);
        v[b / 8] ^= 1 << (b % 8);
    }
    v
}

fn run(e: &mut dyn Engine, toks: &[&str]) -> String {
    let mut out: Vec<String> = vec![];
    let mut cts: Vec<(Vec<u8>, Vec<u8>)> = vec![];
    let mut next = 0usize;
    for tok in toks {
        let p: Vec<&str> = tok.split(':').collect();
        let r = catch_unwind(AssertUnwindSafe(|| -> String {
            match p[0] {
                "P" => {
                    let (m, ad, tg) = (unhex(p[1]), unhex(p[2]), unhex(p[3])[0]);
                    match e.push(&m, &ad, tg) {
                        Ok(c) => {
                            let s = format!("c:{}", hex(&c));
                            cts.push((c, ad));
                            s
                        }
                        Err(_) => "err".into(),
                    }
                }
                "K" => {
                    e.rekey_s();
                    "-".into()
                }
                "k" => {
                    e.rekey_t();
                    "-".into()
                }
                "D" => {
                    if next < cts.len() {
                        let (c, ad) = cts[next].clone();
                        let r = e.pull(&c, &ad);
                        if r.starts_with("ok") {
                            next += 1;
                        }
                        r
                    } else {
                        "none".into()
                    }
                }
                "Ds" => {
                    if next < cts.len() {
                        let (c, ad) = cts[next].clone();
                        let r = e.pull_short(&c, &ad, p[1].parse().unwrap_or(1));
                        if r.starts_with("ok") {
                            next += 1;
                        }
                        r
                    } else {
                        "none".into()
                    }
                }
                "Wi" => {
                    if cts.is_empty() {
                        return "none".into();
                    }
                    let i: usize = p[1].parse().unwrap();
                    let (c, ad0) = cts[i % cts.len()].clone();
                    let ad = if p[2] == "=" { ad0 } else { unhex(p[2]) };
                    e.pull(&c, &ad)
                }
                "Wf" => {
                    if cts.is_empty() {
                        return "none".into();
                    }
                    let i: usize = p[1].parse().unwrap();
                    let b: usize = p[2].parse().unwrap();
                    let (c, ad0) = cts[i % cts.len()].clone();
                    e.pull(&flip(&c, b), &ad0)
                }
                "X" => e.pull(&unhex(p[1]), &unhex(p[2])),
                "S" => e.states(),
                _ => "bad".into(),
            }
        }));
        match r {
            Ok(s) => out.push(s),
            Err(_) => {
                out.push("panic".into());
                break;
            }
        }
    }
    out.join(";")
}

pub fn dispatch(op: &str, a: &[&str]) -> Option<Ans> {
    // stream_init_pull_view <key> <header>: `DryocStream::init_pull` with Vec containers of any length (ByteArray<N> for Vec asserts
    // len ≥ N and views the prefix).  The object's state is not observable directly: it must open what a classic stream initialised
    // from the 32 / 24-byte prefixes pushes; the answer then carries that classic state.
    if op == "stream_init_pull_view" {
        let (key, hdr) = (unhex(a[0]), unhex(a[1]));
        let r = catch_unwind(AssertUnwindSafe(|| DryocStream::init_pull(&key, &hdr)));
        return Some((match r {
            Err(_) => "panic".into(),
            Ok(mut obj) => {
                if key.len() < 32 || hdr.len() < 24 { "mismatch: accepted a short container".into() } else {
                    let (k, h): ([u8; 32], [u8; 24]) = (arr(&key[..32]), arr(&hdr[..24]));
                    let mut st = State::new();
                    crypto_secretstream_xchacha20poly1305_init_pull(&mut st, &h, &k);
                    let mut pushing = State::new();
                    crypto_secretstream_xchacha20poly1305_init_pull(&mut pushing, &h, &k);
                    let msg = b"prefix view".to_vec();
                    let mut c = vec![SENT; msg.len() + 17];
                    crypto_secretstream_xchacha20poly1305_push(&mut pushing, &mut c, &msg, None, 0).unwrap();
                    match obj.pull_to_vec(&c, None) {
                        Ok((m, _)) if m == msg => format!("ok {}", st_hex(&st)),
                        _ => "mismatch: the object does not hold the state of the prefixes".into(),
                    }
                }
            }
        }, "n/a".into()));
    }
    // tag_from_u8 <byte>: `impl From<u8> for Tag`
    if op == "tag_from_u8" {
        let b = unhex(a[0])[0];
        let r = catch_unwind(AssertUnwindSafe(|| Tag::from(b)));
        return Some((match r { Ok(t) => format!("ok {:02x}", t.bits()), Err(_) => "panic".into() }, "n/a".into()));
    }
    if op != "sstream" {
        return None;
    }
    let api = a[0];
    let key: [u8; 32] = arr(&unhex(a[1]));
    let hdr: [u8; 24] = arr(&unhex(a[2]));
    let cs = unhex_lenient(a[3]);
    let ct = unhex_lenient(a[4]);
    let toks = &a[5..];
    // libsodium reference
    let mut ss: so::crypto_secretstream_xchacha20poly1305_state = unsafe { std::mem::zeroed() };
    let mut st: so::crypto_secretstream_xchacha20poly1305_state = unsafe { std::mem::zeroed() };
    unsafe {
        so::crypto_secretstream_xchacha20poly1305_init_pull(&mut ss, hdr.as_ptr(), key.as_ptr());
        so::crypto_secretstream_xchacha20poly1305_init_pull(&mut st, hdr.as_ptr(), key.as_ptr());
    }
    if cs.len() == 4 {
        ss.nonce[..4].copy_from_slice(&cs);
    }
    if ct.len() == 4 {
        st.nonce[..4].copy_from_slice(&ct);
    }
    let impl_ans = if api == "classic" {
        let mut s = State::new();
        let mut h = [0u8; 24];
        #[cfg(feature = "hooks")]
        dryoc::rng::verif_hooks::set_entropy(Some(hdr.to_vec()));
        // the states are REUSED ones: both were initialised for another stream (other key, other header) and used once before —
        // init must replace every part of the state, as libsodium's does
        {
            let (k0, h0) = ([0x3cu8; 32], [0x66u8; 24]);
            crypto_secretstream_xchacha20poly1305_init_pull(&mut s, &h0, &k0);     // (init_pull: draws no entropy)
            let mut c0 = [0u8; 4 + 17];
            let _ = crypto_secretstream_xchacha20poly1305_push(&mut s, &mut c0, b"used", None, 0);
        }
        crypto_secretstream_xchacha20poly1305_init_push(&mut s, &mut h, &key);
        #[cfg(feature = "hooks")]
        dryoc::rng::verif_hooks::set_entropy(None);
        let mut t = State::new();
        {
            let (k0, h0) = ([0x3cu8; 32], [0x77u8; 24]);
            crypto_secretstream_xchacha20poly1305_init_pull(&mut t, &h0, &k0);
            let (mut m0, mut tg0) = ([0u8; 4], 0u8);
            let _ = crypto_secretstream_xchacha20poly1305_pull(&mut t, &mut m0, &mut tg0, &[0x21u8; 4 + 17], None);
        }
        crypto_secretstream_xchacha20poly1305_init_pull(&mut t, &h, &key);
        #[cfg(feature = "hooks")]
        {
            if cs.len() == 4 {
                let (k, mut n) = s.verif_parts();
                n[..4].copy_from_slice(&cs);
                s = State::verif_from_parts(&k, &n);
            }
            if ct.len() == 4 {
                let (k, mut n) = t.verif_parts();
                n[..4].copy_from_slice(&ct);
                t = State::verif_from_parts(&k, &n);
            }
        }
        if h != hdr {
            "header-not-from-entropy-source".to_string()
        } else {
            run(&mut Classic { s, t }, toks)
        }
    } else if api == "mixed" {
        let mut s = State::new();
        crypto_secretstream_xchacha20poly1305_init_pull(&mut s, &hdr, &key);
        let t = DryocStream::init_pull(&key, &hdr);
        run(&mut Mixed { s, t }, toks)
    } else {
        #[cfg(feature = "hooks")]
        dryoc::rng::verif_hooks::set_entropy(Some(hdr.to_vec()));
        let (s, h): (DryocStream<Push>, [u8; 24]) = DryocStream::init_push(&key);
        #[cfg(feature = "hooks")]
        dryoc::rng::verif_hooks::set_entropy(None);
        let t = DryocStream::init_pull(&key, &h);
        if h != hdr {
            "header-not-from-entropy-source".to_string()
        } else {
            run(&mut Object { s, t }, toks)
        }
    };
    let so_ans = run(&mut Sodium { s: ss, t: st, with_buf: api == "classic", with_state: api == "classic" }, toks);
    Some((impl_ans, so_ans))
}
