//! Line-protocol runner: calls the real dryoc code (path dependency on /repo,
//! current working tree) in-process.  One request per line
//! `<id> <op> <arg>…` (byte strings hex, `-` = empty); one answer per line
//! `<id>\t<impl answer>\t<libsodium answer>` (`n/a` if libsodium has no say).
#![cfg_attr(feature = "nightly", feature(allocator_api))]
#![allow(clippy::all)]

mod alloc_count;
mod ops_box;
mod ops_boxobj;
mod ops_curve;
mod ops_hash;
mod ops_huge;
#[cfg(feature = "nightly")]
mod ops_prot;
mod ops_pwhash;
mod ops_rand;
mod ops_serde;
mod ops_stream;
mod util;

use std::io::{BufRead, Write};
use std::panic::{catch_unwind, AssertUnwindSafe};

pub type Ans = (String, String);

fn dispatch(op: &str, args: &[&str]) -> Ans {
    if let Some(a) = ops_hash::dispatch(op, args) {
        return a;
    }
    if let Some(a) = ops_box::dispatch(op, args) {
        return a;
    }
    if let Some(a) = ops_curve::dispatch(op, args) {
        return a;
    }
    if let Some(a) = ops_pwhash::dispatch(op, args) {
        return a;
    }
    #[cfg(feature = "nightly")]
    if let Some(a) = ops_prot::dispatch(op, args) {
        return a;
    }
    if let Some(a) = ops_serde::dispatch(op, args) {
        return a;
    }
    if let Some(a) = ops_rand::dispatch(op, args) {
        return a;
    }
    if let Some(a) = ops_stream::dispatch(op, args) {
        return a;
    }
    if let Some(a) = ops_huge::dispatch(op, args) {
        return a;
    }
    ("bad-op".into(), "bad-op".into())
}

/// What an application may have done on this thread just before the request: incremental states of every kind fed a few bytes and
/// ABANDONED (dropped without finalisation — an early return, a `?`), and verifications that were rightly REJECTED at their very
/// first step (undecodable / small-order public key).  None of it may influence the request that follows: the functions keep no
/// memory between calls.  (Nothing here draws from the entropy source.)
fn noise() {
    use dryoc::classic::crypto_auth::*;
    use dryoc::classic::crypto_generichash::*;
    use dryoc::classic::crypto_hash::*;
    use dryoc::classic::crypto_onetimeauth::*;
    use dryoc::classic::crypto_sign::*;
    let _ = catch_unwind(AssertUnwindSafe(|| {
        let mut a = crypto_onetimeauth_init(&[7u8; 32]);
        crypto_onetimeauth_update(&mut a, b"abcde");
        drop(a);
        if let Ok(mut g) = crypto_generichash_init(None, 32) {
            crypto_generichash_update(&mut g, &[0x51u8; 133]);
            drop(g);
        }
        if let Ok(mut g) = crypto_generichash_init(Some(&[9u8; 32][..]), 64) {
            crypto_generichash_update(&mut g, b"xyz");
            drop(g);
        }
        let mut h = crypto_hash_sha512_init();
        crypto_hash_sha512_update(&mut h, b"abandoned");
        drop(h);
        let mut m = crypto_auth_init(&[3u8; 32]);
        crypto_auth_update(&mut m, b"abandoned too");
        drop(m);
        let mut s = crypto_sign_init();
        crypto_sign_update(&mut s, b"never signed");
        drop(s);
        // rejected at the public-key step: the identity (small order) and a y that is not on the curve
        let sig = [0x11u8; 64];
        let mut small = [0u8; 32];
        small[0] = 1;
        let _ = crypto_sign_verify_detached(&sig, b"m", &small);
        let mut off = [0u8; 32];
        off[0] = 2;
        let _ = crypto_sign_verify_detached(&sig, b"m", &off);
        let mut st = crypto_sign_init();
        crypto_sign_update(&mut st, b"ph");
        let _ = crypto_sign_final_verify(st, &sig, &small);
    }));
}

fn main() {
    if std::env::var_os("RUNNER_VERBOSE").is_none() {
        std::panic::set_hook(Box::new(|_| {}));
    }
    unsafe {
        libsodium_sys::sodium_init();
    }
    // RUNNER_THREADS=K (K > 1): all requests are read first and then answered by K threads AT THE SAME TIME (request i by thread
    // i mod K, started together); with RUNNER_REPEAT=R every request is executed R times in a row on its thread and all R answers
    // must be equal.  What the answers are compared with (the single-threaded run) is the caller's business.
    let threads: usize = std::env::var("RUNNER_THREADS").ok().and_then(|v| v.parse().ok()).unwrap_or(1);
    if threads > 1 {
        let repeat: usize = std::env::var("RUNNER_REPEAT").ok().and_then(|v| v.parse().ok()).unwrap_or(1).max(1);
        let lines: Vec<String> = std::io::stdin().lock().lines().filter_map(|l| l.ok()).collect();
        let lines = std::sync::Arc::new(lines);
        let barrier = std::sync::Arc::new(std::sync::Barrier::new(threads));
        let mut handles = vec![];
        for t in 0..threads {
            let (lines, barrier) = (lines.clone(), barrier.clone());
            handles.push(std::thread::Builder::new().stack_size(64 << 20).spawn(move || {
                let mut outv: Vec<(usize, String)> = vec![];
                barrier.wait();
                for (i, line) in lines.iter().enumerate() {
                    if i % threads != t {
                        continue;
                    }
                    let toks: Vec<&str> = line.split_ascii_whitespace().collect();
                    if toks.len() < 2 {
                        continue;
                    }
                    let mut first: Option<(String, String)> = None;
                    let mut answer = None;
                    for _ in 0..repeat {
                        noise();
                        let r = catch_unwind(AssertUnwindSafe(|| dispatch(toks[1], &toks[2..]))).unwrap_or_else(|_| ("panic".to_string(), "n/a".to_string()));
                        match &first {
                            None => first = Some(r),
                            Some(f) => if *f != r && answer.is_none() {
                                answer = Some((format!("mismatch the same request answered differently while other threads were running: {} / {}", f.0, r.0), f.1.clone()));
                            },
                        }
                    }
                    let (a, b) = answer.or(first).unwrap();
                    outv.push((i, format!("{}\t{}\t{}\talloc=0", toks[0], a, b)));
                }
                outv
            }).unwrap());
        }
        let mut all: Vec<(usize, String)> = handles.into_iter().flat_map(|h| h.join().unwrap_or_default()).collect();
        all.sort();
        let stdout = std::io::stdout();
        let mut out = std::io::BufWriter::new(stdout.lock());
        for (_, l) in all {
            let _ = writeln!(out, "{}", l);
        }
        let _ = out.flush();
        return;
    }
    let stdin = std::io::stdin();
    let stdout = std::io::stdout();
    let mut out = std::io::BufWriter::new(stdout.lock());
    for line in stdin.lock().lines() {
        let line = match line {
            Ok(l) => l,
            Err(_) => break,
        };
        let toks: Vec<&str> = line.split_ascii_whitespace().collect();
        if toks.len() < 2 {
            continue;
        }
        let id = toks[0];
        let op = toks[1];
        let args = &toks[2..];
        noise();
        alloc_count::reset();
        let r = catch_unwind(AssertUnwindSafe(|| dispatch(op, args)));
        let maxalloc = alloc_count::max_single();
        let (a, b) = match r {
            Ok(x) => x,
            Err(_) => ("panic".to_string(), "n/a".to_string()),
        };
        let _ = writeln!(out, "{}\t{}\t{}\talloc={}", id, a, b, maxalloc);
        // flush per request: if the implementation kills the process (SIGSEGV, abort) the harness can tell which request did it
        let _ = out.flush();
    }
    let _ = out.flush();
}
