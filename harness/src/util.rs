pub fn unhex(s: &str) -> Vec<u8> {
    if s == "-" {
        return vec![];
    }
    let b = s.as_bytes();
    assert!(b.len() % 2 == 0, "odd hex");
    let v = |c: u8| -> u8 {
        match c {
            b'0'..=b'9' => c - b'0',
            b'a'..=b'f' => c - b'a' + 10,
            b'A'..=b'F' => c - b'A' + 10,
            _ => panic!("bad hex"),
        }
    };
    (0..b.len() / 2).map(|i| v(b[2 * i]) * 16 + v(b[2 * i + 1])).collect()
}

pub fn hex(b: &[u8]) -> String {
    if b.is_empty() {
        return "-".into();
    }
    let mut s = String::with_capacity(b.len() * 2);
    for x in b {
        s.push_str(&format!("{:02x}", x));
    }
    s
}

pub fn ok(b: &[u8]) -> String {
    format!("ok {}", hex(b))
}

pub fn arr<const N: usize>(v: &[u8]) -> [u8; N] {
    let mut a = [0u8; N];
    a.copy_from_slice(v);
    a
}

pub fn res<T, E>(r: &Result<T, E>) -> &'static str {
    if r.is_ok() {
        "ok"
    } else {
        "err"
    }
}

pub fn rc(r: i32) -> &'static str {
    if r == 0 {
        "ok"
    } else {
        "err"
    }
}

pub fn na() -> String {
    "n/a".into()
}

/// tolerant decode used for the eager per-op argument vectors: non-hex tokens (container names, numbers) become empty
pub fn unhex_lenient(s: &str) -> Vec<u8> {
    if s == "-" || s.len() % 2 != 0 || !s.bytes().all(|c| c.is_ascii_hexdigit()) {
        return vec![];
    }
    unhex(s)
}

/// `msg` copied into a larger buffer so that it STARTS at an address ≡ `off` (mod 8): returns (buffer, start index).
/// (Messages in packed records, behind a one-byte tag, in a sub-slice: where the bytes live must not matter.)
pub fn at_addr(msg: &[u8], off: usize) -> (Vec<u8>, usize) {
    let mut big = vec![0xC3u8; msg.len() + 16];
    let start = (8 - (big.as_ptr() as usize) % 8) % 8 + (off % 8);
    big[start..start + msg.len()].copy_from_slice(msg);
    (big, start)
}

/// a copy of `data` whose LAST byte is the last byte of a readable page: the page behind it is PROT_NONE, the bytes in front of it
/// too if `data` fills… (only the end is guarded).  Reading one byte past the operand faults (the runner dies: reported as abort).
pub struct Guarded {
    base: *mut u8,
    total: usize,
    start: usize,
    len: usize,
}
impl Guarded {
    pub fn new(data: &[u8]) -> Guarded {
        unsafe {
            let page = libc::sysconf(libc::_SC_PAGESIZE) as usize;
            let npages = (data.len() + page - 1) / page + 1;
            let total = (npages + 1) * page;
            let base = libc::mmap(std::ptr::null_mut(), total, libc::PROT_READ | libc::PROT_WRITE, libc::MAP_PRIVATE | libc::MAP_ANONYMOUS, -1, 0) as *mut u8;
            assert!(base as isize != -1);
            libc::mprotect(base.add(npages * page) as *mut libc::c_void, page, libc::PROT_NONE);
            let start = npages * page - data.len();
            std::ptr::copy_nonoverlapping(data.as_ptr(), base.add(start), data.len());
            Guarded { base, total, start, len: data.len() }
        }
    }
    pub fn as_slice(&self) -> &[u8] {
        unsafe { std::slice::from_raw_parts(self.base.add(self.start), self.len) }
    }
}
impl Drop for Guarded {
    fn drop(&mut self) {
        unsafe { libc::munmap(self.base as *mut libc::c_void, self.total); }
    }
}
