//! C01 / C02 / C04 / C17: secretbox, box, sealed box — classic functions and object API.
//!
//! Encrypt ops answer `ok <ciphertext>` (detached: `ok <mac> <ct>`).  Open ops take
//! the caller's initial message buffer as last argument and answer `ok <msg>` or
//! `err buf=<buffer after the failed call>`.
use crate::util::*;
use crate::Ans;
use dryoc::classic::crypto_box::*;
use dryoc::classic::crypto_secretbox::*;
use libsodium_sys as so;

fn openres(r: &Result<(), dryoc::Error>, buf: &[u8]) -> String {
    match r {
        Ok(()) => ok(buf),
        Err(_) => format!("err buf={}", hex(buf)),
    }
}
fn so_open(rcode: i32, out: &[u8]) -> String {
    if rcode == 0 { ok(out) } else { "err".into() }
}
/// compare only the ok/err class and the message on ok (libsodium leaves its buffer unspecified on failure)
fn strip_buf(s: &str) -> String {
    match s.find(" buf=") {
        Some(i) => s[..i].to_string(),
        None => s.to_string(),
    }
}

/// the functions keep no memory between calls: before every box open the same thread opens (and rightly rejects) a box that
/// names the SAME peer public key and nonce but ANOTHER own secret key — and one with another peer key and the same secret key — so
/// that anything remembered from a previous call under part of its operands shows up in the call that follows
fn prime_box_calls(pk: &[u8; 32], sk: &[u8; 32], n: &[u8; 24]) {
    let mut other_sk = *sk;
    for x in other_sk.iter_mut() { *x ^= 0x5c; }
    let (other_pk, _) = crypto_box_keypair();
    let junk = [0x11u8; 16 + 5];
    let mut out = [0u8; 5];
    // the LAST related call before the real one shares the peer key (nonce[0] even) or the own secret key (odd) with it, so that a
    // memory keyed on either half alone is caught by about half of the requests
    if n[0] % 2 == 0 {
        let _ = crypto_box_open_easy(&mut out, &junk, n, &other_pk, sk);
        let _ = crypto_box_open_easy(&mut out, &junk, n, pk, &other_sk);
    } else {
        let _ = crypto_box_open_easy(&mut out, &junk, n, pk, &other_sk);
        let _ = crypto_box_open_easy(&mut out, &junk, n, &other_pk, sk);
    }
}

pub fn dispatch(op: &str, a: &[&str]) -> Option<Ans> {
    let b: Vec<Vec<u8>> = a.iter().map(|s| unhex_lenient(s)).collect();
    let r: Ans = match op {
        // ---------------------------------------------------------------- secretbox (key nonce msg)
        "secretbox_easy" => {
            let (k, n, m): ([u8; 32], [u8; 24], &[u8]) = (arr(&b[0]), arr(&b[1]), &b[2]);
            let mut c = vec![0u8; m.len() + 16];
            let r = crypto_secretbox_easy(&mut c, m, &n, &k);
            let mut s = vec![0u8; m.len() + 16];
            unsafe { so::crypto_secretbox_easy(s.as_mut_ptr(), m.as_ptr(), m.len() as u64, n.as_ptr(), k.as_ptr()) };
            (if r.is_ok() { ok(&c) } else { "err".into() }, ok(&s))
        }
        "secretbox_detached" | "box_detached_afternm" => {
            let (k, n, m): ([u8; 32], [u8; 24], &[u8]) = (arr(&b[0]), arr(&b[1]), &b[2]);
            let mut c = vec![0u8; m.len()];
            let mut mac = [0u8; 16];
            if op == "secretbox_detached" {
                crypto_secretbox_detached(&mut c, &mut mac, m, &n, &k);
            } else {
                crypto_box_detached_afternm(&mut c, &mut mac, m, &n, &k);
            }
            let mut s = vec![0u8; m.len()];
            let mut smac = [0u8; 16];
            unsafe { so::crypto_secretbox_detached(s.as_mut_ptr(), smac.as_mut_ptr(), m.as_ptr(), m.len() as u64, n.as_ptr(), k.as_ptr()) };
            (format!("ok {} {}", hex(&mac), hex(&c)), format!("ok {} {}", hex(&smac), hex(&s)))
        }
        "secretbox_easy_inplace" => {
            let (k, n, m): ([u8; 32], [u8; 24], &[u8]) = (arr(&b[0]), arr(&b[1]), &b[2]);
            let mut c = m.to_vec();
            c.resize(m.len() + 16, 0);
            let r = crypto_secretbox_easy_inplace(&mut c, &n, &k);
            let mut s = vec![0u8; m.len() + 16];
            unsafe { so::crypto_secretbox_easy(s.as_mut_ptr(), m.as_ptr(), m.len() as u64, n.as_ptr(), k.as_ptr()) };
            (if r.is_ok() { ok(&c) } else { "err".into() }, ok(&s))
        }
        "box_detached_afternm_inplace" => {
            let (k, n, m): ([u8; 32], [u8; 24], &[u8]) = (arr(&b[0]), arr(&b[1]), &b[2]);
            let mut c = m.to_vec();
            let mut mac = [0u8; 16];
            crypto_box_detached_afternm_inplace(&mut c, &mut mac, &n, &k);
            let mut s = vec![0u8; m.len()];
            let mut smac = [0u8; 16];
            unsafe { so::crypto_secretbox_detached(s.as_mut_ptr(), smac.as_mut_ptr(), m.as_ptr(), m.len() as u64, n.as_ptr(), k.as_ptr()) };
            (format!("ok {} {}", hex(&mac), hex(&c)), format!("ok {} {}", hex(&smac), hex(&s)))
        }
        // errtext_secretbox key nonce ct  /  errtext_box pk sk nonce ct  /  errtext_seal rpk rsk ct :
        // the Display text of the error of every opening form (classic, in place, object API) on this input, hex-encoded;
        // C17 requires it to be the same for all rejected inputs of one length (it must not describe the rejected data)
        "errtext_secretbox" | "errtext_box" | "errtext_seal" => {
            let mut texts: Vec<String> = vec![];
            let mut push = |name: &str, r: Result<(), dryoc::Error>| match r { Ok(()) => texts.push(format!("{}=OK", name)), Err(e) => texts.push(format!("{}={}", name, e)) };
            if op == "errtext_secretbox" {
                let (k, n, c): ([u8; 32], [u8; 24], &[u8]) = (arr(&b[0]), arr(&b[1]), &b[2]);
                let mut buf = vec![0u8; c.len().saturating_sub(16)];
                push("easy", crypto_secretbox_open_easy(&mut buf, c, &n, &k));
                let mut ip = c.to_vec();
                push("easy_inplace", crypto_secretbox_open_easy_inplace(&mut ip, &n, &k));
                if c.len() >= 16 {
                    let mac: [u8; 16] = arr(&c[..16]);
                    let mut buf = vec![0u8; c.len() - 16];
                    push("detached", crypto_secretbox_open_detached(&mut buf, &mac, &c[16..], &n, &k));
                }
                let ob = dryoc::dryocsecretbox::VecBox::from_bytes(c).and_then(|bx| bx.decrypt_to_vec(&n, &k).map(|_| ()));
                push("object", ob);
            } else if op == "errtext_box" {
                let (pk, sk, n, c): ([u8; 32], [u8; 32], [u8; 24], &[u8]) = (arr(&b[0]), arr(&b[1]), arr(&b[2]), &b[3]);
                let mut buf = vec![0u8; c.len().saturating_sub(16)];
                push("easy", crypto_box_open_easy(&mut buf, c, &n, &pk, &sk));
                let mut ip = c.to_vec();
                push("easy_inplace", crypto_box_open_easy_inplace(&mut ip, &n, &pk, &sk));
                let ob = dryoc::dryocbox::VecBox::from_bytes(c).and_then(|bx| bx.decrypt_to_vec(&n.into(), &pk.into(), &sk).map(|_| ()));
                push("object", ob);
            } else {
                let (rpk, rsk, c): ([u8; 32], [u8; 32], &[u8]) = (arr(&b[0]), arr(&b[1]), &b[2]);
                let mut buf = vec![0u8; c.len().saturating_sub(48)];
                push("seal_open", crypto_box_seal_open(&mut buf, c, &rpk, &rsk));
                let kp = dryoc::dryocbox::KeyPair::from_slices(&rpk, &rsk).unwrap();
                let ob = dryoc::dryocbox::VecBox::from_sealed_bytes(c).and_then(|bx| bx.unseal_to_vec(&kp).map(|_| ()));
                push("object", ob);
            }
            (format!("ok {}", hex(texts.join("|").as_bytes())), "n/a".into())
        }
        // open: key nonce ct buf
        "secretbox_open_easy" => {
            let (k, n, c): ([u8; 32], [u8; 24], &[u8]) = (arr(&b[0]), arr(&b[1]), &b[2]);
            let mut buf = b[3].clone();
            let r = crypto_secretbox_open_easy(&mut buf, c, &n, &k);
            let mut s = vec![0u8; c.len().saturating_sub(16)];
            let sr = if c.len() < 16 { -1 } else { unsafe { so::crypto_secretbox_open_easy(s.as_mut_ptr(), c.as_ptr(), c.len() as u64, n.as_ptr(), k.as_ptr()) } };
            (openres(&r, &buf), so_open(sr, &s))
        }
        // key nonce mac ct buf
        "secretbox_open_detached" | "box_open_detached_afternm" => {
            let (k, n, mac, c): ([u8; 32], [u8; 24], [u8; 16], &[u8]) = (arr(&b[0]), arr(&b[1]), arr(&b[2]), &b[3]);
            let mut buf = b[4].clone();
            let r = if op == "secretbox_open_detached" {
                crypto_secretbox_open_detached(&mut buf, &mac, c, &n, &k)
            } else {
                crypto_box_open_detached_afternm(&mut buf, &mac, c, &n, &k)
            };
            let mut s = vec![0u8; c.len()];
            let sr = unsafe { so::crypto_secretbox_open_detached(s.as_mut_ptr(), c.as_ptr(), mac.as_ptr(), c.len() as u64, n.as_ptr(), k.as_ptr()) };
            (openres(&r, &buf), so_open(sr, &s))
        }
        // key nonce ct   (buffer = ct)
        "secretbox_open_easy_inplace" => {
            let (k, n): ([u8; 32], [u8; 24]) = (arr(&b[0]), arr(&b[1]));
            let mut buf = b[2].clone();
            let r = crypto_secretbox_open_easy_inplace(&mut buf, &n, &k);
            let c = &b[2];
            let mut s = vec![0u8; c.len().saturating_sub(16)];
            let sr = if c.len() < 16 { -1 } else { unsafe { so::crypto_secretbox_open_easy(s.as_mut_ptr(), c.as_ptr(), c.len() as u64, n.as_ptr(), k.as_ptr()) } };
            // on success the buffer is msg ‖ 16 trailing bytes; report only the message part
            let ia = match &r { Ok(()) => ok(&buf[..buf.len() - 16]), Err(_) => format!("err buf={}", hex(&buf)) };
            (ia, so_open(sr, &s))
        }
        // key nonce mac ct  (buffer = ct)
        "box_open_detached_afternm_inplace" => {
            let (k, n, mac): ([u8; 32], [u8; 24], [u8; 16]) = (arr(&b[0]), arr(&b[1]), arr(&b[2]));
            let mut buf = b[3].clone();
            let r = crypto_box_open_detached_afternm_inplace(&mut buf, &mac, &n, &k);
            let c = &b[3];
            let mut s = vec![0u8; c.len()];
            let sr = unsafe { so::crypto_secretbox_open_detached(s.as_mut_ptr(), c.as_ptr(), mac.as_ptr(), c.len() as u64, n.as_ptr(), k.as_ptr()) };
            (openres(&r, &buf), so_open(sr, &s))
        }
        // ---------------------------------------------------------------- box (pk sk nonce msg)
        "box_beforenm" => {
            let (pk, sk): ([u8; 32], [u8; 32]) = (arr(&b[0]), arr(&b[1]));
            let k = crypto_box_beforenm(&pk, &sk);
            let mut s = [0u8; 32];
            let sr = unsafe { so::crypto_box_beforenm(s.as_mut_ptr(), pk.as_ptr(), sk.as_ptr()) };
            // libsodium refuses weak public keys (all-zero shared secret); dryoc's beforenm is infallible
            (ok(&k), if sr == 0 { ok(&s) } else { "n/a".into() })
        }
        "box_easy" | "box_easy_inplace" => {
            let (pk, sk, n, m): ([u8; 32], [u8; 32], [u8; 24], &[u8]) = (arr(&b[0]), arr(&b[1]), arr(&b[2]), &b[3]);
            let mut c;
            let r = if op == "box_easy" {
                c = vec![0u8; m.len() + 16];
                crypto_box_easy(&mut c, m, &n, &pk, &sk)
            } else {
                c = m.to_vec();
                c.resize(m.len() + 16, 0);
                crypto_box_easy_inplace(&mut c, &n, &pk, &sk)
            };
            let mut s = vec![0u8; m.len() + 16];
            let sr = unsafe { so::crypto_box_easy(s.as_mut_ptr(), m.as_ptr(), m.len() as u64, n.as_ptr(), pk.as_ptr(), sk.as_ptr()) };
            (if r.is_ok() { ok(&c) } else { "err".into() }, if sr == 0 { ok(&s) } else { "n/a".into() })
        }
        "box_detached" | "box_detached_inplace" => {
            let (pk, sk, n, m): ([u8; 32], [u8; 32], [u8; 24], &[u8]) = (arr(&b[0]), arr(&b[1]), arr(&b[2]), &b[3]);
            let mut mac = [0u8; 16];
            let mut c;
            if op == "box_detached" {
                c = vec![0u8; m.len()];
                crypto_box_detached(&mut c, &mut mac, m, &n, &pk, &sk);
            } else {
                c = m.to_vec();
                crypto_box_detached_inplace(&mut c, &mut mac, &n, &pk, &sk).unwrap();
            }
            let mut s = vec![0u8; m.len()];
            let mut smac = [0u8; 16];
            let sr = unsafe { so::crypto_box_detached(s.as_mut_ptr(), smac.as_mut_ptr(), m.as_ptr(), m.len() as u64, n.as_ptr(), pk.as_ptr(), sk.as_ptr()) };
            (format!("ok {} {}", hex(&mac), hex(&c)), if sr == 0 { format!("ok {} {}", hex(&smac), hex(&s)) } else { "n/a".into() })
        }
        // pk sk nonce ct buf
        "box_open_easy" => {
            let (pk, sk, n, c): ([u8; 32], [u8; 32], [u8; 24], &[u8]) = (arr(&b[0]), arr(&b[1]), arr(&b[2]), &b[3]);
            prime_box_calls(&pk, &sk, &n);
            let mut buf = b[4].clone();
            let r = crypto_box_open_easy(&mut buf, c, &n, &pk, &sk);
            let mut s = vec![0u8; c.len().saturating_sub(16)];
            let sr = if c.len() < 16 { -1 } else { unsafe { so::crypto_box_open_easy(s.as_mut_ptr(), c.as_ptr(), c.len() as u64, n.as_ptr(), pk.as_ptr(), sk.as_ptr()) } };
            (openres(&r, &buf), so_open(sr, &s))
        }
        // pk sk nonce mac ct buf
        "box_open_detached" => {
            let (pk, sk, n, mac, c): ([u8; 32], [u8; 32], [u8; 24], [u8; 16], &[u8]) = (arr(&b[0]), arr(&b[1]), arr(&b[2]), arr(&b[3]), &b[4]);
            prime_box_calls(&pk, &sk, &n);
            let mut buf = b[5].clone();
            let r = crypto_box_open_detached(&mut buf, &mac, c, &n, &pk, &sk);
            let mut s = vec![0u8; c.len()];
            let sr = unsafe { so::crypto_box_open_detached(s.as_mut_ptr(), c.as_ptr(), mac.as_ptr(), c.len() as u64, n.as_ptr(), pk.as_ptr(), sk.as_ptr()) };
            (openres(&r, &buf), so_open(sr, &s))
        }
        // pk sk nonce ct
        "box_open_easy_inplace" => {
            let (pk, sk, n): ([u8; 32], [u8; 32], [u8; 24]) = (arr(&b[0]), arr(&b[1]), arr(&b[2]));
            prime_box_calls(&pk, &sk, &n);
            let mut buf = b[3].clone();
            let r = crypto_box_open_easy_inplace(&mut buf, &n, &pk, &sk);
            let c = &b[3];
            let mut s = vec![0u8; c.len().saturating_sub(16)];
            let sr = if c.len() < 16 { -1 } else { unsafe { so::crypto_box_open_easy(s.as_mut_ptr(), c.as_ptr(), c.len() as u64, n.as_ptr(), pk.as_ptr(), sk.as_ptr()) } };
            let ia = match &r { Ok(()) => ok(&buf[..buf.len() - 16]), Err(_) => format!("err buf={}", hex(&buf)) };
            (ia, so_open(sr, &s))
        }
        // pk sk nonce mac ct
        "box_open_detached_inplace" => {
            let (pk, sk, n, mac): ([u8; 32], [u8; 32], [u8; 24], [u8; 16]) = (arr(&b[0]), arr(&b[1]), arr(&b[2]), arr(&b[3]));
            prime_box_calls(&pk, &sk, &n);
            let mut buf = b[4].clone();
            let r = crypto_box_open_detached_inplace(&mut buf, &mac, &n, &pk, &sk);
            let c = &b[4];
            let mut s = vec![0u8; c.len()];
            let sr = unsafe { so::crypto_box_open_detached(s.as_mut_ptr(), c.as_ptr(), mac.as_ptr(), c.len() as u64, n.as_ptr(), pk.as_ptr(), sk.as_ptr()) };
            (openres(&r, &buf), so_open(sr, &s))
        }
        // ---------------------------------------------------------------- sealed boxes
        // box_seal <rpk> <msg> <entropy32>   (entropy hook: the ephemeral secret key)
        "box_seal" => {
            let (rpk, m): ([u8; 32], &[u8]) = (arr(&b[0]), &b[1]);
            #[cfg(feature = "hooks")]
            dryoc::rng::verif_hooks::set_entropy(Some(b[2].clone()));
            let mut c = vec![0u8; m.len() + 48];
            let r = crypto_box_seal(&mut c, m, &rpk);
            #[cfg(feature = "hooks")]
            dryoc::rng::verif_hooks::set_entropy(None);
            // libsodium reference: epk from the same esk, nonce = blake2b24(epk‖rpk), crypto_box_easy
            let esk: [u8; 32] = arr(&b[2]);
            let mut epk = [0u8; 32];
            unsafe { so::crypto_scalarmult_base(epk.as_mut_ptr(), esk.as_ptr()) };
            let mut nonce = [0u8; 24];
            let mut st: so::crypto_generichash_state = unsafe { std::mem::zeroed() };
            unsafe {
                so::crypto_generichash_init(&mut st, std::ptr::null(), 0, 24);
                so::crypto_generichash_update(&mut st, epk.as_ptr(), 32);
                so::crypto_generichash_update(&mut st, rpk.as_ptr(), 32);
                so::crypto_generichash_final(&mut st, nonce.as_mut_ptr(), 24);
            }
            let mut s = vec![0u8; m.len() + 48];
            s[..32].copy_from_slice(&epk);
            let sr = unsafe { so::crypto_box_easy(s[32..].as_mut_ptr(), m.as_ptr(), m.len() as u64, nonce.as_ptr(), rpk.as_ptr(), esk.as_ptr()) };
            (if r.is_ok() { ok(&c) } else { "err".into() }, if sr == 0 { ok(&s) } else { "n/a".into() })
        }
        // box_seal_rt <rpk> <rsk> <msg> : dryoc seals with OS randomness, libsodium opens; libsodium seals, dryoc opens
        "box_seal_rt" => {
            let (rpk, rsk, m): ([u8; 32], [u8; 32], &[u8]) = (arr(&b[0]), arr(&b[1]), &b[2]);
            let mut c = vec![0u8; m.len() + 48];
            let r = crypto_box_seal(&mut c, m, &rpk);
            let mut out = vec![0u8; m.len()];
            let sr = unsafe { so::crypto_box_seal_open(out.as_mut_ptr(), c.as_ptr(), c.len() as u64, rpk.as_ptr(), rsk.as_ptr()) };
            let mut c2 = vec![0u8; m.len() + 48];
            unsafe { so::crypto_box_seal(c2.as_mut_ptr(), m.as_ptr(), m.len() as u64, rpk.as_ptr()) };
            let mut out2 = vec![0u8; m.len()];
            let r2 = crypto_box_seal_open(&mut out2, &c2, &rpk, &rsk);
            // object API both ways
            use dryoc::dryocbox::{DryocBox, KeyPair, VecBox};
            let kp = KeyPair::from_slices(&rpk, &rsk).unwrap();
            let ob = DryocBox::seal_to_vecbox(m, &kp.public_key).unwrap();
            let obytes = ob.to_vec();
            let mut out3 = vec![0u8; m.len()];
            let sr3 = unsafe { so::crypto_box_seal_open(out3.as_mut_ptr(), obytes.as_ptr(), obytes.len() as u64, rpk.as_ptr(), rsk.as_ptr()) };
            let ob2: VecBox = DryocBox::from_sealed_bytes(&c2).unwrap();
            let out4 = ob2.unseal_to_vec(&kp);
            let good = r.is_ok() && sr == 0 && out == m && r2.is_ok() && out2 == m && sr3 == 0 && out3 == m && out4.as_ref().map(|v| v == m).unwrap_or(false);
            (if good { "ok".into() } else { format!("err r={} sr={} r2={} sr3={} r4={}", r.is_ok(), sr, r2.is_ok(), sr3, out4.is_ok()) }, "ok".into())
        }
        // box_seal_open rpk rsk ct buf
        "box_seal_open" => {
            let (rpk, rsk, c): ([u8; 32], [u8; 32], &[u8]) = (arr(&b[0]), arr(&b[1]), &b[2]);
            let mut buf = b[3].clone();
            let r = crypto_box_seal_open(&mut buf, c, &rpk, &rsk);
            let mut s = vec![0u8; c.len().saturating_sub(48)];
            let sr = if c.len() < 48 { -1 } else { unsafe { so::crypto_box_seal_open(s.as_mut_ptr(), c.as_ptr(), c.len() as u64, rpk.as_ptr(), rsk.as_ptr()) } };
            (openres(&r, &buf), so_open(sr, &s))
        }
        _ => return crate::ops_boxobj::dispatch(op, a, &b),
    };
    // libsodium's answer never carries a buffer; compare classes only
    Some((r.0, strip_buf(&r.1)))
}
