//! C07 / C08 / C18: hash, MAC and core primitives, one-shot and incremental,
//! classic and object API.
use crate::util::*;
use crate::Ans;
use dryoc::classic::crypto_auth::*;
use dryoc::classic::crypto_core::*;
use dryoc::classic::crypto_generichash::*;
use dryoc::classic::crypto_hash::*;
use dryoc::classic::crypto_onetimeauth::*;
use dryoc::classic::crypto_shorthash::*;
use dryoc::types::*;
use libsodium_sys as so;

fn so_generichash(outlen: usize, key: &[u8], msg: &[u8]) -> String {
    let mut out = vec![0xA5u8; outlen];
    let kp = if key.is_empty() { std::ptr::null() } else { key.as_ptr() };
    let r = unsafe {
        so::crypto_generichash(out.as_mut_ptr(), outlen, msg.as_ptr(), msg.len() as u64, kp, key.len())
    };
    if r == 0 { ok(&out) } else { "err".into() }
}

macro_rules! gh_obj {
    ($k:expr, $o:expr, $key:expr, $chunks:expr) => {{
        use dryoc::generichash::GenericHash;
        let keyv: Vec<u8> = $key.clone();
        let r: Result<Vec<u8>, dryoc::Error> = (|| {
            let mut h = if keyv.is_empty() {
                GenericHash::<$k, $o>::new::<[u8; $k]>(None)?
            } else {
                let ka: [u8; $k] = arr(&keyv);
                GenericHash::<$k, $o>::new(Some(&ka))?
            };
            for c in $chunks.iter() {
                h.update(c);
            }
            h.finalize_to_vec()
        })();
        // the one-shot forms of the object API on the concatenation: hash / hash_to_vec (and the *_with_defaults forms for 32/32)
        let all: Vec<u8> = $chunks.concat();
        let one: Result<Vec<u8>, dryoc::Error> = if keyv.is_empty() {
            GenericHash::<$k, $o>::hash_to_vec::<_, [u8; $k]>(&all, None)
        } else {
            let ka: [u8; $k] = arr(&keyv);
            GenericHash::<$k, $o>::hash_to_vec(&all, Some(&ka))
        };
        let one2: Result<dryoc::types::StackByteArray<$o>, dryoc::Error> = if keyv.is_empty() {
            GenericHash::<$k, $o>::hash::<_, [u8; $k], _>(&all, None)
        } else {
            let ka: [u8; $k] = arr(&keyv);
            GenericHash::<$k, $o>::hash(&all, Some(&ka))
        };
        // a key held in a Vec that is LONGER than KEY_LENGTH (the container rule: the whole Vec is the BLAKE2b key, in every form)
        let veckey_bad: Option<String> = if !keyv.is_empty() && keyv.len() + 7 <= 64 {
            let mut kl = keyv.clone();
            kl.extend_from_slice(&[0x33u8; 7]);
            let inc: Result<Vec<u8>, dryoc::Error> = (|| { let mut h = GenericHash::<$k, $o>::new(Some(&kl))?; for c in $chunks.iter() { h.update(c); } h.finalize_to_vec() })();
            let oneshot: Result<Vec<u8>, dryoc::Error> = GenericHash::<$k, $o>::hash_to_vec(&all, Some(&kl));
            let sod = so_generichash($o, &kl, &all);
            match (inc, oneshot) {
                (Ok(i), Ok(o1)) => if i == o1 && ok(&i) == sod { None } else { Some(format!("mismatch {}-byte Vec key with GenericHash<{},{}>: incremental {} one-shot {} libsodium {}", kl.len(), $k, $o, hex(&i), hex(&o1), sod)) },
                _ => Some("mismatch Vec key longer than KEY_LENGTH refused".to_string()),
            }
        } else { None };
        if let Some(m) = veckey_bad { return Some((m, na())); }
        match (r, one, one2) {
            (Ok(v), Ok(w), Ok(x)) => if v.len() != $o { format!("mismatch finalize_to_vec returned {} bytes for OUTPUT_LENGTH {}", v.len(), $o) } else if v == w && x.as_slice() == v.as_slice() { ok(&v) } else { format!("mismatch incremental {} != one-shot {}", hex(&v), hex(&w)) },
            (Err(_), Err(_), Err(_)) => "err".to_string(),
            _ => "mismatch incremental/one-shot result".to_string(),
        }
    }};
}

/// default-parameter forms with a VARIABLE-length key container (Vec<u8> of 16..=64 bytes, other than 32): every form hands the whole key to BLAKE2b
fn gh_defaults_veckey(key: &[u8], chunks: &[Vec<u8>]) -> String {
    use dryoc::generichash::GenericHash;
    let all: Vec<u8> = chunks.concat();
    let kv: Vec<u8> = key.to_vec();
    let one: Result<Vec<u8>, _> = GenericHash::hash_with_defaults_to_vec(&all, Some(&kv));
    let inc: Result<Vec<u8>, dryoc::Error> = (|| { let mut h = GenericHash::new_with_defaults(Some(&kv))?; for c in chunks { h.update(c); } h.finalize_to_vec() })();
    let mut classic = vec![0xA5u8; 32];
    let cr = dryoc::classic::crypto_generichash::crypto_generichash(&mut classic, &all, Some(&kv));
    match (one, inc, cr) {
        (Ok(a), Ok(b), Ok(())) => if a == b && a == classic { ok(&a) } else { format!("mismatch defaults forms with a {}-byte Vec key: one-shot {} incremental {} classic {}", kv.len(), hex(&a), hex(&b), hex(&classic)) },
        (Err(_), Err(_), Err(_)) => "err".into(),
        _ => "mismatch defaults forms with a Vec key: results differ".into(),
    }
}

fn gh_defaults(key: &[u8], chunks: &[Vec<u8>]) -> Option<String> {
    use dryoc::generichash::GenericHash;
    let all: Vec<u8> = chunks.concat();
    let ka: Option<[u8; 32]> = if key.is_empty() { None } else { Some(arr(key)) };
    let a: Vec<u8> = GenericHash::hash_with_defaults_to_vec(&all, ka.as_ref()).ok()?;
    let b: dryoc::generichash::Hash = GenericHash::hash_with_defaults(&all, ka.as_ref()).ok()?;
    let mut h = GenericHash::new_with_defaults(ka.as_ref()).ok()?;
    for c in chunks { h.update(c); }
    let c: Vec<u8> = h.finalize_to_vec().ok()?;
    if a != c || b.as_slice() != a.as_slice() { return Some("mismatch *_with_defaults forms".into()); }
    Some(ok(&a))
}

pub fn dispatch(op: &str, a: &[&str]) -> Option<Ans> {
    let b: Vec<Vec<u8>> = match op {
        "generichash_emptykey" => a[1..].iter().map(|s| unhex_lenient(s)).collect(),
        "generichash" | "generichash_inc" | "generichash_obj" => a[1..].iter().map(|s| unhex_lenient(s)).collect(),
        _ => a.iter().map(|s| unhex_lenient(s)).collect(),
    };
    Some(match op {
        "poly1305" => {
            let key: [u8; 32] = arr(&b[0]);
            let mut mac = [0xA5u8; 16];
            crypto_onetimeauth(&mut mac, &b[1], &key);
            {
                let (big, st) = at_addr(&b[1], 1 + b[1].len() % 7);
                let mut m2 = [0u8; 16];
                crypto_onetimeauth(&mut m2, &big[st..st + b[1].len()], &key);
                if m2 != mac { return Some((format!("mismatch message at an odd address: {}", hex(&m2)), "n/a".into())); }
            }
            let mut smac = [0u8; 16];
            unsafe { so::crypto_onetimeauth(smac.as_mut_ptr(), b[1].as_ptr(), b[1].len() as u64, key.as_ptr()) };
            (ok(&mac), ok(&smac))
        }
        "poly1305_inc" => {
            let key: [u8; 32] = arr(&b[0]);
            let mut st = crypto_onetimeauth_init(&key);
            for c in &b[1..] {
                crypto_onetimeauth_update(&mut st, c);
            }
            let mut mac = [0xA5u8; 16];
            crypto_onetimeauth_final(st, &mut mac);
            let all: Vec<u8> = b[1..].concat();
            let mut smac = [0u8; 16];
            unsafe { so::crypto_onetimeauth(smac.as_mut_ptr(), all.as_ptr(), all.len() as u64, key.as_ptr()) };
            (ok(&mac), ok(&smac))
        }
        "poly1305_obj" => {
            use dryoc::onetimeauth::OnetimeAuth;
            let key: [u8; 32] = arr(&b[0]);
            let mut st = OnetimeAuth::new(key);
            for c in &b[1..] {
                st.update(c);
            }
            let mac = st.finalize_to_vec();
            let all: Vec<u8> = b[1..].concat();
            let one = OnetimeAuth::compute_to_vec(key, &all);
            if one != mac {
                (format!("mismatch {} {}", hex(&mac), hex(&one)), na())
            } else {
                (ok(&mac), na())
            }
        }
        "poly1305_verify" => {
            let key: [u8; 32] = arr(&b[0]);
            let mac: [u8; 16] = arr(&b[2]);
            let r = crypto_onetimeauth_verify(&mac, &b[1], &key);
            let s = unsafe { so::crypto_onetimeauth_verify(mac.as_ptr(), b[1].as_ptr(), b[1].len() as u64, key.as_ptr()) };
            // object API must agree
            use dryoc::onetimeauth::OnetimeAuth;
            let r2 = OnetimeAuth::compute_and_verify(&mac, key, &b[1]);
            let mut st = OnetimeAuth::new(key);
            st.update(&b[1]);
            let r3 = st.verify(&mac);
            // the same tag at the head of a longer Vec (`ByteArray<16> for Vec<u8>`: at least 16 bytes, the array is the prefix):
            // the incremental and the one-shot object verifier see the same 16 bytes
            let mut long = mac.to_vec();
            long.extend_from_slice(&[7u8, 7, 7]);
            let r4 = OnetimeAuth::compute_and_verify(&long, key, &b[1]);
            let mut st2 = OnetimeAuth::new(key);
            st2.update(&b[1]);
            let r5 = st2.verify(&long);
            if r.is_ok() != r2.is_ok() || r.is_ok() != r3.is_ok() {
                ("mismatch-obj".into(), rc(s).into())
            } else if r4.is_ok() != r.is_ok() || r5.is_ok() != r.is_ok() {
                (format!("mismatch-obj tag at the head of a longer Vec: compute_and_verify {} incremental verify {} exact tag {}", res(&r4), res(&r5), res(&r)), rc(s).into())
            } else {
                (res(&r).into(), rc(s).into())
            }
        }
        // poly1305_objverify <key> <tag of ANY length> <chunk>… : the streaming object verifier with a Vec<u8> tag container
        // (ByteArray<16> for Vec<u8> views the first 16 bytes and asserts len ≥ 16: a shorter tag is a caller-contract panic)
        "poly1305_objverify" => {
            use dryoc::onetimeauth::OnetimeAuth;
            let key: [u8; 32] = arr(&b[0]);
            let tag: Vec<u8> = b[1].clone();
            let mut st = OnetimeAuth::new(key);
            for c in &b[2..] { st.update(c); }
            let r = st.verify(&tag);
            (res(&r).into(), "n/a".into())
        }
        "auth" => {
            let key: [u8; 32] = arr(&b[0]);
            let mut mac = [0xA5u8; 32];
            crypto_auth(&mut mac, &b[1], &key);
            {
                let (big, st) = at_addr(&b[1], 1 + b[1].len() % 7);
                let mut m2 = [0u8; 32];
                crypto_auth(&mut m2, &big[st..st + b[1].len()], &key);
                if m2 != mac { return Some((format!("mismatch message at an odd address: {}", hex(&m2)), "n/a".into())); }
            }
            let mut smac = [0u8; 32];
            unsafe { so::crypto_auth(smac.as_mut_ptr(), b[1].as_ptr(), b[1].len() as u64, key.as_ptr()) };
            (ok(&mac), ok(&smac))
        }
        "auth_inc" => {
            let key: [u8; 32] = arr(&b[0]);
            let mut st = crypto_auth_init(&key);
            for c in &b[1..] {
                crypto_auth_update(&mut st, c);
            }
            let mut mac = [0xA5u8; 32];
            crypto_auth_final(st, &mut mac);
            let all: Vec<u8> = b[1..].concat();
            let mut smac = [0u8; 32];
            unsafe { so::crypto_auth(smac.as_mut_ptr(), all.as_ptr(), all.len() as u64, key.as_ptr()) };
            (ok(&mac), ok(&smac))
        }
        "auth_obj" => {
            use dryoc::auth::Auth;
            let key: [u8; 32] = arr(&b[0]);
            let mut st = Auth::new(key);
            for c in &b[1..] {
                st.update(c);
            }
            let mac = st.finalize_to_vec();
            let all: Vec<u8> = b[1..].concat();
            let one = Auth::compute_to_vec(key, &all);
            if one != mac {
                (format!("mismatch {} {}", hex(&mac), hex(&one)), na())
            } else {
                (ok(&mac), na())
            }
        }
        "auth_verify" => {
            let key: [u8; 32] = arr(&b[0]);
            let mac: [u8; 32] = arr(&b[2]);
            let r = crypto_auth_verify(&mac, &b[1], &key);
            let s = unsafe { so::crypto_auth_verify(mac.as_ptr(), b[1].as_ptr(), b[1].len() as u64, key.as_ptr()) };
            use dryoc::auth::Auth;
            let r2 = Auth::compute_and_verify(&mac, key, &b[1]);
            let mut st = Auth::new(key);
            st.update(&b[1]);
            let r3 = st.verify(&mac);
            let mut long = mac.to_vec();
            long.extend_from_slice(&[7u8, 7, 7]);
            let r4 = Auth::compute_and_verify(&long, key, &b[1]);
            let mut st2 = Auth::new(key);
            st2.update(&b[1]);
            let r5 = st2.verify(&long);
            if r.is_ok() != r2.is_ok() || r.is_ok() != r3.is_ok() {
                ("mismatch-obj".into(), rc(s).into())
            } else if r4.is_ok() != r.is_ok() || r5.is_ok() != r.is_ok() {
                (format!("mismatch-obj tag at the head of a longer Vec: compute_and_verify {} incremental verify {} exact tag {}", res(&r4), res(&r5), res(&r)), rc(s).into())
            } else {
                (res(&r).into(), rc(s).into())
            }
        }
        // generichash <outlen> <key|-> <msg>
        "generichash" => {
            let outlen: usize = a[0].parse().unwrap();
            let key = &b[0];
            let mut out = vec![0xA5u8; outlen];
            let r = crypto_generichash(&mut out, &b[1], if key.is_empty() { None } else { Some(key) });
            {
                let (big, st) = at_addr(&b[1], 1 + (b[1].len() + outlen) % 7);
                let mut o2 = vec![0u8; outlen];
                let r2 = crypto_generichash(&mut o2, &big[st..st + b[1].len()], if key.is_empty() { None } else { Some(key) });
                if r2.is_ok() != r.is_ok() || (r.is_ok() && o2 != out) { return Some((format!("mismatch message at an odd address: {}", hex(&o2)), "n/a".into())); }
            }
            // message and key in memory that ends at an unreadable page
            {
                let (gm, gk) = (Guarded::new(&b[1]), Guarded::new(key));
                let mut o3 = vec![0u8; outlen];
                let r3 = crypto_generichash(&mut o3, gm.as_slice(), if key.is_empty() { None } else { Some(gk.as_slice()) });
                if r3.is_ok() != r.is_ok() || (r.is_ok() && o3 != out) { return Some(("mismatch operands in front of a guard page".into(), "n/a".into())); }
            }
            // the same hash into a destination at an odd address inside a larger buffer
            {
                let off = 1 + (b[1].len() + outlen) % 7;
                let mut big = vec![0xA5u8; outlen + 16];
                let o = off + (8 - (big.as_ptr() as usize) % 8) % 8;
                let r2 = crypto_generichash(&mut big[o..o + outlen], &b[1], if key.is_empty() { None } else { Some(key) });
                if r2.is_ok() != r.is_ok() || (r.is_ok() && big[o..o + outlen] != out[..]) || big[..o].iter().any(|x| *x != 0xA5) || big[o + outlen..].iter().any(|x| *x != 0xA5) {
                    return Some((format!("mismatch hash into a destination at address ≡ {} (mod 8): {}", off, hex(&big[o..o + outlen])), "n/a".into()));
                }
            }
            let s = if outlen >= 16 && outlen <= 64 && (key.is_empty() || (key.len() >= 16 && key.len() <= 64)) { so_generichash(outlen, key, &b[1]) } else { "err".into() }; // libsodium's documented ranges (BYTES_MIN/KEYBYTES_MIN); the C function itself is laxer
            (if r.is_ok() { ok(&out) } else { "err".into() }, s)
        }
        "generichash_inc" => {
            let outlen: usize = a[0].parse().unwrap();
            let key = &b[0];
            let all: Vec<u8> = b[1..].concat();
            let r = (|| -> Result<Vec<u8>, dryoc::Error> {
                let mut st = crypto_generichash_init(if key.is_empty() { None } else { Some(key) }, outlen)?;
                for c in &b[1..] {
                    crypto_generichash_update(&mut st, c);
                }
                let mut out = vec![0xA5u8; outlen];
                crypto_generichash_final(st, &mut out)?;
                Ok(out)
            })();
            let s = if outlen >= 16 && outlen <= 64 && (key.is_empty() || (key.len() >= 16 && key.len() <= 64)) { so_generichash(outlen, key, &all) } else { "err".into() };
            (match r { Ok(v) => ok(&v), Err(_) => "err".into() }, s)
        }
        // generichash_emptykey <outlen> <chunk>…: a key that is PRESENT but empty (`Some(&[])`, an empty Vec) through every form.
        // All forms must give one answer (the model: the key-length check refuses it everywhere).
        "generichash_emptykey" => {
            let outlen: usize = a[0].parse().unwrap();
            let all: Vec<u8> = b[0..].concat();
            let empty: &[u8] = &[];
            let mut out = vec![0xA5u8; outlen];
            let one = crypto_generichash(&mut out, &all, Some(empty)).map(|_| out.clone());
            let inc = (|| -> Result<Vec<u8>, dryoc::Error> {
                let mut st = crypto_generichash_init(Some(empty), outlen)?;
                for c in &b[0..] {
                    crypto_generichash_update(&mut st, c);
                }
                let mut out = vec![0xA5u8; outlen];
                crypto_generichash_final(st, &mut out)?;
                Ok(out)
            })();
            let mut forms: Vec<(&str, Result<Vec<u8>, dryoc::Error>)> = vec![("one-shot", one), ("incremental", inc)];
            if outlen == 32 {
                use dryoc::generichash::GenericHash;
                let ev: Vec<u8> = Vec::new();
                forms.push(("object one-shot", GenericHash::<32, 32>::hash_to_vec(&all, Some(&ev))));
                forms.push(("object incremental", (|| { let mut h = GenericHash::<32, 32>::new(Some(&ev))?; for c in &b[0..] { h.update(c); } h.finalize_to_vec() })()));
                forms.push(("object defaults one-shot", GenericHash::hash_with_defaults_to_vec(&all, Some(&ev))));
                forms.push(("object defaults incremental", (|| { let mut h = GenericHash::new_with_defaults(Some(&ev))?; for c in &b[0..] { h.update(c); } h.finalize_to_vec() })()));
            }
            let render = |r: &Result<Vec<u8>, dryoc::Error>| match r { Ok(v) => ok(v), Err(_) => "err".to_string() };
            let first = render(&forms[0].1);
            let mut ans = first.clone();
            for (name, r) in forms.iter() {
                if render(r) != first {
                    ans = format!("mismatch empty key: one-shot {} but {} {}", first, name, render(r));
                    break;
                }
            }
            (ans, na())
        }
        // object API, a few (key length, out length) instantiations
        "generichash_obj" => {
            let outlen: usize = a[0].parse().unwrap();
            let key = b[0].clone();
            let chunks: Vec<Vec<u8>> = b[1..].to_vec();
            let klen = if key.is_empty() { 32 } else { key.len() };
            let r = match (klen, outlen) {
                (32, 32) => {
                    let r = gh_obj!(32, 32, key, chunks);
                    match gh_defaults(&key, &chunks) {
                        Some(d) if d == r => r,
                        Some(d) if d.starts_with("mismatch") => d,
                        _ => "mismatch defaults forms != GenericHash<32,32>".to_string(),
                    }
                }
                (16, 16) => gh_obj!(16, 16, key, chunks),
                (64, 64) => gh_obj!(64, 64, key, chunks),
                (32, 64) => gh_obj!(32, 64, key, chunks),
                (48, 24) => gh_obj!(48, 24, key, chunks),
                (k, 32) if k != 32 && k >= 16 && k <= 64 => gh_defaults_veckey(&key, &chunks),
                _ => return Some(("n/a".into(), na())),
            };
            (r, na())
        }
        "sha512" => {
            let mut d = [0xA5u8; 64];
            crypto_hash_sha512(&mut d, &b[0]);
            {
                let (big, st) = at_addr(&b[0], 1 + b[0].len() % 7);
                let mut d2 = [0u8; 64];
                crypto_hash_sha512(&mut d2, &big[st..st + b[0].len()]);
                if d2 != d { return Some((format!("mismatch message at an odd address: {}", hex(&d2)), "n/a".into())); }
            }
            let mut s = [0u8; 64];
            unsafe { so::crypto_hash_sha512(s.as_mut_ptr(), b[0].as_ptr(), b[0].len() as u64) };
            (ok(&d), ok(&s))
        }
        "sha512_inc" => {
            let mut st = crypto_hash_sha512_init();
            for c in &b[..] {
                crypto_hash_sha512_update(&mut st, c);
            }
            let mut d = [0xA5u8; 64];
            crypto_hash_sha512_final(st, &mut d);
            let all: Vec<u8> = b.concat();
            let mut s = [0u8; 64];
            unsafe { so::crypto_hash_sha512(s.as_mut_ptr(), all.as_ptr(), all.len() as u64) };
            (ok(&d), ok(&s))
        }
        "sha512_obj" => {
            use dryoc::sha512::Sha512;
            let mut st = Sha512::new();
            for c in &b[..] {
                st.update(c);
            }
            let d = st.finalize_to_vec();
            let all: Vec<u8> = b.concat();
            let one = Sha512::compute_to_vec(&all);
            let mut into = vec![0xA5u8; 64];
            Sha512::compute_into_bytes(&mut into, &all);
            let arrform: [u8; 64] = Sha512::compute(&all);
            if one != d || into != d || arrform[..] != d[..] {
                (format!("mismatch {} {}", hex(&d), hex(&one)), na())
            } else {
                (ok(&d), na())
            }
        }
        "shorthash" => {
            let key: [u8; 16] = arr(&b[0]);
            let mut h = [0xA5u8; 8];
            crypto_shorthash(&mut h, &b[1], &key);
            {
                let (gm, gk) = (Guarded::new(&b[1]), Guarded::new(&key));
                let kr: &[u8; 16] = gk.as_slice().try_into().unwrap();
                let mut h3 = [0u8; 8];
                crypto_shorthash(&mut h3, gm.as_slice(), kr);
                if h3 != h { return Some(("mismatch operands in front of a guard page".into(), "n/a".into())); }
            }
            // the same message at every address class 1..7 (mod 8)
            for off in 1..8usize {
                let (big, st) = at_addr(&b[1], off);
                let mut h2 = [0u8; 8];
                crypto_shorthash(&mut h2, &big[st..st + b[1].len()], &key);
                if h2 != h { return Some((format!("mismatch message at an address ≡ {} (mod 8): {}", off, hex(&h2)), "n/a".into())); }
            }
            let mut s = [0u8; 8];
            unsafe { so::crypto_shorthash(s.as_mut_ptr(), b[1].as_ptr(), b[1].len() as u64, key.as_ptr()) };
            (ok(&h), ok(&s))
        }
        // hsalsa20 <key32> <in16> [const16]
        "hsalsa20" | "hchacha20" => {
            let key: [u8; 32] = arr(&b[0]);
            let inp: [u8; 16] = arr(&b[1]);
            let cst = if b.len() > 2 {
                let c = &b[2];
                let w = |i: usize| u32::from_le_bytes([c[4 * i], c[4 * i + 1], c[4 * i + 2], c[4 * i + 3]]);
                Some((w(0), w(1), w(2), w(3)))
            } else {
                None
            };
            let cp = if b.len() > 2 { b[2].as_ptr() } else { std::ptr::null() };
            let mut out = [0xA5u8; 32];
            let mut s = [0u8; 32];
            if op == "hsalsa20" {
                crypto_core_hsalsa20(&mut out, &inp, &key, cst);
                unsafe { so::crypto_core_hsalsa20(s.as_mut_ptr(), inp.as_ptr(), key.as_ptr(), cp) };
            } else {
                crypto_core_hchacha20(&mut out, &inp, &key, cst);
                unsafe { so::crypto_core_hchacha20(s.as_mut_ptr(), inp.as_ptr(), key.as_ptr(), cp) };
            }
            (ok(&out), ok(&s))
        }
        // the public constants the Lean models depend on, read from the crate as built
        "constants" => {
            use dryoc::constants::*;
            let v: Vec<(&str, u128)> = vec![
                ("SECRETBOX_MACBYTES", CRYPTO_SECRETBOX_MACBYTES as u128), ("SECRETBOX_KEYBYTES", CRYPTO_SECRETBOX_KEYBYTES as u128),
                ("SECRETBOX_NONCEBYTES", CRYPTO_SECRETBOX_NONCEBYTES as u128), ("BOX_MACBYTES", CRYPTO_BOX_MACBYTES as u128),
                ("BOX_SEALBYTES", CRYPTO_BOX_SEALBYTES as u128), ("BOX_PUBLICKEYBYTES", CRYPTO_BOX_PUBLICKEYBYTES as u128),
                ("SECRETSTREAM_ABYTES", CRYPTO_SECRETSTREAM_XCHACHA20POLY1305_ABYTES as u128),
                ("SECRETSTREAM_HEADERBYTES", CRYPTO_SECRETSTREAM_XCHACHA20POLY1305_HEADERBYTES as u128),
                ("SECRETSTREAM_TAG_MESSAGE", CRYPTO_SECRETSTREAM_XCHACHA20POLY1305_TAG_MESSAGE as u128),
                ("SECRETSTREAM_TAG_PUSH", CRYPTO_SECRETSTREAM_XCHACHA20POLY1305_TAG_PUSH as u128),
                ("SECRETSTREAM_TAG_REKEY", CRYPTO_SECRETSTREAM_XCHACHA20POLY1305_TAG_REKEY as u128),
                ("SECRETSTREAM_COUNTERBYTES", CRYPTO_SECRETSTREAM_XCHACHA20POLY1305_COUNTERBYTES as u128),
                ("SECRETSTREAM_INONCEBYTES", CRYPTO_SECRETSTREAM_XCHACHA20POLY1305_INONCEBYTES as u128),
                ("KDF_BYTES_MIN", CRYPTO_KDF_BLAKE2B_BYTES_MIN as u128), ("KDF_BYTES_MAX", CRYPTO_KDF_BLAKE2B_BYTES_MAX as u128),
                ("KDF_CONTEXTBYTES", CRYPTO_KDF_CONTEXTBYTES as u128), ("KDF_KEYBYTES", CRYPTO_KDF_KEYBYTES as u128),
                ("GENERICHASH_BYTES_MIN", CRYPTO_GENERICHASH_BYTES_MIN as u128), ("GENERICHASH_BYTES_MAX", CRYPTO_GENERICHASH_BYTES_MAX as u128),
                ("GENERICHASH_KEYBYTES_MIN", CRYPTO_GENERICHASH_KEYBYTES_MIN as u128), ("GENERICHASH_KEYBYTES_MAX", CRYPTO_GENERICHASH_KEYBYTES_MAX as u128),
                ("PWHASH_SALTBYTES", CRYPTO_PWHASH_SALTBYTES as u128), ("PWHASH_OPSLIMIT_MIN", CRYPTO_PWHASH_OPSLIMIT_MIN as u128),
                ("PWHASH_OPSLIMIT_MAX", CRYPTO_PWHASH_OPSLIMIT_MAX as u128), ("PWHASH_MEMLIMIT_MIN", CRYPTO_PWHASH_MEMLIMIT_MIN as u128),
                ("PWHASH_MEMLIMIT_MAX", CRYPTO_PWHASH_MEMLIMIT_MAX as u128), ("PWHASH_BYTES_MIN", CRYPTO_PWHASH_BYTES_MIN as u128),
                ("SIGN_BYTES", CRYPTO_SIGN_BYTES as u128), ("SIGN_SEEDBYTES", CRYPTO_SIGN_SEEDBYTES as u128),
                ("KX_SESSIONKEYBYTES", CRYPTO_KX_SESSIONKEYBYTES as u128), ("ONETIMEAUTH_BYTES", CRYPTO_ONETIMEAUTH_BYTES as u128),
                ("AUTH_BYTES", CRYPTO_AUTH_BYTES as u128), ("SHORTHASH_BYTES", CRYPTO_SHORTHASH_BYTES as u128),
                ("SHORTHASH_KEYBYTES", CRYPTO_SHORTHASH_KEYBYTES as u128), ("BOX_SEEDBYTES", CRYPTO_BOX_SEEDBYTES as u128),
            ];
            (format!("ok {}", v.iter().map(|(n, x)| format!("{}={}", n, x)).collect::<Vec<_>>().join(",")), "n/a".into())
        }
        "increment" => {
            let mut v = b[0].clone();
            dryoc::utils::increment_bytes(&mut v);
            let mut v2 = b[0].clone();
            dryoc::utils::sodium_increment(&mut v2);
            if v2 != v { return Some(("mismatch sodium_increment != increment_bytes".into(), "n/a".into())); }
            let mut s = b[0].clone();
            unsafe { so::sodium_increment(s.as_mut_ptr(), s.len()) };
            (ok(&v), ok(&s))
        }
        _ => return None,
    })
}
