//! C05 / C12 / C13 / C06 / C08 / C04: X25519, key exchange, key derivation, seeded key generation,
//! Ed25519 signatures (classic + object API) against libsodium.
use crate::util::*;
use crate::Ans;
use dryoc::classic::crypto_box::*;
use dryoc::classic::crypto_core::*;
use dryoc::classic::crypto_kdf::*;
use dryoc::classic::crypto_kx::*;
use dryoc::classic::crypto_sign::*;
use dryoc::classic::crypto_sign_ed25519::*;
use dryoc::types::*;
use libsodium_sys as so;

fn okr<T: AsRef<[u8]>, E>(r: Result<T, E>) -> String {
    match r {
        Ok(v) => ok(v.as_ref()),
        Err(_) => "err".into(),
    }
}

pub fn dispatch(op: &str, a: &[&str]) -> Option<Ans> {
    let b: Vec<Vec<u8>> = a.iter().map(|s| unhex_lenient(s)).collect();
    Some(match op {
        // ------------------------------------------------------------------ X25519
        "scalarmult" => {
            let (n, p): ([u8; 32], [u8; 32]) = (arr(&b[0]), arr(&b[1]));
            let mut q = [0xA5u8; 32];
            crypto_scalarmult(&mut q, &n, &p);
            let mut s = [0u8; 32];
            // libsodium returns -1 for an all-zero result but still writes q; compare the bytes
            unsafe { so::crypto_scalarmult(s.as_mut_ptr(), n.as_ptr(), p.as_ptr()) };
            (ok(&q), ok(&s))
        }
        "scalarmult_base" => {
            let n: [u8; 32] = arr(&b[0]);
            let mut q = [0xA5u8; 32];
            crypto_scalarmult_base(&mut q, &n);
            let mut s = [0u8; 32];
            unsafe { so::crypto_scalarmult_base(s.as_mut_ptr(), n.as_ptr()) };
            // object API: KeyPair::from_secret_key
            let kp = dryoc::keypair::StackKeyPair::from_secret_key(n.into());
            let kpv = dryoc::keypair::KeyPair::<Vec<u8>, Vec<u8>>::from_secret_key(n.to_vec());
            let kpm = dryoc::keypair::KeyPair::<Vec<u8>, dryoc::keypair::SecretKey>::from_secret_key(n.into());
            if kpv.public_key != q || kpv.secret_key != n || kpm.public_key != q {
                ("mismatch KeyPair<Vec,…>::from_secret_key".into(), ok(&s))
            } else if kp.public_key.as_slice() != q {
                ("mismatch from_secret_key".into(), ok(&s))
            } else {
                (ok(&q), ok(&s))
            }
        }
        // precalc pk sk : PrecalcSecretKey::precalculate and KeyPair::precalculate vs crypto_box_beforenm
        "precalc" => {
            let (pk, sk): ([u8; 32], [u8; 32]) = (arr(&b[0]), arr(&b[1]));
            let k = crypto_box_beforenm(&pk, &sk);
            let p = dryoc::precalc::PrecalcSecretKey::precalculate(&pk, &sk);
            // related calls first, on this thread: ANOTHER key pair with the same peer key, and the same key pair with another peer key
            // (every form) — the precomputation has no memory
            {
                let mut osk = sk;
                for x in osk.iter_mut() { *x ^= 0x3c; }
                let mut opk = pk;
                opk[0] ^= 0x40;
                let okp = dryoc::keypair::StackKeyPair::from_secret_key(osk.into());
                let _ = okp.precalculate(&StackByteArray::from(pk));
                let _ = dryoc::precalc::PrecalcSecretKey::precalculate(&pk, &osk);
                let _ = crypto_box_beforenm(&pk, &osk);
                let skp = dryoc::keypair::StackKeyPair::from_secret_key(sk.into());
                let _ = skp.precalculate(&StackByteArray::from(opk));
                let _ = dryoc::precalc::PrecalcSecretKey::precalculate(&opk, &sk);
                if pk[1] % 2 == 0 { let _ = okp.precalculate(&StackByteArray::from(pk)); }
            }
            let kp = dryoc::keypair::StackKeyPair::from_secret_key(sk.into());
            let p2 = kp.precalculate(&StackByteArray::from(pk));
            let mut s = [0u8; 32];
            let sr = unsafe { so::crypto_box_beforenm(s.as_mut_ptr(), pk.as_ptr(), sk.as_ptr()) };
            // the protected-memory forms of the same precomputation (nightly): locked and read-only locked containers,
            // through PrecalcSecretKey and through a locked key pair
            #[cfg(feature = "nightly")]
            {
                use dryoc::precalc::protected::*;
                use dryoc::precalc::PrecalcSecretKey as PSK;
                let l1 = PSK::precalculate_locked(&pk, &sk).map(|x| x.to_vec());
                let l2 = PSK::precalculate_readonly_locked(&pk, &sk).map(|x| x.to_vec());
                let lsk = HeapByteArray::<32>::from_slice_into_locked(&sk).unwrap();
                let lpk = HeapByteArray::<32>::from_slice_into_locked(refs_pk(&sk).as_slice()).unwrap();
                let lkp = dryoc::keypair::KeyPair { public_key: lpk, secret_key: lsk };
                let l3 = lkp.precalculate_locked(&StackByteArray::from(pk)).map(|x| x.to_vec());
                let rsk = HeapByteArray::<32>::from_slice_into_readonly_locked(&sk).unwrap();
                let rpk = HeapByteArray::<32>::from_slice_into_readonly_locked(refs_pk(&sk).as_slice()).unwrap();
                let rkp = dryoc::keypair::KeyPair { public_key: rpk, secret_key: rsk };
                let l4 = rkp.precalculate_readonly_locked(&StackByteArray::from(pk)).map(|x| x.to_vec());
                for (name, l) in [("precalculate_locked", &l1), ("precalculate_readonly_locked", &l2), ("KeyPair::precalculate_locked", &l3), ("KeyPair::precalculate_readonly_locked", &l4)] {
                    match l {
                        Ok(v) if v.as_slice() == k => {}
                        _ => return Some((format!("mismatch precalc {} != crypto_box_beforenm", name), "n/a".into())),
                    }
                }
            }
            if p.as_slice() != k || p2.as_slice() != k {
                ("mismatch precalc".into(), "n/a".into())
            } else {
                // libsodium's crypto_box_beforenm refuses (−1) a public key whose shared secret is all-zero; dryoc's is infallible (F17)
                (ok(&k), if sr == 0 { ok(&s) } else { "err".into() })
            }
        }
        // ------------------------------------------------------------------ key exchange
        // kx_client cpk csk spk  → ok rx tx
        "kx_client" | "kx_server" => {
            let (pk, sk, opk): ([u8; 32], [u8; 32], [u8; 32]) = (arr(&b[0]), arr(&b[1]), arr(&b[2]));
            let (mut rx, mut tx) = ([0xA5u8; 32], [0xA5u8; 32]);
            let (mut srx, mut stx) = ([0u8; 32], [0u8; 32]);
            let (r, sr) = if op == "kx_client" {
                (crypto_kx_client_session_keys(&mut rx, &mut tx, &pk, &sk, &opk),
                 unsafe { so::crypto_kx_client_session_keys(srx.as_mut_ptr(), stx.as_mut_ptr(), pk.as_ptr(), sk.as_ptr(), opk.as_ptr()) })
            } else {
                (crypto_kx_server_session_keys(&mut rx, &mut tx, &pk, &sk, &opk),
                 unsafe { so::crypto_kx_server_session_keys(srx.as_mut_ptr(), stx.as_mut_ptr(), pk.as_ptr(), sk.as_ptr(), opk.as_ptr()) })
            };
            // object API must agree with the classic one
            let kp = dryoc::kx::KeyPair::from_slices(&pk, &sk).unwrap();
            let other = dryoc::kx::PublicKey::from(opk);
            let sess = if op == "kx_client" { dryoc::kx::StackSession::new_client(&kp, &other) } else { dryoc::kx::StackSession::new_server(&kp, &other) };
            let sess2 = if op == "kx_client" { kp.kx_new_client_session::<dryoc::kx::SessionKey>(&other) } else { kp.kx_new_server_session::<dryoc::kx::SessionKey>(&other) };
            let mut ia = match (&r, &sess, &sess2) {
                (Ok(()), Ok(s1), Ok(s2)) => {
                    if s1.rx_as_slice() != rx || s1.tx_as_slice() != tx || s2.rx_as_slice() != rx || s2.tx_as_slice() != tx
                        || s1.rx_as_array() != &rx || s1.tx_as_array() != &tx {
                        "mismatch session".to_string()
                    } else {
                        format!("ok {} {}", hex(&rx), hex(&tx))
                    }
                }
                (Err(_), Err(_), Err(_)) => "err".to_string(),
                _ => "mismatch session result".to_string(),
            };
            // every way of getting the keys out of the object: the consuming into_parts() is documented as (rx, tx)
            if ia.starts_with("ok") {
                if let (Ok(s1), Ok(s2)) = (sess, sess2) {
                    let (prx, ptx) = s1.into_parts();
                    let (qrx, qtx) = s2.into_parts();
                    if prx.as_slice() != rx || ptx.as_slice() != tx || qrx.as_slice() != rx || qtx.as_slice() != tx {
                        ia = "mismatch session into_parts() != (rx, tx)".to_string();
                    }
                }
                let ds = if op == "kx_client" { dryoc::kx::Session::new_client_with_defaults(&kp, &other) } else { dryoc::kx::Session::new_server_with_defaults(&kp, &other) };
                match ds {
                    Ok(v) => if v.rx_as_slice() != rx || v.tx_as_slice() != tx { ia = "mismatch *_with_defaults session".to_string(); },
                    Err(_) => ia = "mismatch *_with_defaults session result".to_string(),
                }
                let vs = if op == "kx_client" { dryoc::kx::Session::<Vec<u8>>::new_client(&kp, &other) } else { dryoc::kx::Session::<Vec<u8>>::new_server(&kp, &other) };
                match vs {
                    Ok(v) => { let (a, b2) = v.into_parts(); if a != rx || b2 != tx { ia = "mismatch Vec session into_parts()".to_string(); } }
                    Err(_) => ia = "mismatch Vec session result".to_string(),
                }
            }
            (ia, if sr == 0 { format!("ok {} {}", hex(&srx), hex(&stx)) } else { "err".into() })
        }
        "kx_seed_keypair" => {
            let seed: [u8; 32] = arr(&b[0]);
            let r = crypto_kx_seed_keypair(&seed);
            let (mut spk, mut ssk) = ([0u8; 32], [0u8; 32]);
            unsafe { so::crypto_kx_seed_keypair(spk.as_mut_ptr(), ssk.as_mut_ptr(), seed.as_ptr()) };
            (match r { Ok((pk, sk)) => format!("ok {} {}", hex(&pk), hex(&sk)), Err(_) => "err".into() }, format!("ok {} {}", hex(&spk), hex(&ssk)))
        }
        // ------------------------------------------------------------------ key derivation
        // kdf <len> <id hex 8 LE> <ctx8> <key32>
        "kdf" => {
            let len: usize = a[0].parse().unwrap();
            let id = u64::from_le_bytes(arr(&b[1]));
            let (ctx, key): ([u8; 8], [u8; 32]) = (arr(&b[2]), arr(&b[3]));
            let mut sub = vec![0xA5u8; len];
            let r = crypto_kdf_derive_from_key(&mut sub, id, &ctx, &key);
            let mut s = vec![0u8; len];
            let sr = unsafe { so::crypto_kdf_derive_from_key(s.as_mut_ptr(), len, id, ctx.as_ptr() as *const _, key.as_ptr()) };
            let mut ia = if r.is_ok() { ok(&sub) } else { "err".into() };
            // the same derivation into a sub-slice at every byte offset 1..=7 of a larger buffer (packed records, key tables): the
            // destination's alignment must not matter, and nothing around it may be touched
            for off in 1..8usize {
                let mut big = vec![0xA5u8; len + 16];
                let base_mis = (big.as_ptr() as usize) % 8;
                let o = off + (8 - base_mis) % 8;   // address of big[o] ≡ off (mod 8)
                let r2 = crypto_kdf_derive_from_key(&mut big[o..o + len], id, &ctx, &key);
                if r2.is_ok() != r.is_ok() || (r.is_ok() && big[o..o + len] != sub[..]) || big[..o].iter().any(|x| *x != 0xA5) || big[o + len..].iter().any(|x| *x != 0xA5) {
                    ia = format!("mismatch derivation into a destination at address ≡ {} (mod 8): {}", off, hex(&big[o..o + len]));
                    break;
                }
            }
            // the operands in memory that ENDS at an unreadable page (as sodium_malloc places them): nothing behind the key / context is read
            {
                let (gk, gc) = (Guarded::new(&key), Guarded::new(&ctx));
                let (kr, cr): (&[u8; 32], &[u8; 8]) = (gk.as_slice().try_into().unwrap(), gc.as_slice().try_into().unwrap());
                let mut s3 = vec![0u8; len];
                let r3 = crypto_kdf_derive_from_key(&mut s3, id, cr, kr);
                if r3.is_ok() != r.is_ok() || (r.is_ok() && s3 != sub) { ia = "mismatch derivation from operands in front of a guard page".into(); }
            }
            if len == 32 {
                let k = dryoc::kdf::StackKdf::from_parts(key.into(), ctx.into());
                match k.derive_subkey_to_vec(id) {
                    Ok(v) => if r.is_err() || v != sub { ia = "mismatch Kdf object".into() },
                    Err(_) => if r.is_ok() { ia = "mismatch Kdf object".into() },
                }
            }
            (ia, if sr == 0 { ok(&s) } else { "err".into() })
        }
        // kdf_after_failed_final <len> <id> <ctx> <key> <buffered bytes> <bad outlen>: the derivation made right after a STREAMING
        // generichash on the same thread whose finalisation was refused (output length 0 or > 64) while input was still buffered
        "kdf_after_failed_final" => {
            use dryoc::classic::crypto_generichash::*;
            let len: usize = a[0].parse().unwrap();
            let (nbuf, bad): (usize, usize) = (a[4].parse().unwrap(), a[5].parse().unwrap());
            let id = u64::from_le_bytes(arr(&b[1]));
            let (ctx, key): ([u8; 8], [u8; 32]) = (arr(&b[2]), arr(&b[3]));
            for keyed in [false, true] {
                let k = [0x42u8; 32];
                if let Ok(mut st) = crypto_generichash_init(if keyed { Some(&k[..]) } else { None }, 32) {
                    crypto_generichash_update(&mut st, &vec![0xC3u8; nbuf]);
                    let mut out = vec![0u8; bad];
                    let _ = crypto_generichash_final(st, &mut out);
                }
            }
            let mut sub = vec![0xA5u8; len];
            let r = crypto_kdf_derive_from_key(&mut sub, id, &ctx, &key);
            let mut s = vec![0u8; len];
            let sr = unsafe { so::crypto_kdf_derive_from_key(s.as_mut_ptr(), len, id, ctx.as_ptr() as *const _, key.as_ptr()) };
            // … and through the object API
            let mut ia = if r.is_ok() { ok(&sub) } else { "err".into() };
            if len == 32 {
                let kk = dryoc::kdf::StackKdf::from_parts(key.into(), ctx.into());
                if let Ok(v) = kk.derive_subkey_to_vec(id) { if r.is_err() || v != sub { ia = "mismatch Kdf object after a refused finalisation".into(); } }
            }
            (ia, if sr == 0 { ok(&s) } else { "err".into() })
        }
        // kdf_obj_vec <id> <ctx of ANY length> <key of ANY length>: `Kdf<Vec<u8>, Vec<u8>>` — ByteArray<N> for Vec views the first N
        // bytes (and asserts len ≥ N): the subkey is the classic function's on the 8 / 32-byte prefixes
        "kdf_obj_vec" => {
            let id = u64::from_le_bytes(arr(&b[0]));
            let (ctxv, keyv) = (b[1].clone(), b[2].clone());
            let r = std::panic::catch_unwind(std::panic::AssertUnwindSafe(|| {
                let k: dryoc::kdf::Kdf<Vec<u8>, Vec<u8>> = dryoc::kdf::Kdf::from_parts(keyv.clone(), ctxv.clone());
                k.derive_subkey_to_vec(id)
            }));
            let want = if ctxv.len() >= 8 && keyv.len() >= 32 {
                let mut s = vec![0u8; 32];
                let sr = unsafe { so::crypto_kdf_derive_from_key(s.as_mut_ptr(), 32, id, ctxv.as_ptr() as *const _, keyv.as_ptr()) };
                if sr == 0 { ok(&s) } else { "err".into() }
            } else { "panic".into() };
            (match r { Ok(Ok(v)) => ok(&v), Ok(Err(_)) => "err".into(), Err(_) => "panic".into() }, want)
        }
        // kdf_after <len> <id> <ctx> <key> <prev_len>: the derivation made right after one of prev_len bytes with the same operands
        "kdf_after" => {
            let len: usize = a[0].parse().unwrap();
            let prev: usize = a[4].parse().unwrap();
            let id = u64::from_le_bytes(arr(&b[1]));
            let (ctx, key): ([u8; 8], [u8; 32]) = (arr(&b[2]), arr(&b[3]));
            let mut first = vec![0x5Au8; prev];
            let _ = crypto_kdf_derive_from_key(&mut first, id, &ctx, &key);
            let mut sub = vec![0xA5u8; len];
            let r = crypto_kdf_derive_from_key(&mut sub, id, &ctx, &key);
            let mut s = vec![0u8; len];
            let sr = unsafe { so::crypto_kdf_derive_from_key(s.as_mut_ptr(), len, id, ctx.as_ptr() as *const _, key.as_ptr()) };
            (if r.is_ok() { ok(&sub) } else { "err".into() }, if sr == 0 { ok(&s) } else { "err".into() })
        }
        // ------------------------------------------------------------------ seeded key generation
        "box_seed_keypair" => {
            let seed = &b[0];
            let (pk, sk) = crypto_box_seed_keypair(seed);
            let kp = dryoc::keypair::StackKeyPair::from_seed(seed);
            let sa = if seed.len() == 32 {
                let (mut spk, mut ssk) = ([0u8; 32], [0u8; 32]);
                unsafe { so::crypto_box_seed_keypair(spk.as_mut_ptr(), ssk.as_mut_ptr(), seed.as_ptr()) };
                format!("ok {} {}", hex(&spk), hex(&ssk))
            } else {
                // libsodium's construction for any seed: sk = SHA-512(seed)[0..32], pk = base·sk
                let mut h = [0u8; 64];
                unsafe { so::crypto_hash_sha512(h.as_mut_ptr(), seed.as_ptr(), seed.len() as u64) };
                let mut spk = [0u8; 32];
                unsafe { so::crypto_scalarmult_base(spk.as_mut_ptr(), h.as_ptr()) };
                format!("ok {} {}", hex(&spk), hex(&h[..32]))
            };
            // the in-place form, whatever the caller's buffers held before: fresh sentinels, the right secret key with a stale
            // public key (restored from storage / second derivation into reused buffers), and the reverse
            let mut inplace_bad = None;
            for (pk0, sk0) in [([0xA5u8; 32], [0xA5u8; 32]), ([0xA5u8; 32], sk), (pk, [0x5Au8; 32]), ([0u8; 32], sk), (pk, sk)] {
                let (mut p2, mut s2) = (pk0, sk0);
                crypto_box_seed_keypair_inplace(&mut p2, &mut s2, seed);
                if p2 != pk || s2 != sk {
                    inplace_bad = Some(format!("mismatch seed_keypair_inplace(pk buffer {}.., sk buffer {}..)", hex(&pk0[..2]), hex(&sk0[..2])));
                }
            }
            if let Some(m) = inplace_bad {
                (m, sa)
            } else if kp.public_key.as_slice() != pk || kp.secret_key.as_slice() != sk {
                ("mismatch from_seed".into(), sa)
            } else {
                (format!("ok {} {}", hex(&pk), hex(&sk)), sa)
            }
        }
        "sign_seed_keypair" => {
            let seed: [u8; 32] = arr(&b[0]);
            let (pk, sk) = crypto_sign_seed_keypair(&seed);
            let kp = dryoc::sign::SigningKeyPair::<dryoc::sign::PublicKey, dryoc::sign::SecretKey>::from_seed(&seed);
            let kp2 = dryoc::sign::SigningKeyPair::<dryoc::sign::PublicKey, dryoc::sign::SecretKey>::from_secret_key(sk.into());
            let (mut spk, mut ssk) = ([0u8; 32], [0u8; 64]);
            unsafe { so::crypto_sign_seed_keypair(spk.as_mut_ptr(), ssk.as_mut_ptr(), seed.as_ptr()) };
            // from_secret_key derives the public key from the SEED half, whatever the trailing 32 bytes say
            for tail in [[0u8; 32], [0xA5u8; 32]] {
                let mut bad = sk;
                bad[32..].copy_from_slice(&tail);
                let kp3 = dryoc::sign::SigningKeyPair::<dryoc::sign::PublicKey, dryoc::sign::SecretKey>::from_secret_key(bad.into());
                if kp3.public_key.as_slice() != pk {
                    return Some(("mismatch SigningKeyPair::from_secret_key public key is not the seed's".into(), format!("ok {} {}", hex(&spk), hex(&ssk))));
                }
                // a signature made with that key pair verifies under the seed's public key
                let smsg = kp3.sign_with_defaults(b"from_secret_key".to_vec());
                match smsg { Ok(m3) => if m3.verify(&dryoc::sign::PublicKey::from(pk)).is_err() { return Some(("mismatch signature by from_secret_key pair does not verify".into(), "n/a".into())); }, Err(_) => return Some(("mismatch sign failed".into(), "n/a".into())) }
            }
            // the same constructor with Vec<u8> key containers
            let kpv = dryoc::sign::SigningKeyPair::<Vec<u8>, Vec<u8>>::from_secret_key(sk.to_vec());
            if kpv.public_key != pk || kpv.secret_key != sk {
                return Some(("mismatch SigningKeyPair<Vec,Vec>::from_secret_key".into(), format!("ok {} {}", hex(&spk), hex(&ssk))));
            }
            let kpv2 = dryoc::sign::SigningKeyPair::<Vec<u8>, Vec<u8>>::from_seed(&seed);
            if kpv2.public_key != pk || kpv2.secret_key != sk {
                return Some(("mismatch SigningKeyPair<Vec,Vec>::from_seed".into(), format!("ok {} {}", hex(&spk), hex(&ssk))));
            }
            let mut inplace_bad = false;
            for (pk0, sk0) in [([0xA5u8; 32], [0xA5u8; 64]), ([0xA5u8; 32], sk), (pk, [0x5Au8; 64]), (pk, sk)] {
                let (mut p2, mut s2) = (pk0, sk0);
                crypto_sign_seed_keypair_inplace(&mut p2, &mut s2, &seed);
                if p2 != pk || s2 != sk { inplace_bad = true; }
            }
            if inplace_bad {
                ("mismatch sign_seed_keypair_inplace on reused buffers".into(), format!("ok {} {}", hex(&spk), hex(&ssk)))
            } else if kp.public_key.as_slice() != pk || kp.secret_key.as_slice() != sk || kp2.public_key.as_slice() != pk {
                ("mismatch SigningKeyPair".into(), format!("ok {} {}", hex(&spk), hex(&ssk)))
            } else {
                (format!("ok {} {}", hex(&pk), hex(&sk)), format!("ok {} {}", hex(&spk), hex(&ssk)))
            }
        }
        // ed_to_curve <ed pk> <ed sk64>  → ok xpk xsk
        "ed_to_curve" => {
            let (pk, sk): ([u8; 32], [u8; 64]) = (arr(&b[0]), arr(&b[1]));
            let mut xpk = [0xA5u8; 32];
            let mut xsk = [0xA5u8; 32];
            let r = crypto_sign_ed25519_pk_to_curve25519(&mut xpk, &pk);
            crypto_sign_ed25519_sk_to_curve25519(&mut xsk, &sk);
            let (mut spk, mut ssk) = ([0u8; 32], [0u8; 32]);
            let sr = unsafe { so::crypto_sign_ed25519_pk_to_curve25519(spk.as_mut_ptr(), pk.as_ptr()) };
            unsafe { so::crypto_sign_ed25519_sk_to_curve25519(ssk.as_mut_ptr(), sk.as_ptr()) };
            // consistency on the implementation: base·xsk == xpk
            let mut chk = [0u8; 32];
            crypto_scalarmult_base(&mut chk, &xsk);
            let cons = if r.is_ok() && chk == xpk { "consistent" } else { "inconsistent" };
            (if r.is_ok() { format!("ok {} {} {}", hex(&xpk), hex(&xsk), cons) } else { "err".into() },
             if sr == 0 { format!("ok {} {} consistent", hex(&spk), hex(&ssk)) } else { "err".into() })
        }
        // ------------------------------------------------------------------ signatures
        // sign <sk64> <msg> → ok sig   (detached, combined and object API must agree)
        "sign" => {
            let sk: [u8; 64] = arr(&b[0]);
            let m = &b[1];
            let mut sig = [0xA5u8; 64];
            let r = crypto_sign_detached(&mut sig, m, &sk);
            let mut sm = vec![0xA5u8; m.len() + 64];
            let r2 = crypto_sign(&mut sm, m, &sk);
            let mut ssig = [0u8; 64];
            unsafe { so::crypto_sign_detached(ssig.as_mut_ptr(), std::ptr::null_mut(), m.as_ptr(), m.len() as u64, sk.as_ptr()) };
            let kp = dryoc::sign::SigningKeyPair::<dryoc::sign::PublicKey, dryoc::sign::SecretKey>::from_secret_key(sk.into());
            let signed = kp.sign_with_defaults(m.clone());
            let ia = match (r, r2, signed) {
                (Ok(()), Ok(()), Ok(s)) => {
                    let v = s.to_vec();
                    let mut opened = vec![0u8; m.len()];
                    let pk: [u8; 32] = arr(&sk[32..]);
                    let o = crypto_sign_open(&mut opened, &sm, &pk);
                    if sm[..64] != sig || sm[64..] != m[..] || v != sm {
                        "mismatch combined/detached/object".to_string()
                    } else if o.is_err() || opened != *m || s.verify(&pk).is_err() {
                        "mismatch own-signature-not-verified".to_string()
                    } else {
                        ok(&sig)
                    }
                }
                _ => "err".to_string(),
            };
            (ia, ok(&ssig))
        }
        // sign_ph <sk64> <chunk>… → ok sig    (incremental pre-hashed, classic + object)
        "sign_ph" => {
            let sk: [u8; 64] = arr(&b[0]);
            let mut st = crypto_sign_init();
            let mut os = dryoc::sign::IncrementalSigner::new();
            let mut sst: so::crypto_sign_state = unsafe { std::mem::zeroed() };
            unsafe { so::crypto_sign_init(&mut sst) };
            for c in &b[1..] {
                crypto_sign_update(&mut st, c);
                os.update(c);
                unsafe { so::crypto_sign_update(&mut sst, c.as_ptr(), c.len() as u64) };
            }
            let mut sig = [0xA5u8; 64];
            let r = crypto_sign_final_create(st, &mut sig, &sk);
            let osig: Result<Vec<u8>, _> = os.finalize(&sk);
            let mut ssig = [0u8; 64];
            unsafe { so::crypto_sign_final_create(&mut sst, ssig.as_mut_ptr(), std::ptr::null_mut(), sk.as_ptr()) };
            let ia = match (r, osig) {
                (Ok(()), Ok(o)) => if o != sig { "mismatch IncrementalSigner".to_string() } else { ok(&sig) },
                _ => "err".to_string(),
            };
            (ia, ok(&ssig))
        }
        // verify <pk> <msg> <sig>   → ok | err   (detached, combined-open and object API must agree)
        "verify" => {
            let (pk, sig): ([u8; 32], [u8; 64]) = (arr(&b[0]), arr(&b[2]));
            let m = &b[1];
            let r = crypto_sign_verify_detached(&sig, m, &pk);
            let mut sm = sig.to_vec();
            sm.extend_from_slice(m);
            let mut out = vec![0xA5u8; m.len()];
            let r2 = crypto_sign_open(&mut out, &sm, &pk);
            let r3 = dryoc::sign::VecSignedMessage::from_bytes(&sm).and_then(|s| s.verify(&pk));
            // the same object assembled from its parts, and taken apart again
            let sp = dryoc::sign::VecSignedMessage::from_parts(dryoc::sign::Signature::from(sig), m.clone());
            if sp.to_vec() != sm { return Some(("mismatch SignedMessage::from_parts layout".into(), "n/a".into())); }
            let r4 = sp.verify(&pk);
            let (ps, pm) = sp.into_parts();
            if ps.as_slice() != sig || pm != *m { return Some(("mismatch SignedMessage::into_parts".into(), "n/a".into())); }
            if r4.is_ok() != r3.is_ok() { return Some(("mismatch from_parts verify".into(), "n/a".into())); }
            let sr = unsafe { so::crypto_sign_verify_detached(sig.as_ptr(), m.as_ptr(), m.len() as u64, pk.as_ptr()) };
            let ia = if r.is_ok() != r2.is_ok() || r.is_ok() != r3.is_ok() {
                "mismatch verify forms".to_string()
            } else if r2.is_ok() && out != *m {
                "mismatch open message".to_string()
            } else if r2.is_err() && out.iter().any(|x| *x != 0xA5) {
                "mismatch open wrote message on failure".to_string()
            } else {
                res(&r).to_string()
            };
            (ia, rc(sr).into())
        }
        // verify_ph <pk> <sig> <chunk>…
        "verify_ph" => {
            let (pk, sig): ([u8; 32], [u8; 64]) = (arr(&b[0]), arr(&b[1]));
            let mut st = crypto_sign_init();
            let mut os = dryoc::sign::IncrementalSigner::new();
            let mut sst: so::crypto_sign_state = unsafe { std::mem::zeroed() };
            unsafe { so::crypto_sign_init(&mut sst) };
            for c in &b[2..] {
                crypto_sign_update(&mut st, c);
                os.update(c);
                unsafe { so::crypto_sign_update(&mut sst, c.as_ptr(), c.len() as u64) };
            }
            let r = crypto_sign_final_verify(st, &sig, &pk);
            let r2 = os.verify(&sig, &pk);
            let sr = unsafe { so::crypto_sign_final_verify(&mut sst, sig.as_ptr(), pk.as_ptr()) };
            (if r.is_ok() != r2.is_ok() { "mismatch IncrementalSigner verify".into() } else { res(&r).to_string() }, rc(sr).into())
        }
        // sign_open <pk> <signed message bytes> → ok msg | err   (attacker-controlled length)
        "sign_open" => {
            let pk: [u8; 32] = arr(&b[0]);
            let sm = &b[1];
            let mut out = vec![0xA5u8; sm.len().saturating_sub(64)];
            let r = crypto_sign_open(&mut out, sm, &pk);
            if r.is_err() && out.iter().any(|x| *x != 0xA5) && out.iter().any(|x| *x != 0) {
                return Some(("mismatch open wrote message bytes on failure".into(), "err".into()));
            }
            let r3 = dryoc::sign::VecSignedMessage::from_bytes(sm).and_then(|s| s.verify(&pk));
            // the same bytes through the all-Vec container form (Vec<u8> signature): parse, re-serialise, verify
            let r4 = dryoc::sign::SignedMessage::<Vec<u8>, Vec<u8>>::from_bytes(sm);
            let r4 = match r4 {
                Ok(sv) => {
                    if sm.len() < 64 { return Some(("mismatch SignedMessage<Vec,Vec>::from_bytes accepted fewer than 64 bytes".into(), "err".into())); }
                    if sv.to_vec() != *sm { return Some(("mismatch SignedMessage<Vec,Vec> to_vec != input".into(), "n/a".into())); }
                    sv.verify(&pk)
                }
                Err(e) => Err(e),
            };
            if r4.is_ok() != r3.is_ok() { return Some(("mismatch SignedMessage<Vec,Vec> verify".into(), "n/a".into())); }
            #[cfg(feature = "nightly")]
            {
                use dryoc::protected::*;
                let r5 = dryoc::sign::SignedMessage::<HeapByteArray<64>, HeapBytes>::from_bytes(sm).and_then(|s| s.verify(&pk));
                if r5.is_ok() != r3.is_ok() { return Some(("mismatch SignedMessage<Heap,Heap> verify".into(), "n/a".into())); }
            }
            let mut sout = vec![0u8; sm.len().saturating_sub(64)];
            let mut mlen = 0u64;
            let sr = if sm.len() < 64 { -1 } else { unsafe { so::crypto_sign_open(sout.as_mut_ptr(), &mut mlen, sm.as_ptr(), sm.len() as u64, pk.as_ptr()) } };
            (if r.is_ok() != r3.is_ok() { "mismatch open/object".into() } else if r.is_ok() { ok(&out) } else { "err".into() },
             if sr == 0 { ok(&sout[..mlen as usize]) } else { "err".into() })
        }
        _ => return None,
    })
}


#[cfg(feature = "nightly")]
fn refs_pk(sk: &[u8; 32]) -> [u8; 32] {
    let mut pk = [0u8; 32];
    dryoc::classic::crypto_core::crypto_scalarmult_base(&mut pk, sk);
    pk
}
