//! `stream_huge <push|pull> <mlen>`: the secret-stream functions on messages near the 256 GiB limit.
//!
//! No machine here has 2 × 256 GiB of memory, and none is needed: the buffers are virtual ranges whose middle part maps ONE 1 GiB
//! shared memory object again and again (the first page and the last pages are private, so that the tag byte in front and the
//! authenticator at the end are not aliased).  Every read sees the bytes last written through any alias, so a ciphertext made in
//! such a buffer and then left alone is an ordinary byte string of that length as far as the reader is concerned: the authenticator
//! libsodium computes over it is the authenticator of what dryoc reads.
//!
//! push: dryoc's `push` on an all-zero message of `mlen` bytes.                      answer ok / err / panic
//!       (libsodium column: whether `mlen` is within libsodium's `messagebytes_max()`; libsodium is not run)
//! pullforged: an all-zero (forged) ciphertext of `mlen + 17` bytes is pulled by both libraries.   answer err (never ok, never panic)
//! pull: libsodium pushes the message (an honest sender), dryoc's `pull` opens it.    answer ok / err / panic
use crate::Ans;
use dryoc::classic::crypto_secretstream_xchacha20poly1305::*;
use libsodium_sys as so;
use std::panic::{catch_unwind, AssertUnwindSafe};

const WIN: usize = 1 << 30;

struct Alias {
    base: *mut u8,
    total: usize,
    len: usize,
}

impl Alias {
    fn new(len: usize) -> Option<Alias> {
        unsafe {
            let page = libc::sysconf(libc::_SC_PAGESIZE) as usize;
            let total = (len + page - 1) / page * page + page;
            let base = libc::mmap(std::ptr::null_mut(), total, libc::PROT_NONE, libc::MAP_PRIVATE | libc::MAP_ANONYMOUS | libc::MAP_NORESERVE, -1, 0);
            if base == libc::MAP_FAILED {
                return None;
            }
            let base = base as *mut u8;
            let fd = libc::memfd_create(b"verif-alias\0".as_ptr() as *const libc::c_char, 0);
            if fd < 0 || libc::ftruncate(fd, WIN as libc::off_t) != 0 {
                return None;
            }
            // private first page
            let rw = libc::PROT_READ | libc::PROT_WRITE;
            if libc::mmap(base as *mut libc::c_void, page, rw, libc::MAP_PRIVATE | libc::MAP_ANONYMOUS | libc::MAP_FIXED, -1, 0) == libc::MAP_FAILED {
                return None;
            }
            // aliased windows; at least two private pages are kept at the end
            let nwin = total.saturating_sub(3 * page) / WIN;
            for i in 0..nwin {
                if libc::mmap(base.add(page + i * WIN) as *mut libc::c_void, WIN, rw, libc::MAP_SHARED | libc::MAP_FIXED, fd, 0) == libc::MAP_FAILED {
                    return None;
                }
            }
            libc::close(fd);
            let off = page + nwin * WIN;
            if libc::mmap(base.add(off) as *mut libc::c_void, total - off, rw, libc::MAP_PRIVATE | libc::MAP_ANONYMOUS | libc::MAP_FIXED | libc::MAP_NORESERVE, -1, 0)
                == libc::MAP_FAILED
            {
                return None;
            }
            Some(Alias { base, total, len })
        }
    }
    fn slice(&mut self) -> &mut [u8] {
        unsafe { std::slice::from_raw_parts_mut(self.base, self.len) }
    }
}

impl Drop for Alias {
    fn drop(&mut self) {
        unsafe {
            libc::munmap(self.base as *mut libc::c_void, self.total);
        }
    }
}

fn outcome<T>(r: std::thread::Result<Result<T, dryoc::Error>>) -> String {
    match r {
        Ok(Ok(_)) => "ok".into(),
        Ok(Err(_)) => "err".into(),
        Err(_) => "panic".into(),
    }
}

/// `poly1305_huge <len>`: the one-time authenticator of a `len`-byte input (an aliased buffer holding a byte pattern), one-shot and
/// through the streaming state with a 5-byte first piece, against libsodium's over the same bytes
fn poly1305_huge(len: usize) -> Option<Ans> {
    use dryoc::classic::crypto_onetimeauth::*;
    if (len as u128) > (1u128 << 36) {
        return Some(("n/a".into(), "n/a".into()));
    }
    let mut m = match Alias::new(len) {
        Some(m) => m,
        None => return Some(("n/a mmap".into(), "n/a".into())),
    };
    {
        let s = m.slice();
        let n = s.len().min(WIN + 8192);
        for (i, b) in s[..n].iter_mut().enumerate() {
            *b = (i as u32).wrapping_mul(2654435761).to_le_bytes()[3];
        }
        let l = s.len();
        for (i, b) in s[l.saturating_sub(8192)..].iter_mut().enumerate() {
            *b = (i as u8) ^ 0x3c;
        }
    }
    let key = [0x42u8; 32];
    let ms = m.slice() as *mut [u8];
    let r = catch_unwind(AssertUnwindSafe(|| unsafe {
        let mut mac = [0u8; 16];
        crypto_onetimeauth(&mut mac, &*ms, &key);
        let mut st = crypto_onetimeauth_init(&key);
        let cut = 5.min((&*ms).len());
        crypto_onetimeauth_update(&mut st, &(&*ms)[..cut]);
        crypto_onetimeauth_update(&mut st, &(&*ms)[cut..]);
        let mut mac2 = [0u8; 16];
        crypto_onetimeauth_final(st, &mut mac2);
        (mac, mac2)
    }));
    let mut smac = [0u8; 16];
    unsafe { so::crypto_onetimeauth(smac.as_mut_ptr(), m.base, len as u64, key.as_ptr()) };
    let hexs = |b: &[u8]| b.iter().map(|x| format!("{:02x}", x)).collect::<String>();
    let ia = match r {
        Ok((a, b)) => if a == b { format!("ok {}", hexs(&a)) } else { format!("mismatch one-shot {} streaming {}", hexs(&a), hexs(&b)) },
        Err(_) => "panic".into(),
    };
    Some((ia, format!("ok {}", hexs(&smac))))
}

pub fn dispatch(op: &str, a: &[&str]) -> Option<Ans> {
    if op == "poly1305_huge" {
        return poly1305_huge(a[0].parse().ok()?);
    }
    if op != "stream_huge" {
        return None;
    }
    let mlen: usize = a[1].parse().ok()?;
    let key: Key = [0x42u8; 32];
    let na = "n/a".to_string();
    if (mlen as u128) + 17 > (1u128 << 40) {
        return Some(("n/a".into(), na));
    }
    let (mut m, mut c) = match (Alias::new(mlen), Alias::new(mlen + 17)) {
        (Some(m), Some(c)) => (m, c),
        _ => return Some(("n/a mmap".into(), na)),
    };
    match a[0] {
        "push" => {
            let mut st = State::new();
            let mut hdr = Header::default();
            crypto_secretstream_xchacha20poly1305_init_push(&mut st, &mut hdr, &key);
            let (ms, cs) = (m.slice() as *mut [u8], c.slice() as *mut [u8]);
            let r = catch_unwind(AssertUnwindSafe(|| unsafe { crypto_secretstream_xchacha20poly1305_push(&mut st, &mut *cs, &*ms, None, 0) }));
            // libsodium column: its documented limit (crypto_secretstream_xchacha20poly1305_messagebytes_max), not a run
            let lim = unsafe { so::crypto_secretstream_xchacha20poly1305_messagebytes_max() };
            Some((outcome(r), if mlen <= lim { "ok".into() } else { "err".into() }))
        }
        "pull" => {
            let mut ss: so::crypto_secretstream_xchacha20poly1305_state = unsafe { std::mem::zeroed() };
            let mut hdr = [0u8; 24];
            let rc = unsafe {
                so::crypto_secretstream_xchacha20poly1305_init_push(&mut ss, hdr.as_mut_ptr(), key.as_ptr());
                so::crypto_secretstream_xchacha20poly1305_push(&mut ss, c.base, std::ptr::null_mut(), m.base, mlen as u64, std::ptr::null(), 0, 0)
            };
            if rc != 0 {
                // libsodium itself refuses the length: nothing an honest sender could have sent
                return Some(("n/a sender".into(), "err".into()));
            }
            let mut st = State::new();
            crypto_secretstream_xchacha20poly1305_init_pull(&mut st, &hdr, &key);
            let mut tag = 0xEEu8;
            let (ms, cs) = (m.slice() as *mut [u8], c.slice() as *mut [u8]);
            let r = catch_unwind(AssertUnwindSafe(|| unsafe { crypto_secretstream_xchacha20poly1305_pull(&mut st, &mut *ms, &mut tag, &*cs, None) }));
            Some((outcome(r), "ok".into()))
        }
        "pullforged" => {
            // a forged ciphertext of that size (all zero bytes): both libraries must answer with an error, not a panic
            let mut st = State::new();
            let hdr = [7u8; 24];
            crypto_secretstream_xchacha20poly1305_init_pull(&mut st, &hdr, &key);
            let mut tag = 0xEEu8;
            let (ms, cs) = (m.slice() as *mut [u8], c.slice() as *mut [u8]);
            let r = catch_unwind(AssertUnwindSafe(|| unsafe { crypto_secretstream_xchacha20poly1305_pull(&mut st, &mut *ms, &mut tag, &*cs, None) }));
            let mut ss: so::crypto_secretstream_xchacha20poly1305_state = unsafe { std::mem::zeroed() };
            let mut t2 = 0u8;
            let rc = unsafe {
                so::crypto_secretstream_xchacha20poly1305_init_pull(&mut ss, hdr.as_ptr(), key.as_ptr());
                so::crypto_secretstream_xchacha20poly1305_pull(&mut ss, m.base, std::ptr::null_mut(), &mut t2, c.base, (mlen + 17) as u64, std::ptr::null(), 0)
            };
            Some((outcome(r), if rc == 0 { "ok".into() } else { "err".into() }))
        }
        _ => Some(("bad-op".into(), "bad-op".into())),
    }
}
