//! Object API for secret boxes and boxes over several byte containers.
//! `<cont>` ∈ {vec, stack, arr, heap, locked}: container family used for mac/data/keys.
use crate::util::*;
use crate::Ans;
use dryoc::dryocbox::DryocBox;
use dryoc::dryocsecretbox::DryocSecretBox;
use dryoc::types::*;
use zeroize::Zeroize;

fn sb_enc<M, D>(k: &[u8], n: &[u8], m: &[u8]) -> String
where
    M: NewByteArray<16> + Zeroize + Clone,
    D: NewBytes + ResizableBytes + Zeroize + Clone,
    for<'a> M: std::convert::TryFrom<&'a [u8]>,
    for<'a> D: From<&'a [u8]>,
{
    let key: [u8; 32] = arr(k);
    let nonce: [u8; 24] = arr(n);
    let bx: DryocSecretBox<M, D> = DryocSecretBox::encrypt(m, &nonce, &key);
    let v = bx.to_vec();
    let v2: Vec<u8> = bx.to_bytes();
    if v != v2 {
        return "mismatch to_vec/to_bytes".into();
    }
    // from_bytes ∘ to_bytes = id, and the copy still decrypts
    let back: DryocSecretBox<M, D> = match DryocSecretBox::from_bytes(&v) {
        Ok(b) => b,
        Err(_) => return "mismatch from_bytes(to_bytes) failed".into(),
    };
    if back != bx {
        return "mismatch from_bytes(to_bytes) != box".into();
    }
    let dec: Result<Vec<u8>, _> = back.decrypt(&nonce, &key);
    match dec {
        Ok(d) if d == m => {}
        _ => return "mismatch decrypt(encrypt) != msg".into(),
    }
    // into_parts / from_parts
    let (tag, data) = bx.clone().into_parts();
    let again = DryocSecretBox::from_parts(tag, data);
    if again != bx {
        return "mismatch from_parts(into_parts)".into();
    }
    ok(&v)
}

fn sb_dec<M, D>(k: &[u8], n: &[u8], c: &[u8]) -> String
where
    M: ByteArray<16> + Zeroize,
    D: Bytes + Zeroize,
    for<'a> M: std::convert::TryFrom<&'a [u8]>,
    for<'a> D: From<&'a [u8]>,
{
    let key: [u8; 32] = arr(k);
    let nonce: [u8; 24] = arr(n);
    let bx: DryocSecretBox<M, D> = match DryocSecretBox::from_bytes(c) {
        Ok(b) => b,
        Err(_) => return "err".into(),
    };
    let dec: Result<Vec<u8>, _> = bx.decrypt(&nonce, &key);
    match dec {
        Ok(d) => ok(&d),
        Err(_) => "err".into(),
    }
}

fn bx_enc<E, M, D>(pk: &[u8], sk: &[u8], n: &[u8], m: &[u8], precalc: bool) -> String
where
    E: ByteArray<32> + Zeroize + Clone,
    M: NewByteArray<16> + Zeroize + Clone,
    D: NewBytes + ResizableBytes + Zeroize + Clone,
    for<'a> E: std::convert::TryFrom<&'a [u8]>,
    for<'a> M: std::convert::TryFrom<&'a [u8]>,
    for<'a> D: From<&'a [u8]>,
{
    let pk: [u8; 32] = arr(pk);
    let sk: [u8; 32] = arr(sk);
    let nonce: [u8; 24] = arr(n);
    let pre = dryoc::precalc::PrecalcSecretKey::precalculate(&pk, &sk);
    let bx: DryocBox<E, M, D> = if precalc {
        // the same shared key through the key-pair object (KeyPair::precalculate) is another spelling of this form
        let kp = dryoc::keypair::StackKeyPair::from_secret_key(sk.into());
        let pre2 = kp.precalculate(&dryoc::types::StackByteArray::<32>::from(pk));
        let b1: DryocBox<E, M, D> = DryocBox::precalc_encrypt(m, &nonce, &pre).unwrap();
        let b2: DryocBox<E, M, D> = DryocBox::precalc_encrypt(m, &nonce, &pre2).unwrap();
        if b1.to_vec() != b2.to_vec() {
            return "mismatch precalc_encrypt(PrecalcSecretKey::precalculate) != precalc_encrypt(KeyPair::precalculate)".into();
        }
        // … and (nightly) with the precomputed key held in locked / read-only locked memory
        #[cfg(feature = "nightly")]
        {
            use dryoc::precalc::PrecalcSecretKey as PSK;
            let l1 = PSK::precalculate_locked(&pk, &sk).unwrap();
            let l2 = PSK::precalculate_readonly_locked(&pk, &sk).unwrap();
            let b3: DryocBox<E, M, D> = DryocBox::precalc_encrypt(m, &nonce, &l1).unwrap();
            let b4: DryocBox<E, M, D> = DryocBox::precalc_encrypt(m, &nonce, &l2).unwrap();
            if b3.to_vec() != b1.to_vec() || b4.to_vec() != b1.to_vec() {
                return "mismatch precalc_encrypt with a locked / read-only locked precomputed key".into();
            }
            let d4: Result<Vec<u8>, _> = b1.precalc_decrypt(&nonce, &l2);
            if d4.ok().as_deref() != Some(m) { return "mismatch precalc_decrypt with a read-only locked precomputed key".into(); }
        }
        b1
    } else {
        DryocBox::encrypt(m, &nonce, &pk, &sk).unwrap()
    };
    let v = bx.to_vec();
    let v2: Vec<u8> = bx.to_bytes();
    if v != v2 {
        return "mismatch to_vec/to_bytes".into();
    }
    let back: DryocBox<E, M, D> = match DryocBox::from_bytes(&v) {
        Ok(b) => b,
        Err(_) => return "mismatch from_bytes(to_bytes) failed".into(),
    };
    if back != bx {
        return "mismatch from_bytes(to_bytes) != box".into();
    }
    // decrypt with swapped roles is not possible with one key pair; decrypt with (pk, sk) uses the same shared key
    let dec: Result<Vec<u8>, _> = if precalc { back.precalc_decrypt(&nonce, &pre) } else { back.decrypt(&nonce, &pk, &sk) };
    match dec {
        Ok(d) if d == m => {}
        _ => return "mismatch decrypt(encrypt) != msg".into(),
    }
    let (tag, data, epk) = bx.clone().into_parts();
    let again = DryocBox::from_parts(tag, data, epk);
    if again != bx {
        return "mismatch from_parts(into_parts)".into();
    }
    ok(&v)
}

fn bx_dec<E, M, D>(pk: &[u8], sk: &[u8], n: &[u8], c: &[u8], precalc: bool) -> String
where
    E: ByteArray<32> + Zeroize,
    M: ByteArray<16> + Zeroize,
    D: Bytes + Zeroize,
    for<'a> E: std::convert::TryFrom<&'a [u8]>,
    for<'a> M: std::convert::TryFrom<&'a [u8]>,
    for<'a> D: From<&'a [u8]>,
{
    let pk: [u8; 32] = arr(pk);
    let sk: [u8; 32] = arr(sk);
    let nonce: [u8; 24] = arr(n);
    let bx: DryocBox<E, M, D> = match DryocBox::from_bytes(c) {
        Ok(b) => b,
        Err(_) => return "err".into(),
    };
    let dec: Result<Vec<u8>, _> = if precalc {
        let pre = dryoc::precalc::PrecalcSecretKey::precalculate(&pk, &sk);
        bx.precalc_decrypt(&nonce, &pre)
    } else {
        bx.decrypt(&nonce, &pk, &sk)
    };
    match dec {
        Ok(d) => ok(&d),
        Err(_) => "err".into(),
    }
}

fn bx_unseal<E, M, D>(rpk: &[u8], rsk: &[u8], c: &[u8]) -> String
where
    E: ByteArray<32> + Zeroize,
    M: ByteArray<16> + Zeroize,
    D: Bytes + Zeroize,
    for<'a> E: std::convert::TryFrom<&'a [u8]>,
    for<'a> M: std::convert::TryFrom<&'a [u8]>,
    for<'a> D: From<&'a [u8]>,
{
    let kp = match dryoc::dryocbox::KeyPair::from_slices(rpk, rsk) {
        Ok(k) => k,
        Err(_) => return "err".into(),
    };
    let bx: DryocBox<E, M, D> = match DryocBox::from_sealed_bytes(c) {
        Ok(b) => b,
        Err(_) => return "err".into(),
    };
    // the parsed object serialises back to the wire bytes it was made from, byte for byte (whatever the ephemeral key's encoding)
    let wire = bx.to_vec();
    if wire != c {
        return format!("mismatch from_sealed_bytes(x).to_vec() != x at byte {}", wire.iter().zip(c.iter()).position(|(a, b)| a != b).unwrap_or(wire.len().min(c.len())));
    }
    let dec: Result<Vec<u8>, _> = bx.unseal(&kp);
    match dec {
        Ok(d) => ok(&d),
        Err(_) => "err".into(),
    }
}

fn bx_seal<E, M, D>(rpk: &[u8], m: &[u8], esk: &[u8]) -> String
where
    E: NewByteArray<32> + Zeroize,
    M: NewByteArray<16> + Zeroize,
    D: NewBytes + ResizableBytes + Zeroize,
{
    let rpk: [u8; 32] = arr(rpk);
    #[cfg(feature = "hooks")]
    dryoc::rng::verif_hooks::set_entropy(Some(esk.to_vec()));
    let _ = esk;
    let r: Result<DryocBox<E, M, D>, _> = DryocBox::seal(m, &rpk);
    #[cfg(feature = "hooks")]
    dryoc::rng::verif_hooks::set_entropy(None);
    match r {
        Ok(b) => ok(&b.to_vec()),
        Err(_) => "err".into(),
    }
}

type S16 = StackByteArray<16>;
type S32 = StackByteArray<32>;

pub fn dispatch(op: &str, a: &[&str], _b: &[Vec<u8>]) -> Option<Ans> {
    let cont = *a.first()?;
    let b: Vec<Vec<u8>> = a[1..].iter().map(|s| unhex_lenient(s)).collect();
    macro_rules! by_cont {
        ($f:ident, $($args:expr),*) => {
            match cont {
                "vec" => $f::<Vec<u8>, Vec<u8>>($($args),*),
                "stack" => $f::<S16, Vec<u8>>($($args),*),
                #[cfg(feature = "nightly")]
                "heap" => $f::<dryoc::protected::HeapByteArray<16>, dryoc::protected::HeapBytes>($($args),*),
                _ => return Some(("n/a".into(), "n/a".into())),
            }
        };
    }
    macro_rules! by_cont3 {
        ($f:ident, $($args:expr),*) => {
            match cont {
                "vec" => $f::<Vec<u8>, Vec<u8>, Vec<u8>>($($args),*),
                "stack" => $f::<S32, S16, Vec<u8>>($($args),*),
                #[cfg(feature = "nightly")]
                "heap" => $f::<dryoc::protected::HeapByteArray<32>, dryoc::protected::HeapByteArray<16>, dryoc::protected::HeapBytes>($($args),*),
                _ => return Some(("n/a".into(), "n/a".into())),
            }
        };
    }
    let r = match op {
        // sbobj_encrypt <cont> key nonce msg
        "sbobj_encrypt" => by_cont!(sb_enc, &b[0], &b[1], &b[2]),
        // sbobj_decrypt <cont> key nonce bytes
        "sbobj_decrypt" => by_cont!(sb_dec, &b[0], &b[1], &b[2]),
        // the Vec-box convenience forms and the borrowed-data constructors: same bytes as the generic forms
        "boxobj_vecforms" => {
            let (pk, sk, nonce): ([u8; 32], [u8; 32], [u8; 24]) = (arr(&b[0]), arr(&b[1]), arr(&b[2]));
            let m = &b[3];
            use dryoc::dryocbox::{VecBox, Mac, PublicKey as BPk, Nonce as BNonce};
            let (bpk, bn): (BPk, BNonce) = (pk.into(), nonce.into());
            let pre = dryoc::precalc::PrecalcSecretKey::precalculate(&pk, &sk);
            let b1 = VecBox::encrypt_to_vecbox(m, &bn, &bpk, &sk).unwrap();
            let b2 = VecBox::precalc_encrypt_to_vecbox(m, &bn, &pre).unwrap();
            if b1.to_vec() != b2.to_vec() { return Some(("mismatch encrypt_to_vecbox != precalc_encrypt_to_vecbox".into(), "n/a".into())); }
            let d1 = b1.decrypt_to_vec(&bn, &bpk, &sk);
            let d2 = b1.precalc_decrypt_to_vec(&bn, &pre);
            if d1.as_ref().ok() != Some(m) || d2.as_ref().ok() != Some(m) { return Some(("mismatch *_decrypt_to_vec".into(), "n/a".into())); }
            // rebuild the box from borrowed parts
            let wire = b1.to_vec();
            let tag: Mac = Mac::try_from(&wire[..16]).unwrap();
            let b3: VecBox = DryocBox::new_with_data_and_mac(tag.clone(), &wire[16..]);
            if b3.to_vec() != wire || b3.decrypt_to_vec(&bn, &bpk, &sk).ok().as_ref() != Some(m) { return Some(("mismatch new_with_data_and_mac".into(), "n/a".into())); }
            let b4: VecBox = DryocBox::new_with_epk_data_and_mac(bpk.clone(), tag, &wire[16..]);
            let w4 = b4.to_vec();
            if w4.len() != wire.len() + 32 || w4[..32] != pk[..] || w4[32..] != wire[..] { return Some(("mismatch new_with_epk_data_and_mac layout".into(), "n/a".into())); }
            ok(&wire)
        }
        "sbobj_vecforms" => {
            let key: [u8; 32] = arr(&b[0]);
            let nonce: [u8; 24] = arr(&b[1]);
            use dryoc::dryocsecretbox::{VecBox, Mac};
            let bx = VecBox::encrypt_to_vecbox(&b[2], &nonce, &key);
            let wire = bx.to_vec();
            let tag: Mac = Mac::try_from(&wire[..16]).unwrap();
            let b2: VecBox = DryocSecretBox::with_data_and_mac(tag, &wire[16..]);
            if b2.to_vec() != wire || b2.decrypt_to_vec(&nonce, &key).ok().as_ref() != Some(&b[2]) { return Some(("mismatch with_data_and_mac".into(), "n/a".into())); }
            let b3: VecBox = DryocSecretBox::with_data(&wire[16..]);
            let w3 = b3.to_vec();
            if w3.len() != wire.len() || w3[..16] != [0u8; 16] || w3[16..] != wire[16..] { return Some(("mismatch with_data (zero tag + data)".into(), "n/a".into())); }
            ok(&wire)
        }
        "sbobj_into_vec" => {
            let key: [u8; 32] = arr(&b[0]);
            let nonce: [u8; 24] = arr(&b[1]);
            let bx = dryoc::dryocsecretbox::VecBox::encrypt_to_vecbox(&b[2], &nonce, &key);
            let v = bx.to_vec();
            // into_vec on boxes whose payload Vec has spare capacity (as left by a decoder or a caller's with_capacity)
            for extra in [0usize, 1, 15, 16, 17, 64] {
                let (tag, data) = bx.clone().into_parts();
                let mut d2: Vec<u8> = Vec::with_capacity(data.len() + extra);
                d2.extend_from_slice(&data);
                let b2 = dryoc::dryocsecretbox::VecBox::from_parts(tag, d2);
                if b2.into_vec() != v {
                    return Some((format!("mismatch into_vec(spare capacity {})/to_vec", extra), "n/a".into()));
                }
            }
            let w = bx.into_vec();
            if v != w { "mismatch into_vec/to_vec".to_string() } else { ok(&w) }
        }
        // boxobj_encrypt <cont> pk sk nonce msg
        "boxobj_encrypt" => by_cont3!(bx_enc, &b[0], &b[1], &b[2], &b[3], false),
        "boxobj_precalc_encrypt" => by_cont3!(bx_enc, &b[0], &b[1], &b[2], &b[3], true),
        "boxobj_decrypt" => by_cont3!(bx_dec, &b[0], &b[1], &b[2], &b[3], false),
        "boxobj_precalc_decrypt" => by_cont3!(bx_dec, &b[0], &b[1], &b[2], &b[3], true),
        // boxobj_seal <cont> rpk msg esk : DryocBox::seal over containers, ephemeral key fixed by the entropy hook
        "boxobj_seal" => by_cont3!(bx_seal, &b[0], &b[1], &b[2]),
        // boxobj_unseal <cont> rpk rsk bytes
        "boxobj_unseal" => by_cont3!(bx_unseal, &b[0], &b[1], &b[2]),
        // boxobj_frombytes_unseal x <rpk> <rsk> <bytes>: the parser for ORDINARY boxes (`from_bytes`: tag ‖ data, no ephemeral key)
        // followed by the opener for SEALED boxes — an Err ("ephemeral public key is missing"), for every length, never a panic
        "boxobj_frombytes_unseal" => {
            let (pk, sk): ([u8; 32], [u8; 32]) = (arr(&b[0]), arr(&b[1]));
            let kp = dryoc::dryocbox::KeyPair::from_slices(&pk, &sk).unwrap();
            let r = std::panic::catch_unwind(std::panic::AssertUnwindSafe(|| -> String {
                match dryoc::dryocbox::VecBox::from_bytes(&b[2]) {
                    Err(_) => "err".into(),
                    Ok(bx) => match bx.unseal_to_vec(&kp) { Ok(m) => ok(&m), Err(_) => "err".into() },
                }
            }));
            r.unwrap_or_else(|_| "panic".into())
        }
        _ => return None,
    };
    Some((r, "n/a".into()))
}
