//! C11: every randomised entry point.  `rand <entry> <count>` calls it <count> times on the OS generator and
//! reports the random components; `randh <entry> <entropy>` runs it once on the hooked entropy source and
//! reports the component together with the sizes of the draws.
use crate::util::*;
use crate::Ans;
use dryoc::types::*;

fn one(entry: &str) -> Option<Vec<u8>> {
    use dryoc::classic::*;
    Some(match entry {
        "randombytes_buf" => dryoc::rng::randombytes_buf(32),
        "copy_randombytes" => {
            let mut b = [0u8; 24];
            dryoc::rng::copy_randombytes(&mut b);
            b.to_vec()
        }
        "copy_randombytes17" => { let mut b = [0u8; 17]; dryoc::rng::copy_randombytes(&mut b); b.to_vec() }
        "copy_randombytes37" => { let mut b = [0u8; 37]; dryoc::rng::copy_randombytes(&mut b); b.to_vec() }
        "randombytes_buf21" => dryoc::rng::randombytes_buf(21),
        "stack_gen37" => StackByteArray::<37>::gen().to_vec(),
        "array_gen20" => <[u8; 20] as NewByteArray<20>>::gen().to_vec(),
        "vec_gen33" => <Vec<u8> as NewByteArray<33>>::gen(),
        "pwhash_hash_salt32" | "pwhash_hash_salt21" | "pwhash_hash_salt64" => {
            let n: usize = entry[16..].parse().unwrap();
            let h: dryoc::pwhash::VecPwHash = dryoc::pwhash::PwHash::hash(&b"pw".to_vec(), dryoc::pwhash::Config::interactive().with_opslimit(1).with_memlimit(8192).with_salt_length(n)).unwrap();
            let (_h, salt, _c) = h.into_parts();
            salt
        }
        "secretbox_keygen" => crypto_secretbox::crypto_secretbox_keygen().to_vec(),
        "secretbox_keygen_inplace" => {
            let mut k = [0u8; 32];
            crypto_secretbox::crypto_secretbox_keygen_inplace(&mut k);
            k.to_vec()
        }
        "box_keypair" => {
            let (pk, sk) = crypto_box::crypto_box_keypair();
            [sk.to_vec(), pk.to_vec()].concat()
        }
        "box_keypair_inplace" => {
            let (mut pk, mut sk) = ([0u8; 32], [0u8; 32]);
            crypto_box::crypto_box_keypair_inplace(&mut pk, &mut sk);
            [sk.to_vec(), pk.to_vec()].concat()
        }
        "kx_keypair" => {
            let (pk, sk) = crypto_kx::crypto_kx_keypair();
            [sk.to_vec(), pk.to_vec()].concat()
        }
        "kdf_keygen" => crypto_kdf::crypto_kdf_keygen().to_vec(),
        "auth_keygen" => crypto_auth::crypto_auth_keygen().to_vec(),
        "onetimeauth_keygen" => crypto_onetimeauth::crypto_onetimeauth_keygen().to_vec(),
        "shorthash_keygen" => crypto_shorthash::crypto_shorthash_keygen().to_vec(),
        "generichash_keygen" => crypto_generichash::crypto_generichash_keygen().to_vec(),
        "sign_keypair" => {
            let (pk, sk) = crypto_sign::crypto_sign_keypair();
            [sk[..32].to_vec(), pk.to_vec()].concat()
        }
        "sign_keypair_inplace" => {
            let (mut pk, mut sk) = ([0u8; 32], [0u8; 64]);
            crypto_sign::crypto_sign_keypair_inplace(&mut pk, &mut sk);
            [sk[..32].to_vec(), pk.to_vec()].concat()
        }
        "secretstream_keygen" => {
            let mut k = [0u8; 32];
            crypto_secretstream_xchacha20poly1305::crypto_secretstream_xchacha20poly1305_keygen(&mut k);
            k.to_vec()
        }
        "secretstream_init_push" => {
            let mut st = crypto_secretstream_xchacha20poly1305::State::new();
            let mut h = [0u8; 24];
            crypto_secretstream_xchacha20poly1305::crypto_secretstream_xchacha20poly1305_init_push(&mut st, &mut h, &[7u8; 32]);
            h.to_vec()
        }
        "box_seal" => {
            let mut c = vec![0u8; 48 + 3];
            crypto_box::crypto_box_seal(&mut c, b"abc", &[9u8; 32]).unwrap();
            c[..32].to_vec()
        }
        // a sealed box written into a LONGER output buffer (a fixed-size frame): the ephemeral key is still at the head
        "box_seal_oversize" => {
            let mut c = vec![0u8; 48 + 3 + 40];
            crypto_box::crypto_box_seal(&mut c, b"abc", &[9u8; 32]).unwrap();
            c[..32].to_vec()
        }
        "pwhash_str" => {
            let s = crypto_pwhash::crypto_pwhash_str(b"pw", 1, 8192).unwrap();
            s.split('$').nth(4).unwrap().as_bytes().to_vec()
        }
        // object API
        "stack_gen32" => StackByteArray::<32>::gen().to_vec(),
        "stack_gen24" => StackByteArray::<24>::gen().to_vec(),
        "array_gen32" => <[u8; 32] as NewByteArray<32>>::gen().to_vec(),
        "vec_gen32" => <Vec<u8> as NewByteArray<32>>::gen(),
        "vec_gen8" => <Vec<u8> as NewByteArray<8>>::gen(),
        "stack_gen8" => StackByteArray::<8>::gen().to_vec(),
        "stack_gen5" => StackByteArray::<5>::gen().to_vec(),
        "array_gen7" => <[u8; 7] as NewByteArray<7>>::gen().to_vec(),
        "array_gen257" => <[u8; 257] as NewByteArray<257>>::gen().to_vec(),
        "array_gen1000" => <[u8; 1000] as NewByteArray<1000>>::gen().to_vec(),
        "stack_gen300" => StackByteArray::<300>::gen().to_vec(),
        "vec_gen513" => <Vec<u8> as NewByteArray<513>>::gen(),
        "keypair_gen" => {
            let k = dryoc::keypair::StackKeyPair::gen();
            [k.secret_key.to_vec(), k.public_key.to_vec()].concat()
        }
        "keypair_gen_with_defaults" => {
            let k = dryoc::keypair::StackKeyPair::gen_with_defaults();
            [k.secret_key.to_vec(), k.public_key.to_vec()].concat()
        }
        "signing_keypair_gen" => {
            let k = dryoc::sign::SigningKeyPair::<dryoc::sign::PublicKey, dryoc::sign::SecretKey>::gen();
            [k.secret_key[..32].to_vec(), k.public_key.to_vec()].concat()
        }
        "signing_keypair_gen_with_defaults" => {
            let k = dryoc::sign::SigningKeyPair::gen_with_defaults();
            [k.secret_key[..32].to_vec(), k.public_key.to_vec()].concat()
        }
        "kdf_gen" => {
            let k = dryoc::kdf::StackKdf::gen();
            let (key, ctx) = k.into_parts();
            [key.to_vec(), ctx.to_vec()].concat()
        }
        "kdf_gen_with_defaults" => {
            let k = dryoc::kdf::StackKdf::gen_with_defaults();
            let (key, ctx) = k.into_parts();
            [key.to_vec(), ctx.to_vec()].concat()
        }
        "dryocbox_seal" => {
            let b = dryoc::dryocbox::DryocBox::seal_to_vecbox(b"abc", &dryoc::dryocbox::PublicKey::from([9u8; 32])).unwrap();
            b.to_vec()[..32].to_vec()
        }
        "dryocstream_init_push" => {
            let (_s, h): (_, dryoc::dryocstream::Header) = dryoc::dryocstream::DryocStream::init_push(&dryoc::dryocstream::Key::from([7u8; 32]));
            h.to_vec()
        }
        "pwhash_hash" => {
            let h: dryoc::pwhash::VecPwHash = dryoc::pwhash::PwHash::hash(&b"pw".to_vec(), dryoc::pwhash::Config::interactive().with_opslimit(1).with_memlimit(8192)).unwrap();
            let (_h, salt, _c) = h.into_parts();
            salt
        }
        "secretbox_nonce_gen" => dryoc::dryocsecretbox::Nonce::gen().to_vec(),
        "secretbox_key_gen" => dryoc::dryocsecretbox::Key::gen().to_vec(),
        "box_nonce_gen" => dryoc::dryocbox::Nonce::gen().to_vec(),
        "auth_key_gen" => dryoc::auth::Key::gen().to_vec(),
        "onetimeauth_key_gen" => dryoc::onetimeauth::Key::gen().to_vec(),
        "generichash_key_gen" => dryoc::generichash::Key::gen().to_vec(),
        "stream_key_gen" => dryoc::dryocstream::Key::gen().to_vec(),
        "kx_keypair_gen" => {
            let k = dryoc::kx::KeyPair::gen();
            [k.secret_key.to_vec(), k.public_key.to_vec()].concat()
        }
        #[cfg(feature = "nightly")]
        "heap_gen32" => dryoc::protected::HeapByteArray::<32>::gen().to_vec(),
        #[cfg(feature = "nightly")]
        "locked_gen32" => {
            use dryoc::protected::*;
            let k = HeapByteArray::<32>::gen_locked().unwrap();
            k.to_vec()
        }
        #[cfg(feature = "nightly")]
        "lockedro_gen32" => {
            use dryoc::protected::*;
            let k = HeapByteArray::<32>::gen_readonly_locked().unwrap();
            k.to_vec()
        }
        #[cfg(feature = "nightly")]
        "locked_trait_gen32" => {
            use dryoc::protected::*;
            let k = <Locked<HeapByteArray<32>> as NewByteArray<32>>::gen();
            k.to_vec()
        }
        #[cfg(feature = "nightly")]
        "heapbytes_gen_locked33" => {
            use dryoc::protected::*;
            let mut k = HeapBytes::new_locked().unwrap();
            k.resize(33, 0);
            dryoc::rng::copy_randombytes(k.as_mut_slice());
            k.to_vec()
        }
        #[cfg(feature = "nightly")]
        "locked_kdf_gen" => {
            let k = dryoc::kdf::protected::LockedKdf::gen();
            let (key, ctx) = k.into_parts();
            [key.to_vec(), ctx.to_vec()].concat()
        }
        #[cfg(feature = "nightly")]
        "lockedro_keypair_gen" => {
            let k = dryoc::keypair::KeyPair::gen_readonly_locked_keypair().unwrap();
            [k.secret_key.to_vec(), k.public_key.to_vec()].concat()
        }
        #[cfg(feature = "nightly")]
        "sign_locked_keypair_gen" => {
            let k = dryoc::sign::SigningKeyPair::gen_locked_keypair().unwrap();
            [k.secret_key.to_vec(), k.public_key.to_vec()].concat()
        }
        #[cfg(feature = "nightly")]
        "sign_lockedro_keypair_gen" => {
            let k = dryoc::sign::SigningKeyPair::gen_readonly_locked_keypair().unwrap();
            [k.secret_key.to_vec(), k.public_key.to_vec()].concat()
        }
        #[cfg(feature = "nightly")]
        "locked_secretbox_key_gen" => dryoc::dryocsecretbox::protected::Locked::<dryoc::dryocsecretbox::protected::Key>::gen().to_vec(),
        #[cfg(feature = "nightly")]
        "locked_keypair_gen" => {
            let k = dryoc::keypair::KeyPair::gen_locked_keypair().unwrap();
            [k.secret_key.to_vec(), k.public_key.to_vec()].concat()
        }
        _ => return None,
    })
}

pub fn dispatch(op: &str, a: &[&str]) -> Option<Ans> {
    match op {
        "rand" => {
            let n: usize = a[1].parse().unwrap();
            let mut vals = vec![];
            for _ in 0..n {
                match one(a[0]) {
                    Some(v) => vals.push(hex(&v)),
                    None => return Some(("n/a".into(), "n/a".into())),
                }
            }
            Some((format!("ok {}", vals.join(",")), "n/a".into()))
        }
        "randh" => {
            #[cfg(feature = "hooks")]
            {
                dryoc::rng::verif_hooks::set_entropy(Some(unhex(a[1])));
                let v = one(a[0]);
                let d = dryoc::rng::verif_hooks::draws();
                dryoc::rng::verif_hooks::set_entropy(None);
                match v {
                    Some(v) => Some((format!("ok {} draws={}", hex(&v), d.iter().map(|x| x.to_string()).collect::<Vec<_>>().join("+")), "n/a".into())),
                    None => Some(("n/a".into(), "n/a".into())),
                }
            }
            #[cfg(not(feature = "hooks"))]
            Some(("n/a".into(), "n/a".into()))
        }
        _ => None,
    }
}
