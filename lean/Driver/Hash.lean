import Driver.Common
import DryocVerif.Spec.Poly1305
import DryocVerif.Spec.Blake2b
import DryocVerif.Spec.Sha512
import DryocVerif.Spec.Hmac
import DryocVerif.Spec.SipHash
import DryocVerif.Spec.Salsa20
import DryocVerif.Spec.ChaCha20
import DryocVerif.Model.Poly1305
import DryocVerif.Model.OnetimeAuth
import DryocVerif.Model.Utils
import DryocVerif.Model.Blake2b
import DryocVerif.Model.SecretBox
import DryocVerif.Model.SecretStream
import DryocVerif.Model.Core
open DryocVerif
namespace Driver.Hash

/-- generichash argument check of the spec side: libsodium's documented ranges -/
def ghSpec (outlen : Nat) (key msg : Bytes) : String :=
  if outlen < 16 ∨ 64 < outlen then "err"
  else if !key.isEmpty ∧ (key.length < 16 ∨ 64 < key.length) then "err"
  else okHex (Spec.Blake2b.hash outlen key msg)

/-- `-` (empty) in the line protocol = `None` -/
def ghKey (k : Bytes) : Option Bytes := if k.isEmpty then none else some k

/-- model side of the incremental generichash: init, update each chunk, final -/
def ghModelInc (outlen : Nat) (key : Bytes) (cs : List Bytes) : String :=
  match Model.Blake2b.generichashInit (ghKey key) outlen none none with
  | .ok st => outBytes (Model.Blake2b.generichashFinal (cs.foldl Model.Blake2b.generichashUpdate st) outlen)
  | .err => "err"
  | .panic => "panic"

/-- the 16-byte constant of the line protocol as the `Option<(u32, u32, u32, u32)>` argument of
`crypto_core_hsalsa20`: the four words `load_u32_le(&c[4 * i..4 * i + 4])` -/
def coreConst (c : Bytes) : Option (UInt32 × UInt32 × UInt32 × UInt32) :=
  let w (i : Nat) := Model.Core.loadU32LE (Model.Utils.slice c (4 * i) (4 * i + 4))
  some (w 0, w 1, w 2, w 3)

/-- model side of `crypto_auth_verify` -/
def authVerifyModel (k m t : Bytes) : String :=
  match Model.Core.hmacVerify Spec.Sha512.sha512 t m k with
  | .ok () => "ok"
  | .err => "err"
  | .panic => "panic"

/-- the constants the models are written against (compared with `dryoc::constants` as built, on every run) -/
def modelConstants : List (String × Nat) := [
  ("SECRETBOX_MACBYTES", Model.SecretBox.MACBYTES), ("SECRETBOX_KEYBYTES", 32), ("SECRETBOX_NONCEBYTES", 24),
  ("BOX_MACBYTES", Model.SecretBox.MACBYTES), ("BOX_SEALBYTES", Model.SecretBox.SEALBYTES), ("BOX_PUBLICKEYBYTES", 32),
  ("SECRETSTREAM_ABYTES", Model.SecretStream.ABYTES), ("SECRETSTREAM_HEADERBYTES", 24), ("SECRETSTREAM_TAG_MESSAGE", 0),
  ("SECRETSTREAM_TAG_PUSH", 1), ("SECRETSTREAM_TAG_REKEY", Model.SecretStream.TAG_REKEY), ("SECRETSTREAM_COUNTERBYTES", 4),
  ("SECRETSTREAM_INONCEBYTES", 8), ("KDF_BYTES_MIN", 16), ("KDF_BYTES_MAX", 64), ("KDF_CONTEXTBYTES", 8), ("KDF_KEYBYTES", 32),
  ("GENERICHASH_BYTES_MIN", 16), ("GENERICHASH_BYTES_MAX", 64), ("GENERICHASH_KEYBYTES_MIN", 16), ("GENERICHASH_KEYBYTES_MAX", 64),
  ("PWHASH_SALTBYTES", 16), ("PWHASH_OPSLIMIT_MIN", 1), ("PWHASH_OPSLIMIT_MAX", 4294967295), ("PWHASH_MEMLIMIT_MIN", 8192),
  ("PWHASH_MEMLIMIT_MAX", 4398046510080), ("PWHASH_BYTES_MIN", 16), ("SIGN_BYTES", 64), ("SIGN_SEEDBYTES", 32),
  ("KX_SESSIONKEYBYTES", 32), ("ONETIMEAUTH_BYTES", 16), ("AUTH_BYTES", 32), ("SHORTHASH_BYTES", 8), ("SHORTHASH_KEYBYTES", 16),
  ("BOX_SEEDBYTES", 32)]

def handle (op : String) (args : List String) : Option Ans :=
  if op == "constants" then
    some ("ok " ++ ",".intercalate (modelConstants.map fun (n, v) => n ++ "=" ++ toString v), "n/a")
  else
  match op, hexArgs args with
  | "poly1305", some [k, m] =>
      some (okHex (Model.Poly1305.mac k m), okHex (Spec.Poly1305.mac k m))
  | "poly1305_inc", some (k :: cs) =>
      some (okHex (Model.Poly1305.macChunks k cs), okHex (Spec.Poly1305.mac k cs.flatten))
  | "poly1305_obj", some (k :: cs) =>
      some (okHex (Model.Poly1305.macChunks k cs), okHex (Spec.Poly1305.mac k cs.flatten))
  | "poly1305_verify", some [k, m, t] =>
      -- model column: `crypto_onetimeauth_verify` as modelled (compute, then `subtle`'s `ct_eq`);
      -- `Proofs.OnetimeAuth.onetimeauthVerify_eq`: = `if t = Model.Poly1305.mac k m then ok else err`
      some ((match Model.OnetimeAuth.onetimeauthVerify k m t with | .ok () => "ok" | .err => "err" | .panic => "panic"),
            (if t = Spec.Poly1305.mac k m then "ok" else "err"))
  | "poly1305_objverify", some (k :: t :: cs) =>
      some ((match Model.OnetimeAuth.objectVerifyChunks k cs t with | .ok () => "ok" | .err => "err" | .panic => "panic"), "n/a")
  | "increment", some [b] =>
      some (okHex (Model.Utils.incrementBytes b), okHex (toLE b.length (le b + 1)))
  | "auth", some [k, m] =>
      some (outBytes (Model.Core.hmac Spec.Sha512.sha512 k m), okHex (Spec.Hmac.hmacSha512256 k m))
  | "auth_inc", some (k :: cs) =>
      some (outBytes (Model.Core.hmacChunks Spec.Sha512.sha512 k cs), okHex (Spec.Hmac.hmacSha512256 k cs.flatten))
  | "auth_obj", some (k :: cs) =>
      some (outBytes (Model.Core.hmacChunks Spec.Sha512.sha512 k cs), okHex (Spec.Hmac.hmacSha512256 k cs.flatten))
  | "auth_verify", some [k, m, t] =>
      some (authVerifyModel k m t, if t = Spec.Hmac.hmacSha512256 k m then "ok" else "err")
  | "sha512", some [m] => some ("n/a", okHex (Spec.Sha512.sha512 m))
  | "sha512_inc", some cs => some ("n/a", okHex (Spec.Sha512.sha512 cs.flatten))
  | "sha512_obj", some cs => some ("n/a", okHex (Spec.Sha512.sha512 cs.flatten))
  | "shorthash", some [k, m] => some (okHex (Model.Core.siphash24 k m), okHex (Spec.SipHash.siphash24 k m))
  | "hsalsa20", some [k, i] => some (okHex (Model.Core.hsalsa20 k i none), okHex (Spec.Salsa20.hsalsa20 k i))
  | "hsalsa20", some [k, i, c] =>
      some (okHex (Model.Core.hsalsa20 k i (coreConst c)), okHex (Spec.Salsa20.hsalsa20 k i c))
  | "hchacha20", some [k, i] => some (okHex (Model.Core.hchacha20 k i none), okHex (Spec.ChaCha20.hchacha20 k i))
  | _, _ =>
    match op, args with
    | "generichash", n :: rest =>
      match n.toNat?, hexArgs rest with
      | some n, some [k, m] => some (outBytes (Model.Blake2b.generichash n m (ghKey k)), ghSpec n k m)
      | _, _ => none
    | "generichash_inc", n :: rest =>
      match n.toNat?, hexArgs rest with
      | some n, some (k :: cs) => some (ghModelInc n k cs, ghSpec n k cs.flatten)
      | _, _ => none
    | "generichash_emptykey", n :: rest =>
      -- a key that is present but empty: `some []` handed to the model's one-shot and incremental functions
      match n.toNat?, hexArgs rest with
      | some n, some cs =>
        let one := outBytes (Model.Blake2b.generichash n cs.flatten (some []))
        let inc := match Model.Blake2b.generichashInit (some []) n none none with
          | .ok st => outBytes (Model.Blake2b.generichashFinal (cs.foldl Model.Blake2b.generichashUpdate st) n)
          | .err => "err"
          | .panic => "panic"
        some ((if one == inc then one else "mismatch model one-shot " ++ one ++ " incremental " ++ inc), "n/a")
      | _, _ => none
    | "generichash_obj", n :: rest =>
      match n.toNat?, hexArgs rest with
      | some n, some (k :: cs) => some (ghModelInc n k cs, ghSpec n k cs.flatten)
      | _, _ => none
    | _, _ => none

end Driver.Hash
