import Driver.Common
import DryocVerif.Model.Entropy
import DryocVerif.Model.EntropyInst
import DryocVerif.Spec.X25519
import DryocVerif.Spec.Ed25519
import DryocVerif.Spec.Base64
open DryocVerif
namespace Driver.Rand
open DryocVerif.Model.Entropy

/-- the same three functions as before, now named in the library
(`Model.Entropy.specDerivers`) so that theorems can mention them -/
def derivers : Derivers := specDerivers

def handle (op : String) (args : List String) : Option Ans :=
  match op, args with
  | "randh", [entry, ent] =>
    match table.lookup entry, ofHex ent with
    | some k, some src =>
      let r := run derivers k src
      some ("ok " ++ hexOrDash r.comp ++ " draws=" ++ "+".intercalate (r.draws.map toString), "n/a")
    | _, _ => some ("n/a", "n/a")
  | "rand", _ => some ("n/a", "n/a")
  | _, _ => none

end Driver.Rand
