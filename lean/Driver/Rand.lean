import Driver.Common
import DryocVerif.Model.Entropy
import DryocVerif.Spec.X25519
import DryocVerif.Spec.Ed25519
import DryocVerif.Spec.Base64
open DryocVerif
namespace Driver.Rand
open DryocVerif.Model.Entropy

def derivers : Derivers where
  x25519Base := Spec.X25519.x25519Base
  edPublic := Spec.Ed25519.publicKey
  b64 := fun b => (Spec.Base64.encodeChars b).map (fun c => UInt8.ofNat c.toNat)

def handle (op : String) (args : List String) : Option Ans :=
  match op, args with
  | "randh", [entry, ent] =>
    match table.lookup entry, ofHex ent with
    | some k, some src =>
      let r := run derivers k src
      some ("ok " ++ hexOrDash r.comp ++ " draws=" ++ "+".intercalate (r.draws.map toString), "n/a")
    | _, _ => some ("n/a", "n/a")
  | "rand", _ => some ("n/a", "n/a")
  | _, _ => none

end Driver.Rand
