import Driver.Common
import DryocVerif.Model.Protected
open DryocVerif
namespace Driver.Prot

/-- `prot <bytes|arr> <len> tok…` → (model answer, "n/a") -/
def handle (op : String) (args : List String) : Option Ans :=
  match op, args with
  | "prot", kind :: len :: toks => some (Model.Protected.answer kind len toks, "n/a")
  | "prot", _ => some ("bad", "n/a")
  | _, _ => none

end Driver.Prot
