import Driver.Common
import DryocVerif.Model.Protected
open DryocVerif
namespace Driver.Prot

/-- `prot <bytes|arr> <len> tok…` → (model answer, "n/a").
Tokens (parsed by `Model.Protected.parseTok`, same spellings as `ops_prot.rs`): `new lock unlock ro rw na clone
resize:N[:HH] fill:HH drop wprobe:OFF rprobe:OFF gprobe:fore|aft fsl:N fsro:N newlocked genlocked newrolocked
genrolocked failfrom:K wrap`, and `zeroize` (the real `Zeroize::zeroize`, in every type state), `clonefrom:J`
(`slots[@i].clone_from(&slots[J])`), `panicdrop`, `stacklock`, `serde:json:N`, `serde:bincode:N`; each `@i`. -/
def handle (op : String) (args : List String) : Option Ans :=
  match op, args with
  | "prot", kind :: len :: toks => some (Model.Protected.answer kind len toks, "n/a")
  | "prot", _ => some ("bad", "n/a")
  | _, _ => none

end Driver.Prot
