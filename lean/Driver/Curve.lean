import Driver.Common
import DryocVerif.Spec.X25519
import DryocVerif.Spec.Ed25519
import DryocVerif.Spec.Sha512
import DryocVerif.Spec.Blake2b
import DryocVerif.Spec.Salsa20
import DryocVerif.Model.Curve
import DryocVerif.Model.CurveInst
import DryocVerif.Model.Sign
import DryocVerif.Model.ObjectView
open DryocVerif
namespace Driver.Curve

/-- Montgomery ladder on an *unclamped-as-given* scalar: the RFC ladder applied to `le k`
(defined in `Model/CurveInst.lean` so that the C05/C12/C13 theorems can mention it) -/
abbrev rawLadder := Model.Curve.rawLadder

/-- the instantiation the theorems of C05/C12/C13 are about -/
abbrev prims : Model.Curve.Prims := Model.Curve.specPrims

def H := Spec.Sha512.sha512

def pair (p : Bytes × Bytes) : String := "ok " ++ hexOrDash p.1 ++ " " ++ hexOrDash p.2

def outPair : Outcome (Bytes × Bytes) → String
  | .ok p => pair p
  | .err => "err"
  | .panic => "panic"

def specKx (q cpk spk : Bytes) : Bytes × Bytes :=
  let keys := Spec.Blake2b.hash 64 [] (q ++ cpk ++ spk)
  (keys.take 32, keys.drop 32)

def handle (op : String) (args : List String) : Option Ans :=
  let P := prims
  match op, hexArgs args with
  | "scalarmult", some [n, p] =>
      some (okHex (Model.Curve.scalarmult P n p), okHex (Spec.X25519.x25519 n p))
  | "scalarmult_base", some [n] =>
      some (okHex (Model.Curve.scalarmultBase P n), okHex (Spec.X25519.x25519Base n))
  | "precalc", some [pk, sk] =>
      some (okHex (Model.Curve.beforenm P pk sk), okHex (Spec.Salsa20.hsalsa20 (Spec.X25519.x25519 sk pk) (zeros 16)))
  | "kx_client", some [cpk, csk, spk] =>
      let q := Spec.X25519.x25519 csk spk
      some (outPair (Model.Curve.kxClient P cpk csk spk),
            if q = zeros 32 then "err" else pair (specKx q cpk spk))
  | "kx_server", some [spk, ssk, cpk] =>
      let q := Spec.X25519.x25519 ssk cpk
      some (outPair (Model.Curve.kxServer P spk ssk cpk),
            if q = zeros 32 then "err" else let (a, b) := specKx q cpk spk; pair (b, a))
  | "kx_seed_keypair", some [seed] =>
      let sk := Spec.Blake2b.hash 32 [] seed
      some (pair (Model.Curve.kxSeedKeypair P seed), pair (Spec.X25519.x25519Base sk, sk))
  | "box_seed_keypair", some [seed] =>
      let sk := (Spec.Sha512.sha512 seed).take 32
      some (pair (Model.Curve.boxSeedKeypair P seed), pair (Spec.X25519.x25519Base sk, sk))
  | "sign_seed_keypair", some [seed] =>
      let pk := Spec.Ed25519.publicKey seed
      some (pair (Model.Sign.seedKeypair H seed), pair (pk, seed ++ pk))
  | "ed_to_curve", some [pk, sk] =>
      let m := match Model.Sign.pkToCurve pk with
        | .ok x =>
          let xsk := Model.Sign.skToCurve H sk
          "ok " ++ toHex x ++ " " ++ toHex xsk ++ (if Model.Curve.scalarmultBase P xsk = x then " consistent" else " inconsistent")
        | _ => "err"
      let s := match Spec.Ed25519.pkToCurve pk with
        | some x => "ok " ++ toHex x ++ " " ++ toHex (Spec.Ed25519.skToCurve (sk.take 32)) ++ " consistent"
        | none => "err"
      some (m, s)
  | "sign", some [sk, m] =>
      some (okHex (Model.Sign.signDetached H m sk false), okHex (Spec.Ed25519.sign (sk.take 32) m))
  | "sign_ph", some (sk :: cs) =>
      some (okHex (Model.Sign.signPh H cs sk), okHex (Spec.Ed25519.signPh (sk.take 32) cs.flatten))
  | "verify", some [pk, m, sig] =>
      some ((if Model.Sign.verifyDetached H sig m pk false then "ok" else "err"),
            (if Spec.Ed25519.verifyStrict pk m sig then "ok" else "err"))
  | "verify_ph", some (pk :: sig :: cs) =>
      some ((if Model.Sign.verifyPh H cs sig pk then "ok" else "err"),
            (if Spec.Ed25519.verifyPhStrict pk cs.flatten sig then "ok" else "err"))
  | "sign_open", some [pk, sm] =>
      some (outBytes (Model.Sign.signOpen H (sm.length - 64) sm pk),
            (if sm.length < 64 then "err" else if Spec.Ed25519.verifyStrict pk (sm.drop 64) (sm.take 64) then okHex (sm.drop 64) else "err"))
  | _, _ =>
    match op, args with
    | "kdf", n :: rest =>
      match n.toNat?, hexArgs rest with
      | some n, some [id, ctx, key] =>
        some (outBytes (Model.Curve.kdfDerive P n (le id) ctx key),
              if n < 16 ∨ 64 < n then "err" else okHex (Spec.Blake2b.hashSP n key (id ++ zeros 8) (ctx ++ zeros 8) []))
      | _, _ => none
    -- `kdf_obj_vec <id> <ctx> <key>`: `Kdf<Vec<u8>, Vec<u8>>::derive_subkey` (`Model.ObjectView.kdfObjDerive`: prefix views, panic when short)
    | "kdf_obj_vec", rest =>
      match hexArgs rest with
      | some [id, ctx, key] => some (outBytes (Model.ObjectView.kdfObjDerive (le id) ctx key), "n/a")
      | _ => none
    -- `kdf_after_failed_final <len> <id> <ctx> <key> <nbuf> <bad>`: the function shares no state with other hashing: answer of `kdf`
    | "kdf_after_failed_final", n :: rest =>
      match n.toNat?, hexArgs (rest.take 3) with
      | some n, some [id, ctx, key] =>
        some (outBytes (Model.Curve.kdfDerive P n (le id) ctx key),
              if n < 16 ∨ 64 < n then "err" else okHex (Spec.Blake2b.hashSP n key (id ++ zeros 8) (ctx ++ zeros 8) []))
      | _, _ => none
    -- `kdf_after <len> <id> <ctx> <key> <prev_len>`: the same derivation, made right after a derivation of `prev_len` bytes with the
    -- same key, context and id — the function has no memory, so the answer is that of `kdf`
    | "kdf_after", n :: rest =>
      match n.toNat?, hexArgs (rest.take 3) with
      | some n, some [id, ctx, key] =>
        some (outBytes (Model.Curve.kdfDerive P n (le id) ctx key),
              if n < 16 ∨ 64 < n then "err" else okHex (Spec.Blake2b.hashSP n key (id ++ zeros 8) (ctx ++ zeros 8) []))
      | _, _ => none
    | _, _ => none

end Driver.Curve
