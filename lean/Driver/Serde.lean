import Driver.Common
import Driver.Curve
import DryocVerif.Model.Encoding
import DryocVerif.Model.EncodingObj
import DryocVerif.Spec.NaCl
import DryocVerif.Spec.Ed25519
import DryocVerif.Spec.Argon2
open DryocVerif
namespace Driver.Serde
open DryocVerif.Model.Encoding DryocVerif.Model.EncodingVec DryocVerif.Model.EncodingObj

/-- how the runner builds the concrete encoding from (format, payload).
`json` (text deserialiser) and `jsonval` (text → `serde_json::Value` → `from_value`) both carry a JSON ARRAY of
numbers: `Value::Array` is handed to `visit_seq` exactly like the text array (only with a size hint, which the
repaired visitors ignore) — `.seq` on both routes (`Model.Encoding.encOfJson _ (.arr _)`).
`jsonstr` is a JSON STRING through the TEXT deserialiser → `visit_bytes` → `.bytes`.  A JSON string through
`from_value` (→ `visit_string` → error for every container, `Model.Encoding.deJson_value_str_err`) is NOT exercised
by the runner: there is no such format name. -/
def encOf (fmt : String) (payload : Bytes) : Enc :=
  if fmt == "json" || fmt == "jsonval" || fmt == "jsonR" then .seq payload
  else if fmt == "jsonstr" || fmt == "jsonstrR" then .bytes (payload.map (fun b => UInt8.ofNat (97 + b.toNat % 26)))
  else .bytes payload

/-- self-describing (serde_json, any route) or not (bincode) -/
def sdOf (fmt : String) : Bool := fmt != "bincode"

/-- the runner's `rt`: serialise, deserialise, compare; then `f` on the decoded object -/
def rtAns {α : Type} [DecidableEq α] (v : α) (r : Outcome α) (f : α → String) : String :=
  match r with
  | .ok w => if w = v then f w else "mismatch not-equal-after-roundtrip"
  | .err => "mismatch deserialise-failed"
  | .panic => "panic"

/-- a box object (`VecBox`: typed tag / key, `Vec<u8>` data) through the struct codec, then `to_vec` (and, without an
ephemeral key, `into_vec`, which the runner compares with it) -/
def boxAns (sd : Bool) (b : Model.SecretBox.Box) (show_ : Bytes → String) : String :=
  rtAns b (deBoxK .typed .typed .vec sd (serBoxK' .typed .typed .vec sd b)) fun w =>
    match toBytesRaw w with
    | .ok v =>
      if w.epk.isNone && intoVecRaw w != .ok v then "mismatch into_vec-after-roundtrip != to_vec" else show_ v
    | .err => "err"
    | .panic => "panic"

def handle (op : String) (args : List String) : Option Ans :=
  match op, args with
  | "serde_fixed", [_cont, n, fmt, payload] =>
    match n.toNat?, ofHex payload with
    | some n, some p => some (outBytes (deFixed n (encOf fmt p)), "n/a")
    | _, _ => none
  | "tryfrom", [cont, n, payload] =>
    match n.toNat?, ofHex payload with
    | some n, some p =>
      if cont == "keypair" then
        let h := p.length / 2
        some ((match fromSlices .typed .typed 32 32 (p.take h) (p.drop h) with
               | .ok (a, b) => okHex (a ++ b)
               | _ => "err"), "n/a")
      else if cont == "signkeypair" then
        let h := p.length / 3
        some ((match fromSlices .typed .typed 32 64 (p.take h) (p.drop h) with
               | .ok (a, b) => okHex (a ++ b)
               | _ => "err"), "n/a")
      else some (outBytes (tryFromSlice n p), "n/a")
    | _, _ => none
  | "serde_bytes", [_cont, fmt, payload] =>
    match ofHex payload with
    | some p => some (outBytes (deHeap (encOf fmt p)), "n/a")
    | none => none
  -- MODEL column: the struct-level codecs of `Model/EncodingVec.lean` / `Model/EncodingObj.lean`, executed on the
  -- object the request describes (built from the Lean specs, as the SPEC column is), mirroring the runner: serialise,
  -- deserialise, compare, then the same final answer (`to_vec` bytes, keys, derived subkey, stored hash).
  -- `sealed`: the runner's ephemeral key is random; the codec runs on a box of the same SHAPE (zero-filled).
  | "serde_obj", ty :: fmt :: rest =>
    let sd := sdOf fmt
    match ty, hexArgs rest with
    | "secretbox", some [k, n, m] =>
        let c := Spec.NaCl.secretbox k n m
        some (boxAns sd ⟨none, c.take 16, c.drop 16⟩ okHex, okHex c)
    | "box", some [pk, sk, n, m] =>
        let c := Spec.NaCl.box pk sk n m
        some (boxAns sd ⟨none, c.take 16, c.drop 16⟩ okHex, okHex c)
    | "sealed", some [_, _, m] =>
        some (boxAns sd ⟨some (zeros 32), zeros 16, zeros m.length⟩ (fun v => "ok len=" ++ toString v.length),
          "ok len=" ++ toString (m.length + 48))
    | "signed", some [sk, m] =>
        let sig := Spec.Ed25519.sign (sk.take 32) m
        some (rtAns (sig, m) (deSignedK .typed .vec sd (serSignedK' .typed .vec sd (sig, m)))
                (fun w => outBytes (signedToBytesRaw w)), okHex (sig ++ m))
    | "keypair", some [sk] =>
        let pk := Spec.X25519.x25519Base sk
        some (rtAns (pk, sk) (dePairK .typed .typed sd 32 32 (serPairK' .typed .typed sd (pk, sk)))
                (fun w => okHex (w.1 ++ w.2)), okHex (pk ++ sk))
    | "signkeypair", some [seed] =>
        let pk := Spec.Ed25519.publicKey seed
        some (rtAns (pk, seed ++ pk) (dePairK .typed .typed sd 32 64 (serPairK' .typed .typed sd (pk, seed ++ pk)))
                (fun w => okHex (w.1 ++ w.2)), okHex (pk ++ seed ++ pk))
    | "session", some [cpk, csk, spk] =>
        let q := Spec.X25519.x25519 csk spk
        if q = zeros 32 then some ("n/a", "err")
        else
          let (rx, tx) := Driver.Curve.specKx q cpk spk
          some (rtAns (⟨rx, tx⟩ : SessionObj) (deSession sd (serSession sd ⟨rx, tx⟩))
                  (fun w => okHex (w.rxKey ++ w.txKey)), okHex (rx ++ tx))
    | "kdf", some [key, ctx] =>
        let derive := fun (o : KdfObj) =>
          Spec.Blake2b.hashSP 32 o.mainKey (toLE 8 7 ++ zeros 8) (o.context ++ zeros 8) []
        some (rtAns (⟨key, ctx⟩ : KdfObj) (deKdf sd (serKdf sd ⟨key, ctx⟩)) (fun w => okHex (derive w)),
          okHex (derive ⟨key, ctx⟩))
    | "pwhash", some [pwd, salt] =>
        let h := Spec.Argon2.argon2 2 pwd salt [] [] 1 8 1 32
        -- `Config::interactive().with_opslimit(1).with_memlimit(8192)`
        let p : PwObj := ⟨h, salt, ⟨.argon2id13, 32, 8192, 1, 16⟩⟩
        some (rtAns p (dePw sd (serPw sd p)) (fun w => okHex (pwIntoParts w).1), okHex h)
    | _, _ => some ("n/a", "n/a")
  | _, _ => none

end Driver.Serde
