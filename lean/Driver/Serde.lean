import Driver.Common
import Driver.Curve
import DryocVerif.Model.Encoding
import DryocVerif.Spec.NaCl
import DryocVerif.Spec.Ed25519
import DryocVerif.Spec.Argon2
open DryocVerif
namespace Driver.Serde
open DryocVerif.Model.Encoding

/-- how the runner builds the concrete encoding from (format, payload) -/
def encOf (fmt : String) (payload : Bytes) : Enc :=
  if fmt == "json" || fmt == "jsonval" then .seq payload
  else if fmt == "jsonstr" then .bytes (payload.map (fun b => UInt8.ofNat (97 + b.toNat % 26)))
  else .bytes payload

def handle (op : String) (args : List String) : Option Ans :=
  match op, args with
  | "serde_fixed", [_cont, n, fmt, payload] =>
    match n.toNat?, ofHex payload with
    | some n, some p => some (outBytes (deFixed n (encOf fmt p)), "n/a")
    | _, _ => none
  | "tryfrom", [cont, n, payload] =>
    match n.toNat?, ofHex payload with
    | some n, some p =>
      if cont == "keypair" then
        let h := p.length / 2
        some ((match tryFromSlice 32 (p.take h), tryFromSlice 32 (p.drop h) with
               | .ok a, .ok b => okHex (a ++ b)
               | _, _ => "err"), "n/a")
      else if cont == "signkeypair" then
        let h := p.length / 3
        some ((match tryFromSlice 32 (p.take h), tryFromSlice 64 (p.drop h) with
               | .ok a, .ok b => okHex (a ++ b)
               | _, _ => "err"), "n/a")
      else some (outBytes (tryFromSlice n p), "n/a")
    | _, _ => none
  | "serde_bytes", [_cont, fmt, payload] =>
    match ofHex payload with
    | some p => some (outBytes (deHeap (encOf fmt p)), "n/a")
    | none => none
  | "serde_obj", ty :: _fmt :: rest =>
    match ty, hexArgs rest with
    | "secretbox", some [k, n, m] => some ("n/a", okHex (Spec.NaCl.secretbox k n m))
    | "box", some [pk, sk, n, m] => some ("n/a", okHex (Spec.NaCl.box pk sk n m))
    | "sealed", some [_, _, m] => some ("n/a", "ok len=" ++ toString (m.length + 48))
    | "signed", some [sk, m] => some ("n/a", okHex (Spec.Ed25519.sign (sk.take 32) m ++ m))
    | "keypair", some [sk] => some ("n/a", okHex (Spec.X25519.x25519Base sk ++ sk))
    | "signkeypair", some [seed] => some ("n/a", okHex (Spec.Ed25519.publicKey seed ++ seed ++ Spec.Ed25519.publicKey seed))
    | "session", some [cpk, csk, spk] =>
        let q := Spec.X25519.x25519 csk spk
        some ("n/a", if q = zeros 32 then "err" else let (rx, tx) := Driver.Curve.specKx q cpk spk; okHex (rx ++ tx))
    | "kdf", some [key, ctx] => some ("n/a", okHex (Spec.Blake2b.hashSP 32 key (toLE 8 7 ++ zeros 8) (ctx ++ zeros 8) []))
    | "pwhash", some [pwd, salt] => some ("n/a", okHex (Spec.Argon2.argon2 2 pwd salt [] [] 1 8 1 32))
    | _, _ => some ("n/a", "n/a")
  | _, _ => none

end Driver.Serde
