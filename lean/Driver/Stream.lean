import Driver.Common
import DryocVerif.Spec.ChaCha20
import DryocVerif.Spec.Poly1305
import DryocVerif.Model.Poly1305
import DryocVerif.Model.SecretStream
import DryocVerif.Model.Inst
import DryocVerif.Gen.Stream
import DryocVerif.Model.ObjectViewStream
open DryocVerif
open DryocVerif.Model.SecretStream
namespace Driver.Stream

/-- the primitives the *model* column is instantiated with: `Model.streamPrims`
(`DryocVerif/Model/Inst.lean`), the very object the concrete theorems of `Properties/C03.lean` are about -/
abbrev prims : Prims := Model.streamPrims

/-- history interpreter state -/
structure H where
  s : State            -- push stream
  t : State            -- pull stream
  cts : Array (Bytes × Bytes)   -- pushed (ciphertext, ad)
  next : Nat
  out : List String
  dead : Bool := false

def stHex (s : State) : String := toHex s.k ++ toHex s.nonce

def flipBit (bs : Bytes) (bit : Nat) : Bytes :=
  if bs.isEmpty then bs else
  let b := bit % (bs.length * 8)
  bs.mapIdx (fun i x => if i = b / 8 then x ^^^ (UInt8.ofNat (1 <<< (b % 8))) else x)

def SENT : UInt8 := 0xA5

def doPull (objApi : Bool) (h : H) (ct ad : Bytes) (advanceNext : Bool) (short : Nat := 0) : H :=
  if objApi then
    let (r, t') := objPull prims h.t ct ad
    match r with
    | .ok (m, tag) => { h with t := t', next := if advanceNext then h.next + 1 else h.next,
                                out := ("ok:" ++ hexOrDash m ++ ":" ++ toHex [tag]) :: h.out }
    | .err => { h with t := t', out := "err" :: h.out }
    | .panic => { h with out := "panic" :: h.out, dead := true }
  else
    -- `short` > 0: the caller's message buffer is that many bytes too small (token `Ds`)
    let buf := List.replicate (ct.length - 17 - short) SENT
    let r := pull prims h.t buf 0xEE ct ad
    match r.res with
    | .ok n => { h with t := r.st, next := if advanceNext then h.next + 1 else h.next,
                        out := ("ok:" ++ hexOrDash (r.buf.take n) ++ ":" ++ toHex [r.tag]) :: h.out }
    | .err => { h with t := r.st, out := ("err:" ++ hexOrDash r.buf ++ ":" ++ toHex [r.tag]) :: h.out }
    | .panic => { h with out := "panic" :: h.out, dead := true }

def step (objPushApi objApi : Bool) (h : H) (tok : String) : H :=
  if h.dead then h else
  match tok.splitOn ":" with
  | ["P", m, ad, tg] =>
    match ofHex m, ofHex ad, ofHex tg with
    | some m, some ad, some [tg] =>
      match (if objPushApi then objPush prims h.s m ad tg else push prims h.s (m.length + 17) m ad tg) with
      | .ok (c, s') => { h with s := s', cts := h.cts.push (c, ad), out := ("c:" ++ toHex c) :: h.out }
      | .err => { h with out := "err" :: h.out }
      | .panic => { h with out := "panic" :: h.out, dead := true }
    | _, _, _ => { h with out := "bad" :: h.out }
  | ["K"] => { h with s := rekey prims h.s, out := "-" :: h.out }
  | ["k"] => { h with t := rekey prims h.t, out := "-" :: h.out }
  | ["D"] =>
    if h.next < h.cts.size then
      let (c, ad) := h.cts[h.next]!
      doPull objApi h c ad true
    else { h with out := "none" :: h.out }
  | ["Ds", k] =>
    if h.next < h.cts.size then
      let (c, ad) := h.cts[h.next]!
      doPull objApi h c ad true (if objApi then 0 else max 1 (k.toNat?.getD 1))
    else { h with out := "none" :: h.out }
  | ["Wi", idx, ad] =>
    if h.cts.size = 0 then { h with out := "none" :: h.out } else
    match idx.toNat? with
    | some i =>
      let (c, ad0) := h.cts[i % h.cts.size]!
      let ad' := if ad == "=" then some ad0 else ofHex ad
      match ad' with
      | some a => doPull objApi h c a false
      | none => { h with out := "bad" :: h.out }
    | none => { h with out := "bad" :: h.out }
  | ["Wf", idx, bit] =>
    if h.cts.size = 0 then { h with out := "none" :: h.out } else
    match idx.toNat?, bit.toNat? with
    | some i, some b =>
      let (c, ad0) := h.cts[i % h.cts.size]!
      doPull objApi h (flipBit c b) ad0 false
    | _, _ => { h with out := "bad" :: h.out }
  | ["X", c, ad] =>
    match ofHex c, ofHex ad with
    | some c, some ad => doPull objApi h c ad false
    | _, _ => { h with out := "bad" :: h.out }
  | ["S"] => { h with out := (if objApi then "s:?,t:?" else "s:" ++ stHex h.s ++ ",t:" ++ stHex h.t) :: h.out }
  | _ => { h with out := "bad" :: h.out }

/-- `sstream <classic|object> <key> <hdr> <ctr|-> <ctr|-> tok…` -/
def handle (op : String) (args : List String) : Option Ans :=
  match op, args with
  | "sstream", api :: key :: hdr :: cs :: ct :: toks =>
    match ofHex key, ofHex hdr with
    | some key, some hdr =>
      let s0 := initState prims hdr key
      let setc (s : State) (c : String) : State :=
        match ofHex c with
        | some cb => if cb.length = 4 then { s with nonce := cb ++ s.nonce.drop 4 } else s
        | none => s
      let h0 : H := { s := setc s0 cs, t := setc s0 ct, cts := #[], next := 0, out := [] }
      let h := toks.foldl (step (api == "object") (api == "object" || api == "mixed")) h0
      some (";".intercalate h.out.reverse, "n/a")
    | _, _ => none
  -- `stream_huge <push|pull> <mlen>`: only the LENGTH GUARDS can be evaluated for a message of that size; they are the ones
  -- machine-translated from the Rust source on every run (`Gen/Stream.lean`, proved to be the model's in `Proofs/GenStream.lean`).
  -- `err` if a guard fires for an exactly sized buffer, `n/a` otherwise (the body cannot be run on 256 GiB).
  | "stream_huge", [dir, l] =>
    match l.toNat? with
    | some mlen =>
      let gs := if dir == "push" then Gen.Stream.push_guards mlen (mlen + 17) else Gen.Stream.pull_guards mlen (mlen + 17)
      if dir != "push" && dir != "pull" && dir != "pullforged" then none
      else some (if gs.any id then "err" else "n/a", "n/a")
    | none => none
  -- `stream_init_pull_view <key> <header>`: `DryocStream::init_pull` with `Vec<u8>` / `&[u8]` containers
  -- (`Model/ObjectViewStream.lean`): `panic` if the header has < 24 or the key < 32 bytes, else the state of the prefixes
  | "stream_init_pull_view", [key, hdr] =>
    match ofHex key, ofHex hdr with
    | some key, some hdr =>
      some ((match Model.ObjectViewStream.objInitPullView prims key hdr with
             | .ok s => "ok " ++ stHex s | .err => "err" | .panic => "panic"), "n/a")
    | _, _ => none
  -- `tag_from_u8 <byte>`: `impl From<u8> for Tag` (`from_bits(..).expect(..)`)
  | "tag_from_u8", [b] =>
    match ofHex b with
    | some [b] =>
      some ((match Model.ObjectViewStream.tagFromU8 b with
             | .ok t => "ok " ++ toHex [t] | .err => "err" | .panic => "panic"), "n/a")
    | _ => none
  | _, _ => none

end Driver.Stream
