import DryocVerif.Bytes
open DryocVerif
namespace Driver

def hexArgs (args : List String) : Option (List Bytes) := args.mapM ofHex
def okHex (b : Bytes) : String := "ok " ++ hexOrDash b

def outBytes : Outcome Bytes → String
  | .ok b => okHex b
  | .err => "err"
  | .panic => "panic"

def optBytes : Option Bytes → String
  | some b => okHex b
  | none => "err"

abbrev Ans := String × String

end Driver
