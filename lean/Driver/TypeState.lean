import Driver.Common
import DryocVerif.Model.TypeState
open DryocVerif.Model.TypeState
namespace Driver.TypeState

def pmOf : String → Option PM | "rw" => some .rw | "ro" => some .ro | "na" => some .na | _ => none
def lmOf : String → Option LM | "locked" => some .locked | "unlocked" => some .unlocked | _ => none
def contOf : String → Option Cont | "bytes" => some .bytes | "array" => some .array | _ => none
def opOf : String → Option Op
  | "readView" => some .readView | "mutView" => some .mutView | "arrayView" => some .arrayView | "index" => some .index
  | "resize" => some .resize | "clone" => some .clone | "lock" => some .lock | "unlock" => some .unlock
  | "ro" => some .ro | "rw" => some .rw | "na" => some .na | "useAfter" => some .useAfter
  | "asRef" => some .asRef | "asMut" => some .asMut | "indexMut" => some .indexMut | "copyFrom" => some .copyFrom
  | "mutArrayView" => some .mutArrayView | "cloneFrom" => some .cloneFrom | "serialize" => some .serialize
  | "zeroize" => some .zeroize | _ => none

def handle (op : String) (args : List String) : Option Driver.Ans :=
  match op, args with
  | "typestate", [c, pm, lm, o] =>
    match contOf c, pmOf pm, lmOf lm, opOf o with
    | some c, some pm, some lm, some o => some ((if permits pm lm c o then "permit" else "reject"), "n/a")
    | _, _, _, _ => none
  | "typestate_stream", [m, o] =>
    let mode := if m == "push" then Mode.push else Mode.pull
    let sop := if o == "push" then StreamOp.push else if o == "pull" then StreamOp.pull else StreamOp.rekey
    some ((if streamPermits mode sop then "permit" else "reject"), "n/a")
  | _, _ => none

end Driver.TypeState
