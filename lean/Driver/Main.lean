import Driver.Common
import Driver.Hash
import Driver.Box
import Driver.Stream
import Driver.Curve
import Driver.Pwhash
import Driver.Rand
import Driver.Serde
import Driver.TypeState
import Driver.Prot
/-
Line-protocol driver.  One request per line:  `<id> <op> <arg>…` (byte strings
in hex, `-` = empty).  One answer per line: `<id>\t<model answer>\t<spec answer>`
(`n/a` where there is no such artefact for the op, `bad-op` if the op is unknown).
-/
open DryocVerif Driver

def handle (op : String) (args : List String) : Ans :=
  match Hash.handle op args with
  | some a => a
  | none =>
  match Box.handle op args with
  | some a => a
  | none =>
  match Stream.handle op args with
  | some a => a
  | none =>
  match Curve.handle op args with
  | some a => a
  | none =>
  match Pwhash.handle op args with
  | some a => a
  | none =>
  match Rand.handle op args with
  | some a => a
  | none =>
  match Serde.handle op args with
  | some a => a
  | none =>
  match TypeState.handle op args with
  | some a => a
  | none =>
  match Prot.handle op args with
  | some a => a
  | none => ("bad-op", "bad-op")

partial def loop (h : IO.FS.Stream) (out : IO.FS.Stream) : IO Unit := do
  let line ← h.getLine
  if line.isEmpty then return ()
  match line.trimAscii.toString.splitOn " " with
  | id :: op :: args =>
      let (m, s) := handle op args
      out.putStrLn (id ++ "\t" ++ m ++ "\t" ++ s)
  | _ => pure ()
  loop h out

def main : IO Unit := do
  let out ← IO.getStdout
  loop (← IO.getStdin) out
  out.flush
