import DryocVerif.Bytes
import DryocVerif.Spec.Poly1305
import DryocVerif.Model.Poly1305
import DryocVerif.Model.Utils
/-
Line-protocol driver.  One request per line:  `<id> <op> <arg>…` (byte strings
in hex, `-` = empty).  One answer per line: `<id>\t<model answer>\t<spec answer>`
(`n/a` where there is no such artefact for the op).
-/
open DryocVerif

def hexArgs (args : List String) : Option (List Bytes) := args.mapM ofHex

def okHex (b : Bytes) : String := "ok " ++ hexOrDash b

def handle (op : String) (args : List String) : String × String :=
  match op, hexArgs args with
  | "poly1305", some [k, m] =>
      (okHex (Model.Poly1305.mac k m), okHex (Spec.Poly1305.mac k m))
  | "poly1305_inc", some (k :: cs) =>
      (okHex (Model.Poly1305.macChunks k cs), okHex (Spec.Poly1305.mac k cs.flatten))
  | "poly1305_verify", some [k, m, t] =>
      ((if t = Model.Poly1305.mac k m then "ok" else "err"), (if t = Spec.Poly1305.mac k m then "ok" else "err"))
  | "increment", some [b] =>
      (okHex (Model.Utils.incrementBytes b), okHex (toLE b.length (le b + 1)))
  | _, _ => ("bad-op", "bad-op")

partial def loop (h : IO.FS.Stream) (out : IO.FS.Stream) : IO Unit := do
  let line ← h.getLine
  if line.isEmpty then return ()
  match line.trimAscii.toString.splitOn " " with
  | id :: op :: args =>
      let (m, s) := handle op args
      out.putStrLn (id ++ "\t" ++ m ++ "\t" ++ s)
  | _ => pure ()
  loop h out

def main : IO Unit := do
  let out ← IO.getStdout
  loop (← IO.getStdin) out
  out.flush
