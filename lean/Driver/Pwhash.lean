import Driver.Common
import DryocVerif.Spec.Argon2
import DryocVerif.Spec.X25519
import DryocVerif.Model.PwhashStr
import DryocVerif.Model.Argon2
import DryocVerif.Model.PwhashApi
import DryocVerif.Model.KeyForms
import DryocVerif.Model.CurveInst
open DryocVerif
namespace Driver.Pwhash
open DryocVerif.Model.PwhashStr

def strOfHex (h : String) : Option Str :=
  match ofHex h with
  | some bs => match String.fromUTF8? (ByteArray.mk bs.toArray) with
    | some s => some s.toList
    | none => none
  | none => none

/-- the crypto_pwhash parameter checks as documented (libsodium ranges) + RFC 9106 Argon2 -/
def specPwhash (alg outlen ops mem : Nat) (pwd salt : Bytes) : Outcome Bytes :=
  if ops < 1 ∨ ops > 4294967295 then .err
  else if mem < 8192 ∨ mem > 4398046510080 then .err
  else if outlen < 16 ∨ salt.length < 8 then .err
  else .ok (Spec.Argon2.argon2 alg pwd salt [] [] ops (mem / 1024) 1 outlen)

/-- the Argon2 the string layer is run with: the model of `argon2_hash` (`argon2Model`), i.e. the
instance the C10 theorems `…_model_…` are about -/
abbrev argon2ForStr : Argon2Fn := argon2Model

def okErr : Outcome Unit → String
  | .ok () => "ok"
  | _ => "err"

def isPanic {α : Type} : Outcome α → Bool
  | .panic => true
  | _ => false

/-- `pwhash_obj` answered by the HAND MODELS of the object API (`Model/PwhashApi.lean`), statement by statement as the
harness (`harness/src/ops_pwhash.rs`) drives the crate:
`PwHash::hash_with_salt` = `objHashWithSaltRaw`, `h.verify(..)` = `objVerifyRaw`, `h.to_string()` = `objToString`,
`PwHash::from_string(&s)` + `b.to_string()` = `reencodeRaw`, `b.verify(..)` = `strVerifyRaw`.
The `so=` field is libsodium's verdict on the string, which no model here computes: as before it is the expectation
"accepts the password, rejects the wrong one" whenever libsodium can take the string (32-byte hash, 16-byte salt).
A panic anywhere is the harness's `panic`. -/
def pwhashObj (ops mem hl : Nat) (pwd salt wrong : Bytes) : String :=
  match Model.Argon2.objHashWithSaltRaw hl salt ops mem 2 pwd with
  | .err => "err"
  | .panic => "panic"
  | .ok h =>
    let v1 := Model.Argon2.objVerifyRaw h salt hl ops mem 2 pwd
    let v2 := Model.Argon2.objVerifyRaw h salt hl ops mem 2 wrong
    let s := objToString .argon2id ops mem salt h
    -- `PwHash::from_string(&s)`, then `b.to_string()`, then `b.verify(&pwd).is_ok() && b.verify(&wrong).is_err()`
    let rt : Outcome String :=
      match reencodeRaw s with
      | .err => .ok "from_string(to_string)-failed"
      | .panic => .panic
      | .ok again =>
        let bv : Outcome Bool :=
          match strVerifyRaw s pwd with
          | .panic => .panic
          | .err => .ok false                       -- `&&` short-circuits
          | .ok () =>
            match strVerifyRaw s wrong with
            | .panic => .panic
            | .err => .ok true
            | .ok () => .ok false
        match bv with
        | .panic => .panic
        | .err => .panic
        | .ok bv =>
          .ok (if again ≠ s then "restring-differs:" ++ String.ofList again
               else if !bv then "reparsed-verify-wrong" else "rt")
    if isPanic v1 || isPanic v2 then "panic"
    else match rt with
      | .ok rt =>
        let so := if hl = 32 ∧ salt.length = 16 then "so=ok" ++ (if wrong = pwd then "ok" else "err") else "so=n/a"
        "ok " ++ hexOrDash h ++ " verify=" ++ okErr v1 ++ okErr v2 ++ " " ++ rt ++ " " ++ so ++ " " ++ String.ofList s
      | _ => "panic"

/-- `pwhash_keypair` answered by the hand model `Model.KeyForms.deriveKeypair` (`PwHash::derive_keypair`:
`crypto_pwhash` into a 32-byte secret key — the model `cryptoPwhash`, Argon2id13 — then `KeyPair::from_secret_key`)
with the executable curve primitives `specPrims`.  `config.hash_length` is not read by `derive_keypair`. -/
def pwhashKeypair (ops mem : Nat) (pwd salt : Bytes) : String :=
  match Model.KeyForms.deriveKeypair Model.Curve.specPrims
      (fun n => Model.Argon2.cryptoPwhash n pwd salt ops mem 2) with
  | .ok (pk, sk) => "ok " ++ hexOrDash pk ++ " " ++ hexOrDash sk
  | .err => "err"
  | .panic => "panic"

def specKeypair (ops mem : Nat) (pwd salt : Bytes) : String :=
  match specPwhash 2 32 ops mem pwd salt with
  | .ok sk => "ok " ++ toHex (Spec.X25519.x25519Base sk) ++ " " ++ toHex sk
  | _ => "err"

def handle (op : String) (args : List String) : Option Ans :=
  match op, args with
  | "pwhash", [alg, outlen, ops, mem, pwd, salt] =>
    match alg.toNat?, outlen.toNat?, ops.toNat?, mem.toNat?, ofHex pwd, ofHex salt with
    | some alg, some outlen, some ops, some mem, some pwd, some salt =>
      some (outBytes (Model.Argon2.cryptoPwhash outlen pwd salt ops mem alg), outBytes (specPwhash alg outlen ops mem pwd salt))
    | _, _, _, _, _, _ => none
  | "pwhash_keypair", [ops, mem, pwd, salt] =>
    match ops.toNat?, mem.toNat?, ofHex pwd, ofHex salt with
    | some ops, some mem, some pwd, some salt =>
      some (pwhashKeypair ops mem pwd salt, specKeypair ops mem pwd salt)
    | _, _, _, _ => none
  -- optional 5th argument: a non-default `hash_length` in the Config — not read by `derive_keypair`, ignored by the model
  | "pwhash_keypair", [ops, mem, pwd, salt, _hl] =>
    match ops.toNat?, mem.toNat?, ofHex pwd, ofHex salt with
    | some ops, some mem, some pwd, some salt =>
      some (pwhashKeypair ops mem pwd salt, specKeypair ops mem pwd salt)
    | _, _, _, _ => none
  | "pwhash_parse", [s] =>
    match strOfHex s with
    | some s =>
      some ((match reencode s with
             | .ok r => "ok " ++ String.ofList r
             | .err => "err"
             | .panic => "panic"), "n/a")
    | none => some ("n/a", "n/a")
  | "pwhash_needs_rehash", [s, ops, mem] =>
    match strOfHex s, ops.toNat?, mem.toNat? with
    | some s, some ops, some mem =>
      some ((match needsRehash s ops mem with
             | .ok b => "ok " ++ (if b then "true" else "false")
             | .err => "err"
             | .panic => "panic"), "n/a")
    | _, _, _ => some ("n/a", "n/a")
  | "pwhash_str_verify", [s, pwd] =>
    match strOfHex s, ofHex pwd with
    | some s, some pwd =>
      some ((match strVerify argon2ForStr s pwd with
             | .ok () => "ok"
             | .err => "err"
             | .panic => "panic"), "n/a")
    | _, _ => some ("n/a", "n/a")
  -- `pwhash_objverify_str <s> <pwd>`: `PwHash::from_string(s)?.verify(pwd)` = `strVerifyRaw` (hashes into the stored hash's own length)
  | "pwhash_objverify_str", [s, pwd] =>
    match strOfHex s, ofHex pwd with
    | some s, some pwd =>
      some ((match strVerifyRaw s pwd with
             | .ok () => "ok"
             | .err => "err"
             | .panic => "panic"), "n/a")
    | _, _ => some ("n/a", "n/a")
  | "pwhash_str", [ops, mem, pwd, ent, _wrong] =>
    -- the model predicts the whole string: salt = the 16 bytes drawn from the entropy source
    match ops.toNat?, mem.toNat?, ofHex pwd, ofHex ent with
    | some ops, some mem, some pwd, some ent =>
      let salt := (List.range 16).map (fun i => ent.getD (i % ent.length) 0)
      -- `Model.PwhashStr.pwhashStr` is the definition the C10 theorems `pwhashStr_…` are about
      match pwhashStr argon2ForStr pwd salt ops mem with
      | .ok s => some ("ok " ++ String.ofList s ++ " own=okerr so=okerr draws=16", "n/a")
      | .err => some ("err", "n/a")
      | .panic => some ("panic", "n/a")
    | _, _, _, _ => none
  | "pwhash_obj", [ops, mem, hl, pwd, salt, wrong] =>
    match ops.toNat?, mem.toNat?, hl.toNat?, ofHex pwd, ofHex salt, ofHex wrong with
    | some ops, some mem, some hl, some pwd, some salt, some wrong =>
      some (pwhashObj ops mem hl pwd salt wrong, "n/a")
    | _, _, _, _, _, _ => none
  -- optional 7th argument: the Config's `salt_length` differs from the length of the caller's salt — ignored by the
  -- model: `hash_with_salt` hashes the caller's salt and never reads `config.salt_length`
  | "pwhash_obj", [ops, mem, hl, pwd, salt, wrong, _cfgSaltLen] =>
    match ops.toNat?, mem.toNat?, hl.toNat?, ofHex pwd, ofHex salt, ofHex wrong with
    | some ops, some mem, some hl, some pwd, some salt, some wrong =>
      some (pwhashObj ops mem hl pwd salt wrong, "n/a")
    | _, _, _, _, _, _ => none
  | "so_pwhash_str", _ => some ("verify=okerr objverify=okerr reencode=same rehash=Some(false)Some(true)Some(true)", "n/a")
  | _, _ => none

end Driver.Pwhash
