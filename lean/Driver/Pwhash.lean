import Driver.Common
import DryocVerif.Spec.Argon2
import DryocVerif.Spec.X25519
import DryocVerif.Model.PwhashStr
import DryocVerif.Model.Argon2
import DryocVerif.Model.PwhashApi
open DryocVerif
namespace Driver.Pwhash
open DryocVerif.Model.PwhashStr

def strOfHex (h : String) : Option Str :=
  match ofHex h with
  | some bs => match String.fromUTF8? (ByteArray.mk bs.toArray) with
    | some s => some s.toList
    | none => none
  | none => none

/-- the crypto_pwhash parameter checks as documented (libsodium ranges) + RFC 9106 Argon2 -/
def specPwhash (alg outlen ops mem : Nat) (pwd salt : Bytes) : Outcome Bytes :=
  if ops < 1 ∨ ops > 4294967295 then .err
  else if mem < 8192 ∨ mem > 4398046510080 then .err
  else if outlen < 16 ∨ salt.length < 8 then .err
  else .ok (Spec.Argon2.argon2 alg pwd salt [] [] ops (mem / 1024) 1 outlen)

/-- the Argon2 the string layer is run with: the model of `argon2_hash` (`argon2Model`), i.e. the
instance the C10 theorems `…_model_…` are about -/
abbrev argon2ForStr : Argon2Fn := argon2Model

def handle (op : String) (args : List String) : Option Ans :=
  match op, args with
  | "pwhash", [alg, outlen, ops, mem, pwd, salt] =>
    match alg.toNat?, outlen.toNat?, ops.toNat?, mem.toNat?, ofHex pwd, ofHex salt with
    | some alg, some outlen, some ops, some mem, some pwd, some salt =>
      some (outBytes (Model.Argon2.cryptoPwhash outlen pwd salt ops mem alg), outBytes (specPwhash alg outlen ops mem pwd salt))
    | _, _, _, _, _, _ => none
  | "pwhash_keypair", [ops, mem, pwd, salt] =>
    match ops.toNat?, mem.toNat?, ofHex pwd, ofHex salt with
    | some ops, some mem, some pwd, some salt =>
      match specPwhash 2 32 ops mem pwd salt with
      | .ok sk => some ("n/a", "ok " ++ toHex (Spec.X25519.x25519Base sk) ++ " " ++ toHex sk)
      | _ => some ("n/a", "err")
    | _, _, _, _ => none
  | "pwhash_parse", [s] =>
    match strOfHex s with
    | some s =>
      some ((match reencode s with
             | .ok r => "ok " ++ String.ofList r
             | .err => "err"
             | .panic => "panic"), "n/a")
    | none => some ("n/a", "n/a")
  | "pwhash_needs_rehash", [s, ops, mem] =>
    match strOfHex s, ops.toNat?, mem.toNat? with
    | some s, some ops, some mem =>
      some ((match needsRehash s ops mem with
             | .ok b => "ok " ++ (if b then "true" else "false")
             | .err => "err"
             | .panic => "panic"), "n/a")
    | _, _, _ => some ("n/a", "n/a")
  | "pwhash_str_verify", [s, pwd] =>
    match strOfHex s, ofHex pwd with
    | some s, some pwd =>
      some ((match strVerify argon2ForStr s pwd with
             | .ok () => "ok"
             | .err => "err"
             | .panic => "panic"), "n/a")
    | _, _ => some ("n/a", "n/a")
  | "pwhash_str", [ops, mem, pwd, ent, _wrong] =>
    -- the model predicts the whole string: salt = the 16 bytes drawn from the entropy source
    match ops.toNat?, mem.toNat?, ofHex pwd, ofHex ent with
    | some ops, some mem, some pwd, some ent =>
      let salt := (List.range 16).map (fun i => ent.getD (i % ent.length) 0)
      -- `Model.PwhashStr.pwhashStr` is the definition the C10 theorems `pwhashStr_…` are about
      match pwhashStr argon2ForStr pwd salt ops mem with
      | .ok s => some ("ok " ++ String.ofList s ++ " own=okerr so=okerr draws=16", "n/a")
      | .err => some ("err", "n/a")
      | .panic => some ("panic", "n/a")
    | _, _, _, _ => none
  | "pwhash_obj", [ops, mem, hl, pwd, salt, _wrong] =>
    match ops.toNat?, mem.toNat?, hl.toNat?, ofHex pwd, ofHex salt with
    | some ops, some mem, some hl, some pwd, some salt =>
      match specPwhash 2 hl ops mem pwd salt with
      | .ok h =>
        let so := if hl = 32 ∧ salt.length = 16 then "so=okerr" else "so=n/a"
        some ("ok " ++ toHex h ++ " verify=okerr rt " ++ so ++ " " ++ String.ofList (encode .argon2id (ops % 2^32) ((mem / 1024) % 2^32) salt h), "n/a")
      | _ => some ("err", "n/a")
    | _, _, _, _, _ => none
  | "so_pwhash_str", _ => some ("verify=okerr objverify=okerr reencode=same rehash=Some(false)Some(true)Some(true)", "n/a")
  | _, _ => none

end Driver.Pwhash
