import Driver.Common
import DryocVerif.Spec.NaCl
import DryocVerif.Model.Poly1305
import DryocVerif.Model.SecretBox
import DryocVerif.Model.Inst
open DryocVerif
open DryocVerif.Model.SecretBox
namespace Driver.Box

/-- the primitives the *model* column is instantiated with: `Model.boxPrims`
(`DryocVerif/Model/Inst.lean`), the very object the concrete theorems of `Properties/C01.lean` are about -/
abbrev prims : Prims := Model.boxPrims

def opened (r : Opened) : String :=
  match r.res with
  | .ok () => okHex r.buf
  | .err => "err buf=" ++ hexOrDash r.buf
  | .panic => "panic"

/-- in-place open forms report only the message part on success -/
def openedInplace (r : Opened) : String :=
  match r.res with
  | .ok () => okHex (r.buf.take (r.buf.length - 16))
  | .err => "err buf=" ++ hexOrDash r.buf
  | .panic => "panic"

def detachedAns : Outcome (Bytes × Bytes) → String
  | .ok (c, mac) => "ok " ++ hexOrDash mac ++ " " ++ hexOrDash c
  | .err => "err"
  | .panic => "panic"

def specDetached (boxed : Bytes) : String :=
  "ok " ++ hexOrDash (boxed.take 16) ++ " " ++ hexOrDash (boxed.drop 16)

def specOpen (o : Option Bytes) : String :=
  match o with
  | some m => okHex m
  | none => "err"

def objEnc (o : Outcome Box) : String :=
  match o with
  | .ok b => okHex (toBytes b)
  | .err => "err"
  | .panic => "panic"

def handle (op : String) (args : List String) : Option Ans :=
  let P := prims
  match op, hexArgs args with
  | "secretbox_easy", some [k, n, m] =>
      some (outBytes (easy P (zeros (m.length + 16)) m n k), okHex (Spec.NaCl.secretbox k n m))
  | "secretbox_detached", some [k, n, m] =>
      some (detachedAns (detached P (zeros m.length) m n k), specDetached (Spec.NaCl.secretbox k n m))
  | "box_detached_afternm", some [k, n, m] =>
      some (detachedAns (detached P (zeros m.length) m n k), specDetached (Spec.NaCl.secretbox k n m))
  | "secretbox_easy_inplace", some [k, n, m] =>
      some (outBytes (easyInplace P (m ++ zeros 16) n k), okHex (Spec.NaCl.secretbox k n m))
  | "box_detached_afternm_inplace", some [k, n, m] =>
      some (detachedAns (.ok (detachedInplace P m n k)), specDetached (Spec.NaCl.secretbox k n m))
  | "secretbox_open_easy", some [k, n, c, buf] =>
      some (opened (openEasy P buf c n k), specOpen (Spec.NaCl.secretboxOpen k n c))
  | "secretbox_open_detached", some [k, n, mac, c, buf] =>
      some (opened (openDetached P buf mac c n k), specOpen (if mac.length = 16 then Spec.NaCl.secretboxOpen k n (mac ++ c) else none))
  | "box_open_detached_afternm", some [k, n, mac, c, buf] =>
      some (opened (openDetached P buf mac c n k), specOpen (if mac.length = 16 then Spec.NaCl.secretboxOpen k n (mac ++ c) else none))
  | "secretbox_open_easy_inplace", some [k, n, c] =>
      some (openedInplace (openEasyInplace P c n k), specOpen (Spec.NaCl.secretboxOpen k n c))
  | "box_open_detached_afternm_inplace", some [k, n, mac, c] =>
      some (opened (openDetachedInplace P c mac n k), specOpen (if mac.length = 16 then Spec.NaCl.secretboxOpen k n (mac ++ c) else none))
  | "box_beforenm", some [pk, sk] =>
      some (okHex (beforenm P pk sk), okHex (Spec.NaCl.beforenm pk sk))
  | "box_easy", some [pk, sk, n, m] =>
      some (outBytes (boxEasy P (zeros (m.length + 16)) m n pk sk), okHex (Spec.NaCl.box pk sk n m))
  | "box_easy_inplace", some [pk, sk, n, m] =>
      some (outBytes (boxEasyInplace P (m ++ zeros 16) n pk sk), okHex (Spec.NaCl.box pk sk n m))
  | "box_detached", some [pk, sk, n, m] =>
      some (detachedAns (boxDetached P (zeros m.length) m n pk sk), specDetached (Spec.NaCl.box pk sk n m))
  | "box_detached_inplace", some [pk, sk, n, m] =>
      some (detachedAns (.ok (boxDetachedInplace P m n pk sk)), specDetached (Spec.NaCl.box pk sk n m))
  | "box_open_easy", some [pk, sk, n, c, buf] =>
      some (opened (boxOpenEasy P buf c n pk sk), specOpen (Spec.NaCl.boxOpen pk sk n c))
  | "box_open_detached", some [pk, sk, n, mac, c, buf] =>
      some (opened (boxOpenDetached P buf mac c n pk sk), specOpen (if mac.length = 16 then Spec.NaCl.boxOpen pk sk n (mac ++ c) else none))
  | "box_open_easy_inplace", some [pk, sk, n, c] =>
      some (openedInplace (boxOpenEasyInplace P c n pk sk), specOpen (Spec.NaCl.boxOpen pk sk n c))
  | "box_open_detached_inplace", some [pk, sk, n, mac, c] =>
      some (opened (boxOpenDetachedInplace P c mac n pk sk), specOpen (if mac.length = 16 then Spec.NaCl.boxOpen pk sk n (mac ++ c) else none))
  | "box_seal", some [rpk, m, esk] =>
      some (outBytes (boxSeal P (zeros (m.length + 48)) m rpk esk), okHex (Spec.NaCl.boxSeal rpk esk m))
  | "box_seal_rt", some [_, _, _] => some ("ok", "ok")
  | "box_seal_open", some [rpk, rsk, c, buf] =>
      some (opened (sealOpen P buf c rpk rsk),
            specOpen (if buf.length + 48 = c.length then Spec.NaCl.sealOpen rpk rsk c else none))
  | _, _ =>
    -- object API: first argument is the container name
    match op, args with
    | "sbobj_encrypt", _ :: rest =>
        match hexArgs rest with
        | some [k, n, m] => some (objEnc (objEncrypt P m n k), okHex (Spec.NaCl.secretbox k n m))
        | _ => none
    | "sbobj_into_vec", _ :: rest =>
        match hexArgs rest with
        | some [k, n, m] =>
            some ((match objEncrypt P m n k with | .ok b => okHex (intoVec b) | .err => "err" | .panic => "panic"),
                  okHex (Spec.NaCl.secretbox k n m))
        | _ => none
    | "sbobj_decrypt", _ :: rest =>
        match hexArgs rest with
        | some [k, n, c] =>
            some ((match fromBytes c with
                   | .ok b => outBytes (objDecrypt P b n k)
                   | .err => "err" | .panic => "panic"), specOpen (Spec.NaCl.secretboxOpen k n c))
        | _ => none
    | "boxobj_encrypt", _ :: rest =>
        match hexArgs rest with
        | some [pk, sk, n, m] => some (objEnc (objBoxEncrypt P m n pk sk), okHex (Spec.NaCl.box pk sk n m))
        | _ => none
    | "boxobj_seal", _ :: rest =>
        match hexArgs rest with
        -- the OBJECT model `DryocBox::seal` (`objSeal`); same answers as the classic `boxSeal` on an exactly sized
        -- buffer: `C01.objSeal_toBytes_eq_boxSeal`
        | some [rpk, m, esk] => some (objEnc (objSeal P m rpk esk), okHex (Spec.NaCl.boxSeal rpk esk m))
        | _ => none
    | "boxobj_vecforms", _ :: rest =>
        match hexArgs rest with
        | some [pk, sk, n, m] => some (objEnc (objBoxEncrypt P m n pk sk), okHex (Spec.NaCl.box pk sk n m))
        | _ => none
    | "sbobj_vecforms", _ :: rest =>
        match hexArgs rest with
        | some [k, n, m] =>
            some ((match objEncrypt P m n k with | .ok b => okHex (intoVec b) | .err => "err" | .panic => "panic"),
                  okHex (Spec.NaCl.secretbox k n m))
        | _ => none
    | "boxobj_precalc_encrypt", _ :: rest =>
        match hexArgs rest with
        | some [pk, sk, n, m] => some (objEnc (objEncrypt P m n (beforenm P pk sk)), okHex (Spec.NaCl.box pk sk n m))
        | _ => none
    | "boxobj_decrypt", _ :: rest =>
        match hexArgs rest with
        | some [pk, sk, n, c] =>
            some ((match fromBytes c with
                   | .ok b => outBytes (objBoxDecrypt P b n pk sk)
                   | .err => "err" | .panic => "panic"), specOpen (Spec.NaCl.boxOpen pk sk n c))
        | _ => none
    | "boxobj_precalc_decrypt", _ :: rest =>
        match hexArgs rest with
        | some [pk, sk, n, c] =>
            some ((match fromBytes c with
                   | .ok b => outBytes (objDecrypt P b n (beforenm P pk sk))
                   | .err => "err" | .panic => "panic"), specOpen (Spec.NaCl.boxOpen pk sk n c))
        | _ => none
    | "boxobj_unseal", _ :: rest =>
        match hexArgs rest with
        | some [rpk, rsk, c] =>
            some ((match fromSealedBytes c with
                   | .ok b => outBytes (objUnseal P b rpk rsk)
                   | .err => "err" | .panic => "panic"), specOpen (Spec.NaCl.sealOpen rpk rsk c))
        | _ => none
    | _, _ => none

end Driver.Box
