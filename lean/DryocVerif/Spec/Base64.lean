import DryocVerif.Bytes
/-
RFC 4648 §4 base64, standard alphabet, WITHOUT padding; strict canonical
decoding (what the Rust `base64` 0.21 `STANDARD_NO_PAD` engine accepts):
no characters outside the alphabet (so no '=' and no whitespace), length
not ≡ 1 (mod 4), unused trailing bits must be zero.
-/
namespace DryocVerif.Spec.Base64
open DryocVerif

/-- the alphabet: sextet value (< 64) to character -/
def encodeSextet (n : Nat) : Char :=
  if n < 26 then Char.ofNat (65 + n)            -- 'A'..'Z'
  else if n < 52 then Char.ofNat (97 + (n - 26)) -- 'a'..'z'
  else if n < 62 then Char.ofNat (48 + (n - 52)) -- '0'..'9'
  else if n = 62 then '+'
  else '/'

/-- character to sextet value; `none` outside the alphabet -/
def decodeSextet (c : Char) : Option Nat :=
  let n := c.toNat
  if 65 ≤ n ∧ n ≤ 90 then some (n - 65)
  else if 97 ≤ n ∧ n ≤ 122 then some (n - 97 + 26)
  else if 48 ≤ n ∧ n ≤ 57 then some (n - 48 + 52)
  else if n = 43 then some 62
  else if n = 47 then some 63
  else none

/-- 3 bytes → 4 characters; a final group of 1 (2) bytes → 2 (3) characters -/
def encodeChars : Bytes → List Char
  | [] => []
  | [a] =>
    [encodeSextet (a.toNat / 4), encodeSextet (a.toNat % 4 * 16)]
  | [a, b] =>
    [encodeSextet (a.toNat / 4), encodeSextet (a.toNat % 4 * 16 + b.toNat / 16),
     encodeSextet (b.toNat % 16 * 4)]
  | a :: b :: c :: rest =>
    encodeSextet (a.toNat / 4) :: encodeSextet (a.toNat % 4 * 16 + b.toNat / 16) ::
    encodeSextet (b.toNat % 16 * 4 + c.toNat / 64) :: encodeSextet (c.toNat % 64) ::
    encodeChars rest

/-- 4 characters → 3 bytes; a final group of 2 (3) characters → 1 (2) bytes,
provided the unused low bits are zero; a final group of 1 character is invalid -/
def decodeChars : List Char → Option Bytes
  | [] => some []
  | [_] => none
  | [c0, c1] =>
    match decodeSextet c0, decodeSextet c1 with
    | some v0, some v1 =>
      if v1 % 16 = 0 then some [UInt8.ofNat (v0 * 4 + v1 / 16)] else none
    | _, _ => none
  | [c0, c1, c2] =>
    match decodeSextet c0, decodeSextet c1, decodeSextet c2 with
    | some v0, some v1, some v2 =>
      if v2 % 4 = 0 then
        some [UInt8.ofNat (v0 * 4 + v1 / 16), UInt8.ofNat (v1 % 16 * 16 + v2 / 4)]
      else none
    | _, _, _ => none
  | c0 :: c1 :: c2 :: c3 :: rest =>
    match decodeSextet c0, decodeSextet c1, decodeSextet c2, decodeSextet c3,
          decodeChars rest with
    | some v0, some v1, some v2, some v3, some bs =>
      some (UInt8.ofNat (v0 * 4 + v1 / 16) :: UInt8.ofNat (v1 % 16 * 16 + v2 / 4) ::
            UInt8.ofNat (v2 % 4 * 64 + v3) :: bs)
    | _, _, _, _, _ => none

def encodeNoPad (bs : Bytes) : String := String.ofList (encodeChars bs)

def decodeNoPad (s : String) : Option Bytes := decodeChars s.toList

end DryocVerif.Spec.Base64
