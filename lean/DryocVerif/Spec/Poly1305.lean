import DryocVerif.Bytes
/-
RFC 8439 §2.5 Poly1305, as arithmetic on natural numbers.
-/
namespace DryocVerif.Spec.Poly1305
open DryocVerif

def p : Nat := 2^130 - 5

/-- clamp mask of RFC 8439 §2.5 -/
def clampMask : Nat := 0x0ffffffc0ffffffc0ffffffc0fffffff

def rOf (key : Bytes) : Nat := le (key.take 16) &&& clampMask
def sOf (key : Bytes) : Nat := le ((key.drop 16).take 16)

/-- value of one block: the bytes with a 0x01 byte appended -/
def blockVal (blk : Bytes) : Nat := le blk + 2 ^ (8 * blk.length)

def acc (r : Nat) (blocks : List Bytes) : Nat :=
  blocks.foldl (fun h b => ((h + blockVal b) * r) % p) 0

def mac (key msg : Bytes) : Bytes :=
  toLE 16 ((acc (rOf key) (chunks 16 msg) + sOf key) % 2^128)

end DryocVerif.Spec.Poly1305
