/-
Salsa20 / HSalsa20 / XSalsa20 reference specification.

Sources:
* D. J. Bernstein, "Salsa20 specification" (sections 2-10),
* D. J. Bernstein, "Extending the Salsa20 nonce" (HSalsa20, XSalsa20).

Core-only (imports nothing but `DryocVerif.Bytes`).  Words are `UInt32` with
wrapping `+`; the 16-word state is an `Array UInt32`; public inputs/outputs
are `Bytes`.  All functions are total; on wrong-length inputs they return
some (unspecified, but deterministic) value.
-/
import DryocVerif.Bytes

namespace DryocVerif.Spec.Salsa20

open DryocVerif

/-- 16-word state (`y_0 .. y_15` of the specification). -/
abbrev State := Array UInt32

/-- Spec section 2: `a <<< b`, the `b`-bit left rotation of a word (`0 < b < 32`). -/
@[inline] def rotl (a : UInt32) (b : UInt32) : UInt32 :=
  (a <<< b) ||| (a >>> (32 - b))

/-- Spec section 3: `quarterround(y0,y1,y2,y3) = (z0,z1,z2,z3)` on four words. -/
@[inline] def qr (y0 y1 y2 y3 : UInt32) : UInt32 × UInt32 × UInt32 × UInt32 :=
  let z1 := y1 ^^^ rotl (y0 + y3) 7
  let z2 := y2 ^^^ rotl (z1 + y0) 9
  let z3 := y3 ^^^ rotl (z2 + z1) 13
  let z0 := y0 ^^^ rotl (z3 + z2) 18
  (z0, z1, z2, z3)

/-- `quarterround` applied in place to the words at positions `(a,b,c,d)` of a state. -/
@[inline] def quarterRound (s : State) (a b c d : Nat) : State :=
  let (z0, z1, z2, z3) := qr s[a]! s[b]! s[c]! s[d]!
  (((s.set! a z0).set! b z1).set! c z2).set! d z3

/-- Apply `quarterRound` at every index quadruple of a table.  The quadruples of each
table below are pairwise disjoint, so left-to-right application is the same as the
specification's simultaneous application. -/
@[inline] def applyTable (tbl : List (Nat × Nat × Nat × Nat)) (s : State) : State :=
  tbl.foldl (fun s (a, b, c, d) => quarterRound s a b c d) s

/-- Spec section 4: index table of `rowround`. -/
def rowIdx : List (Nat × Nat × Nat × Nat) :=
  [(0, 1, 2, 3), (5, 6, 7, 4), (10, 11, 8, 9), (15, 12, 13, 14)]

/-- Spec section 5: index table of `columnround`. -/
def colIdx : List (Nat × Nat × Nat × Nat) :=
  [(0, 4, 8, 12), (5, 9, 13, 1), (10, 14, 2, 6), (15, 3, 7, 11)]

/-- Spec section 4. -/
def rowRound (s : State) : State := applyTable rowIdx s

/-- Spec section 5. -/
def columnRound (s : State) : State := applyTable colIdx s

/-- Spec section 6: `doubleround(x) = rowround(columnround(x))`. -/
def doubleRound (s : State) : State := rowRound (columnRound s)

/-- `doubleround^10`, i.e. the 20 rounds. -/
def rounds20 (s : State) : State := Nat.repeat doubleRound 10 s

/-- Spec section 7: `littleendian`, applied to each 4-byte group of a byte string. -/
def wordsOfBytes (b : Bytes) : State :=
  ((chunks 4 b).map (fun c => UInt32.ofNat (le c))).toArray

/-- Spec section 7: `littleendian^{-1}`, applied to each word. -/
def bytesOfWords (s : State) : Bytes :=
  s.toList.flatMap (fun w => toLE 4 w.toNat)

/-- Spec section 8: the Salsa20 hash function on 64 bytes,
`Salsa20(x) = x + doubleround^10(x)` (word-wise, little-endian). -/
def core (inp : Bytes) : Bytes :=
  let x := wordsOfBytes inp
  let z := rounds20 x
  bytesOfWords (Array.zipWith (· + ·) x z)

/-- Spec section 9: `sigma = "expand 32-byte k"`. -/
def sigma : Bytes :=
  [101, 120, 112, 97, 110, 100, 32, 51, 50, 45, 98, 121, 116, 101, 32, 107]

/-- Spec section 9: the 64-byte input `(c0, k0, c1, n, c2, k1, c3)` of the expansion
function, for a 32-byte key `k0 ++ k1`, a 16-byte `n` and a 16-byte constant `c`. -/
def expandInput (key n16 c : Bytes) : Bytes :=
  c.take 4 ++ key.take 16 ++ (c.drop 4).take 4 ++ n16.take 16 ++
  (c.drop 8).take 4 ++ (key.drop 16).take 16 ++ (c.drop 12).take 4

/-- Spec section 9: `Salsa20_k(n)` with an explicit constant. -/
def expand (key n16 : Bytes) (c : Bytes := sigma) : Bytes :=
  core (expandInput key n16 c)

/-- HSalsa20 ("Extending the Salsa20 nonce", section 2; libsodium
`crypto_core_hsalsa20`): words `0,5,10,15,6,7,8,9` of `doubleround^10` of the
expansion input, *without* feed-forward. -/
def hsalsa20 (key inp : Bytes) (c : Bytes := sigma) : Bytes :=
  let z := rounds20 (wordsOfBytes (expandInput key inp c))
  bytesOfWords #[z[0]!, z[5]!, z[10]!, z[15]!, z[6]!, z[7]!, z[8]!, z[9]!]

/-- Spec section 10: the `ctr`-th 64-byte keystream block, `Salsa20_k(v, ctr)` with
`ctr` encoded as 8 little-endian bytes (reduced mod 2^64). -/
def block (key nonce8 : Bytes) (ctr : Nat) : Bytes :=
  expand key (nonce8.take 8 ++ toLE 8 ctr)

/-- `len` bytes of keystream starting at block `ctr`. -/
def stream (key nonce8 : Bytes) (ctr : Nat) (len : Nat) : Bytes :=
  ((List.range ((len + 63) / 64)).flatMap (fun i => block key nonce8 (ctr + i))).take len

/-- Salsa20 encryption: message xor keystream starting at block `ctr`. -/
def streamXor (key nonce8 : Bytes) (ctr : Nat) (msg : Bytes) : Bytes :=
  xorBytes msg (stream key nonce8 ctr msg.length)

/-- XSalsa20 keystream: Salsa20 under subkey `hsalsa20(key, nonce[0..16])` and nonce
`nonce[16..24]`, starting at block `ic`. -/
def xsalsa20Stream (key nonce24 : Bytes) (ic : Nat) (len : Nat) : Bytes :=
  stream (hsalsa20 key (nonce24.take 16)) ((nonce24.drop 16).take 8) ic len

/-- XSalsa20 encryption/decryption with initial block counter `ic`. -/
def xsalsa20Xor (key nonce24 : Bytes) (ic : Nat) (msg : Bytes) : Bytes :=
  xorBytes msg (xsalsa20Stream key nonce24 ic msg.length)

end DryocVerif.Spec.Salsa20
