import DryocVerif.Bytes
/-
BLAKE2b (RFC 7693, 12 rounds) with the full 64-byte parameter block of the
BLAKE2 paper (§2.5 / §2.8: salt and personalisation), sequential mode only
(fanout = depth = 1, all tree parameters zero).

Executable reference implementation: word state is `Array UInt64` (wrapping
arithmetic), public inputs/outputs are `Bytes` and `Nat`.
-/
namespace DryocVerif.Spec.Blake2b
open DryocVerif

/-- block size in bytes -/
def blockBytes : Nat := 128

/-- RFC 7693 §2.6 initialisation vector -/
def IV : Array UInt64 := #[
  0x6a09e667f3bcc908, 0xbb67ae8584caa73b, 0x3c6ef372fe94f82b, 0xa54ff53a5f1d36f1,
  0x510e527fade682d1, 0x9b05688c2b3e6c1f, 0x1f83d9abfb41bd6b, 0x5be0cd19137e2179]

/-- RFC 7693 §2.7 message word schedule (rounds 10, 11 reuse rows 0, 1) -/
def SIGMA : Array (Array Nat) := #[
  #[ 0,  1,  2,  3,  4,  5,  6,  7,  8,  9, 10, 11, 12, 13, 14, 15],
  #[14, 10,  4,  8,  9, 15, 13,  6,  1, 12,  0,  2, 11,  7,  5,  3],
  #[11,  8, 12,  0,  5,  2, 15, 13, 10, 14,  3,  6,  7,  1,  9,  4],
  #[ 7,  9,  3,  1, 13, 12, 11, 14,  2,  6,  5, 10,  4,  0, 15,  8],
  #[ 9,  0,  5,  7,  2,  4, 10, 15, 14,  1, 11, 12,  6,  8,  3, 13],
  #[ 2, 12,  6, 10,  0, 11,  8,  3,  4, 13,  7,  5, 15, 14,  1,  9],
  #[12,  5,  1, 15, 14, 13,  4, 10,  0,  7,  6,  3,  9,  2,  8, 11],
  #[13, 11,  7, 14, 12,  1,  3,  9,  5,  0, 15,  4,  8,  6,  2, 10],
  #[ 6, 15, 14,  9, 11,  3,  0,  8, 12,  2, 13,  7,  1,  4, 10,  5],
  #[10,  2,  8,  4,  7,  6,  1,  5, 15, 11,  9, 14,  3, 12, 13,  0]]

/-- rotate right; `0 < n < 64` -/
@[inline] def rotr (x : UInt64) (n : UInt64) : UInt64 :=
  (x >>> n) ||| (x <<< (64 - n))

/-- `n` little-endian 64-bit words of a byte string (implicitly zero padded) -/
def wordsOfBytes (n : Nat) (bs : Bytes) : Array UInt64 :=
  ((List.range n).map fun i => UInt64.ofNat (le ((bs.drop (8 * i)).take 8))).toArray

/-- little-endian serialisation of a word array -/
def bytesOfWords (ws : Array UInt64) : Bytes :=
  ws.toList.flatMap fun w => toLE 8 w.toNat

/-- RFC 7693 §3.1 mixing function G on the 16-word work vector -/
def G (v : Array UInt64) (a b c d : Nat) (x y : UInt64) : Array UInt64 :=
  let va := v[a]! + v[b]! + x
  let vd := rotr (v[d]! ^^^ va) 32
  let vc := v[c]! + vd
  let vb := rotr (v[b]! ^^^ vc) 24
  let va := va + vb + y
  let vd := rotr (vd ^^^ va) 16
  let vc := vc + vd
  let vb := rotr (vb ^^^ vc) 63
  (((v.set! a va).set! b vb).set! c vc).set! d vd

/-- one round (column step then diagonal step) with schedule row `s` -/
def round (m : Array UInt64) (v : Array UInt64) (s : Array Nat) : Array UInt64 :=
  let v := G v 0 4  8 12 m[s[0]!]!  m[s[1]!]!
  let v := G v 1 5  9 13 m[s[2]!]!  m[s[3]!]!
  let v := G v 2 6 10 14 m[s[4]!]!  m[s[5]!]!
  let v := G v 3 7 11 15 m[s[6]!]!  m[s[7]!]!
  let v := G v 0 5 10 15 m[s[8]!]!  m[s[9]!]!
  let v := G v 1 6 11 12 m[s[10]!]! m[s[11]!]!
  let v := G v 2 7  8 13 m[s[12]!]! m[s[13]!]!
  let v := G v 3 4  9 14 m[s[14]!]! m[s[15]!]!
  v

/-- RFC 7693 §3.2 compression function F.  `block` is (up to) 128 bytes,
implicitly zero padded; `t` is the 128-bit byte counter; `last` the final-block flag. -/
def compress (h : Array UInt64) (block : Bytes) (t : Nat) (last : Bool) : Array UInt64 :=
  let m := wordsOfBytes 16 block
  let v := h ++ IV
  let v := v.set! 12 (v[12]! ^^^ UInt64.ofNat (t % 2^64))
  let v := v.set! 13 (v[13]! ^^^ UInt64.ofNat ((t / 2^64) % 2^64))
  let v := if last then v.set! 14 (~~~ v[14]!) else v
  let v := Nat.fold 12 (fun i _ v => round m v SIGMA[i % 10]!) v
  ((List.range 8).map fun i => h[i]! ^^^ v[i]! ^^^ v[i + 8]!).toArray

/-- pad with zeros / truncate to exactly `n` bytes -/
def fit (n : Nat) (bs : Bytes) : Bytes := (bs ++ zeros n).take n

/-- BLAKE2 paper §2.5 parameter block (64 bytes), sequential mode.
Empty `salt` / `personal` mean 16 zero bytes. -/
def paramBlock (outlen keylen : Nat) (salt personal : Bytes) : Bytes :=
  [UInt8.ofNat outlen, UInt8.ofNat keylen, 1, 1]   -- digest_length, key_length, fanout, depth
  ++ zeros 4                                       -- leaf_length
  ++ zeros 8                                       -- node_offset
  ++ [0, 0]                                        -- node_depth, inner_length
  ++ zeros 14                                      -- reserved
  ++ fit 16 salt
  ++ fit 16 personal

/-- initial chaining value: IV xor parameter block -/
def initState (outlen keylen : Nat) (salt personal : Bytes) : Array UInt64 :=
  let p := wordsOfBytes 8 (paramBlock outlen keylen salt personal)
  ((List.range 8).map fun i => IV[i]! ^^^ p[i]!).toArray

/-- absorb a non-empty list of blocks; every block but the last is a full
128 bytes; the last one gets the final flag.  `t` = bytes absorbed so far. -/
def absorb (h : Array UInt64) (t : Nat) : List Bytes → Array UInt64
  | [] => h
  | [b] => compress h b (t + b.length) true
  | b :: b' :: rest => absorb (compress h b (t + blockBytes) false) (t + blockBytes) (b' :: rest)

/-- the block sequence: optional key block, then the message in 128-byte
chunks; an empty unkeyed message is a single all-zero block -/
def blocksOf (key msg : Bytes) : List Bytes :=
  let data := (if key.isEmpty then [] else fit blockBytes key) ++ msg
  if data.isEmpty then [[]] else chunks blockBytes data

/-- BLAKE2b with key, salt and personalisation.  `1 ≤ outlen ≤ 64`,
`key.length ≤ 64`, `salt`/`personal` empty or 16 bytes. -/
def hashSP (outlen : Nat) (key salt personal msg : Bytes) : Bytes :=
  let h := initState outlen key.length salt personal
  (bytesOfWords (absorb h 0 (blocksOf key msg))).take outlen

/-- RFC 7693 BLAKE2b (keyed if `key` is non-empty) -/
def hash (outlen : Nat) (key msg : Bytes) : Bytes := hashSP outlen key [] [] msg

end DryocVerif.Spec.Blake2b
