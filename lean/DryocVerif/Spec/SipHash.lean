/-
SipHash-c-d reference specification, following J.-P. Aumasson and D. J. Bernstein,
"SipHash: a fast short-input PRF" (section 2).

Core-only (imports nothing but `DryocVerif.Bytes`).  All functions are total.
-/
import DryocVerif.Bytes

namespace DryocVerif.Spec.SipHash

open DryocVerif

/-- internal state `(v0, v1, v2, v3)` -/
structure State where
  v0 : UInt64
  v1 : UInt64
  v2 : UInt64
  v3 : UInt64

/-- `n`-bit left rotation of a 64-bit word (`0 < n < 64`). -/
@[inline] def rotl (a : UInt64) (n : UInt64) : UInt64 :=
  (a <<< n) ||| (a >>> (64 - n))

/-- SipRound (paper, section 2.2 / figure 2.1). -/
def sipRound (s : State) : State :=
  let v0 := s.v0 + s.v1;   let v2 := s.v2 + s.v3
  let v1 := rotl s.v1 13;  let v3 := rotl s.v3 16
  let v1 := v1 ^^^ v0;     let v3 := v3 ^^^ v2
  let v0 := rotl v0 32
  let v2 := v2 + v1;       let v0 := v0 + v3
  let v1 := rotl v1 17;    let v3 := rotl v3 21
  let v1 := v1 ^^^ v2;     let v3 := v3 ^^^ v0
  let v2 := rotl v2 32
  ⟨v0, v1, v2, v3⟩

/-- 1. Initialization: `k0, k1` are the little-endian halves of the key; the constants
spell "somepseudorandomlygeneratedbytes". -/
def init (key16 : Bytes) : State :=
  let k0 := UInt64.ofNat (le (key16.take 8))
  let k1 := UInt64.ofNat (le ((key16.drop 8).take 8))
  ⟨k0 ^^^ 0x736f6d6570736575, k1 ^^^ 0x646f72616e646f6d,
   k0 ^^^ 0x6c7967656e657261, k1 ^^^ 0x7465646279746573⟩

/-- 2. Parsing: the `b`-byte message becomes `w = ⌈(b+1)/8⌉` little-endian 64-bit words;
the last word holds the remaining `b mod 8` bytes, zero padding, and `b mod 256` in its
most significant byte. -/
def parse (msg : Bytes) : List UInt64 :=
  let b := msg.length
  let padded := msg ++ zeros (7 - b % 8) ++ [UInt8.ofNat (b % 256)]
  (chunks 8 padded).map (fun c => UInt64.ofNat (le c))

/-- 2. Compression of one word: `v3 ^= m; c × SipRound; v0 ^= m`. -/
def compress (c : Nat) (s : State) (m : UInt64) : State :=
  let s := Nat.repeat sipRound c { s with v3 := s.v3 ^^^ m }
  { s with v0 := s.v0 ^^^ m }

/-- 3. Finalization: `v2 ^= 0xff; d × SipRound; return v0 ^ v1 ^ v2 ^ v3`. -/
def finalize (d : Nat) (s : State) : UInt64 :=
  let s := Nat.repeat sipRound d { s with v2 := s.v2 ^^^ 0xff }
  s.v0 ^^^ s.v1 ^^^ s.v2 ^^^ s.v3

/-- SipHash-c-d as a 64-bit word. -/
def siphashWord (c d : Nat) (key16 msg : Bytes) : UInt64 :=
  finalize d ((parse msg).foldl (compress c) (init key16))

/-- SipHash-2-4, output as 8 little-endian bytes. -/
def siphash24 (key16 msg : Bytes) : Bytes :=
  toLE 8 (siphashWord 2 4 key16 msg).toNat

end DryocVerif.Spec.SipHash
