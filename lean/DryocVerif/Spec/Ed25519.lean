/-
Ed25519 / Ed25519ph executable specification (RFC 8032 §5.1) together with
libsodium 1.0.18's strict verification rules and its Ed25519 → Curve25519
conversions.

libsodium sources replicated (libsodium-sys-0.2.7 vendored copy):
* crypto_core/ed25519/ref10/ed25519_ref10.c:
  `ge25519_has_small_order`, `ge25519_is_canonical`, `sc25519_is_canonical`,
  `ge25519_frombytes_negate_vartime`, `ge25519_is_on_main_subgroup`
* crypto_sign/ed25519/ref10/open.c: `_crypto_sign_ed25519_verify_detached`
  (the non-`ED25519_COMPAT` branch)
* crypto_sign/ed25519/ref10/sign.c: `_crypto_sign_ed25519_ref10_hinit` (dom2 prefix)
* crypto_sign/ed25519/ref10/keypair.c: `crypto_sign_ed25519_pk_to_curve25519`,
  `crypto_sign_ed25519_sk_to_curve25519`
-/
import DryocVerif.Bytes
import DryocVerif.Spec.Sha512
import DryocVerif.Spec.X25519

namespace DryocVerif.Spec.Ed25519

open DryocVerif.Spec
open DryocVerif.Spec.X25519 (fadd fsub fmul fsq fneg fpow finv)

/-! ### constants -/

/-- the field prime 2^255 - 19 (same as `X25519.p`) -/
def p : Nat := X25519.p

/-- curve constant d = -121665/121666 mod p -/
def d : Nat := 37095705934669439343138083508754565189542113879843219016388785533085940283555

/-- 2 * d mod p -/
def d2 : Nat := 16295367250680780974490674513165176452449235426866156013048779062215315747161

/-- order of the prime-order subgroup: 2^252 + 27742317777372353535851937790883648493 -/
def L : Nat := 7237005577332262213973186563042994240857116359379907606001950938285454250989

/-- a square root of -1: 2^((p-1)/4) mod p -/
def sqrtM1 : Nat := 19681161376707505956807079304988542015446066515923890162744021073123829784752

/-- extended homogeneous coordinates (X : Y : Z : T), x = X/Z, y = Y/Z, x*y = T/Z -/
structure Point where
  X : Nat
  Y : Nat
  Z : Nat
  T : Nat
  deriving Repr

def Bx : Nat := 15112221349535400772501151409588531511454012693041857206046113283949847762202
def By : Nat := 46316835694926478169428394003475163141307993866256225615783033603165251855960

/-- the standard base point -/
def B : Point :=
  { X := Bx, Y := By, Z := 1,
    T := 46827403850823179245072216630277197565144205554125654976674165829533817101731 }

/-- neutral element (0, 1) -/
def identity : Point := { X := 0, Y := 1, Z := 1, T := 0 }

/-! ### group law (RFC 8032 §5.1.4) -/

/-- unified, complete addition -/
def add (P Q : Point) : Point :=
  let A := fmul (fsub P.Y P.X) (fsub Q.Y Q.X)
  let Bv := fmul (fadd P.Y P.X) (fadd Q.Y Q.X)
  let C := fmul (fmul P.T d2) Q.T
  let D := fmul (fadd P.Z P.Z) Q.Z
  let E := fsub Bv A
  let F := fsub D C
  let G := fadd D C
  let H := fadd Bv A
  { X := fmul E F, Y := fmul G H, Z := fmul F G, T := fmul E H }

/-- dedicated doubling (RFC 8032 §5.1.4) -/
def double (P : Point) : Point :=
  let A := fsq P.X
  let Bv := fsq P.Y
  let C := fadd (fsq P.Z) (fsq P.Z)
  let H := fadd A Bv
  let E := fsub H (fsq (fadd P.X P.Y))
  let G := fsub A Bv
  let F := fadd C G
  { X := fmul E F, Y := fmul G H, Z := fmul F G, T := fmul E H }

/-- -(x, y) = (-x, y) -/
def neg (P : Point) : Point :=
  { X := fneg P.X, Y := P.Y % p, Z := P.Z % p, T := fneg P.T }

/-- right-to-left double-and-add over the `bits` low bits of `n`:
returns `Q + [n mod 2^bits] P`. -/
def scalarMulAux : Nat → Nat → Point → Point → Point
  | 0, _, _, Q => Q
  | bits + 1, n, P, Q =>
    scalarMulAux bits (n / 2) (double P) (if n % 2 = 1 then add Q P else Q)

/-- `[n]P` for `n < 2^256` (every scalar used below is `< 2^256`). -/
def scalarMul (n : Nat) (P : Point) : Point := scalarMulAux 256 n P identity

/-- projective equality: x1 = x2 and y1 = y2 -/
def pointEq (P Q : Point) : Bool :=
  fmul P.X Q.Z == fmul Q.X P.Z && fmul P.Y Q.Z == fmul Q.Y P.Z

/-! ### encoding / decoding (RFC 8032 §5.1.2, §5.1.3) -/

/-- 32 bytes: little-endian y with the least significant bit of x in bit 255 -/
def encodePoint (P : Point) : Bytes :=
  let zi := finv P.Z
  let x := fmul P.X zi
  let y := fmul P.Y zi
  toLE 32 (y + 2 ^ 255 * (x % 2))

/-- RFC 8032 §5.1.3 steps 2–4: recover x from `y` (already reduced mod p) and the sign
bit.  With `strict := true` the RFC rule "x = 0 and sign = 1 ⇒ fail" is applied;
libsodium's `ge25519_frombytes_negate_vartime` does not apply it. -/
def recoverX (y sign : Nat) (strict : Bool) : Option Point :=
  let yy := fsq y
  let u := fsub yy 1                 -- y^2 - 1
  let v := fadd (fmul d yy) 1        -- d y^2 + 1
  let v3 := fmul (fsq v) v
  let v7 := fmul (fsq v3) v
  -- candidate root x = u v^3 (u v^7)^((p-5)/8)
  let x := fmul (fmul u v3) (fpow (fmul u v7) ((p - 5) / 8))
  let vxx := fmul v (fsq x)
  let x? : Option Nat :=
    if vxx == u then some x
    else if vxx == fneg u then some (fmul x sqrtM1)
    else none
  match x? with
  | none => none
  | some x =>
    if strict && x == 0 && sign == 1 then none
    else
      let x := if x % 2 == sign then x else fneg x
      some { X := x, Y := y, Z := 1, T := fmul x y }

/-- RFC 8032 §5.1.3 decoding: rejects wrong length, y ≥ p, non-square x², and
x = 0 with the sign bit set. -/
def decodePoint (s : Bytes) : Option Point :=
  if s.length != 32 then none
  else
    let n := le s
    let sign := n / 2 ^ 255
    let y := n % 2 ^ 255
    if y ≥ p then none else recoverX y sign true

/-- libsodium's decoding (`fe25519_frombytes` + `ge25519_frombytes_negate_vartime`,
without the negation): the sign bit is ignored when loading y, y is implicitly
reduced mod p (non-canonical y accepted), and x = 0 with sign bit set is accepted. -/
def decodePointLax (s : Bytes) : Option Point :=
  if s.length != 32 then none
  else
    let n := le s
    recoverX ((n % 2 ^ 255) % p) (n / 2 ^ 255) false

/-! ### keys and signing (RFC 8032 §5.1.5, §5.1.6) -/

/-- SHA-512(seed) split into the clamped scalar `a` (from the low 32 bytes) and the
32-byte `prefix`. -/
def secretExpand (seed : Bytes) : Nat × Bytes :=
  let h := Sha512.sha512 seed
  (X25519.decodeScalar25519 (h.take 32), h.drop 32)

/-- A = [a]B, encoded -/
def publicKey (seed : Bytes) : Bytes :=
  encodePoint (scalarMul (secretExpand seed).1 B)

/-- the 32 ASCII bytes "SigEd25519 no Ed25519 collisions" -/
def dom2Prefix : Bytes :=
  "SigEd25519 no Ed25519 collisions".toList.map (fun c => UInt8.ofNat c.toNat)

/-- RFC 8032 §2 `dom2(x, y)` =
"SigEd25519 no Ed25519 collisions" ‖ octet(x) ‖ octet(OLEN(y)) ‖ y -/
def dom2 (phflag : Nat) (ctx : Bytes) : Bytes :=
  dom2Prefix ++ [UInt8.ofNat phflag, UInt8.ofNat ctx.length] ++ ctx

/-- SHA-512 output interpreted little-endian and reduced mod L -/
def hashModL (bs : Bytes) : Nat := le (Sha512.sha512 bs) % L

/-- RFC 8032 §5.1.6 with domain-separation prefix `dom` (empty for pure Ed25519) and
already-prehashed-or-raw message `m`. -/
def signCore (dom seed m : Bytes) : Bytes :=
  let (a, pre) := secretExpand seed
  let A := encodePoint (scalarMul a B)
  let r := hashModL (dom ++ pre ++ m)
  let R := encodePoint (scalarMul r B)
  let k := hashModL (dom ++ R ++ A ++ m)
  let S := (r + k * a) % L
  R ++ toLE 32 S

/-- pure Ed25519 signature R ‖ S (64 bytes) -/
def sign (seed msg : Bytes) : Bytes := signCore [] seed msg

/-- Ed25519ph, empty context, given the 64-byte prehash PH(M) directly -/
def signPhPrehashed (seed ph : Bytes) : Bytes := signCore (dom2 1 []) seed ph

/-- Ed25519ph, empty context: PH(M) = SHA-512(M) -/
def signPh (seed msg : Bytes) : Bytes := signPhPrehashed seed (Sha512.sha512 msg)

/-! ### libsodium's strictness predicates -/

/-- the 7-entry table of `ge25519_has_small_order` (libsodium 1.0.18) -/
def smallOrderBlacklist : List Bytes := [
  /- 0 (order 4) -/
  zeros 32,
  /- 1 (order 1) -/
  1 :: zeros 31,
  /- 2707385501144840649318225287225658788936804267575313519463743609750303402022 (order 8) -/
  [0x26, 0xe8, 0x95, 0x8f, 0xc2, 0xb2, 0x27, 0xb0, 0x45, 0xc3, 0xf4,
   0x89, 0xf2, 0xef, 0x98, 0xf0, 0xd5, 0xdf, 0xac, 0x05, 0xd3, 0xc6,
   0x33, 0x39, 0xb1, 0x38, 0x02, 0x88, 0x6d, 0x53, 0xfc, 0x05],
  /- 55188659117513257062467267217118295137698188065244968500265048394206261417927 (order 8) -/
  [0xc7, 0x17, 0x6a, 0x70, 0x3d, 0x4d, 0xd8, 0x4f, 0xba, 0x3c, 0x0b,
   0x76, 0x0d, 0x10, 0x67, 0x0f, 0x2a, 0x20, 0x53, 0xfa, 0x2c, 0x39,
   0xcc, 0xc6, 0x4e, 0xc7, 0xfd, 0x77, 0x92, 0xac, 0x03, 0x7a],
  /- p-1 (order 2) -/
  0xec :: (List.replicate 30 0xff ++ [0x7f]),
  /- p (=0, order 4) -/
  0xed :: (List.replicate 30 0xff ++ [0x7f]),
  /- p+1 (=1, order 1) -/
  0xee :: (List.replicate 30 0xff ++ [0x7f])]

/-- `ge25519_has_small_order`: bytes 0..30 equal a table entry and
`s[31] & 0x7f` equals the entry's last byte (i.e. the sign bit is ignored). -/
def hasSmallOrder (s : Bytes) : Bool :=
  s.length == 32 &&
    smallOrderBlacklist.any (· == s.modify 31 (· &&& 0x7f))

/-- `ge25519_is_canonical`: returns false iff
`(s[31] & 0x7f) = 0x7f`, `s[1..30]` are all `0xff` and `s[0] ≥ 0xed`,
i.e. iff the y-coordinate (sign bit masked) is ≥ p. -/
def isCanonicalPoint (s : Bytes) : Bool :=
  s.length == 32 &&
    !( (s.getD 31 0 &&& 0x7f) == 0x7f
       && ((s.drop 1).take 30).all (· == 0xff)
       && s.getD 0 0 ≥ 0xed )

/-- `sc25519_is_canonical`: the 32-byte little-endian scalar is < L -/
def isCanonicalScalar (s : Bytes) : Bool :=
  s.length == 32 && decide (le s < L)

/-! ### strict verification (libsodium `_crypto_sign_ed25519_verify_detached`) -/

/-- libsodium's checks, in libsodium's order; `dom` is empty (pure) or `dom2 1 ""`
(prehashed), `m` the message resp. its prehash. -/
def verifyCore (dom pk m sig : Bytes) : Bool :=
  if sig.length != 64 || pk.length != 32 then false
  else
    let Rb := sig.take 32
    let Sb := sig.drop 32
    if !isCanonicalScalar Sb then false
    else if hasSmallOrder Rb then false
    else if !isCanonicalPoint pk then false
    else if hasSmallOrder pk then false
    else
      match decodePoint pk with
      | none => false
      | some A =>
        let k := hashModL (dom ++ Rb ++ pk ++ m)
        -- R' = [S]B - [k]A   (libsodium: [k](-A) + [S]B)
        let R' := add (scalarMul (le Sb) B) (scalarMul k (neg A))
        encodePoint R' == Rb

/-- libsodium `crypto_sign_ed25519_verify_detached` (strict, non-COMPAT build) -/
def verifyStrict (pk msg sig : Bytes) : Bool := verifyCore [] pk msg sig

/-- Ed25519ph strict verification given the 64-byte prehash -/
def verifyPhPrehashedStrict (pk ph sig : Bytes) : Bool := verifyCore (dom2 1 []) pk ph sig

/-- libsodium `crypto_sign_ed25519ph_final_verify`: PH(M) = SHA-512(M), dom2(1, "") -/
def verifyPhStrict (pk msg sig : Bytes) : Bool :=
  verifyPhPrehashedStrict pk (Sha512.sha512 msg) sig

/-! ### Ed25519 → Curve25519 (libsodium keypair.c) -/

/-- `ge25519_is_on_main_subgroup` exactly as in libsodium 1.0.18: it only tests
that the X coordinate of [L]P vanishes.  NB this also holds when
[L]P = (0, -1), i.e. for P = P' + (0,-1) with P' in the prime-order subgroup. -/
def isOnMainSubgroup (P : Point) : Bool := (scalarMul L P).X % p == 0

/-- the mathematically intended test: [L]P is the neutral element -/
def isInPrimeSubgroup (P : Point) : Bool := pointEq (scalarMul L P) identity

/-- `crypto_sign_ed25519_pk_to_curve25519`: fails iff pk has small order, does not
decode (libsodium's lax decoding: non-canonical y is reduced, not rejected) or is
not on the main subgroup (libsodium's X([L]A) = 0 test); otherwise
u = (1 + y) / (1 - y) mod p, 32 bytes little-endian. -/
def pkToCurve (pk : Bytes) : Option Bytes :=
  if pk.length != 32 || hasSmallOrder pk then none
  else
    match decodePointLax pk with
    | none => none
    | some A =>
      if !isOnMainSubgroup A then none
      else some (toLE 32 (fmul (fadd 1 A.Y) (finv (fsub 1 A.Y))))

/-- `crypto_sign_ed25519_sk_to_curve25519`: first 32 bytes of SHA-512(seed), clamped
(only the first 32 bytes of the argument, the seed, are used). -/
def skToCurve (seed : Bytes) : Bytes :=
  X25519.clamp ((Sha512.sha512 (seed.take 32)).take 32)

end DryocVerif.Spec.Ed25519
