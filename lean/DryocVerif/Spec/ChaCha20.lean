/-
ChaCha20 (RFC 8439 sections 2.1-2.4) and HChaCha20 (draft-irtf-cfrg-xchacha
section 2.2) reference specification.

Core-only (imports nothing but `DryocVerif.Bytes`).  All functions are total;
on wrong-length inputs they return some (unspecified, deterministic) value.
-/
import DryocVerif.Bytes

namespace DryocVerif.Spec.ChaCha20

open DryocVerif

/-- 16-word ChaCha state. -/
abbrev State := Array UInt32

/-- `n`-bit left roll of a 32-bit word (`0 < n < 32`). -/
@[inline] def rotl (a : UInt32) (n : UInt32) : UInt32 :=
  (a <<< n) ||| (a >>> (32 - n))

/-- RFC 8439 section 2.1: the ChaCha quarter round on four words. -/
@[inline] def qr (a b c d : UInt32) : UInt32 × UInt32 × UInt32 × UInt32 :=
  let a := a + b; let d := rotl (d ^^^ a) 16
  let c := c + d; let b := rotl (b ^^^ c) 12
  let a := a + b; let d := rotl (d ^^^ a) 8
  let c := c + d; let b := rotl (b ^^^ c) 7
  (a, b, c, d)

/-- RFC 8439 section 2.2: `QUARTERROUND(x, y, z, w)` on the ChaCha state. -/
@[inline] def quarterRound (s : State) (x y z w : Nat) : State :=
  let (a, b, c, d) := qr s[x]! s[y]! s[z]! s[w]!
  (((s.set! x a).set! y b).set! z c).set! w d

/-- RFC 8439 section 2.3: the eight quarter rounds of `inner_block`
(four column rounds, then four diagonal rounds). -/
def innerIdx : List (Nat × Nat × Nat × Nat) :=
  [(0, 4, 8, 12), (1, 5, 9, 13), (2, 6, 10, 14), (3, 7, 11, 15),
   (0, 5, 10, 15), (1, 6, 11, 12), (2, 7, 8, 13), (3, 4, 9, 14)]

/-- RFC 8439 section 2.3.1: `inner_block`. -/
def innerBlock (s : State) : State :=
  innerIdx.foldl (fun s (x, y, z, w) => quarterRound s x y z w) s

/-- 20 rounds = 10 iterations of `inner_block`. -/
def rounds20 (s : State) : State := Nat.repeat innerBlock 10 s

/-- little-endian 32-bit words of a byte string -/
def wordsOfBytes (b : Bytes) : State :=
  ((chunks 4 b).map (fun c => UInt32.ofNat (le c))).toArray

/-- little-endian serialization of a word sequence -/
def bytesOfWords (s : State) : Bytes :=
  s.toList.flatMap (fun w => toLE 4 w.toNat)

/-- RFC 8439 section 2.3: the constants `0x61707865, 0x3320646e, 0x79622d32, 0x6b206574`
(= "expand 32-byte k"). -/
def constants : State := #[0x61707865, 0x3320646e, 0x79622d32, 0x6b206574]

/-- RFC 8439 section 2.3: initial state `constants | key | counter | nonce`
(counter reduced mod 2^32). -/
def initState (key : Bytes) (ctr : Nat) (nonce12 : Bytes) : State :=
  constants ++ wordsOfBytes (key.take 32) ++ #[UInt32.ofNat ctr] ++ wordsOfBytes (nonce12.take 12)

/-- RFC 8439 section 2.3: `chacha20_block(key, counter, nonce)`, 64 bytes. -/
def block (key : Bytes) (ctr : Nat) (nonce12 : Bytes) : Bytes :=
  let s := initState key ctr nonce12
  bytesOfWords (Array.zipWith (· + ·) s (rounds20 s))

/-- `len` bytes of keystream, starting at block counter `ctr`. -/
def stream (key nonce12 : Bytes) (ctr : Nat) (len : Nat) : Bytes :=
  ((List.range ((len + 63) / 64)).flatMap (fun j => block key (ctr + j) nonce12)).take len

/-- RFC 8439 section 2.4: `chacha20_encrypt(key, counter, nonce, plaintext)`. -/
def xor (key nonce12 : Bytes) (ctr : Nat) (msg : Bytes) : Bytes :=
  xorBytes msg (stream key nonce12 ctr msg.length)

/-- draft-irtf-cfrg-xchacha section 2.2: HChaCha20.  State `constants | key | inp16`;
20 rounds; output words 0..3 and 12..15, *without* feed-forward. -/
def hchacha20 (key inp16 : Bytes) : Bytes :=
  let z := rounds20 (constants ++ wordsOfBytes (key.take 32) ++ wordsOfBytes (inp16.take 16))
  bytesOfWords (z.extract 0 4 ++ z.extract 12 16)

end DryocVerif.Spec.ChaCha20
