import DryocVerif.Bytes
import DryocVerif.Spec.Blake2b
/-
Argon2 (RFC 9106 §3, version 0x13): Argon2d (0), Argon2i (1), Argon2id (2).

Executable reference implementation.  A 1024-byte block is an
`Array UInt64` of 128 words; the memory is one `Array Block` of `m'` blocks,
lane `i` column `j` living at index `i*q + j`; it is threaded linearly through
all loops so the compiled code updates it in place.
-/
namespace DryocVerif.Spec.Argon2
open DryocVerif

abbrev Block := Array UInt64

def version : Nat := 0x13
def syncPoints : Nat := 4
def blockWords : Nat := 128

def le32 (n : Nat) : Bytes := toLE 4 n

/-! ### H' and H0 -/

/-- `V_1 … V_r` chain of §3.3: emits the first 32 bytes of each of `r` successive
64-byte hashes, then the final `lastLen`-byte hash. `v` is the current `V_i`. -/
def hprimeChain : Nat → Nat → Bytes → Bytes
  | 0, lastLen, v => Blake2b.hash lastLen [] v
  | r+1, lastLen, v =>
    let v' := Blake2b.hash 64 [] v
    v'.take 32 ++ hprimeChain r lastLen v'

/-- variable-length hash function H' (RFC 9106 §3.3) -/
def hprime (outlen : Nat) (inp : Bytes) : Bytes :=
  if outlen ≤ 64 then Blake2b.hash outlen [] (le32 outlen ++ inp)
  else
    let r := (outlen + 31) / 32 - 2
    -- V_1 = H^64(LE32(T) || A); then r-1 more chained 64-byte hashes; then V_{r+1}
    let v1 := Blake2b.hash 64 [] (le32 outlen ++ inp)
    v1.take 32 ++ hprimeChain (r - 1) (outlen - 32 * r) v1

/-- H_0 (RFC 9106 §3.2 step 1) -/
def h0 (ty : Nat) (password salt secret ad : Bytes) (t m p outlen : Nat) : Bytes :=
  Blake2b.hash 64 []
    (le32 p ++ le32 outlen ++ le32 m ++ le32 t ++ le32 version ++ le32 ty
     ++ le32 password.length ++ password
     ++ le32 salt.length ++ salt
     ++ le32 secret.length ++ secret
     ++ le32 ad.length ++ ad)

/-! ### Compression function G (§3.5) and permutation P (§3.6) -/

def blockOfBytes (bs : Bytes) : Block := Blake2b.wordsOfBytes blockWords bs
def bytesOfBlock (b : Block) : Bytes := Blake2b.bytesOfWords b

def zeroBlock : Block := Array.replicate blockWords 0

def xorBlock (x y : Block) : Block :=
  Array.ofFn (n := blockWords) fun i => x[i.val]! ^^^ y[i.val]!

@[inline] def lo32 (x : UInt64) : UInt64 := x &&& 0xffffffff

/-- BlaMka: `a + b + 2 * lo32(a) * lo32(b)` (mod 2^64) -/
@[inline] def blamka (a b : UInt64) : UInt64 := a + b + 2 * lo32 a * lo32 b

/-- the multiplication-hardened BLAKE2b quarter round GB (§3.6) -/
@[inline] def GB (a b c d : UInt64) : UInt64 × UInt64 × UInt64 × UInt64 :=
  let a := blamka a b
  let d := Blake2b.rotr (d ^^^ a) 32
  let c := blamka c d
  let b := Blake2b.rotr (b ^^^ c) 24
  let a := blamka a b
  let d := Blake2b.rotr (d ^^^ a) 16
  let c := blamka c d
  let b := Blake2b.rotr (b ^^^ c) 63
  (a, b, c, d)

/-- GB applied to four positions of a word array -/
@[inline] def gbAt (v : Block) (ia ib ic id : Nat) : Block :=
  let (a, b, c, d) := GB v[ia]! v[ib]! v[ic]! v[id]!
  (((v.set! ia a).set! ib b).set! ic c).set! id d

/-- permutation P on the sixteen words at positions `ix 0 … ix 15`
(word `2i` / `2i+1` are the low / high halves of the 16-byte register `S_i`) -/
@[inline] def P (v : Block) (ix : Nat → Nat) : Block :=
  let v := gbAt v (ix 0) (ix 4) (ix 8)  (ix 12)
  let v := gbAt v (ix 1) (ix 5) (ix 9)  (ix 13)
  let v := gbAt v (ix 2) (ix 6) (ix 10) (ix 14)
  let v := gbAt v (ix 3) (ix 7) (ix 11) (ix 15)
  let v := gbAt v (ix 0) (ix 5) (ix 10) (ix 15)
  let v := gbAt v (ix 1) (ix 6) (ix 11) (ix 12)
  let v := gbAt v (ix 2) (ix 7) (ix 8)  (ix 13)
  let v := gbAt v (ix 3) (ix 4) (ix 9)  (ix 14)
  v

/-- word index of the `k`-th word of row `i` of the 8×8 matrix of 16-byte registers -/
@[inline] def rowIx (i k : Nat) : Nat := 16 * i + k
/-- word index of the `k`-th word of column `i` -/
@[inline] def colIx (i k : Nat) : Nat := 2 * i + 16 * (k / 2) + k % 2

/-- compression function G(X, Y) of §3.5 -/
def G (x y : Block) : Block :=
  let r := xorBlock x y
  let q := Nat.fold 8 (fun i _ v => P v (rowIx i)) r
  let z := Nat.fold 8 (fun i _ v => P v (colIx i)) q
  xorBlock z r

/-! ### Parameters -/

structure Params where
  ty : Nat
  /-- passes -/
  t : Nat
  /-- lanes -/
  p : Nat
  /-- m' = 4p⌊m/4p⌋ blocks -/
  m' : Nat
  /-- columns per lane, q = m'/p -/
  q : Nat
  /-- segment length q/4 -/
  sl : Nat

def mkParams (ty t m p : Nat) : Params :=
  let m' := 4 * p * (m / (4 * p))
  { ty, t, p, m', q := m' / p, sl := m' / p / syncPoints }

/-! ### Indexing (§3.4) -/

/-- data-independent addressing applies to Argon2i, and to Argon2id in the
first two slices of the first pass -/
def dataIndependent (ty r s : Nat) : Bool :=
  ty == 1 || (ty == 2 && r == 0 && s < 2)

/-- §3.4.1.2: the `ctr`-th (1-based) block of 128 (J1‖J2) pairs for pass `r`, lane `l`, slice `s`:
`G(ZERO, G(ZERO, LE64(r)‖LE64(l)‖LE64(sl)‖LE64(m')‖LE64(t)‖LE64(y)‖LE64(ctr)‖ZERO))` -/
def addressBlock (c : Params) (r l s ctr : Nat) : Block :=
  let inp : Block :=
    #[UInt64.ofNat r, UInt64.ofNat l, UInt64.ofNat s, UInt64.ofNat c.m',
      UInt64.ofNat c.t, UInt64.ofNat c.ty, UInt64.ofNat ctr]
    ++ Array.replicate (blockWords - 7) 0
  G zeroBlock (G zeroBlock inp)

/-- all (J1‖J2) words for one segment: index `idx` in the segment uses word
`idx % 128` of address block number `idx / 128 + 1` -/
def segmentAddresses (c : Params) (r l s : Nat) : Array UInt64 :=
  Nat.fold ((c.sl + blockWords - 1) / blockWords)
    (fun k _ acc => acc ++ addressBlock c r l s (k + 1)) #[]

/-- size of the reference set W for the block at segment index `idx` of
slice `s`, pass `r` (`sameLane`: the reference lane is the current lane) -/
def refAreaSize (c : Params) (r s idx : Nat) (sameLane : Bool) : Nat :=
  -- blocks of completed segments that may be referenced
  let done := if r == 0 then s * c.sl else c.q - c.sl
  if sameLane then done + idx - 1            -- plus this segment so far, minus the previous block
  else if idx == 0 then done - 1 else done

/-- column (within the reference lane) of the reference block: the mapping
`x = J1²/2³²; y = |W|·x/2³²; zz = |W| − 1 − y`, counted from the start of W -/
def refColumn (c : Params) (r s idx : Nat) (sameLane : Bool) (j1 : Nat) : Nat :=
  let w := refAreaSize c r s idx sameLane
  let x := (j1 * j1) / 2^32
  let y := (w * x) / 2^32
  let zz := w - 1 - y
  let start := if r == 0 || s == syncPoints - 1 then 0 else (s + 1) * c.sl
  (start + zz) % c.q

/-! ### Filling the memory -/

/-- compute block `idx` of segment (`r`, `l`, `s`) and store it -/
def fillBlock (c : Params) (addrs : Array UInt64) (r l s : Nat)
    (mem : Array Block) (idx : Nat) : Array Block :=
  let j := s * c.sl + idx
  let cur := l * c.q + j
  let prev := mem[l * c.q + (if j == 0 then c.q - 1 else j - 1)]!
  let pseudo : UInt64 := if dataIndependent c.ty r s then addrs[idx]! else prev[0]!
  let j1 := (lo32 pseudo).toNat
  let j2 := (pseudo >>> 32).toNat
  let refLane := if r == 0 && s == 0 then l else j2 % c.p
  let refCol := refColumn c r s idx (refLane == l) j1
  let new := G prev mem[refLane * c.q + refCol]!
  let new := if r == 0 then new else xorBlock new mem[cur]!
  mem.set! cur new

def fillSegment (c : Params) (r l s : Nat) (mem : Array Block) : Array Block :=
  let addrs := if dataIndependent c.ty r s then segmentAddresses c r l s else #[]
  let start := if r == 0 && s == 0 then 2 else 0
  Nat.fold (c.sl - start) (fun k _ mem => fillBlock c addrs r l s mem (start + k)) mem

def fillSlice (c : Params) (r s : Nat) (mem : Array Block) : Array Block :=
  Nat.fold c.p (fun l _ mem => fillSegment c r l s mem) mem

def fillPass (c : Params) (r : Nat) (mem : Array Block) : Array Block :=
  Nat.fold syncPoints (fun s _ mem => fillSlice c r s mem) mem

/-- first two columns of every lane: `B[i][k] = H'^1024(H0 ‖ LE32(k) ‖ LE32(i))` -/
def initMemory (c : Params) (h0 : Bytes) : Array Block :=
  Nat.fold c.p (fun i _ mem =>
    let mem := mem.set! (i * c.q) (blockOfBytes (hprime 1024 (h0 ++ le32 0 ++ le32 i)))
    mem.set! (i * c.q + 1) (blockOfBytes (hprime 1024 (h0 ++ le32 1 ++ le32 i))))
    (Array.replicate c.m' zeroBlock)

/-- XOR of the last column -/
def finalBlock (c : Params) (mem : Array Block) : Block :=
  Nat.fold c.p (fun i _ acc => xorBlock acc mem[i * c.q + c.q - 1]!) zeroBlock

/-- Argon2 (RFC 9106 §3.2).  `ty`: 0 = Argon2d, 1 = Argon2i, 2 = Argon2id;
`t` passes, `m` KiB of memory (`m ≥ 8p`), `p` lanes (`p ≥ 1`), `outlen ≥ 4` tag bytes. -/
def argon2 (ty : Nat) (password salt secret ad : Bytes) (t m p outlen : Nat) : Bytes :=
  let c := mkParams ty t m p
  let mem := initMemory c (h0 ty password salt secret ad t m p outlen)
  let mem := Nat.fold t (fun r _ mem => fillPass c r mem) mem
  hprime outlen (bytesOfBlock (finalBlock c mem))

end DryocVerif.Spec.Argon2
