/-
HMAC (RFC 2104) instantiated with SHA-512 (B = 128, L = 64), and libsodium's
`crypto_auth` = HMAC-SHA-512-256 (HMAC-SHA-512 truncated to 32 bytes).
-/
import DryocVerif.Bytes
import DryocVerif.Spec.Sha512

namespace DryocVerif.Spec.Hmac

open DryocVerif.Spec

def blockSize : Nat := 128

/-- RFC 2104 §2: keys longer than B are hashed; the result is zero-padded to B bytes. -/
def normKey (key : Bytes) : Bytes :=
  let k := if key.length > blockSize then Sha512.sha512 key else key
  k ++ zeros (blockSize - k.length)

def ipad : Bytes := List.replicate blockSize 0x36
def opad : Bytes := List.replicate blockSize 0x5c

/-- H(K xor opad ‖ H(K xor ipad ‖ text)) -/
def hmacSha512 (key msg : Bytes) : Bytes :=
  let k := normKey key
  Sha512.sha512 (xorBytes k opad ++ Sha512.sha512 (xorBytes k ipad ++ msg))

/-- libsodium `crypto_auth_hmacsha512256`: first 32 bytes of HMAC-SHA-512 -/
def hmacSha512256 (key msg : Bytes) : Bytes :=
  (hmacSha512 key msg).take 32

end DryocVerif.Spec.Hmac
