/-
SHA-512 executable specification (FIPS 180-4, §4.1.3, §4.2.3, §5.1.2, §5.3.5, §6.4).

Word arithmetic is on `UInt64` (wrapping `+`), the message schedule and the
chaining value are `Array UInt64`.  All functions are total: the schedule
and the 80 rounds are folds over `List.range`.
-/
import DryocVerif.Bytes

namespace DryocVerif.Spec.Sha512

/-- FIPS 180-4 §4.2.3: the eighty 64-bit round constants. -/
def K : Array UInt64 := #[
  0x428a2f98d728ae22, 0x7137449123ef65cd, 0xb5c0fbcfec4d3b2f, 0xe9b5dba58189dbbc,
  0x3956c25bf348b538, 0x59f111f1b605d019, 0x923f82a4af194f9b, 0xab1c5ed5da6d8118,
  0xd807aa98a3030242, 0x12835b0145706fbe, 0x243185be4ee4b28c, 0x550c7dc3d5ffb4e2,
  0x72be5d74f27b896f, 0x80deb1fe3b1696b1, 0x9bdc06a725c71235, 0xc19bf174cf692694,
  0xe49b69c19ef14ad2, 0xefbe4786384f25e3, 0x0fc19dc68b8cd5b5, 0x240ca1cc77ac9c65,
  0x2de92c6f592b0275, 0x4a7484aa6ea6e483, 0x5cb0a9dcbd41fbd4, 0x76f988da831153b5,
  0x983e5152ee66dfab, 0xa831c66d2db43210, 0xb00327c898fb213f, 0xbf597fc7beef0ee4,
  0xc6e00bf33da88fc2, 0xd5a79147930aa725, 0x06ca6351e003826f, 0x142929670a0e6e70,
  0x27b70a8546d22ffc, 0x2e1b21385c26c926, 0x4d2c6dfc5ac42aed, 0x53380d139d95b3df,
  0x650a73548baf63de, 0x766a0abb3c77b2a8, 0x81c2c92e47edaee6, 0x92722c851482353b,
  0xa2bfe8a14cf10364, 0xa81a664bbc423001, 0xc24b8b70d0f89791, 0xc76c51a30654be30,
  0xd192e819d6ef5218, 0xd69906245565a910, 0xf40e35855771202a, 0x106aa07032bbd1b8,
  0x19a4c116b8d2d0c8, 0x1e376c085141ab53, 0x2748774cdf8eeb99, 0x34b0bcb5e19b48a8,
  0x391c0cb3c5c95a63, 0x4ed8aa4ae3418acb, 0x5b9cca4f7763e373, 0x682e6ff3d6b2b8a3,
  0x748f82ee5defb2fc, 0x78a5636f43172f60, 0x84c87814a1f0ab72, 0x8cc702081a6439ec,
  0x90befffa23631e28, 0xa4506cebde82bde9, 0xbef9a3f7b2c67915, 0xc67178f2e372532b,
  0xca273eceea26619c, 0xd186b8c721c0c207, 0xeada7dd6cde0eb1e, 0xf57d4f7fee6ed178,
  0x06f067aa72176fba, 0x0a637dc5a2c898a6, 0x113f9804bef90dae, 0x1b710b35131c471b,
  0x28db77f523047d84, 0x32caab7b40c72493, 0x3c9ebe0a15c9bebc, 0x431d67c49c100d4c,
  0x4cc5d4becb3e42b6, 0x597f299cfc657e2a, 0x5fcb6fab3ad6faec, 0x6c44198c4a475817]

/-- FIPS 180-4 §5.3.5: initial hash value H(0). -/
def H0 : Array UInt64 := #[
  0x6a09e667f3bcc908, 0xbb67ae8584caa73b, 0x3c6ef372fe94f82b, 0xa54ff53a5f1d36f1,
  0x510e527fade682d1, 0x9b05688c2b3e6c1f, 0x1f83d9abfb41bd6b, 0x5be0cd19137e2179]

/-- ROTR^n(x), 0 < n < 64 -/
@[inline] def rotr (x n : UInt64) : UInt64 := (x >>> n) ||| (x <<< (64 - n))

@[inline] def ch (x y z : UInt64) : UInt64 := (x &&& y) ^^^ (~~~x &&& z)
@[inline] def maj (x y z : UInt64) : UInt64 := (x &&& y) ^^^ (x &&& z) ^^^ (y &&& z)
@[inline] def bigSigma0 (x : UInt64) : UInt64 := rotr x 28 ^^^ rotr x 34 ^^^ rotr x 39
@[inline] def bigSigma1 (x : UInt64) : UInt64 := rotr x 14 ^^^ rotr x 18 ^^^ rotr x 41
@[inline] def smallSigma0 (x : UInt64) : UInt64 := rotr x 1 ^^^ rotr x 8 ^^^ (x >>> 7)
@[inline] def smallSigma1 (x : UInt64) : UInt64 := rotr x 19 ^^^ rotr x 61 ^^^ (x >>> 6)

/-- big-endian 64-bit word from (up to) 8 bytes -/
def wordOfBytes (bs : Bytes) : UInt64 :=
  bs.foldl (fun w b => (w <<< 8) ||| b.toUInt64) 0

/-- the sixteen big-endian message words M_0..M_15 of a 128-byte block -/
def wordsOfBlock (block : Bytes) : Array UInt64 :=
  (chunks 8 block).foldl (fun acc c => acc.push (wordOfBytes c)) #[]

/-- §6.4.2 step 1: message schedule W_0..W_79 -/
def schedule (block : Bytes) : Array UInt64 :=
  (List.range 64).foldl
    (fun w i =>
      -- t = i + 16
      w.push (smallSigma1 (w.getD (i + 14) 0) + w.getD (i + 9) 0
              + smallSigma0 (w.getD (i + 1) 0) + w.getD i 0))
    (wordsOfBlock block)

/-- the eight working variables a..h -/
structure St where
  a : UInt64
  b : UInt64
  c : UInt64
  d : UInt64
  e : UInt64
  f : UInt64
  g : UInt64
  h : UInt64

/-- §6.4.2 step 3, one iteration with round constant `k` and schedule word `w` -/
@[inline] def round (s : St) (k w : UInt64) : St :=
  let t1 := s.h + bigSigma1 s.e + ch s.e s.f s.g + k + w
  let t2 := bigSigma0 s.a + maj s.a s.b s.c
  { a := t1 + t2, b := s.a, c := s.b, d := s.c, e := s.d + t1, f := s.e, g := s.f, h := s.g }

def stOfArray (h : Array UInt64) : St :=
  { a := h.getD 0 0, b := h.getD 1 0, c := h.getD 2 0, d := h.getD 3 0,
    e := h.getD 4 0, f := h.getD 5 0, g := h.getD 6 0, h := h.getD 7 0 }

/-- §6.4.2: process one 128-byte block, returning the next chaining value (8 words). -/
def compress (h : Array UInt64) (block : Bytes) : Array UInt64 :=
  let w := schedule block
  let s0 := stOfArray h
  let s := (List.range 80).foldl (fun s t => round s (K.getD t 0) (w.getD t 0)) s0
  #[s0.a + s.a, s0.b + s.b, s0.c + s.c, s0.d + s.d,
    s0.e + s.e, s0.f + s.f, s0.g + s.g, s0.h + s.h]

/-- §5.1.2: append 0x80, then k zero bytes with len+1+k ≡ 112 (mod 128), then the
128-bit big-endian bit length. -/
def pad (msg : Bytes) : Bytes :=
  let n := msg.length
  let k := (128 - (n + 17) % 128) % 128
  msg ++ (0x80 :: zeros k) ++ toBE 16 (8 * n)

/-- serialise the chaining value: eight big-endian 64-bit words -/
def digestOfState (h : Array UInt64) : Bytes :=
  h.toList.flatMap (fun w => toBE 8 w.toNat)

/-- SHA-512 (64-byte digest) -/
def sha512 (msg : Bytes) : Bytes :=
  digestOfState ((chunks 128 (pad msg)).foldl compress H0)

end DryocVerif.Spec.Sha512
