import DryocVerif.Bytes
import DryocVerif.Spec.Poly1305
import DryocVerif.Spec.Salsa20
import DryocVerif.Spec.X25519
import DryocVerif.Spec.Blake2b
/-
The NaCl / libsodium constructions, stated directly (no buffers, no API forms):
  secretbox(k,n,m) = tag ‖ c,  c = m ⊕ ks[32..],  tag = Poly1305(ks[0..32], c),  ks = XSalsa20(k,n)
  box = secretbox under HSalsa20(X25519(sk,pk), 0¹⁶)
  seal = epk ‖ box(nonce = BLAKE2b-24(epk ‖ rpk), rpk, esk)
-/
namespace DryocVerif.Spec.NaCl
open DryocVerif

def secretbox (k n m : Bytes) : Bytes :=
  let ks := Salsa20.xsalsa20Stream k n 0 (32 + m.length)
  let c := xorBytes m (ks.drop 32)
  Poly1305.mac (ks.take 32) c ++ c

def secretboxOpen (k n ct : Bytes) : Option Bytes :=
  if ct.length < 16 then none
  else
    let tag := ct.take 16
    let c := ct.drop 16
    let ks := Salsa20.xsalsa20Stream k n 0 (32 + c.length)
    if Poly1305.mac (ks.take 32) c = tag then some (xorBytes c (ks.drop 32)) else none

def beforenm (pk sk : Bytes) : Bytes := Salsa20.hsalsa20 (X25519.x25519 sk pk) (zeros 16)

def box (pk sk n m : Bytes) : Bytes := secretbox (beforenm pk sk) n m
def boxOpen (pk sk n ct : Bytes) : Option Bytes := secretboxOpen (beforenm pk sk) n ct

def sealNonce (epk rpk : Bytes) : Bytes := Blake2b.hash 24 [] (epk ++ rpk)

def boxSeal (rpk esk m : Bytes) : Bytes :=
  let epk := X25519.x25519Base esk
  epk ++ box rpk esk (sealNonce epk rpk) m

def sealOpen (rpk rsk ct : Bytes) : Option Bytes :=
  if ct.length < 48 then none
  else
    let epk := ct.take 32
    boxOpen epk rsk (sealNonce epk rpk) (ct.drop 32)

/-! ### libsodium's refusal of the all-zero shared secret (finding F17 of property C05)

`beforenm` / `box` / `boxOpen` / `boxSeal` / `sealOpen` above are the NaCl CONSTRUCTION (the formulas of the
NaCl paper): total functions, defined for every public key.  libsodium's `crypto_box_beforenm` additionally
returns −1 when the X25519 output is all-zero (a small-order public key), and so `crypto_box_easy`,
`_detached`, `_open_easy`, `_open_detached`, `crypto_box_seal`, `crypto_box_seal_open` all fail for such a key.
dryoc's `crypto_box_curve25519xsalsa20poly1305_beforenm` is infallible.  The `…Sodium` functions below are
libsodium's behaviour; they agree with the construction exactly when the shared secret is not all-zero
(`beforenmSodium_eq` and its corollaries). -/

/-- libsodium's `crypto_box_beforenm`: `none` (return value −1) when the X25519 shared secret is all-zero -/
def beforenmSodium (pk sk : Bytes) : Option Bytes :=
  let s := X25519.x25519 sk pk
  if s = zeros 32 then none else some (Salsa20.hsalsa20 s (zeros 16))

/-- libsodium's `crypto_box_easy` -/
def boxSodium (pk sk n m : Bytes) : Option Bytes := (beforenmSodium pk sk).map fun k => secretbox k n m

/-- libsodium's `crypto_box_open_easy` -/
def boxOpenSodium (pk sk n ct : Bytes) : Option Bytes := (beforenmSodium pk sk).bind fun k => secretboxOpen k n ct

/-- libsodium's `crypto_box_seal` with ephemeral secret `esk` -/
def boxSealSodium (rpk esk m : Bytes) : Option Bytes :=
  let epk := X25519.x25519Base esk
  (boxSodium rpk esk (sealNonce epk rpk) m).map fun b => epk ++ b

/-- libsodium's `crypto_box_seal_open` -/
def sealOpenSodium (rpk rsk ct : Bytes) : Option Bytes :=
  if ct.length < 48 then none
  else
    let epk := ct.take 32
    boxOpenSodium epk rsk (sealNonce epk rpk) (ct.drop 32)

/-- whenever the shared secret is not all-zero, libsodium's `crypto_box_beforenm` is the NaCl construction -/
theorem beforenmSodium_eq (pk sk : Bytes) (h : X25519.x25519 sk pk ≠ zeros 32) :
    beforenmSodium pk sk = some (beforenm pk sk) := by
  unfold beforenmSodium beforenm
  simp only []
  rw [if_neg h]

/-- … and it refuses exactly the all-zero shared secret -/
theorem beforenmSodium_none_iff (pk sk : Bytes) :
    beforenmSodium pk sk = none ↔ X25519.x25519 sk pk = zeros 32 := by
  unfold beforenmSodium
  simp only []
  constructor
  · intro h
    apply Classical.byContradiction
    intro hn
    rw [if_neg hn] at h
    cases h
  · intro h
    rw [if_pos h]

theorem boxSodium_eq (pk sk n m : Bytes) (h : X25519.x25519 sk pk ≠ zeros 32) :
    boxSodium pk sk n m = some (box pk sk n m) := by
  unfold boxSodium box
  rw [beforenmSodium_eq pk sk h]
  rfl

theorem boxOpenSodium_eq (pk sk n ct : Bytes) (h : X25519.x25519 sk pk ≠ zeros 32) :
    boxOpenSodium pk sk n ct = boxOpen pk sk n ct := by
  unfold boxOpenSodium boxOpen
  rw [beforenmSodium_eq pk sk h]
  rfl

theorem boxSealSodium_eq (rpk esk m : Bytes) (h : X25519.x25519 esk rpk ≠ zeros 32) :
    boxSealSodium rpk esk m = some (boxSeal rpk esk m) := by
  unfold boxSealSodium boxSeal
  simp only []
  rw [boxSodium_eq rpk esk _ m h]
  rfl

theorem sealOpenSodium_eq (rpk rsk ct : Bytes) (h : X25519.x25519 rsk (ct.take 32) ≠ zeros 32) :
    sealOpenSodium rpk rsk ct = sealOpen rpk rsk ct := by
  unfold sealOpenSodium sealOpen
  simp only []
  rw [boxOpenSodium_eq (ct.take 32) rsk _ _ h]

end DryocVerif.Spec.NaCl
