import DryocVerif.Bytes
import DryocVerif.Spec.Poly1305
import DryocVerif.Spec.Salsa20
import DryocVerif.Spec.X25519
import DryocVerif.Spec.Blake2b
/-
The NaCl / libsodium constructions, stated directly (no buffers, no API forms):
  secretbox(k,n,m) = tag ‖ c,  c = m ⊕ ks[32..],  tag = Poly1305(ks[0..32], c),  ks = XSalsa20(k,n)
  box = secretbox under HSalsa20(X25519(sk,pk), 0¹⁶)
  seal = epk ‖ box(nonce = BLAKE2b-24(epk ‖ rpk), rpk, esk)
-/
namespace DryocVerif.Spec.NaCl
open DryocVerif

def secretbox (k n m : Bytes) : Bytes :=
  let ks := Salsa20.xsalsa20Stream k n 0 (32 + m.length)
  let c := xorBytes m (ks.drop 32)
  Poly1305.mac (ks.take 32) c ++ c

def secretboxOpen (k n ct : Bytes) : Option Bytes :=
  if ct.length < 16 then none
  else
    let tag := ct.take 16
    let c := ct.drop 16
    let ks := Salsa20.xsalsa20Stream k n 0 (32 + c.length)
    if Poly1305.mac (ks.take 32) c = tag then some (xorBytes c (ks.drop 32)) else none

def beforenm (pk sk : Bytes) : Bytes := Salsa20.hsalsa20 (X25519.x25519 sk pk) (zeros 16)

def box (pk sk n m : Bytes) : Bytes := secretbox (beforenm pk sk) n m
def boxOpen (pk sk n ct : Bytes) : Option Bytes := secretboxOpen (beforenm pk sk) n ct

def sealNonce (epk rpk : Bytes) : Bytes := Blake2b.hash 24 [] (epk ++ rpk)

def boxSeal (rpk esk m : Bytes) : Bytes :=
  let epk := X25519.x25519Base esk
  epk ++ box rpk esk (sealNonce epk rpk) m

def sealOpen (rpk rsk ct : Bytes) : Option Bytes :=
  if ct.length < 48 then none
  else
    let epk := ct.take 32
    boxOpen epk rsk (sealNonce epk rpk) (ct.drop 32)

end DryocVerif.Spec.NaCl
