/-
X25519 executable specification, RFC 7748 §5.

Field elements are `Nat`s; every field operation reduces modulo
`p = 2^255 - 19`, and is correct for *arbitrary* (also unreduced) `Nat`
arguments, so no invariant "argument < p" is needed anywhere.
-/
import DryocVerif.Bytes

namespace DryocVerif.Spec.X25519

/-- the field prime 2^255 - 19 -/
def p : Nat := 57896044618658097711785492504343953926634992332820282019728792003956564819949

/-- (A - 2) / 4 for the Montgomery curve v^2 = u^3 + A u^2 + u, A = 486662 -/
def a24 : Nat := 121665

/-! ### arithmetic in GF(p) -/

@[inline] def fadd (a b : Nat) : Nat := (a + b) % p
@[inline] def fsub (a b : Nat) : Nat := (a + (p - b % p)) % p
@[inline] def fmul (a b : Nat) : Nat := (a * b) % p
@[inline] def fsq (a : Nat) : Nat := (a * a) % p
@[inline] def fneg (a : Nat) : Nat := (p - a % p) % p

/-- Right-to-left square-and-multiply over the `bits` low bits of `e`:
returns `acc * b^(e mod 2^bits) mod p`. -/
def fpowAux : Nat → Nat → Nat → Nat → Nat
  | 0, _, _, acc => acc
  | bits + 1, b, e, acc =>
    fpowAux bits (fsq b) (e / 2) (if e % 2 = 1 then fmul acc b else acc)

/-- `b ^ e mod p` for exponents `e < 2^255` (all exponents used here are `< p`). -/
def fpow (b e : Nat) : Nat := fpowAux 255 (b % p) e 1

/-- inverse by Fermat: `a^(p-2)`; maps 0 to 0 -/
def finv (a : Nat) : Nat := fpow a (p - 2)

/-! ### RFC 7748 §5 decoding -/

/-- RFC 7748 `decodeScalar25519` byte manipulation: on the first 32 bytes,
`k[0] &= 248; k[31] &= 127; k[31] |= 64`. -/
def clamp (k : Bytes) : Bytes :=
  ((k.take 32).modify 0 (· &&& 248)).modify 31 (fun b => (b &&& 127) ||| 64)

/-- RFC 7748 `decodeScalar25519` -/
def decodeScalar25519 (k : Bytes) : Nat := le (clamp k)

/-- RFC 7748 `decodeUCoordinate` for bits = 255: mask the most significant bit of the
last (32nd) byte, then decode little-endian.  The result may be ≥ p (non-canonical
u); it is not reduced here, the ladder works modulo p. -/
def decodeUCoordinate (u : Bytes) : Nat :=
  le ((u.take 32).modify 31 (· &&& 127))

/-- RFC 7748 `encodeUCoordinate`: reduce mod p, 32 bytes little-endian -/
def encodeUCoordinate (u : Nat) : Bytes := toLE 32 (u % p)

/-! ### the Montgomery ladder -/

/-- RFC 7748 `cswap`: swap iff `swap = 1` (the RFC's mask/XOR formulation computes
exactly this for swap ∈ {0,1}). -/
@[inline] def cswap (swap : Nat) (a b : Nat) : Nat × Nat :=
  if swap = 1 then (b, a) else (a, b)

structure LadderState where
  x2 : Nat
  z2 : Nat
  x3 : Nat
  z3 : Nat
  swap : Nat

/-- body of the RFC 7748 loop for bit index `t` -/
def ladderStep (k x1 : Nat) (s : LadderState) (t : Nat) : LadderState :=
  let kt := (k >>> t) % 2
  let swap := s.swap ^^^ kt
  let (x2, x3) := cswap swap s.x2 s.x3
  let (z2, z3) := cswap swap s.z2 s.z3
  let A := fadd x2 z2
  let AA := fsq A
  let B := fsub x2 z2
  let BB := fsq B
  let E := fsub AA BB
  let C := fadd x3 z3
  let D := fsub x3 z3
  let DA := fmul D A
  let CB := fmul C B
  { x3 := fsq (fadd DA CB)
    z3 := fmul x1 (fsq (fsub DA CB))
    x2 := fmul AA BB
    z2 := fmul E (fadd AA (fmul a24 E))
    swap := kt }

/-- `For t = n-1 down to 0` -/
def ladderLoop (k x1 : Nat) : Nat → LadderState → LadderState
  | 0, s => s
  | n + 1, s => ladderLoop k x1 n (ladderStep k x1 s n)

/-- RFC 7748 §5 `X25519(k, u)` on decoded integers (bits = 255):
returns `x_2 * z_2^(p-2) mod p`. -/
def ladder (k u : Nat) : Nat :=
  let s := ladderLoop k u 255 { x2 := 1, z2 := 0, x3 := u, z3 := 1, swap := 0 }
  let (x2, _) := cswap s.swap s.x2 s.x3
  let (z2, _) := cswap s.swap s.z2 s.z3
  fmul x2 (fpow z2 (p - 2))

/-- X25519 on byte strings: 32-byte little-endian result -/
def x25519 (k u : Bytes) : Bytes :=
  encodeUCoordinate (ladder (decodeScalar25519 k) (decodeUCoordinate u))

/-- u = 9 -/
def basePoint : Bytes := 9 :: zeros 31

def x25519Base (k : Bytes) : Bytes := x25519 k basePoint

end DryocVerif.Spec.X25519
