import DryocVerif.Bytes
import DryocVerif.Model.Utils
import DryocVerif.Model.Blake2b
import DryocVerif.Model.Blake2bSimdTables
/-
Model of the compression function of /repo/src/blake2b/blake2b_simd.rs (the nightly
portable-SIMD backend), in the shape of the Rust code.

* `Simd<u64, 4>` is `V = V4 UInt64`, a structure of four lanes; `+`, `^`, `|`, `<<`, `>>` act
  lane by lane (`+` wraps, as on `Simd<u64, N>`).
* `simd_swizzle!(u, idx)` / `simd_swizzle!(u, v, idx)` are `swizzle1` / `swizzle2`: they
  INTERPRET an index list (indices 0..3 select lanes of `u`, 4..7 lanes of `v`).
* every index list, message-vector source, rotation amount, IV word, byte offset, the order
  of the flag words and the final xors are read from `Blake2bSimdTables`, which
  `tools/simd_tables.py` regenerates from the Rust source.  This file only fixes the ORDER of
  the statements (which the translator checks against the source).
* `State` of the SIMD backend keeps the chaining value as `a` = `h[0..4]`, `b` = `h[4..8]`;
  `update` / `finalize` / `init` are the same text as in `blake2b_soft.rs`
  (`Model.Blake2b.updateC` …, parametric in the compression function), so `compress` here has
  the type `Model.Blake2b.Compress`: `h` in, new `h` out.

The vector type is polymorphic in the lane type so that the message schedule can also be
evaluated on word INDICES (`V4 Nat`) — see `Proofs/Blake2bSimd.lean`.
-/
namespace DryocVerif.Model.Blake2bSimd
open DryocVerif
open DryocVerif.Model.Utils (loadU64LE slice)
open DryocVerif.Model.Blake2bSimdTables

/-- four lanes -/
structure V4 (α : Type) where
  l0 : α
  l1 : α
  l2 : α
  l3 : α
  deriving Repr, DecidableEq, Inhabited

/-- two lanes (`Simd<u64, 2>` in `loadm`) -/
structure V2 (α : Type) where
  l0 : α
  l1 : α
  deriving Repr, DecidableEq, Inhabited

namespace V4
variable {α β γ : Type}

def map (f : α → β) (v : V4 α) : V4 β := ⟨f v.l0, f v.l1, f v.l2, f v.l3⟩

def zipWith (f : α → β → γ) (u : V4 α) (v : V4 β) : V4 γ :=
  ⟨f u.l0 v.l0, f u.l1 v.l1, f u.l2 v.l2, f u.l3 v.l3⟩

/-- `Simd::from([x, x, x, x])` -/
def splat (x : α) : V4 α := ⟨x, x, x, x⟩

/-- lane `i` (`i < 4` for every index the translator accepts) -/
def lane (v : V4 α) : Nat → α
  | 0 => v.l0
  | 1 => v.l1
  | 2 => v.l2
  | _ => v.l3

end V4

def V2.lane {α : Type} (v : V2 α) : Nat → α
  | 0 => v.l0
  | _ => v.l1

section swizzle
variable {α : Type}

/-- the four lanes selected by an index list (the translator only emits lists of length 4) -/
def pick (f : Nat → α) (idx : List Nat) : V4 α :=
  ⟨f (idx.getD 0 0), f (idx.getD 1 0), f (idx.getD 2 0), f (idx.getD 3 0)⟩

/-- lane `i` of the concatenation `u ‖ v` -/
def sel2 (u v : V4 α) (i : Nat) : α := if i < 4 then u.lane i else v.lane (i - 4)

/-- `simd_swizzle!(u, idx)` -/
def swizzle1 (u : V4 α) (idx : List Nat) : V4 α := pick u.lane idx

/-- `simd_swizzle!(u, v, idx)` -/
def swizzle2 (u v : V4 α) (idx : List Nat) : V4 α := pick (sel2 u v) idx

/-- `simd_swizzle!(u, idx)` from two lanes to four -/
def swizzle2to4 (u : V2 α) (idx : List Nat) : V4 α := pick u.lane idx

end swizzle

/-- `Simd<u64, 4>` -/
abbrev V := V4 UInt64

instance : Add V := ⟨V4.zipWith (· + ·)⟩
instance : XorOp V := ⟨V4.zipWith (· ^^^ ·)⟩
instance : OrOp V := ⟨V4.zipWith (· ||| ·)⟩
instance : ShiftLeft V := ⟨V4.zipWith (· <<< ·)⟩
instance : ShiftRight V := ⟨V4.zipWith (· >>> ·)⟩

/-! ### message vectors -/

section msg
variable {α : Type} [Inhabited α]

/-- `m[i]` -/
def getM (M : List (V4 α)) (i : Nat) : V4 α := M.getD i default

/-- `simd_swizzle!(m[i], m[j], idx)` / `simd_swizzle!(m[i], idx)` -/
def sw (M : List (V4 α)) : Sw → V4 α
  | .two i j idx => swizzle2 (getM M i) (getM M j) idx
  | .one i idx => swizzle1 (getM M i) idx

/-- `t0 = …; t1 = …; b0 = simd_swizzle!(t0, t1, […]);` — the value of `b0` -/
def msgVec (M : List (V4 α)) (mv : MsgVec) : V4 α :=
  let t0 := sw M mv.t0
  let t1 := sw M mv.t1
  let b0 := swizzle2 t0 t1 mv.b0
  b0

end msg

/-- `fn loadm`, parametric in the load: `ld s e` stands for `load_u64_le(&block[s..e])` -/
def loadmG {α : Type} (ld : Nat → Nat → α) : List (V4 α) :=
  loadmOffsets.map fun (s, m, e) => swizzle2to4 (⟨ld s m, ld m e⟩ : V2 α) loadmDup

/-- `fn loadm(block: &[u8]) -> [Simd<u64, 4>; 8]` -/
def loadm (block : Bytes) : List V := loadmG fun s e => loadU64LE (slice block s e)

/-! ### `rotru64`, `g1`, `g2`, `permute`, `unpermute` -/

/-- `fn rotru64(v, n)`: `(v >> Simd::from([n; 4])) | (v << Simd::from([64 - n; 4]))` -/
def rotru64 (v : V) (n : UInt64) : V :=
  (v >>> V4.splat n) ||| (v <<< V4.splat (rotWidth - n))

/-- the four vector registers `a`, `b`, `c`, `d` of `compress` -/
structure St where
  a : V
  b : V
  c : V
  d : V
  deriving Repr, DecidableEq, Inhabited

/-- `fn g1(a, b, c, d, m)` -/
def g1 (s : St) (m : V) : St :=
  let a := s.a + s.b + m
  let d := rotru64 (s.d ^^^ a) g1RotD
  let c := s.c + d
  let b := rotru64 (s.b ^^^ c) g1RotB
  ⟨a, b, c, d⟩

/-- `fn g2(a, b, c, d, m)` -/
def g2 (s : St) (m : V) : St :=
  let a := s.a + s.b + m
  let d := rotru64 (s.d ^^^ a) g2RotD
  let c := s.c + d
  let b := rotru64 (s.b ^^^ c) g2RotB
  ⟨a, b, c, d⟩

/-- `fn permute(a, c, d)` (`b` stays) -/
def permute (s : St) : St :=
  { s with a := swizzle1 s.a permuteA, d := swizzle1 s.d permuteD, c := swizzle1 s.c permuteC }

/-- `fn unpermute(a, c, d)` -/
def unpermute (s : St) : St :=
  { s with a := swizzle1 s.a unpermuteA, d := swizzle1 s.d unpermuteD, c := swizzle1 s.c unpermuteC }

/-- one `// round n` paragraph of `compress` -/
def round (M : List V) (R : Round) (s : St) : St :=
  let s := g1 s (msgVec M R.m1)
  let s := g2 s (msgVec M R.m2)
  let s := permute s
  let s := g1 s (msgVec M R.m3)
  let s := g2 s (msgVec M R.m4)
  let s := unpermute s
  s

/-! ### prologue and epilogue of `compress` -/

/-- `Simd::<u64, 4>::from_slice(&IV[off..off + 4])` -/
def ivSlice (off : Nat) : V :=
  ⟨IV.getD off 0, IV.getD (off + 1) 0, IV.getD (off + 2) 0, IV.getD (off + 3) 0⟩

/-- `st[i]` / `sf[i]` -/
def flagWord (t0 t1 f0 f1 : UInt64) : Flag → UInt64
  | .st 0 => t0
  | .st _ => t1
  | .sf 0 => f0
  | .sf _ => f1

/-- the registers live at the end of `compress` -/
structure Regs where
  a : V
  b : V
  c : V
  d : V
  iv0 : V
  iv1 : V

def Regs.get (r : Regs) : Reg → V
  | .a => r.a
  | .b => r.b
  | .c => r.c
  | .d => r.d
  | .iv0 => r.iv0
  | .iv1 => r.iv1

def Regs.set (r : Regs) (x : Reg) (v : V) : Regs :=
  match x with
  | .a => { r with a := v }
  | .b => { r with b := v }
  | .c => { r with c := v }
  | .d => { r with d := v }
  | .iv0 => { r with iv0 := v }
  | .iv1 => { r with iv1 := v }

/-- `*x ^= y;` -/
def xorAssign (r : Regs) (p : Reg × Reg) : Regs := r.set p.1 (r.get p.1 ^^^ r.get p.2)

/-- `fn compress(a, b, st, sf, block)` with `a` = `h[0..4]`, `b` = `h[4..8]`, `st` = `[t0, t1]`,
`sf` = `[f0, f1]`; returns the new `a ‖ b`.  `h` has 8 words and `block` 128 bytes at every
call site. -/
def compress (h : Array UInt64) (t0 t1 f0 f1 : UInt64) (block : Bytes) : Array UInt64 :=
  let a : V := ⟨h[0]!, h[1]!, h[2]!, h[3]!⟩
  let b : V := ⟨h[4]!, h[5]!, h[6]!, h[7]!⟩
  -- let mut c = Simd::<u64, 4>::from_slice(&IV[..4]);
  let c := ivSlice cIv
  -- let flags = Simd::<u64, 4>::from([st[0], st[1], sf[0], sf[1]]);
  let flags : V := pick (fun i => flagWord t0 t1 f0 f1 (Blake2bSimdTables.flags.getD i default)) [0, 1, 2, 3]
  -- let mut d = Simd::<u64, 4>::from_slice(&IV[4..]) ^ flags;
  let d := ivSlice dIv ^^^ flags
  let m := loadm block
  let iv0 := a
  let iv1 := b
  -- round 1 … round 12
  let s := rounds.foldl (fun s R => round m R s) (⟨a, b, c, d⟩ : St)
  -- *a ^= c; *b ^= d; *a ^= iv0; *b ^= iv1;
  let r := finalXor.foldl xorAssign (⟨s.a, s.b, s.c, s.d, iv0, iv1⟩ : Regs)
  #[r.a.l0, r.a.l1, r.a.l2, r.a.l3, r.b.l0, r.b.l1, r.b.l2, r.b.l3]

/-! ### instances of the shared buffering code for `blake2b_simd.rs` -/

open DryocVerif.Model.Blake2b (State updateC finalizeC initC hashChunksC)

def init (outlen : Nat) (key salt personal : Option Bytes) : Outcome State :=
  initC compress outlen key salt personal

def update (st : State) (input : Bytes) : State := updateC compress st input

def finalize (st : State) (outLen : Nat) : Outcome Bytes := finalizeC compress st outLen

/-- incremental use: `init(outLen, key, None, None)`, `update(c₁)`, …, `update(cₙ)`, `finalize` -/
def hashChunks (outLen : Nat) (key : Option Bytes) (cs : List Bytes) : Outcome Bytes :=
  hashChunksC compress outLen key none none cs

end DryocVerif.Model.Blake2bSimd
