import DryocVerif.Bytes
/-
Model of dryoc's own code around Curve25519: /repo/src/scalarmult_curve25519.rs,
classic/crypto_box_impl.rs (key pairs, beforenm), classic/crypto_kx.rs, kx.rs,
classic/crypto_kdf.rs, kdf.rs and the key-generation part of keypair.rs / sign.rs.

The group arithmetic itself lives in curve25519-dalek and the hashes in other modules:
they are parameters (`Prims`).  What is modelled is *which* scalar and point are fed
to them, the clamp, the key schedules, the length checks and the all-zero refusal.
-/
namespace DryocVerif.Model.Curve
open DryocVerif

structure Prims where
  /-- Montgomery ladder on a 32-byte little-endian scalar (used as is, no clamping) and a u-coordinate encoding -/
  ladder : Bytes → Bytes → Bytes
  /-- 9 -/
  base : Bytes
  hsalsa : Bytes → Bytes → Bytes
  sha512 : Bytes → Bytes
  /-- BLAKE2b `outlen key salt personal msg` -/
  blake2b : Nat → Bytes → Bytes → Bytes → Bytes → Bytes

/-- `clamp` of scalarmult_curve25519.rs -/
def clamp (n : Bytes) : Bytes :=
  match n with
  | [] => []
  | b0 :: rest =>
    let s := (b0 &&& 248) :: rest
    s.take 31 ++ (s.drop 31).map (fun b => (b &&& 127) ||| 64)

/-- `crypto_scalarmult_curve25519`: the ladder is driven by the clamped scalar itself -/
def scalarmult (P : Prims) (n p : Bytes) : Bytes := P.ladder (clamp n) p

/-- `crypto_scalarmult_curve25519_base` -/
def scalarmultBase (P : Prims) (n : Bytes) : Bytes := P.ladder (clamp n) P.base

/-- `crypto_box_beforenm` -/
def beforenm (P : Prims) (pk sk : Bytes) : Bytes := P.hsalsa (scalarmult P sk pk) (zeros 16)

/-- `crypto_box_seed_keypair` for a seed of any length: (pk, sk) -/
def boxSeedKeypair (P : Prims) (seed : Bytes) : Bytes × Bytes :=
  let sk := (P.sha512 seed).take 32
  (scalarmultBase P sk, sk)

/-- `crypto_kx_seed_keypair` -/
def kxSeedKeypair (P : Prims) (seed : Bytes) : Bytes × Bytes :=
  let sk := P.blake2b 32 [] [] [] seed
  (scalarmultBase P sk, sk)

/-- `crypto_kx` : (x1, x2) -/
def kx (P : Prims) (clientPk serverPk shared : Bytes) : Bytes × Bytes :=
  let keys := P.blake2b 64 [] [] [] (shared ++ clientPk ++ serverPk)
  (keys.take 32, keys.drop 32)

/-- `crypto_kx_client_session_keys` → (rx, tx); an all-zero shared secret is refused -/
def kxClient (P : Prims) (cpk csk spk : Bytes) : Outcome (Bytes × Bytes) :=
  let q := scalarmult P csk spk
  if q = zeros 32 then .err else .ok (kx P cpk spk q)

/-- `crypto_kx_server_session_keys` → (rx, tx) -/
def kxServer (P : Prims) (spk ssk cpk : Bytes) : Outcome (Bytes × Bytes) :=
  let q := scalarmult P ssk cpk
  if q = zeros 32 then .err
  else
    let (x1, x2) := kx P cpk spk q
    .ok (x2, x1)

/-- `crypto_kdf_derive_from_key(subkey[len], id, ctx, key)` -/
def kdfDerive (P : Prims) (len : Nat) (id : Nat) (ctx key : Bytes) : Outcome Bytes :=
  if len < 16 ∨ 64 < len then .err
  else .ok (P.blake2b len key (toLE 8 id ++ zeros 8) (ctx ++ zeros 8) [])

end DryocVerif.Model.Curve
