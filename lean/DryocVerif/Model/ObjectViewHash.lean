import DryocVerif.Model.ArrayView
import DryocVerif.Model.Blake2b
import DryocVerif.Model.Core
import DryocVerif.Model.Poly1305
/-
Three more container rules of the OBJECT API for containers whose length is not in their type (`Vec<u8>`, `&[u8]`,
`[u8]`), none of which is the `as_array` rule of `Model/ObjectView.lean` alone.  (`Model/ObjectView.lean` is left as
it is; this file adds to it.)

(a) /repo/src/generichash.rs — `GenericHash::<KEY_LENGTH, OUTPUT_LENGTH>::new(key)`, `hash(input, key)`,
    `new_with_defaults`, `hash_with_defaults`, `hash_to_vec`, …: the key is `Option<&Key>` with
    `Key: ByteArray<KEY_LENGTH>`, and it is passed on as `key.map(|k| k.as_slice())` — the WHOLE container, not
    `as_array()`.  `KEY_LENGTH` is a type-level decoration only: a 64-byte `Vec` with `KEY_LENGTH = 32` is hashed
    WHOLE (all 64 bytes are the BLAKE2b key), and a short `Vec` is not a panic but whatever
    `crypto_generichash_blake2b_validate_key` says: `Err` below 16 bytes.  This is the OPPOSITE of `Auth` / `OnetimeAuth`
    (`key.as_array()`: panic when short, first 32 bytes when long).
(b) /repo/src/sha512.rs — `Sha512::finalize_into_bytes(output)` / `Sha512::compute_into_bytes(output, input)`:
    `GenericArray::<_, U64>::from_mut_slice(output.as_mut_slice())`, and `from_mut_slice` asserts
    `slice.len() == 64`: a 65-byte `Vec` PANICS — everywhere else in the crate "at least `N` bytes" is accepted.
(c) /repo/src/auth.rs, /repo/src/onetimeauth.rs — `Auth::compute(key, input)`, `Auth::new(key) … finalize()`,
    `OnetimeAuth::compute(key, input)`, `OnetimeAuth::new(key) … finalize()`: `key.as_array()` (32), the output is
    `Output::new_byte_array()` (exact length, `as_mut_array` cannot fail): panic iff the key container is shorter than
    32 bytes, prefix view otherwise.

Core only (no Mathlib).
-/
namespace DryocVerif.Model.ObjectViewHash
open DryocVerif DryocVerif.Model.ArrayView

/-! ### (a) `GenericHash` -/

/-- `GenericHash::<KEY_LENGTH, OUTPUT_LENGTH>::hash(input, key)`: `let mut output = Output::new_byte_array()`
(`OUTPUT_LENGTH` bytes), `crypto_generichash(output.as_mut_slice(), input.as_slice(), key.map(|k| k.as_slice()))?`.
`keyLength` (= `KEY_LENGTH`) is NOT used: that is the point. -/
def genericHashObj (_keyLength outputLength : Nat) (input : Bytes) (key : Option Bytes) : Outcome Bytes :=
  Model.Blake2b.generichash outputLength input key

/-- `GenericHash::<KEY_LENGTH, OUTPUT_LENGTH>::new(key)`: `crypto_generichash_init(key.map(|k| k.as_slice()), OUTPUT_LENGTH)?` -/
def genericHashObjNew (_keyLength outputLength : Nat) (key : Option Bytes) : Outcome Model.Blake2b.State :=
  Model.Blake2b.generichashInit key outputLength none none

/-- `GenericHash::new(key)?`, `update(c)` for each chunk, `finalize()`: `Output::new_byte_array()` (`OUTPUT_LENGTH`
bytes) and `crypto_generichash_final(self.state, output.as_mut_slice())?` -/
def genericHashObjChunks (keyLength outputLength : Nat) (key : Option Bytes) (cs : List Bytes) : Outcome Bytes :=
  match genericHashObjNew keyLength outputLength key with
  | .ok st => Model.Blake2b.generichashFinal (cs.foldl Model.Blake2b.generichashUpdate st) outputLength
  | .err => .err
  | .panic => .panic

/-- what the `Auth`-style rule (`key.as_array()`) WOULD give — for comparison only, the code does not do this -/
def genericHashObjIfViewed (keyLength outputLength : Nat) (input key : Bytes) : Outcome Bytes :=
  match asArray keyLength key with
  | .ok k => Model.Blake2b.generichash outputLength input (some k)
  | .err => .err
  | .panic => .panic

/-! ### (b) `Sha512::finalize_into_bytes` / `compute_into_bytes` -/

/-- `Sha512::compute_into_bytes(output, input)` (= `new(); update(input); finalize_into_bytes(output)`):
`GenericArray::<_, U64>::from_mut_slice(output.as_mut_slice())` — `assert_eq!(slice.len(), 64)` — then
`finalize_into_reset(arr)`.  `out` = the caller's container (only its length matters), `H` = SHA-512; the result is
the new content of `output`. -/
def sha512IntoBytes (H : Bytes → Bytes) (out input : Bytes) : Outcome Bytes :=
  if out.length ≠ 64 then .panic else .ok (H input)

/-- the incremental form: `new(); update(c)…; finalize_into_bytes(output)` (the `sha2` context is the byte list fed so
far, as in `Model.Core`) -/
def sha512IntoBytesChunks (H : Bytes → Bytes) (out : Bytes) (cs : List Bytes) : Outcome Bytes :=
  if out.length ≠ 64 then .panic else .ok (H cs.flatten)

/-! ### (c) `Auth::compute` / `finalize`, `OnetimeAuth::compute` / `finalize` -/

/-- `Auth::compute(key, input)`: `crypto_auth(output.as_mut_array(), input.as_slice(), key.as_array())` -/
def authCompute (H : Bytes → Bytes) (key msg : Bytes) : Outcome Bytes :=
  match asArray 32 key with
  | .ok k => Model.Core.hmac H k msg
  | .err => .err
  | .panic => .panic

/-- `Auth::new(key)` (`crypto_auth_init(key.as_array())`), `update(c)` for each chunk, `finalize()` -/
def authNewFinalize (H : Bytes → Bytes) (key : Bytes) (cs : List Bytes) : Outcome Bytes :=
  match asArray 32 key with
  | .ok k => Model.Core.hmacChunks H k cs
  | .err => .err
  | .panic => .panic

/-- `OnetimeAuth::compute(key, input)`: `crypto_onetimeauth(output.as_mut_array(), input.as_slice(), key.as_array())` -/
def onetimeCompute (key msg : Bytes) : Outcome Bytes :=
  match asArray 32 key with
  | .ok k => .ok (Model.Poly1305.mac k msg)
  | .err => .err
  | .panic => .panic

/-- `OnetimeAuth::new(key)` (`crypto_onetimeauth_init(key.as_array())`), `update(c)` for each chunk, `finalize()` -/
def onetimeNewFinalize (key : Bytes) (cs : List Bytes) : Outcome Bytes :=
  match asArray 32 key with
  | .ok k => .ok (Model.Poly1305.macChunks k cs)
  | .err => .err
  | .panic => .panic

end DryocVerif.Model.ObjectViewHash
