import DryocVerif.Model.ArrayView
import DryocVerif.Model.Sign
import DryocVerif.Model.Core
import DryocVerif.Model.OnetimeAuth
import DryocVerif.Model.SecretBox
/-
Code-shaped models of the OBJECT-API entry points that take their fixed-length arguments through
`ByteArray<N>::as_array` (/repo/src/types.rs), for containers whose length is not in the type
(`Vec<u8>`, `&[u8]`, `[u8]`; see `Model/ArrayView.lean`): each `x.as_array()` in the Rust is one
`asArray N x` here — a panic when `x` is shorter than `N`, the first `N` bytes otherwise.

* /repo/src/sign.rs          `SignedMessage::verify`, `IncrementalSigner::verify`
* /repo/src/auth.rs          `Auth::new`, `Auth::verify`, `Auth::compute_and_verify`
* /repo/src/onetimeauth.rs   `OnetimeAuth::new` (+ `verify`), `OnetimeAuth::compute_and_verify` — the KEY view,
                             which `Model/OnetimeAuth.lean` leaves out (it views only the tag)
* /repo/src/dryocsecretbox.rs `DryocSecretBox::decrypt`
* /repo/src/dryocbox.rs      `DryocBox::decrypt`, `DryocBox::unseal`

With containers whose TYPE carries the length (`[u8; N]`, `StackByteArray<N>`, `HeapByteArray<N>`, `Locked<…>`)
every view below is the identity and these functions coincide with the existing models (`…_exact` lemmas in
`Proofs/ObjectViewExtra.lean`).  Core only (no Mathlib).
-/
namespace DryocVerif.Model.ObjectView
open DryocVerif DryocVerif.Model.ArrayView

/-! ### signatures (sign.rs) -/

/-- `SignedMessage::verify(&self, public_key)`:
`crypto_sign_verify_detached(self.signature.as_array(), self.message.as_slice(), public_key.as_array())`;
`.ok ()` = `Ok(())`, `.err` = `Err(..)` (signature rejected), `.panic` = a failed `as_array` assertion -/
def objVerifyMessage (H : Bytes → Bytes) (sig msg pk : Bytes) : Outcome Unit :=
  view2 64 sig 32 pk fun s p =>
    if Model.Sign.verifyDetached H s msg p false then .ok () else .err

/-- `IncrementalSigner::new(); update(c)…; verify(signature, public_key)`:
`crypto_sign_final_verify(self.state, signature.as_array(), public_key.as_array())` (Ed25519ph) -/
def objVerifyIncremental (H : Bytes → Bytes) (chunks : List Bytes) (sig pk : Bytes) : Outcome Unit :=
  view2 64 sig 32 pk fun s p =>
    if Model.Sign.verifyPh H chunks s p then .ok () else .err

/-! ### HMAC-SHA-512-256 (auth.rs) -/

/-- `Auth::new(key)`: `crypto_auth_init(key.as_array())` -/
def authNew (H : Bytes → Bytes) (key : Bytes) : Outcome Model.Core.HmacState :=
  match asArray 32 key with
  | .ok k => Model.Core.hmacInit H k
  | .err => .err
  | .panic => .panic

/-- `Auth::verify(self, other_mac)`: `let computed_mac: Mac = self.finalize();` then
`other_mac.as_array().ct_eq(computed_mac.as_array()).unwrap_u8() == 1`; `st` = the HMAC state in `self` -/
def authVerifyState (H : Bytes → Bytes) (st : Model.Core.HmacState) (otherMac : Bytes) : Outcome Unit :=
  let computedMac := Model.Core.hmacFinal H st
  match asArray 32 otherMac with
  | .ok arr => if Model.OnetimeAuth.ctEq arr computedMac = 1 then .ok () else .err
  | .err => .err
  | .panic => .panic

/-- `Auth::new(key)`, `update(c)` for each chunk, `verify(other_mac)` -/
def authObjectVerify (H : Bytes → Bytes) (key : Bytes) (cs : List Bytes) (otherMac : Bytes) : Outcome Unit :=
  match authNew H key with
  | .ok st => authVerifyState H (cs.foldl Model.Core.hmacUpdate st) otherMac
  | .err => .err
  | .panic => .panic

/-- `Auth::compute_and_verify(other_mac, key, input)` =
`crypto_auth_verify(other_mac.as_array(), input.as_slice(), key.as_array())` -/
def authComputeAndVerify (H : Bytes → Bytes) (otherMac key msg : Bytes) : Outcome Unit :=
  view2 32 otherMac 32 key fun m k => Model.Core.hmacVerify H m msg k

/-! ### Poly1305 (onetimeauth.rs): the key view -/

/-- `OnetimeAuth::new(key)` (`crypto_onetimeauth_init(key.as_array())`), `update(c)` for each chunk,
`verify(other_mac)` — with the key ALSO taken through `as_array` (32 bytes) -/
def onetimeObjectVerify (key : Bytes) (cs : List Bytes) (otherMac : Bytes) : Outcome Unit :=
  match asArray 32 key with
  | .ok k => Model.OnetimeAuth.objectVerifyChunks k cs otherMac
  | .err => .err
  | .panic => .panic

/-- `OnetimeAuth::compute_and_verify(other_mac, key, input)` =
`crypto_onetimeauth_verify(other_mac.as_array(), input.as_slice(), key.as_array())` -/
def onetimeComputeAndVerify (otherMac key msg : Bytes) : Outcome Unit :=
  view2 16 otherMac 32 key fun m k => Model.OnetimeAuth.onetimeauthVerify k msg m

/-! ### boxes (dryocsecretbox.rs, dryocbox.rs) -/

open DryocVerif.Model.SecretBox in
/-- `DryocSecretBox::decrypt(&self, nonce, secret_key)`: `message.resize(self.data.len(), 0)`, then
`crypto_secretbox_open_detached(message, self.tag.as_array(), self.data, nonce.as_array(), secret_key.as_array())?`
— tag (16), nonce (24) and key (32) each through `as_array` -/
def objDecryptView (P : Prims) (b : Box) (nonce key : Bytes) : Outcome Bytes :=
  match asArray 16 b.tag with
  | .ok t => view2 24 nonce 32 key fun n k => objDecrypt P { b with tag := t } n k
  | .err => .err
  | .panic => .panic

open DryocVerif.Model.SecretBox in
/-- `DryocBox::decrypt(&self, nonce, sender_public_key, recipient_secret_key)`:
`crypto_box_open_detached(message, self.tag.as_array(), self.data, nonce.as_array(),
sender_public_key.as_array(), recipient_secret_key.as_array())?` -/
def objBoxDecryptView (P : Prims) (b : Box) (nonce pk sk : Bytes) : Outcome Bytes :=
  match asArray 16 b.tag with
  | .ok t =>
    match asArray 24 nonce with
    | .ok n => view2 32 pk 32 sk fun p s => objBoxDecrypt P { b with tag := t } n p s
    | .err => .err
    | .panic => .panic
  | .err => .err
  | .panic => .panic

open DryocVerif.Model.SecretBox in
/-- `DryocBox::unseal(&self, recipient_keypair)`: `None` ephemeral key → `Err`; otherwise
`crypto_box_seal_nonce(nonce, epk.as_array(), recipient_keypair.public_key.as_array())`, then
`crypto_box_open_detached(message, self.tag.as_array(), self.data, nonce, epk.as_array(),
recipient_keypair.secret_key.as_array())?` -/
def objUnsealView (P : Prims) (b : Box) (rpk rsk : Bytes) : Outcome Bytes :=
  match b.epk with
  | none => .err
  | some epk =>
    view2 32 epk 32 rpk fun e r =>
      view2 16 b.tag 32 rsk fun t s =>
        objBoxDecrypt P { b with tag := t } (sealNonce P e r) e s

end DryocVerif.Model.ObjectView
