import DryocVerif.Model.ArrayView
import DryocVerif.Model.Sign
import DryocVerif.Model.Core
import DryocVerif.Model.OnetimeAuth
import DryocVerif.Model.SecretBox
import DryocVerif.Model.Curve
import DryocVerif.Model.KeyForms
/-
Code-shaped models of the OBJECT-API entry points that take their fixed-length arguments through
`ByteArray<N>::as_array` (/repo/src/types.rs), for containers whose length is not in the type
(`Vec<u8>`, `&[u8]`, `[u8]`; see `Model/ArrayView.lean`): each `x.as_array()` in the Rust is one
`asArray N x` here — a panic when `x` is shorter than `N`, the first `N` bytes otherwise.

* /repo/src/sign.rs          `SignedMessage::verify`, `IncrementalSigner::verify`
* /repo/src/auth.rs          `Auth::new`, `Auth::verify`, `Auth::compute_and_verify`
* /repo/src/onetimeauth.rs   `OnetimeAuth::new` (+ `verify`), `OnetimeAuth::compute_and_verify` — the KEY view,
                             which `Model/OnetimeAuth.lean` leaves out (it views only the tag)
* /repo/src/dryocsecretbox.rs `DryocSecretBox::decrypt`
* /repo/src/dryocbox.rs      `DryocBox::decrypt`, `DryocBox::unseal`
* /repo/src/kx.rs            `Session::new_client`, `Session::new_server` (+ `…_with_defaults`)
* /repo/src/keypair.rs       `KeyPair::kx_new_client_session`, `kx_new_server_session`, `KeyPair::precalculate`
* /repo/src/precalc.rs       `PrecalcSecretKey::precalculate` (+ `precalculate_locked`, `precalculate_readonly_locked`:
                             the same two views; their allocation `Result` is not modelled here)
* /repo/src/kdf.rs           `Kdf::derive_subkey`, `Kdf::derive_subkey_to_vec`

With containers whose TYPE carries the length (`[u8; N]`, `StackByteArray<N>`, `HeapByteArray<N>`, `Locked<…>`)
every view below is the identity and these functions coincide with the existing models (`…_exact` lemmas in
`Proofs/ObjectViewExtra.lean`).  Core only (no Mathlib).
-/
namespace DryocVerif.Model.ObjectView
open DryocVerif DryocVerif.Model.ArrayView

/-! ### signatures (sign.rs) -/

/-- `SignedMessage::verify(&self, public_key)`:
`crypto_sign_verify_detached(self.signature.as_array(), self.message.as_slice(), public_key.as_array())`;
`.ok ()` = `Ok(())`, `.err` = `Err(..)` (signature rejected), `.panic` = a failed `as_array` assertion -/
def objVerifyMessage (H : Bytes → Bytes) (sig msg pk : Bytes) : Outcome Unit :=
  view2 64 sig 32 pk fun s p =>
    if Model.Sign.verifyDetached H s msg p false then .ok () else .err

/-- `IncrementalSigner::new(); update(c)…; verify(signature, public_key)`:
`crypto_sign_final_verify(self.state, signature.as_array(), public_key.as_array())` (Ed25519ph) -/
def objVerifyIncremental (H : Bytes → Bytes) (chunks : List Bytes) (sig pk : Bytes) : Outcome Unit :=
  view2 64 sig 32 pk fun s p =>
    if Model.Sign.verifyPh H chunks s p then .ok () else .err

/-! ### HMAC-SHA-512-256 (auth.rs) -/

/-- `Auth::new(key)`: `crypto_auth_init(key.as_array())` -/
def authNew (H : Bytes → Bytes) (key : Bytes) : Outcome Model.Core.HmacState :=
  match asArray 32 key with
  | .ok k => Model.Core.hmacInit H k
  | .err => .err
  | .panic => .panic

/-- `Auth::verify(self, other_mac)`: `let computed_mac: Mac = self.finalize();` then
`other_mac.as_array().ct_eq(computed_mac.as_array()).unwrap_u8() == 1`; `st` = the HMAC state in `self` -/
def authVerifyState (H : Bytes → Bytes) (st : Model.Core.HmacState) (otherMac : Bytes) : Outcome Unit :=
  let computedMac := Model.Core.hmacFinal H st
  match asArray 32 otherMac with
  | .ok arr => if Model.OnetimeAuth.ctEq arr computedMac = 1 then .ok () else .err
  | .err => .err
  | .panic => .panic

/-- `Auth::new(key)`, `update(c)` for each chunk, `verify(other_mac)` -/
def authObjectVerify (H : Bytes → Bytes) (key : Bytes) (cs : List Bytes) (otherMac : Bytes) : Outcome Unit :=
  match authNew H key with
  | .ok st => authVerifyState H (cs.foldl Model.Core.hmacUpdate st) otherMac
  | .err => .err
  | .panic => .panic

/-- `Auth::compute_and_verify(other_mac, key, input)` =
`crypto_auth_verify(other_mac.as_array(), input.as_slice(), key.as_array())` -/
def authComputeAndVerify (H : Bytes → Bytes) (otherMac key msg : Bytes) : Outcome Unit :=
  view2 32 otherMac 32 key fun m k => Model.Core.hmacVerify H m msg k

/-! ### Poly1305 (onetimeauth.rs): the key view -/

/-- `OnetimeAuth::new(key)` (`crypto_onetimeauth_init(key.as_array())`), `update(c)` for each chunk,
`verify(other_mac)` — with the key ALSO taken through `as_array` (32 bytes) -/
def onetimeObjectVerify (key : Bytes) (cs : List Bytes) (otherMac : Bytes) : Outcome Unit :=
  match asArray 32 key with
  | .ok k => Model.OnetimeAuth.objectVerifyChunks k cs otherMac
  | .err => .err
  | .panic => .panic

/-- `OnetimeAuth::compute_and_verify(other_mac, key, input)` =
`crypto_onetimeauth_verify(other_mac.as_array(), input.as_slice(), key.as_array())` -/
def onetimeComputeAndVerify (otherMac key msg : Bytes) : Outcome Unit :=
  view2 16 otherMac 32 key fun m k => Model.OnetimeAuth.onetimeauthVerify k msg m

/-! ### boxes (dryocsecretbox.rs, dryocbox.rs) -/

open DryocVerif.Model.SecretBox in
/-- `DryocSecretBox::decrypt(&self, nonce, secret_key)`: `message.resize(self.data.len(), 0)`, then
`crypto_secretbox_open_detached(message, self.tag.as_array(), self.data, nonce.as_array(), secret_key.as_array())?`
— tag (16), nonce (24) and key (32) each through `as_array` -/
def objDecryptView (P : Prims) (b : Box) (nonce key : Bytes) : Outcome Bytes :=
  match asArray 16 b.tag with
  | .ok t => view2 24 nonce 32 key fun n k => objDecrypt P { b with tag := t } n k
  | .err => .err
  | .panic => .panic

open DryocVerif.Model.SecretBox in
/-- `DryocBox::decrypt(&self, nonce, sender_public_key, recipient_secret_key)`:
`crypto_box_open_detached(message, self.tag.as_array(), self.data, nonce.as_array(),
sender_public_key.as_array(), recipient_secret_key.as_array())?` -/
def objBoxDecryptView (P : Prims) (b : Box) (nonce pk sk : Bytes) : Outcome Bytes :=
  match asArray 16 b.tag with
  | .ok t =>
    match asArray 24 nonce with
    | .ok n => view2 32 pk 32 sk fun p s => objBoxDecrypt P { b with tag := t } n p s
    | .err => .err
    | .panic => .panic
  | .err => .err
  | .panic => .panic

open DryocVerif.Model.SecretBox in
/-- `DryocBox::unseal(&self, recipient_keypair)`: `None` ephemeral key → `Err`; otherwise
`crypto_box_seal_nonce(nonce, epk.as_array(), recipient_keypair.public_key.as_array())`, then
`crypto_box_open_detached(message, self.tag.as_array(), self.data, nonce, epk.as_array(),
recipient_keypair.secret_key.as_array())?` -/
def objUnsealView (P : Prims) (b : Box) (rpk rsk : Bytes) : Outcome Bytes :=
  match b.epk with
  | none => .err
  | some epk =>
    view2 32 epk 32 rpk fun e r =>
      view2 16 b.tag 32 rsk fun t s =>
        objBoxDecrypt P { b with tag := t } (sealNonce P e r) e s

/-! ### key exchange, precalculation, key derivation (kx.rs, keypair.rs, precalc.rs, kdf.rs) -/

/-- the third view after a `view2` (Rust evaluates the call arguments left to right) -/
def kxView3 {α : Type} (n₁ : Nat) (x₁ : Bytes) (n₂ : Nat) (x₂ : Bytes) (n₃ : Nat) (x₃ : Bytes)
    (f : Bytes → Bytes → Bytes → Outcome α) : Outcome α :=
  view2 n₁ x₁ n₂ x₂ fun a₁ a₂ =>
    match asArray n₃ x₃ with
    | .ok a₃ => f a₁ a₂ a₃
    | .err => .err
    | .panic => .panic

/-- `Session::new_client(client_keypair, server_public_key)` (= `new_client_with_defaults`,
= `KeyPair::kx_new_client_session`): two fresh 32-byte session-key containers (`SessionKey::new_byte_array()`,
whose `as_mut_array` cannot fail: `NewByteArray<32> for Vec<u8>` is `vec![0u8; 32]`), then
`crypto_kx_client_session_keys(rx, tx, client_keypair.public_key.as_array(),
client_keypair.secret_key.as_array(), server_public_key.as_array())?` → (rx, tx) -/
def sessionNewClient (P : Model.Curve.Prims) (cpk csk spk : Bytes) : Outcome (Bytes × Bytes) :=
  kxView3 32 cpk 32 csk 32 spk fun pk sk s => Model.Curve.kxClient P pk sk s

/-- `Session::new_server(server_keypair, client_public_key)` (= `new_server_with_defaults`,
= `KeyPair::kx_new_server_session`):
`crypto_kx_server_session_keys(rx, tx, server_keypair.public_key.as_array(),
server_keypair.secret_key.as_array(), client_public_key.as_array())?` → (rx, tx) -/
def sessionNewServer (P : Model.Curve.Prims) (spk ssk cpk : Bytes) : Outcome (Bytes × Bytes) :=
  kxView3 32 spk 32 ssk 32 cpk fun pk sk c => Model.Curve.kxServer P pk sk c

/-- `PrecalcSecretKey::precalculate(third_party_public_key, secret_key)` (= `KeyPair::precalculate` with
`secret_key = self.secret_key`): `crypto_box_beforenm(third_party_public_key.as_array(), secret_key.as_array())`;
no `Result`: the only failure is a failed `as_array` assertion -/
def objPrecalculate (P : Model.Curve.Prims) (pk sk : Bytes) : Outcome Bytes :=
  view2 32 pk 32 sk fun p s => .ok (Model.Curve.beforenm P p s)

/-- `Kdf::derive_subkey::<Subkey>(subkey_id)` (= `derive_subkey_to_vec`): `Subkey: NewByteArray<32>`, so the
sub-key ALWAYS has 32 bytes (`CRYPTO_KDF_KEYBYTES`); then
`crypto_kdf_derive_from_key(subkey.as_mut_array(), subkey_id, self.context.as_array(), self.main_key.as_array())?`
— context (8) and main key (32) each through `as_array`, the context first -/
def kdfObjDerive (id : Nat) (ctx key : Bytes) : Outcome Bytes :=
  view2 8 ctx 32 key fun c k => Model.KeyForms.kdfDeriveImpl 32 id c k

end DryocVerif.Model.ObjectView
