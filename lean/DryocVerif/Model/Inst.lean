import DryocVerif.Bytes
import DryocVerif.Spec.NaCl
import DryocVerif.Spec.ChaCha20
import DryocVerif.Spec.Poly1305
import DryocVerif.Model.Poly1305
import DryocVerif.Model.SecretBox
import DryocVerif.Model.SecretStream
/-
The instantiations of `Model.SecretBox.Prims` and `Model.SecretStream.Prims` under which the
model is run against dryoc by the native driver (`Driver/Box.lean` and `Driver/Stream.lean`
use exactly `boxPrims` / `streamPrims`).  Kept out of the driver so that theorems can mention
them (`DryocVerif/Proofs/Inst.lean`, `Properties/C01.lean`, `Properties/C03.lean`).
Core only (no Mathlib): linked into the native driver.
-/
namespace DryocVerif.Model
open DryocVerif

/-- the primitives the secretbox / box *model* column is instantiated with: dependency crates are
represented by their executable specs, dryoc's own Poly1305 by its limb model -/
def boxPrims : SecretBox.Prims where
  stream := fun k n len => Spec.Salsa20.xsalsa20Stream k n 0 len
  mac := Model.Poly1305.mac
  dh := Spec.X25519.x25519
  dhBase := Spec.X25519.x25519Base
  hsalsa := fun k i => Spec.Salsa20.hsalsa20 k i
  h24 := fun m => Spec.Blake2b.hash 24 [] m

/-- the primitives the secretstream *model* column is instantiated with -/
def streamPrims : SecretStream.Prims where
  chacha := fun k n ctr len => Spec.ChaCha20.stream k n ctr len
  hchacha := fun k i => Spec.ChaCha20.hchacha20 k i
  mac := Model.Poly1305.mac

end DryocVerif.Model
