import DryocVerif.Model.Argon2
import DryocVerif.Model.PwhashStr
/-
The callers of `crypto_pwhash` / `argon2_hash` / the string codec that were so far only composed
ad hoc by the driver, statement by statement:

* `PwHash::hash_with_salt`, `PwHash::verify`                      (/repo/src/pwhash.rs)
* `crypto_pwhash_str`                                             (/repo/src/classic/crypto_pwhash.rs)
* `PwHash::from_string(s)?.to_string()` through `memlimit = 1024 * m_cost` and `convert_costs`
* `PwHash::from_string(s)?.verify(pwd)` (the verification route that goes through `crypto_pwhash`)

* the code-shaped `hash_with_salt` / `verify` / `hash` with their leading `Vec::resize` (`…Raw`), and the size of the
  allocation request of `argon2_hash` (`argon2MemoryRequest`, `strVerifyMemoryRequest`)

Nothing in `Model/Argon2.lean` or `Model/PwhashStr.lean` is changed.  Core Lean only.
-/
namespace DryocVerif.Model.Argon2
open DryocVerif

/-- `PwHash::hash_with_salt(password, salt, config)`: `hash.resize(config.hash_length, 0)` and then
`crypto_pwhash(hash, password, salt, config.opslimit, config.memlimit, config.algorithm)?`; the
value is the `hash` field of the result.  `alg` is `config.algorithm as u32` (an enum: 1 or 2). -/
def objHashWithSalt (hashLength : Nat) (salt : Bytes) (opslimit memlimit alg : Nat) (pwd : Bytes) :
    Outcome Bytes :=
  cryptoPwhash hashLength pwd salt opslimit memlimit alg

/-- `PwHash::verify(&self, password)` for `self = { hash, salt, config = { hash_length, opslimit,
memlimit, algorithm, .. } }`: recompute with `hash_with_salt(password, self.salt.clone(),
self.config.clone())?`, then `self.hash.ct_eq(computed.hash)` (`subtle`'s slice `ct_eq`: 0 when the
lengths differ, else 1 iff all bytes agree — i.e. equality of the two byte strings).
NB the recomputation uses `config.hash_length`, *not* `self.hash.len()`; the two coincide for
every `PwHash` made by `hash`, `hash_with_salt` or `from_string`, but `from_parts` does not tie
them together. -/
def objVerify (hash salt : Bytes) (hashLength opslimit memlimit alg : Nat) (pwd : Bytes) : Outcome Unit :=
  match objHashWithSalt hashLength salt opslimit memlimit alg pwd with
  | .ok computed => if hash = computed then .ok () else .err
  | .err => .err
  | .panic => .panic

/-! ### the code-shaped versions: `Vec::resize` BEFORE `crypto_pwhash`

`objHashWithSalt` / `objVerify` above are the *typed* model: they start at the call of `crypto_pwhash`.  The Rust
first executes `let mut hash = Hash::new_bytes(); hash.resize(config.hash_length, 0);` — for `Hash = Vec<u8>` a
`Vec::resize` from length 0, whose `RawVec` reserve panics with "capacity overflow" as soon as the requested
length exceeds `isize::MAX = 2^63 − 1` (64-bit target) — i.e. BEFORE `crypto_pwhash` can answer `Err` for
`hash_length > ARGON2_MAX_OUTLEN`.  The `…Raw` definitions put that statement in front.  (For
`hash_length ≤ isize::MAX` the allocation itself is assumed to succeed: `Vec::resize` aborts the process
otherwise — not a panic, not an `Err`.) -/

/-- `isize::MAX` on a 64-bit target: the largest capacity a `Vec<u8>` may request -/
def ISIZE_MAX : Nat := 2 ^ 63 - 1

/-- `PwHash::<Vec<u8>, _>::hash_with_salt(password, salt, config)` from its first statement:
`hash.resize(config.hash_length, 0)` (capacity-overflow panic above `isize::MAX`), then `crypto_pwhash(..)?`. -/
def objHashWithSaltRaw (hashLength : Nat) (salt : Bytes) (opslimit memlimit alg : Nat) (pwd : Bytes) :
    Outcome Bytes :=
  if hashLength > 2 ^ 63 - 1 then .panic
  else objHashWithSalt hashLength salt opslimit memlimit alg pwd

/-- `PwHash::<Vec<u8>, _>::verify(&self, password)` from its first statement: `hash_with_salt(password,
self.salt.clone(), self.config.clone())?` (with its `resize`), then `ct_eq`. -/
def objVerifyRaw (hash salt : Bytes) (hashLength opslimit memlimit alg : Nat) (pwd : Bytes) : Outcome Unit :=
  match objHashWithSaltRaw hashLength salt opslimit memlimit alg pwd with
  | .ok computed => if hash = computed then .ok () else .err
  | .err => .err
  | .panic => .panic

/-- `PwHash::<Vec<u8>, Vec<u8>>::hash(password, config)` from its first statement: `hash.resize(config.hash_length, 0)`,
`salt.resize(config.salt_length, 0)` (each a capacity-overflow panic above `isize::MAX`), `copy_randombytes(salt)`,
`crypto_pwhash(..)?`.  `salt` is the content of the salt vector after `copy_randombytes`, so
`config.salt_length = salt.length`; the result is `(hash, salt)`. -/
def objHashRaw (hashLength : Nat) (salt : Bytes) (opslimit memlimit alg : Nat) (pwd : Bytes) :
    Outcome (Bytes × Bytes) :=
  if hashLength > 2 ^ 63 - 1 then .panic
  else if salt.length > 2 ^ 63 - 1 then .panic
  else match objHashWithSalt hashLength salt opslimit memlimit alg pwd with
    | .ok hash => .ok (hash, salt)
    | .err => .err
    | .panic => .panic

/-! ### what `argon2_hash` asks the allocator for

`Argon2Instance::initialize` executes `self.region.memory.resize(self.memory_blocks as usize, Default::default())`
(and `pseudo_rands.resize(segment_length, 0)`).  In the model that is `Array.replicate`, which cannot fail; in Rust
`Vec::resize` ABORTS the process when the host cannot back the request.  The size of the request is therefore
spelled out (no oracle for the allocator is introduced). -/

/-- the number of 1024-byte blocks `argon2_hash(t, m, p, pwd, salt, None, None, out, ty)` requests with
`memory.resize(memory_blocks, …)`; `none` when the call returns `Err` or panics BEFORE `Argon2Instance::initialize`
(geometry, `Argon2Context::new`, `Argon2Instance::new` — the same prefix as `argon2Hash`). -/
def argon2MemoryRequest (ty t m p pwdlen saltlen outlen : Nat) : Option Nat :=
  match memoryGeometry m p with
  | .ok (memoryBlocks, segmentLength) =>
    match validate outlen pwdlen saltlen none none t m p with
    | .ok () =>
      match Instance.new memoryBlocks segmentLength ty t p with
      | .ok inst => some inst.memoryBlocks
      | _ => none
    | _ => none
  | _ => none

end DryocVerif.Model.Argon2

namespace DryocVerif.Model.PwhashStr
open DryocVerif DryocVerif.Model.Argon2

/-- the Argon2 parameter of this layer: `argon2 ty t m p pwd salt outlen`
(= `argon2_hash(t, m, p, pwd, salt, None, None, &mut [0u8; outlen], ty)`) -/
abbrev Argon2Fn := Nat → Nat → Nat → Nat → Bytes → Bytes → Nat → Outcome Bytes

/-- the project's model of `argon2_hash` (no secret, no associated data) as an `Argon2Fn` -/
def argon2Model : Argon2Fn := fun ty t m p pwd salt outlen =>
  argon2Hash ty t m p pwd salt none none outlen

/-- `STR_HASHBYTES` -/
def STR_HASHBYTES : Nat := 32
/-- `CRYPTO_PWHASH_SALTBYTES` -/
def CRYPTO_PWHASH_SALTBYTES : Nat := 16

/-- `crypto_pwhash_str(password, opslimit, memlimit)`.  The `CRYPTO_PWHASH_SALTBYTES = 16` bytes
that `copy_randombytes(&mut salt)` writes are the parameter `salt`. -/
def pwhashStr (argon2 : Argon2Fn) (pwd salt : Bytes) (opslimit memlimit : Nat) : Outcome Str := do
  validateRange CRYPTO_PWHASH_OPSLIMIT_MIN CRYPTO_PWHASH_OPSLIMIT_MAX opslimit
  validateRange CRYPTO_PWHASH_MEMLIMIT_MIN CRYPTO_PWHASH_MEMLIMIT_MAX memlimit
  -- let mut salt = [0u8; CRYPTO_PWHASH_SALTBYTES]; copy_randombytes(&mut salt);
  -- let mut hash = [0u8; STR_HASHBYTES];
  let (tCost, mCost) := convertCosts opslimit memlimit
  let hash ← argon2 Argon2id tCost mCost 1 pwd salt STR_HASHBYTES
  pure (encode .argon2id tCost mCost salt hash)

/-- `PwHash::to_string(&self)` (/repo/src/pwhash.rs) for `self = { hash, salt, config = { opslimit, memlimit,
algorithm, .. } }`: `let (t_cost, m_cost) = convert_costs(self.config.opslimit, self.config.memlimit);` then
`pwhash_to_string(&self.config.algorithm, t_cost, m_cost, self.salt, self.hash)`.  Infallible in the Rust. -/
def objToString (alg : Alg) (opslimit memlimit : Nat) (salt hash : Bytes) : Str :=
  let (tCost, mCost) := convertCosts opslimit memlimit
  encode alg tCost mCost salt hash

/-- `PwHash::from_string(s)?.to_string()` along the path the code takes: `opslimit = t_cost as u64`,
`memlimit = 1024 * (m_cost as usize)` (checked `usize` product, 64-bit target), then `to_string`
calls `convert_costs(opslimit, memlimit)` again before `pwhash_to_string`. -/
def reencodeRaw (s : Str) : Outcome Str :=
  match parse s with
  | .ok r =>
    match r.ty, r.t, r.m, r.salt, r.pwhash with          -- the `unwrap()`s of `from_string`
    | some ty, some t, some m, some salt, some h =>
      let opslimit := t
      match mulU64 1024 m with
      | .ok memlimit =>
        let (tCost, mCost) := convertCosts opslimit memlimit
        .ok (encode ty tCost mCost salt h)
      | .err => .err
      | .panic => .panic
    | _, _, _, _, _ => .panic
  | .err => .err
  | .panic => .panic

/-- `PwHash::from_string(s)?.verify(pwd)`: the verification route that goes through
`crypto_pwhash` (range validation of `opslimit = t` and `memlimit = 1024·m`, `convert_costs`) with
`hash_length =` the length of the parsed hash.
NB `crypto_pwhash_str_verify` itself does *not* take this route: it calls `argon2_hash` directly on
a `[0u8; STR_HASHBYTES]` buffer, which is what `strVerify` models. -/
def strVerifyRaw (s : Str) (pwd : Bytes) : Outcome Unit :=
  match parse s with
  | .ok r =>
    match r.ty, r.t, r.m, r.salt, r.pwhash with
    | some ty, some t, some m, some salt, some h =>
      match mulU64 1024 m with
      | .ok memlimit => objVerify h salt h.length t memlimit ty.num pwd
      | .err => .err
      | .panic => .panic
    | _, _, _, _, _ => .panic
  | .err => .err
  | .panic => .panic

/-- the number of 1024-byte blocks `crypto_pwhash_str_verify(s, pwd)` requests from the allocator (through
`argon2_hash(t, m, p, pwd, salt, None, None, &mut [0u8; 32], type)`); `none` when it returns before allocating -/
def strVerifyMemoryRequest (s : Str) (pwd : Bytes) : Option Nat :=
  match parse s with
  | .ok r =>
    match r.ty, r.t, r.m, r.p, r.salt with
    | some ty, some t, some m, some p, some salt => argon2MemoryRequest ty.num t m p pwd.length salt.length 32
    | _, _, _, _, _ => none
  | _ => none

end DryocVerif.Model.PwhashStr
