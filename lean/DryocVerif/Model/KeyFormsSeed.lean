import DryocVerif.Model.KeyForms
import DryocVerif.Model.ArrayView
import DryocVerif.Model.EncodingVec
/-
`SigningKeyPair::from_seed<Seed: ByteArray<32>>(seed: &Seed)` (/repo/src/sign.rs) for a seed container whose length is
NOT in its type (`Vec<u8>`, `&[u8]`, `[u8]`):

    let mut public_key = PublicKey::new_byte_array();
    let mut secret_key = SecretKey::new_byte_array();
    crypto_sign_seed_keypair_inplace(public_key.as_mut_array(), secret_key.as_mut_array(), seed.as_array());

`seed.as_array()` is `Model.ArrayView.asArray 32`: a panic for fewer than 32 bytes, the FIRST 32 bytes otherwise.  The
two output containers are freshly made with their exact lengths (`new_byte_array`), so the in-place routine is the
pure `Model.Sign.seedKeypair` (`Proofs.KeyFormsExtra.signSeedKeypairInplace_eq`).
Core only.
-/
namespace DryocVerif.Model.KeyForms
open DryocVerif DryocVerif.Model.ArrayView
open DryocVerif.Model.EncodingVec (bind)

/-- `SigningKeyPair::from_seed(&seed)` on a seed CONTAINER of any length -/
def signFromSeedObj (H : Bytes → Bytes) (seed : Bytes) : Outcome (Bytes × Bytes) :=
  bind (asArray 32 seed) fun s => .ok (Model.Sign.seedKeypair H s)

end DryocVerif.Model.KeyForms
