import DryocVerif.Model.Argon2
/-
`index_alpha` of `src/argon2.rs` under the RELEASE profile (`overflow-checks = false`): every `u32` `+ - *` is the
wrapping operation; `%` still panics on a zero divisor.  `Model/Argon2.lean` models the dev / overflow-checks profile
(`addU32 …` return `Outcome.panic`).  The two agree wherever the checked model returns `.ok`
(`Proofs.Argon2Wrap.indexAlphaW_eq_of_ok`) and differ at the largest accepted memory
(`Properties.C09.index_alpha_wrapping_ne_rfc`).  Core Lean only; nothing in `Model/Argon2.lean` is changed.
-/
namespace DryocVerif.Model.Argon2
open DryocVerif

/-- `a.wrapping_add(b)` on `u32` -/
def waddU32 (a b : Nat) : Nat := (a + b) % U32
/-- `a.wrapping_sub(b)` on `u32` (`a, b < 2^32`) -/
def wsubU32 (a b : Nat) : Nat := (a + U32 - b % U32) % U32
/-- `a.wrapping_mul(b)` on `u32` -/
def wmulU32 (a b : Nat) : Nat := (a * b) % U32

/-- the `reference_area_size` expression of `index_alpha`, wrapping arithmetic -/
def referenceAreaSizeW (inst : Instance) (pos : Position) (sameLane : Bool) : Nat :=
  if pos.pass = 0 then
    if pos.slice = 0 then
      wsubU32 pos.index 1
    else if sameLane then
      wsubU32 (waddU32 (wmulU32 pos.slice inst.segmentLength) pos.index) 1
    else if pos.index = 0 then
      wsubU32 (wmulU32 pos.slice inst.segmentLength) 1
    else
      wmulU32 pos.slice inst.segmentLength
  else if sameLane then
    wsubU32 (waddU32 (wsubU32 inst.laneLength inst.segmentLength) pos.index) 1
  else if pos.index = 0 then
    wsubU32 (wsubU32 inst.laneLength inst.segmentLength) 1
  else
    wsubU32 inst.laneLength inst.segmentLength

/-- the `start_position` expression of `index_alpha`, wrapping arithmetic -/
def startPositionW (inst : Instance) (pos : Position) : Nat :=
  if pos.pass ≠ 0 then
    if pos.slice = ARGON2_SYNC_POINTS - 1 then 0
    else wmulU32 (waddU32 pos.slice 1) inst.segmentLength
  else 0

/-- `index_alpha(instance, position, pseudo_rand, same_lane)` as a build WITHOUT overflow checks executes it -/
def indexAlphaW (inst : Instance) (pos : Position) (pseudoRand : Nat) (sameLane : Bool) : Outcome Nat :=
  let referenceAreaSize := referenceAreaSizeW inst pos sameLane
  let relativePosition := pseudoRand
  let relativePosition := (relativePosition * relativePosition) % U64 / 2 ^ 32 % U32
  let relativePosition :=
    wsubU32 (wsubU32 referenceAreaSize 1) ((referenceAreaSize * relativePosition) % U64 / 2 ^ 32 % U32)
  let startPosition := startPositionW inst pos
  remU32 (waddU32 startPosition relativePosition) inst.laneLength

end DryocVerif.Model.Argon2
