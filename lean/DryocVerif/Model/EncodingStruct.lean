import DryocVerif.Model.Encoding
import DryocVerif.Model.SecretBox
import DryocVerif.Model.Sign
/-
Model of the `#[derive(Serialize, Deserialize)]` encodings of the three container structs
(/repo/src/dryocsecretbox.rs `DryocSecretBox { tag, data }`, /repo/src/dryocbox.rs
`DryocBox { ephemeral_pk: Option<_>, tag, data }`, /repo/src/sign.rs
`SignedMessage { signature, message }`) at the level of serde's data model: a derived
struct encoding is the sequence of the encodings of its fields IN DECLARATION ORDER, each
produced / consumed by the field type's own `Serialize` / `Deserialize`; an `Option` field is
`none` or `some` of the inner encoding.  THIS file hard-wires dryoc's own visitors of
/repo/src/bytes_serde.rs: `deFixed n` — which exists for `StackByteArray<N>` and
`Locked<HeapByteArray<N>>` ONLY — and `deHeap` (`HeapBytes`, `LockedBytes`); it is the
instantiation of the default aliases (`Mac = StackByteArray<16>`, `Signature = StackByteArray<64>`,
…) and of the `protected` ones.  `Vec<u8>` and plain `[u8; N]` fields use serde's own impls:
`Model/EncodingVec.lean` (`Kind.vec`, `Kind.array`).  Unlocked `HeapByteArray<N>` and
`LockedRO<HeapBytes>` have `Serialize` only: a struct holding one can be written, not read.  Deserialisation visits the fields in order and stops at the
first failure.  serde_json / bincode (field names, framing) are trusted to hand the field
encodings over unchanged.
-/
namespace DryocVerif.Model.Encoding
open DryocVerif DryocVerif.Model.SecretBox

/-- `?` on `Outcome` -/
def Outcome.andThen {α β : Type} (o : Outcome α) (f : α → Outcome β) : Outcome β :=
  match o with
  | .ok a => f a
  | .err => .err
  | .panic => .panic

/-- encoded `DryocSecretBox` / `DryocBox`: fields in declaration order -/
structure EncBox where
  epk : Option Enc
  tag : Enc
  data : Enc
  deriving Repr, DecidableEq

/-- derived `Serialize` for `DryocBox` (a `DryocSecretBox` is the case `epk = none`: it has
no such field, and nothing is emitted for it) -/
def serBox (b : Box) : EncBox := ⟨b.epk.map ser, ser b.tag, ser b.data⟩

/-- derived `Deserialize`: `ephemeral_pk` (32 bytes, if present), `tag` (16 bytes), `data` -/
def deBox (e : EncBox) : Outcome Box :=
  Outcome.andThen (match e.epk with
      | none => .ok none
      | some x => Outcome.andThen (deFixed 32 x) (fun k => .ok (some k))) fun epk =>
  Outcome.andThen (deFixed 16 e.tag) fun tag =>
  Outcome.andThen (deHeap e.data) fun data =>
  .ok ⟨epk, tag, data⟩

/-- encoded `SignedMessage`: `signature`, `message` -/
structure EncSigned where
  signature : Enc
  message : Enc
  deriving Repr, DecidableEq

def serSigned (sm : Bytes × Bytes) : EncSigned := ⟨ser sm.1, ser sm.2⟩

def deSigned (e : EncSigned) : Outcome (Bytes × Bytes) :=
  Outcome.andThen (deFixed 64 e.signature) fun sig =>
  Outcome.andThen (deHeap e.message) fun m =>
  .ok (sig, m)

end DryocVerif.Model.Encoding
