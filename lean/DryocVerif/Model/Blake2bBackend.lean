import DryocVerif.Model.Blake2b
import DryocVerif.Model.Blake2bSimd
/-
The functions of /repo/src/blake2b/blake2b_{soft,simd}.rs and /repo/src/classic/generichash_blake2b.rs that sit ABOVE
`init` / `update` / `finalize` — `hash`, `longhash`, the `crypto_generichash_blake2b*` wrappers — written over an
arbitrary compression function `C`, exactly as `Model.Blake2b.hashChunksC` is.  The two Rust files share this text
verbatim; `Model.Blake2b.{hash, longhash, generichash …}` are the instances at the software `compress`
(`Proofs.Blake2bBackend.hash_eq_hashC` …), and the instances at `Model.Blake2bSimd.compress` are the SIMD backend.

Also `codeBlake2b C`: the code-level BLAKE2b in the shape of the primitive `Model.Curve.Prims.blake2b` /
`Model.SecretBox.Prims.h24` through which `crypto_kdf`, `crypto_kx`, the sealed-box nonce and Argon2's prehash use
it (`State::init(outlen, key, salt, personal)`, `update`s, `finalize`).

Core only (no Mathlib).
-/
namespace DryocVerif.Model.Blake2b
open DryocVerif
open DryocVerif.Model.Utils (slice)

/-- `pub fn hash(output, input, key)` over the compression function `C` -/
def hashC (C : Compress) (outLen : Nat) (input : Bytes) (key : Option Bytes) : Outcome Bytes :=
  if outLen > OUTBYTES then .err
  else
    match initC C (outLen % 256) key none none with
    | .ok state =>
      let state := updateC C state input
      finalizeC C state outLen
    | .err => .err
    | .panic => .panic

/-- the `for chunk in start.chunks_exact_mut(HALFOUTBYTES)` loop of `longhash` over `C` -/
def longLoopC (C : Compress) : Nat → Bytes → Outcome (Bytes × Bytes)
  | 0, inBuffer => .ok ([], inBuffer)
  | n+1, inBuffer =>
    match hashC C OUTBYTES inBuffer none with
    | .ok outBuffer =>
      match longLoopC C n outBuffer with
      | .ok (rest, last) => .ok (slice outBuffer 0 HALFOUTBYTES ++ rest, last)
      | .err => .err
      | .panic => .panic
    | .err => .err
    | .panic => .panic

/-- `pub fn longhash(output, input)` over `C` (the text of `Model.Blake2b.longhash` with `init`, `update`,
`finalize`, `hash` taken at `C`) -/
def longhashC (C : Compress) (outLen : Nat) (input : Bytes) : Outcome Bytes :=
  if ¬ outLen > 4 then .panic                       -- assert!(output.len() > 4)
  else if ¬ outLen < 4294967295 then .panic         -- assert!(output.len() < u32::MAX as usize)
  else
    let outlenBytes := toLE 4 outLen                -- (output.len() as u32).to_le_bytes()
    match initC C (min outLen OUTBYTES % 256) none none none with
    | .err => .err
    | .panic => .panic
    | .ok state =>
      let state := updateC C state outlenBytes
      let state := updateC C state input
      if outLen ≤ OUTBYTES then finalizeC C state outLen
      else
        match finalizeC C state OUTBYTES with           -- into output[..OUTBYTES]
        | .err => .err
        | .panic => .panic
        | .ok out0 =>
          let inBuffer := out0
          let outlen := outLen - HALFOUTBYTES        -- no underflow: outLen > 64
          let chunkCount :=
            if outlen % HALFOUTBYTES = 0 then checkedSub (outlen / HALFOUTBYTES) 2
            else checkedSub (outlen / HALFOUTBYTES) 1
          match chunkCount with
          | none => .panic                           -- `attempt to subtract with overflow`
          | some chunkCount =>
            let end_ := chunkCount * HALFOUTBYTES
            -- output[HALFOUTBYTES..].split_at_mut(end)
            if end_ > outLen - HALFOUTBYTES then .panic
            else
              match longLoopC C chunkCount inBuffer with
              | .err => .err
              | .panic => .panic
              | .ok (start, inBuffer) =>
                match hashC C (outLen - HALFOUTBYTES - end_) inBuffer none with
                | .err => .err
                | .panic => .panic
                | .ok last =>
                  -- output = out0[..32] ‖ start ‖ end  (output[32..64] is overwritten)
                  .ok (slice out0 0 HALFOUTBYTES ++ start ++ last)

/-- `crypto_generichash_blake2b(output, input, key)` over `C` -/
def generichashC (C : Compress) (outLen : Nat) (input : Bytes) (key : Option Bytes) : Outcome Bytes :=
  if !validateOutlen outLen then .err
  else if !validateKey key then .err
  else hashC C outLen input key

/-- `crypto_generichash_blake2b_init(key, outlen, salt, personal)` over `C` -/
def generichashInitC (C : Compress) (key : Option Bytes) (outlen : Nat) (salt personal : Option Bytes) :
    Outcome State :=
  if !validateOutlen outlen then .err
  else if !validateKey key then .err
  else initC C (outlen % 256) key salt personal

/-- an empty byte string stands for `None` in the primitive records (`Prims.blake2b n key salt personal msg`) -/
def optBytes (b : Bytes) : Option Bytes := if b.isEmpty then none else some b

/-- the BLAKE2b of the CODE (backend `C`) in the shape of `Model.Curve.Prims.blake2b`:
`State::init(outlen, key, salt, personal)`, one `update(msg)`, `finalize` into `outlen` bytes; `[]` when the code
fails (it does not for the arguments `crypto_kdf` / `crypto_kx` / `crypto_box_seal` / Argon2 pass) -/
def codeBlake2b (C : Compress) (outlen : Nat) (key salt personal msg : Bytes) : Bytes :=
  match hashChunksC C outlen (optBytes key) (optBytes salt) (optBytes personal) [msg] with
  | .ok d => d
  | .err => []
  | .panic => []

end DryocVerif.Model.Blake2b
