import DryocVerif.Bytes
import DryocVerif.Model.Utils
/-
Model of /repo/src/blake2b/blake2b_soft.rs, statement by statement, plus the
validation wrappers of /repo/src/classic/generichash_blake2b.rs.

* `u64` values are `UInt64` (`+` wraps, as `wrapping_add`); `usize` values are `Nat`
  (the model states in a comment why each `usize` subtraction cannot underflow, or
  returns `.panic` where it can).
* `&mut self` becomes a returned `State`; `Result` / panics become `Outcome`.
* The buffering code (`update` / `finalize` / keyed `init`) is written once, over an
  arbitrary compression function `C` (`updateC`, `finalizeC`, `initC`, `hashChunksC`):
  `blake2b_simd.rs` shares that code verbatim with `blake2b_soft.rs` and differs only in
  `compress`.  `update = updateC compress`, etc.
* `zeroize` calls have no functional effect and are omitted.
* LAYOUT ASSUMPTION: `paramBytes` lists the fields of `struct Params` in DECLARATION order.  The Rust struct is
  `#[repr(packed)]` WITHOUT `repr(C)` (`#[repr(packed)]` alone is `repr(Rust, packed)`): the language does not promise
  declaration order for it, only that there is no padding; `init_param` reads it as raw bytes
  (`from_raw_parts(params as *const u8, size_of::<Params>())`).  That rustc keeps the declared order here (all fields
  have alignment 1, nothing to reorder for) is an observation about the compiler, checked only by the differential
  runs against libsodium / RFC 7693 vectors, not by anything in this model.
* `generichashFinal st m` takes the OUTPUT length `m` as its own argument: the Rust does not compare it with the `outlen`
  given to `init` (`Proofs/Blake2bFinalLen.lean`, `C08.generichash_final_any_len`).
* `hash … (some [])` (an EMPTY key passed as `Some`) absorbs a 128-byte zero block although the parameter block says
  "unkeyed", exactly as the code does — off RFC 7693, unreachable through the public API
  (`C07.blake2b_hash_some_nil`).
-/
namespace DryocVerif.Model.Blake2b
open DryocVerif
open DryocVerif.Model.Utils (loadU64LE rotr64 slice)

def BLOCKBYTES : Nat := 128
def OUTBYTES : Nat := 64
def HALFOUTBYTES : Nat := 32
def KEYBYTES : Nat := 64
def SALTBYTES : Nat := 16
def PERSONALBYTES : Nat := 16

/-- `const SIGMA: [[usize; 16]; 12]` -/
def SIGMA : Array (Array Nat) := #[
  #[ 0,  1,  2,  3,  4,  5,  6,  7,  8,  9, 10, 11, 12, 13, 14, 15],
  #[14, 10,  4,  8,  9, 15, 13,  6,  1, 12,  0,  2, 11,  7,  5,  3],
  #[11,  8, 12,  0,  5,  2, 15, 13, 10, 14,  3,  6,  7,  1,  9,  4],
  #[ 7,  9,  3,  1, 13, 12, 11, 14,  2,  6,  5, 10,  4,  0, 15,  8],
  #[ 9,  0,  5,  7,  2,  4, 10, 15, 14,  1, 11, 12,  6,  8,  3, 13],
  #[ 2, 12,  6, 10,  0, 11,  8,  3,  4, 13,  7,  5, 15, 14,  1,  9],
  #[12,  5,  1, 15, 14, 13,  4, 10,  0,  7,  6,  3,  9,  2,  8, 11],
  #[13, 11,  7, 14, 12,  1,  3,  9,  5,  0, 15,  4,  8,  6,  2, 10],
  #[ 6, 15, 14,  9, 11,  3,  0,  8, 12,  2, 13,  7,  1,  4, 10,  5],
  #[10,  2,  8,  4,  7,  6,  1,  5, 15, 11,  9, 14,  3, 12, 13,  0],
  #[ 0,  1,  2,  3,  4,  5,  6,  7,  8,  9, 10, 11, 12, 13, 14, 15],
  #[14, 10,  4,  8,  9, 15, 13,  6,  1, 12,  0,  2, 11,  7,  5,  3]]

/-- `const IV: [u64; 8]` -/
def IV : Array UInt64 := #[
  0x6a09e667f3bcc908, 0xbb67ae8584caa73b, 0x3c6ef372fe94f82b, 0xa54ff53a5f1d36f1,
  0x510e527fade682d1, 0x9b05688c2b3e6c1f, 0x1f83d9abfb41bd6b, 0x5be0cd19137e2179]

/-- `-1i64 as u64` -/
def allOnes : UInt64 := 0xffffffffffffffff

/-! ### `compress` -/

/-- the closure `g` of `compress`; `tm` is captured by reference, `tv` mutably -/
def g (tm tv : Array UInt64) (r i a b c d : Nat) : Array UInt64 :=
  let tv := tv.set! a (tv[a]! + (tv[b]! + tm[SIGMA[r]![2 * i]!]!))
  let tv := tv.set! d (rotr64 (tv[d]! ^^^ tv[a]!) 32)
  let tv := tv.set! c (tv[c]! + tv[d]!)
  let tv := tv.set! b (rotr64 (tv[b]! ^^^ tv[c]!) 24)
  let tv := tv.set! a (tv[a]! + (tv[b]! + tm[SIGMA[r]![2 * i + 1]!]!))
  let tv := tv.set! d (rotr64 (tv[d]! ^^^ tv[a]!) 16)
  let tv := tv.set! c (tv[c]! + tv[d]!)
  let tv := tv.set! b (rotr64 (tv[b]! ^^^ tv[c]!) 63)
  tv

/-- the closure `round` of `compress` -/
def round (tm tv : Array UInt64) (r : Nat) : Array UInt64 :=
  let tv := g tm tv r 0 0 4 8 12
  let tv := g tm tv r 1 1 5 9 13
  let tv := g tm tv r 2 2 6 10 14
  let tv := g tm tv r 3 3 7 11 15
  let tv := g tm tv r 4 0 5 10 15
  let tv := g tm tv r 5 1 6 11 12
  let tv := g tm tv r 6 2 7 8 13
  let tv := g tm tv r 7 3 4 9 14
  tv

/-- `fn compress(sh: &mut [u64; 8], st: &[u64; 2], sf: &[u64; 2], block: &[u8])`; returns the new `sh`.
`sh` has 8 words and `block` 128 bytes at every call site. -/
def compress (sh : Array UInt64) (t0 t1 f0 f1 : UInt64) (block : Bytes) : Array UInt64 :=
  let tm : Array UInt64 := Array.replicate 16 0
  let tv : Array UInt64 := Array.replicate 16 0
  -- for i in 0..16 { tm[i] = load_u64_le(&block[(i * 8)..(i * 8 + 8)]); }
  let tm := (List.range 16).foldl (fun tm i => tm.set! i (loadU64LE (slice block (i * 8) (i * 8 + 8)))) tm
  -- tv[..8].copy_from_slice(sh);
  let tv := (List.range 8).foldl (fun tv i => tv.set! i sh[i]!) tv
  let tv := tv.set! 8 IV[0]!
  let tv := tv.set! 9 IV[1]!
  let tv := tv.set! 10 IV[2]!
  let tv := tv.set! 11 IV[3]!
  let tv := tv.set! 12 (t0 ^^^ IV[4]!)
  let tv := tv.set! 13 (t1 ^^^ IV[5]!)
  let tv := tv.set! 14 (f0 ^^^ IV[6]!)
  let tv := tv.set! 15 (f1 ^^^ IV[7]!)
  let tv := round tm tv 0
  let tv := round tm tv 1
  let tv := round tm tv 2
  let tv := round tm tv 3
  let tv := round tm tv 4
  let tv := round tm tv 5
  let tv := round tm tv 6
  let tv := round tm tv 7
  let tv := round tm tv 8
  let tv := round tm tv 9
  let tv := round tm tv 10
  let tv := round tm tv 11
  -- for i in 0..8 { sh[i] = sh[i] ^ tv[i] ^ tv[i + 8]; }
  (List.range 8).foldl (fun sh i => sh.set! i (sh[i]! ^^^ tv[i]! ^^^ tv[i + 8]!)) sh

/-- type of a compression function: `C h t0 t1 f0 f1 block` -/
abbrev Compress := Array UInt64 → UInt64 → UInt64 → UInt64 → UInt64 → Bytes → Array UInt64

/-- `fn increment_counter(t: &mut [u64; 2], inc: usize)`.
`c += inc as u128` is a checked add: it panics in a debug build (wraps in a release
build) once the 128-bit byte counter overflows, i.e. after 2^128 bytes have been hashed;
the model wraps. -/
def incrementCounter (t0 t1 : UInt64) (inc : Nat) : UInt64 × UInt64 :=
  let c : Nat := (t1.toNat <<< 64) ||| t0.toNat
  let c := (c + inc) % 2^128
  (UInt64.ofNat c, UInt64.ofNat (c >>> 64))

/-! ### `State` -/

structure State where
  h : Array UInt64
  t0 : UInt64
  t1 : UInt64
  f0 : UInt64
  f1 : UInt64
  lastNode : UInt8
  buf : Bytes
  deriving Repr, DecidableEq

/-- `State::default()` followed by `init0` (`h = IV`) -/
def init0 : State :=
  { h := (List.range 8).foldl (fun h i => h.set! i IV[i]!) (Array.replicate 8 0)
    t0 := 0, t1 := 0, f0 := 0, f1 := 0, lastNode := 0, buf := [] }

/-- the 64 bytes of the `#[repr(packed)] struct Params`, in field order, with the
`Default` values for everything but `digest_length`, `key_length`, `salt`, `personal`
(`salt` and `personal` are `[u8; 16]` in the Rust) -/
def paramBytes (outlen keylen : UInt8) (salt personal : Bytes) : Bytes :=
  [outlen]          -- digest_length
  ++ [keylen]       -- key_length
  ++ [1]            -- fanout
  ++ [1]            -- depth
  ++ zeros 4        -- leaf_length
  ++ zeros 8        -- node_offset
  ++ [0]            -- node_depth
  ++ [0]            -- inner_length
  ++ zeros 14       -- reserved
  ++ salt
  ++ personal

/-- `State::init_param(params)`; `pslice` = the raw bytes of `params` -/
def initParam (pslice : Bytes) : State :=
  let state := init0
  -- for i in 0..8 { state.h[i] ^= load_u64_le(&pslice[(8 * i)..(8 * i + 8)]); }
  { state with
    h := (List.range 8).foldl
      (fun h i => h.set! i (h[i]! ^^^ loadU64LE (slice pslice (8 * i) (8 * i + 8)))) state.h }

/-- `Vec::resize(n, 0)`: truncate or zero-extend to exactly `n` bytes -/
def resize (bs : Bytes) (n : Nat) : Bytes := bs.take n ++ zeros (n - bs.length)

/-- `slice.chunks_exact(n)`: the `len / n` full chunks, the remainder is ignored (`0 < n`) -/
def chunksExactAux (n : Nat) : Nat → Bytes → List Bytes
  | 0, _ => []
  | fuel+1, bs => if bs.length < n then [] else bs.take n :: chunksExactAux n fuel (bs.drop n)

def chunksExact (n : Nat) (bs : Bytes) : List Bytes := chunksExactAux n bs.length bs

/-- loop body `increment_counter(t, BLOCKBYTES); compress(h, t, f, chunk);` -/
def stepC (C : Compress) (st : State) (chunk : Bytes) : State :=
  let t := incrementCounter st.t0 st.t1 BLOCKBYTES
  { st with t0 := t.1, t1 := t.2, h := C st.h t.1 t.2 st.f0 st.f1 chunk }

/-- `State::update(&mut self, input)` -/
def updateC (C : Compress) (st : State) (input : Bytes) : State :=
  if input.length = 0 then
    -- return early if the input is empty
    st
  else if input.length + st.buf.length ≤ BLOCKBYTES then
    { st with buf := st.buf ++ input }
  else
    -- `!self.buf.is_empty() && self.buf.len() < BLOCKBYTES`
    let start := if st.buf.length ≠ 0 ∧ st.buf.length < BLOCKBYTES then BLOCKBYTES - st.buf.length else 0
    -- `input[..start]` is in range: input.len() + buf.len() > 128
    let buf := if st.buf.length ≠ 0 ∧ st.buf.length < BLOCKBYTES then st.buf ++ slice input 0 start else st.buf
    let remaining := input.length - start          -- no underflow: start < input.len()
    let end_ :=
      if remaining > BLOCKBYTES ∧ remaining % BLOCKBYTES = 0 then input.length - BLOCKBYTES
      else if remaining > BLOCKBYTES then input.length - remaining % BLOCKBYTES
      else start
    -- for chunk in self.buf.chunks_exact(BLOCKBYTES) { … }
    let st := (chunksExact BLOCKBYTES buf).foldl (stepC C) st
    -- for chunk in input[start..end].chunks_exact(BLOCKBYTES) { … }
    let st := (chunksExact BLOCKBYTES (slice input start end_)).foldl (stepC C) st
    -- self.buf.resize(input[end..].len(), 0); self.buf.copy_from_slice(&input[end..]);
    { st with buf := slice input end_ input.length }

def setLastnode (st : State) : State := { st with f1 := allOnes }

def isLastblock (st : State) : Bool := st.f0 != 0

def setLastblock (st : State) : State :=
  let st := if st.lastNode != 0 then setLastnode st else st
  { st with f0 := allOnes }

/-- the 64-byte `buffer` of `finalize`: `h[0].to_le_bytes() ‖ … ‖ h[7].to_le_bytes()` -/
def stateBytes (h : Array UInt64) : Bytes :=
  toLE 8 h[0]!.toNat ++ toLE 8 h[1]!.toNat ++ toLE 8 h[2]!.toNat ++ toLE 8 h[3]!.toNat
  ++ toLE 8 h[4]!.toNat ++ toLE 8 h[5]!.toNat ++ toLE 8 h[6]!.toNat ++ toLE 8 h[7]!.toNat

/-- `State::finalize(mut self, output)`; `outLen = output.len()`, the result is the new `output` -/
def finalizeC (C : Compress) (st : State) (outLen : Nat) : Outcome Bytes :=
  if outLen = 0 ∨ outLen > OUTBYTES then .err
  else if isLastblock st then .err
  else
    let st :=
      if st.buf.length > BLOCKBYTES then
        -- (unreachable from `init` + `update`s: `Proofs.Blake2b.buf_le_128`)
        let t := incrementCounter st.t0 st.t1 BLOCKBYTES
        let st := { st with t0 := t.1, t1 := t.2 }
        let st := { st with h := C st.h st.t0 st.t1 st.f0 st.f1 (slice st.buf 0 BLOCKBYTES) }
        let t := incrementCounter st.t0 st.t1 (st.buf.length - BLOCKBYTES)
        let st := { st with t0 := t.1, t1 := t.2 }
        let st := setLastblock st
        -- fill last block with zero padding (`Vec::resize` truncates a buffer longer than 256)
        let st := { st with buf := resize st.buf (2 * BLOCKBYTES) }
        { st with h := C st.h st.t0 st.t1 st.f0 st.f1 (slice st.buf BLOCKBYTES st.buf.length) }
      else
        let t := incrementCounter st.t0 st.t1 st.buf.length
        let st := { st with t0 := t.1, t1 := t.2 }
        let st := setLastblock st
        -- fill last block with zero padding
        let st := { st with buf := resize st.buf BLOCKBYTES }
        { st with h := C st.h st.t0 st.t1 st.f0 st.f1 st.buf }
    let buffer := stateBytes st.h
    .ok (slice buffer 0 outLen)

/-- `State::init(outlen: u8, key, salt, personal)`.  `outlen` is the `u8` argument (the
callers' `as u8` casts are modelled at the call sites); `salt` / `personal` are
`Option<&[u8; 16]>`, i.e. 16 bytes when present. -/
def initC (C : Compress) (outlen : Nat) (key salt personal : Option Bytes) : Outcome State :=
  if outlen = 0 ∨ outlen > OUTBYTES then .err
  else
    -- `key.len() as u8` TRUNCATES: a 256-byte key has key_length 0
    let keyLength : Nat := match key with
      | some key => key.length % 256
      | none => 0
    if keyLength > KEYBYTES then .err
    else
      let salt := match salt with
        | some salt => salt
        | none => zeros SALTBYTES
      let personal := match personal with
        | some personal => personal
        | none => zeros PERSONALBYTES
      let state := initParam (paramBytes (UInt8.ofNat outlen) (UInt8.ofNat keyLength) salt personal)
      match key with
      | some key =>
        -- let mut block = [0u8; BLOCKBYTES]; block[..key.len()].copy_from_slice(key);
        -- (slice index panic when key.len() > 128, reachable for key.len() ≡ 0..64 mod 256)
        if key.length > BLOCKBYTES then .panic
        else
          let block := key ++ zeros (BLOCKBYTES - key.length)
          .ok (updateC C state block)
      | none => .ok state

/-- `init`, then `update` with each chunk in turn, then `finalize` into an `outLen`-byte
output; `outLen` is also the `outlen` given to `init` (as in `pub fn hash`, including its
`output.len() > OUTBYTES` check, which precedes the `as u8` cast). -/
def hashChunksC (C : Compress) (outLen : Nat) (key salt personal : Option Bytes)
    (cs : List Bytes) : Outcome Bytes :=
  if outLen > OUTBYTES then .err
  else
    match initC C (outLen % 256) key salt personal with
    | .ok state => finalizeC C (cs.foldl (updateC C) state) outLen
    | .err => .err
    | .panic => .panic

/-! ### instances for `blake2b_soft.rs` -/

def init (outlen : Nat) (key salt personal : Option Bytes) : Outcome State :=
  initC compress outlen key salt personal

def update (st : State) (input : Bytes) : State := updateC compress st input

def finalize (st : State) (outLen : Nat) : Outcome Bytes := finalizeC compress st outLen

/-- incremental use: `init(outLen, key, None, None)`, `update(c₁)`, …, `update(cₙ)`, `finalize` -/
def hashChunks (outLen : Nat) (key : Option Bytes) (cs : List Bytes) : Outcome Bytes :=
  hashChunksC compress outLen key none none cs

/-- `pub fn hash(output, input, key)`; `outLen = output.len()` -/
def hash (outLen : Nat) (input : Bytes) (key : Option Bytes) : Outcome Bytes :=
  if outLen > OUTBYTES then .err
  else
    match init (outLen % 256) key none none with
    | .ok state =>
      let state := update state input
      finalize state outLen
    | .err => .err
    | .panic => .panic

/-! ### `longhash` (Argon2 H′) -/

/-- the `for chunk in start.chunks_exact_mut(HALFOUTBYTES)` loop of `longhash`, `n` iterations:
returns the bytes written to `start` and the final `in_buffer` -/
def longLoop : Nat → Bytes → Outcome (Bytes × Bytes)
  | 0, inBuffer => .ok ([], inBuffer)
  | n+1, inBuffer =>
    match hash OUTBYTES inBuffer none with
    | .ok outBuffer =>
      match longLoop n outBuffer with
      | .ok (rest, last) => .ok (slice outBuffer 0 HALFOUTBYTES ++ rest, last)
      | .err => .err
      | .panic => .panic
    | .err => .err
    | .panic => .panic

/-- checked `usize` subtraction -/
def checkedSub (a b : Nat) : Option Nat := if b ≤ a then some (a - b) else none

/-- `pub fn longhash(output, input)`; `outLen = output.len()` (64-bit `usize`) -/
def longhash (outLen : Nat) (input : Bytes) : Outcome Bytes :=
  if ¬ outLen > 4 then .panic                       -- assert!(output.len() > 4)
  else if ¬ outLen < 4294967295 then .panic         -- assert!(output.len() < u32::MAX as usize)
  else
    let outlenBytes := toLE 4 outLen                -- (output.len() as u32).to_le_bytes()
    match init (min outLen OUTBYTES % 256) none none none with
    | .err => .err
    | .panic => .panic
    | .ok state =>
      let state := update state outlenBytes
      let state := update state input
      if outLen ≤ OUTBYTES then finalize state outLen
      else
        match finalize state OUTBYTES with           -- into output[..OUTBYTES]
        | .err => .err
        | .panic => .panic
        | .ok out0 =>
          let inBuffer := out0
          let outlen := outLen - HALFOUTBYTES        -- no underflow: outLen > 64
          let chunkCount :=
            if outlen % HALFOUTBYTES = 0 then checkedSub (outlen / HALFOUTBYTES) 2
            else checkedSub (outlen / HALFOUTBYTES) 1
          match chunkCount with
          | none => .panic                           -- `attempt to subtract with overflow`
          | some chunkCount =>
            let end_ := chunkCount * HALFOUTBYTES
            -- output[HALFOUTBYTES..].split_at_mut(end)
            if end_ > outLen - HALFOUTBYTES then .panic
            else
              match longLoop chunkCount inBuffer with
              | .err => .err
              | .panic => .panic
              | .ok (start, inBuffer) =>
                match hash (outLen - HALFOUTBYTES - end_) inBuffer none with
                | .err => .err
                | .panic => .panic
                | .ok last =>
                  -- output = out0[..32] ‖ start ‖ end  (output[32..64] is overwritten)
                  .ok (slice out0 0 HALFOUTBYTES ++ start ++ last)

/-! ### generichash_blake2b.rs -/

/-- `crypto_generichash_blake2b_validate_outlen` -/
def validateOutlen (outlen : Nat) : Bool := 16 ≤ outlen && outlen ≤ 64

/-- `crypto_generichash_blake2b_validate_key` -/
def validateKey : Option Bytes → Bool
  | some key => !(key.length < 16 || key.length > 64)
  | none => true

/-- `crypto_generichash_blake2b(output, input, key)` = `crypto_generichash` -/
def generichash (outLen : Nat) (input : Bytes) (key : Option Bytes) : Outcome Bytes :=
  if !validateOutlen outLen then .err
  else if !validateKey key then .err
  else hash outLen input key

/-- `crypto_generichash_blake2b_init(key, outlen, salt, personal)` -/
def generichashInit (key : Option Bytes) (outlen : Nat) (salt personal : Option Bytes) :
    Outcome State :=
  if !validateOutlen outlen then .err
  else if !validateKey key then .err
  else init (outlen % 256) key salt personal

/-- `crypto_generichash_blake2b_update` -/
def generichashUpdate (st : State) (input : Bytes) : State := update st input

/-- `crypto_generichash_blake2b_final(state, output)`; `outLen = output.len()` -/
def generichashFinal (st : State) (outLen : Nat) : Outcome Bytes := finalize st outLen

end DryocVerif.Model.Blake2b
