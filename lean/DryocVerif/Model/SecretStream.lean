import DryocVerif.Bytes
import DryocVerif.Model.Utils
/-
Model of /repo/src/classic/crypto_secretstream_xchacha20poly1305.rs and of the
object layer /repo/src/dryocstream.rs.

`State` is the Rust `State { k: [u8;32], nonce: [u8;12] }`, the nonce being the
4-byte little-endian message counter followed by the 8-byte inner nonce.
ChaCha20 (crate `chacha20`), HChaCha20 and Poly1305 are parameters.
-/
namespace DryocVerif.Model.SecretStream
open DryocVerif DryocVerif.Model.Utils

structure Prims where
  /-- `chacha key nonce12 blockCtr len` : `len` key-stream bytes starting at 64-byte block `blockCtr` -/
  chacha : Bytes → Bytes → Nat → Nat → Bytes
  /-- HChaCha20 `key in16` -/
  hchacha : Bytes → Bytes → Bytes
  /-- Poly1305 `key32 msg` -/
  mac : Bytes → Bytes → Bytes

structure State where
  k : Bytes
  nonce : Bytes
  deriving Repr, DecidableEq

def ABYTES : Nat := 17
def TAG_REKEY : Nat := 2

def State.counter (s : State) : Bytes := s.nonce.take 4
def State.inonce (s : State) : Bytes := (s.nonce.drop 4).take 8

/-- `_counter_reset` -/
def counterReset (s : State) : State := { s with nonce := [1, 0, 0, 0] ++ s.nonce.drop 4 }

/-- `init_push` (with `header` = the 24 random bytes) and `init_pull` build the same state -/
def initState (P : Prims) (header key : Bytes) : State :=
  { k := P.hchacha key (header.take 16), nonce := [1, 0, 0, 0] ++ (header.drop 16).take 8 }

/-- `crypto_secretstream_xchacha20poly1305_rekey` -/
def rekey (P : Prims) (s : State) : State :=
  let ns := xorBytes (s.k ++ s.inonce) (P.chacha s.k s.nonce 0 40)
  counterReset { k := ns.take 32, nonce := s.counter ++ ns.drop 32 }

/-- `((0x10 - block.len() as i64 + mlen as i64) & 0xf) as usize` -/
def bufferMacPad (mlen : Nat) : Nat := (((0x10 : Int) - 64 + (mlen : Int)) % 16).toNat

/-- the byte string authenticated by Poly1305 -/
def macInput (ad block c : Bytes) : Bytes :=
  ad ++ zeros (pad16 ad.length) ++ block ++ c ++ zeros (bufferMacPad c.length)
    ++ toLE 8 ad.length ++ toLE 8 (64 + c.length)

/-- state update shared by push and pull after a message was accepted -/
def advance (P : Prims) (s : State) (mac : Bytes) (tag : UInt8) : State :=
  let inonce := xorBuf s.inonce mac
  let ctr := incrementBytes s.counter
  let s' : State := { s with nonce := ctr ++ inonce }
  if tag.toNat &&& TAG_REKEY = TAG_REKEY ∨ ctr = [0, 0, 0, 0] then rekey P s' else s'

/-- `crypto_secretstream_xchacha20poly1305_push(state, ciphertext, message, ad, tag)`;
`ctLen` is the length of the caller's ciphertext buffer -/
def push (P : Prims) (s : State) (ctLen : Nat) (msg ad : Bytes) (tag : UInt8) : Outcome (Bytes × State) :=
  if ctLen ≠ msg.length + ABYTES then .err
  else
    let macKey := P.chacha s.k s.nonce 0 32
    let block := xorBytes (tag :: zeros 63) (P.chacha s.k s.nonce 1 64)
    let c := xorBytes msg (P.chacha s.k s.nonce 2 msg.length)
    let mac := P.mac macKey (macInput ad block c)
    .ok (block.take 1 ++ c ++ mac, advance P s mac tag)

/-- result of `pull`: outcome (message length), then the caller's message buffer, tag variable and the state afterwards -/
structure Pulled where
  res : Outcome Nat
  buf : Bytes
  tag : UInt8
  st : State
  deriving Repr, DecidableEq

/-- `crypto_secretstream_xchacha20poly1305_pull(state, message, tag, ciphertext, ad)`:
length checks first; the tag variable, the message buffer and the state are written only
after the authenticator has been verified. -/
def pull (P : Prims) (s : State) (m : Bytes) (tagv : UInt8) (ct ad : Bytes) : Pulled :=
  if ct.length < ABYTES then ⟨.err, m, tagv, s⟩
  else
    let mlen := ct.length - ABYTES
    if m.length < mlen then ⟨.err, m, tagv, s⟩
    else
      let macKey := P.chacha s.k s.nonce 0 32
      let dec := xorBytes (ct.take 1 ++ zeros 63) (P.chacha s.k s.nonce 1 64)
      let block := ct.take 1 ++ dec.drop 1
      let c := (ct.drop 1).take mlen
      let mac := P.mac macKey (macInput ad block c)
      if ct.drop (1 + mlen) ≠ mac then ⟨.err, m, tagv, s⟩
      else
        let tag := dec.headD 0
        let msg := xorBytes c (P.chacha s.k s.nonce 2 mlen)
        ⟨.ok mlen, msg ++ m.drop mlen, tag, advance P s mac tag⟩

/-! ### object layer (dryocstream.rs) -/

/-- `DryocStream<Push>::push` : allocates `msg.len()+17` bytes itself -/
def objPush (P : Prims) (s : State) (msg ad : Bytes) (tag : UInt8) : Outcome (Bytes × State) :=
  push P s (msg.length + ABYTES) msg ad tag

/-- `DryocStream<Pull>::pull` → `Ok((message, tag))` / `Err`; every authentic message is
returned with its tag byte retained as is (`Tag::from_bits_retain`) -/
def objPull (P : Prims) (s : State) (ct ad : Bytes) : Outcome (Bytes × UInt8) × State :=
  if ct.length < ABYTES then (.err, s)
  else
    let r := pull P s (zeros (ct.length - ABYTES)) 0 ct ad
    match r.res with
    | .ok _ => (.ok (r.buf, r.tag), r.st)
    | .err => (.err, s)
    | .panic => (.panic, s)

/-- `DryocStream<Pull>::pull` exactly as the Rust is shaped: the classic `pull` works on
`&mut self.state`, so whatever it left there is the state afterwards — also on `Err` (the `?`
returns early, nothing restores the state).  `objPull` above writes the OLD state on the error
branches; `Proofs.SecretStream.objPullRaw_eq_objPull` shows the two agree, because a rejected
classic `pull` does not touch the state. -/
def objPullRaw (P : Prims) (s : State) (ct ad : Bytes) : Outcome (Bytes × UInt8) × State :=
  if ct.length < ABYTES then (.err, s)
  else
    let r := pull P s (zeros (ct.length - ABYTES)) 0 ct ad
    match r.res with
    | .ok _ => (.ok (r.buf, r.tag), r.st)
    | .err => (.err, r.st)
    | .panic => (.panic, r.st)

/-! ### the length guards against the key-stream limit

`push` and `pull` above leave out the two comparisons against the maximal message length (unreachable in a
differential run: 256 GiB).  `pushChecked` / `pullChecked` add exactly those guards, in the position they have
in the Rust.  Since fix E16 the Rust compares with `KEYSTREAM_MESSAGEBYTES_MAX = MESSAGEBYTES_MAX − 64`
(`push`: `message.len()`, `pull`: `ciphertext.len() − ABYTES`); before it compared with
`CRYPTO_SECRETSTREAM_XCHACHA20POLY1305_MESSAGEBYTES_MAX` (`push`: `message.len()`, `pull`: `ciphertext.len()`),
which is one key-stream block more than the ChaCha20 crate hands out — `pushCheckedOld16` / `pullCheckedOld16`
keep those guards as counter-models. -/

/-- `SODIUM_SIZE_MAX = min(usize::MAX, u64::MAX as usize)` on a 64-bit target -/
def SODIUM_SIZE_MAX : Nat := min (2 ^ 64 - 1) (2 ^ 64 - 1)

/-- `CRYPTO_SECRETSTREAM_XCHACHA20POLY1305_MESSAGEBYTES_MAX =
min(SODIUM_SIZE_MAX - ABYTES, (64u64 * ((1u64 << 32) - 2u64)) as usize)` (src/constants.rs): the public constant
(libsodium's value).  Since fix E16 no guard of the secretstream functions compares with it directly. -/
def MESSAGEBYTES_MAX : Nat := min (SODIUM_SIZE_MAX - ABYTES) (64 * (2 ^ 32 - 2))

/-- `const KEYSTREAM_MESSAGEBYTES_MAX: usize = CRYPTO_SECRETSTREAM_XCHACHA20POLY1305_MESSAGEBYTES_MAX - 64`
(src/classic/crypto_secretstream_xchacha20poly1305.rs, fix E16): the longest message whose key stream the
ChaCha20 crate hands out after the two blocks used for the MAC key and the tag -/
def KEYSTREAM_MESSAGEBYTES_MAX : Nat := MESSAGEBYTES_MAX - 64

/-- `crypto_secretstream_xchacha20poly1305_push` with its second guard
`if message.len() > KEYSTREAM_MESSAGEBYTES_MAX { return Err }` (after the ciphertext-length check) -/
def pushChecked (P : Prims) (s : State) (ctLen : Nat) (msg ad : Bytes) (tag : UInt8) : Outcome (Bytes × State) :=
  if ctLen ≠ msg.length + ABYTES then .err
  else if msg.length > KEYSTREAM_MESSAGEBYTES_MAX then .err
  else push P s ctLen msg ad tag

/-- `crypto_secretstream_xchacha20poly1305_pull` with its third guard
`if ciphertext.len() - ABYTES > KEYSTREAM_MESSAGEBYTES_MAX { return Err }` (after the two length checks; since
fix E16 the MESSAGE length is compared, as in `push` and in libsodium) -/
def pullChecked (P : Prims) (s : State) (m : Bytes) (tagv : UInt8) (ct ad : Bytes) : Pulled :=
  if ct.length < ABYTES then ⟨.err, m, tagv, s⟩
  else if m.length < ct.length - ABYTES then ⟨.err, m, tagv, s⟩
  else if ct.length - ABYTES > KEYSTREAM_MESSAGEBYTES_MAX then ⟨.err, m, tagv, s⟩
  else pull P s m tagv ct ad

/-- `DryocStream<Push>::push` over the guarded classic function -/
def objPushChecked (P : Prims) (s : State) (msg ad : Bytes) (tag : UInt8) : Outcome (Bytes × State) :=
  pushChecked P s (msg.length + ABYTES) msg ad tag

/-- `DryocStream<Pull>::pull` over the guarded classic function (state threaded as in `objPullRaw`) -/
def objPullChecked (P : Prims) (s : State) (ct ad : Bytes) : Outcome (Bytes × UInt8) × State :=
  if ct.length < ABYTES then (.err, s)
  else
    let r := pullChecked P s (zeros (ct.length - ABYTES)) 0 ct ad
    match r.res with
    | .ok _ => (.ok (r.buf, r.tag), r.st)
    | .err => (.err, r.st)
    | .panic => (.panic, r.st)

/-- counter-model, the guard before fix E16: `if message.len() > …_MESSAGEBYTES_MAX { return Err }` -/
def pushCheckedOld16 (P : Prims) (s : State) (ctLen : Nat) (msg ad : Bytes) (tag : UInt8) : Outcome (Bytes × State) :=
  if ctLen ≠ msg.length + ABYTES then .err
  else if msg.length > MESSAGEBYTES_MAX then .err
  else push P s ctLen msg ad tag

/-- counter-model, the guard before fix E16: `if ciphertext.len() > …_MESSAGEBYTES_MAX { return Err }` (the Rust
compared the CIPHERTEXT length, not `mlen`, against the maximum) -/
def pullCheckedOld16 (P : Prims) (s : State) (m : Bytes) (tagv : UInt8) (ct ad : Bytes) : Pulled :=
  if ct.length < ABYTES then ⟨.err, m, tagv, s⟩
  else if m.length < ct.length - ABYTES then ⟨.err, m, tagv, s⟩
  else if ct.length > MESSAGEBYTES_MAX then ⟨.err, m, tagv, s⟩
  else pull P s m tagv ct ad

end DryocVerif.Model.SecretStream
