import DryocVerif.Model.SecretStreamRaw
/-
STORE-PASSING model of `crypto_secretstream_xchacha20poly1305_pull`
(/repo/src/classic/crypto_secretstream_xchacha20poly1305.rs), third review.

`pull` / `pullRaw` / `pullRawWith` return the caller's state, message buffer and tag variable on `Err` BY DEFINITION
(their `.err` branches are written `⟨.err, m, tagv, s⟩`), so "a rejected pull leaves everything untouched" unfolds a
definition: moving `xor_buf(inonce, &mac)` or `*tag = decrypted_tag` above the MAC comparison in the Rust breaks no
theorem about them.  Here every Rust assignment through a `&mut` argument —

    *tag = decrypted_tag;
    message[..mlen].copy_from_slice(&ciphertext[1..1 + mlen]);
    cipher.apply_keystream(&mut message[..mlen]);
    xor_buf(inonce, &mac);                 // state.nonce[4..12]
    increment_bytes(counter);              // state.nonce[0..4]
    crypto_secretstream_xchacha20poly1305_rekey(state);

— is a `Stmt.write` on the store `Mem` (`Model/RawOps.lean`: `Stmt`), IN THE ORDER OF THE SOURCE, and `Err` returns the
store as it is when the `return Err(..)` executes.  `Proofs/StreamStoreExtra.lean`: `pullStmts_err_untouched` (a real
statement: it holds because each of the four `return Err` precedes the first write), `pullStmts_eq_pullRaw`, and the
counter-model `pullStmtsOld8` (order before fix E8: tag and plaintext released before the comparison), which violates
it.

The function body is cut into the contiguous statement ranges of the source:
  `pullGuardsRaw`   lines "if ciphertext.len() < ABYTES" … third length guard        (locals only)
  `pullMacRaw`      `let associated_data = …` … `let mac = mac.finalize_to_array()`   (locals only; reads `state`)
  `pullCompareRaw`  `if ciphertext[1 + mlen..].ct_eq(&mac) == 0 { return Err }`       (locals only)
  `releaseStmts`    `*tag = …; message[..mlen].copy_from_slice(..); cipher.seek(128); cipher.apply_keystream(..)`
  `advanceStmts`    `xor_buf(inonce, &mac); increment_bytes(counter); if … { rekey(state) }`
Core only (no Mathlib).
-/
namespace DryocVerif.Model.SecretStream
open DryocVerif DryocVerif.Model.Utils DryocVerif.Model.Raw
open scoped DryocVerif.Model.Raw

/-- everything the classic `pull` can write to: `state: &mut State`, `message: &mut [u8]`, `tag: &mut u8` -/
structure Mem where
  st : State
  buf : Bytes
  tag : UInt8
  deriving Repr, DecidableEq

/-- the locals that survive the MAC computation: `mlen`, `decrypted_tag`, `mac` -/
structure Verified where
  mlen : Nat
  dtag : UInt8
  mac : Bytes
  deriving Repr, DecidableEq

/-- the three length guards, in source order (`msgLen` = `message.len()`) -/
def pullGuardsRaw (msgLen : Nat) (ct : Bytes) : Outcome Unit := do
  -- `if ciphertext.len() < ABYTES { return Err }`
  errIf (ct.length < ABYTES)
  -- `if message.len() < ciphertext.len() - ABYTES { return Err }`
  let need ← checkedSub ct.length ABYTES
  errIf (msgLen < need)
  -- `if ciphertext.len() - ABYTES > KEYSTREAM_MESSAGEBYTES_MAX { return Err }`
  pullMaxGuard true ct.length

/-- `let associated_data = …` to `let mac = mac.finalize_to_array()`: the cipher is built from `state.k` /
`state.nonce` (copies), the Poly1305 key is drawn, AD, pad, tag block, body, pad and the two lengths are fed to the
MAC.  Assigns to locals only. -/
def pullMacRaw (P : Prims) (s : State) (ct ad : Bytes) : Outcome Verified := do
  let pad0 := zeros 16
  -- `cipher.apply_keystream(&mut mac_key)`; `Poly1305::new(&mac_key)`
  let macKey ← keystream P s 0 32
  -- `mac.update(associated_data); mac.update(&_pad0[..pad16(associated_data.len())])`
  let u1 := ad
  let u2 ← sliceTo pad0 (pad16 ad.length)
  -- `block[0] = ciphertext[0]; cipher.seek(64); cipher.apply_keystream(&mut block);
  -- let decrypted_tag = block[0]; block[0] = ciphertext[0]; mac.update(&block)`
  let tb ← tagBlockRaw P s ct
  let decryptedTag := tb.1
  let u3 := tb.2
  -- `let mlen = ciphertext.len() - ABYTES`
  let mlen ← checkedSub ct.length ABYTES
  -- `((0x10 - block.len() as i64 + mlen as i64) & 0xf) as usize`
  let t ← checkedAddI64 (0x10 - 64) (asI64 mlen)
  let bufferMacPad := (t % 16).toNat
  -- `mac.update(&ciphertext[1..1 + mlen]); mac.update(&_pad0[..buffer_mac_pad])`
  let e ← checkedAdd 1 mlen
  let u4 ← slice ct 1 e
  let u5 ← sliceTo pad0 bufferMacPad
  -- `size_data`; `mac.update(&size_data); let mac = mac.finalize_to_array()`
  let total ← checkedAdd 64 mlen
  let u6 ← sizeDataRaw ad.length total
  pure ⟨mlen, decryptedTag, P.mac macKey (u1 ++ u2 ++ u3 ++ u4 ++ u5 ++ u6)⟩

/-- `if ciphertext[1 + mlen..].ct_eq(&mac).unwrap_u8() == 0 { return Err }` -/
def pullCompareRaw (ct : Bytes) (v : Verified) : Outcome Unit := do
  let e ← checkedAdd 1 v.mlen
  let received ← sliceFrom ct e
  errIf (received ≠ v.mac)

/-- the release of tag and plaintext: `*tag = decrypted_tag; message[..mlen].copy_from_slice(&ciphertext[1..1 + mlen]);
cipher.seek(128); cipher.apply_keystream(&mut message[..mlen])`.  `s0` is the state the cipher was built from (the
cipher holds copies of key and nonce). -/
def releaseStmts (P : Prims) (s0 : State) (ct : Bytes) (v : Verified) : Stmt Mem Unit := do
  -- `*tag = decrypted_tag`
  Stmt.write fun μ => { μ with tag := v.dtag }
  -- `message[..mlen].copy_from_slice(&ciphertext[1..1 + mlen])`
  let μ ← Stmt.read
  let dst ← Stmt.eval (sliceTo μ.buf v.mlen)
  let e ← Stmt.eval (checkedAdd 1 v.mlen)
  let src ← Stmt.eval (slice ct 1 e)
  let dst ← Stmt.eval (copyFromSlice dst src)
  Stmt.write fun μ => { μ with buf := dst ++ μ.buf.drop v.mlen }
  -- `cipher.seek(128); cipher.apply_keystream(&mut message[..mlen])`
  let μ ← Stmt.read
  let dst ← Stmt.eval (sliceTo μ.buf v.mlen)
  let ks ← Stmt.eval (keystream P s0 128 dst.length)
  Stmt.write fun μ => { μ with buf := xorBytes dst ks ++ μ.buf.drop v.mlen }

/-- the state update: `xor_buf(inonce, &mac)` on `state.nonce[4..12]`, `increment_bytes(counter)` on
`state.nonce[0..4]`, then `if *tag & TAG_REKEY == TAG_REKEY || counter == [0; 4] { rekey(state) }` — the tag is read
back from the caller's tag variable, as the Rust does (`*tag`) -/
def advanceStmts (P : Prims) (v : Verified) : Stmt Mem Unit := do
  -- `let inonce = state_inonce(&mut state.nonce); xor_buf(inonce, &mac)`
  Stmt.write fun μ => { μ with st := { μ.st with nonce := μ.st.counter ++ xorBuf μ.st.inonce v.mac } }
  -- `let counter = state_counter(&mut state.nonce); increment_bytes(counter)`
  Stmt.write fun μ => { μ with st := { μ.st with nonce := incrementBytes μ.st.counter ++ μ.st.inonce } }
  -- `if *tag & TAG_REKEY == TAG_REKEY || state_counter(..).ct_eq(&[0u8; 4]) == 1 { rekey(state) }`
  let μ ← Stmt.read
  if μ.tag.toNat &&& TAG_REKEY = TAG_REKEY ∨ μ.st.counter = [0, 0, 0, 0] then
    Stmt.write fun μ => { μ with st := rekey P μ.st }

/-- **`crypto_secretstream_xchacha20poly1305_pull(state, message, tag, ciphertext, ad)` as statements on the store**,
current source (fix E8 in place): guards, MAC, comparison, and only then the writes; `Ok(mlen)` -/
def pullStmtsM (P : Prims) (ct ad : Bytes) : Stmt Mem Nat := do
  let μ0 ← Stmt.read
  Stmt.eval (pullGuardsRaw μ0.buf.length ct)
  let v ← Stmt.eval (pullMacRaw P μ0.st ct ad)
  Stmt.eval (pullCompareRaw ct v)
  -- "the tag and the plaintext are released only once the message is authenticated"
  releaseStmts P μ0.st ct v
  advanceStmts P v
  pure v.mlen

def pullStmts (P : Prims) (ct ad : Bytes) : Mem → Outcome Nat × Mem := (pullStmtsM P ct ad).run

/-- **counter-model: the order before fix E8** — tag and plaintext are written BEFORE the authenticator is compared
(the pre-fix source wrote `*tag` right after decrypting the tag block and decrypted into `message` before
`mac.finalize`; placing both immediately before the comparison is the mildest such order), the state after it -/
def pullStmtsOld8M (P : Prims) (ct ad : Bytes) : Stmt Mem Nat := do
  let μ0 ← Stmt.read
  Stmt.eval (pullGuardsRaw μ0.buf.length ct)
  let v ← Stmt.eval (pullMacRaw P μ0.st ct ad)
  releaseStmts P μ0.st ct v
  Stmt.eval (pullCompareRaw ct v)
  advanceStmts P v
  pure v.mlen

def pullStmtsOld8 (P : Prims) (ct ad : Bytes) : Mem → Outcome Nat × Mem := (pullStmtsOld8M P ct ad).run

/-- **counter-model: `xor_buf(inonce, &mac)` (and the rest of the state update) moved above the MAC comparison** —
the reordering the reviewer names: no theorem about `pull` / `pullRaw` notices it -/
def pullStmtsEarlyStateM (P : Prims) (ct ad : Bytes) : Stmt Mem Nat := do
  let μ0 ← Stmt.read
  Stmt.eval (pullGuardsRaw μ0.buf.length ct)
  let v ← Stmt.eval (pullMacRaw P μ0.st ct ad)
  -- `xor_buf(inonce, &mac)` in front of the comparison
  Stmt.write fun μ => { μ with st := { μ.st with nonce := μ.st.counter ++ xorBuf μ.st.inonce v.mac } }
  Stmt.eval (pullCompareRaw ct v)
  releaseStmts P μ0.st ct v
  Stmt.write fun μ => { μ with st := { μ.st with nonce := incrementBytes μ.st.counter ++ μ.st.inonce } }
  let μ ← Stmt.read
  if μ.tag.toNat &&& TAG_REKEY = TAG_REKEY ∨ μ.st.counter = [0, 0, 0, 0] then
    Stmt.write fun μ => { μ with st := rekey P μ.st }
  pure v.mlen

def pullStmtsEarlyState (P : Prims) (ct ad : Bytes) : Mem → Outcome Nat × Mem := (pullStmtsEarlyStateM P ct ad).run

end DryocVerif.Model.SecretStream
