import DryocVerif.Bytes
import DryocVerif.Spec.Blake2b
import DryocVerif.Spec.Argon2
/-
Model of `src/argon2.rs` (and of the `crypto_pwhash` wrapper of
`src/classic/crypto_pwhash.rs`), function by function.  It follows the *Rust*, not
RFC 9106: the same loops, the same `curr_offset` / `prev_offset` bookkeeping, the same
integer types.

Conventions
* every Rust integer is a `Nat`; every checked `u32` / `u64` / `usize` operation (`+ - * / %`)
  is one of `addU32 … remU32`, `addU64`, `mulU64`, `subUsize`, returning `Outcome.panic` on
  overflow, underflow or division by zero — so "no arithmetic panic" is a *theorem* about the
  model (see `Properties/C09.lean`), never an assumption.  (With `overflow-checks` off, i.e. a
  default `--release` build, Rust wraps instead of panicking on `+ - *`; division by zero
  panics in every build.)
* `usize` is 64 bits (the model is of a 64-bit target: `ARGON2_MAX_MEMORY = 0xFFFFFFFF`).
* every slice / `Vec` index is `getBlock` / `setBlock` / `getWord` / `setWord`: out of bounds =
  `Outcome.panic`.  Indexing into the fixed `[u64; 128]` of a `Block` with a statically bounded
  index is `[·]!` / `set!`.
* `Result::Err` (propagated with `?`) is `Outcome.err`.
* dependencies are stand-ins: BLAKE2b is `Spec.Blake2b.hash` (the `State::update` chunking law is
  proved elsewhere), `load_u64_le` / `to_le_bytes` are the byte codecs of `Spec.Blake2b`.
* the `Argon2Instance` is split into its read-only geometry (`Instance`) and the two mutable
  vectors (`memory`, `pseudo_rands`), which are threaded linearly through all loops so that the
  compiled code updates them in place.
-/
namespace DryocVerif.Model.Argon2
open DryocVerif
open DryocVerif.Spec (Blake2b.rotr Blake2b.hash Blake2b.wordsOfBytes Blake2b.bytesOfWords)

/-! ### `Outcome` as a monad, checked machine arithmetic, loops -/

@[inline] def obind {α β : Type} (x : Outcome α) (f : α → Outcome β) : Outcome β :=
  match x with
  | .ok a => f a
  | .err => .err
  | .panic => .panic

scoped instance : Monad Outcome where
  pure := .ok
  bind := obind

def U32 : Nat := 2 ^ 32
def U64 : Nat := 2 ^ 64

def addU32 (a b : Nat) : Outcome Nat := if a + b < U32 then .ok (a + b) else .panic
def subU32 (a b : Nat) : Outcome Nat := if b ≤ a then .ok (a - b) else .panic
def mulU32 (a b : Nat) : Outcome Nat := if a * b < U32 then .ok (a * b) else .panic
def divU32 (a b : Nat) : Outcome Nat := if b = 0 then .panic else .ok (a / b)
def remU32 (a b : Nat) : Outcome Nat := if b = 0 then .panic else .ok (a % b)
def addU64 (a b : Nat) : Outcome Nat := if a + b < U64 then .ok (a + b) else .panic
def mulU64 (a b : Nat) : Outcome Nat := if a * b < U64 then .ok (a * b) else .panic
def remU64 (a b : Nat) : Outcome Nat := if b = 0 then .panic else .ok (a % b)
def subUsize (a b : Nat) : Outcome Nat := if b ≤ a then .ok (a - b) else .panic

/-- `for i in start..start+n { s = f(i, s)? }` -/
def forRange {σ : Type} (f : Nat → σ → Outcome σ) : Nat → Nat → σ → Outcome σ
  | _, 0, s => .ok s
  | i, n + 1, s =>
    match f i s with
    | .ok s' => forRange f (i + 1) n s'
    | .err => .err
    | .panic => .panic

/-- `for i in a..b` (empty when `b ≤ a`) -/
@[inline] def forLoop {σ : Type} (a b : Nat) (f : Nat → σ → Outcome σ) (s : σ) : Outcome σ :=
  forRange f a (b - a) s

/-! ### Constants (argon2.rs lines 7–63) -/

def ARGON2_VERSION_NUMBER : Nat := 0x13
def ARGON2_BLOCK_SIZE : Nat := 1024
def ARGON2_QWORDS_IN_BLOCK : Nat := 128
def ARGON2_ADDRESSES_IN_BLOCK : Nat := 128
def ARGON2_PREHASH_DIGEST_LENGTH : Nat := 64
def ARGON2_PREHASH_SEED_LENGTH : Nat := 72
def ARGON2_MIN_LANES : Nat := 1
def ARGON2_MAX_LANES : Nat := 0xFFFFFF
def ARGON2_SYNC_POINTS : Nat := 4
def ARGON2_MIN_OUTLEN : Nat := 16
def ARGON2_MAX_OUTLEN : Nat := 0xFFFFFFFF
/-- `2 * ARGON2_SYNC_POINTS` -/
def ARGON2_MIN_MEMORY : Nat := 8
/-- `min(0xFFFFFFFF, 1 << min(32, 64 - 10 - 1))` on a 64-bit target -/
def ARGON2_MAX_MEMORY : Nat := 0xFFFFFFFF
def ARGON2_MIN_TIME : Nat := 1
def ARGON2_MAX_TIME : Nat := 0xFFFFFFFF
def ARGON2_MIN_PWD_LENGTH : Nat := 0
def ARGON2_MAX_PWD_LENGTH : Nat := 0xFFFFFFFF
def ARGON2_MIN_AD_LENGTH : Nat := 0
def ARGON2_MAX_AD_LENGTH : Nat := 0xFFFFFFFF
def ARGON2_MIN_SALT_LENGTH : Nat := 8
def ARGON2_MAX_SALT_LENGTH : Nat := 0xFFFFFFFF
def ARGON2_MIN_SECRET : Nat := 0
def ARGON2_MAX_SECRET : Nat := 0xFFFFFFFF

/-- `Argon2Type::Argon2i as u32` -/
def Argon2i : Nat := 1
/-- `Argon2Type::Argon2id as u32` -/
def Argon2id : Nat := 2

/-! ### Blocks and the block vector -/

abbrev Block := Array UInt64

/-- `Block::default()` -/
def zeroBlock : Block := Array.replicate ARGON2_QWORDS_IN_BLOCK 0

/-- `xor_block(dst, src)`; returns the new `dst` -/
def xorBlock (dst src : Block) : Block :=
  Array.ofFn (n := ARGON2_QWORDS_IN_BLOCK) fun i => dst[i.val]! ^^^ src[i.val]!

/-- `copy_block(dst, src)`; returns the new `dst` -/
@[inline] def copyBlock (src : Block) : Block := src

/-- `load_block` -/
def loadBlock (input : Bytes) : Block := Blake2b.wordsOfBytes ARGON2_QWORDS_IN_BLOCK input
/-- `store_block` -/
def storeBlock (b : Block) : Bytes := Blake2b.bytesOfWords b

/-- `memory[i]` -/
@[inline] def getBlock (mem : Array Block) (i : Nat) : Outcome Block :=
  if h : i < mem.size then .ok mem[i] else .panic
/-- `memory[i] = b` -/
@[inline] def setBlock (mem : Array Block) (i : Nat) (b : Block) : Outcome (Array Block) :=
  if h : i < mem.size then .ok (mem.set i b h) else .panic
/-- `pseudo_rands[i]` -/
@[inline] def getWord (v : Array UInt64) (i : Nat) : Outcome UInt64 :=
  if h : i < v.size then .ok v[i] else .panic
/-- `pseudo_rands[i] = w` -/
@[inline] def setWord (v : Array UInt64) (i : Nat) (w : UInt64) : Outcome (Array UInt64) :=
  if h : i < v.size then .ok (v.set i w h) else .panic

/-- the read-only part of `Argon2Instance` -/
structure Instance where
  passes : Nat
  memoryBlocks : Nat
  segmentLength : Nat
  laneLength : Nat
  lanes : Nat
  /-- `type_ as u32` -/
  ty : Nat
  deriving Repr

/-- `Argon2Position` -/
structure Position where
  pass : Nat
  lane : Nat
  slice : Nat
  index : Nat
  deriving Repr

/-! ### `validate!` and `Argon2Context::new` -/

/-- the `validate!` macro of error.rs -/
def validateRange (min max value : Nat) : Outcome Unit :=
  if value < min then .err else if value > max then .err else .ok ()

/-- `if let Some(x) = opt { validate!(min, max, x.len(), …) }` -/
def validateOpt (min max : Nat) : Option Nat → Outcome Unit
  | some n => validateRange min max n
  | none => .ok ()

/-- `Argon2Context::new`: the checks, in order (lengths instead of slices) -/
def validate (outlen pwdlen saltlen : Nat) (secretlen adlen : Option Nat) (tCost mCost parallelism : Nat) :
    Outcome Unit := do
  validateRange ARGON2_MIN_OUTLEN ARGON2_MAX_OUTLEN outlen
  validateRange ARGON2_MIN_PWD_LENGTH ARGON2_MAX_PWD_LENGTH pwdlen
  validateRange ARGON2_MIN_SALT_LENGTH ARGON2_MAX_SALT_LENGTH saltlen
  validateOpt ARGON2_MIN_SECRET ARGON2_MAX_SECRET secretlen
  validateOpt ARGON2_MIN_AD_LENGTH ARGON2_MAX_AD_LENGTH adlen
  validateRange ARGON2_MIN_LANES ARGON2_MAX_LANES parallelism
  validateRange ARGON2_MIN_MEMORY ARGON2_MAX_MEMORY mCost
  validateRange ARGON2_MIN_TIME ARGON2_MAX_TIME tCost

/-! ### The first lines of `argon2_hash`: `memory_blocks`, `segment_length` -/

/-- `(memory_blocks, segment_length)` exactly as `argon2_hash` computes them, *before*
`Argon2Context::new` is called.  `2 * ARGON2_SYNC_POINTS` is a constant (8). -/
def memoryGeometry (mCost parallelism : Nat) : Outcome (Nat × Nat) := do
  let lim ← mulU32 (2 * ARGON2_SYNC_POINTS) parallelism
  let memoryBlocks ← (if mCost < lim then mulU32 (2 * ARGON2_SYNC_POINTS) parallelism else pure mCost)
  let d ← mulU32 parallelism ARGON2_SYNC_POINTS
  let segmentLength ← divU32 memoryBlocks d
  let d' ← mulU32 parallelism ARGON2_SYNC_POINTS
  let memoryBlocks ← mulU32 segmentLength d'
  pure (memoryBlocks, segmentLength)

def memoryBlocks (mCost parallelism : Nat) : Outcome Nat :=
  match memoryGeometry mCost parallelism with
  | .ok (mb, _) => .ok mb | .err => .err | .panic => .panic

def segmentLength (mCost parallelism : Nat) : Outcome Nat :=
  match memoryGeometry mCost parallelism with
  | .ok (_, sl) => .ok sl | .err => .err | .panic => .panic

/-- `Argon2Instance::new` (geometry part; `lane_length = segment_length * ARGON2_SYNC_POINTS`) -/
def Instance.new (memoryBlocks segmentLength ty tCost lanes : Nat) : Outcome Instance := do
  let laneLength ← mulU32 segmentLength ARGON2_SYNC_POINTS
  pure { passes := tCost, memoryBlocks, segmentLength, laneLength, lanes, ty }

/-! ### BLAKE2b stand-ins: `blake2b::hash` and `blake2b::longhash` -/

/-- `blake2b::hash(output, input, None)` with `output.len() = outlen` -/
def blake2bHash (outlen : Nat) (input : Bytes) : Outcome Bytes :=
  if outlen > 64 then .err else if outlen = 0 then .err else .ok (Blake2b.hash outlen [] input)

/-- the `chunks_exact_mut` loop of `longhash`: `n` chunks; returns the bytes written and the
last `in_buffer` -/
def longhashChunks : Nat → Bytes → Bytes × Bytes
  | 0, inBuffer => ([], inBuffer)
  | n + 1, inBuffer =>
    let outBuffer := Blake2b.hash 64 [] inBuffer
    let (rest, last) := longhashChunks n outBuffer
    (outBuffer.take 32 ++ rest, last)

/-- `blake2b::longhash(output, input)` with `output.len() = outlen` -/
def longhash (outlen : Nat) (input : Bytes) : Outcome Bytes :=
  if ¬ outlen > 4 then .panic                      -- assert!(output.len() > 4)
  else if ¬ outlen < 0xFFFFFFFF then .panic        -- assert!(output.len() < u32::MAX as usize)
  else
    let msg := toLE 4 outlen ++ input              -- update(outlen_bytes); update(input)
    if outlen ≤ 64 then .ok (Blake2b.hash outlen [] msg)
    else do
      let first := Blake2b.hash 64 [] msg          -- finalize(&mut output[..64])
      let outlen' ← subUsize outlen 32
      let chunkCount ←
        (if outlen' % 32 = 0 then subUsize (outlen' / 32) 2 else subUsize (outlen' / 32) 1)
      let endOff := chunkCount * 32
      -- output[32..].split_at_mut(end) panics when end > len
      let lastLen ← subUsize outlen' endOff
      let (mid, inBuffer) := longhashChunks chunkCount first
      let last ← blake2bHash lastLen inBuffer
      pure (first.take 32 ++ mid ++ last)

/-! ### `argon2_initial_hash` -/

/-- `x.to_le_bytes()` of a `u32` (`as u32` truncation included) -/
def store32 (x : Nat) : Bytes := toLE 4 x

/-- the byte string fed, `update` by `update`, to the 64-byte BLAKE2b state -/
def initialHashInput (ctxLanes outlen mCost tCost ty : Nat) (pwd salt : Bytes) (secret ad : Option Bytes) : Bytes :=
  store32 ctxLanes ++ store32 outlen ++ store32 mCost ++ store32 tCost
  ++ store32 ARGON2_VERSION_NUMBER ++ store32 ty
  ++ store32 pwd.length ++ pwd
  ++ store32 salt.length ++ salt
  ++ (match secret with
      | some s => store32 s.length ++ s
      | none => store32 0)
  ++ (match ad with
      | some a => store32 a.length ++ a
      | none => store32 0)

/-- `argon2_initial_hash`: the 72-byte buffer, `H0` in the first 64 bytes, zeros after -/
def initialHash (ctxLanes outlen mCost tCost ty : Nat) (pwd salt : Bytes) (secret ad : Option Bytes) : Bytes :=
  let blockhash := zeros ARGON2_PREHASH_SEED_LENGTH
  let digest := Blake2b.hash ARGON2_PREHASH_DIGEST_LENGTH []
    (initialHashInput ctxLanes outlen mCost tCost ty pwd salt secret ad)
  -- finalize(&mut blockhash[..64])
  (digest ++ blockhash.drop ARGON2_PREHASH_DIGEST_LENGTH).take ARGON2_PREHASH_SEED_LENGTH

/-! ### `argon2_fill_first_blocks` -/

/-- `buf[off..off+v.len()].copy_from_slice(v)` -/
def copyInto (buf : Bytes) (off : Nat) (v : Bytes) : Bytes :=
  buf.take off ++ v ++ buf.drop (off + v.length)

/-- loop body of `argon2_fill_first_blocks`; state `(blockhash, memory)` -/
def fillFirstBlocksStep (inst : Instance) (l : Nat) (st : Bytes × Array Block) :
    Outcome (Bytes × Array Block) := do
  let (blockhash, mem) := st
  let blockhash := copyInto blockhash ARGON2_PREHASH_DIGEST_LENGTH [0, 0, 0, 0]
  let blockhash := copyInto blockhash (ARGON2_PREHASH_DIGEST_LENGTH + 4) (store32 l)
  let blockhashBytes ← longhash ARGON2_BLOCK_SIZE blockhash
  let i0 ← mulU32 l inst.laneLength
  let mem ← setBlock mem i0 (loadBlock blockhashBytes)
  let blockhash := copyInto blockhash ARGON2_PREHASH_DIGEST_LENGTH [1, 0, 0, 0]
  let blockhashBytes ← longhash ARGON2_BLOCK_SIZE blockhash
  let i1 ← mulU32 l inst.laneLength
  let i1 ← addU32 i1 1
  let mem ← setBlock mem i1 (loadBlock blockhashBytes)
  pure (blockhash, mem)

def fillFirstBlocks (blockhash : Bytes) (inst : Instance) (mem : Array Block) : Outcome (Array Block) := do
  let st ← forLoop 0 inst.lanes (fillFirstBlocksStep inst) (blockhash, mem)
  pure st.2

/-! ### `fblamka`, `blake2_round_nomsg`, `fill_block` -/

/-- `fblamka`: `(x & m) * (y & m)` is a plain `u64` product of two values `< 2^32`, which cannot
overflow (`fblamka_no_overflow`); everything else is `wrapping_*`. -/
@[inline] def fblamka (x y : UInt64) : UInt64 :=
  let m : UInt64 := 0xFFFFFFFF
  let xy := (x &&& m) * (y &&& m)
  x + y + 2 * xy

@[inline] def rotr64 (x b : UInt64) : UInt64 := (x >>> b) ||| (x <<< (64 - b))

/-- the closure `g` of `blake2_round_nomsg`: eight sequential read-modify-writes -/
@[inline] def g (v : Block) (a b c d : Nat) : Block :=
  let v := v.set! a (fblamka v[a]! v[b]!)
  let v := v.set! d (rotr64 (v[d]! ^^^ v[a]!) 32)
  let v := v.set! c (fblamka v[c]! v[d]!)
  let v := v.set! b (rotr64 (v[b]! ^^^ v[c]!) 24)
  let v := v.set! a (fblamka v[a]! v[b]!)
  let v := v.set! d (rotr64 (v[d]! ^^^ v[a]!) 16)
  let v := v.set! c (fblamka v[c]! v[d]!)
  let v := v.set! b (rotr64 (v[b]! ^^^ v[c]!) 63)
  v

def blake2RoundNomsg (block : Block)
    (v0 v1 v2 v3 v4 v5 v6 v7 v8 v9 v10 v11 v12 v13 v14 v15 : Nat) : Block :=
  let block := g block v0 v4 v8 v12
  let block := g block v1 v5 v9 v13
  let block := g block v2 v6 v10 v14
  let block := g block v3 v7 v11 v15
  let block := g block v0 v5 v10 v15
  let block := g block v1 v6 v11 v12
  let block := g block v2 v7 v8 v13
  let block := g block v3 v4 v9 v14
  block

/-- `fill_block(prev_block, ref_block, next_block, with_xor)`; returns the new `next_block` -/
def fillBlock (prevBlock refBlock nextBlock : Block) (withXor : Bool) : Block :=
  let blockR := copyBlock refBlock
  let blockR := xorBlock blockR prevBlock
  let blockTmp := copyBlock blockR
  let blockTmp := if withXor then xorBlock blockTmp nextBlock else blockTmp
  let blockR := Nat.fold 8 (fun i _ blockR =>
    blake2RoundNomsg blockR (16 * i) (16 * i + 1) (16 * i + 2) (16 * i + 3) (16 * i + 4)
      (16 * i + 5) (16 * i + 6) (16 * i + 7) (16 * i + 8) (16 * i + 9) (16 * i + 10)
      (16 * i + 11) (16 * i + 12) (16 * i + 13) (16 * i + 14) (16 * i + 15)) blockR
  let blockR := Nat.fold 8 (fun i _ blockR =>
    blake2RoundNomsg blockR (2 * i) (2 * i + 1) (2 * i + 16) (2 * i + 17) (2 * i + 32)
      (2 * i + 33) (2 * i + 48) (2 * i + 49) (2 * i + 64) (2 * i + 65) (2 * i + 80)
      (2 * i + 81) (2 * i + 96) (2 * i + 97) (2 * i + 112) (2 * i + 113)) blockR
  let nextBlock := copyBlock blockTmp
  xorBlock nextBlock blockR

/-! ### `generate_addresses` -/

/-- loop body of `generate_addresses`; state `(input_block, address_block, pseudo_rands)`
(`tmp_block` is dead after each refill) -/
def generateAddressesStep (i : Nat) (st : Block × Block × Array UInt64) :
    Outcome (Block × Block × Array UInt64) := do
  let (inputBlock, addressBlock, pseudoRands) := st
  let (inputBlock, addressBlock) ←
    (if i % ARGON2_ADDRESSES_IN_BLOCK = 0 then do
      -- input_block.v[6] += 1  (checked u64 addition)
      let c ← addU64 (inputBlock[6]!).toNat 1
      let inputBlock := inputBlock.set! 6 (UInt64.ofNat c)
      let tmpBlock := zeroBlock
      let addressBlock := zeroBlock
      let tmpBlock := fillBlock zeroBlock inputBlock tmpBlock true
      let addressBlock := fillBlock zeroBlock tmpBlock addressBlock true
      pure (inputBlock, addressBlock)
    else pure (inputBlock, addressBlock))
  let pseudoRands ← setWord pseudoRands i addressBlock[i % ARGON2_ADDRESSES_IN_BLOCK]!
  pure (inputBlock, addressBlock, pseudoRands)

/-- `input_block` before the loop of `generate_addresses` -/
def inputBlock0 (inst : Instance) (pos : Position) : Block :=
  let inputBlock := zeroBlock
  let inputBlock := inputBlock.set! 0 (UInt64.ofNat pos.pass)
  let inputBlock := inputBlock.set! 1 (UInt64.ofNat pos.lane)
  let inputBlock := inputBlock.set! 2 (UInt64.ofNat pos.slice)
  let inputBlock := inputBlock.set! 3 (UInt64.ofNat inst.memoryBlocks)
  let inputBlock := inputBlock.set! 4 (UInt64.ofNat inst.passes)
  let inputBlock := inputBlock.set! 5 (UInt64.ofNat inst.ty)
  inputBlock

def generateAddresses (inst : Instance) (pos : Position) (pseudoRands : Array UInt64) :
    Outcome (Array UInt64) := do
  let st ← forLoop 0 inst.segmentLength generateAddressesStep
    (inputBlock0 inst pos, zeroBlock, pseudoRands)
  pure st.2.2

/-! ### `index_alpha` -/

/-- the `reference_area_size` expression of `index_alpha` -/
def referenceAreaSize (inst : Instance) (pos : Position) (sameLane : Bool) : Outcome Nat :=
  if pos.pass = 0 then
    if pos.slice = 0 then
      subU32 pos.index 1
    else if sameLane then do
      let a ← mulU32 pos.slice inst.segmentLength
      let b ← addU32 a pos.index
      subU32 b 1
    else if pos.index = 0 then do
      let a ← mulU32 pos.slice inst.segmentLength
      subU32 a 1
    else
      mulU32 pos.slice inst.segmentLength
  else if sameLane then do
    let a ← subU32 inst.laneLength inst.segmentLength
    let b ← addU32 a pos.index
    subU32 b 1
  else if pos.index = 0 then do
    let a ← subU32 inst.laneLength inst.segmentLength
    subU32 a 1
  else
    subU32 inst.laneLength inst.segmentLength

/-- the `start_position` expression of `index_alpha` -/
def startPosition (inst : Instance) (pos : Position) : Outcome Nat :=
  if pos.pass ≠ 0 then
    if pos.slice = ARGON2_SYNC_POINTS - 1 then pure 0
    else do
      let s ← addU32 pos.slice 1
      mulU32 s inst.segmentLength
  else pure 0

/-- `index_alpha(instance, position, pseudo_rand, same_lane)`; all values `u32`, the two
products are `u64` `wrapping_mul` followed by `>> 32` and `as u32`. -/
def indexAlpha (inst : Instance) (pos : Position) (pseudoRand : Nat) (sameLane : Bool) : Outcome Nat := do
  let referenceAreaSize ← referenceAreaSize inst pos sameLane
  let relativePosition := pseudoRand
  let relativePosition := (relativePosition * relativePosition) % U64 / 2 ^ 32 % U32
  let a ← subU32 referenceAreaSize 1
  let relativePosition ← subU32 a ((referenceAreaSize * relativePosition) % U64 / 2 ^ 32 % U32)
  let startPosition ← startPosition inst pos
  let s ← addU32 startPosition relativePosition
  remU32 s inst.laneLength

/-! ### `fill_segment` -/

/-- `data_independent_addressing` of `fill_segment` -/
def dataIndependentAddressing (inst : Instance) (pos : Position) : Bool :=
  !(inst.ty == Argon2id && (pos.pass != 0 || pos.slice >= ARGON2_SYNC_POINTS / 2))

/-- `starting_index` of `fill_segment` -/
def startingIndex (pos : Position) : Nat :=
  if pos.pass = 0 ∧ pos.slice = 0 then 2 else 0

/-- initial `(curr_offset, prev_offset)` of `fill_segment` -/
def initialOffsets (inst : Instance) (pos : Position) : Outcome (Nat × Nat) := do
  let a ← mulU32 pos.lane inst.laneLength
  let b ← mulU32 pos.slice inst.segmentLength
  let c ← addU32 a b
  let currOffset ← addU32 c (startingIndex pos)
  let r ← remU32 currOffset inst.laneLength
  let prevOffset ←
    (if r = 0 then do
      let s ← addU32 currOffset inst.laneLength
      subU32 s 1
    else subU32 currOffset 1)
  pure (currOffset, prevOffset)

/-- the `prev_offset` fix-up at the top of the loop body -/
def fixPrevOffset (inst : Instance) (currOffset prevOffset : Nat) : Outcome Nat := do
  let r ← remU32 currOffset inst.laneLength
  if r = 1 then subU32 currOffset 1 else pure prevOffset

/-- one iteration of the loop of `fill_segment`; state `(curr_offset, prev_offset, memory)` -/
def fillSegmentStep (inst : Instance) (pos : Position) (dia : Bool) (pseudoRands : Array UInt64)
    (i : Nat) (st : Nat × Nat × Array Block) : Outcome (Nat × Nat × Array Block) := do
  let (currOffset, prevOffset, mem) := st
  let prevOffset ← fixPrevOffset inst currOffset prevOffset
  let pseudoRand ←
    (if dia then getWord pseudoRands i
    else do
      let b ← getBlock mem prevOffset
      pure b[0]!)
  let refLane ←
    (if pos.pass = 0 ∧ pos.slice = 0 then pure pos.lane
    else remU64 (pseudoRand.toNat / 2 ^ 32) inst.lanes)
  let pos := { pos with index := i }
  let refIndex ← indexAlpha inst pos (pseudoRand.toNat % 2 ^ 32) (refLane == pos.lane)
  let prevBlock ← getBlock mem prevOffset
  let r ← mulU64 inst.laneLength refLane
  let r ← addU64 r refIndex
  let refBlock ← getBlock mem r
  let nextBlock ← getBlock mem currOffset
  let nextBlock := fillBlock prevBlock refBlock nextBlock (pos.pass != 0)
  let mem ← setBlock mem currOffset nextBlock
  let currOffset ← addU32 currOffset 1
  let prevOffset ← addU32 prevOffset 1
  pure (currOffset, prevOffset, mem)

/-- `fill_segment(instance, position)`; state `(memory, pseudo_rands)` -/
def fillSegment (inst : Instance) (pos : Position) (st : Array Block × Array UInt64) :
    Outcome (Array Block × Array UInt64) := do
  let (mem, pseudoRands) := st
  let dia := dataIndependentAddressing inst pos
  let pseudoRands ← (if dia then generateAddresses inst pos pseudoRands else pure pseudoRands)
  let offs ← initialOffsets inst pos
  let st ← forLoop (startingIndex pos) inst.segmentLength
    (fillSegmentStep inst pos dia pseudoRands) (offs.1, offs.2, mem)
  pure (st.2.2, pseudoRands)

/-! ### `argon2_fill_memory_blocks`, `argon2_finalize`, `argon2_hash` -/

/-- slice loop outside, lane loop inside -/
def fillMemoryBlocks (inst : Instance) (pass : Nat) (st : Array Block × Array UInt64) :
    Outcome (Array Block × Array UInt64) :=
  forLoop 0 ARGON2_SYNC_POINTS (fun s st =>
    forLoop 0 inst.lanes (fun l st =>
      fillSegment inst { pass := pass, lane := l, slice := s, index := 0 } st) st) st

/-- loop body of `argon2_finalize` (XOR of the last blocks of lanes `1..`) -/
def finalizeStep (inst : Instance) (mem : Array Block) (l : Nat) (blockhash : Block) : Outcome Block := do
  let a ← mulU32 l inst.laneLength
  let b ← subU32 inst.laneLength 1
  let lastBlockInLane ← addU32 a b
  let blk ← getBlock mem lastBlockInLane
  pure (xorBlock blockhash blk)

def finalize (outlen : Nat) (inst : Instance) (mem : Array Block) : Outcome Bytes := do
  -- instance.lane_length.wrapping_sub(1)
  let blockhash ← getBlock mem ((inst.laneLength + U32 - 1) % U32)
  let blockhash ← forLoop 1 inst.lanes (finalizeStep inst mem) (copyBlock blockhash)
  longhash outlen (storeBlock blockhash)

/-- `argon2_hash(t_cost, m_cost, parallelism, password, salt, secret, ad, output, type_)`
with `output.len() = outlen`; `ty = type_ as u32 ∈ {1, 2}`. -/
def argon2Hash (ty : Nat) (t m p : Nat) (pwd salt : Bytes) (secret ad : Option Bytes) (outlen : Nat) :
    Outcome Bytes := do
  let geom ← memoryGeometry m p
  let (memoryBlocks, segmentLength) := geom
  validate outlen pwd.length salt.length (secret.map List.length) (ad.map List.length) t m p
  let inst ← Instance.new memoryBlocks segmentLength ty t p
  -- Argon2Instance::initialize
  let pseudoRands : Array UInt64 := Array.replicate inst.segmentLength 0
  let mem : Array Block := Array.replicate inst.memoryBlocks zeroBlock
  let blockhash := initialHash p outlen m t ty pwd salt secret ad
  let mem ← fillFirstBlocks blockhash inst mem
  let st ← forLoop 0 inst.passes (fillMemoryBlocks inst) (mem, pseudoRands)
  finalize outlen inst st.1

/-! ### `crypto_pwhash` (classic/crypto_pwhash.rs) -/

def CRYPTO_PWHASH_OPSLIMIT_MIN : Nat := 1
def CRYPTO_PWHASH_OPSLIMIT_MAX : Nat := 4294967295
def CRYPTO_PWHASH_MEMLIMIT_MIN : Nat := 8192
/-- `max(min(SIZE_MAX, 4398046510080), …)` on a 64-bit target -/
def CRYPTO_PWHASH_MEMLIMIT_MAX : Nat := 4398046510080
def CRYPTO_PWHASH_ALG_ARGON2I13 : Nat := 1
def CRYPTO_PWHASH_ALG_ARGON2ID13 : Nat := 2

/-- `convert_costs`: `(opslimit as u32, (memlimit / 1024) as u32)` -/
def convertCosts (opslimit memlimit : Nat) : Nat × Nat :=
  (opslimit % U32, memlimit / 1024 % U32)

/-- `crypto_pwhash(output, password, salt, opslimit, memlimit, algorithm)`.  `alg` is the `u32`
the `PasswordHashAlgorithm` is built from (`From<u32>` panics on anything but 1 and 2; the
conversion happens in the caller, i.e. before every check). -/
def cryptoPwhash (outlen : Nat) (pwd salt : Bytes) (opslimit memlimit : Nat) (alg : Nat) : Outcome Bytes := do
  let ty ← (if alg = CRYPTO_PWHASH_ALG_ARGON2I13 then pure Argon2i
            else if alg = CRYPTO_PWHASH_ALG_ARGON2ID13 then pure Argon2id
            else Outcome.panic)
  validateRange CRYPTO_PWHASH_OPSLIMIT_MIN CRYPTO_PWHASH_OPSLIMIT_MAX opslimit
  validateRange CRYPTO_PWHASH_MEMLIMIT_MIN CRYPTO_PWHASH_MEMLIMIT_MAX memlimit
  let (tCost, mCost) := convertCosts opslimit memlimit
  argon2Hash ty tCost mCost 1 pwd salt none none outlen

end DryocVerif.Model.Argon2
