import DryocVerif.Bytes
/-
Model of /repo/src/poly1305/poly1305_soft.rs, statement by statement.

u64 / u128 values are natural numbers.  Where the Rust uses `wrapping_*`, `as
u64`, or a shift that drops bits, the model reduces `% 2^64` explicitly; where
the Rust uses plain `+`/`*` (which panic on overflow in the dev profile) the
model computes in ℕ and `Properties/C07.lean` proves the operands stay in range.
`&mut self` becomes a returned state.
-/
namespace DryocVerif.Model.Poly1305
open DryocVerif

def U64 : Nat := 2^64
def M44 : Nat := 0xfffffffffff
def M42 : Nat := 0x3ffffffffff

structure Limbs where
  l0 : Nat
  l1 : Nat
  l2 : Nat
  deriving Repr, DecidableEq

structure State where
  r : Limbs
  h : Limbs
  pad0 : Nat
  pad1 : Nat
  buffer : Bytes
  deriving Repr, DecidableEq

/-- `Poly1305::new` -/
def new (key : Bytes) : State :=
  let t0 := le (key.take 8)
  let t1 := le ((key.drop 8).take 8)
  { r := ⟨t0 &&& 0xffc0fffffff,
          ((t0 >>> 44) ||| ((t1 <<< 20) % U64)) &&& 0xfffffc0ffff,
          (t1 >>> 24) &&& 0x00ffffffc0f⟩
    h := ⟨0, 0, 0⟩
    pad0 := le ((key.drop 16).take 8)
    pad1 := le ((key.drop 24).take 8)
    buffer := [] }

/-- body of the `for m in input.chunks(16)` loop in `blocks` -/
def blockStep (r : Limbs) (hibit : Nat) (h : Limbs) (m : Bytes) : Limbs :=
  let s1 := r.l1 * 20
  let s2 := r.l2 * 20
  let t0 := le (m.take 8)
  let t1 := le ((m.drop 8).take 8)
  let h0 := (h.l0 + (t0 &&& M44)) % U64
  let h1 := (h.l1 + (((t0 >>> 44) ||| ((t1 <<< 20) % U64)) &&& M44)) % U64
  let h2 := (h.l2 + (((t1 >>> 24) &&& M42) ||| hibit)) % U64
  let d0 := h0 * r.l0 + h1 * s2 + h2 * s1
  let d1 := h0 * r.l1 + h1 * r.l0 + h2 * s2
  let d2 := h0 * r.l2 + h1 * r.l1 + h2 * r.l0
  let c := (d0 >>> 44) % U64
  let h0 := (d0 % U64) &&& M44
  let d1 := d1 + c
  let c := (d1 >>> 44) % U64
  let h1 := (d1 % U64) &&& M44
  let d2 := d2 + c
  let c := (d2 >>> 42) % U64
  let h2 := (d2 % U64) &&& M42
  let h0 := h0 + c * 5
  let c := h0 >>> 44
  let h0 := h0 &&& M44
  let h1 := h1 + c
  ⟨h0, h1, h2⟩

def hibitOf (isPartial : Bool) : Nat := if isPartial then 0 else 2^40

/-- `blocks(input, partial)` -/
def blocks (st : State) (input : Bytes) (isPartial : Bool) : State :=
  { st with h := (chunks 16 input).foldl (blockStep st.r (hibitOf isPartial)) st.h }

/-- `update` -/
def update (st : State) (input : Bytes) : State :=
  if !st.buffer.isEmpty then
    let e := min (16 - st.buffer.length) input.length
    let st := { st with buffer := st.buffer ++ input.take e }
    if st.buffer.length < 16 then st
    else
      let st := blocks st st.buffer false
      let st := { st with buffer := [] }
      let m := input.drop e
      let fe := m.length - m.length % 16
      let st := blocks st (m.take fe) false
      if fe < m.length then { st with buffer := st.buffer ++ m.drop fe } else st
  else
    let m := input
    let fe := m.length - m.length % 16
    let st := blocks st (m.take fe) false
    if fe < m.length then { st with buffer := st.buffer ++ m.drop fe } else st

/-- the arithmetic tail of `finalize` (after the last partial block) -/
def finish (h : Limbs) (pad0 pad1 : Nat) : Bytes :=
  let h0 := h.l0
  let h1 := h.l1
  let h2 := h.l2
  let c := h1 >>> 44
  let h1 := h1 &&& M44
  let h2 := h2 + c
  let c := h2 >>> 42
  let h2 := h2 &&& M42
  let h0 := h0 + c * 5
  let c := h0 >>> 44
  let h0 := h0 &&& M44
  let h1 := h1 + c
  let c := h1 >>> 44
  let h1 := h1 &&& M44
  let h2 := h2 + c
  let c := h2 >>> 42
  let h2 := h2 &&& M42
  let h0 := h0 + c * 5
  let c := h0 >>> 44
  let h0 := h0 &&& M44
  let h1 := h1 + c
  -- compute h + -p
  let g0 := (h0 + 5) % U64
  let c := g0 >>> 44
  let g0 := g0 &&& M44
  let g1 := (h1 + c) % U64
  let c := g1 >>> 44
  let g1 := g1 &&& M44
  let g2 := ((h2 + c) % U64 + U64 - 2^42) % U64
  -- select
  let mask := ((g2 >>> 63) + U64 - 1) % U64
  let g0 := g0 &&& mask
  let g1 := g1 &&& mask
  let g2 := g2 &&& mask
  let mask := U64 - 1 - mask
  let h0 := (h0 &&& mask) ||| g0
  let h1 := (h1 &&& mask) ||| g1
  let h2 := (h2 &&& mask) ||| g2
  -- h = h + pad
  let t0 := pad0
  let t1 := pad1
  let h0 := (h0 + (t0 &&& M44)) % U64
  let c := h0 >>> 44
  let h0 := h0 &&& M44
  let h1 := (h1 + ((((t0 >>> 44) ||| ((t1 <<< 20) % U64)) &&& M44) + c) % U64) % U64
  let c := h1 >>> 44
  let h1 := h1 &&& M44
  let h2 := (h2 + (((t1 >>> 24) &&& M42) + c) % U64) % U64
  let h2 := h2 &&& M42
  -- mac = h % 2^128
  let h0 := h0 ||| ((h1 <<< 44) % U64)
  let h1 := (h1 >>> 20) ||| ((h2 <<< 24) % U64)
  toLE 8 h0 ++ toLE 8 h1

/-- `finalize` -/
def finalize (st : State) : Bytes :=
  let st :=
    if !st.buffer.isEmpty then
      let buf := st.buffer ++ [1]
      let buf := if buf.length % 16 != 0 then buf ++ zeros (16 - buf.length % 16) else buf
      blocks { st with buffer := buf } buf true
    else st
  finish st.h st.pad0 st.pad1

/-- one-shot `crypto_onetimeauth` -/
def mac (key msg : Bytes) : Bytes := finalize (update (new key) msg)

/-- incremental: `init; update c₁; …; update cₙ; final` -/
def macChunks (key : Bytes) (cs : List Bytes) : Bytes := finalize (cs.foldl update (new key))

end DryocVerif.Model.Poly1305
