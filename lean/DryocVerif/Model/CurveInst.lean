import DryocVerif.Bytes
import DryocVerif.Spec.X25519
import DryocVerif.Spec.Sha512
import DryocVerif.Spec.Blake2b
import DryocVerif.Spec.Salsa20
import DryocVerif.Model.Curve
/-
The instantiation of `Model.Curve.Prims` with the executable specifications, i.e. the
parameters under which the model is run against dryoc by the driver
(`Driver/Curve.lean` uses exactly `specPrims`).  Kept out of the driver so that theorems
can mention it.  Core only (no Mathlib): it is linked into the native driver.
-/
namespace DryocVerif.Model.Curve
open DryocVerif

/-- Montgomery ladder on an *as-given* 32-byte scalar: the RFC 7748 ladder applied to
`le k`, without any clamping or reduction of the scalar -/
def rawLadder (k u : Bytes) : Bytes :=
  Spec.X25519.encodeUCoordinate (Spec.X25519.ladder (le k) (Spec.X25519.decodeUCoordinate u))

/-- the primitives as executable specifications -/
def specPrims : Prims where
  ladder := rawLadder
  base := Spec.X25519.basePoint
  hsalsa := fun k i => Spec.Salsa20.hsalsa20 k i
  sha512 := Spec.Sha512.sha512
  blake2b := fun n k s p m => Spec.Blake2b.hashSP n k s p m

end DryocVerif.Model.Curve
