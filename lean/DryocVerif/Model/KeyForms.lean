import DryocVerif.Bytes
import DryocVerif.Model.Curve
import DryocVerif.Model.Sign
import DryocVerif.Model.Blake2b
/-
Models of the remaining key-pair forms and of the concrete code path of the KDF
(added for C12 / C13; nothing here changes an existing model definition):

* `crypto_kdf_derive_from_key` with dryoc's own BLAKE2b (`State::init(..)?` / `finalize`)
  instead of an abstract hash                                   (classic/crypto_kdf.rs);
* `KeyPair::from_secret_key`, `PwHash::derive_keypair`           (keypair.rs, pwhash.rs);
* `crypto_box_seed_keypair_inplace`, `crypto_sign_seed_keypair_inplace` with the prior contents
  of the caller's buffers as explicit arguments  (classic/crypto_box_impl.rs, crypto_sign_ed25519.rs);
* `SigningKeyPair::from_secret_key`                               (sign.rs).
Core only.
-/
namespace DryocVerif.Model.KeyForms
open DryocVerif DryocVerif.Model.Curve

/-- `dst.copy_from_slice(src)`: panics unless the lengths agree, otherwise every byte of `dst`
is overwritten -/
def copyFromSlice (dst src : Bytes) : Outcome Bytes :=
  if dst.length = src.length then .ok src else .panic

/-- `dst[a..b].copy_from_slice(src)`: panics if the range is out of bounds or of the wrong length -/
def copyIntoRange (dst : Bytes) (a b : Nat) (src : Bytes) : Outcome Bytes :=
  if a ≤ b ∧ b ≤ dst.length ∧ b - a = src.length then .ok (dst.take a ++ src ++ dst.drop b)
  else .panic

/-! ### `crypto_kdf_derive_from_key`, concrete code path -/

/-- `crypto_kdf_derive_from_key(subkey[len], id, ctx, key)` with dryoc's BLAKE2b:
the length check, the two 16-byte parameter buffers, `State::init(subkey.len() as u8,
Some(main_key), Some(&salt), Some(&ctx_padded))?` and `state.finalize(subkey)`. -/
def kdfDeriveImpl (len id : Nat) (ctx key : Bytes) : Outcome Bytes :=
  if len < 16 ∨ 64 < len then .err
  else
    -- let mut ctx_padded = [0u8; 16]; ctx_padded[..8].copy_from_slice(context);
    match copyIntoRange (zeros 16) 0 8 ctx with
    | .err => .err
    | .panic => .panic
    | .ok ctxPadded =>
      -- let mut salt = [0u8; 16]; salt[..8].copy_from_slice(&subkey_id.to_le_bytes());
      match copyIntoRange (zeros 16) 0 8 (toLE 8 id) with
      | .err => .err
      | .panic => .panic
      | .ok salt =>
        match Model.Blake2b.init (len % 256) (some key) (some salt) (some ctxPadded) with
        | .err => .err                                   -- the `?`
        | .panic => .panic
        | .ok state => Model.Blake2b.finalize state len

/-! ### X25519 key pairs -/

/-- `KeyPair::from_secret_key(secret_key)`: `crypto_scalarmult_base` of the given secret key; the
secret key is stored as given (not clamped), the clamping happens inside the multiplication.
Returns (pk, sk). -/
def fromSecretKey (P : Prims) (sk : Bytes) : Bytes × Bytes := (scalarmultBase P sk, sk)

/-- `PwHash::derive_keypair(password, salt, config)`: `crypto_pwhash` into a fresh 32-byte
secret key (`pwhash 32` = the password hash for output length 32, with its `Result`), then
`KeyPair::from_secret_key`. -/
def deriveKeypair (P : Prims) (pwhash : Nat → Outcome Bytes) : Outcome (Bytes × Bytes) :=
  match pwhash 32 with
  | .ok sk => .ok (fromSecretKey P sk)
  | .err => .err
  | .panic => .panic

/-- `crypto_box_seed_keypair_inplace(public_key, secret_key, seed)`; `pk0`, `sk0` are the
contents of the caller's two 32-byte buffers before the call.  Returns the buffers after it. -/
def boxSeedKeypairInplace (P : Prims) (pk0 sk0 seed : Bytes) : Outcome (Bytes × Bytes) :=
  let hash := P.sha512 seed
  -- secret_key.copy_from_slice(&hash[0..32]);
  match copyFromSlice sk0 (hash.take 32) with
  | .err => .err
  | .panic => .panic
  | .ok sk =>
    -- crypto_scalarmult_curve25519_base(public_key, secret_key): q.copy_from_slice(pk.as_bytes())
    match copyFromSlice pk0 (scalarmultBase P sk) with
    | .err => .err
    | .panic => .panic
    | .ok pk => .ok (pk, sk)

/-! ### Ed25519 key pairs -/

/-- `crypto_sign_ed25519_seed_keypair_inplace(public_key, secret_key, seed)`; `pk0` (32 bytes),
`sk0` (64 bytes) are the prior contents of the caller's buffers -/
def signSeedKeypairInplace (H : Bytes → Bytes) (pk0 sk0 seed : Bytes) : Outcome (Bytes × Bytes) :=
  let pk := (Model.Sign.seedKeypair H seed).1
  -- secret_key[..32].copy_from_slice(seed);
  match copyIntoRange sk0 0 32 seed with
  | .err => .err
  | .panic => .panic
  | .ok sk1 =>
    -- secret_key[32..].copy_from_slice(pk.as_bytes());
    match copyIntoRange sk1 32 sk1.length pk with
    | .err => .err
    | .panic => .panic
    | .ok sk2 =>
      -- public_key.copy_from_slice(pk.as_bytes());
      match copyFromSlice pk0 pk with
      | .err => .err
      | .panic => .panic
      | .ok pk1 => .ok (pk1, sk2)

/-- `SigningKeyPair::from_secret_key(secret_key)`: the first 32 bytes are taken as the seed
(`secret_key.as_slice()[..32]` — panics on fewer than 32 bytes, impossible for the 64-byte type)
and the pair is re-derived with `from_seed`. -/
def signFromSecretKey (H : Bytes → Bytes) (sk : Bytes) : Outcome (Bytes × Bytes) :=
  if sk.length < 32 then .panic else .ok (Model.Sign.seedKeypair H (sk.take 32))

end DryocVerif.Model.KeyForms
