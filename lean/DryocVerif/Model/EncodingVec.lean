import DryocVerif.Model.EncodingStruct
import DryocVerif.Model.ArrayView
import DryocVerif.Model.KeyForms
/-
The container structs of dryoc are GENERIC in their field types (`DryocSecretBox<Mac: ByteArray<16>, Data: Bytes>`,
`DryocBox<EphemeralPublicKey: ByteArray<32>, Mac: ByteArray<16>, Data: Bytes>`, `SignedMessage<Signature:
ByteArray<64>, Message: Bytes>`, `KeyPair<PublicKey, SecretKey>`, `SigningKeyPair<…>`, `Kdf<Key, Context>`,
`Session<SessionKey>`), and `Vec<u8>` implements `ByteArray<N>` for EVERY `N` (/repo/src/types.rs:151).
`Model/EncodingStruct.lean` hard-wires the fixed-length visitor `deFixed N` of /repo/src/bytes_serde.rs for the
`ByteArray<N>` fields.  That visitor exists for exactly two fixed-length containers: `StackByteArray<N>` and
`Locked<HeapByteArray<N>>` (plus `deHeap` for `HeapBytes` and `LockedBytes`); unlocked `HeapByteArray<N>` and
`LockedRO<HeapBytes>` have `Serialize` ONLY, so a struct instantiated with them has no `Deserialize` at all.
For `Vec<u8>` in such a position the derived `Deserialize` uses SERDE's OWN `impl Deserialize for Vec<T>`
(serde_core/src/de/impls.rs: `deserializer.deserialize_seq(VecVisitor)`, whose `visit_seq` pushes every element),
which knows nothing about `N`; for a plain `[u8; N]` (the classic `PublicKey`, `Nonce`, `Mac`, … aliases, which are
`ByteArray<N>` too) it uses serde's tuple impl (`Model.Encoding.deArray`: exactly `N` elements, `N ≤ 32` only).
This file models those cells and makes the struct codecs parametric in the container kind of each field.

It also holds the CODE-SHAPED serialisers (`to_bytes`, `into_vec`) with the panicking branches that the total
`Model.SecretBox.toBytes`, `Model.Sign.toBytes`, `Model.SecretBox.intoVec` leave out.

Core only (no Mathlib).
-/
namespace DryocVerif.Model.EncodingVec
open DryocVerif DryocVerif.Model.Encoding DryocVerif.Model.SecretBox DryocVerif.Model.ArrayView
open DryocVerif.Model.KeyForms (copyIntoRange)

/-- which kind of container instantiates a field's type parameter:
`typed` = one of the FOUR containers for which bytes_serde.rs implements `Deserialize`: `StackByteArray<N>`,
`Locked<HeapByteArray<N>>` (fixed-length position, visitor `deFixed N`), `HeapBytes`, `LockedBytes` (variable-length
position, visitor `deHeap`);
`vec` = `Vec<u8>` and serde's `Vec<T>` impls are used;
`array` = plain `[u8; N]` and serde's tuple impls are used (`deArray`) — N ≤ 32 only (serde); a struct with a
`[u8; 64]` field has no derived Deserialize.
NOT a kind: unlocked `HeapByteArray<N>`, `LockedRO<HeapBytes>` (`Serialize` only — nothing to model on the decoding
side; on the encoding side they behave like `typed`). -/
inductive Kind where
  | typed
  | vec
  | array
  deriving Repr, DecidableEq

/-- serde's `impl<'de, T> Deserialize<'de> for Vec<T>` at `T = u8`, for a field DECLARED as `ByteArray<n>`:
`deserialize_seq` + a `visit_seq` that pushes every element — NO length check, `n` is not even an input.
`selfDescribing = true` is a format like serde_json, whose `deserialize_seq` answers "invalid type" for anything
but an array (so a byte/str token is an error); `false` is a format like bincode, where a byte string and a
sequence of `u8` have the same wire form (length prefix + bytes) and `deserialize_seq` reads either. -/
def deVecFixed (selfDescribing : Bool) (_n : Nat) : Enc → Outcome Bytes
  | .seq es => .ok es
  | .bytes bs => if selfDescribing then .err else .ok bs

/-- serde's `impl Serialize for Vec<T>`: `serializer.collect_seq(self)` — an element sequence -/
def serVec (bs : Bytes) : Enc := .seq bs

/-- `Deserialize` of a `ByteArray<n>` field, by container kind -/
def deField (k : Kind) (sd : Bool) (n : Nat) (e : Enc) : Outcome Bytes :=
  match k with
  | .typed => deFixed n e
  | .vec => deVecFixed sd n e
  | .array => deArray n e

/-- `Deserialize` of a `Bytes` (variable-length) field, by container kind: `HeapBytes` / `LockedBytes` resp. `Vec<u8>`.
`[u8; M]` is a `Bytes` too; its `M` belongs to the instantiation and is not an input here: the model takes the `M`
that matches the offered payload, i.e. it accepts exactly the element sequences (the decision "is it `M` long" is
`deArray`'s, see `deField`). -/
def deData (k : Kind) (sd : Bool) (e : Enc) : Outcome Bytes :=
  match k with
  | .typed => deHeap e
  | .vec => deVecFixed sd 0 e
  | .array => deArray e.payload.length e

/-- `Serialize` of a field, by container kind — the token given to the serializer (bincode shape; the
format-aware version is `serField'`) -/
def serField (k : Kind) (bs : Bytes) : Enc :=
  match k with
  | .typed => ser bs
  | .vec => serVec bs
  | .array => serArray bs

/-- **`Serialize` of a field as the FORMAT renders it** (`sd` = self-describing / JSON): dryoc's containers call
`serialize_bytes`, which bincode writes as a byte string and serde_json writes as a JSON ARRAY of numbers — an element
sequence when read back; `Vec<u8>` (`collect_seq`) and `[u8; N]` (`serialize_tuple`) are element sequences in every
format. -/
def serField' (k : Kind) (sd : Bool) (bs : Bytes) : Enc :=
  if k ≠ .typed ∨ sd then .seq bs else .bytes bs

/-! ### struct codecs, parametric in the container kinds -/

/-- derived `Serialize` for `DryocBox<E, M, D>` / `DryocSecretBox<M, D>` (`kE`, `kT`, `kD`: the kinds of `E`, `M`, `D`) -/
def serBoxK (kE kT kD : Kind) (b : Box) : EncBox :=
  ⟨b.epk.map (serField kE), serField kT b.tag, serField kD b.data⟩

/-- derived `Deserialize`: the fields in declaration order, first failure wins -/
def deBoxK (kE kT kD : Kind) (sd : Bool) (e : EncBox) : Outcome Box :=
  Outcome.andThen (match e.epk with
      | none => .ok none
      | some x => Outcome.andThen (deField kE sd 32 x) (fun k => .ok (some k))) fun epk =>
  Outcome.andThen (deField kT sd 16 e.tag) fun tag =>
  Outcome.andThen (deData kD sd e.data) fun data =>
  .ok ⟨epk, tag, data⟩

def serSignedK (kS kM : Kind) (sm : Bytes × Bytes) : EncSigned := ⟨serField kS sm.1, serField kM sm.2⟩

def deSignedK (kS kM : Kind) (sd : Bool) (e : EncSigned) : Outcome (Bytes × Bytes) :=
  Outcome.andThen (deField kS sd 64 e.signature) fun sig =>
  Outcome.andThen (deData kM sd e.message) fun m =>
  .ok (sig, m)

/-- encoded two-field struct of fixed-length fields, in declaration order:
`KeyPair { public_key, secret_key }` (32, 32), `SigningKeyPair { public_key, secret_key }` (32, 64),
`Kdf { main_key, context }` (32, 8), `Session { rx_key, tx_key }` (32, 32) -/
structure EncPair where
  fst : Enc
  snd : Enc
  deriving Repr, DecidableEq

def serPairK (k₁ k₂ : Kind) (p : Bytes × Bytes) : EncPair := ⟨serField k₁ p.1, serField k₂ p.2⟩

def dePairK (k₁ k₂ : Kind) (sd : Bool) (n m : Nat) (e : EncPair) : Outcome (Bytes × Bytes) :=
  Outcome.andThen (deField k₁ sd n e.fst) fun a =>
  Outcome.andThen (deField k₂ sd m e.snd) fun b =>
  .ok (a, b)

/-- the struct serialisers as the format renders them (`serField'`) -/
def serBoxK' (kE kT kD : Kind) (sd : Bool) (b : Box) : EncBox :=
  ⟨b.epk.map (serField' kE sd), serField' kT sd b.tag, serField' kD sd b.data⟩

def serSignedK' (kS kM : Kind) (sd : Bool) (sm : Bytes × Bytes) : EncSigned :=
  ⟨serField' kS sd sm.1, serField' kM sd sm.2⟩

def serPairK' (k₁ k₂ : Kind) (sd : Bool) (p : Bytes × Bytes) : EncPair := ⟨serField' k₁ sd p.1, serField' k₂ sd p.2⟩

/-- the stack / locked instantiations (what the type aliases `StackKeyPair`, `kdf::Key`, … give) -/
def serPair (p : Bytes × Bytes) : EncPair := serPairK .typed .typed p
def dePair (n m : Nat) (e : EncPair) : Outcome (Bytes × Bytes) := dePairK .typed .typed false n m e

/-! ### `from_parts` / `into_parts` -/

/-- `DryocBox::from_parts(tag, data, ephemeral_pk)` / `DryocSecretBox::from_parts(tag, data)` (`epk = none`):
`Self { ephemeral_pk, tag, data }` — the arguments are MOVED into the struct; no length is examined -/
def fromParts (tag data : Bytes) (epk : Option Bytes) : Box := ⟨epk, tag, data⟩

/-- `into_parts(self) -> (Mac, Data, Option<EphemeralPublicKey>)` -/
def intoParts (b : Box) : Bytes × Bytes × Option Bytes := (b.tag, b.data, b.epk)

/-- `SignedMessage::from_parts(signature, message)` / `into_parts` -/
def signedFromParts (sig msg : Bytes) : Bytes × Bytes := (sig, msg)
def signedIntoParts (sm : Bytes × Bytes) : Bytes × Bytes := (sm.1, sm.2)

/-! ### `from_slices` -/

/-- `<C as TryFrom<&[u8]>>::try_from(slice)` for a `ByteArray<n>` container `C`, by kind: dryoc's
`TryFrom<&[u8]> for StackByteArray<N>` / `HeapByteArray<N>` and std's `TryFrom<&[u8]> for [u8; N]` are strict
(`tryFromSlice`); for `Vec<u8>` it is std's blanket `TryFrom` from the INFALLIBLE `From<&[u8]>` (`fromSlice`) -/
def tryField (k : Kind) (n : Nat) (bs : Bytes) : Outcome Bytes :=
  match k with
  | .typed => tryFromSlice n bs
  | .vec => .ok (fromSlice bs)
  | .array => tryFromSlice n bs

/-- `KeyPair::from_slices(public_key, secret_key)` (keypair.rs, `n = m = 32`) and `SigningKeyPair::from_slices`
(sign.rs, `n = 32`, `m = 64`): `Ok(Self { public_key: PublicKey::try_from(public_key).map_err(..)?, secret_key:
SecretKey::try_from(secret_key).map_err(..)? })` — the PUBLIC key is converted first ("invalid public key"), then the
secret key ("invalid secret key"); `Outcome.err` carries no message, so the order shows only in the shape -/
def fromSlices (k₁ k₂ : Kind) (n m : Nat) (a b : Bytes) : Outcome (Bytes × Bytes) :=
  Outcome.andThen (tryField k₁ n a) fun pk =>
  Outcome.andThen (tryField k₂ m b) fun sk =>
  .ok (pk, sk)

/-! ### code-shaped serialisers -/

/-- `?`-style sequencing (panic and error propagate) -/
def bind {α β : Type} (x : Outcome α) (f : α → Outcome β) : Outcome β :=
  match x with
  | .ok a => f a
  | .err => .err
  | .panic => .panic

/-- `DryocSecretBox::to_bytes` / `DryocBox::to_bytes` (and `to_vec`), statement by statement:
`None`: `data.resize(tag.len() + data.len(), 0); s[..16].copy_from_slice(tag); s[16..].copy_from_slice(data)`;
`Some(epk)`: `data.resize(epk.len() + tag.len() + data.len(), 0); s[..32].copy_from_slice(epk);
s[32..48].copy_from_slice(tag); s[48..].copy_from_slice(data)`.
Every `x[a..b].copy_from_slice(src)` panics when the range is out of bounds or `src.len() ≠ b - a`. -/
def toBytesRaw (b : Box) : Outcome Bytes :=
  match b.epk with
  | some epk =>
    let s := zeros (epk.length + b.tag.length + b.data.length)
    bind (copyIntoRange s 0 32 epk) fun s =>
    bind (copyIntoRange s 32 48 b.tag) fun s =>
    copyIntoRange s 48 s.length b.data
  | none =>
    let s := zeros (b.tag.length + b.data.length)
    bind (copyIntoRange s 0 16 b.tag) fun s =>
    copyIntoRange s 16 s.length b.data

/-- `SignedMessage::to_bytes` / `to_vec`:
`data.resize(signature.len() + message.len(), 0); s[..64].copy_from_slice(signature); s[64..].copy_from_slice(message)` -/
def signedToBytesRaw (sm : Bytes × Bytes) : Outcome Bytes :=
  let s := zeros (sm.1.length + sm.2.length)
  bind (copyIntoRange s 0 64 sm.1) fun s =>
  copyIntoRange s 64 s.length sm.2

/-- `DryocSecretBox<Mac, Vec<u8>>::into_vec(mut self)`:
`self.data.resize(self.data.len() + 16, 0); self.data.rotate_right(16);
self.data[0..16].copy_from_slice(self.tag.as_array()); self.data`.
NOTE the Rust `impl` block is for `DryocSecretBox<Mac, Vec<u8>>` with `Mac` the ALIAS `StackByteArray<16>`: through
the public API the tag always has 16 bytes and `as_array` is the identity.  The branches for other tag lengths are
what the same statements do with a `Vec<u8>` tag (e.g. if the `impl` were made generic like `to_bytes`); they are
here so that the comparison with `toBytesRaw` is between two code-shaped functions. -/
def intoVecRaw (b : Box) : Outcome Bytes :=
  let data := b.data ++ zeros MACBYTES
  if MACBYTES > data.length then .panic            -- `rotate_right(k)` asserts `k <= len`
  else
    let data := rotateRight data MACBYTES
    bind (asArray MACBYTES b.tag) fun t =>
    copyIntoRange data 0 MACBYTES t

end DryocVerif.Model.EncodingVec
