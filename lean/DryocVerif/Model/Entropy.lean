import DryocVerif.Bytes
/-
Data-flow model of every randomised entry point (C11): which bytes each operation
takes from the entropy source (`rng::copy_randombytes` / `randombytes_buf`), in which
order, and how the random component of its result is computed from them.

The source is a byte stream consumed left to right; `Res.draws` records the sizes of
the individual requests (what hook H3 reports).  `derive` stands for the deterministic
post-processing (X25519 base-point multiplication, Ed25519 public key, base64 text).
-/
namespace DryocVerif.Model.Entropy
open DryocVerif

structure Res where
  /-- the random component of the operation's result -/
  comp : Bytes
  /-- sizes of the requests made to the entropy source, in order -/
  draws : List Nat
  /-- the unconsumed rest of the stream -/
  rest : Bytes
  deriving Repr, DecidableEq

/-- an operation that fills one `n`-byte value and returns it as is (keys, nonces, headers, salts) -/
def raw (n : Nat) (src : Bytes) : Res := ⟨src.take n, [n], src.drop n⟩

/-- draw `n` bytes `x`, return `x ‖ derive x` (key pairs: secret ‖ public) -/
def withDerived (n : Nat) (derive : Bytes → Bytes) (src : Bytes) : Res :=
  ⟨src.take n ++ derive (src.take n), [n], src.drop n⟩

/-- draw `n` bytes `x`, return only `derive x` (sealed-box ephemeral public key, salt text) -/
def onlyDerived (n : Nat) (derive : Bytes → Bytes) (src : Bytes) : Res :=
  ⟨derive (src.take n), [n], src.drop n⟩

/-- two consecutive draws (`Kdf::gen`: 32-byte key then 8-byte context) -/
def two (n m : Nat) (src : Bytes) : Res :=
  ⟨src.take n ++ (src.drop n).take m, [n, m], (src.drop n).drop m⟩

inductive Kind where
  | raw (n : Nat)
  | keypair          -- X25519: sk ‖ base·sk
  | signKeypair      -- Ed25519: seed ‖ A
  | signKeypairFull  -- Ed25519, whole 64-byte secret key reported: (seed ‖ A) ‖ A
  | ephemeral        -- sealed box: base·esk only
  | saltText         -- crypto_pwhash_str: base64 of the 16-byte salt
  | two (n m : Nat)
  deriving Repr, DecidableEq

/-- the table of entry points: name in the line protocol ↦ data flow.

This is a hand-written literal list.  It is meant to have one entry for every name the
runner (`/verif/harness/src/ops_rand.rs`, function `one`) offers — 68 names at the time of
writing, the last nine only in nightly builds — plus one entry (`heapbytes_gen_locked0`, the
last) that the runner does NOT offer, see below; but nothing in Lean ties it to the Rust
source: agreement of the two lists is checked by the differential run (an entry-point name
missing here makes the driver answer `n/a`), not by a theorem.

The nightly (protected-memory) generators, per `/repo/src`:
* `lockedro_gen32`  `HeapByteArray::<32>::gen_readonly_locked` = `gen_locked` (one
  `copy_randombytes` of 32 bytes into the locked region) then `mprotect_readonly`;
* `locked_trait_gen32`  `<Locked<HeapByteArray<32>> as NewByteArray<32>>::gen`: `new_locked`,
  one `copy_randombytes` of 32 bytes;
* `heapbytes_gen_locked33`  `HeapBytes::new_locked`, `resize(33, 0)`, one `copy_randombytes`
  of the 33-byte slice;
* `locked_kdf_gen`  `Kdf::<Locked<Key>, Locked<Context>>::gen`: `Key::gen()` (32) then
  `Context::gen()` (8), reported as key ‖ context;
* `lockedro_keypair_gen`  `KeyPair::gen_readonly_locked_keypair`: `crypto_box_keypair_inplace`
  (32-byte secret key drawn, public key = base·sk), reported as sk ‖ pk;
* `sign_locked_keypair_gen`, `sign_lockedro_keypair_gen`  `crypto_sign_keypair_inplace` (32-byte
  seed drawn; sk = seed ‖ A); the runner reports the WHOLE 64-byte secret key, then the
  public key: seed ‖ A ‖ A;
* `locked_secretbox_key_gen`  `Locked<Key>::gen` for the 32-byte secretbox key;
* `heapbytes_gen_locked0`  the blanket `NewLocked::gen_locked` / `gen_readonly_locked` AS WRITTEN, on
  the resizable `HeapBytes` (/repo/src/protected.rs, `impl NewLocked<A> for A`):
  `Self::new_bytes().mlock()?` gives an EMPTY region and `copy_randombytes(res.as_mut_slice())`
  is then called on the empty slice — one request of 0 bytes, result = the empty region, on every
  call.  (`heapbytes_gen_locked33` above is the harness sizing the buffer by hand; it is not what
  `HeapBytes::gen_locked()` does.)  The runner does not offer this name; the entry is there so
  that the table does not silently omit the one generator that draws nothing. -/
def table : List (String × Kind) := [
  ("randombytes_buf", .raw 32), ("copy_randombytes", .raw 24),
  ("copy_randombytes17", .raw 17), ("copy_randombytes37", .raw 37), ("randombytes_buf21", .raw 21),
  ("stack_gen37", .raw 37), ("array_gen20", .raw 20), ("vec_gen33", .raw 33),
  ("pwhash_hash_salt32", .raw 32), ("pwhash_hash_salt21", .raw 21), ("pwhash_hash_salt64", .raw 64),
  ("secretbox_keygen", .raw 32), ("secretbox_keygen_inplace", .raw 32),
  ("box_keypair", .keypair), ("box_keypair_inplace", .keypair), ("kx_keypair", .keypair),
  ("kdf_keygen", .raw 32), ("auth_keygen", .raw 32), ("onetimeauth_keygen", .raw 32),
  ("shorthash_keygen", .raw 16), ("generichash_keygen", .raw 32),
  ("sign_keypair", .signKeypair), ("sign_keypair_inplace", .signKeypair),
  ("secretstream_keygen", .raw 32), ("secretstream_init_push", .raw 24),
  ("box_seal", .ephemeral), ("pwhash_str", .saltText),
  ("stack_gen32", .raw 32), ("stack_gen24", .raw 24), ("array_gen32", .raw 32), ("vec_gen32", .raw 32), ("vec_gen8", .raw 8),
  ("stack_gen8", .raw 8), ("stack_gen5", .raw 5), ("array_gen7", .raw 7),
  ("box_seal_oversize", .ephemeral), ("array_gen257", .raw 257), ("array_gen1000", .raw 1000), ("stack_gen300", .raw 300), ("vec_gen513", .raw 513),
  ("keypair_gen", .keypair), ("keypair_gen_with_defaults", .keypair),
  ("signing_keypair_gen", .signKeypair), ("signing_keypair_gen_with_defaults", .signKeypair),
  ("kdf_gen", .two 32 8), ("kdf_gen_with_defaults", .two 32 8),
  ("dryocbox_seal", .ephemeral), ("dryocstream_init_push", .raw 24), ("pwhash_hash", .raw 16),
  ("secretbox_nonce_gen", .raw 24), ("secretbox_key_gen", .raw 32), ("box_nonce_gen", .raw 24),
  ("auth_key_gen", .raw 32), ("onetimeauth_key_gen", .raw 32), ("generichash_key_gen", .raw 32),
  ("stream_key_gen", .raw 32), ("kx_keypair_gen", .keypair),
  ("heap_gen32", .raw 32), ("locked_gen32", .raw 32), ("locked_keypair_gen", .keypair),
  ("lockedro_gen32", .raw 32), ("locked_trait_gen32", .raw 32), ("heapbytes_gen_locked33", .raw 33),
  ("locked_kdf_gen", .two 32 8), ("lockedro_keypair_gen", .keypair),
  ("sign_locked_keypair_gen", .signKeypairFull), ("sign_lockedro_keypair_gen", .signKeypairFull),
  ("locked_secretbox_key_gen", .raw 32),
  ("heapbytes_gen_locked0", .raw 0)]

structure Derivers where
  x25519Base : Bytes → Bytes
  edPublic : Bytes → Bytes
  b64 : Bytes → Bytes

/-- the data flow of one call of an entry point of kind `k` on the entropy stream `src`.

FOUR DIFFERENCES from the Rust entry points (none is visible in the differential run, which only
issues calls that succeed, on a stream long enough):
* `run` draws UNCONDITIONALLY, the Rust checks first where it can fail: `crypto_box_seal` returns
  `Err` BEFORE `crypto_box_keypair()` when the ciphertext buffer is shorter than
  `message.len() + CRYPTO_BOX_SEALBYTES` (no byte drawn);
* `crypto_pwhash_str` runs its two `validate!` guards on `opslimit` / `memlimit` before
  `copy_randombytes(&mut salt)` (a rejected cost draws nothing); `run … .ephemeral` /
  `run … .saltText` model the succeeding call only;
* a THIRD ordering, the opposite one: `PwHash::hash(password, config)` (pwhash.rs) does
  `salt.resize(config.salt_length, 0); copy_randombytes(salt.as_mut_slice());` and only THEN calls
  `crypto_pwhash(..)?`, which validates (`opslimit`, `memlimit`; then `argon2_hash` the output and salt
  lengths): it DRAWS
  `salt_length` bytes and then returns `Err` on an invalid config — a failing call has consumed entropy —, while
  `crypto_pwhash_str` validates first and a failing call has consumed none.  `run … (.raw n)` (the table's
  `pwhash_hash*` rows) has the stream effect of both the succeeding and the failing `PwHash::hash`, but reports a
  value (`comp`) that the failing call does not return;
* the verification hook `rng::verif_hooks::fill` reads the installed bytes CYCLICALLY
  (`bytes[pos % len]`), so a request is always served in full, whereas `List.take` TRUNCATES at
  the end of `src`: the two agree exactly when `k.consumed ≤ src.length` — the hypothesis the
  freshness theorems carry. -/
def run (D : Derivers) (k : Kind) (src : Bytes) : Res :=
  match k with
  | .raw n => raw n src
  | .keypair => withDerived 32 D.x25519Base src
  | .signKeypair => withDerived 32 D.edPublic src
  | .signKeypairFull => withDerived 32 (fun seed => D.edPublic seed ++ D.edPublic seed) src
  | .ephemeral => onlyDerived 32 D.x25519Base src
  | .saltText => onlyDerived 16 D.b64 src
  | .two n m => two n m src

/-- number of bytes an operation consumes -/
def Kind.consumed : Kind → Nat
  | .raw n => n
  | .keypair => 32
  | .signKeypair => 32
  | .signKeypairFull => 32
  | .ephemeral => 32
  | .saltText => 16
  | .two n m => n + m

end DryocVerif.Model.Entropy
