import DryocVerif.Model.OpenRaw
/-
STORE-PASSING models of `crypto_secretbox_open_detached` (/repo/src/classic/crypto_secretbox.rs) and
`crypto_secretbox_open_detached_inplace` (/repo/src/classic/crypto_secretbox_impl.rs), third review.

`openDetached` / `openDetachedRaw` (and everything built on them: `openEasy`, the `crypto_box_open_*` forms,
`crypto_box_seal_open`) report the caller's buffer on `Err` BY DEFINITION (`⟨.err, m⟩`, `wrapOpened`).  Here the store is
the caller's buffer, every assignment of the Rust —

    message.copy_from_slice(ciphertext);
    cipher.apply_keystream(message);

— is a `Stmt.write` in source order (`Model/RawOps.lean`: `Stmt`), and `Err` returns the store as it is when
`crypto_secretbox_open_verify(..)?` returns.  `Proofs/BoxStoreExtra.lean`: `openDetachedStmts_err_untouched` holds because
the `?` precedes the first write (fix E7); the counter-models with the pre-E7 order (copy and decrypt first, verdict last)
violate it.  Core only (no Mathlib).
-/
namespace DryocVerif.Model.SecretBox
open DryocVerif DryocVerif.Model.Raw
open scoped DryocVerif.Model.Raw

/-- **`crypto_secretbox_open_detached(message, mac, ciphertext, nonce, key)` as statements on the store** (= the
caller's whole `message` buffer), current source -/
def openDetachedStmtsM (P : Prims) (mac c nonce key : Bytes) : Stmt Bytes Unit := do
  -- `let message = &mut message[..ciphertext.len()]` (the bounds check)
  let m ← Stmt.read
  let _ ← Stmt.eval (sliceTo m c.length)
  -- `let mut cipher = crypto_secretbox_open_verify(ciphertext, mac, nonce, key)?`
  let ks ← Stmt.eval (openVerifyRaw P c mac nonce key)
  -- `message.copy_from_slice(ciphertext)`
  let m ← Stmt.read
  let dst ← Stmt.eval (sliceTo m c.length)
  let dst ← Stmt.eval (copyFromSlice dst c)
  Stmt.write fun m => dst ++ m.drop c.length
  -- `cipher.apply_keystream(message)`
  let m ← Stmt.read
  let dst ← Stmt.eval (sliceTo m c.length)
  Stmt.eval (checkRemaining (U64_MAX - 1) 32 dst.length)
  Stmt.write fun m => xorBytes dst ks ++ m.drop c.length

def openDetachedStmts (P : Prims) (mac c nonce key : Bytes) : Bytes → Outcome Unit × Bytes :=
  (openDetachedStmtsM P mac c nonce key).run

/-- **`crypto_secretbox_open_detached_inplace(data, mac, nonce, key)` as statements on the store** (= `data`) -/
def openDetachedInplaceStmtsM (P : Prims) (mac nonce key : Bytes) : Stmt Bytes Unit := do
  -- `let mut cipher = crypto_secretbox_open_verify(data, mac, nonce, key)?`
  let data ← Stmt.read
  let ks ← Stmt.eval (openVerifyRaw P data mac nonce key)
  -- `cipher.apply_keystream(data)`
  let data ← Stmt.read
  Stmt.eval (checkRemaining (U64_MAX - 1) 32 data.length)
  Stmt.write fun data => xorBytes data ks

def openDetachedInplaceStmts (P : Prims) (mac nonce key : Bytes) : Bytes → Outcome Unit × Bytes :=
  (openDetachedInplaceStmtsM P mac nonce key).run

/-- **counter-model: `crypto_secretbox_open_detached_inplace` before fix E7** — Poly1305 over `data`,
`cipher.apply_keystream(data)`, and only then the verdict of the comparison -/
def openDetachedInplaceStmtsOld7M (P : Prims) (mac nonce key : Bytes) : Stmt Bytes Unit := do
  let data ← Stmt.read
  Stmt.eval (checkRemaining (U64_MAX - 0) 0 32)
  let ks := P.stream key nonce (32 + data.length)
  let computed := P.mac (ks.take 32) data
  -- `cipher.apply_keystream(data)` in front of the verdict
  Stmt.eval (checkRemaining (U64_MAX - 1) 32 data.length)
  Stmt.write fun data => xorBytes data (ks.drop 32)
  Stmt.eval (errIf (mac ≠ computed))

def openDetachedInplaceStmtsOld7 (P : Prims) (mac nonce key : Bytes) : Bytes → Outcome Unit × Bytes :=
  (openDetachedInplaceStmtsOld7M P mac nonce key).run

/-- **counter-model: `crypto_secretbox_open_detached` before fix E7** —
`message[..c_len].copy_from_slice(ciphertext)` first, then the (old) in-place function on that range -/
def openDetachedStmtsOld7M (P : Prims) (mac c nonce key : Bytes) : Stmt Bytes Unit := do
  -- `message[..c_len].copy_from_slice(ciphertext)`
  let m ← Stmt.read
  let dst ← Stmt.eval (sliceTo m c.length)
  let dst ← Stmt.eval (copyFromSlice dst c)
  Stmt.write fun m => dst ++ m.drop c.length
  -- the old in-place function on `message[..c_len]`
  let m ← Stmt.read
  let data ← Stmt.eval (sliceTo m c.length)
  Stmt.eval (checkRemaining (U64_MAX - 0) 0 32)
  let ks := P.stream key nonce (32 + data.length)
  let computed := P.mac (ks.take 32) data
  Stmt.eval (checkRemaining (U64_MAX - 1) 32 data.length)
  Stmt.write fun m => xorBytes data (ks.drop 32) ++ m.drop c.length
  Stmt.eval (errIf (mac ≠ computed))

def openDetachedStmtsOld7 (P : Prims) (mac c nonce key : Bytes) : Bytes → Outcome Unit × Bytes :=
  (openDetachedStmtsOld7M P mac c nonce key).run

end DryocVerif.Model.SecretBox
