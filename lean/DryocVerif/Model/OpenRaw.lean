import DryocVerif.Model.RawOps
import DryocVerif.Model.SecretBox
import DryocVerif.Model.Sign
import DryocVerif.Model.PwhashStr
import DryocVerif.Model.Poly1305
import DryocVerif.Model.Encoding
/-
Code-shaped models of the byte parsers and `open` functions that take attacker bytes:

* `DryocSecretBox::from_bytes` / `DryocBox::from_bytes` (/repo/src/dryocsecretbox.rs, dryocbox.rs),
  `DryocBox::from_sealed_bytes`,
* `SignedMessage::from_bytes` (/repo/src/sign.rs),
* `crypto_sign_open` → `crypto_sign_ed25519_open` (/repo/src/classic/crypto_sign.rs, crypto_sign_ed25519.rs),
* the tail of `Pwhash::parse_encoded_pwhash` and `crypto_pwhash_str_needs_rehash` (the `unwrap()`s),
* `crypto_onetimeauth_verify` (/repo/src/classic/crypto_onetimeauth.rs),
* the serde visitors of /repo/src/bytes_serde.rs (`arr[idx] = elem`, `idx += 1`, `resize`),
* the CLASSIC box-family opens `crypto_secretbox_open_easy`, `…_open_easy_inplace`, `crypto_box_open_easy`,
  `…_open_easy_inplace`, `crypto_box_seal_open` with everything they call (`crypto_secretbox_open_detached`,
  `crypto_secretbox_open_verify`, `crypto_secretbox_open_detached_inplace`, the `crypto_box_open_detached*`
  wrappers) — /repo/src/classic/crypto_secretbox.rs, crypto_secretbox_impl.rs, crypto_box.rs.

Statements in source order; `split_at`, `unwrap`, `copy_from_slice`, `a - b` are the checked operations
of `Model.Raw`.  Each function takes a flag `guard`: `true` is the source as it is, `false` is the source
with its length guard deleted (the counter-model: it panics on short input, see `Proofs/RawExtra.lean`).
-/
namespace DryocVerif.Model.SecretBox
open DryocVerif DryocVerif.Model.Raw
open scoped DryocVerif.Model.Raw

/-- `from_bytes`: `if bytes.len() < MACBYTES { Err } else { let (tag, data) = bytes.split_at(MACBYTES);
Ok(Self { tag: Mac::try_from(tag).map_err(..)?, data: Data::from(data) }) }` -/
def fromBytesRawWith (guard : Bool) (bs : Bytes) : Outcome Box := do
  errIfWhen guard (bs.length < MACBYTES)
  let td ← splitAt bs MACBYTES          -- `(tag, data)`
  let tag ← orErr (tryFromSlice MACBYTES td.1)
  pure ⟨none, tag, td.2⟩

def fromBytesRaw (bs : Bytes) : Outcome Box := fromBytesRawWith true bs
def fromBytesNoGuard (bs : Bytes) : Outcome Box := fromBytesRawWith false bs

/-- `from_sealed_bytes`: guard, `bytes.split_at(SEALBYTES)`, `seal.split_at(PUBLICKEYBYTES)`, two `try_from` -/
def fromSealedBytesRawWith (guard : Bool) (bs : Bytes) : Outcome Box := do
  errIfWhen guard (bs.length < SEALBYTES)
  let sd ← splitAt bs SEALBYTES         -- `(seal, data)`
  let et ← splitAt sd.1 32              -- `(epk, tag)`
  let epk ← orErr (tryFromSlice 32 et.1)
  let tag ← orErr (tryFromSlice MACBYTES et.2)
  pure ⟨some epk, tag, sd.2⟩

def fromSealedBytesRaw (bs : Bytes) : Outcome Box := fromSealedBytesRawWith true bs
def fromSealedBytesNoGuard (bs : Bytes) : Outcome Box := fromSealedBytesRawWith false bs

/-! ### the classic opens, statement by statement

`Model.SecretBox.openEasy` etc. place their `panic` branches by hand; here every operation of the Rust that
can panic is a checked operation of `Model.Raw`, and `Proofs/BoxOpenRawExtra.lean` proves the two agree.

XSalsa20 (crate `salsa20` 0.10.2 on `cipher` 0.4.4): `remaining_blocks() = u64::MAX - block_pos`; the two
`apply_keystream` calls go through `check_remaining` like those of ChaCha20 and are modelled with
`checkRemaining` (they cannot fail for a slice, whose length is below 2^64; that is a proof, not an omission). -/

/-- `u64::MAX` -/
def U64_MAX : Nat := 2 ^ 64 - 1

/-- body → `Opened`: on `Err` and on panic the buffer is reported as the caller's -/
def wrapOpened (buf : Bytes) : Outcome Bytes → Opened
  | .ok b => ⟨.ok (), b⟩
  | .err => ⟨.err, buf⟩
  | .panic => ⟨.panic, buf⟩

/-- `crypto_secretbox_open_verify(ciphertext, mac, nonce, key) -> Result<XSalsa20, Error>`:
`XSalsa20::new`, `cipher.apply_keystream(&mut mac_key)` (32 zero bytes, fresh cipher), Poly1305 over the
ciphertext, constant-time comparison.  The returned cipher (core at block 1, 32 bytes of that block used) is
represented by the key stream from byte 32 on. -/
def openVerifyRaw (P : Prims) (c mac nonce key : Bytes) : Outcome Bytes := do
  checkRemaining (U64_MAX - 0) 0 32
  let ks := P.stream key nonce (32 + c.length)
  let macKey := ks.take 32
  let computed := P.mac macKey c
  errIf (mac ≠ computed)
  pure (ks.drop 32)

/-- `crypto_secretbox_open_detached_inplace(data, mac, nonce, key)`:
`let mut cipher = crypto_secretbox_open_verify(data, mac, nonce, key)?; cipher.apply_keystream(data)` -/
def openDetachedInplaceRawBody (P : Prims) (data mac nonce key : Bytes) : Outcome Bytes := do
  let ks ← openVerifyRaw P data mac nonce key
  checkRemaining (U64_MAX - 1) 32 data.length
  pure (xorBytes data ks)

def openDetachedInplaceRaw (P : Prims) (data mac nonce key : Bytes) : Opened :=
  wrapOpened data (openDetachedInplaceRawBody P data mac nonce key)

/-- `crypto_secretbox_open_detached(message, mac, ciphertext, nonce, key)`:
`let message = &mut message[..ciphertext.len()]; let mut cipher = crypto_secretbox_open_verify(..)?;
message.copy_from_slice(ciphertext); cipher.apply_keystream(message)`; the result is the caller's whole
buffer afterwards -/
def openDetachedRawBody (P : Prims) (m mac c nonce key : Bytes) : Outcome Bytes := do
  let dst ← sliceTo m c.length
  let ks ← openVerifyRaw P c mac nonce key
  let dst ← copyFromSlice dst c
  checkRemaining (U64_MAX - 1) 32 dst.length
  pure (xorBytes dst ks ++ m.drop c.length)

def openDetachedRaw (P : Prims) (m mac c nonce key : Bytes) : Opened :=
  wrapOpened m (openDetachedRawBody P m mac c nonce key)

/-- `crypto_secretbox_open_easy(message, ciphertext, nonce, key)`: guard, `ciphertext.split_at(MACBYTES)`,
`ByteArray::as_array(mac)` (an `assert!`), `crypto_secretbox_open_detached`.  `guard = false`: the source with
the `ciphertext.len() < MACBYTES` check deleted. -/
def openEasyRawBody (guard : Bool) (P : Prims) (m ct nonce key : Bytes) : Outcome Bytes := do
  errIfWhen guard (ct.length < MACBYTES)
  let mc ← splitAt ct MACBYTES          -- `(mac, ciphertext)`
  let mac ← asArray MACBYTES mc.1
  openDetachedRawBody P m mac mc.2 nonce key

def openEasyRaw (P : Prims) (m ct nonce key : Bytes) : Opened := wrapOpened m (openEasyRawBody true P m ct nonce key)
def openEasyNoGuard (P : Prims) (m ct nonce key : Bytes) : Opened := wrapOpened m (openEasyRawBody false P m ct nonce key)

/-- `crypto_secretbox_open_easy_inplace(ciphertext, nonce, key)`: guard, `split_at_mut(MACBYTES)`, `as_array`,
`crypto_secretbox_open_detached_inplace(data, mac, nonce, key)?` (writes `data` only on success),
`ciphertext.rotate_left(MACBYTES)` -/
def openEasyInplaceRawBody (guard : Bool) (P : Prims) (ct nonce key : Bytes) : Outcome Bytes := do
  errIfWhen guard (ct.length < MACBYTES)
  let md ← splitAt ct MACBYTES          -- `(mac, data)`
  let mac ← asArray MACBYTES md.1
  let data ← openDetachedInplaceRawBody P md.2 mac nonce key
  rotateLeftChecked (md.1 ++ data) MACBYTES

def openEasyInplaceRaw (P : Prims) (ct nonce key : Bytes) : Opened :=
  wrapOpened ct (openEasyInplaceRawBody true P ct nonce key)
def openEasyInplaceNoGuard (P : Prims) (ct nonce key : Bytes) : Opened :=
  wrapOpened ct (openEasyInplaceRawBody false P ct nonce key)

/-- `crypto_box_open_detached(message, mac, ciphertext, nonce, pk, sk)`: `crypto_box_beforenm`,
`crypto_box_open_detached_afternm(..)?` (= `crypto_secretbox_open_detached`), `key.zeroize()` -/
def boxOpenDetachedRawBody (P : Prims) (m mac c nonce pk sk : Bytes) : Outcome Bytes := do
  let key := beforenm P pk sk
  openDetachedRawBody P m mac c nonce key

/-- `crypto_box_open_detached_inplace(data, mac, nonce, pk, sk)` -/
def boxOpenDetachedInplaceRawBody (P : Prims) (data mac nonce pk sk : Bytes) : Outcome Bytes := do
  let key := beforenm P pk sk
  openDetachedInplaceRawBody P data mac nonce key

/-- `crypto_box_open_easy(message, ciphertext, nonce, sender_pk, recipient_sk)` -/
def boxOpenEasyRawBody (guard : Bool) (P : Prims) (m ct nonce pk sk : Bytes) : Outcome Bytes := do
  errIfWhen guard (ct.length < MACBYTES)
  let mc ← splitAt ct MACBYTES
  let mac ← asArray MACBYTES mc.1
  boxOpenDetachedRawBody P m mac mc.2 nonce pk sk

def boxOpenEasyRaw (P : Prims) (m ct nonce pk sk : Bytes) : Opened :=
  wrapOpened m (boxOpenEasyRawBody true P m ct nonce pk sk)
def boxOpenEasyNoGuard (P : Prims) (m ct nonce pk sk : Bytes) : Opened :=
  wrapOpened m (boxOpenEasyRawBody false P m ct nonce pk sk)

/-- `crypto_box_open_easy_inplace(data, nonce, sender_pk, recipient_sk)` -/
def boxOpenEasyInplaceRawBody (guard : Bool) (P : Prims) (ct nonce pk sk : Bytes) : Outcome Bytes := do
  errIfWhen guard (ct.length < MACBYTES)
  let md ← splitAt ct MACBYTES
  let mac ← asArray MACBYTES md.1
  let data ← boxOpenDetachedInplaceRawBody P md.2 mac nonce pk sk
  rotateLeftChecked (md.1 ++ data) MACBYTES

def boxOpenEasyInplaceRaw (P : Prims) (ct nonce pk sk : Bytes) : Opened :=
  wrapOpened ct (boxOpenEasyInplaceRawBody true P ct nonce pk sk)
def boxOpenEasyInplaceNoGuard (P : Prims) (ct nonce pk sk : Bytes) : Opened :=
  wrapOpened ct (boxOpenEasyInplaceRawBody false P ct nonce pk sk)

/-- `crypto_box_seal_open(message, ciphertext, recipient_pk, recipient_sk)`: the two length checks (the second
evaluates `ciphertext.len() - SEALBYTES`), `epk.copy_from_slice(&ciphertext[..PUBLICKEYBYTES])`,
`crypto_box_seal_nonce`, `crypto_box_open_easy(message, &ciphertext[PUBLICKEYBYTES..], &nonce, &epk, sk)`.
`guard = false`: the source with the `ciphertext.len() < SEALBYTES` check deleted. -/
def sealOpenRawBody (guard : Bool) (P : Prims) (m ct rpk rsk : Bytes) : Outcome Bytes := do
  errIfWhen guard (ct.length < SEALBYTES)
  let n ← checkedSub ct.length SEALBYTES
  errIf (m.length ≠ n)
  let src ← sliceTo ct 32
  let epk ← copyFromSlice (zeros 32) src
  let nonce := sealNonce P epk rpk
  let rest ← sliceFrom ct 32
  boxOpenEasyRawBody true P m rest nonce epk rsk

def sealOpenRaw (P : Prims) (m ct rpk rsk : Bytes) : Opened := wrapOpened m (sealOpenRawBody true P m ct rpk rsk)
def sealOpenNoGuard (P : Prims) (m ct rpk rsk : Bytes) : Opened := wrapOpened m (sealOpenRawBody false P m ct rpk rsk)

end DryocVerif.Model.SecretBox

namespace DryocVerif.Model.Sign
open DryocVerif DryocVerif.Model.Raw
open scoped DryocVerif.Model.Raw

/-- `SignedMessage::from_bytes` -/
def fromBytesRawWith (guard : Bool) (bs : Bytes) : Outcome (Bytes × Bytes) := do
  errIfWhen guard (bs.length < 64)
  let sm ← splitAt bs 64                -- `(signature, message)`
  let sig ← orErr (tryFromSlice 64 sm.1)
  pure (sig, sm.2)

def fromBytesRaw (bs : Bytes) : Outcome (Bytes × Bytes) := fromBytesRawWith true bs
def fromBytesNoGuard (bs : Bytes) : Outcome (Bytes × Bytes) := fromBytesRawWith false bs

/-- `else if message.len() != signed_message.len() - BYTES { Err }` -/
def lenCheck (m sm : Bytes) : Outcome Unit := do
  let n ← checkedSub sm.length 64
  errIf (m.length ≠ n)

/-- `crypto_sign_ed25519_open(message, signed_message, public_key)`; `m` is the caller's message buffer,
the result is its content afterwards.  `guard = false` deletes both length checks. -/
def ed25519OpenRawWith (guard : Bool) (H : Bytes → Bytes) (m sm pk : Bytes) : Outcome Bytes := do
  errIfWhen guard (sm.length < 64)
  whenPresent guard (lenCheck m sm)
  -- `let (sig, sm) = signed_message.split_at(BYTES)`
  let sb ← splitAt sm 64
  -- `<&[u8; 64]>::try_from(sig).unwrap()`
  let sig ← unwrap (tryFromSlice 64 sb.1)
  -- `crypto_sign_ed25519_verify_detached(sig, sm, public_key)?`
  errIf (verifyDetached H sig sb.2 pk false = false)
  -- `message.copy_from_slice(sm)`
  copyFromSlice m sb.2

/-- `crypto_sign_open`: the same two checks, then `crypto_sign_ed25519_open` -/
def signOpenRawWith (guard : Bool) (H : Bytes → Bytes) (m sm pk : Bytes) : Outcome Bytes := do
  errIfWhen guard (sm.length < 64)
  whenPresent guard (lenCheck m sm)
  ed25519OpenRawWith guard H m sm pk

def signOpenRaw (H : Bytes → Bytes) (m sm pk : Bytes) : Outcome Bytes := signOpenRawWith true H m sm pk
def signOpenNoGuard (H : Bytes → Bytes) (m sm pk : Bytes) : Outcome Bytes := signOpenRawWith false H m sm pk

end DryocVerif.Model.Sign

namespace DryocVerif.Model.PwhashStr
open DryocVerif DryocVerif.Model.Raw
open scoped DryocVerif.Model.Raw

/-- `a || b` where `b` may panic: `b` is evaluated only when `a` is false -/
def orElse (a : Bool) (b : Outcome Bool) : Outcome Bool := if a then .ok true else b

/-- the checks after the loop of `parse_encoded_pwhash`, with their `unwrap()`s:
`if version.is_none() || version.unwrap() != 19 { Err } else if parallelism.is_none() ||
parallelism.unwrap() != 1 { Err } else if pwhash.is_none() || pwhash.as_ref().unwrap().is_empty() …`.
`guard = false` deletes the `is_none() ||` in front of each `unwrap()`. -/
def finalChecksRawWith (guard : Bool) (r : Parsed) : Outcome Parsed := do
  let bad ← orElse (guard && r.version.isNone) (do let v ← unwrap r.version; pure (v != 19))
  errIf (bad = true)
  let bad ← orElse (guard && r.p.isNone) (do let p ← unwrap r.p; pure (p != 1))
  errIf (bad = true)
  let bad ← orElse (guard && r.pwhash.isNone) (do let h ← unwrap r.pwhash; pure h.isEmpty)
  errIf (bad = true)
  let bad ← orElse (guard && r.salt.isNone) (do let s ← unwrap r.salt; pure s.isEmpty)
  errIf (bad = true)
  errIf (r.ty.isNone = true)
  errIf (r.m.isNone = true)
  errIf (r.t.isNone = true)
  pure r

/-- `Pwhash::parse_encoded_pwhash`: the segment loop (shared with `parse`), then the checks -/
def parseRawWith (guard : Bool) (s : Str) : Outcome Parsed := do
  let r ← orErr (parseSegments (splitOn '$' s) {})
  finalChecksRawWith guard r

def parseRaw (s : Str) : Outcome Parsed := parseRawWith true s
def parseNoGuard (s : Str) : Outcome Parsed := parseRawWith false s

/-- `crypto_pwhash_str_needs_rehash`: `t_cost != pwhash.t_cost.unwrap() || m_cost != pwhash.m_cost.unwrap()` -/
def needsRehashRaw (s : Str) (opslimit memlimit : Nat) : Outcome Bool := do
  let r ← parseRaw s
  let t ← unwrap r.t
  if opslimit % 2 ^ 32 ≠ t then pure true
  else
    let m ← unwrap r.m
    pure (decide ((memlimit / 1024) % 2 ^ 32 ≠ m))

/-- `crypto_pwhash_str_verify`: parse, five `unwrap()`s, `argon2_hash(..)?`, constant-time compare -/
def strVerifyCode (argon2 : Nat → Nat → Nat → Nat → Bytes → Bytes → Nat → Outcome Bytes) (s : Str) (pwd : Bytes) :
    Outcome Unit := do
  let r ← parseRaw s
  let t ← unwrap r.t
  let m ← unwrap r.m
  let p ← unwrap r.p
  let salt ← unwrap r.salt
  let ty ← unwrap r.ty
  let computed ← argon2 ty.num t m p pwd salt 32
  let h ← unwrap r.pwhash
  errIf (computed ≠ h)

end DryocVerif.Model.PwhashStr

namespace DryocVerif.Model.Poly1305
open DryocVerif

/-- `crypto_onetimeauth_verify(mac, input, key)`: `Poly1305::new(key); update(input); finalize_to_array()`,
then `mac.ct_eq(&computed_mac)` → `Ok(())` / `Err` -/
def onetimeauthVerify (key msg tag : Bytes) : Outcome Unit :=
  let computed := mac key msg
  if tag = computed then .ok () else .err

end DryocVerif.Model.Poly1305

namespace DryocVerif.Model.Encoding
open DryocVerif DryocVerif.Model.Raw

/-- `visit_seq` of `StackByteArray<N>` / `Locked<HeapByteArray<N>>` as written: `arr` is the `N`-byte array,
`while let Some(elem) = .. { if idx >= N { return Err } arr[idx] = elem; idx += 1 } if idx != N { Err } Ok(arr)`.
`guard = false` deletes the `idx >= N` check. -/
def visitSeqFixedRawGo (guard : Bool) (n : Nat) : Bytes → Bytes → Nat → Outcome Bytes
  | [], arr, idx => if idx ≠ n then .err else .ok arr
  | e :: es, arr, idx =>
    if guard ∧ idx ≥ n then .err
    else
      match setIndex arr idx e with
      | .ok arr' =>
        match checkedAdd idx 1 with
        | .ok idx' => visitSeqFixedRawGo guard n es arr' idx'
        | .err => .err
        | .panic => .panic
      | .err => .err
      | .panic => .panic

/-- `Deserialize for StackByteArray<N>`: `visit_seq` as above; `visit_bytes`: length check, then
`arr.copy_from_slice(v)` -/
def deFixedRawWith (guard : Bool) (n : Nat) : Enc → Outcome Bytes
  | .seq es => visitSeqFixedRawGo guard n es (zeros n) 0
  | .bytes bs =>
    match errIfWhen guard (bs.length ≠ n) with
    | .ok () => copyFromSlice (zeros n) bs
    | .err => .err
    | .panic => .panic

def deFixedRaw (n : Nat) (enc : Enc) : Outcome Bytes := deFixedRawWith true n enc
def deFixedNoGuard (n : Nat) (enc : Enc) : Outcome Bytes := deFixedRawWith false n enc

/-- `visit_seq` of `HeapBytes` / `LockedBytes` as written:
`let idx = arr.len(); arr.resize(idx + 1, 0); arr[idx] = elem` -/
def visitSeqHeapRawGo : Bytes → Bytes → Outcome Bytes
  | [], arr => .ok arr
  | e :: es, arr =>
    let idx := arr.length
    match checkedAdd idx 1 with
    | .ok n' =>
      let arr := arr ++ zeros (n' - arr.length)
      match setIndex arr idx e with
      | .ok arr' => visitSeqHeapRawGo es arr'
      | .err => .err
      | .panic => .panic
    | .err => .err
    | .panic => .panic

def deHeapRaw : Enc → Outcome Bytes
  | .seq es => visitSeqHeapRawGo es []
  | .bytes bs => .ok bs

/-- counter-model, the heap visitor before the fix "serde sequence visitors enforce the exact element count":
`arr.resize(size_hint.unwrap_or(1), 0); while .. { if idx > arr.len() { arr.resize(idx, 0) } arr[idx] = elem; idx += 1 }` -/
def visitSeqHeapOldGo : Bytes → Bytes → Nat → Outcome Bytes
  | [], arr, _ => .ok arr
  | e :: es, arr, idx =>
    let arr := if idx > arr.length then arr ++ zeros (idx - arr.length) else arr
    match setIndex arr idx e with
    | .ok arr' =>
      match checkedAdd idx 1 with
      | .ok idx' => visitSeqHeapOldGo es arr' idx'
      | .err => .err
      | .panic => .panic
    | .err => .err
    | .panic => .panic

def deHeapOld (sizeHint : Option Nat) : Enc → Outcome Bytes
  | .seq es => visitSeqHeapOldGo es (zeros (sizeHint.getD 1)) 0
  | .bytes bs => .ok bs

end DryocVerif.Model.Encoding
