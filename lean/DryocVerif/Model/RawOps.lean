import DryocVerif.Bytes
/-
The Rust operations that can panic, as explicit three-valued functions.

The "code-shaped" (`…Raw`) models of the attacker-facing functions are written with these and
nothing else: every `a - b` on `usize`, every `a + b`, every slice expression `&x[a..b]`, every index
`x[i]`, every `split_at`, `copy_from_slice`, `unwrap`/`expect` is one call below, whose failing branch
is `Outcome.panic`.  "The function never panics" is then a theorem that has to be proved from the
guards that precede the operation in the Rust source; it fails to be provable (and the `…Old` /
`…NoGuard` counter-models below DO panic, by `decide`) as soon as a guard is removed.

Core only (linked into the driver executable).
-/
namespace DryocVerif.Model.Raw
open DryocVerif

/-- `?` / sequencing: `Err` and panic propagate -/
@[inline] def obind {α β : Type} (x : Outcome α) (f : α → Outcome β) : Outcome β :=
  match x with
  | .ok a => f a
  | .err => .err
  | .panic => .panic

scoped instance : Monad Outcome where
  pure := .ok
  bind := obind

/-- `usize::MAX + 1` on the 64-bit targets the crate is verified for -/
def USIZE : Nat := 2 ^ 64

/-- `a - b` on `usize` (overflow checks on: "attempt to subtract with overflow") -/
def checkedSub (a b : Nat) : Outcome Nat := if a < b then .panic else .ok (a - b)

/-- `a + b` on `usize` -/
def checkedAdd (a b : Nat) : Outcome Nat := if a + b < USIZE then .ok (a + b) else .panic

/-- `a + b` on `i64` -/
def checkedAddI64 (a b : Int) : Outcome Int :=
  if -(2 ^ 63 : Int) ≤ a + b ∧ a + b < (2 ^ 63 : Int) then .ok (a + b) else .panic

/-- `n as i64` for a `usize` -/
def asI64 (n : Nat) : Int :=
  if n % USIZE < 2 ^ 63 then ((n % USIZE : Nat) : Int) else ((n % USIZE : Nat) : Int) - (2 ^ 64 : Int)

/-- `if c { return Err(..) }` -/
def errIf (c : Prop) [Decidable c] : Outcome Unit := if c then .err else .ok ()

/-- a guard that is present in the source (`present = true`) or removed from it (counter-models) -/
def errIfWhen (present : Bool) (c : Prop) [Decidable c] : Outcome Unit :=
  if present then errIf c else .ok ()

/-- a statement that is present in the source or removed from it (counter-models) -/
def whenPresent (present : Bool) (x : Outcome Unit) : Outcome Unit := if present then x else .ok ()

/-- `x[i]` -/
def index (x : Bytes) (i : Nat) : Outcome UInt8 :=
  match x[i]? with
  | some b => .ok b
  | none => .panic

/-- `x[i] = v` -/
def setIndex (x : Bytes) (i : Nat) (v : UInt8) : Outcome Bytes :=
  if i < x.length then .ok (x.set i v) else .panic

/-- `&x[a..b]` : panics when `a > b` ("slice index starts at … but ends at …") or `b > x.len()` -/
def slice (x : Bytes) (a b : Nat) : Outcome Bytes :=
  if a > b then .panic else if b > x.length then .panic else .ok ((x.drop a).take (b - a))

/-- `&x[a..]` -/
def sliceFrom (x : Bytes) (a : Nat) : Outcome Bytes :=
  if a > x.length then .panic else .ok (x.drop a)

/-- `&x[..b]` -/
def sliceTo (x : Bytes) (b : Nat) : Outcome Bytes :=
  if b > x.length then .panic else .ok (x.take b)

/-- `x.split_at(mid)` : panics when `mid > x.len()` -/
def splitAt (x : Bytes) (mid : Nat) : Outcome (Bytes × Bytes) :=
  if mid > x.length then .panic else .ok (x.take mid, x.drop mid)

/-- `dst.copy_from_slice(src)` : panics when the lengths differ; the result is the new content of `dst` -/
def copyFromSlice (dst src : Bytes) : Outcome Bytes :=
  if dst.length ≠ src.length then .panic else .ok src

/-- `<[u8; n]>::try_from(slice)` as a `Result` -/
def tryFromSlice (n : Nat) (x : Bytes) : Option Bytes := if x.length = n then some x else none

/-- `opt.unwrap()` / `.expect(..)` -/
def unwrap {α : Type} : Option α → Outcome α
  | some a => .ok a
  | none => .panic

/-- `opt.map_err(..)?` / `.ok_or(..)?` -/
def orErr {α : Type} : Option α → Outcome α
  | some a => .ok a
  | none => .err

/-- `ByteArray::<N>::as_array()` on a slice (/repo/src/types.rs): `assert!(self.len() >= LENGTH)`, then a
pointer cast to `&[u8; N]` (the first `N` bytes) -/
def asArray (n : Nat) (x : Bytes) : Outcome Bytes :=
  if x.length < n then .panic else .ok (x.take n)

/-- `x.rotate_left(k)` : `assert!(k <= self.len())` -/
def rotateLeftChecked (x : Bytes) (k : Nat) : Outcome Bytes :=
  if k > x.length then .panic else .ok (x.drop k ++ x.take k)

/-- `x.rotate_right(k)` : `assert!(k <= self.len())` -/
def rotateRightChecked (x : Bytes) (k : Nat) : Outcome Bytes :=
  if k > x.length then .panic else .ok (x.drop (x.length - k) ++ x.take (x.length - k))

/-- number of 64-byte blocks that `bytes` bytes occupy, as `check_remaining` computes it:
`if bytes % bs == 0 { bytes / bs } else { bytes / bs + 1 }` -/
def blocksOf (bytes : Nat) : Nat := if bytes % 64 = 0 then bytes / 64 else bytes / 64 + 1

/-- `StreamCipherCoreWrapper::check_remaining(dlen)` of crate `cipher` 0.4.4 (src/stream_wrapper.rs),
block size 64, followed by the `.unwrap()` of `StreamCipher::apply_keystream`:
`remBlocks` is `core.remaining_blocks()` (ChaCha20 0.9.1: `u32::MAX - block_pos`; Salsa20 0.10.2:
`u64::MAX - block_pos`), `bytePos` is the wrapper's `pos` (bytes of the current key-stream block already
used).  `Err(StreamCipherError)` becomes a panic through the `unwrap`. -/
def checkRemaining (remBlocks bytePos dlen : Nat) : Outcome Unit :=
  if bytePos = 0 then
    if blocksOf dlen > remBlocks then .panic else .ok ()
  else
    let rem := 64 - bytePos
    if dlen > rem then
      if blocksOf (dlen - rem) > remBlocks then .panic else .ok ()
    else .ok ()

/-! ### store-passing statements (third review)

The `…Raw` models above return the caller's buffers on `Err` BY DEFINITION (`wrapOpened`, `pullRawWith`): a reordering of
a write in the Rust in front of an early `return Err` is invisible to them.  `Stmt σ α` is a statement of a function that
writes through its `&mut` arguments: it runs on the current store `σ` (everything the function can write to) and returns
a value — or `Err` / panic — TOGETHER WITH THE STORE AS IT IS AT THAT POINT.  An `Err` after a write returns the written
store.  "A failed call leaves the caller's data untouched" is then a theorem about the ORDER of the statements. -/

/-- a statement over the store `σ` -/
def Stmt (σ α : Type) : Type := σ → Outcome α × σ

namespace Stmt
variable {σ α β : Type}

/-- run a statement on a store -/
def run (x : Stmt σ α) (μ : σ) : Outcome α × σ := x μ

/-- `x; f`: `Err` (`return Err(..)` / `?`) and panic end the function with the store reached so far -/
def seq (x : Stmt σ α) (f : α → Stmt σ β) : Stmt σ β := fun μ =>
  match x μ with
  | (.ok a, μ') => f a μ'
  | (.err, μ') => (.err, μ')
  | (.panic, μ') => (.panic, μ')

instance : Monad (Stmt σ) where
  pure a := fun μ => (.ok a, μ)
  bind := seq

/-- an expression over locals and `&` arguments only (may `return Err` or panic; writes nothing) -/
def eval (x : Outcome α) : Stmt σ α := fun μ => (x, μ)

/-- read the store (`message.len()`, `*tag`, `state.nonce`, …) -/
def read : Stmt σ σ := fun μ => (.ok μ, μ)

/-- an assignment through a `&mut` argument -/
def write (f : σ → σ) : Stmt σ Unit := fun μ => (.ok (), f μ)

end Stmt

end DryocVerif.Model.Raw
