import DryocVerif.Bytes
/-
`ByteArray<N>::as_array` for the containers whose length is NOT part of their type
(/repo/src/types.rs):

* `impl<const LENGTH: usize> ByteArray<LENGTH> for Vec<u8>`   (types.rs:151)
* `impl<const LENGTH: usize> ByteArray<LENGTH> for &[u8]`     (types.rs:337)
* `impl<const LENGTH: usize> ByteArray<LENGTH> for [u8]`      (types.rs:351)

all three are

    assert!(self.len() >= LENGTH, "invalid … length {}, expecting at least {}", …);
    let arr = self.as_ptr() as *const [u8; LENGTH];
    &*arr                                   // (raw-pointer dereference)

i.e. a PANIC when the container is shorter than `LENGTH`, and otherwise a view of its FIRST `LENGTH`
bytes: a longer container is silently truncated to its prefix.  (The doc comment on the `&[u8]` impl says
"Panics if the input array size doesn't match `LENGTH`"; the code only panics when it is SMALLER.)

For `[u8; N]`, `StackByteArray<N>`, `HeapByteArray<N>` and the `Locked<…>` / `LockedRO<…>` wrappers the
length is in the type and `as_array` is the identity: that is the case `x.length = n` below
(`asArray_exact`).

Core only (no Mathlib): this file may be linked into the driver executable.
-/
namespace DryocVerif.Model.ArrayView
open DryocVerif

/-- `<Vec<u8> | &[u8] | [u8] as ByteArray<n>>::as_array`: `assert!(self.len() >= n)`, then the first `n` bytes -/
def asArray (n : Nat) (x : Bytes) : Outcome Bytes :=
  if x.length < n then .panic else .ok (x.take n)

/-- `<Vec<u8> | [u8] as MutByteArray<n>>::as_mut_array`, followed by a write of `n` bytes `v` through the
returned `&mut [u8; n]`: the same assertion; only the first `n` bytes of the container are overwritten -/
def writeArray (n : Nat) (x v : Bytes) : Outcome Bytes :=
  if x.length < n then .panic else .ok (v.take n ++ x.drop n)

/-- sequencing of two views (`f(a.as_array(), b.as_array())`: Rust evaluates the arguments left to right, so
the first failed assertion is the one that fires; both are panics, so the order is not observable in the
outcome) -/
def view2 {α : Type} (n₁ : Nat) (x₁ : Bytes) (n₂ : Nat) (x₂ : Bytes) (f : Bytes → Bytes → Outcome α) :
    Outcome α :=
  match asArray n₁ x₁ with
  | .ok a₁ =>
    match asArray n₂ x₂ with
    | .ok a₂ => f a₁ a₂
    | .err => .err
    | .panic => .panic
  | .err => .err
  | .panic => .panic

end DryocVerif.Model.ArrayView
