import DryocVerif.Bytes
/-
C20: the table of what the *safe* API of protected.rs / dryocstream.rs offers in each type state
(which trait impls exist), and a small-step semantics of programs over handles.
-/
namespace DryocVerif.Model.TypeState

inductive PM where | rw | ro | na deriving Repr, DecidableEq
inductive LM where | locked | unlocked deriving Repr, DecidableEq
/-- resizable `HeapBytes` or fixed-length `HeapByteArray<N>` -/
inductive Cont where | bytes | array deriving Repr, DecidableEq

/-- One constructor per way the SAFE public API reaches the bytes (or the pages) of a
`Protected<A, PM, LM>`: every trait impl of protected.rs / bytes_serde.rs whose receiver is a
`Protected` (see `implTable` below for the impl ↦ row map).  The first twelve rows are the original
table; the rows from `asRef` on were added after a review of the impl list. -/
inductive Op where
  | readView      -- `Bytes::as_slice()`
  | mutView       -- `MutBytes::as_mut_slice()`
  | arrayView     -- `ByteArray<N>::as_array()`
  | index         -- `x[0]`, any `&[u8]` method, through `Deref<Target = [u8]>`
  | resize        -- `ResizableBytes::resize(n, 0)`
  | clone
  | lock | unlock | ro | rw | na
  | useAfter      -- use of a handle after a transition consumed it
  | asRef         -- `AsRef<[u8]>::as_ref()`
  | asMut         -- `AsMut<[u8]>::as_mut()`
  | indexMut      -- `x[0] = b`, any `&mut [u8]` method, through `DerefMut`
  | copyFrom      -- `MutBytes::copy_from_slice(src)`
  | mutArrayView  -- `MutByteArray<N>::as_mut_array()`, `AsMut<[u8; N]>::as_mut()`
  | cloneFrom     -- `Clone::clone_from(&mut self, &src)` (provided method of `Clone`)
  | serialize     -- `serde::Serialize::serialize` (bytes_serde.rs, feature `nightly`)
  | zeroize       -- `Zeroize::zeroize(&mut self)` — the body of `Drop`, public through the trait
  deriving Repr, DecidableEq

/-- does the safe API offer `op` on a `Protected<cont, pm, lm>`? (trait impls of protected.rs) -/
def permits (pm : PM) (lm : LM) (c : Cont) : Op → Bool
  | .readView => pm ≠ .na                                  -- `Bytes` for ReadOnly and ReadWrite only
  | .mutView => pm = .rw                                   -- `MutBytes` for ReadWrite only
  | .arrayView => c = .array ∧ pm ≠ .na                    -- `ByteArray<N>` for RO/RW × both lock modes
  | .index => pm ≠ .na                                     -- `Deref<Target=[u8]>` for RO/RW
  | .resize => c = .bytes ∧ pm = .rw                       -- `ResizableBytes` for ReadWrite, resizable inner type
  | .clone =>                                              -- four `Clone` impls
      match pm, lm with
      | .rw, .locked => c = .bytes                         -- needs `ResizableBytes`
      | .ro, .locked => c = .bytes
      | .rw, .unlocked => true
      | .ro, .unlocked => true
      | .na, _ => false
  | .lock => lm = .unlocked                                -- `Lock` for `Protected<A, PM, Unlocked>`
  | .unlock => true                                        -- `Unlock` for every state
  | .ro => true
  | .rw => true
  | .na => lm = .unlocked                                  -- `ProtectNoAccess` for Unlocked only
  | .useAfter => false
  | .asRef => pm ≠ .na                                     -- `AsRef<[u8]>` for `Protected<A, ReadOnly | ReadWrite, LM>`
  | .asMut => pm = .rw                                     -- `AsMut<[u8]>` for `Protected<A, ReadWrite, LM>`
  | .indexMut => pm = .rw                                  -- `DerefMut` for `Protected<A, ReadWrite, LM>`
  | .copyFrom => pm = .rw                                  -- second method of `MutBytes`
  | .mutArrayView => c = .array ∧ pm = .rw                 -- `MutByteArray<N>`, `AsMut<[u8; N]>`: `HeapByteArray<N>`, ReadWrite, both lock modes
  | .cloneFrom =>                                          -- provided method of `Clone`: the same four impls
      match pm, lm with
      | .rw, .locked => c = .bytes
      | .ro, .locked => c = .bytes
      | .rw, .unlocked => true
      | .ro, .unlocked => true
      | .na, _ => false
  | .serialize =>                                          -- exactly three impls in bytes_serde.rs:
      lm = .locked ∧ ((pm = .rw) ∨ (pm = .ro ∧ c = .bytes)) --  `Locked<HeapByteArray<N>>`, `LockedBytes`, `LockedRO<HeapBytes>`
  | .zeroize => true                                       -- `impl<A, PM, LM> Zeroize for Protected<A, PM, LM>`: EVERY state

/-- the access an operation performs on the region's pages -/
inductive Access where | none | read | write deriving Repr, DecidableEq

def access : Op → Access
  | .readView | .arrayView | .index | .clone | .asRef | .cloneFrom | .serialize => .read
  | .mutView | .resize | .asMut | .indexMut | .copyFrom | .mutArrayView | .zeroize => .write
  | _ => .none

/-- does the page protection implied by the type state allow the access? -/
def allowed (pm : PM) : Access → Bool
  | .none => true
  | .read => pm ≠ .na
  | .write => pm = .rw

/-- the type state after a (successful) transition -/
def next (pm : PM) (lm : LM) : Op → PM × LM
  | .lock => (pm, .locked)
  | .unlock => (pm, .unlocked)
  | .ro => (.ro, lm)
  | .rw => (.rw, lm)
  | .na => (.na, lm)
  | _ => (pm, lm)

inductive Mode where | push | pull deriving Repr, DecidableEq
inductive StreamOp where | push | pull | rekey deriving Repr, DecidableEq

/-- `DryocStream<Mode>`: `push` only on `Push`, `pull` only on `Pull`, `rekey` on both -/
def streamPermits : Mode → StreamOp → Bool
  | .push, .push => true
  | .pull, .pull => true
  | _, .rekey => true
  | _, _ => false

/-- Documentation: every trait impl (and provided trait method) of /repo/src/protected.rs and
/repo/src/bytes_serde.rs whose RECEIVER is a `Protected<A, PM, LM>` (so that it reaches the bytes or
the pages of an existing region), with the row of the table that stands for it.  `useAfter` is the
pseudo-row.  (`Properties/C20.lean`, `table_covers_impls`: every row occurs here.)
NOT listed because they have no row — see the note after `table_covers_impls`: constructors (they
create a region instead of using one) and `Bytes::len` / `is_empty` (read the `Vec` header only). -/
def implTable : List (String × Op) :=
  [ ("Bytes::as_slice for Protected<A, ReadOnly, LM>", .readView),
    ("Bytes::as_slice for Protected<A, ReadWrite, LM>", .readView),
    ("MutBytes::as_mut_slice for Protected<A, ReadWrite, LM>", .mutView),
    ("MutBytes::copy_from_slice for Protected<A, ReadWrite, LM>", .copyFrom),
    ("ByteArray<N>::as_array for Protected<HeapByteArray<N>, ReadOnly, Unlocked>", .arrayView),
    ("ByteArray<N>::as_array for Protected<HeapByteArray<N>, ReadOnly, Locked>", .arrayView),
    ("ByteArray<N>::as_array for Protected<HeapByteArray<N>, ReadWrite, Unlocked>", .arrayView),
    ("ByteArray<N>::as_array for Protected<HeapByteArray<N>, ReadWrite, Locked>", .arrayView),
    ("MutByteArray<N>::as_mut_array for Protected<HeapByteArray<N>, ReadWrite, Locked>", .mutArrayView),
    ("MutByteArray<N>::as_mut_array for Protected<HeapByteArray<N>, ReadWrite, Unlocked>", .mutArrayView),
    ("AsMut<[u8; N]>::as_mut for Protected<HeapByteArray<N>, ReadWrite, Locked>", .mutArrayView),
    ("AsMut<[u8; N]>::as_mut for Protected<HeapByteArray<N>, ReadWrite, Unlocked>", .mutArrayView),
    ("AsRef<[u8]>::as_ref for Protected<A, ReadOnly, LM>", .asRef),
    ("AsRef<[u8]>::as_ref for Protected<A, ReadWrite, LM>", .asRef),
    ("AsMut<[u8]>::as_mut for Protected<A, ReadWrite, LM>", .asMut),
    ("Deref::deref for Protected<A, ReadOnly, LM>", .index),
    ("Deref::deref for Protected<A, ReadWrite, LM>", .index),
    ("DerefMut::deref_mut for Protected<A, ReadWrite, LM>", .indexMut),
    ("ResizableBytes::resize for Protected<A, ReadWrite, Locked>", .resize),
    ("ResizableBytes::resize for Protected<A, ReadWrite, Unlocked>", .resize),
    ("Clone::clone for Locked<T: ResizableBytes>", .clone),
    ("Clone::clone for LockedRO<T: ResizableBytes>", .clone),
    ("Clone::clone for Unlocked<T: Clone>", .clone),
    ("Clone::clone for UnlockedRO<T: Clone>", .clone),
    ("Clone::clone_from (provided) for the four Clone impls", .cloneFrom),
    ("Lock::mlock for Protected<A, PM, Unlocked>", .lock),
    ("Unlock::munlock for Protected<A, PM, LM>", .unlock),
    ("ProtectReadOnly::mprotect_readonly for Protected<A, PM, LM>", .ro),
    ("ProtectReadWrite::mprotect_readwrite for Protected<A, PM, LM>", .rw),
    ("ProtectNoAccess::mprotect_noaccess for Protected<A, PM, Unlocked>", .na),
    ("Serialize::serialize for Locked<HeapByteArray<N>>", .serialize),
    ("Serialize::serialize for LockedBytes = Locked<HeapBytes>", .serialize),
    ("Serialize::serialize for LockedRO<HeapBytes>", .serialize),
    ("Zeroize::zeroize for Protected<A, PM, LM>", .zeroize),
    ("Drop::drop for Protected<A, PM, LM> (calls zeroize; implicit, not callable)", .zeroize),
    ("(pseudo) use of a moved handle, E0382", .useAfter) ]

end DryocVerif.Model.TypeState
