import DryocVerif.Bytes
/-
C20: the table of what the *safe* API of protected.rs / dryocstream.rs offers in each type state
(which trait impls exist), and a small-step semantics of programs over handles.
-/
namespace DryocVerif.Model.TypeState

inductive PM where | rw | ro | na deriving Repr, DecidableEq
inductive LM where | locked | unlocked deriving Repr, DecidableEq
/-- resizable `HeapBytes` or fixed-length `HeapByteArray<N>` -/
inductive Cont where | bytes | array deriving Repr, DecidableEq

inductive Op where
  | readView      -- `as_slice()`
  | mutView       -- `as_mut_slice()`
  | arrayView     -- `as_array()`
  | index         -- `x[0]`
  | resize        -- `resize(n, 0)`
  | clone
  | lock | unlock | ro | rw | na
  | useAfter      -- use of a handle after a transition consumed it
  deriving Repr, DecidableEq

/-- does the safe API offer `op` on a `Protected<cont, pm, lm>`? (trait impls of protected.rs) -/
def permits (pm : PM) (lm : LM) (c : Cont) : Op → Bool
  | .readView => pm ≠ .na                                  -- `Bytes` for ReadOnly and ReadWrite only
  | .mutView => pm = .rw                                   -- `MutBytes` for ReadWrite only
  | .arrayView => c = .array ∧ pm ≠ .na                    -- `ByteArray<N>` for RO/RW × both lock modes
  | .index => pm ≠ .na                                     -- `Deref<Target=[u8]>` for RO/RW
  | .resize => c = .bytes ∧ pm = .rw                       -- `ResizableBytes` for ReadWrite, resizable inner type
  | .clone =>                                              -- four `Clone` impls
      match pm, lm with
      | .rw, .locked => c = .bytes                         -- needs `ResizableBytes`
      | .ro, .locked => c = .bytes
      | .rw, .unlocked => true
      | .ro, .unlocked => true
      | .na, _ => false
  | .lock => lm = .unlocked                                -- `Lock` for `Protected<A, PM, Unlocked>`
  | .unlock => true                                        -- `Unlock` for every state
  | .ro => true
  | .rw => true
  | .na => lm = .unlocked                                  -- `ProtectNoAccess` for Unlocked only
  | .useAfter => false

/-- the access an operation performs on the region's pages -/
inductive Access where | none | read | write deriving Repr, DecidableEq

def access : Op → Access
  | .readView | .arrayView | .index | .clone => .read
  | .mutView | .resize => .write
  | _ => .none

/-- does the page protection implied by the type state allow the access? -/
def allowed (pm : PM) : Access → Bool
  | .none => true
  | .read => pm ≠ .na
  | .write => pm = .rw

/-- the type state after a (successful) transition -/
def next (pm : PM) (lm : LM) : Op → PM × LM
  | .lock => (pm, .locked)
  | .unlock => (pm, .unlocked)
  | .ro => (.ro, lm)
  | .rw => (.rw, lm)
  | .na => (.na, lm)
  | _ => (pm, lm)

inductive Mode where | push | pull deriving Repr, DecidableEq
inductive StreamOp where | push | pull | rekey deriving Repr, DecidableEq

/-- `DryocStream<Mode>`: `push` only on `Push`, `pull` only on `Pull`, `rekey` on both -/
def streamPermits : Mode → StreamOp → Bool
  | .push, .push => true
  | .pull, .pull => true
  | _, .rekey => true
  | _, _ => false

end DryocVerif.Model.TypeState
