import DryocVerif.Model.ArrayView
import DryocVerif.Model.SecretStream
import DryocVerif.Model.SecretStreamRaw
/-
Code-shaped models of the OBJECT-API entry points of /repo/src/dryocstream.rs that `Model/ObjectView.lean` does not
cover (third review):

* `DryocStream::<Pull>::init_pull(key, header)`: `crypto_secretstream_xchacha20poly1305_init_pull(&mut state,
  header.as_array(), key.as_array())` — `Key: ByteArray<32>`, `Header: ByteArray<24>`; for `Vec<u8>` / `&[u8]` / `[u8]`
  (`ByteArray<N>` for every `N`, /repo/src/types.rs) `as_array` ASSERTS `len >= N` and views the first `N` bytes
  (`Model/ArrayView.lean`): a too short header or key is a PANIC, a too long one is silently truncated.
* `DryocStream::<Push>::init_push(key)`: `key.as_array()` likewise (the header is created by the function:
  `Header::new_byte_array()`, 24 bytes, filled from the entropy source — here the argument `hdr`).
* `impl From<u8> for Tag`: `Self::from_bits(other).expect("Unable to parse tag")` — a panic for every byte with a bit
  outside `MESSAGE | PUSH | REKEY | FINAL = 0b11`.  Fix E6 replaced the same expression inside `DryocStream::pull` by
  `Tag::from_bits_retain`; the public conversion is unchanged.  The CLASSIC `pull` hands its caller the raw tag byte of
  an authentic message; converting it with `Tag::from(tag)` is the caller's act.

API forms that need no model of their own (the existing models already are these):
  `associated_data: None` ≡ `Some(&[])` (`associated_data.unwrap_or(&[])` is the first use) — the model's `ad = []`;
  `Clone` of a `State` / `DryocStream` = copying the model's `State` value; `PartialEq` = `DecidableEq State`;
  `State::new()` / `State::default()` = all-zero key and nonce (`stateNew`), overwritten by `init_push` / `init_pull`
  before any use (`initState` writes both fields).

Core only (no Mathlib).
-/
namespace DryocVerif.Model.ObjectViewStream
open DryocVerif DryocVerif.Model.ArrayView DryocVerif.Model.SecretStream

/-- `State::new()` = `State::default()`: `k = [0u8; 32]`, `nonce = [0u8; 12]` (counter 0, inner nonce 0) -/
def stateNew : State := { k := zeros 32, nonce := zeros 12 }

/-- `DryocStream::<Pull>::init_pull(key, header)` for containers whose length is not in the type: the two
`as_array` assertions (header first — Rust evaluates arguments left to right; both are panics), then
`init_pull` on the 24- and 32-byte prefixes -/
def objInitPullView (P : Prims) (key header : Bytes) : Outcome State :=
  if header.length < 24 ∨ key.length < 32 then .panic
  else .ok (initState P (header.take 24) (key.take 32))

/-- the same function written with the `as_array` views of `Model/ArrayView.lean`
(`Proofs.ObjectViewStream.objInitPullView_eq_view`) -/
def objInitPullViewCode (P : Prims) (key header : Bytes) : Outcome State :=
  view2 24 header 32 key fun h k => .ok (initState P h k)

/-- `DryocStream::<Push>::init_push(key)`; `hdr` = the 24 bytes the function draws from the entropy source and
returns as the header -/
def objInitPushView (P : Prims) (key hdr : Bytes) : Outcome (State × Bytes) :=
  if key.length < 32 then .panic else .ok (initState P hdr (key.take 32), hdr)

/-- `impl From<u8> for Tag`: `Self::from_bits(other).expect("Unable to parse tag")` -/
def tagFromU8 (b : UInt8) : Outcome UInt8 := Raw.unwrap (tagFromBits b)

end DryocVerif.Model.ObjectViewStream
