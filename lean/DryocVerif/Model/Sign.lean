import DryocVerif.Bytes
import DryocVerif.Spec.Ed25519
/-
Model of /repo/src/classic/crypto_sign_ed25519.rs and crypto_sign.rs / sign.rs:
dryoc's own sequence of hashing, reduction and encoding around the Edwards-curve
arithmetic of curve25519-dalek.  The curve operations are taken from
`Spec.Ed25519` (they stand for dalek and are compared with it differentially); SHA-512
is a parameter.

MODELLING NOTES.
* The Rust feeds SHA-512 through separate calls (`hasher.update(DOM2PREFIX)` in pre-hashed mode,
  `hasher.update(&az[32..])` / `hasher.update(&signature[..32])`, `hasher.update(public_key)` / the key half of
  `signature`, `hasher.update(message)`, `finalize()`); here `H` is applied ONCE to the concatenation
  (`H (dom ++ … ++ msg)`).  That a sequence of `update`s hashes the concatenation is a property of the `sha2` crate's
  incremental hasher (dependency code, not modelled).
* Everything here is TOTAL on byte lists.  Where the Rust can panic on the signing side (`secret_key.as_array()` on a
  short `Vec`, `split_at_mut` / `copy_from_slice` behind the length test of `crypto_sign`) the code-shaped functions
  are in `Model/SignView.lean`; the verifying side is in `Model/ObjectView.lean`.
-/
namespace DryocVerif.Model.Sign
open DryocVerif DryocVerif.Spec.Ed25519

def DOM2PREFIX : Bytes := "SigEd25519 no Ed25519 collisions".toUTF8.toList ++ [1, 0]

/-- `clamp_hash` -/
def clampHash (hash : Bytes) : Bytes :=
  let s := hash.take 32
  match s with
  | [] => []
  | b0 :: rest =>
    let s := (b0 &&& 248) :: rest
    s.take 31 ++ (s.drop 31).map (fun b => (b &&& 127) ||| 64)

/-- `crypto_sign_ed25519_seed_keypair` → (pk, sk = seed ‖ pk) -/
def seedKeypair (H : Bytes → Bytes) (seed : Bytes) : Bytes × Bytes :=
  let a := le (clampHash (H seed)) % L
  let pk := encodePoint (scalarMul a B)
  (pk, seed ++ pk)

/-- `crypto_sign_ed25519_detached_impl` -/
def signDetached (H : Bytes → Bytes) (msg sk : Bytes) (prehashed : Bool) : Bytes :=
  let dom := if prehashed then DOM2PREFIX else []
  let az := H (sk.take 32)
  let nonce := H (dom ++ az.drop 32 ++ msg)
  let r := le nonce % L
  let bigR := encodePoint (scalarMul r B)
  let hram := H (dom ++ (bigR ++ sk.drop 32) ++ msg)
  let k := le hram % L
  let a := le (clampHash az) % L
  let s := (k * a % L + r) % L
  bigR ++ toLE 32 s

/-- `crypto_sign` (combined): `signed_message` buffer of length `smLen` -/
def signCombined (H : Bytes → Bytes) (smLen : Nat) (msg sk : Bytes) : Outcome Bytes :=
  if smLen ≠ msg.length + 64 then .err else .ok (signDetached H msg sk false ++ msg)

/-- `[8]P = identity` (dalek's `is_small_order`) -/
def isSmallOrder (P : Point) : Bool := pointEq (scalarMul 8 P) identity

/-- `crypto_sign_ed25519_verify_detached_impl`: the scalar must be canonical (S < L);
R and the public key are decompressed leniently as dalek does and must not have small order;
the check is the group equation `[S]B − [k]A = R` -/
def verifyDetached (H : Bytes → Bytes) (sig msg pk : Bytes) (prehashed : Bool) : Bool :=
  if sig.length ≠ 64 ∨ pk.length ≠ 32 then false
  else
    let dom := if prehashed then DOM2PREFIX else []
    let sb := sig.drop 32
    if ¬ (le sb < L) then false
    else
      match decodePointLax (sig.take 32) with
      | none => false
      | some bigR =>
        if isSmallOrder bigR then false
        else
          match decodePointLax pk with
          | none => false
          | some A =>
            if isSmallOrder A then false
            else
              let k := le (H (dom ++ sig.take 32 ++ pk ++ msg)) % L
              let sigR := add (scalarMul k (neg A)) (scalarMul (le sb) B)
              pointEq sigR bigR

/-- `crypto_sign_open(message, signed_message, pk)`; `mLen` = caller buffer length -/
def signOpen (H : Bytes → Bytes) (mLen : Nat) (sm pk : Bytes) : Outcome Bytes :=
  if sm.length < 64 then .err
  else if mLen ≠ sm.length - 64 then .err
  else if verifyDetached H (sm.take 64) (sm.drop 64) pk false then .ok (sm.drop 64) else .err

/-- incremental pre-hashed signing: `init; update…; final_create` -/
def signPh (H : Bytes → Bytes) (chunks : List Bytes) (sk : Bytes) : Bytes :=
  signDetached H (H chunks.flatten) sk true

def verifyPh (H : Bytes → Bytes) (chunks : List Bytes) (sig pk : Bytes) : Bool :=
  verifyDetached H sig (H chunks.flatten) pk true

/-- `crypto_sign_ed25519_sk_to_curve25519` -/
def skToCurve (H : Bytes → Bytes) (sk : Bytes) : Bytes := clampHash (H (sk.take 32))

/-- `crypto_sign_ed25519_pk_to_curve25519`: decompress, then the birational map u = (1+y)/(1−y) -/
def pkToCurve (pk : Bytes) : Outcome Bytes :=
  match decodePointLax pk with
  | none => .err
  | some A =>
    let zi := Spec.X25519.finv A.Z
    let y := A.Y * zi % p
    .ok (toLE 32 ((1 + y) * Spec.X25519.finv (1 + (p - y)) % p))

/-- `SignedMessage::from_bytes` -/
def fromBytes (bs : Bytes) : Outcome (Bytes × Bytes) :=
  if bs.length < 64 then .err else .ok (bs.take 64, bs.drop 64)

/-- `SignedMessage::to_bytes` / `to_vec` (/repo/src/sign.rs): a buffer of
`signature.len() + message.len()` bytes, the signature copied to `[..64]`, the message to
`[64..]`.  TOTALISED: this model simply concatenates.  The signature type is any
`ByteArray<64>`; for the containers whose TYPE carries the length (`[u8; 64]`,
`StackByteArray<64>`, `HeapByteArray<64>`, `Locked<…>`) `signature.len() = 64` always and the
concatenation is what the Rust computes.  For `Vec<u8>` (also a `ByteArray<64>`, and what
`SignedMessage<Vec<u8>, _>` holds after `from_parts` or serde) `signature.len()` can be anything,
and then `s[..64].copy_from_slice(signature)` PANICS (length mismatch, or range end out of bounds):
that branch is modelled in `Model.EncodingVec.signedToBytesRaw`, which equals this function exactly
when `sm.1.length = 64` (`Proofs.EncodingVecExtra.signedToBytesRaw_eq`). -/
def toBytes (sm : Bytes × Bytes) : Bytes := sm.1 ++ sm.2

/-- `SignedMessage::verify(public_key)` = `crypto_sign_verify_detached(signature, message, pk)`
for containers whose type carries the length.  TOTALISED and MORE FORGIVING than the code for
`Vec<u8>` / `&[u8]` containers: it answers `false` when `signature.len() ≠ 64` or
`public_key.len() ≠ 32`, where the Rust (`signature.as_array()`, `public_key.as_array()`) panics on
a shorter container and looks only at the first 64 / 32 bytes of a longer one.  The code-shaped
function is `Model.ObjectView.objVerifyMessage`; the two agree when the lengths are exact
(`Proofs.ObjectViewExtra.objVerifyMessage_exact`). -/
def verifyMessage (H : Bytes → Bytes) (sm : Bytes × Bytes) (pk : Bytes) : Bool :=
  verifyDetached H sm.1 sm.2 pk false

end DryocVerif.Model.Sign
