import DryocVerif.Bytes
/- Model of /repo/src/utils.rs -/
namespace DryocVerif.Model.Utils
open DryocVerif

/-- loop body of `increment_bytes`: `carry += *b as u16; *b = (carry & 0xff) as u8; carry >>= 8` -/
def incrementGo (carry : Nat) : Bytes → Bytes
  | [] => []
  | b :: bs =>
    let c := carry + b.toNat
    UInt8.ofNat (c &&& 0xff) :: incrementGo (c >>> 8) bs

/-- `increment_bytes` / `sodium_increment` -/
def incrementBytes (bs : Bytes) : Bytes := incrementGo 1 bs

/-- `pad16` -/
def pad16 (n : Nat) : Nat := (0x10 - (n % 16)) &&& 0xf

/-- `xor_buf(out, in)`: xors the first `min` bytes of `out`, leaves the rest -/
def xorBuf (out inp : Bytes) : Bytes :=
  xorBytes (out.take inp.length) inp ++ out.drop inp.length

end DryocVerif.Model.Utils
