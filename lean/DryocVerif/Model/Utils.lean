import DryocVerif.Bytes
/- Model of /repo/src/utils.rs -/
namespace DryocVerif.Model.Utils
open DryocVerif

/-- loop body of `increment_bytes`: `carry += *b as u16; *b = (carry & 0xff) as u8; carry >>= 8` -/
def incrementGo (carry : Nat) : Bytes → Bytes
  | [] => []
  | b :: bs =>
    let c := carry + b.toNat
    UInt8.ofNat (c &&& 0xff) :: incrementGo (c >>> 8) bs

/-- `increment_bytes` / `sodium_increment` -/
def incrementBytes (bs : Bytes) : Bytes := incrementGo 1 bs

/-- `pad16` -/
def pad16 (n : Nat) : Nat := (0x10 - (n % 16)) &&& 0xf

/-- `xor_buf(out, in)`: xors the first `min` bytes of `out`, leaves the rest -/
def xorBuf (out inp : Bytes) : Bytes :=
  xorBytes (out.take inp.length) inp ++ out.drop inp.length

/-- `load_u64_le(bytes)`: `bytes[0] as u64 | (bytes[1] as u64) << 8 | … | (bytes[7] as u64) << 56`.
The Rust indexes `bytes[0..=7]` (panics on a shorter slice); every caller passes an
8-byte slice, the model reads a missing byte as 0 to stay total. -/
def loadU64LE (bytes : Bytes) : UInt64 :=
  (bytes.getD 0 0).toUInt64
    ||| ((bytes.getD 1 0).toUInt64 <<< 8)
    ||| ((bytes.getD 2 0).toUInt64 <<< 16)
    ||| ((bytes.getD 3 0).toUInt64 <<< 24)
    ||| ((bytes.getD 4 0).toUInt64 <<< 32)
    ||| ((bytes.getD 5 0).toUInt64 <<< 40)
    ||| ((bytes.getD 6 0).toUInt64 <<< 48)
    ||| ((bytes.getD 7 0).toUInt64 <<< 56)

/-- `rotr64(x, b)`: `(x >> b) | (x << (64 - b))` -/
@[inline] def rotr64 (x : UInt64) (b : UInt64) : UInt64 :=
  (x >>> b) ||| (x <<< (64 - b))

/-- the Rust slice expression `bs[a..b]` (the callers guarantee `a ≤ b ≤ bs.len()`) -/
def slice (bs : Bytes) (a b : Nat) : Bytes := (bs.take b).drop a

end DryocVerif.Model.Utils
