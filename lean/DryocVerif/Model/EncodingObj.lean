import DryocVerif.Model.EncodingVec
/-
Derived `Serialize` / `Deserialize` and `from_parts` / `into_parts` of the remaining serde objects:

* `pwhash::PwHash<Hash: Bytes, Salt: Bytes> { hash, salt, config: Config }`, `pwhash::Config { algorithm:
  PasswordHashAlgorithm, hash_length: usize, memlimit: usize, opslimit: u64, salt_length: usize }`
  (/repo/src/pwhash.rs), `enum PasswordHashAlgorithm { Argon2i13 = 1, Argon2id13 = 2 }` (classic/crypto_pwhash.rs);
* `kdf::Kdf<Key: ByteArray<32>, Context: ByteArray<8>> { main_key, context }` (/repo/src/kdf.rs);
* `kx::Session<SessionKey: ByteArray<32>> { rx_key, tx_key }` (/repo/src/kx.rs) — ONE type parameter: both keys are
  held in the same kind of container.

As in `Model/EncodingStruct.lean`: a derived struct codec visits the fields in declaration order and stops at the
first failure; serde_derive / serde_json / bincode are trusted for names and framing.  A unit-variant enum is, in
serde's data model, `unit_variant(name, variant_index)`: the model keeps the INDEX (0-based position in the `enum`, not
the Rust discriminant `= 1` / `= 2`: bincode writes the index as a `u32`, serde_json the variant NAME, the derived
visitor maps either back to the index and refuses every other one).  `usize` / `u64` fields are unsigned integers
below `2^64` (64-bit target); an integer token outside that range is refused by the primitive's own `Deserialize`.

NOTHING in the derived `Deserialize` relates the fields to each other: `Config` is NOT validated against `hash` /
`salt`, nor against the limits that `crypto_pwhash` enforces (`Proofs.EncodingObjExtra.dePw_accepts_inconsistent_config`).

Core only (no Mathlib).
-/
namespace DryocVerif.Model.EncodingObj
open DryocVerif DryocVerif.Model.Encoding DryocVerif.Model.EncodingVec

/-! ### password-hash object -/

/-- `crypto_pwhash::PasswordHashAlgorithm`, in declaration order -/
inductive Alg where
  | argon2i13
  | argon2id13
  deriving Repr, DecidableEq

/-- serde `variant_index` of a variant -/
def Alg.index : Alg → Nat
  | .argon2i13 => 0
  | .argon2id13 => 1

/-- derived `Deserialize for PasswordHashAlgorithm`: the two known variants, every other index (name) is
`unknown variant` -/
def deAlg (i : Nat) : Outcome Alg :=
  if i = 0 then .ok .argon2i13 else if i = 1 then .ok .argon2id13 else .err

/-- `Deserialize for u64` / `usize` (64-bit) on an unsigned integer token -/
def deU64 (v : Nat) : Outcome Nat := if v < 2 ^ 64 then .ok v else .err

/-- `pwhash::Config` -/
structure Config where
  algorithm : Alg
  hashLength : Nat
  memlimit : Nat
  opslimit : Nat
  saltLength : Nat
  deriving Repr, DecidableEq

/-- the integers of a `Config` fit their Rust types (`usize`, `u64` on a 64-bit target) — true of every value the
Rust type can hold; a hypothesis of the round-trip theorems only because the model's fields are `Nat` -/
def Config.inRange (c : Config) : Prop :=
  c.hashLength < 2 ^ 64 ∧ c.memlimit < 2 ^ 64 ∧ c.opslimit < 2 ^ 64 ∧ c.saltLength < 2 ^ 64

instance (c : Config) : Decidable c.inRange := by unfold Config.inRange; infer_instance

/-- `pwhash::PwHash<Hash, Salt>` -/
structure PwObj where
  hash : Bytes
  salt : Bytes
  config : Config
  deriving Repr, DecidableEq

/-- encoded `Config`: variant index, then four integer tokens, in declaration order -/
structure EncConfig where
  algorithm : Nat
  hashLength : Nat
  memlimit : Nat
  opslimit : Nat
  saltLength : Nat
  deriving Repr, DecidableEq

structure EncPw where
  hash : Enc
  salt : Enc
  config : EncConfig
  deriving Repr, DecidableEq

def serConfig (c : Config) : EncConfig :=
  ⟨c.algorithm.index, c.hashLength, c.memlimit, c.opslimit, c.saltLength⟩

/-- derived `Deserialize for Config`: five independent field decoders — no relation between the fields, and none to
the limits of `crypto_pwhash`, is examined -/
def deConfig (e : EncConfig) : Outcome Config :=
  Outcome.andThen (deAlg e.algorithm) fun a =>
  Outcome.andThen (deU64 e.hashLength) fun hl =>
  Outcome.andThen (deU64 e.memlimit) fun ml =>
  Outcome.andThen (deU64 e.opslimit) fun ol =>
  Outcome.andThen (deU64 e.saltLength) fun sl =>
  .ok ⟨a, hl, ml, ol, sl⟩

/-- derived `Serialize for PwHash<Hash, Salt>` as the format renders it (`kH`, `kS`: the kinds of `Hash`, `Salt`; the
default aliases `pwhash::Hash`, `pwhash::Salt` are `Vec<u8>`: `.vec`) -/
def serPwK' (kH kS : Kind) (sd : Bool) (p : PwObj) : EncPw :=
  ⟨serField' kH sd p.hash, serField' kS sd p.salt, serConfig p.config⟩

/-- derived `Deserialize`: `hash`, `salt` (both VARIABLE-length `Bytes` fields: `deData`), then `config` -/
def dePwK (kH kS : Kind) (sd : Bool) (e : EncPw) : Outcome PwObj :=
  Outcome.andThen (deData kH sd e.hash) fun h =>
  Outcome.andThen (deData kS sd e.salt) fun s =>
  Outcome.andThen (deConfig e.config) fun c =>
  .ok ⟨h, s, c⟩

/-- the default instantiation `VecPwHash = PwHash<Vec<u8>, Vec<u8>>` -/
def serPw (sd : Bool) (p : PwObj) : EncPw := serPwK' .vec .vec sd p
def dePw (sd : Bool) (e : EncPw) : Outcome PwObj := dePwK .vec .vec sd e

/-- `PwHash::from_parts(hash, salt, config)`: `Self { hash, salt, config }` — moved in, nothing examined -/
def pwFromParts (hash salt : Bytes) (config : Config) : PwObj := ⟨hash, salt, config⟩

/-- `PwHash::into_parts(self) -> (Hash, Salt, Config)` -/
def pwIntoParts (p : PwObj) : Bytes × Bytes × Config := (p.hash, p.salt, p.config)

/-! ### key-derivation object -/

/-- `kdf::Kdf<Key, Context>` -/
structure KdfObj where
  mainKey : Bytes
  context : Bytes
  deriving Repr, DecidableEq

structure EncKdf where
  mainKey : Enc
  context : Enc
  deriving Repr, DecidableEq

def serKdfK' (kK kC : Kind) (sd : Bool) (o : KdfObj) : EncKdf :=
  ⟨serField' kK sd o.mainKey, serField' kC sd o.context⟩

/-- derived `Deserialize`: `main_key` (`ByteArray<32>`), then `context` (`ByteArray<8>`) -/
def deKdfK (kK kC : Kind) (sd : Bool) (e : EncKdf) : Outcome KdfObj :=
  Outcome.andThen (deField kK sd 32 e.mainKey) fun k =>
  Outcome.andThen (deField kC sd 8 e.context) fun c =>
  .ok ⟨k, c⟩

/-- `StackKdf` / `LockedKdf` -/
def serKdf (sd : Bool) (o : KdfObj) : EncKdf := serKdfK' .typed .typed sd o
def deKdf (sd : Bool) (e : EncKdf) : Outcome KdfObj := deKdfK .typed .typed sd e

/-- `Kdf::from_parts(main_key, context)` / `into_parts` -/
def kdfFromParts (mainKey context : Bytes) : KdfObj := ⟨mainKey, context⟩
def kdfIntoParts (o : KdfObj) : Bytes × Bytes := (o.mainKey, o.context)

/-! ### key-exchange session -/

/-- `kx::Session<SessionKey>` -/
structure SessionObj where
  rxKey : Bytes
  txKey : Bytes
  deriving Repr, DecidableEq

structure EncSession where
  rxKey : Enc
  txKey : Enc
  deriving Repr, DecidableEq

/-- one kind `k` for both keys (one type parameter) -/
def serSessionK' (k : Kind) (sd : Bool) (o : SessionObj) : EncSession :=
  ⟨serField' k sd o.rxKey, serField' k sd o.txKey⟩

def deSessionK (k : Kind) (sd : Bool) (e : EncSession) : Outcome SessionObj :=
  Outcome.andThen (deField k sd 32 e.rxKey) fun rx =>
  Outcome.andThen (deField k sd 32 e.txKey) fun tx =>
  .ok ⟨rx, tx⟩

/-- `StackSession` / `LockedSession` -/
def serSession (sd : Bool) (o : SessionObj) : EncSession := serSessionK' .typed sd o
def deSession (sd : Bool) (e : EncSession) : Outcome SessionObj := deSessionK .typed sd e

/-- `Session::into_parts(self) -> (rx_key, tx_key)`.  kx.rs has NO public `from_parts` (the fields are private; a
`Session` is made by `new_client` / `new_server` or by `Deserialize`); `sessionFromParts` is the struct literal that
those constructors and the derived visitor end with. -/
def sessionIntoParts (o : SessionObj) : Bytes × Bytes := (o.rxKey, o.txKey)
def sessionFromParts (rx tx : Bytes) : SessionObj := ⟨rx, tx⟩

/-! ### key pairs (`keypair::KeyPair`, `sign::SigningKeyPair`): public fields, struct literal -/

/-- `KeyPair { public_key, secret_key }` / `SigningKeyPair { public_key, secret_key }` have PUBLIC fields and no
`from_parts` / `into_parts`: the struct literal and the field projections play that role.  Their serde codecs are
`serPairK'` / `dePairK` at (32, 32) resp. (32, 64). -/
def pairFromParts (pk sk : Bytes) : Bytes × Bytes := (pk, sk)
def pairIntoParts (p : Bytes × Bytes) : Bytes × Bytes := (p.1, p.2)

end DryocVerif.Model.EncodingObj
