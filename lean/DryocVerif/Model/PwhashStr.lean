import DryocVerif.Bytes
import DryocVerif.Spec.Base64
/-
Model of the password-hash *string* layer of /repo/src/classic/crypto_pwhash.rs
(`pwhash_to_string`, `Pwhash::parse_encoded_pwhash`, `crypto_pwhash_str_verify`,
`crypto_pwhash_str_needs_rehash`) and of `PwHash::to_string/from_string` in pwhash.rs.

Strings are `List Char`.  Argon2 itself is a parameter `argon2 ty t m p pwd salt outlen`.
Base64 (crate `base64`, STANDARD alphabet, no padding, canonical) is `Spec.Base64`.
-/
namespace DryocVerif.Model.PwhashStr
open DryocVerif DryocVerif.Spec.Base64

abbrev Str := List Char

/-- `u32::to_string` -/
def toDecAux : Nat → Nat → Str → Str
  | 0, _, acc => acc
  | fuel+1, n, acc =>
    let acc := Char.ofNat (48 + n % 10) :: acc
    if n / 10 = 0 then acc else toDecAux fuel (n / 10) acc

def toDec (n : Nat) : Str := toDecAux 40 n []

/-- `str::parse::<u32>()`: optional leading '+', then at least one ASCII digit, value < 2^32 -/
def parseDigits : Str → Nat → Option Nat
  | [], acc => some acc
  | c :: cs, acc =>
    if '0' ≤ c ∧ c ≤ '9' then
      let v := acc * 10 + (c.toNat - 48)
      if v < 2^32 then parseDigits cs v else none
    else none

def parseU32 (s : Str) : Option Nat :=
  match s with
  | [] => none
  | '+' :: rest => if rest.isEmpty then none else parseDigits rest 0
  | _ => parseDigits s 0

/-- `s.split(sep)` -/
def splitOnAux (sep : Char) : Str → Str → List Str
  | [], cur => [cur.reverse]
  | c :: cs, cur => if c = sep then cur.reverse :: splitOnAux sep cs [] else splitOnAux sep cs (c :: cur)

def splitOn (sep : Char) (s : Str) : List Str := splitOnAux sep s []

def stripPrefix (pre s : Str) : Option Str :=
  if pre.isPrefixOf s then some (s.drop pre.length) else none

def isInfix (pat s : Str) : Bool :=
  (List.range (s.length + 1)).any (fun i => pat.isPrefixOf (s.drop i))

inductive Alg where
  | argon2i | argon2id
  deriving Repr, DecidableEq

def Alg.name : Alg → Str
  | .argon2i => "argon2i".toList
  | .argon2id => "argon2id".toList

def Alg.num : Alg → Nat
  | .argon2i => 1
  | .argon2id => 2

structure Parsed where
  pwhash : Option Bytes := none
  salt : Option Bytes := none
  ty : Option Alg := none
  t : Option Nat := none
  m : Option Nat := none
  p : Option Nat := none
  version : Option Nat := none
  deriving Repr, DecidableEq

/-- `pwhash_to_string` (with the algorithm that was actually used) -/
def encode (alg : Alg) (t m : Nat) (salt hash : Bytes) : Str :=
  "$".toList ++ alg.name ++ "$v=".toList ++ toDec 19 ++ "$m=".toList ++ toDec m ++ ",t=".toList ++ toDec t
    ++ ",p=1$".toList ++ encodeChars salt ++ "$".toList ++ encodeChars hash

/-- one `m=…,t=…,p=…` parameter list; `none` = a number failed to parse (→ Err) -/
def parseParams (ps : List Str) (acc : Parsed) : Option Parsed :=
  match ps with
  | [] => some acc
  | p :: rest =>
    match stripPrefix "m=".toList p with
    | some v => match parseU32 v with
      | some n => parseParams rest { acc with m := some n }
      | none => none
    | none =>
    match stripPrefix "t=".toList p with
    | some v => match parseU32 v with
      | some n => parseParams rest { acc with t := some n }
      | none => none
    | none =>
    match stripPrefix "p=".toList p with
    | some v => match parseU32 v with
      | some n => parseParams rest { acc with p := some n }
      | none => none
    | none => parseParams rest acc

/-- the `for s in hashed_password.split('$')` loop body; `none` = early `return Err` -/
def parseSegment (acc : Parsed) (s : Str) : Option Parsed :=
  if s.isEmpty then some acc
  else if acc.ty.isNone ∧ "argon2".toList.isPrefixOf s then
    if s = "argon2i".toList then some { acc with ty := some .argon2i }
    else if s = "argon2id".toList then some { acc with ty := some .argon2id }
    else none
  else match stripPrefix "v=".toList s with
  | some v => match parseU32 v with
    | some n => some { acc with version := some n }
    | none => none
  | none =>
    if isInfix "m=".toList s ∧ isInfix "t=".toList s ∧ isInfix "p=".toList s then
      parseParams (splitOn ',' s) acc
    else if acc.salt.isNone then some { acc with salt := decodeChars s }
    else if acc.pwhash.isNone then some { acc with pwhash := decodeChars s }
    else some acc

def parseSegments : List Str → Parsed → Option Parsed
  | [], acc => some acc
  | s :: rest, acc =>
    match parseSegment acc s with
    | some acc' => parseSegments rest acc'
    | none => none

/-- `Pwhash::parse_encoded_pwhash` -/
def parse (s : Str) : Outcome Parsed :=
  match parseSegments (splitOn '$' s) {} with
  | none => .err
  | some r =>
    if r.version ≠ some 19 then .err
    else if r.p ≠ some 1 then .err
    else if r.pwhash.isNone ∨ r.pwhash = some [] then .err
    else if r.salt.isNone ∨ r.salt = some [] then .err
    else if r.ty.isNone then .err
    else if r.m.isNone then .err
    else if r.t.isNone then .err
    else .ok r

/-- `PwHash::from_string(s).to_string()` -/
def reencode (s : Str) : Outcome Str :=
  match parse s with
  | .ok r =>
    match r.ty, r.t, r.m, r.salt, r.pwhash with
    | some ty, some t, some m, some salt, some h => .ok (encode ty t m salt h)
    | _, _, _, _, _ => .panic
  | .err => .err
  | .panic => .panic

/-- `crypto_pwhash_str_needs_rehash(s, opslimit, memlimit)` -/
def needsRehash (s : Str) (opslimit memlimit : Nat) : Outcome Bool :=
  match parse s with
  | .ok r => .ok (decide (some (opslimit % 2^32) ≠ r.t ∨ some ((memlimit / 1024) % 2^32) ≠ r.m))
  | .err => .err
  | .panic => .panic

/-- `crypto_pwhash_str_verify(s, password)`; `argon2 ty t m p pwd salt outlen` -/
def strVerify (argon2 : Nat → Nat → Nat → Nat → Bytes → Bytes → Nat → Outcome Bytes) (s : Str) (pwd : Bytes) : Outcome Unit :=
  match parse s with
  | .ok r =>
    match r.ty, r.t, r.m, r.p, r.salt, r.pwhash with
    | some ty, some t, some m, some p, some salt, some h =>
      match argon2 ty.num t m p pwd salt 32 with
      | .ok computed => if computed = h then .ok () else .err
      | .err => .err
      | .panic => .panic
    | _, _, _, _, _, _ => .panic
  | .err => .err
  | .panic => .panic

end DryocVerif.Model.PwhashStr
