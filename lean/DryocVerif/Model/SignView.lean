import DryocVerif.Model.ArrayView
import DryocVerif.Model.Sign
/-
Code-shaped models of the SIGNING side of the Ed25519 API where the Rust can panic and `Model/Sign.lean` is
totalised.

* /repo/src/sign.rs  `SigningKeyPair::sign`, `sign_with_defaults`, `IncrementalSigner::finalize`: the secret key is
  taken through `ByteArray<64>::as_array` (`self.secret_key.as_array()`, `secret_key.as_array()`).  For `Vec<u8>`,
  `&[u8]`, `[u8]` (all `ByteArray<64>`, `Model/ArrayView.lean`) that is `assert!(len >= 64)` followed by a view of
  the FIRST 64 bytes: a shorter key PANICS, a longer one is silently truncated.  The signature buffer is
  `Signature::new_byte_array()` (exactly 64 bytes for every `NewByteArray<64>`, `vec![0u8; 64]` for `Vec<u8>`), so
  `signature.as_mut_array()` cannot fail; `crypto_sign_detached` returns `Ok` on every input (its only `Err` branch,
  `signature.len() != 64`, is dead on a `&mut [u8; 64]`).
* /repo/src/classic/crypto_sign.rs `crypto_sign` and /repo/src/classic/crypto_sign_ed25519.rs `crypto_sign_ed25519`:
  the combined mode.  BOTH functions start with the same test `signed_message.len() != message.len() + 64 → Err`;
  behind it `crypto_sign_ed25519` does `signed_message.split_at_mut(64)` (panics when the buffer is shorter than 64),
  `<&mut [u8; 64]>::try_from(sig).unwrap()` (cannot fail: `sig` has exactly 64 bytes after the split) and
  `sm.copy_from_slice(message)` (panics unless `sm.len() == message.len()`).  `Model.Sign.signCombined` keeps only
  the test; here the guarded statements are written out, and each copy of the test can be switched off.

Core only (no Mathlib).
-/
namespace DryocVerif.Model.SignView
open DryocVerif DryocVerif.Model.ArrayView

/-- `SigningKeyPair::sign(message)` / `sign_with_defaults(message)`:
`crypto_sign_detached(signature.as_mut_array(), message.as_slice(), self.secret_key.as_array())?`;
the result is the `signature` field of the returned `SignedMessage` (its `message` field is the argument, moved).
`.panic` = the failed `assert!` of `as_array` on a container shorter than 64 bytes. -/
def objSign (H : Bytes → Bytes) (msg sk : Bytes) : Outcome Bytes :=
  match asArray 64 sk with
  | .ok k => .ok (Model.Sign.signDetached H msg k false)
  | .err => .err
  | .panic => .panic

/-- `IncrementalSigner::new(); update(c)…; finalize(secret_key)`:
`crypto_sign_final_create(self.state, signature.as_mut_array(), secret_key.as_array())?` (Ed25519ph) -/
def objSignIncremental (H : Bytes → Bytes) (chunks : List Bytes) (sk : Bytes) : Outcome Bytes :=
  match asArray 64 sk with
  | .ok k => .ok (Model.Sign.signPh H chunks k)
  | .err => .err
  | .panic => .panic

/-- `SigningKeyPair::from_secret_key(secret_key)`: `seed.copy_from_slice(&secret_key.as_slice()[..32])`, then
`from_seed(&seed)` — the slice index panics on a container shorter than 32 bytes; everything after the first 32
bytes of the given key is IGNORED (the key pair is re-derived from the seed) -/
def objFromSecretKey (H : Bytes → Bytes) (sk : Bytes) : Outcome (Bytes × Bytes) :=
  if sk.length < 32 then .panic else .ok (Model.Sign.seedKeypair H (sk.take 32))

/-- `crypto_sign(signed_message, message, secret_key)` → `crypto_sign_ed25519(…)`, statement by statement.
`smLen = signed_message.len()`; `outer` / `inner` say whether the length test of `crypto_sign` / of
`crypto_sign_ed25519` is present (both are, in the source: `signCombinedRaw`). -/
def signCombinedRawWith (outer inner : Bool) (H : Bytes → Bytes) (smLen : Nat) (msg sk : Bytes) :
    Outcome Bytes :=
  -- crypto_sign: `if signed_message.len() != message.len() + CRYPTO_SIGN_BYTES { Err }`
  if outer && smLen != msg.length + 64 then .err
  -- crypto_sign_ed25519: the same test again
  else if inner && smLen != msg.length + 64 then .err
  -- `let (sig, sm) = signed_message.split_at_mut(64)`: panics when `mid > len`
  else if smLen < 64 then .panic
  -- `<&mut [u8; 64]>::try_from(sig).unwrap()`: `sig.len() == 64` after the split, never `Err`
  -- `sm.copy_from_slice(message)`: panics unless the lengths are equal; `sm.len() = smLen - 64`
  else if smLen - 64 != msg.length then .panic
  -- `crypto_sign_ed25519_detached(sig, message, secret_key)`: always `Ok`
  else .ok (Model.Sign.signDetached H msg sk false ++ msg)

/-- the source as it is: both copies of the test present -/
def signCombinedRaw (H : Bytes → Bytes) (smLen : Nat) (msg sk : Bytes) : Outcome Bytes :=
  signCombinedRawWith true true H smLen msg sk

end DryocVerif.Model.SignView
