import DryocVerif.Model.Argon2
import DryocVerif.Model.Blake2bBackend
/-
The part of `src/argon2.rs` that CALLS BLAKE2b, with the calls going through the models of dryoc's own
BLAKE2b code (`Model.Blake2b.initC / updateC / finalizeC / longhashC`, i.e. `State::init`, `State::update`,
`State::finalize` and `blake2b::longhash` of `src/blake2b/blake2b_{soft,simd}.rs`, over the compression function `C`
of the selected backend) instead of the stand-ins of `Model/Argon2.lean` (`Spec.Blake2b.hash` over the concatenated
input, and the independent re-implementation `Model.Argon2.longhash`).

* `initialHashChunks` / `initialHashCode` : `argon2_initial_hash`, one list element per `update` call, in the order
  of the Rust, the conditional `update`s (`if !x.is_empty()`) included;
* `fillFirstBlocksStepCode` / `fillFirstBlocksCode` : `argon2_fill_first_blocks`;
* `finalizeCode` : `argon2_finalize`;
* `argon2HashCode`, `cryptoPwhashCode` : `argon2_hash`, `crypto_pwhash` with those three in place of
  `initialHash`, `fillFirstBlocks`, `finalize`.  Everything that does not touch BLAKE2b (`memoryGeometry`,
  `validate`, `Instance.new`, `fillMemoryBlocks`, …) is the SAME definition as in `Model/Argon2.lean`.

Nothing in `Model/Argon2.lean` is changed (the driver keeps running it); `Proofs/Argon2Code.lean` proves that the
two agree.  Core Lean only.
-/
namespace DryocVerif.Model.Argon2
open DryocVerif

/-- `if !x.is_empty() { blake2b.update(x); }` : one `update` call, or none -/
def optUpdate (x : Bytes) : List Bytes := if x.isEmpty then [] else [x]

/-- the arguments of the successive `blake2b.update(…)` calls of `argon2_initial_hash`, exactly as the Rust issues
them: six 4-byte words, `len(pwd)`, `pwd` (skipped when empty), `len(salt)`, `salt` (skipped when empty), then for
`secret` and `ad`: `Some(x)` ⇒ `len(x)`, `x` (skipped when empty); `None` ⇒ the four bytes of `0u32`. -/
def initialHashChunks (ctxLanes outlen mCost tCost ty : Nat) (pwd salt : Bytes) (secret ad : Option Bytes) :
    List Bytes :=
  [store32 ctxLanes,                 -- context.lanes.to_le_bytes()
   store32 outlen,                   -- (context.output.len() as u32).to_le_bytes()
   store32 mCost,                    -- context.m_cost.to_le_bytes()
   store32 tCost,                    -- context.t_cost.to_le_bytes()
   store32 ARGON2_VERSION_NUMBER,    -- ARGON2_VERSION_NUMBER.to_le_bytes()
   store32 ty,                       -- (type_ as u32).to_le_bytes()
   store32 pwd.length]               -- (context.password.len() as u32).to_le_bytes()
  ++ optUpdate pwd
  ++ [store32 salt.length]
  ++ optUpdate salt
  ++ (match secret with
      | some s => [store32 s.length] ++ optUpdate s
      | none => [store32 0])
  ++ (match ad with
      | some a => [store32 a.length] ++ optUpdate a
      | none => [store32 0])

/-- `argon2_initial_hash` over the backend `C`: `State::init(64, None, None, None)?`, the `update`s of
`initialHashChunks`, `finalize(&mut blockhash[..64])?` into the zeroed 72-byte `blockhash`.
(`Model.Blake2b.hashChunksC C 64 none none none cs` is by definition `init`, `foldl update`, `finalize`.) -/
def initialHashCode (C : Model.Blake2b.Compress) (ctxLanes outlen mCost tCost ty : Nat) (pwd salt : Bytes)
    (secret ad : Option Bytes) : Outcome Bytes := do
  let digest ← Model.Blake2b.hashChunksC C ARGON2_PREHASH_DIGEST_LENGTH none none none
    (initialHashChunks ctxLanes outlen mCost tCost ty pwd salt secret ad)
  let blockhash := zeros ARGON2_PREHASH_SEED_LENGTH
  pure ((digest ++ blockhash.drop ARGON2_PREHASH_DIGEST_LENGTH).take ARGON2_PREHASH_SEED_LENGTH)

/-- loop body of `argon2_fill_first_blocks` with `blake2b::longhash` of backend `C` -/
def fillFirstBlocksStepCode (C : Model.Blake2b.Compress) (inst : Instance) (l : Nat) (st : Bytes × Array Block) :
    Outcome (Bytes × Array Block) := do
  let (blockhash, mem) := st
  let blockhash := copyInto blockhash ARGON2_PREHASH_DIGEST_LENGTH [0, 0, 0, 0]
  let blockhash := copyInto blockhash (ARGON2_PREHASH_DIGEST_LENGTH + 4) (store32 l)
  let blockhashBytes ← Model.Blake2b.longhashC C ARGON2_BLOCK_SIZE blockhash
  let i0 ← mulU32 l inst.laneLength
  let mem ← setBlock mem i0 (loadBlock blockhashBytes)
  let blockhash := copyInto blockhash ARGON2_PREHASH_DIGEST_LENGTH [1, 0, 0, 0]
  let blockhashBytes ← Model.Blake2b.longhashC C ARGON2_BLOCK_SIZE blockhash
  let i1 ← mulU32 l inst.laneLength
  let i1 ← addU32 i1 1
  let mem ← setBlock mem i1 (loadBlock blockhashBytes)
  pure (blockhash, mem)

def fillFirstBlocksCode (C : Model.Blake2b.Compress) (blockhash : Bytes) (inst : Instance) (mem : Array Block) :
    Outcome (Array Block) := do
  let st ← forLoop 0 inst.lanes (fillFirstBlocksStepCode C inst) (blockhash, mem)
  pure st.2

/-- `argon2_finalize` with `blake2b::longhash` of backend `C` -/
def finalizeCode (C : Model.Blake2b.Compress) (outlen : Nat) (inst : Instance) (mem : Array Block) : Outcome Bytes := do
  let blockhash ← getBlock mem ((inst.laneLength + U32 - 1) % U32)
  let blockhash ← forLoop 1 inst.lanes (finalizeStep inst mem) (copyBlock blockhash)
  Model.Blake2b.longhashC C outlen (storeBlock blockhash)

/-- `argon2_hash` with every BLAKE2b call going through dryoc's BLAKE2b code of backend `C` -/
def argon2HashCode (C : Model.Blake2b.Compress) (ty : Nat) (t m p : Nat) (pwd salt : Bytes)
    (secret ad : Option Bytes) (outlen : Nat) : Outcome Bytes := do
  let geom ← memoryGeometry m p
  let (memoryBlocks, segmentLength) := geom
  validate outlen pwd.length salt.length (secret.map List.length) (ad.map List.length) t m p
  let inst ← Instance.new memoryBlocks segmentLength ty t p
  let pseudoRands : Array UInt64 := Array.replicate inst.segmentLength 0
  let mem : Array Block := Array.replicate inst.memoryBlocks zeroBlock
  let blockhash ← initialHashCode C p outlen m t ty pwd salt secret ad      -- argon2_initial_hash(&context, type_)?
  let mem ← fillFirstBlocksCode C blockhash inst mem
  let st ← forLoop 0 inst.passes (fillMemoryBlocks inst) (mem, pseudoRands)
  finalizeCode C outlen inst st.1

/-- `crypto_pwhash` over `argon2HashCode C` -/
def cryptoPwhashCode (C : Model.Blake2b.Compress) (outlen : Nat) (pwd salt : Bytes) (opslimit memlimit : Nat)
    (alg : Nat) : Outcome Bytes := do
  let ty ← (if alg = CRYPTO_PWHASH_ALG_ARGON2I13 then pure Argon2i
            else if alg = CRYPTO_PWHASH_ALG_ARGON2ID13 then pure Argon2id
            else Outcome.panic)
  validateRange CRYPTO_PWHASH_OPSLIMIT_MIN CRYPTO_PWHASH_OPSLIMIT_MAX opslimit
  validateRange CRYPTO_PWHASH_MEMLIMIT_MIN CRYPTO_PWHASH_MEMLIMIT_MAX memlimit
  let (tCost, mCost) := convertCosts opslimit memlimit
  argon2HashCode C ty tCost mCost 1 pwd salt none none outlen

end DryocVerif.Model.Argon2
