import DryocVerif.Model.Protected
/-
BYTE ACCESSES AGAINST THE PAGE TABLE.

In `Model/Protected.lean` a fault (`Res.segv`) is produced by the three probe tokens only; the byte-touching
primitives of the real operations (`zeroizeV`, `fillV`, `writeV`, `setV`, `vecClone`, `vecResize`, the wipe of
`dealloc`) transform buffers and never consult `Kernel.perm`.  This file adds the missing half: for every operation
of the model a Boolean `…Ok` that says "every byte access this operation performs lands on a page with sufficient
permission AT THE MOMENT OF THE ACCESS" — reads need `r` or `rw`, writes need `rw`.  `false` = the real process dies
of SIGSEGV inside that operation.  The functions mirror the structure of the operations they describe, one for
one (same `let`s, same branches, same intermediate machines); the pages of an access to the bytes `[lo, hi)` of a
region whose fore guard page is `base` are `base + 1 + lo / P … base + pagesOf P hi` (`touchOk`).

`stepTouchesOk c s t` is the predicate for one harness token; for the probe tokens it is "the probe did not answer
`segv`".  Theorems: `Proofs/ProtectedTouch.lean`, `C14.step_no_segv`.

What counts as an access (Rust, `protected.rs` / `alloc`):
* `deallocate`: `region.zeroize()` over `layout.size()` bytes (after `mprotect_readwrite(region)`); when the model's
  `Cfg.wipe` is off (counter-model of C15) only the release observer's read remains;
* `Vec::resize` growing in place: writes `[len, n)`; reallocating (`Allocator::grow`): reads the OLD allocation
  (`cap` bytes), writes them to the new block, frees the old block, then writes `[len, n)` of the new one;
* `Vec::clone` (`to_vec_in`): reads `[0, len)` of the source, writes the copy;
* `zeroize` / `fill` / `copy_from_slice` / `copy_randombytes` / `arr[idx] = elem`: writes;
* `Protected::zeroize` (= `Drop`): the wipe of `[0, len)` after the conditional `mprotect_readwrite`;
* `resize` of a `Locked` region and `Clone for Locked…`: read of the old / source region, write of the new one;
* `mlock`, `munlock`, `mprotect`, `madvise`, `posix_memalign`, `free` access no user byte (a `PROT_NONE` page
  makes `mlock` FAIL, which the kernel model has: `mlockK`).
-/
namespace DryocVerif.Model.Protected

/-- does a page with permission `p` allow a write (`w = true`) / a read (`w = false`)? -/
def permAllows (w : Bool) : Perm → Bool
  | .rw => true
  | .r => !w
  | .none => false

/-- every page holding a byte of `[lo, hi)` of the block whose fore guard page is `base` allows the access
(`true` for an empty range: no byte is touched) -/
def touchOk (P : Nat) (k : Kernel) (base lo hi : Nat) (w : Bool) : Bool :=
  if hi ≤ lo then true
  else (List.range (pagesOf P hi - lo / P)).all fun d => permAllows w (k.perm (base + 1 + lo / P + d))

/-- a write to the first `n` bytes of `v` -/
def writeOk (c : Cfg) (m : Mach) (v : PVec) (n : Nat) : Bool := touchOk c.P m.k v.base 0 n true

/-- a read of the first `n` bytes of `v` -/
def readOk (c : Cfg) (m : Mach) (v : PVec) (n : Nat) : Bool := touchOk c.P m.k v.base 0 n false

/-! ## allocator and `Vec` -/

/-- `deallocate`: the wipe (`region.zeroize()`; a read by the release observer when `c.wipe` is off) happens after
`mprotect_readwrite(region)` and before the guard pages are re-opened -/
def deallocOk (c : Cfg) (m : Mach) (v : PVec) : Bool :=
  let k1 := mprotect c.P m.k (ptr c v) v.cap .rw
  touchOk c.P k1 v.base 0 v.cap c.wipe

def vecDropOk (c : Cfg) (m : Mach) (v : PVec) : Bool :=
  if v.cap = 0 then true else deallocOk c m v

def vecResizeOk (c : Cfg) (m : Mach) (v : PVec) (n : Nat) : Bool :=
  if n ≤ v.len then true                                           -- `truncate`: no byte is touched
  else if n ≤ v.cap then touchOk c.P m.k v.base v.len n true       -- the new bytes, in place
  else
    let ncap := growCap v.cap n
    let r := alloc c m ncap
    -- `Allocator::grow`: copy the old allocation into the new block, free the old one; then the new bytes
    touchOk c.P r.1.k v.base 0 v.cap false && touchOk c.P r.1.k r.2 0 v.cap true &&
    vecDropOk c r.1 v && touchOk c.P (vecDrop c r.1 v).k r.2 v.len n true

def vecCloneOk (c : Cfg) (m : Mach) (v : PVec) : Bool :=
  if v.len = 0 then true
  else
    let r := alloc c m v.len
    touchOk c.P r.1.k v.base 0 v.len false && touchOk c.P r.1.k r.2 0 v.len true

def newBytesOk (c : Cfg) (m : Mach) : Bool :=
  if c.isArr then vecResizeOk c m PVec.empty c.n else true

/-! ## drops -/

/-- `Drop for HeapBytes/HeapByteArray`: the derived `zeroize` of the `len` bytes, then `Vec`'s drop -/
def plainDropOk (c : Cfg) (m : Mach) (v : PVec) : Bool :=
  writeOk c m v v.len && vecDropOk c m (zeroizeV v)

/-- `Zeroize for Protected`: `d.a.zeroize()` runs in the machine `protAtWipe` (after the conditional
`mprotect_readwrite`, which consults the RECORDED protect mode `pm`) -/
def protZeroizeOk (c : Cfg) (m : Mach) (v : PVec) (pm : PM) : Bool :=
  writeOk c (protAtWipe c m v pm) v v.len

def protDropOk (c : Cfg) (m : Mach) (v : PVec) (lm : LM) (pm : PM) : Bool :=
  let r := protZeroize c m v lm pm
  protZeroizeOk c m v pm && plainDropOk c r.1 r.2

def objDropOk (c : Cfg) (m : Mach) (o : Obj) : Bool :=
  match o.st with
  | .plain => plainDropOk c m o.v
  | .prot _ _ => protDropOk c m o.v o.rcd.1 o.rcd.2

/-! ## lock, resize of a locked region -/

/-- `mlock()`: the system calls touch no byte; on failure the consumed region is dropped -/
def lockVOk (c : Cfg) (m : Mach) (v : PVec) (rec : LM × PM) : Bool :=
  let r := dryocMlock c m (ptr c v) v.len
  if r.2 then true else protDropOk c r.1 v rec.1 rec.2

def lockedResizeOk (c : Cfg) (m : Mach) (v : PVec) (rec : LM × PM) (n : Nat) (b : UInt8 := 0) : Bool :=
  let r := vecResize c m PVec.empty n b
  let l := lockV c r.1 r.2 recNew
  vecResizeOk c m PVec.empty n && lockVOk c r.1 r.2 recNew &&
  (if l.2 then
    -- `locked…[..len_to_copy].copy_from_slice(&d.a.as_slice()[..len_to_copy])`, then the old region is dropped
    touchOk c.P l.1.k v.base 0 (min n v.len) false && touchOk c.P l.1.k r.2.base 0 (min n v.len) true &&
    protDropOk c l.1 v rec.1 rec.2
   else true)

/-! ## harness tokens -/

/-- the analogue of `withLive`: nothing is touched on a missing / consumed slot -/
def liveOk (s : State) (i : Nat) (f : Slot → Bool) : Bool :=
  match s.slots[i]? with
  | none => true
  | some sl => sl.gone || f sl

def doNewLockedOk (c : Cfg) (m : Mach) (v : PVec) (src : Option Bytes) (rnd : Bool) : Bool :=
  let r := lockV c m v recNew
  lockVOk c m v recNew &&
  (if r.2 then
    (match src with
      | some b => writeOk c r.1 v b.length          -- `res.as_mut_slice().copy_from_slice(src)`
      | none => true) &&
    (if rnd then writeOk c r.1 v v.len else true)   -- `copy_randombytes(res.as_mut_slice())`
   else true)

def doCloneLockedOk (c : Cfg) (m : Mach) (src : PVec) : Bool :=
  let r := lockedResize c m PVec.empty (.locked, .rw) src.len
  lockedResizeOk c m PVec.empty (.locked, .rw) src.len &&
  (match r.2 with
    | none => true
    -- `cloned.as_mut_slice().copy_from_slice(self.as_slice())`
    | some nv => readOk c r.1 src src.len && writeOk c r.1 nv src.len)

def doFromSliceOk (c : Cfg) (s : State) (n : Nat) : Bool :=
  if c.isArr then
    if n ≠ c.n then true
    else
      let r := newBytes c s.m
      newBytesOk c s.m && doNewLockedOk c r.1 r.2 (some (List.replicate n 0x5a)) false
  else
    let r := vecResize c s.m PVec.empty n
    vecResizeOk c s.m PVec.empty n && doNewLockedOk c r.1 r.2 (some (List.replicate n 0x5a)) false

def opNewOk (c : Cfg) (s : State) : Bool :=
  let r := newBytes c s.m
  newBytesOk c s.m &&
  (if r.2.len = c.n then true
   else if c.isArr then plainDropOk c r.1 r.2
   else vecResizeOk c r.1 r.2 c.n)

/-- `fill` is offered on bare containers and read-write regions only -/
def opFillOk (c : Cfg) (s : State) (i : Nat) : Bool :=
  liveOk s i fun sl =>
    match sl.o.st with
    | .plain | .prot _ .rw => writeOk c s.m sl.o.v sl.o.v.len
    | _ => true

def opLockOk (c : Cfg) (s : State) (i : Nat) : Bool :=
  liveOk s i fun sl =>
    match sl.o.st with
    | .plain => lockVOk c s.m sl.o.v recNew
    | .prot .unlocked _ => lockVOk c s.m sl.o.v sl.o.rcd
    | .prot .locked _ => true

/-- `clone` reads the source: no `Clone` for `NoAccess` regions -/
def opCloneOk (c : Cfg) (s : State) (i : Nat) : Bool :=
  liveOk s i fun sl =>
    match sl.o.st with
    | .plain | .prot .unlocked .rw | .prot .unlocked .ro => vecCloneOk c s.m sl.o.v
    | .prot .locked .rw | .prot .locked .ro => if c.isArr then true else doCloneLockedOk c s.m sl.o.v
    | .prot _ .na => true

def opResizeOk (c : Cfg) (s : State) (i : Nat) (n : Nat) (b : UInt8 := 0) : Bool :=
  liveOk s i fun sl =>
    if c.isArr then true else
    match sl.o.st with
    | .plain | .prot .unlocked .rw => vecResizeOk c s.m sl.o.v n
    | .prot .locked .rw => lockedResizeOk c s.m sl.o.v sl.o.rcd n b
    | _ => true

def opDropOk (c : Cfg) (s : State) (i : Nat) : Bool :=
  liveOk s i fun sl => objDropOk c s.m sl.o

def opNewLockedOk (c : Cfg) (s : State) (rnd : Bool) : Bool :=
  let r := newBytes c s.m
  newBytesOk c s.m && doNewLockedOk c r.1 r.2 none rnd

def opZeroizeOk (c : Cfg) (s : State) (i : Nat) : Bool :=
  liveOk s i fun sl =>
    match sl.o.st with
    | .plain => writeOk c s.m sl.o.v sl.o.v.len
    | .prot _ _ => protZeroizeOk c s.m sl.o.v sl.o.rcd.2

def cloneObjOk (c : Cfg) (m : Mach) (o : Obj) : Bool :=
  match o.st with
  | .plain | .prot .unlocked .rw | .prot .unlocked .ro => vecCloneOk c m o.v
  | .prot .locked .rw | .prot .locked .ro => if c.isArr then true else doCloneLockedOk c m o.v
  | .prot _ .na => true

def opCloneFromOk (c : Cfg) (s : State) (i j : Nat) : Bool :=
  if j = i then true else
  match s.slots[i]?, s.slots[j]? with
  | some d, some src =>
    if d.gone || src.gone || decide (d.o.st ≠ src.o.st) then true else
    if isLockedSt src.o.st then
      cloneObjOk c s.m src.o &&
      (match cloneObj c s.m src.o with
        | none => true
        | some (_, none) => true
        | some (m1, some tmp) =>
          cloneObjOk c m1 src.o &&
          (match cloneObj c m1 src.o with
            | none => objDropOk c m1 tmp
            | some (m2, none) => objDropOk c m2 tmp
            | some (m2, some _) => objDropOk c m2 d.o && objDropOk c (objDrop c m2 d.o) tmp))
    else
      cloneObjOk c s.m src.o &&
      (match cloneObj c s.m src.o with
        | none => true
        | some (_, none) => true
        | some (m1, some _) => objDropOk c m1 d.o)
  | _, _ => true

def opStackLockOk (c : Cfg) (s : State) : Bool :=
  if c.isArr then
    let r := newBytes c s.m
    -- `r.copy_from_slice(s.as_slice())` on the fresh heap array, before it is wrapped and locked
    newBytesOk c s.m && writeOk c r.1 r.2 c.n &&
    doNewLockedOk c r.1 (writeV r.2 (List.replicate c.n 0x5a)) none false
  else true

def seqFillOk (c : Cfg) (b : UInt8) : Nat → Mach × PVec → Bool
  | 0, _ => true
  | k + 1, r =>
    let r1 := vecResize c r.1 r.2 (r.2.len + 1)
    vecResizeOk c r.1 r.2 (r.2.len + 1) && touchOk c.P r1.1.k r1.2.base r.2.len (r.2.len + 1) true &&
    seqFillOk c b k (r1.1, setV r1.2 r.2.len b)

def doSerdeArrJsonOk (c : Cfg) (s : State) (n : Nat) : Bool :=
  let r := newBytes c s.m
  let l := lockV c r.1 r.2 recNew
  newBytesOk c s.m && lockVOk c r.1 r.2 recNew &&
  (if l.2 then
    let v1 := writeV r.2 (List.replicate (min n c.n) 0x5a)
    writeOk c l.1 r.2 (min n c.n) && (if n = c.n then true else protDropOk c l.1 v1 .locked .rw)
   else true)

def opSerdeOk (c : Cfg) (s : State) (json : Bool) (n : Nat) : Bool :=
  if json then
    if c.isArr then doSerdeArrJsonOk c s n
    else
      let r := seqFill c 0x5a n (s.m, PVec.empty)
      seqFillOk c 0x5a n (s.m, PVec.empty) && doNewLockedOk c r.1 r.2 none false
  else doFromSliceOk c s n

/-- every byte access of `stepCore c s t` lands on a page with sufficient permission (probe tokens: the probe does
not fault).  `unlock`, `ro`, `rw`, `na`, `failfrom`, `wrap` touch no byte. -/
def stepCoreTouchesOk (c : Cfg) (s : State) (t : Tok) : Bool :=
  let i := t.idx
  match t.op with
  | .new => opNewOk c s
  | .wrap | .bad | .failfrom _ | .unlock | .ro | .rw | .na => true
  | .fill _ => opFillOk c s i
  | .lock => opLockOk c s i
  | .clone => opCloneOk c s i
  | .resize n b => opResizeOk c s i n b
  | .drop | .panicdrop => opDropOk c s i
  | .fsl n | .fsro n => doFromSliceOk c s n
  | .newlocked | .newrolocked => opNewLockedOk c s false
  | .genlocked | .genrolocked => opNewLockedOk c s true
  | .wprobe off => (opWProbe c s i off).1 != .segv
  | .rprobe off => (opRProbe c s i off).1 != .segv
  | .gprobe fore => (opGProbe c s i fore).1 != .segv
  | .zeroize => opZeroizeOk c s i
  | .clonefrom j => opCloneFromOk c s i j
  | .stacklock => opStackLockOk c s
  | .serde json n => opSerdeOk c s json n

/-- **no byte access of the token `t`, run in state `s`, faults** -/
def stepTouchesOk (c : Cfg) (s : State) (t : Tok) : Bool := stepCoreTouchesOk c (resetRel s) t

/-- the final teardown touches only writable pages -/
def dropAllOk (c : Cfg) (m : Mach) : List Slot → Bool
  | [] => true
  | sl :: rest =>
    (if sl.gone then true else objDropOk c m sl.o) && dropAllOk c (if sl.gone then m else objDrop c m sl.o) rest

def finishOk (c : Cfg) (s : State) : Bool := dropAllOk c { s.m with rel := [] } s.slots

def isProbe : Op → Bool
  | .wprobe _ | .rprobe _ | .gprobe _ => true
  | _ => false

end DryocVerif.Model.Protected
