import DryocVerif.Model.SecretStream
import DryocVerif.Model.RawOps
/-
Code-shaped models of `crypto_secretstream_xchacha20poly1305_pull` and `…_push`
(/repo/src/classic/crypto_secretstream_xchacha20poly1305.rs) and of `DryocStream::pull` / `DryocStream::push`
(/repo/src/dryocstream.rs): the Rust statements in source order, every operation that can panic
written as a checked operation of `Model.Raw` (its failing branch is `Outcome.panic`).

`Model.SecretStream.pull` / `push` (the models the driver runs and all functional theorems are about) use
total list operations and truncated subtraction; `Proofs/RawExtra.lean` and `Proofs/StreamPushRawExtra.lean`
prove that the two agree for every input the length guards let through, i.e. that none of the `panic` branches
below is reachable — from the guards that precede them, not by construction.

E16 (fixed).  The ChaCha20 crate hands out `u32::MAX − 2` blocks after `seek(128)`, i.e.
`STREAM_BODY_MAX = 64·(2^32 − 3)` bytes.  The source used to compare with `MESSAGEBYTES_MAX = 64·(2^32 − 2)`
(`push`: `message.len()`, `pull`: `ciphertext.len()`), one block too generous, and the last `apply_keystream`
panicked for inputs within 64 bytes of `MESSAGEBYTES_MAX` (demonstrated on the real code).  The current source
compares `message.len()` / `ciphertext.len() − ABYTES` with `KEYSTREAM_MESSAGEBYTES_MAX = MESSAGEBYTES_MAX − 64
= STREAM_BODY_MAX`; that is what `pushRaw` / `pullRaw` / `objPushRaw` / `objPullCode` below carry.  The
`…Old16` functions are the code before that fix and DO panic (`pullRawOld16_panics_near_max`,
`pushRawOld16_panics_near_max`).  The `…Old` / `…NoGuard` variants are the (otherwise current) code before the
fixes E5 (length guard) and "pull keeps undefined tag bits" (`Tag::from_bits(..).expect`) and DO panic too.

Fixed-size arrays (`state.k : [u8; 32]`, `state.nonce : [u8; 12]`, `block : [u8; 64]`) indexed by
constants are not given panic branches: those bounds are checked by the Rust compiler.  The state update
after a message has been accepted (`xor_buf`, `increment_bytes`, `rekey`: fixed-size arrays only; the 40-byte
key-stream request of `rekey` starts at block 0 of a fresh cipher and cannot fail) is the existing `advance`.
-/
namespace DryocVerif.Model.SecretStream
open DryocVerif DryocVerif.Model.Utils DryocVerif.Model.Raw
open scoped DryocVerif.Model.Raw

/-- `CRYPTO_SECRETSTREAM_XCHACHA20POLY1305_MESSAGEBYTES_MAX`
`= min(SODIUM_SIZE_MAX - ABYTES, 64 * (2^32 - 2))` on a 64-bit target -/
def MESSAGEBYTES_MAX_RAW : Nat := 64 * (2 ^ 32 - 2)

/-- ChaCha20-IETF has a 32-bit block counter: the whole key stream is 2^32 blocks of 64 bytes.  NOT the limit
the crate enforces (see `keystream`); kept for reference only. -/
def KEYSTREAM_MAX : Nat := 64 * 2 ^ 32

/-- `u32::MAX` -/
def U32_MAX : Nat := 2 ^ 32 - 1

/-- the longest message body whose key stream (taken after `cipher.seek(128)`, i.e. from block 2) the crate
hands out: `remaining_blocks = u32::MAX - 2` blocks, `64 · (2^32 − 3)` bytes.  This is 64 bytes LESS than
`MESSAGEBYTES_MAX_RAW = 64 · (2^32 − 2)`, the bound the dryoc source checked before fix E16, and it is the value
of the source's `KEYSTREAM_MESSAGEBYTES_MAX = MESSAGEBYTES_MAX − 64`, the bound it checks now
(`Proofs.SecretStream.KEYSTREAM_MESSAGEBYTES_MAX_eq`, `Proofs.GenStream.constants_eq`). -/
def STREAM_BODY_MAX : Nat := 64 * (2 ^ 32 - 3)

/-- the length guard of `push` in front of the key-stream requests.  `fix16 = true` is the current source,
`if message.len() > KEYSTREAM_MESSAGEBYTES_MAX { return Err }`; `false` is the source before fix E16,
`if message.len() > CRYPTO_SECRETSTREAM_XCHACHA20POLY1305_MESSAGEBYTES_MAX { return Err }` -/
def pushMaxGuard (fix16 : Bool) (msgLen : Nat) : Outcome Unit :=
  if fix16 then errIf (msgLen > STREAM_BODY_MAX) else errIf (msgLen > MESSAGEBYTES_MAX_RAW)

/-- the third length guard of `pull`.  `fix16 = true` is the current source,
`if ciphertext.len() - ABYTES > KEYSTREAM_MESSAGEBYTES_MAX { return Err }` (the subtraction is a checked
operation like any other); `false` is the source before fix E16,
`if ciphertext.len() > CRYPTO_SECRETSTREAM_XCHACHA20POLY1305_MESSAGEBYTES_MAX { return Err }` -/
def pullMaxGuard (fix16 : Bool) (ctLen : Nat) : Outcome Unit :=
  if fix16 then do
    let n ← checkedSub ctLen ABYTES
    errIf (n > STREAM_BODY_MAX)
  else errIf (ctLen > MESSAGEBYTES_MAX_RAW)

/-- `cipher.seek(pos); cipher.apply_keystream(&mut buf)` with `buf.len() = len`, for a block-aligned `pos`
(all call sites: a fresh cipher, `seek(64)`, `seek(128)` — `try_seek` then sets the core's block counter to
`pos / 64` and the wrapper's byte position to 0): the key-stream bytes XORed into `buf`.
`apply_keystream` is `try_apply_keystream(..).unwrap()`, and `try_apply_keystream_inout` starts with
`self.check_remaining(data.len())?` (crate `cipher` 0.4.4), where for ChaCha20 0.9.1
`remaining_blocks() = u32::MAX - block_pos` — NOT `2^32 - block_pos`: the last block of the 2^32-block
key stream is never handed out.  So the call panics iff `ceil(len / 64) > 2^32 − 1 − pos / 64`. -/
def keystream (P : Prims) (s : State) (pos len : Nat) : Outcome Bytes := do
  checkRemaining (U32_MAX - pos / 64) 0 len
  pure (P.chacha s.k s.nonce (pos / 64) len)

/-- the 16-byte `size_data` block:
`size_data[..8].copy_from_slice(&adlen.to_le_bytes()); size_data[8..16].copy_from_slice(&total.to_le_bytes())` -/
def sizeDataRaw (adLen total : Nat) : Outcome Bytes := do
  let sizeData := zeros 16
  let d ← sliceTo sizeData 8
  let d ← copyFromSlice d (toLE 8 adLen)
  let sizeData := d ++ sizeData.drop 8
  let d ← slice sizeData 8 16
  let d ← copyFromSlice d (toLE 8 total)
  pure (sizeData.take 8 ++ d ++ sizeData.drop 16)

/-- `block[0] = ciphertext[0]; cipher.seek(64); cipher.apply_keystream(&mut block);
let decrypted_tag = block[0]; block[0] = ciphertext[0]` → `(decrypted_tag, block)` -/
def tagBlockRaw (P : Prims) (s : State) (ct : Bytes) : Outcome (UInt8 × Bytes) := do
  let c0 ← index ct 0
  let block := c0 :: zeros 63
  let ks ← keystream P s 64 64
  let dec := xorBytes block ks
  let decryptedTag := dec.headD 0
  let c0 ← index ct 0
  pure (decryptedTag, c0 :: dec.drop 1)

/-- body of `crypto_secretstream_xchacha20poly1305_pull(state, message, tag, ciphertext, ad)`.
`lengthGuard = true` is the current source; `false` is the source before fix E5 (no
`ciphertext.len() < ABYTES` check in front of `ciphertext.len() - ABYTES`).
`fix16 = true` is the current source; `false` is the source before fix E16 (third guard, see `pullMaxGuard`).
`.err` = an early `return Err(..)`: all of them come before the first write to `message`, `tag` or
`state`. -/
def pullRawBodyWith (lengthGuard fix16 : Bool) (P : Prims) (s : State) (m : Bytes) (ct ad : Bytes) :
    Outcome Pulled := do
  let pad0 := zeros 16
  errIfWhen lengthGuard (ct.length < ABYTES)
  -- `if message.len() < ciphertext.len() - ABYTES { return Err }`
  let need ← checkedSub ct.length ABYTES
  errIf (m.length < need)
  -- `if ciphertext.len() - ABYTES > KEYSTREAM_MESSAGEBYTES_MAX { return Err }`
  pullMaxGuard fix16 ct.length
  -- `cipher.apply_keystream(&mut mac_key)` (mac_key = 32 zero bytes); `Poly1305::new(&mac_key)`
  let macKey ← keystream P s 0 32
  -- `mac.update(associated_data); mac.update(&_pad0[..pad16(associated_data.len())])`
  let u1 := ad
  let u2 ← sliceTo pad0 (pad16 ad.length)
  -- the tag block; `mac.update(&block)`
  let tb ← tagBlockRaw P s ct
  let decryptedTag := tb.1
  let u3 := tb.2
  -- `let mlen = ciphertext.len() - ABYTES`
  let mlen ← checkedSub ct.length ABYTES
  -- `((0x10 - block.len() as i64 + mlen as i64) & 0xf) as usize`
  let t ← checkedAddI64 (0x10 - 64) (asI64 mlen)
  let bufferMacPad := (t % 16).toNat
  -- `mac.update(&ciphertext[1..1 + mlen]); mac.update(&_pad0[..buffer_mac_pad])`
  let e ← checkedAdd 1 mlen
  let u4 ← slice ct 1 e
  let u5 ← sliceTo pad0 bufferMacPad
  -- `size_data`, with `block.len() + mlen`; `mac.update(&size_data); mac.finalize_to_array()`
  let total ← checkedAdd 64 mlen
  let u6 ← sizeDataRaw ad.length total
  let mac := P.mac macKey (u1 ++ u2 ++ u3 ++ u4 ++ u5 ++ u6)
  -- `if ciphertext[1 + mlen..].ct_eq(&mac) == 0 { return Err }`
  let e ← checkedAdd 1 mlen
  let received ← sliceFrom ct e
  errIf (received ≠ mac)
  -- `*tag = decrypted_tag; message[..mlen].copy_from_slice(&ciphertext[1..1 + mlen])`
  let dst ← sliceTo m mlen
  let e ← checkedAdd 1 mlen
  let src ← slice ct 1 e
  let dst ← copyFromSlice dst src
  -- `cipher.seek(128); cipher.apply_keystream(&mut message[..mlen])`
  let dst' ← sliceTo m mlen
  let ks ← keystream P s 128 dst'.length
  let dst := xorBytes dst ks
  -- state update, `Ok(mlen)`
  pure ⟨.ok mlen, dst ++ m.drop mlen, decryptedTag, advance P s mac decryptedTag⟩

/-- the body of the current source (fix E16 in place) -/
def pullRawBody (lengthGuard : Bool) (P : Prims) (s : State) (m : Bytes) (ct ad : Bytes) : Outcome Pulled :=
  pullRawBodyWith lengthGuard true P s m ct ad

/-- counter-model: the body before fix E16 (third guard `ciphertext.len() > MESSAGEBYTES_MAX`) -/
def pullRawBodyOld16 (lengthGuard : Bool) (P : Prims) (s : State) (m : Bytes) (ct ad : Bytes) : Outcome Pulled :=
  pullRawBodyWith lengthGuard false P s m ct ad

/-- `Pulled` view of a body result: on `Err` and on panic nothing has been written -/
def pullRawWith (lengthGuard : Bool) (P : Prims) (s : State) (m : Bytes) (tagv : UInt8) (ct ad : Bytes) : Pulled :=
  match pullRawBody lengthGuard P s m ct ad with
  | .ok r => r
  | .err => ⟨.err, m, tagv, s⟩
  | .panic => ⟨.panic, m, tagv, s⟩

/-- the same view of the body before fix E16 -/
def pullRawWithOld16 (lengthGuard : Bool) (P : Prims) (s : State) (m : Bytes) (tagv : UInt8) (ct ad : Bytes) :
    Pulled :=
  match pullRawBodyOld16 lengthGuard P s m ct ad with
  | .ok r => r
  | .err => ⟨.err, m, tagv, s⟩
  | .panic => ⟨.panic, m, tagv, s⟩

/-- the classic `pull` as it is in the source -/
def pullRaw (P : Prims) (s : State) (m : Bytes) (tagv : UInt8) (ct ad : Bytes) : Pulled :=
  pullRawWith true P s m tagv ct ad

/-- counter-model: the classic `pull` before fix E5 -/
def pullRawOld (P : Prims) (s : State) (m : Bytes) (tagv : UInt8) (ct ad : Bytes) : Pulled :=
  pullRawWith false P s m tagv ct ad

/-- counter-model: the classic `pull` before fix E16 (pre-fix code: panics for 47 ciphertext lengths) -/
def pullRawOld16 (P : Prims) (s : State) (m : Bytes) (tagv : UInt8) (ct ad : Bytes) : Pulled :=
  pullRawWithOld16 true P s m tagv ct ad

/-! ### push, code-shaped -/

/-- `x[a..b] = new` for a range that has been checked with `slice x a b` -/
def writeSlice (x : Bytes) (a b : Nat) (new : Bytes) : Bytes := x.take a ++ new ++ x.drop b

/-- `mac.finalize(&mut out)` (/repo/src/poly1305/poly1305_soft.rs):
`output[0..8].copy_from_slice(&h0.to_le_bytes()); output[8..16].copy_from_slice(&h1.to_le_bytes())`,
the two 8-byte halves of the authenticator `mac`; the result is `out` afterwards -/
def finalizeInto (out mac : Bytes) : Outcome Bytes := do
  let lo ← slice out 0 8
  let lo ← copyFromSlice lo (mac.take 8)
  let hi ← slice out 8 16
  let hi ← copyFromSlice hi ((mac.drop 8).take 8)
  pure (lo ++ hi ++ out.drop 16)

/-- body of `crypto_secretstream_xchacha20poly1305_push(state, ciphertext, message, ad, tag)` in source
order; `ct` is the caller's ciphertext buffer, the result is its content and the state afterwards.
Both `return Err(..)` come before the first write.  `fix16 = true` is the current source; `false` is the
source before fix E16 (second guard, see `pushMaxGuard`). -/
def pushRawBodyWith (fix16 : Bool) (P : Prims) (s : State) (ct msg ad : Bytes) (tag : UInt8) :
    Outcome (Bytes × State) := do
  let pad0 := zeros 16
  -- `if ciphertext.len() != message.len() + ABYTES { return Err }`
  let need ← checkedAdd msg.length ABYTES
  errIf (ct.length ≠ need)
  -- `if message.len() > KEYSTREAM_MESSAGEBYTES_MAX { return Err }`
  pushMaxGuard fix16 msg.length
  -- `cipher.apply_keystream(&mut mac_key)`; `Poly1305::new(&mac_key)`
  let macKey ← keystream P s 0 32
  -- `mac.update(associated_data); mac.update(&_pad0[..pad16(associated_data.len())])`
  let u1 := ad
  let u2 ← sliceTo pad0 (pad16 ad.length)
  -- `block[0] = tag; cipher.seek(64); cipher.apply_keystream(&mut block); mac.update(&block)`
  let ks ← keystream P s 64 64
  let block := xorBytes (tag :: zeros 63) ks
  let u3 := block
  let mlen := msg.length
  -- `ciphertext[0] = block[0]`
  let ct ← setIndex ct 0 (block.headD 0)
  -- `ciphertext[1..(1 + mlen)].copy_from_slice(message)`
  let e ← checkedAdd 1 mlen
  let dst ← slice ct 1 e
  let dst ← copyFromSlice dst msg
  let ct := writeSlice ct 1 e dst
  -- `cipher.seek(128); cipher.apply_keystream(&mut ciphertext[1..(1 + mlen)])`
  let e ← checkedAdd 1 mlen
  let body ← slice ct 1 e
  let ks ← keystream P s 128 body.length
  let ct := writeSlice ct 1 e (xorBytes body ks)
  -- `size_data`, with `block.len() + mlen`
  let total ← checkedAdd 64 mlen
  let u6 ← sizeDataRaw ad.length total
  -- `mac.update(&ciphertext[1..(1 + mlen)])`
  let e ← checkedAdd 1 mlen
  let u4 ← slice ct 1 e
  -- `((0x10 - block.len() as i64 + mlen as i64) & 0xf) as usize`; `mac.update(&_pad0[0..buffer_mac_pad])`
  let t ← checkedAddI64 (0x10 - 64) (asI64 mlen)
  let bufferMacPad := (t % 16).toNat
  let u5 ← slice pad0 0 bufferMacPad
  -- `mac.update(&size_data); mac.finalize(&mut ciphertext[1 + mlen..])`
  let mac := P.mac macKey (u1 ++ u2 ++ u3 ++ u4 ++ u5 ++ u6)
  let e ← checkedAdd 1 mlen
  let out ← sliceFrom ct e
  let out ← finalizeInto out mac
  let ct := ct.take e ++ out
  -- `xor_buf(inonce, &ciphertext[1 + mlen..])`, counter increment, rekey: `advance`
  let e ← checkedAdd 1 mlen
  let written ← sliceFrom ct e
  pure (ct, advance P s written tag)

/-- the body of the current source (fix E16 in place) -/
def pushRawBody (P : Prims) (s : State) (ct msg ad : Bytes) (tag : UInt8) : Outcome (Bytes × State) :=
  pushRawBodyWith true P s ct msg ad tag

/-- counter-model: the body before fix E16 (second guard `message.len() > MESSAGEBYTES_MAX`) -/
def pushRawBodyOld16 (P : Prims) (s : State) (ct msg ad : Bytes) (tag : UInt8) : Outcome (Bytes × State) :=
  pushRawBodyWith false P s ct msg ad tag

/-- the classic `push` as it is in the source -/
def pushRaw (P : Prims) (s : State) (ct msg ad : Bytes) (tag : UInt8) : Outcome (Bytes × State) :=
  pushRawBody P s ct msg ad tag

/-- counter-model: the classic `push` before fix E16 (pre-fix code: panics for 64 message lengths) -/
def pushRawOld16 (P : Prims) (s : State) (ct msg ad : Bytes) (tag : UInt8) : Outcome (Bytes × State) :=
  pushRawBodyOld16 P s ct msg ad tag

/-- `DryocStream<Push>::push` in source order: `ciphertext.resize(message.len() + ABYTES, 0)`, the classic
`push` on `&mut self.state`, `?`, `Ok(ciphertext)` -/
def objPushRaw (P : Prims) (s : State) (msg ad : Bytes) (tag : UInt8) : Outcome (Bytes × State) := do
  let n ← checkedAdd msg.length ABYTES
  pushRaw P s (zeros n) msg ad tag

/-- counter-model: `DryocStream<Push>::push` over the classic `push` before fix E16 -/
def objPushRawOld16 (P : Prims) (s : State) (msg ad : Bytes) (tag : UInt8) : Outcome (Bytes × State) := do
  let n ← checkedAdd msg.length ABYTES
  pushRawOld16 P s (zeros n) msg ad tag

/-! ### object layer -/

/-- `Tag::from_bits(b)`: `None` when a bit outside `MESSAGE | PUSH | REKEY | FINAL = 0b11` is set -/
def tagFromBits (b : UInt8) : Option UInt8 := if b &&& 0xFC = 0 then some b else none

/-- `DryocStream<Pull>::pull` in source order.  `retain = true`: `Tag::from_bits_retain(tag)` (current
source, total); `retain = false`: `Tag::from_bits(tag).expect("invalid tag")` (before the fix "pull keeps undefined tag bits").
`lengthGuard` as above (fix E5 added the same guard here).  `pullFn` is the classic `pull` that is called
(the current one, or the one before fix E16 — `dryocstream.rs` itself did not change with E16).
The classic `pull` works on `&mut self.state` and the `?` returns early: the state afterwards is whatever the
classic function left (`r.st`), on every branch — nothing restores it.  (`pullRawWith` itself reports the
state it was given on `Err`, because every `return Err` of the classic function precedes its first write.) -/
def objPullRawGen (pullFn : State → Bytes → UInt8 → Bytes → Bytes → Pulled) (lengthGuard retain : Bool)
    (s : State) (ct ad : Bytes) : Outcome (Bytes × UInt8) × State :=
  if lengthGuard ∧ ct.length < ABYTES then (.err, s)
  else
    -- `message.resize(ciphertext.len() - ABYTES, 0)`
    match checkedSub ct.length ABYTES with
    | .ok n =>
      let r := pullFn s (zeros n) 0 ct ad
      match r.res with
      | .ok _ =>
        if retain then (.ok (r.buf, r.tag), r.st)
        else match unwrap (tagFromBits r.tag) with
          | .ok t => (.ok (r.buf, t), r.st)
          | .err => (.err, r.st)
          | .panic => (.panic, r.st)           -- the state has already advanced
      | .err => (.err, r.st)               -- `?`: whatever the classic `pull` left in `self.state`
      | .panic => (.panic, r.st)
    | .err => (.err, s)
    | .panic => (.panic, s)

/-- `DryocStream<Pull>::pull` over the classic `pull` of the current source (`pullRawWith lengthGuard`) -/
def objPullRawWith (lengthGuard retain : Bool) (P : Prims) (s : State) (ct ad : Bytes) :
    Outcome (Bytes × UInt8) × State :=
  objPullRawGen (pullRawWith lengthGuard P) lengthGuard retain s ct ad

def objPullCode (P : Prims) (s : State) (ct ad : Bytes) : Outcome (Bytes × UInt8) × State :=
  objPullRawWith true true P s ct ad

/-- counter-model: `DryocStream::pull` before the fix "pull keeps undefined tag bits" (`from_bits(..).expect`) -/
def objPullOld (P : Prims) (s : State) (ct ad : Bytes) : Outcome (Bytes × UInt8) × State :=
  objPullRawWith true false P s ct ad

/-- counter-model: `DryocStream::pull` before fix E5 (no length guard, here or in the classic function) -/
def objPullNoGuard (P : Prims) (s : State) (ct ad : Bytes) : Outcome (Bytes × UInt8) × State :=
  objPullRawWith false true P s ct ad

/-- counter-model: `DryocStream::pull` over the classic `pull` before fix E16 -/
def objPullCodeOld16 (P : Prims) (s : State) (ct ad : Bytes) : Outcome (Bytes × UInt8) × State :=
  objPullRawGen (pullRawWithOld16 true P) true true s ct ad

end DryocVerif.Model.SecretStream
