import DryocVerif.Model.SecretStream
import DryocVerif.Model.RawOps
/-
Code-shaped model of `crypto_secretstream_xchacha20poly1305_pull`
(/repo/src/classic/crypto_secretstream_xchacha20poly1305.rs) and `DryocStream::pull`
(/repo/src/dryocstream.rs): the Rust statements in source order, every operation that can panic
written as a checked operation of `Model.Raw` (its failing branch is `Outcome.panic`).

`Model.SecretStream.pull` (the model the driver runs and all functional theorems are about) uses
total list operations and truncated subtraction; `Proofs/RawExtra.lean` proves that the two agree,
i.e. that none of the `panic` branches below is reachable — from the guards that precede them, not by
construction.  The `…Old` variants are the code before the fixes E5 (length guard) and "pull keeps undefined tag bits"
(`Tag::from_bits(..).expect`) and DO panic.

Fixed-size arrays (`state.k : [u8; 32]`, `state.nonce : [u8; 12]`, `block : [u8; 64]`) indexed by
constants are not given panic branches: those bounds are checked by the Rust compiler.  The state update
after a message has been accepted (`xor_buf`, `increment_bytes`, `rekey`: fixed-size arrays only) is the
existing `advance`.
-/
namespace DryocVerif.Model.SecretStream
open DryocVerif DryocVerif.Model.Utils DryocVerif.Model.Raw
open scoped DryocVerif.Model.Raw

/-- `CRYPTO_SECRETSTREAM_XCHACHA20POLY1305_MESSAGEBYTES_MAX`
`= min(SODIUM_SIZE_MAX - ABYTES, 64 * (2^32 - 2))` on a 64-bit target -/
def MESSAGEBYTES_MAX_RAW : Nat := 64 * (2 ^ 32 - 2)

/-- ChaCha20-IETF has a 32-bit block counter: 2^32 blocks of 64 bytes -/
def KEYSTREAM_MAX : Nat := 64 * 2 ^ 32

/-- `cipher.seek(pos); cipher.apply_keystream(&mut buf)` with `buf.len() = len`: the key-stream bytes
XORed into `buf`.  `apply_keystream` is `try_apply_keystream(..).unwrap()`: it panics when the request
runs past the last block of the key stream. -/
def keystream (P : Prims) (s : State) (pos len : Nat) : Outcome Bytes :=
  if pos + len > KEYSTREAM_MAX then .panic else .ok (P.chacha s.k s.nonce (pos / 64) len)

/-- the 16-byte `size_data` block:
`size_data[..8].copy_from_slice(&adlen.to_le_bytes()); size_data[8..16].copy_from_slice(&total.to_le_bytes())` -/
def sizeDataRaw (adLen total : Nat) : Outcome Bytes := do
  let sizeData := zeros 16
  let d ← sliceTo sizeData 8
  let d ← copyFromSlice d (toLE 8 adLen)
  let sizeData := d ++ sizeData.drop 8
  let d ← slice sizeData 8 16
  let d ← copyFromSlice d (toLE 8 total)
  pure (sizeData.take 8 ++ d ++ sizeData.drop 16)

/-- `block[0] = ciphertext[0]; cipher.seek(64); cipher.apply_keystream(&mut block);
let decrypted_tag = block[0]; block[0] = ciphertext[0]` → `(decrypted_tag, block)` -/
def tagBlockRaw (P : Prims) (s : State) (ct : Bytes) : Outcome (UInt8 × Bytes) := do
  let c0 ← index ct 0
  let block := c0 :: zeros 63
  let ks ← keystream P s 64 64
  let dec := xorBytes block ks
  let decryptedTag := dec.headD 0
  let c0 ← index ct 0
  pure (decryptedTag, c0 :: dec.drop 1)

/-- body of `crypto_secretstream_xchacha20poly1305_pull(state, message, tag, ciphertext, ad)`.
`lengthGuard = true` is the current source; `false` is the source before fix E5 (no
`ciphertext.len() < ABYTES` check in front of `ciphertext.len() - ABYTES`).
`.err` = an early `return Err(..)`: all of them come before the first write to `message`, `tag` or
`state`. -/
def pullRawBody (lengthGuard : Bool) (P : Prims) (s : State) (m : Bytes) (ct ad : Bytes) :
    Outcome Pulled := do
  let pad0 := zeros 16
  errIfWhen lengthGuard (ct.length < ABYTES)
  -- `if message.len() < ciphertext.len() - ABYTES { return Err }`
  let need ← checkedSub ct.length ABYTES
  errIf (m.length < need)
  errIf (ct.length > MESSAGEBYTES_MAX_RAW)
  -- `cipher.apply_keystream(&mut mac_key)` (mac_key = 32 zero bytes); `Poly1305::new(&mac_key)`
  let macKey ← keystream P s 0 32
  -- `mac.update(associated_data); mac.update(&_pad0[..pad16(associated_data.len())])`
  let u1 := ad
  let u2 ← sliceTo pad0 (pad16 ad.length)
  -- the tag block; `mac.update(&block)`
  let tb ← tagBlockRaw P s ct
  let decryptedTag := tb.1
  let u3 := tb.2
  -- `let mlen = ciphertext.len() - ABYTES`
  let mlen ← checkedSub ct.length ABYTES
  -- `((0x10 - block.len() as i64 + mlen as i64) & 0xf) as usize`
  let t ← checkedAddI64 (0x10 - 64) (asI64 mlen)
  let bufferMacPad := (t % 16).toNat
  -- `mac.update(&ciphertext[1..1 + mlen]); mac.update(&_pad0[..buffer_mac_pad])`
  let e ← checkedAdd 1 mlen
  let u4 ← slice ct 1 e
  let u5 ← sliceTo pad0 bufferMacPad
  -- `size_data`, with `block.len() + mlen`; `mac.update(&size_data); mac.finalize_to_array()`
  let total ← checkedAdd 64 mlen
  let u6 ← sizeDataRaw ad.length total
  let mac := P.mac macKey (u1 ++ u2 ++ u3 ++ u4 ++ u5 ++ u6)
  -- `if ciphertext[1 + mlen..].ct_eq(&mac) == 0 { return Err }`
  let e ← checkedAdd 1 mlen
  let received ← sliceFrom ct e
  errIf (received ≠ mac)
  -- `*tag = decrypted_tag; message[..mlen].copy_from_slice(&ciphertext[1..1 + mlen])`
  let dst ← sliceTo m mlen
  let e ← checkedAdd 1 mlen
  let src ← slice ct 1 e
  let dst ← copyFromSlice dst src
  -- `cipher.seek(128); cipher.apply_keystream(&mut message[..mlen])`
  let dst' ← sliceTo m mlen
  let ks ← keystream P s 128 dst'.length
  let dst := xorBytes dst ks
  -- state update, `Ok(mlen)`
  pure ⟨.ok mlen, dst ++ m.drop mlen, decryptedTag, advance P s mac decryptedTag⟩

/-- `Pulled` view of a body result: on `Err` and on panic nothing has been written -/
def pullRawWith (lengthGuard : Bool) (P : Prims) (s : State) (m : Bytes) (tagv : UInt8) (ct ad : Bytes) : Pulled :=
  match pullRawBody lengthGuard P s m ct ad with
  | .ok r => r
  | .err => ⟨.err, m, tagv, s⟩
  | .panic => ⟨.panic, m, tagv, s⟩

/-- the classic `pull` as it is in the source -/
def pullRaw (P : Prims) (s : State) (m : Bytes) (tagv : UInt8) (ct ad : Bytes) : Pulled :=
  pullRawWith true P s m tagv ct ad

/-- counter-model: the classic `pull` before fix E5 -/
def pullRawOld (P : Prims) (s : State) (m : Bytes) (tagv : UInt8) (ct ad : Bytes) : Pulled :=
  pullRawWith false P s m tagv ct ad

/-! ### object layer -/

/-- `Tag::from_bits(b)`: `None` when a bit outside `MESSAGE | PUSH | REKEY | FINAL = 0b11` is set -/
def tagFromBits (b : UInt8) : Option UInt8 := if b &&& 0xFC = 0 then some b else none

/-- `DryocStream<Pull>::pull` in source order.  `retain = true`: `Tag::from_bits_retain(tag)` (current
source, total); `retain = false`: `Tag::from_bits(tag).expect("invalid tag")` (before the fix "pull keeps undefined tag bits").
`lengthGuard` as above (fix E5 added the same guard here). -/
def objPullRawWith (lengthGuard retain : Bool) (P : Prims) (s : State) (ct ad : Bytes) :
    Outcome (Bytes × UInt8) × State :=
  if lengthGuard ∧ ct.length < ABYTES then (.err, s)
  else
    -- `message.resize(ciphertext.len() - ABYTES, 0)`
    match checkedSub ct.length ABYTES with
    | .ok n =>
      let r := pullRawWith lengthGuard P s (zeros n) 0 ct ad
      match r.res with
      | .ok _ =>
        if retain then (.ok (r.buf, r.tag), r.st)
        else match unwrap (tagFromBits r.tag) with
          | .ok t => (.ok (r.buf, t), r.st)
          | .err => (.err, r.st)
          | .panic => (.panic, r.st)           -- the state has already advanced
      | .err => (.err, s)
      | .panic => (.panic, s)
    | .err => (.err, s)
    | .panic => (.panic, s)

def objPullCode (P : Prims) (s : State) (ct ad : Bytes) : Outcome (Bytes × UInt8) × State :=
  objPullRawWith true true P s ct ad

/-- counter-model: `DryocStream::pull` before the fix "pull keeps undefined tag bits" (`from_bits(..).expect`) -/
def objPullOld (P : Prims) (s : State) (ct ad : Bytes) : Outcome (Bytes × UInt8) × State :=
  objPullRawWith true false P s ct ad

/-- counter-model: `DryocStream::pull` before fix E5 (no length guard, here or in the classic function) -/
def objPullNoGuard (P : Prims) (s : State) (ct ad : Bytes) : Outcome (Bytes × UInt8) × State :=
  objPullRawWith false true P s ct ad

end DryocVerif.Model.SecretStream
