import DryocVerif.Bytes
/-
Model of /repo/src/classic/crypto_secretbox_impl.rs, crypto_secretbox.rs,
crypto_box.rs, crypto_box_impl.rs and of the object layer (dryocsecretbox.rs,
dryocbox.rs), as pure functions on byte lists.

* `&mut` buffers are inputs and returned outputs.
* Everything that panics in Rust (slice bounds, `copy_from_slice` length mismatch,
  `rotate_right` past the end) is an explicit `Outcome.panic`.
* The primitives implemented by dependencies (XSalsa20 key stream, X25519,
  HSalsa20) and Poly1305 / BLAKE2b are *parameters* (`Prims`); the theorems hold for
  every instantiation, the driver instantiates them with the executable specs/models.
-/
namespace DryocVerif.Model.SecretBox
open DryocVerif

structure Prims where
  /-- `stream key nonce24 len` : first `len` bytes of the XSalsa20 key stream -/
  stream : Bytes → Bytes → Nat → Bytes
  /-- one-time authenticator `mac key32 msg` (16 bytes) -/
  mac : Bytes → Bytes → Bytes
  /-- `dh sk pk` : X25519 -/
  dh : Bytes → Bytes → Bytes
  /-- `dhBase sk` : X25519 base-point multiplication -/
  dhBase : Bytes → Bytes
  /-- HSalsa20 `key in16` -/
  hsalsa : Bytes → Bytes → Bytes
  /-- BLAKE2b with 24-byte digest, unkeyed -/
  h24 : Bytes → Bytes

def MACBYTES : Nat := 16
def SEALBYTES : Nat := 48

/-- result of an opening function together with the caller's buffer afterwards -/
structure Opened where
  res : Outcome Unit
  buf : Bytes
  deriving Repr, DecidableEq

/-- `slice.rotate_right(k)` (panics if `k > len`, handled by callers) -/
def rotateRight (xs : Bytes) (k : Nat) : Bytes := xs.drop (xs.length - k) ++ xs.take (xs.length - k)
/-- `slice.rotate_left(k)` -/
def rotateLeft (xs : Bytes) (k : Nat) : Bytes := xs.drop k ++ xs.take k

/-! ### crypto_secretbox_impl.rs -/

/-- `crypto_secretbox_detached_inplace`: returns (ciphertext, mac) -/
def detachedInplace (P : Prims) (data nonce key : Bytes) : Bytes × Bytes :=
  let ks := P.stream key nonce (32 + data.length)
  let macKey := ks.take 32
  let c := xorBytes data (ks.drop 32)
  (c, P.mac macKey c)

/-- `crypto_secretbox_open_detached_inplace`: verify first, decrypt only when the
authenticator matches (a rejected ciphertext leaves `data` untouched). -/
def openDetachedInplace (P : Prims) (data mac nonce key : Bytes) : Opened :=
  let ks := P.stream key nonce (32 + data.length)
  let macKey := ks.take 32
  let computed := P.mac macKey data
  if mac = computed then ⟨.ok (), xorBytes data (ks.drop 32)⟩ else ⟨.err, data⟩

/-! ### crypto_secretbox.rs -/

/-- `crypto_secretbox_detached(ciphertext, mac, message, nonce, key)`; `ct` is the caller's buffer -/
def detached (P : Prims) (ct msg nonce key : Bytes) : Outcome (Bytes × Bytes) :=
  if ct.length < msg.length then .panic      -- ciphertext[..message.len()]
  else .ok (detachedInplace P (msg ++ ct.drop msg.length) nonce key)

/-- `crypto_secretbox_open_detached(message, mac, ciphertext, nonce, key)`; `m` is the caller's
buffer: the authenticator is verified over `ciphertext` first, the buffer is written only on success -/
def openDetached (P : Prims) (m mac ct nonce key : Bytes) : Opened :=
  if m.length < ct.length then ⟨.panic, m⟩    -- &mut message[..ciphertext.len()]
  else
    let r := openDetachedInplace P ct mac nonce key
    match r.res with
    | .ok () => ⟨.ok (), r.buf ++ m.drop ct.length⟩
    | _ => ⟨r.res, m⟩

/-- `crypto_secretbox_easy(ciphertext, message, nonce, key)` -/
def easy (P : Prims) (ct msg nonce key : Bytes) : Outcome Bytes :=
  if ct.length < MACBYTES then .panic          -- &mut ciphertext[MACBYTES..]
  else match detached P (ct.drop MACBYTES) msg nonce key with
    | .ok (c, mac) => .ok (mac ++ c)
    | .err => .err
    | .panic => .panic

/-- `crypto_secretbox_open_easy(message, ciphertext, nonce, key)` -/
def openEasy (P : Prims) (m ct nonce key : Bytes) : Opened :=
  if ct.length < MACBYTES then ⟨.err, m⟩
  else openDetached P m (ct.take MACBYTES) (ct.drop MACBYTES) nonce key

/-- `crypto_secretbox_easy_inplace(data, nonce, key)` -/
def easyInplace (P : Prims) (data nonce key : Bytes) : Outcome Bytes :=
  if data.length < MACBYTES then .panic        -- rotate_right(16)
  else
    let d := rotateRight data MACBYTES
    let (c, mac) := detachedInplace P (d.drop MACBYTES) nonce key
    .ok (mac ++ c)

/-- `crypto_secretbox_open_easy_inplace(ciphertext, nonce, key)` -/
def openEasyInplace (P : Prims) (ct nonce key : Bytes) : Opened :=
  if ct.length < MACBYTES then ⟨.err, ct⟩
  else
    let mac := ct.take MACBYTES
    let r := openDetachedInplace P (ct.drop MACBYTES) mac nonce key
    match r.res with
    | .ok () => ⟨.ok (), rotateLeft (mac ++ r.buf) MACBYTES⟩
    | _ => ⟨r.res, mac ++ r.buf⟩

/-! ### crypto_box.rs -/

/-- `crypto_box_beforenm` -/
def beforenm (P : Prims) (pk sk : Bytes) : Bytes := P.hsalsa (P.dh sk pk) (zeros 16)

def boxDetached (P : Prims) (ct msg nonce pk sk : Bytes) : Outcome (Bytes × Bytes) :=
  detached P ct msg nonce (beforenm P pk sk)

def boxDetachedInplace (P : Prims) (data nonce pk sk : Bytes) : Bytes × Bytes :=
  detachedInplace P data nonce (beforenm P pk sk)

/-- `crypto_box_easy` (`CRYPTO_BOX_MESSAGEBYTES_MAX` = usize::MAX − 16 is unreachable for a list) -/
def boxEasy (P : Prims) (ct msg nonce pk sk : Bytes) : Outcome Bytes :=
  if ct.length < MACBYTES then .err
  else match boxDetached P (ct.drop MACBYTES) msg nonce pk sk with
    | .ok (c, mac) => .ok (mac ++ c)
    | .err => .err
    | .panic => .panic

def boxEasyInplace (P : Prims) (data nonce pk sk : Bytes) : Outcome Bytes :=
  if data.length < MACBYTES then .err
  else
    let d := rotateRight data MACBYTES
    let (c, mac) := boxDetachedInplace P (d.drop MACBYTES) nonce pk sk
    .ok (mac ++ c)

def boxOpenDetached (P : Prims) (m mac ct nonce pk sk : Bytes) : Opened :=
  openDetached P m mac ct nonce (beforenm P pk sk)

def boxOpenDetachedInplace (P : Prims) (data mac nonce pk sk : Bytes) : Opened :=
  openDetachedInplace P data mac nonce (beforenm P pk sk)

def boxOpenEasy (P : Prims) (m ct nonce pk sk : Bytes) : Opened :=
  if ct.length < MACBYTES then ⟨.err, m⟩
  else boxOpenDetached P m (ct.take MACBYTES) (ct.drop MACBYTES) nonce pk sk

def boxOpenEasyInplace (P : Prims) (ct nonce pk sk : Bytes) : Opened :=
  if ct.length < MACBYTES then ⟨.err, ct⟩
  else
    let mac := ct.take MACBYTES
    let r := boxOpenDetachedInplace P (ct.drop MACBYTES) mac nonce pk sk
    match r.res with
    | .ok () => ⟨.ok (), rotateLeft (mac ++ r.buf) MACBYTES⟩
    | _ => ⟨r.res, mac ++ r.buf⟩

/-! ### crypto_box.rs, precomputed-key forms

`crypto_box_detached_afternm`, `…_afternm_inplace`, `crypto_box_open_detached_afternm` and
`…_open_detached_afternm_inplace` are one-line calls of the secretbox functions with the precomputed
key (there is no `easy` `afternm` form in dryoc); `crypto_box_(open_)detached(_inplace)` compute
`crypto_box_beforenm` and call them. -/

/-- `crypto_box_detached_afternm(ciphertext, mac, message, nonce, key)` -/
def boxDetachedAfternm (P : Prims) (ct msg nonce key : Bytes) : Outcome (Bytes × Bytes) :=
  detached P ct msg nonce key

/-- `crypto_box_detached_afternm_inplace(ciphertext, mac, nonce, key)` -/
def boxDetachedAfternmInplace (P : Prims) (data nonce key : Bytes) : Bytes × Bytes :=
  detachedInplace P data nonce key

/-- `crypto_box_open_detached_afternm(message, mac, ciphertext, nonce, key)` -/
def boxOpenDetachedAfternm (P : Prims) (m mac ct nonce key : Bytes) : Opened :=
  openDetached P m mac ct nonce key

/-- `crypto_box_open_detached_afternm_inplace(data, mac, nonce, key)` -/
def boxOpenDetachedAfternmInplace (P : Prims) (data mac nonce key : Bytes) : Opened :=
  openDetachedInplace P data mac nonce key

/-- `crypto_box_seal_nonce` -/
def sealNonce (P : Prims) (epk rpk : Bytes) : Bytes := P.h24 (epk ++ rpk)

/-- `crypto_box_seal(ciphertext, message, recipient_pk)`; `esk` is the 32 bytes drawn from the entropy source -/
def boxSeal (P : Prims) (ct msg rpk esk : Bytes) : Outcome Bytes :=
  if ct.length < msg.length + SEALBYTES then .err
  else
    let epk := P.dhBase esk
    let nonce := sealNonce P epk rpk
    match boxEasy P (ct.drop 32) msg nonce rpk esk with
    | .ok c => .ok (epk ++ c)
    | .err => .err
    | .panic => .panic

/-- `crypto_box_seal_open(message, ciphertext, recipient_pk, recipient_sk)` -/
def sealOpen (P : Prims) (m ct rpk rsk : Bytes) : Opened :=
  if ct.length < SEALBYTES then ⟨.err, m⟩
  else if m.length ≠ ct.length - SEALBYTES then ⟨.err, m⟩
  else
    let epk := ct.take 32
    let nonce := sealNonce P epk rpk
    boxOpenEasy P m (ct.drop 32) nonce epk rsk

/-! ### object layer (dryocsecretbox.rs, dryocbox.rs) -/

structure Box where
  epk : Option Bytes
  tag : Bytes
  data : Bytes
  deriving Repr, DecidableEq

/-- `DryocSecretBox::encrypt` : `data.resize(message.len(), 0)` then `crypto_secretbox_detached` -/
def objEncrypt (P : Prims) (msg nonce key : Bytes) : Outcome Box :=
  match detached P (zeros msg.length) msg nonce key with
  | .ok (c, mac) => .ok ⟨none, mac, c⟩
  | .err => .err
  | .panic => .panic

/-- `to_bytes` / `to_vec` -/
def toBytes (b : Box) : Bytes :=
  match b.epk with
  | some e => e ++ b.tag ++ b.data
  | none => b.tag ++ b.data

/-- `VecBox::into_vec` : resize, rotate_right(16), copy the tag in front -/
def intoVec (b : Box) : Bytes :=
  let d := rotateRight (b.data ++ zeros MACBYTES) MACBYTES
  b.tag ++ d.drop MACBYTES

/-- `from_bytes` -/
def fromBytes (bs : Bytes) : Outcome Box :=
  if bs.length < MACBYTES then .err else .ok ⟨none, bs.take MACBYTES, bs.drop MACBYTES⟩

/-- `from_sealed_bytes` -/
def fromSealedBytes (bs : Bytes) : Outcome Box :=
  if bs.length < SEALBYTES then .err
  else .ok ⟨some (bs.take 32), (bs.drop 32).take MACBYTES, bs.drop SEALBYTES⟩

/-- `DryocSecretBox::decrypt` : the object API returns only `Ok(message)` or `Err` -/
def objDecrypt (P : Prims) (b : Box) (nonce key : Bytes) : Outcome Bytes :=
  let r := openDetached P (zeros b.data.length) b.tag b.data nonce key
  match r.res with
  | .ok () => .ok r.buf
  | .err => .err
  | .panic => .panic

def objBoxEncrypt (P : Prims) (msg nonce pk sk : Bytes) : Outcome Box :=
  objEncrypt P msg nonce (beforenm P pk sk)

def objBoxDecrypt (P : Prims) (b : Box) (nonce pk sk : Bytes) : Outcome Bytes :=
  objDecrypt P b nonce (beforenm P pk sk)

/-- `DryocBox::seal` -/
def objSeal (P : Prims) (msg rpk esk : Bytes) : Outcome Box :=
  let epk := P.dhBase esk
  match objBoxEncrypt P msg (sealNonce P epk rpk) rpk esk with
  | .ok b => .ok { b with epk := some epk }
  | .err => .err
  | .panic => .panic

/-- `DryocBox::unseal` -/
def objUnseal (P : Prims) (b : Box) (rpk rsk : Bytes) : Outcome Bytes :=
  match b.epk with
  | none => .err
  | some epk => objBoxDecrypt P b (sealNonce P epk rpk) epk rsk

/-! ### dryocbox.rs / precalc.rs: the precomputed-key object API

`PrecalcSecretKey::precalculate` is `crypto_box_beforenm`; `DryocBox::precalc_encrypt` resizes `data` to the
message length and calls `crypto_box_detached_afternm`; `DryocBox::precalc_decrypt` resizes the output to the
data length and calls `crypto_box_open_detached_afternm`. -/

/-- `PrecalcSecretKey::precalculate(third_party_public_key, secret_key)` -/
def precalculate (P : Prims) (pk sk : Bytes) : Bytes := beforenm P pk sk

/-- `DryocBox::precalc_encrypt(message, nonce, precalc_secret_key)` -/
def objPrecalcEncrypt (P : Prims) (msg nonce key : Bytes) : Outcome Box :=
  match boxDetachedAfternm P (zeros msg.length) msg nonce key with
  | .ok (c, mac) => .ok ⟨none, mac, c⟩
  | .err => .err
  | .panic => .panic

/-- `DryocBox::precalc_decrypt(nonce, precalc_secret_key)` -/
def objPrecalcDecrypt (P : Prims) (b : Box) (nonce key : Bytes) : Outcome Bytes :=
  let r := boxOpenDetachedAfternm P (zeros b.data.length) b.tag b.data nonce key
  match r.res with
  | .ok () => .ok r.buf
  | .err => .err
  | .panic => .panic

end DryocVerif.Model.SecretBox
