import DryocVerif.Bytes
/-
Model of /repo/src/bytes_serde.rs at the level of serde's data model, and of the
`TryFrom<&[u8]>` / `From<&[u8]>` conversions used by `from_bytes`.

`Enc` is what a deserializer hands to `deserialize_bytes`' visitor:
  * `seq es`   — an element sequence (serde_json: a JSON array of numbers)  → `visit_seq`
  * `bytes bs` — a byte string (bincode; serde_json: a JSON string)          → `visit_bytes`
serde_json / bincode themselves are trusted to produce these.
-/
namespace DryocVerif.Model.Encoding
open DryocVerif

inductive Enc where
  | seq (es : Bytes)
  | bytes (bs : Bytes)
  deriving Repr, DecidableEq

def Enc.payload : Enc → Bytes
  | .seq es => es
  | .bytes bs => bs

/-- the `while let Some(elem) = seq.next_element()?` loop of the fixed-length visitors
(`StackByteArray<N>`, `Locked<HeapByteArray<N>>`): `acc` = the elements stored so far -/
def visitSeqFixedGo (n : Nat) : Bytes → Bytes → Outcome Bytes
  | [], acc => if acc.length ≠ n then .err else .ok acc
  | e :: es, acc => if acc.length ≥ n then .err else visitSeqFixedGo n es (acc ++ [e])

/-- `Deserialize for StackByteArray<N>` / `Locked<HeapByteArray<N>>` -/
def deFixed (n : Nat) : Enc → Outcome Bytes
  | .seq es => visitSeqFixedGo n es []
  | .bytes bs => if bs.length ≠ n then .err else .ok bs

/-- the loop of the resizable visitors (`HeapBytes`, `LockedBytes`): grow by one, store -/
def visitSeqHeapGo : Bytes → Bytes → Bytes
  | [], acc => acc
  | e :: es, acc => visitSeqHeapGo es (acc ++ [e])

/-- `Deserialize for HeapBytes` / `LockedBytes` (lock requests assumed to succeed) -/
def deHeap : Enc → Outcome Bytes
  | .seq es => .ok (visitSeqHeapGo es [])
  | .bytes bs => .ok bs

/-- `Serialize`: every container serialises as a byte string of its contents -/
def ser (bs : Bytes) : Enc := .bytes bs

/-- `TryFrom<&[u8]> for StackByteArray<N>` / `HeapByteArray<N>` -/
def tryFromSlice (n : Nat) (bs : Bytes) : Outcome Bytes := if bs.length ≠ n then .err else .ok bs

/-- `From<&[u8]> for HeapBytes` / `Vec<u8>` -/
def fromSlice (bs : Bytes) : Bytes := bs

end DryocVerif.Model.Encoding
