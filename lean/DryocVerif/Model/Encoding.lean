import DryocVerif.Bytes
/-
Model of /repo/src/bytes_serde.rs at the level of serde's data model, and of the
`TryFrom<&[u8]>` / `From<&[u8]>` conversions used by `from_bytes`.

WHICH CONTAINERS HAVE WHICH IMPL (bytes_serde.rs, complete list):
  * `Serialize` AND `Deserialize`: `StackByteArray<N>`, `HeapBytes`, `LockedBytes` (= `Locked<HeapBytes>`),
    `Locked<HeapByteArray<N>>`;
  * `Serialize` ONLY (no `Deserialize`): unlocked `HeapByteArray<N>`, `LockedRO<HeapBytes>`.
Everything else is serde's own: `Vec<u8>` (`Model/EncodingVec.lean`, `deVecFixed`) and plain `[u8; N]` — the classic
key / nonce / tag types (`crypto_box::PublicKey`, `Nonce`, `Mac`, …) are type ALIASES of arrays and implement
`ByteArray<N>` too — which goes through serde's tuple impl (`deArray` below).

`Enc` is what a deserializer hands to `deserialize_bytes`' visitor:
  * `seq es`   — an element sequence (serde_json: a JSON array of numbers)  → `visit_seq`
  * `bytes bs` — a byte string (bincode; serde_json TEXT deserialiser: a JSON string) → `visit_bytes`
serde_json / bincode themselves are trusted to produce these.  A THIRD route exists and is NOT an `Enc`: a JSON string
that went through `serde_json::Value` (`from_value`) is handed to `visit_string`, which none of dryoc's visitors
implement (serde's default answers "invalid type") — see `JsonField`, `Route`, `encOfJson` below.
-/
namespace DryocVerif.Model.Encoding
open DryocVerif

inductive Enc where
  | seq (es : Bytes)
  | bytes (bs : Bytes)
  deriving Repr, DecidableEq

def Enc.payload : Enc → Bytes
  | .seq es => es
  | .bytes bs => bs

/-- the `while let Some(elem) = seq.next_element()?` loop of the fixed-length visitors
(`StackByteArray<N>`, `Locked<HeapByteArray<N>>`): `acc` = the elements stored so far -/
def visitSeqFixedGo (n : Nat) : Bytes → Bytes → Outcome Bytes
  | [], acc => if acc.length ≠ n then .err else .ok acc
  | e :: es, acc => if acc.length ≥ n then .err else visitSeqFixedGo n es (acc ++ [e])

/-- `Deserialize for StackByteArray<N>` / `Locked<HeapByteArray<N>>` -/
def deFixed (n : Nat) : Enc → Outcome Bytes
  | .seq es => visitSeqFixedGo n es []
  | .bytes bs => if bs.length ≠ n then .err else .ok bs

/-- the loop of the resizable visitors (`HeapBytes`, `LockedBytes`): grow by one, store -/
def visitSeqHeapGo : Bytes → Bytes → Bytes
  | [], acc => acc
  | e :: es, acc => visitSeqHeapGo es (acc ++ [e])

/-- `Deserialize for HeapBytes` / `LockedBytes` (lock requests assumed to succeed) -/
def deHeap : Enc → Outcome Bytes
  | .seq es => .ok (visitSeqHeapGo es [])
  | .bytes bs => .ok bs

/-- `Serialize` of the six dryoc containers: `serializer.serialize_bytes(self.as_slice())`.  This is the token given
to the SERIALIZER; what the format makes of it differs: bincode writes a byte string (length prefix + bytes), and
serde_json's `serialize_bytes` writes a JSON ARRAY of numbers, which comes back as an element sequence — that is
`Model.EncodingVec.serField'` (format-aware); `ser` alone is the bincode shape. -/
def ser (bs : Bytes) : Enc := .bytes bs

/-- serde's `impl Deserialize for [T; N]` at `T = u8` (plain arrays: the classic key / nonce / tag aliases):
`deserialize_tuple(N, ArrayVisitor)` — a sequence of EXACTLY `N` elements (`visit_seq` pulls `N` elements, a missing
one is `invalid_length`; serde_json then refuses trailing elements; in bincode a tuple has NO length prefix, the
deserialiser hands over exactly the next `N` bytes or fails at the end of input).  A byte / string token is
"invalid type".  NOTE: implemented by serde only for `N ≤ 32`; a struct with a `[u8; 64]` field (e.g.
`SignedMessage<[u8; 64], _>`, `SigningKeyPair<_, [u8; 64]>`) has no derived `Deserialize`: the derive's
`where`-bound on the field type is not met, a compile-time fact and not a run-time error. -/
def deArray (n : Nat) : Enc → Outcome Bytes
  | .seq es => if es.length = n then .ok es else .err
  | .bytes _ => .err

/-- serde's `impl Serialize for [T; N]` (`N ≤ 32`): `serialize_tuple(N)` — an element sequence in every format -/
def serArray (bs : Bytes) : Enc := .seq bs

/-! ### the JSON routes (what becomes of a JSON value in a byte-container position) -/

/-- a JSON value offered for a byte container: an array of numbers (each `0..=255`) or a string (its bytes) -/
inductive JsonField where
  | arr (es : Bytes)
  | str (s : Bytes)
  deriving Repr, DecidableEq

/-- the two serde_json entry points: `from_str` / `from_slice` / `from_reader` (text) and `from_value` (a parsed
`serde_json::Value`) -/
inductive Route where
  | text
  | value
  deriving Repr, DecidableEq

/-- what `deserialize_bytes` does with the value (serde_json `de.rs` / `value/de.rs`):
text: `'"'` → `parse_str_raw` → `visit_bytes` / `visit_borrowed_bytes`; `'['` → `deserialize_seq` → `visit_seq`;
`Value`: `deserialize_bytes = deserialize_byte_buf`: `Value::String(v) => visitor.visit_string(v)`,
`Value::Array(v) => visit_array(v, visitor)` (→ `visit_seq`, with a size hint).
`none` = the visitor is called on a method dryoc's visitors do not implement (`visit_string` → default `visit_str`
→ default `Err(invalid_type)`): the decode fails whatever the container. -/
def encOfJson : Route → JsonField → Option Enc
  | _, .arr es => some (.seq es)
  | .text, .str s => some (.bytes s)
  | .value, .str _ => none

/-- decode a JSON value in a byte-container position with visitor `de` (`deFixed n`, `deHeap`): -/
def deJson (de : Enc → Outcome Bytes) (r : Route) (j : JsonField) : Outcome Bytes :=
  match encOfJson r j with
  | some e => de e
  | none => .err

/-- `TryFrom<&[u8]> for StackByteArray<N>` / `HeapByteArray<N>` -/
def tryFromSlice (n : Nat) (bs : Bytes) : Outcome Bytes := if bs.length ≠ n then .err else .ok bs

/-- `From<&[u8]> for HeapBytes` / `Vec<u8>` -/
def fromSlice (bs : Bytes) : Bytes := bs

end DryocVerif.Model.Encoding
