import DryocVerif.Bytes
/-
Model of `dryoc::protected` (nightly): an abstract kernel (page permissions and
lock flags), the `PageAlignedAllocator`, `Vec<u8, PageAlignedAllocator>`,
`HeapBytes` / `HeapByteArray<N>`, `Protected<A, PM, LM>` and the interpreter of
the harness tokens of `ops_prot.rs` together with its answer formatter.

Conventions
* all constant parameters of a run live in `Cfg` (page size `P`, container kind,
  the `len` argument, and `wipe` = "deallocate zeroes `layout.size()` bytes",
  `false` only in the counter-model documenting the repaired defect of C15);
* the kernel is addressed in bytes (`mprotect P k addr len perm`), exactly like
  the system calls; page indices are `addr / P`;
* blocks are handed out by a bump pointer `brk` (a page index), so live blocks
  are disjoint and A FREED PAGE IS NEVER REUSED (`alloc` takes `base := m.k.brk`).  glibc hands freed blocks out
  again; reuse is covered only through the state a freed block is left in: rw, unlocked, wiped —
  `C14.drop_restores`, `C15.release_zeroed` — and through `allocAt` (allocation at an arbitrary base page, not used
  by the interpreter): the page part of the invariant survives it whenever the pages handed out are rw, unlocked
  and owned by no live block (`C14.reused_block_keeps_page_invariant`; `alloc` = `allocAt` at `brk`);
* a lock request is *counted* only when it reaches `mlock(2)` (non-empty data);
  the `i`-th counted request since the last `failfrom` gets the answer `oracle i : LockAns`:
  `grant` (the call goes through; on a `PROT_NONE` page it still fails in the kernel but leaves the pages marked
  locked — Linux sets `VM_LOCKED` before the population fails), `refuse` (clean refusal, the kernel's lock flags
  are not touched), `failFlagged` (the pages are ACCESSIBLE, the kernel flags them `VM_LOCKED` and then fails while
  populating: `EAGAIN` / `ENOMEM`); the repaired `dryoc_mlock` therefore calls `munlock` on its failure path
  (`Cfg.undo`, `false` only in the counter-model).  `Bool` oracles coerce: `true ↦ grant`, `false ↦ refuse`;
* `madvise`: `dryoc_mlock` sets `MADV_DONTDUMP` before `mlock`, `dryoc_munlock` sets `MADV_DODUMP` before `munlock`
  (`Kernel.dontdump`, `madviseK`); the failure path of `dryoc_mlock` calls the BARE `libc::munlock`, so the flag
  survives a failed lock, and survives the drop that follows (record `Unlocked`: no `dryoc_munlock`) — observation
  `C14.drop_restores_dump_refuted` (harmless: the flag only excludes more from core dumps); without a failed lock the
  flag is gone after the last drop (`C14.drop_restores_dump`).

RUNTIME RECORD vs TYPE STATE.  A region (`Obj`) carries TWO descriptions of its state: `st`, the type-level one
(`Protected<A, PM, LM>` or a bare container), and `rcd`, the runtime record `d.lm` / `d.pm` of `int::InternalData`.
Every transition writes the record exactly where the Rust does (after the system call: `old.pm = …`, `old.lm = …`;
`new_with` initialises it to `(Unlocked, ReadWrite)`), and `Drop` / `Zeroize` (`objDrop`, `protDrop`, `protZeroize`)
consult the RECORD only, in the order of the Rust: `mprotect_readwrite` if the record is not `ReadWrite`, wipe the
bytes, `munlock` if the record is `Locked`, then the container's drop (`deallocate` wipes the whole capacity).
That the record always equals the type state is a THEOREM (`C14.rec_tracks_type`), not a modelling decision.

TOKENS BEYOND THE TYPE-STATE API.  `zeroize` is the public `Zeroize::zeroize(&mut self)`, with its real effect in
every type state (`opZeroize`); `clonefrom:<j>` the default `Clone::clone_from`; `panicdrop` a drop during unwinding;
`stacklock` is `StackByteArray::mlock()`; `serde:<json|bincode>:<n>` the `Deserialize` impls of the locked forms
(`bytes_serde.rs`).

GHOST LOGS.  `Kernel.al` / `Kernel.fr` record every `(base page, size)` passed through `alloc` / `dealloc`; nothing
reads them (they exist for `C15.alloc_release_balance_pairs`).

FAULTS.  `Res.segv` is produced by the three probe tokens only; the byte-touching primitives below (`zeroizeV`,
`fillV`, `writeV`, `setV`, `vecClone`, `wipeN`, …) transform buffers and never consult `Kernel.perm`.  Whether the
byte accesses of a real operation land on pages that allow them is a separate, explicit predicate:
`Model/ProtectedTouch.lean` (`stepTouchesOk c s t`, mirroring `stepCore` operation by operation), with the theorem
`C14.step_no_segv` (every token, every state satisfying the invariant) and the counter-models
`C14.forgetful_protect_drop_segv`, `C14.zeroize_mprotect_fails_segv`.

WHAT CAN FAIL.  The only fallible system call of this model is `mlock` (`dryocMlock` returns a
`Bool`: refused by the oracle, failing after the pages were flagged (`failFlagged`), or failing in the kernel on
`PROT_NONE` pages).  Every other wrapper
is INFALLIBLE here: `dryocMunlock` and `dryocMprotect` return no status, so the tokens `unlock`,
`ro`, `rw`, `na` (`opUnlock`, `opProtect`, `opNa`) always answer `ok` on a live region, and `alloc`
takes the effect of its three `mprotect` calls for granted (the Rust swallows their results with
`.ok()` after printing).  In the Rust, `munlock()` / `mprotect_*()` are
`swap_some_or_err(|old| { dryoc_munlock(..)?; … })` / `dryoc_mprotect_*(..)?` and DO return `Err`
when the system call fails, and `Drop`/`Zeroize` only print such an error.  A failing `munlock(2)`
or `mprotect(2)` is therefore NOT REPRESENTABLE in this model; wherever the theorems of C14 / C15 /
C19 say "every history", "failure paths" or "err", the failures meant are refused / failed `mlock`
requests (and the length mismatch of `from_slice_*`), nothing else.
The consequences of the three failures the Rust IGNORES are stated as conditional counter-models
(`Proofs/ProtectedUnrep.lean`, re-exported in C14 (k) / C19):
* not representable: a failing `mprotect_readwrite` inside `Protected::zeroize` (= `Drop`; `.map_err(eprintln).ok()`,
  then the wipe); consequence if it happened: theorem `C14.zeroize_mprotect_fails_segv` — on a read-only / no-access
  region the wipe touches a non-writable page (SIGSEGV inside `Drop`);
* not representable: a failing `munlock(2)` in the `munlock` transition (`?` returns `Err`, `self` is dropped with
  the record still `Locked`, `Drop` retries and ignores the error); consequence if it happened: theorem
  `C14.munlock_fails_leaks` — the pages go back to the allocator locked, `lockedPages > 0` after the last drop;
* not representable: a swallowed failure of a guard-page `mprotect_noaccess` in `allocate`; consequence if it
  happened: theorem `C14.alloc_guards_fail_no_guards` — a region without guard pages behind a handle of the same type.
-/
namespace DryocVerif.Model.Protected

/-! ## configuration -/

structure Cfg where
  P : Nat := 4096
  isArr : Bool := false
  n : Nat := 0
  wipe : Bool := true
  /-- `dryoc_mlock` calls `munlock` on its failure path (the repaired code); `false` only in the
  counter-model documenting the repaired defect (a failed `mlock(2)` on `PROT_NONE` pages used to
  leave them flagged locked for ever) -/
  undo : Bool := true

/-! ## abstract kernel -/

inductive Perm where
  | none | r | rw
  deriving DecidableEq, Repr

structure Kernel where
  perm : Nat → Perm
  locked : Nat → Bool
  brk : Nat
  /-- GHOST (never read by the model): every block handed out by `allocate` since the start of the run, as
  `(base page, size)`, in order -/
  al : List (Nat × Nat) := []
  /-- GHOST: every block given back to `deallocate`, as `(base page, size)`, in order -/
  fr : List (Nat × Nat) := []
  /-- `VM_DONTDUMP` (Linux): set by the `madvise(MADV_DONTDUMP)` of `dryoc_mlock`, cleared by the
  `madvise(MADV_DODUMP)` of `dryoc_munlock`; nothing else touches it (in particular NOT the bare `libc::munlock`
  on the failure path of `dryoc_mlock`, and not `deallocate`).  No theorem about permissions / lock flags reads it. -/
  dontdump : Nat → Bool := fun _ => false

/-- first page index ever handed out (page 0 is never mapped) -/
def startPage : Nat := 1

def Kernel.init : Kernel := ⟨fun _ => .rw, fun _ => false, startPage, [], [], fun _ => false⟩

def setRange {α : Type} (f : Nat → α) (lo hi : Nat) (x : α) : Nat → α :=
  fun i => if lo ≤ i ∧ i < hi then x else f i

/-- `_page_round` -/
def pageRound (P s : Nat) : Nat := s + (P - s % P)

/-- first page index not touched by a call on `[addr, addr+len)` -/
def pageEnd (P addr len : Nat) : Nat := (addr + len + P - 1) / P

/-- number of pages holding `len` bytes that start on a page boundary -/
def pagesOf (P len : Nat) : Nat := (len + P - 1) / P

/-- `mprotect(addr, len, perm)`; `len = 0` is a no-op. -/
def mprotect (P : Nat) (k : Kernel) (addr len : Nat) (p : Perm) : Kernel :=
  if len = 0 then k else { k with perm := setRange k.perm (addr / P) (pageEnd P addr len) p }

/-- the defective call `mprotect(addr, len - 1, perm)` (repaired; kept for C14) -/
def mprotectLenMinus1 (P : Nat) (k : Kernel) (addr len : Nat) (p : Perm) : Kernel :=
  mprotect P k addr (len - 1) p

def anyNone (k : Kernel) (lo hi : Nat) : Bool :=
  (List.range (hi - lo)).any fun d => k.perm (lo + d) == .none

/-- a lock request that reaches the kernel: the pages are marked locked; the call
fails when a page cannot be populated (`PROT_NONE`). -/
def mlockK (P : Nat) (k : Kernel) (addr len : Nat) : Kernel × Bool :=
  ({ k with locked := setRange k.locked (addr / P) (pageEnd P addr len) true },
   !anyNone k (addr / P) (pageEnd P addr len))

def munlockK (P : Nat) (k : Kernel) (addr len : Nat) : Kernel :=
  { k with locked := setRange k.locked (addr / P) (pageEnd P addr len) false }

def lockedPages (k : Kernel) : Nat := (List.range k.brk).countP fun i => k.locked i

/-- `madvise(addr, len, MADV_DONTDUMP)` (`b = true`) / `MADV_DODUMP` (`b = false`) -/
def madviseK (P : Nat) (k : Kernel) (addr len : Nat) (b : Bool) : Kernel :=
  { k with dontdump := setRange k.dontdump (addr / P) (pageEnd P addr len) b }

/-- number of pages below the bump pointer that are excluded from core dumps -/
def dontdumpPages (k : Kernel) : Nat := (List.range k.brk).countP fun i => k.dontdump i

/-! ## machine = kernel + lock oracle + release log -/

/-- what `mlock(2)` does with a request that reaches it:
* `grant`: the call goes through (`mlockK`: it can still fail there, on `PROT_NONE` pages);
* `refuse`: a clean refusal that leaves the kernel's lock flags alone (`RLIMIT_MEMLOCK` exceeded, `EPERM`, the
  harness' failing shim);
* `failFlagged`: Linux flags the pages `VM_LOCKED` FIRST and populates them afterwards; when the population fails
  (`EAGAIN` / `ENOMEM`) on ACCESSIBLE pages the call reports failure and the flags stay — which is why the
  repaired `dryoc_mlock` calls `libc::munlock` on its error path (`Cfg.undo`). -/
inductive LockAns where
  | grant | refuse | failFlagged
  deriving DecidableEq, Repr

/-- a `Bool` answer: `true ↦ grant`, `false ↦ refuse` -/
def LockAns.ofBool : Bool → LockAns
  | true => .grant
  | false => .refuse

instance : Coe Bool LockAns := ⟨LockAns.ofBool⟩

/-- `Bool` oracles (the driver's, `failOracle`, and the ones of the statements written before `LockAns` existed)
are oracles: `true ↦ grant`, `false ↦ refuse` -/
instance : Coe (Nat → Bool) (Nat → LockAns) := ⟨fun f i => LockAns.ofBool (f i)⟩

structure Mach where
  k : Kernel
  /-- number of counted lock requests since the last `failfrom` -/
  cnt : Nat
  /-- answer to the `i`-th counted request (`i ≥ 1`) -/
  oracle : Nat → LockAns
  /-- release events `(size, nonzero bytes)` of the current token, in order -/
  rel : List (Nat × Nat)

def Mach.init (oracle : Nat → LockAns) : Mach := ⟨Kernel.init, 0, oracle, []⟩

def failOracle (K : Int) : Nat → Bool := fun i => !(decide (1 ≤ K) && decide (K ≤ (i : Int)))

/-- failure path of `dryoc_mlock`: the repaired code calls the bare `libc::munlock` on the range (NOT
`dryoc_munlock`: no `MADV_DODUMP`) -/
def failedLock (c : Cfg) (m : Mach) (k : Kernel) (addr len : Nat) : Mach :=
  { m with k := if c.undo then munlockK c.P k addr len else k, cnt := m.cnt + 1 }

/-- `dryoc_mlock(data)`: `madvise(MADV_DONTDUMP)` first, then `mlock`.  A refused request never reaches the
kernel's lock flags; a granted one may still fail there (`PROT_NONE`); a `failFlagged` one flags the pages and
fails; in all three failure cases the failure path unlocks the range again (`failedLock`) -/
def dryocMlock (c : Cfg) (m : Mach) (addr len : Nat) : Mach × Bool :=
  if len = 0 then (m, true)
  else
    let k0 := madviseK c.P m.k addr len true
    match m.oracle (m.cnt + 1) with
    | .grant =>
      let r := mlockK c.P k0 addr len
      if r.2 then ({ m with k := r.1, cnt := m.cnt + 1 }, true)
      else (failedLock c m r.1 addr len, false)
    | .refuse => (failedLock c m k0 addr len, false)
    | .failFlagged => (failedLock c m (mlockK c.P k0 addr len).1 addr len, false)

/-- `dryoc_munlock(data)`: `madvise(MADV_DODUMP)`, then `munlock` -/
def dryocMunlock (c : Cfg) (m : Mach) (addr len : Nat) : Mach :=
  if len = 0 then m else { m with k := munlockK c.P (madviseK c.P m.k addr len false) addr len }

/-- `dryoc_mprotect_*(data)` -/
def dryocMprotect (c : Cfg) (m : Mach) (addr len : Nat) (p : Perm) : Mach :=
  { m with k := mprotect c.P m.k addr len p }

/-! ## `Vec<u8, PageAlignedAllocator>` -/

structure PVec where
  /-- page index of the fore guard page of the block (meaningful iff `cap > 0`) -/
  base : Nat := 0
  cap : Nat := 0
  len : Nat := 0
  /-- contents of the whole allocation (`cap` bytes) -/
  buf : Bytes := []

def PVec.empty : PVec := {}
def PVec.data (v : PVec) : Bytes := v.buf.take v.len

/-- address of the first data byte -/
def ptr (c : Cfg) (v : PVec) : Nat := (v.base + 1) * c.P

def nonzero (b : Bytes) : Nat := b.countP fun x => x != 0

/-- zero the first `n` bytes -/
def wipeN (n : Nat) (b : Bytes) : Bytes := zeros (min n b.length) ++ b.drop n

/-- overwrite `[lo, hi)` with zeroes -/
def setZeros (b : Bytes) (lo hi : Nat) : Bytes := b.take lo ++ zeros (hi - lo) ++ b.drop hi

/-- overwrite `[lo, hi)` with the byte `x` -/
def setFill (b : Bytes) (lo hi : Nat) (x : UInt8) : Bytes := b.take lo ++ List.replicate (hi - lo) x ++ b.drop hi

/-- `PageAlignedAllocator::allocate(Layout(size))`, `size > 0`; returns the base page -/
def alloc (c : Cfg) (m : Mach) (size : Nat) : Mach × Nat :=
  let P := c.P
  let base := m.k.brk
  let a := base * P
  let k0 : Kernel := { m.k with brk := base + (pageRound P size + 2 * P) / P, al := m.k.al ++ [(base, size)] }
  let k1 := mprotect P k0 a P .none
  let k2 := mprotect P k1 (a + (P + pageRound P size)) P .none
  let k3 := mprotect P k2 (a + P) size .rw
  ({ m with k := k3 }, base)

/-- `allocate` handing out the block that starts at an ARBITRARY page `base` — what `posix_memalign` does when it
reuses a freed block.  Not used by the interpreter (see the header: "the allocator never reuses a page");
`alloc` is `allocAt` at the bump pointer (`Proofs/ProtectedAllocAt.lean`, `alloc_eq_allocAt`), and the page part of
the invariant is kept by `allocAt` as soon as the pages handed out are read-write, unlocked and owned by no live
block (`goodP_allocAt`) — which is the state every freed block is left in (`C14.drop_restores`). -/
def allocAt (c : Cfg) (m : Mach) (base size : Nat) : Mach × Nat :=
  let P := c.P
  let a := base * P
  let k0 : Kernel := { m.k with brk := max m.k.brk (base + (pageRound P size + 2 * P) / P),
                                al := m.k.al ++ [(base, size)] }
  let k1 := mprotect P k0 a P .none
  let k2 := mprotect P k1 (a + (P + pageRound P size)) P .none
  let k3 := mprotect P k2 (a + P) size .rw
  ({ m with k := k3 }, base)

/-- `PageAlignedAllocator::deallocate(ptr, Layout(cap))` -/
def dealloc (c : Cfg) (m : Mach) (v : PVec) : Mach :=
  let P := c.P
  let p := ptr c v
  let k1 := mprotect P m.k p v.cap .rw
  let buf := if c.wipe then wipeN v.cap v.buf else v.buf
  let a := p - P
  let k2 := mprotect P k1 a P .rw
  let k3 := mprotect P k2 (a + (P + pageRound P v.cap)) P .rw
  { m with k := { k3 with fr := k3.fr ++ [(v.base, v.cap)] }, rel := m.rel ++ [(v.cap, nonzero (buf.take v.cap))] }

/-- `Drop for Vec` -/
def vecDrop (c : Cfg) (m : Mach) (v : PVec) : Mach :=
  if v.cap = 0 then m else dealloc c m v

/-- `RawVec::grow_amortized` for `u8` -/
def growCap (cap n : Nat) : Nat := max (max (2 * cap) n) 8

/-- `Vec::resize(n, b)` (fill byte `b`, `0` everywhere in the crate's own calls) -/
def vecResize (c : Cfg) (m : Mach) (v : PVec) (n : Nat) (b : UInt8 := 0) : Mach × PVec :=
  if n ≤ v.len then (m, { v with len := n })
  else if n ≤ v.cap then (m, { v with len := n, buf := setFill v.buf v.len n b })
  else
    let ncap := growCap v.cap n
    let r := alloc c m ncap
    let nbuf := (v.buf ++ zeros ncap).take ncap
    (vecDrop c r.1 v, ⟨r.2, ncap, n, setFill nbuf v.len n b⟩)

/-- `Vec::clone` (`to_vec_in`: capacity = length) -/
def vecClone (c : Cfg) (m : Mach) (v : PVec) : Mach × PVec :=
  if v.len = 0 then (m, PVec.empty)
  else
    let r := alloc c m v.len
    (r.1, ⟨r.2, v.len, v.len, (v.data ++ zeros v.len).take v.len⟩)

/-- `[u8]::zeroize` through the derived `Zeroize` of the container -/
def zeroizeV (v : PVec) : PVec := { v with buf := wipeN v.len v.buf }

def fillV (v : PVec) (b : UInt8) : PVec :=
  { v with buf := List.replicate (min v.len v.buf.length) b ++ v.buf.drop v.len }

/-- overwrite the first bytes with `src` (`copy_from_slice` on a prefix) -/
def writeV (v : PVec) (src : Bytes) : PVec :=
  { v with buf := (src ++ v.buf.drop src.length).take v.buf.length }

/-- `A::new_bytes()` -/
def newBytes (c : Cfg) (m : Mach) : Mach × PVec :=
  if c.isArr then vecResize c m PVec.empty c.n else (m, PVec.empty)

/-! ## `Protected<A, PM, LM>` -/

inductive LM where
  | unlocked | locked
  deriving DecidableEq, Repr

inductive PM where
  | ro | rw | na
  deriving DecidableEq, Repr

def PM.perm : PM → Perm
  | .ro => .r
  | .rw => .rw
  | .na => .none

inductive St where
  | plain
  | prot (lm : LM) (pm : PM)
  deriving DecidableEq, Repr

/-- the record of a freshly wrapped container: `Protected::new_with(a)` sets `lm: Unlocked, pm: ReadWrite` -/
def recNew : LM × PM := (.unlocked, .rw)

/-- A region as the harness holds it.  `st` is the TYPE-LEVEL state (`Protected<A, PM, LM>` / a bare container);
`rcd` is the RUNTIME record `d.lm` / `d.pm` of `int::InternalData`, a separate piece of data: every transition writes
it AFTER its system call succeeded (`old.pm = int::ProtectMode::ReadOnly;` …) and `Drop` / `Zeroize` read IT, not the
type.  For a bare container (`st = .plain`) there is no record yet; the field is then meaningless and is (re)initialised
by `new_with` when the container is wrapped. -/
structure Obj where
  st : St
  v : PVec
  rcd : LM × PM := recNew

/-- `Drop for HeapBytes/HeapByteArray` (derived `ZeroizeOnDrop`, then `Vec` drop) -/
def plainDrop (c : Cfg) (m : Mach) (v : PVec) : Mach := vecDrop c m (zeroizeV v)

/-- the machine at the moment `d.a.zeroize()` runs inside `Zeroize for Protected`, i.e. after
`if d.pm != ReadWrite { dryoc_mprotect_readwrite(..) }` (`pm` = the RECORDED protect mode) -/
def protAtWipe (c : Cfg) (m : Mach) (v : PVec) (pm : PM) : Mach :=
  if pm = .rw then m else dryocMprotect c m (ptr c v) v.len .rw

/-- `Zeroize for Protected` with the RECORDED modes `lm`, `pm`, in the order of the Rust:
`mprotect_readwrite` (if the record is not `ReadWrite`) → `d.a.zeroize()` → `munlock` (if the record is `Locked`).
(The Rust skips all three on an empty slice; the wrappers are no-ops on length 0, which is the same.)
Neither the record nor the type is touched. -/
def protZeroize (c : Cfg) (m : Mach) (v : PVec) (lm : LM) (pm : PM) : Mach × PVec :=
  let m1 := protAtWipe c m v pm
  let v1 := zeroizeV v
  let m2 := if lm = .locked then dryocMunlock c m1 (ptr c v1) v1.len else m1
  (m2, v1)

/-- `Drop for Protected` (= `self.zeroize()`) with the RECORDED modes `lm`, `pm`, followed by the drop of the
container (whose `deallocate` wipes the whole capacity and frees) -/
def protDrop (c : Cfg) (m : Mach) (v : PVec) (lm : LM) (pm : PM) : Mach :=
  let r := protZeroize c m v lm pm
  plainDrop c r.1 r.2

/-- drop of a region: a `Protected` consults its RECORD (`o.rcd`), never its type -/
def objDrop (c : Cfg) (m : Mach) (o : Obj) : Mach :=
  match o.st with
  | .plain => plainDrop c m o.v
  | .prot _ _ => protDrop c m o.v o.rcd.1 o.rcd.2

/-- `Protected<_, _, Unlocked>::mlock()` on a region whose record is `rec`: on refusal the consumed region is
dropped (with its record as it is: `old.lm = Locked` is only written after a successful call) -/
def lockV (c : Cfg) (m : Mach) (v : PVec) (rec : LM × PM) : Mach × Bool :=
  let r := dryocMlock c m (ptr c v) v.len
  if r.2 then (r.1, true) else (protDrop c r.1 v rec.1 rec.2, false)

/-- `ResizableBytes::resize` for `Locked<A>` (`rec` = the record of the region being resized); `none` = panic
("unable to lock on resize").  The new container is wrapped by `new_with` (record `recNew`) and locked; the old
`InternalData` is swapped out and dropped with ITS record. -/
def lockedResize (c : Cfg) (m : Mach) (v : PVec) (rec : LM × PM) (n : Nat) (b : UInt8 := 0) :
    Mach × Option PVec :=
  let r := vecResize c m PVec.empty n b
  let l := lockV c r.1 r.2 recNew
  if l.2 then
    let nv := writeV r.2 (v.data.take n)
    (protDrop c l.1 v rec.1 rec.2, some nv)
  else (l.1, none)

/-! ## harness state -/

structure Slot where
  gone : Bool
  o : Obj
  rnd : Bool

structure State where
  m : Mach
  slots : List Slot

def State.init (oracle : Nat → LockAns) : State := ⟨Mach.init oracle, []⟩

inductive Res where
  | ok | err | na | noslot | panic | segv | bad
  deriving DecidableEq, Repr

def Res.toString : Res → String
  | .ok => "ok" | .err => "err" | .na => "n/a" | .noslot => "noslot"
  | .panic => "panic" | .segv => "segv" | .bad => "bad"

inductive Op where
  | new | fill (b : UInt8) | lock | unlock | ro | rw | na | clone
  /-- `ResizableBytes::resize(n, b)` (the harness always passes `b = 0`) -/
  | resize (n : Nat) (b : UInt8 := 0)
  | drop
  | fsl (n : Nat) | fsro (n : Nat) | newlocked | genlocked | newrolocked | genrolocked
  | failfrom (k : Int) | wprobe (off : Nat) | rprobe (off : Nat) | gprobe (fore : Bool)
  | wrap | bad
  /-- `Zeroize::zeroize(&mut self)` on the live region (public, offered in EVERY type state) -/
  | zeroize
  /-- `slots[idx].clone_from(&slots[j])` (the default `Clone::clone_from`: `*self = src.clone()`) -/
  | clonefrom (j : Nat)
  /-- the region is dropped while a panic unwinds through its owner (same effect as `drop`) -/
  | panicdrop
  /-- `StackByteArray::<N>::from([0x5a; N]).mlock()` (fixed-length arrays only) -/
  | stacklock
  /-- serde decode of `n` bytes `0x5a` into the LOCKED form of the container (`json`: `visit_seq`; else bincode: `visit_bytes`) -/
  | serde (json : Bool) (n : Nat)
  deriving DecidableEq, Repr

structure Tok where
  op : Op
  idx : Nat
  deriving DecidableEq, Repr

def push (s : State) (m : Mach) (st : St) (v : PVec) (rnd : Bool) (rec : LM × PM := recNew) : State :=
  ⟨m, s.slots ++ [⟨false, ⟨st, v, rec⟩, rnd⟩]⟩

def setSlot (s : State) (m : Mach) (i : Nat) (sl : Slot) : State := ⟨m, s.slots.set i sl⟩

/-- page-table character as printed by the harness -/
def permChar (k : Kernel) (p : Nat) : Char :=
  if p < startPage ∨ k.brk ≤ p then 'u'
  else match k.perm p with
    | .rw => 'w' | .r => 'r' | .none => 'n'

def accessible (ch : Char) : Bool := ch == 'w' || ch == 'r'

/-- scan of the pages after the data: returns the characters up to and including the
first inaccessible page, and the index of the last page looked at -/
def scanAfter (k : Kernel) : Nat → Nat → List Char × Nat
  | 0, p => ([], p - 1)
  | fuel + 1, p =>
    let ch := permChar k p
    if accessible ch then
      let r := scanAfter k fuel (p + 1)
      (ch :: r.1, r.2)
    else ([ch], p)

/-- the lock transition of a slot: `pm` is the TYPE-LEVEL protect mode of the consumed region, `rec` its runtime
record (`new_with`'s for a bare container).  On success the record gets `old.lm = Locked` (its `pm` part is not
touched) and the type becomes `Protected<_, PM, Locked>`. -/
def doLock (c : Cfg) (s : State) (i : Nat) (sl : Slot) (rec : LM × PM) (pm : PM) : Res × State :=
  let r := lockV c s.m sl.o.v rec
  if r.2 then (.ok, setSlot s r.1 i { sl with o := { sl.o with st := .prot .locked pm, rcd := (.locked, rec.2) } })
  else (.err, setSlot s r.1 i { sl with gone := true })

/-- creation of a fresh locked region from a container `v` (`new_bytes().mlock()` …) -/
def doNewLocked (c : Cfg) (s : State) (m : Mach) (v : PVec) (src : Option Bytes) (ro rnd : Bool) :
    Res × State :=
  -- `new_with(v).mlock()`: the record starts as `recNew`, `old.lm = Locked` after the call; `mprotect_readonly()`
  -- then sets `old.pm = ReadOnly`
  let r := lockV c m v recNew
  if r.2 then
    let v1 := match src with
      | some b => writeV v b
      | none => v
    let m1 := if ro then dryocMprotect c r.1 (ptr c v1) v1.len .r else r.1
    (.ok, push s m1 (.prot .locked (if ro then .ro else .rw)) v1 (rnd && decide (0 < v1.len))
            (.locked, if ro then .ro else .rw))
  else (.err, ⟨r.1, s.slots⟩)

/-- `Clone for Locked<T>` / `LockedRO<T>` (only `HeapBytes` in the harness) -/
def doCloneLocked (c : Cfg) (s : State) (sl : Slot) (ro : Bool) : Res × State :=
  -- `T::new_locked()` on an empty container never reaches the kernel
  -- (its record is `(Locked, ReadWrite)`, which is what the swapped-out empty `InternalData` is dropped with)
  let r := lockedResize c s.m PVec.empty (.locked, .rw) sl.o.v.len
  match r.2 with
  | none => (.panic, ⟨r.1, s.slots⟩)
  | some nv =>
    let v1 := writeV nv sl.o.v.data
    let m1 := if ro then dryocMprotect c r.1 (ptr c v1) v1.len .r else r.1
    (.ok, push s m1 (.prot .locked (if ro then .ro else .rw)) v1 sl.rnd (.locked, if ro then .ro else .rw))

/-- `from_slice_into_locked` / `from_slice_into_readonly_locked` of `n` bytes `0x5a` -/
def doFromSlice (c : Cfg) (s : State) (n : Nat) (ro : Bool) : Res × State :=
  if c.isArr then
    if n ≠ c.n then (.err, s)
    else
      let r := newBytes c s.m
      doNewLocked c s r.1 r.2 (some (List.replicate n 0x5a)) ro false
  else
    let r := vecResize c s.m PVec.empty n
    doNewLocked c s r.1 r.2 (some (List.replicate n 0x5a)) ro false

def probeAddrPage (c : Cfg) (v : PVec) (off : Nat) : Nat := (ptr c v + off) / c.P

/-- access to slot `i` (`noslot` when out of range) -/
def withSlot (s : State) (i : Nat) (f : Slot → Res × State) : Res × State :=
  match s.slots[i]? with
  | none => (.noslot, s)
  | some sl => f sl

/-- access to a slot that must not be `Gone` (a `Gone` slot answers `g`) -/
def withLive (s : State) (i : Nat) (g : Res) (f : Slot → Res × State) : Res × State :=
  withSlot s i fun sl => if sl.gone then (g, s) else f sl

def opNew (c : Cfg) (s : State) : Res × State :=
  let r := newBytes c s.m
  if r.2.len = c.n then (.ok, push s r.1 .plain r.2 false)
  else if c.isArr then (.na, ⟨plainDrop c r.1 r.2, s.slots⟩)  -- unreachable: arrays have `len = n`
  else
    let r2 := vecResize c r.1 r.2 c.n
    (.ok, push s r2.1 .plain r2.2 false)

def opFill (s : State) (i : Nat) (b : UInt8) : Res × State :=
  withLive s i .na fun sl =>
    match sl.o.st with
    | .plain | .prot _ .rw =>
      (.ok, setSlot s s.m i { sl with o := { sl.o with v := fillV sl.o.v b }, rnd := false })
    | _ => (.na, s)

def opLock (c : Cfg) (s : State) (i : Nat) : Res × State :=
  withLive s i .na fun sl =>
    match sl.o.st with
    | .plain => doLock c s i sl recNew .rw          -- `Lockable::mlock`: `new_with(self).mlock()`
    | .prot .unlocked pm => doLock c s i sl sl.o.rcd pm
    | .prot .locked _ => (.na, s)

def opUnlock (c : Cfg) (s : State) (i : Nat) : Res × State :=
  withLive s i .na fun sl =>
    match sl.o.st with
    | .plain => (.na, s)
    | .prot _ pm =>
      -- `dryoc_munlock(..)?; old.lm = Unlocked;`
      (.ok, setSlot s (dryocMunlock c s.m (ptr c sl.o.v) sl.o.v.len) i
              { sl with o := { sl.o with st := .prot .unlocked pm, rcd := (.unlocked, sl.o.rcd.2) } })

/-- `mprotect_readonly` / `mprotect_readwrite` -/
def opProtect (c : Cfg) (s : State) (i : Nat) (pm : PM) : Res × State :=
  withLive s i .na fun sl =>
    match sl.o.st with
    | .plain => (.na, s)
    | .prot lm _ =>
      -- `dryoc_mprotect_*(..)?; old.pm = …;`
      (.ok, setSlot s (dryocMprotect c s.m (ptr c sl.o.v) sl.o.v.len pm.perm) i
              { sl with o := { sl.o with st := .prot lm pm, rcd := (sl.o.rcd.1, pm) } })

/-- `mprotect_noaccess` (unlocked regions only) -/
def opNa (c : Cfg) (s : State) (i : Nat) : Res × State :=
  withLive s i .na fun sl =>
    match sl.o.st with
    | .prot .unlocked _ =>
      -- `dryoc_mprotect_noaccess(..)?; old.pm = NoAccess;`
      (.ok, setSlot s (dryocMprotect c s.m (ptr c sl.o.v) sl.o.v.len .none) i
              { sl with o := { sl.o with st := .prot .unlocked .na, rcd := (sl.o.rcd.1, .na) } })
    | _ => (.na, s)

def opClone (c : Cfg) (s : State) (i : Nat) : Res × State :=
  withLive s i .na fun sl =>
    match sl.o.st with
    | .plain =>
      let r := vecClone c s.m sl.o.v
      (.ok, push s r.1 .plain r.2 sl.rnd)
    | .prot .unlocked .rw =>
      let r := vecClone c s.m sl.o.v
      (.ok, push s r.1 (.prot .unlocked .rw) r.2 sl.rnd)
    | .prot .unlocked .ro =>
      let r := vecClone c s.m sl.o.v
      -- `Unlocked::new_with(a.clone()).mprotect_readonly()`
      (.ok, push s (dryocMprotect c r.1 (ptr c r.2) r.2.len .r) (.prot .unlocked .ro) r.2 sl.rnd (.unlocked, .ro))
    | .prot .locked .rw => if c.isArr then (.na, s) else doCloneLocked c s sl false
    | .prot .locked .ro => if c.isArr then (.na, s) else doCloneLocked c s sl true
    | .prot _ .na => (.na, s)

def opResize (c : Cfg) (s : State) (i : Nat) (n : Nat) (b : UInt8 := 0) : Res × State :=
  withLive s i .na fun sl =>
    if c.isArr then (.na, s) else
    match sl.o.st with
    | .plain | .prot .unlocked .rw =>
      let r := vecResize c s.m sl.o.v n b
      (.ok, setSlot s r.1 i { sl with o := { sl.o with v := r.2 }, rnd := sl.rnd && decide (0 < n) })
    | .prot .locked .rw =>
      let r := lockedResize c s.m sl.o.v sl.o.rcd n b
      match r.2 with
      | none => (.panic, ⟨r.1, s.slots⟩)
      -- `mem::swap(&mut locked.i, &mut self.i)`: the slot now holds the NEW `InternalData`, record `(Locked, ReadWrite)`
      | some nv => (.ok, setSlot s r.1 i { sl with o := { sl.o with v := nv, rcd := (.locked, .rw) },
                                                   rnd := sl.rnd && decide (0 < n) })
    | _ => (.na, s)

def opDrop (c : Cfg) (s : State) (i : Nat) : Res × State :=
  withLive s i .ok fun sl =>
    (.ok, setSlot s (objDrop c s.m sl.o) i { sl with gone := true })

/-- `new_locked` / `gen_locked` / `new_readonly_locked` / `gen_readonly_locked` -/
def opNewLocked (c : Cfg) (s : State) (ro rnd : Bool) : Res × State :=
  let r := newBytes c s.m
  doNewLocked c s r.1 r.2 none ro rnd

def opWProbe (c : Cfg) (s : State) (i off : Nat) : Res × State :=
  withLive s i .na fun sl =>
    if sl.o.v.len = 0 ∨ sl.o.v.len ≤ off then (.na, s)
    else if permChar s.m.k (probeAddrPage c sl.o.v off) == 'w' then (.ok, s) else (.segv, s)

def opRProbe (c : Cfg) (s : State) (i off : Nat) : Res × State :=
  withLive s i .na fun sl =>
    if sl.o.v.len = 0 ∨ sl.o.v.len ≤ off then (.na, s)
    else if accessible (permChar s.m.k (probeAddrPage c sl.o.v off)) then (.ok, s) else (.segv, s)

def opGProbe (c : Cfg) (s : State) (i : Nat) (fore : Bool) : Res × State :=
  withLive s i .na fun sl =>
    if sl.o.v.len = 0 then (.na, s)
    else
      let pg := if fore then sl.o.v.base
        else (scanAfter s.m.k 40 (sl.o.v.base + 1 + pagesOf c.P sl.o.v.len)).2
      if accessible (permChar s.m.k pg) then (.ok, s) else (.segv, s)

/-- `Zeroize::zeroize(&mut self)` on the region in slot `i`: a bare container zeroes its `len` bytes (derived
`Zeroize`); a `Protected` runs `protZeroize` with its RECORD — pages read-write, bytes zeroed, pages unlocked —
through `&mut self`: the value is NOT consumed, its TYPE does not change, and the Rust does not write the record
either (`d.pm` / `d.lm` are only read).  Offered in every type state. -/
def opZeroize (c : Cfg) (s : State) (i : Nat) : Res × State :=
  withLive s i .na fun sl =>
    match sl.o.st with
    | .plain => (.ok, setSlot s s.m i { sl with o := { sl.o with v := zeroizeV sl.o.v }, rnd := false })
    | .prot _ _ =>
      let r := protZeroize c s.m sl.o.v sl.o.rcd.1 sl.o.rcd.2
      (.ok, setSlot s r.1 i { sl with o := { sl.o with v := r.2 }, rnd := false })

/-- `Clone for Locked<T>` / `LockedRO<T>` as a function of the source object (same steps as `doCloneLocked`);
`none` = the clone panicked -/
def cloneLockedObj (c : Cfg) (m : Mach) (o : Obj) (ro : Bool) : Mach × Option Obj :=
  let r := lockedResize c m PVec.empty (.locked, .rw) o.v.len
  match r.2 with
  | none => (r.1, none)
  | some nv =>
    let v1 := writeV nv o.v.data
    let m1 := if ro then dryocMprotect c r.1 (ptr c v1) v1.len .r else r.1
    (m1, some ⟨.prot .locked (if ro then .ro else .rw), v1, (.locked, if ro then .ro else .rw)⟩)

/-- `Clone::clone` of a region, state by state (the same table as `opClone`): `none` = this type state has no
`Clone`; `some (m, none)` = the clone panicked; `some (m, some o)` = the new object -/
def cloneObj (c : Cfg) (m : Mach) (o : Obj) : Option (Mach × Option Obj) :=
  match o.st with
  | .plain => let r := vecClone c m o.v; some (r.1, some ⟨.plain, r.2, recNew⟩)
  | .prot .unlocked .rw => let r := vecClone c m o.v; some (r.1, some ⟨.prot .unlocked .rw, r.2, recNew⟩)
  | .prot .unlocked .ro =>
    let r := vecClone c m o.v
    some (dryocMprotect c r.1 (ptr c r.2) r.2.len .r, some ⟨.prot .unlocked .ro, r.2, (.unlocked, .ro)⟩)
  | .prot .locked .rw => if c.isArr then none else some (cloneLockedObj c m o false)
  | .prot .locked .ro => if c.isArr then none else some (cloneLockedObj c m o true)
  | .prot _ .na => none

def isLockedSt : St → Bool
  | .prot .locked _ => true
  | _ => false

/-- `clonefrom:<j>@<i>` — `slots[i].clone_from(&slots[j])`, the DEFAULT `Clone::clone_from`, i.e.
`*self = src.clone()`: clone `j`, drop the old value of `i`, move the clone in.  `noslot` if either index is out of
range or `j = i`; `n/a` if the two slots are not live regions in the SAME type state, or that state has no `Clone`.
For the two locked forms the harness first asks "is there a `Clone`?" by evaluating `A::clone_locked(src)`: a
temporary clone that lives until the end of the statement, i.e. is dropped AFTER the `clone_from` (or by the
unwinding if that panics). -/
def opCloneFrom (c : Cfg) (s : State) (i j : Nat) : Res × State :=
  if j = i then (.noslot, s) else
  match s.slots[i]?, s.slots[j]? with
  | some d, some src =>
    if d.gone || src.gone || decide (d.o.st ≠ src.o.st) then (.na, s) else
    if isLockedSt src.o.st then
      match cloneObj c s.m src.o with
      | none => (.na, s)
      | some (m1, none) => (.panic, ⟨m1, s.slots⟩)
      | some (m1, some tmp) =>
        match cloneObj c m1 src.o with
        | none => (.na, ⟨objDrop c m1 tmp, s.slots⟩)            -- (never: same state as the probe)
        | some (m2, none) => (.panic, ⟨objDrop c m2 tmp, s.slots⟩)
        | some (m2, some o) =>
          (.ok, setSlot s (objDrop c (objDrop c m2 d.o) tmp) i { d with o := o, rnd := src.rnd })
    else
      match cloneObj c s.m src.o with
      | none => (.na, s)
      | some (m1, none) => (.panic, ⟨m1, s.slots⟩)
      | some (m1, some o) => (.ok, setSlot s (objDrop c m1 d.o) i { d with o := o, rnd := src.rnd })
  | _, _ => (.noslot, s)

/-- `StackByteArray::<N>::from([0x5a; N]).mlock()`: `into()` builds a `HeapByteArray` (`new_byte_array`,
`copy_from_slice`), `new_with(..)` wraps it, `.mlock()` → `Result`.  Only fixed-length arrays have it. -/
def opStackLock (c : Cfg) (s : State) : Res × State :=
  if c.isArr then
    let r := newBytes c s.m
    doNewLocked c s r.1 (writeV r.2 (List.replicate c.n 0x5a)) none false false
  else (.na, s)

/-- `arr[idx] = elem` -/
def setV (v : PVec) (i : Nat) (b : UInt8) : PVec := { v with buf := v.buf.set i b }

/-- the loop of `visit_seq` for `HeapBytes` / `LockedBytes`, `k` more elements `b` to come:
`let idx = arr.len(); arr.resize(idx + 1, 0); arr[idx] = elem;` -/
def seqFill (c : Cfg) (b : UInt8) : Nat → Mach × PVec → Mach × PVec
  | 0, r => r
  | k + 1, r =>
    let r1 := vecResize c r.1 r.2 (r.2.len + 1)
    seqFill c b k (r1.1, setV r1.2 r.2.len b)

/-- `Deserialize for Locked<HeapByteArray<N>>`, `visit_seq` (JSON): `new_locked()` FIRST (a refusal is the error),
then the elements are written one by one; a wrong element count is an error too, and the locked array is dropped -/
def doSerdeArrJson (c : Cfg) (s : State) (n : Nat) : Res × State :=
  let r := newBytes c s.m
  let l := lockV c r.1 r.2 recNew
  if l.2 then
    let v1 := writeV r.2 (List.replicate (min n c.n) 0x5a)
    if n = c.n then (.ok, push s l.1 (.prot .locked .rw) v1 false (.locked, .rw))
    else (.err, ⟨protDrop c l.1 v1 .locked .rw, s.slots⟩)
  else (.err, ⟨l.1, s.slots⟩)

/-- `serde:<json|bincode>:<n>` — decode `n` bytes `0x5a` into the locked form of the container (`bytes_serde.rs`):
* `LockedBytes`, JSON (`visit_seq`): `HeapBytes::default()`, grown byte by byte, then `arr.mlock()`;
* `LockedBytes`, bincode (`visit_bytes`): `HeapBytes::from_slice_into_locked(v)`;
* `Locked<HeapByteArray<N>>`, JSON: `doSerdeArrJson`;
* `Locked<HeapByteArray<N>>`, bincode: length check, then `HeapByteArray::from_slice_into_locked(v)`. -/
def opSerde (c : Cfg) (s : State) (json : Bool) (n : Nat) : Res × State :=
  if json then
    if c.isArr then doSerdeArrJson c s n
    else
      let r := seqFill c 0x5a n (s.m, PVec.empty)
      doNewLocked c s r.1 r.2 none false false
  else doFromSlice c s n false

/-- a token on a state whose release log has been reset -/
def stepCore (c : Cfg) (s : State) (t : Tok) : Res × State :=
  let i := t.idx
  match t.op with
  | .new => opNew c s
  | .wrap => (.na, s)
  | .bad => (.bad, s)
  | .failfrom k => (.ok, ⟨{ s.m with oracle := failOracle k, cnt := 0 }, s.slots⟩)
  | .fill b => opFill s i b
  | .lock => opLock c s i
  | .unlock => opUnlock c s i
  | .ro => opProtect c s i .ro
  | .rw => opProtect c s i .rw
  | .na => opNa c s i
  | .clone => opClone c s i
  | .resize n b => opResize c s i n b
  | .drop => opDrop c s i
  | .fsl n => doFromSlice c s n false
  | .fsro n => doFromSlice c s n true
  | .newlocked => opNewLocked c s false false
  | .genlocked => opNewLocked c s false true
  | .newrolocked => opNewLocked c s true false
  | .genrolocked => opNewLocked c s true true
  | .wprobe off => opWProbe c s i off
  | .rprobe off => opRProbe c s i off
  | .gprobe fore => opGProbe c s i fore
  | .zeroize => opZeroize c s i
  | .clonefrom j => opCloneFrom c s i j
  | .panicdrop => opDrop c s i
  | .stacklock => opStackLock c s
  | .serde json n => opSerde c s json n

def resetRel (s : State) : State := ⟨{ s.m with rel := [] }, s.slots⟩

/-- one harness token (the release log is reset at the beginning of every token) -/
def step (c : Cfg) (s : State) (t : Tok) : Res × State := stepCore c (resetRel s) t

/-- final teardown: `slots.clear()` drops the remaining regions in order -/
def dropAllM (c : Cfg) (m : Mach) : List Slot → Mach
  | [] => m
  | sl :: rest => dropAllM c (if sl.gone then m else objDrop c m sl.o) rest

def finish (c : Cfg) (s : State) : State :=
  ⟨dropAllM c { s.m with rel := [] } s.slots, s.slots.map fun sl => { sl with gone := true }⟩

/-- run a token list, collecting the results and the states after every token -/
def run (c : Cfg) (s : State) : List Tok → List (Res × State)
  | [] => []
  | t :: ts => let r := step c s t; r :: run c r.2 ts

def runState (c : Cfg) (s : State) : List Tok → State
  | [] => s
  | t :: ts => runState c (step c s t).2 ts

/-! ## answer formatter -/

def hex8 (x : Nat) : String :=
  String.ofList ((List.range 8).map fun i => hexDigit ((x / 16 ^ (7 - i)) % 16))

/-- `x = x*31 + (b + (i & 0xff))` on `u32` -/
def checksumAux : Bytes → Nat → Nat → Nat
  | [], _, x => x
  | b :: bs, i, x => checksumAux bs (i + 1) ((x * 31 + (b.toNat + i % 256)) % 4294967296)

def checksum (b : Bytes) : String := hex8 (checksumAux b 0 0)

def stName : St → String
  | .plain => "P"
  | .prot .unlocked .rw => "UR"
  | .prot .unlocked .ro => "URO"
  | .prot .unlocked .na => "UNA"
  | .prot .locked .rw => "LR"
  | .prot .locked .ro => "LRO"
  | .prot .locked .na => "LNA"

def readable : St → Bool
  | .prot _ .na => false
  | _ => true

def describe (c : Cfg) (k : Kernel) (sl : Slot) : String :=
  if sl.gone then "-" else
  let v := sl.o.v
  let perms :=
    if v.len = 0 then "none"
    else
      let np := pagesOf c.P v.len
      let d := v.base + 1
      String.ofList ([permChar k v.base, '|'] ++ (List.range np).map (fun j => permChar k (d + j))
        ++ ['|'] ++ (scanAfter k 40 (d + np)).1)
  let sum :=
    if !readable sl.o.st then "?"
    else if sl.rnd && decide (0 < v.len) then "*"
    else checksum v.data
  stName sl.o.st ++ "," ++ toString v.len ++ "," ++ perms ++ "," ++ sum

def trailer (c : Cfg) (m : Mach) : String :=
  "lck=" ++ toString (lockedPages m.k * c.P / 1024) ++ " rel=" ++
    (if m.rel.isEmpty then "-" else "+".intercalate (m.rel.map fun e => toString e.1 ++ ":" ++ toString e.2))

def showStep (c : Cfg) (r : Res × State) : String :=
  "/".intercalate (r.1.toString :: r.2.slots.map (describe c r.2.m.k)) ++ " " ++ trailer c r.2.m

/-! ## token parser (as `ops_prot.rs`) -/

def splitOnce (s : String) (ch : Char) : Option (String × String) :=
  let cs := s.toList
  if cs.contains ch then
    some (String.ofList (cs.takeWhile (· != ch)), String.ofList ((cs.dropWhile (· != ch)).drop 1))
  else none

/-- `str::parse::<usize>()` (optional leading `+`, decimal digits) -/
def parseNat (s : String) : Option Nat :=
  let cs := match s.toList with
    | '+' :: r => r
    | r => r
  if cs.isEmpty then none else (String.ofList cs).toNat?

/-- `str::parse::<i64>()` -/
def parseInt (s : String) : Option Int :=
  match s.toList with
  | '-' :: r => if r.isEmpty then none else ((String.ofList r).toNat?).map fun n => - (n : Int)
  | _ => (parseNat s).map fun n => (n : Int)

def parseHexU8 (s : String) : Option UInt8 :=
  let cs := match s.toList with
    | '+' :: r => r
    | r => r
  if cs.isEmpty then none else
  match cs.mapM hexVal with
  | some ds =>
    let v := ds.foldl (fun a d => a * 16 + d) 0
    if v < 256 then some (UInt8.ofNat v) else none
  | none => none

def parseTok (tok : String) : Tok :=
  let (t, idx) := match splitOnce tok '@' with
    | some (t, i) => (t, (parseNat i).getD 0)
    | none => (tok, 0)
  let (name, arg) := match splitOnce t ':' with
    | some (n, a) => (n, a)
    | none => (t, "")
  let nat := (parseNat arg).getD 0
  let op : Op :=
    if name == "new" then .new
    else if name == "wrap" then .wrap
    else if name == "fill" then .fill ((parseHexU8 arg).getD 0xa5)
    -- an explicit `Zeroize::zeroize()` on the live region.  The model gives it its real effect in EVERY type state
    -- (`opZeroize`); the runner (`ops_prot.rs`) issues it on plain / unlocked read-write slots only and answers
    -- `n/a` elsewhere; on those slots it is the same state change as `fill:00` (`C14.zeroize_eq_fill_zero`).
    else if name == "zeroize" then .zeroize
    else if name == "clonefrom" then .clonefrom nat
    else if name == "panicdrop" then .panicdrop
    else if name == "stacklock" then .stacklock
    else if name == "serde" then
      -- `arg.split_once(':').unwrap_or(("json", "0"))`; any format other than `json` is decoded with bincode
      match splitOnce arg ':' with
      | some (f, n) => .serde (f == "json") ((parseNat n).getD 0)
      | none => .serde true 0
    else if name == "lock" then .lock
    else if name == "unlock" then .unlock
    else if name == "ro" then .ro
    else if name == "rw" then .rw
    else if name == "na" then .na
    else if name == "clone" then .clone
    else if name == "resize" then
      -- `resize:<n>` (fill byte 0, what the harness does) or, model only, `resize:<n>:<hh>`
      match splitOnce arg ':' with
      | some (n, h) => .resize ((parseNat n).getD 0) ((parseHexU8 h).getD 0)
      | none => .resize nat
    else if name == "drop" then .drop
    else if name == "fsl" then .fsl nat
    else if name == "fsro" then .fsro nat
    else if name == "newlocked" then .newlocked
    else if name == "genlocked" then .genlocked
    else if name == "newrolocked" then .newrolocked
    else if name == "genrolocked" then .genrolocked
    else if name == "failfrom" then
      -- `failfrom:<1000·errno + k>` selects the errno the shim reports; the refusal itself is the same
      let k := (parseInt arg).getD (-1)
      .failfrom (if k ≥ 1000 then k % 1000 else k)
    else if name == "wprobe" then .wprobe nat
    else if name == "rprobe" then .rprobe nat
    else if name == "gprobe" then .gprobe (arg == "fore")
    else .bad
  ⟨op, idx⟩

def arrLens : List Nat := [1, 16, 32, 64, 4095, 4096, 4097, 8192, 8193]

/-- the complete answer of `prot <bytes|arr> <len> tok…` -/
def answer (kind lenArg : String) (toks : List String) : String :=
  let n := (parseNat lenArg).getD 0
  let go (c : Cfg) : String :=
    let s0 := State.init fun _ => true
    let rs := run c s0 (toks.map parseTok)
    let sEnd := finish c (runState c s0 (toks.map parseTok))
    ";".intercalate (rs.map (showStep c) ++ ["end " ++ trailer c sEnd.m])
  if kind == "bytes" then go { isArr := false, n := n }
  else if kind == "arr" && arrLens.contains n then go { isArr := true, n := n }
  else "n/a"

end DryocVerif.Model.Protected
