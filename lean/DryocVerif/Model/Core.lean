import DryocVerif.Bytes
import DryocVerif.Model.Utils
import DryocVerif.Model.OnetimeAuth
/-
Code-shaped models of the remaining hand-written primitives:

* `/repo/src/utils.rs`               `load_u32_le`
* `/repo/src/classic/crypto_core.rs` `crypto_core_hsalsa20`, `crypto_core_hchacha20`
  (with `salsa20_rotl32`, `chacha20_round`, `chacha20_quarterround`)
* `/repo/src/siphash24.rs`           `siphash24` (= `crypto_shorthash`)
* `/repo/src/classic/crypto_auth.rs` `crypto_auth_hmacsha512256_{init,update,final,verify}`
  (HMAC over an abstract hash `H`; the `sha2` crate is a parameter)

Core only, total, compiled into the native driver.
-/
namespace DryocVerif.Model.Core
open DryocVerif
open DryocVerif.Model.Utils (loadU64LE slice)

/-! ### utils.rs -/

/-- `load_u32_le(bytes)`: `bytes[0] as u32 | (bytes[1] as u32) << 8 | (bytes[2] as u32) << 16 |
(bytes[3] as u32) << 24`.  The Rust indexes `bytes[0..=3]` (panics on a shorter slice); every caller
passes a 4-byte slice, the model reads a missing byte as 0 to stay total. -/
def loadU32LE (bytes : Bytes) : UInt32 :=
  (bytes.getD 0 0).toUInt32
    ||| ((bytes.getD 1 0).toUInt32 <<< 8)
    ||| ((bytes.getD 2 0).toUInt32 <<< 16)
    ||| ((bytes.getD 3 0).toUInt32 <<< 24)

/-- `u32::rotate_left(rot)` for `0 < rot < 32` (the only uses: 7, 8, 9, 12, 13, 16, 18) -/
@[inline] def rotateLeft32 (x : UInt32) (rot : UInt32) : UInt32 :=
  (x <<< rot) ||| (x >>> (32 - rot))

/-- `u32::to_le_bytes` -/
@[inline] def u32ToLE (x : UInt32) : Bytes := toLE 4 x.toNat

/-- `u64::to_le_bytes` -/
@[inline] def u64ToLE (x : UInt64) : Bytes := toLE 8 x.toNat

/-- the sixteen local variables `x0 … x15` of `crypto_core_hsalsa20` / `crypto_core_hchacha20` -/
structure X16 where
  x0 : UInt32
  x1 : UInt32
  x2 : UInt32
  x3 : UInt32
  x4 : UInt32
  x5 : UInt32
  x6 : UInt32
  x7 : UInt32
  x8 : UInt32
  x9 : UInt32
  x10 : UInt32
  x11 : UInt32
  x12 : UInt32
  x13 : UInt32
  x14 : UInt32
  x15 : UInt32

/-- `constants.unwrap_or((0x61707865, 0x3320646e, 0x79622d32, 0x6b206574))` -/
def constantsOrDefault (c : Option (UInt32 × UInt32 × UInt32 × UInt32)) :
    UInt32 × UInt32 × UInt32 × UInt32 :=
  c.getD (0x61707865, 0x3320646e, 0x79622d32, 0x6b206574)

/-! ### `crypto_core_hsalsa20` -/

/-- `salsa20_rotl32(x, y, rot)`: `x.wrapping_add(y).rotate_left(rot)` -/
@[inline] def salsa20Rotl32 (x y : UInt32) (rot : UInt32) : UInt32 :=
  rotateLeft32 (x + y) rot

/-- body of `for _ in (0..20).step_by(2) { … }`: the 32 statements, in code order -/
def hsalsa20Body (s : X16) : X16 :=
  let ⟨x0, x1, x2, x3, x4, x5, x6, x7, x8, x9, x10, x11, x12, x13, x14, x15⟩ := s
  let x4 := x4 ^^^ salsa20Rotl32 x0 x12 7
  let x8 := x8 ^^^ salsa20Rotl32 x4 x0 9
  let x12 := x12 ^^^ salsa20Rotl32 x8 x4 13
  let x0 := x0 ^^^ salsa20Rotl32 x12 x8 18
  let x9 := x9 ^^^ salsa20Rotl32 x5 x1 7
  let x13 := x13 ^^^ salsa20Rotl32 x9 x5 9
  let x1 := x1 ^^^ salsa20Rotl32 x13 x9 13
  let x5 := x5 ^^^ salsa20Rotl32 x1 x13 18
  let x14 := x14 ^^^ salsa20Rotl32 x10 x6 7
  let x2 := x2 ^^^ salsa20Rotl32 x14 x10 9
  let x6 := x6 ^^^ salsa20Rotl32 x2 x14 13
  let x10 := x10 ^^^ salsa20Rotl32 x6 x2 18
  let x3 := x3 ^^^ salsa20Rotl32 x15 x11 7
  let x7 := x7 ^^^ salsa20Rotl32 x3 x15 9
  let x11 := x11 ^^^ salsa20Rotl32 x7 x3 13
  let x15 := x15 ^^^ salsa20Rotl32 x11 x7 18
  let x1 := x1 ^^^ salsa20Rotl32 x0 x3 7
  let x2 := x2 ^^^ salsa20Rotl32 x1 x0 9
  let x3 := x3 ^^^ salsa20Rotl32 x2 x1 13
  let x0 := x0 ^^^ salsa20Rotl32 x3 x2 18
  let x6 := x6 ^^^ salsa20Rotl32 x5 x4 7
  let x7 := x7 ^^^ salsa20Rotl32 x6 x5 9
  let x4 := x4 ^^^ salsa20Rotl32 x7 x6 13
  let x5 := x5 ^^^ salsa20Rotl32 x4 x7 18
  let x11 := x11 ^^^ salsa20Rotl32 x10 x9 7
  let x8 := x8 ^^^ salsa20Rotl32 x11 x10 9
  let x9 := x9 ^^^ salsa20Rotl32 x8 x11 13
  let x10 := x10 ^^^ salsa20Rotl32 x9 x8 18
  let x12 := x12 ^^^ salsa20Rotl32 x15 x14 7
  let x13 := x13 ^^^ salsa20Rotl32 x12 x15 9
  let x14 := x14 ^^^ salsa20Rotl32 x13 x12 13
  let x15 := x15 ^^^ salsa20Rotl32 x14 x13 18
  ⟨x0, x1, x2, x3, x4, x5, x6, x7, x8, x9, x10, x11, x12, x13, x14, x15⟩

/-- the variable initialisation of `crypto_core_hsalsa20`:
`(x0, x5, x10, x15) = constants…`, `(x1, x2, x3, x4, x11, x12, x13, x14) = key words`,
`(x6, x7, x8, x9) = input words`.  `key`/`input` are `[u8; 32]`/`[u8; 16]` in the Rust (fixed by
the types); on other lengths the Rust slice expressions would panic, the model stays total. -/
def hsalsa20Init (key inp : Bytes) (c : Option (UInt32 × UInt32 × UInt32 × UInt32)) : X16 :=
  let (x0, x5, x10, x15) := constantsOrDefault c
  let x1 := loadU32LE (slice key 0 4)
  let x2 := loadU32LE (slice key 4 8)
  let x3 := loadU32LE (slice key 8 12)
  let x4 := loadU32LE (slice key 12 16)
  let x11 := loadU32LE (slice key 16 20)
  let x12 := loadU32LE (slice key 20 24)
  let x13 := loadU32LE (slice key 24 28)
  let x14 := loadU32LE (slice key 28 32)
  let x6 := loadU32LE (slice inp 0 4)
  let x7 := loadU32LE (slice inp 4 8)
  let x8 := loadU32LE (slice inp 8 12)
  let x9 := loadU32LE (slice inp 12 16)
  ⟨x0, x1, x2, x3, x4, x5, x6, x7, x8, x9, x10, x11, x12, x13, x14, x15⟩

/-- `crypto_core_hsalsa20(output, input, key, constants)`: returns `output` (32 bytes) -/
def hsalsa20 (key inp : Bytes) (c : Option (UInt32 × UInt32 × UInt32 × UInt32)) : Bytes :=
  let s := Nat.repeat hsalsa20Body 10 (hsalsa20Init key inp c)
  u32ToLE s.x0 ++ u32ToLE s.x5 ++ u32ToLE s.x10 ++ u32ToLE s.x15 ++
  u32ToLE s.x6 ++ u32ToLE s.x7 ++ u32ToLE s.x8 ++ u32ToLE s.x9

/-! ### `crypto_core_hchacha20` -/

/-- `chacha20_round(x, y, z, rot)`: `*x = x.wrapping_add(*y); *z = (*z ^ *x).rotate_left(rot)`;
returns the new `(x, z)` -/
@[inline] def chacha20Round (x y z : UInt32) (rot : UInt32) : UInt32 × UInt32 :=
  let x := x + y
  let z := rotateLeft32 (z ^^^ x) rot
  (x, z)

/-- `chacha20_quarterround(a, b, c, d)`; returns the new `(a, b, c, d)` -/
@[inline] def chacha20QuarterRound (a b c d : UInt32) : UInt32 × UInt32 × UInt32 × UInt32 :=
  let (a, d) := chacha20Round a b d 16
  let (c, b) := chacha20Round c d b 12
  let (a, d) := chacha20Round a b d 8
  let (c, b) := chacha20Round c d b 7
  (a, b, c, d)

/-- body of `for _ in 0..10 { … }`: eight quarter-rounds in code order -/
def hchacha20Body (s : X16) : X16 :=
  let ⟨x0, x1, x2, x3, x4, x5, x6, x7, x8, x9, x10, x11, x12, x13, x14, x15⟩ := s
  let (x0, x4, x8, x12) := chacha20QuarterRound x0 x4 x8 x12
  let (x1, x5, x9, x13) := chacha20QuarterRound x1 x5 x9 x13
  let (x2, x6, x10, x14) := chacha20QuarterRound x2 x6 x10 x14
  let (x3, x7, x11, x15) := chacha20QuarterRound x3 x7 x11 x15
  let (x0, x5, x10, x15) := chacha20QuarterRound x0 x5 x10 x15
  let (x1, x6, x11, x12) := chacha20QuarterRound x1 x6 x11 x12
  let (x2, x7, x8, x13) := chacha20QuarterRound x2 x7 x8 x13
  let (x3, x4, x9, x14) := chacha20QuarterRound x3 x4 x9 x14
  ⟨x0, x1, x2, x3, x4, x5, x6, x7, x8, x9, x10, x11, x12, x13, x14, x15⟩

/-- variable initialisation of `crypto_core_hchacha20`: `(x0..x3) = constants…`,
`(x4..x11) = key words`, `(x12..x15) = input words`.  (The two `assert_eq!`s on the lengths hold by
the array types.) -/
def hchacha20Init (key inp : Bytes) (c : Option (UInt32 × UInt32 × UInt32 × UInt32)) : X16 :=
  let (x0, x1, x2, x3) := constantsOrDefault c
  let x4 := loadU32LE (slice key 0 4)
  let x5 := loadU32LE (slice key 4 8)
  let x6 := loadU32LE (slice key 8 12)
  let x7 := loadU32LE (slice key 12 16)
  let x8 := loadU32LE (slice key 16 20)
  let x9 := loadU32LE (slice key 20 24)
  let x10 := loadU32LE (slice key 24 28)
  let x11 := loadU32LE (slice key 28 32)
  let x12 := loadU32LE (slice inp 0 4)
  let x13 := loadU32LE (slice inp 4 8)
  let x14 := loadU32LE (slice inp 8 12)
  let x15 := loadU32LE (slice inp 12 16)
  ⟨x0, x1, x2, x3, x4, x5, x6, x7, x8, x9, x10, x11, x12, x13, x14, x15⟩

/-- `crypto_core_hchacha20(output, input, key, constants)`: returns `output` (32 bytes) -/
def hchacha20 (key inp : Bytes) (c : Option (UInt32 × UInt32 × UInt32 × UInt32)) : Bytes :=
  let s := Nat.repeat hchacha20Body 10 (hchacha20Init key inp c)
  u32ToLE s.x0 ++ u32ToLE s.x1 ++ u32ToLE s.x2 ++ u32ToLE s.x3 ++
  u32ToLE s.x12 ++ u32ToLE s.x13 ++ u32ToLE s.x14 ++ u32ToLE s.x15

/-! ### siphash24.rs -/

/-- `rotl64(x, b)`: `(x << b) | (x >> (64 - b))` -/
@[inline] def rotl64 (x : UInt64) (b : UInt64) : UInt64 :=
  (x <<< b) ||| (x >>> (64 - b))

/-- the four local variables `v0 … v3` -/
structure V4 where
  v0 : UInt64
  v1 : UInt64
  v2 : UInt64
  v3 : UInt64

/-- the `round` closure: fourteen statements in code order -/
def round (s : V4) : V4 :=
  let ⟨v0, v1, v2, v3⟩ := s
  let v0 := v0 + v1
  let v1 := rotl64 v1 13
  let v1 := v1 ^^^ v0
  let v0 := rotl64 v0 32
  let v2 := v2 + v3
  let v3 := rotl64 v3 16
  let v3 := v3 ^^^ v2
  let v0 := v0 + v3
  let v3 := rotl64 v3 21
  let v3 := v3 ^^^ v0
  let v2 := v2 + v1
  let v1 := rotl64 v1 17
  let v1 := v1 ^^^ v2
  let v2 := rotl64 v2 32
  ⟨v0, v1, v2, v3⟩

/-- `slice.chunks_exact(n)`: the full `n`-byte chunks, front to back; a trailing piece shorter than
`n` is not yielded (`n > 0`; fuel = length suffices) -/
def chunksExactAux (n : Nat) : Nat → Bytes → List Bytes
  | 0, _ => []
  | fuel+1, bs => if bs.length < n then [] else bs.take n :: chunksExactAux n fuel (bs.drop n)

def chunksExact (n : Nat) (bs : Bytes) : List Bytes := chunksExactAux n bs.length bs

/-- `slice.chunks_exact(n).remainder()`: the last `len % n` bytes -/
def chunksExactRemainder (n : Nat) (bs : Bytes) : Bytes := bs.drop (bs.length / n * n)

/-- body of `for chunk in input.chunks_exact(8)`:
`m = load_u64_le(chunk); v3 ^= m; round; round; v0 ^= m` -/
def sipChunk (s : V4) (chunk : Bytes) : V4 :=
  let m := loadU64LE chunk
  let s := { s with v3 := s.v3 ^^^ m }
  let s := round s
  let s := round s
  { s with v0 := s.v0 ^^^ m }

/-- `let mut b = (input.len() as u64) << 56;
for i in (0..remainder.len()).rev() { b |= (remainder[i] as u64) << (i * 8) }` -/
def sipLastWord (len : Nat) (remainder : Bytes) : UInt64 :=
  let b : UInt64 := (UInt64.ofNat len) <<< 56
  (List.range remainder.length).reverse.foldl
    (fun b i => b ||| ((remainder.getD i 0).toUInt64 <<< UInt64.ofNat (i * 8))) b

/-- `siphash24(output, input, key)`: returns `output` (8 bytes).  `key` is `[u8; 16]`. -/
def siphash24 (key input : Bytes) : Bytes :=
  let v0 : UInt64 := 0x736f6d6570736575
  let v1 : UInt64 := 0x646f72616e646f6d
  let v2 : UInt64 := 0x6c7967656e657261
  let v3 : UInt64 := 0x7465646279746573
  let k0 := loadU64LE (key.take 8)   -- `&key[..8]`
  let k1 := loadU64LE (key.drop 8)   -- `&key[8..]`
  let v3 := v3 ^^^ k1
  let v2 := v2 ^^^ k0
  let v1 := v1 ^^^ k1
  let v0 := v0 ^^^ k0
  let s : V4 := ⟨v0, v1, v2, v3⟩
  let s := (chunksExact 8 input).foldl sipChunk s
  let b := sipLastWord input.length (chunksExactRemainder 8 input)
  let s := { s with v3 := s.v3 ^^^ b }
  let s := round s
  let s := round s
  let s := { s with v0 := s.v0 ^^^ b }
  let s := { s with v2 := s.v2 ^^^ 0xff }
  let s := round s
  let s := round s
  let s := round s
  let s := round s
  let b := s.v0 ^^^ s.v1 ^^^ s.v2 ^^^ s.v3
  u64ToLE b

/-! ### crypto_auth.rs (HMAC over an abstract hash `H`)

`H : Bytes → Bytes` stands for SHA-512 of the `sha2` crate (`Sha512::compute_into_bytes`, resp.
`new`/`update`*/`finalize_into_bytes`).  An incremental hash context is modelled as the list of bytes
fed to it so far: sha2's internal block buffering is **not** modelled (it is the `sha2` crate's code, not
dryoc's). -/

/-- `HmacSha512State { octx, ictx }`: the bytes fed so far to each SHA-512 context -/
structure HmacState where
  octx : Bytes
  ictx : Bytes
  deriving Repr, DecidableEq

/-- `for i in 0..n { pad[i] ^= key[i] }` with Rust's bounds checks: `none` = index-out-of-bounds panic -/
def xorLoop (pad key : Bytes) (n : Nat) : Option Bytes :=
  (List.range n).foldlM
    (fun (pad : Bytes) i =>
      match pad[i]?, key[i]? with
      | some p, some k => some (pad.set i (p ^^^ k))
      | _, _ => none)
    pad

/-- `crypto_auth_hmacsha512256_init(key: &[u8])`.

Faithful to the code: when `keylen > 128` the key is replaced by its 64-byte hash `khash`, but both
loops still run `for i in 0..keylen` with the *original* `keylen`, so `key[i]` on the 64-byte
`khash` is out of bounds at `i = 64` → panic.  Every public caller passes a `&[u8; 32]`
(`crypto_auth::Key`), so that branch is unreachable through the API. -/
def hmacInit (H : Bytes → Bytes) (key : Bytes) : Outcome HmacState :=
  let pad : Bytes := List.replicate 128 0x36
  let keylen := key.length
  let key := if keylen > 128 then H key else key
  match xorLoop pad key keylen with
  | none => .panic
  | some pad =>
    let ictx : Bytes := [] ++ pad               -- `Sha512::new(); ictx.update(&pad)`
    let pad : Bytes := List.replicate 128 0x5c          -- `pad.fill(0x5c)` (`pad : [u8; 128]`)
    match xorLoop pad key keylen with
    | none => .panic
    | some pad =>
      let octx : Bytes := [] ++ pad             -- `Sha512::new(); octx.update(&pad)`
      .ok { octx := octx, ictx := ictx }

/-- `crypto_auth_hmacsha512256_update(state, input)`: `state.ictx.update(input)` -/
def hmacUpdate (st : HmacState) (input : Bytes) : HmacState :=
  { st with ictx := st.ictx ++ input }

/-- `crypto_auth_hmacsha512256_final(state, output)`:
`ictx.finalize_into_bytes(&mut ihash); octx.update(&ihash); octx.finalize_into_bytes(&mut ihash);
output.copy_from_slice(&ihash[..32])` -/
def hmacFinal (H : Bytes → Bytes) (st : HmacState) : Bytes :=
  let ihash := H st.ictx
  let octx := st.octx ++ ihash
  let ihash := H octx
  ihash.take 32

/-- `crypto_auth_hmacsha512256(output, message, key)` (= `crypto_auth`): init, update, final -/
def hmac (H : Bytes → Bytes) (key msg : Bytes) : Outcome Bytes :=
  match hmacInit H key with
  | .ok st => .ok (hmacFinal H (hmacUpdate st msg))
  | .err => .err
  | .panic => .panic

/-- the incremental API: `crypto_auth_init`, `crypto_auth_update` per chunk, `crypto_auth_final` -/
def hmacChunks (H : Bytes → Bytes) (key : Bytes) (cs : List Bytes) : Outcome Bytes :=
  match hmacInit H key with
  | .ok st => .ok (hmacFinal H (cs.foldl hmacUpdate st))
  | .err => .err
  | .panic => .panic

/-- `crypto_auth_hmacsha512256_verify(mac, input, key)` (= `crypto_auth_verify`):
`let mut computed_mac = Mac::default(); crypto_auth_hmacsha512256(&mut computed_mac, input, key);
if mac.ct_eq(&computed_mac).unwrap_u8() == 1 { Ok(()) } else { Err(…) }`; `.ok ()` = `Ok(())`, `.err` = `Err(…)`.
The comparison is `subtle`'s `ConstantTimeEq for [u8]` as modelled in `Model.OnetimeAuth.ctEq` (length test, then
the AND of the byte-wise `ct_eq`s), NOT Lean's `=` (it was `if mac = computed` before the third review); that the
two decide the same is a theorem (`Proofs.OnetimeAuth.ctEq_one_iff`, used in `Proofs.Core.hmacVerify_ok_iff` /
`hmacVerify_err_iff`), not part of the definition. -/
def hmacVerify (H : Bytes → Bytes) (mac msg key : Bytes) : Outcome Unit :=
  match hmac H key msg with
  | .ok computed => if Model.OnetimeAuth.ctEq mac computed = 1 then .ok () else .err
  | .err => .err
  | .panic => .panic

end DryocVerif.Model.Core
