import DryocVerif.Model.Entropy
import DryocVerif.Spec.X25519
import DryocVerif.Spec.Ed25519
import DryocVerif.Spec.Base64
/-
The instantiation of `Model.Entropy.Derivers` with the executable specifications, i.e. the
post-processing functions under which the data-flow model is run against dryoc by the
driver (`Driver/Rand.lean` uses exactly `specDerivers`).  Kept out of the driver so that
theorems can mention it.  Core only (no Mathlib): it is linked into the native driver.
-/
namespace DryocVerif.Model.Entropy
open DryocVerif

/-- base64 (no padding) text of the salt, as ASCII bytes -/
def b64Ascii (b : Bytes) : Bytes :=
  (Spec.Base64.encodeChars b).map (fun c => UInt8.ofNat c.toNat)

def specDerivers : Derivers where
  x25519Base := Spec.X25519.x25519Base
  edPublic := Spec.Ed25519.publicKey
  b64 := b64Ascii

end DryocVerif.Model.Entropy
