import DryocVerif.Model.Poly1305
/-
Model of the verification entry points of one-time authentication:

* /repo/src/classic/crypto_onetimeauth.rs  `crypto_onetimeauth_verify` (= `crypto_onetimeauth_poly1305_verify`)
* /repo/src/onetimeauth.rs                 `OnetimeAuth::verify`, `OnetimeAuth::compute_and_verify`
* /repo/src/types.rs                       `ByteArray<16>::as_array` for the containers whose length is not in the type
* `subtle::ConstantTimeEq for [u8]` / `for u8` (dependency code, modelled because the accept/reject decision is
  taken there): length comparison first, then the AND of the byte-wise `ct_eq`s.

`.ok ()` = `Ok(())`, `.err` = `Err("authentication codes do not match")`, `.panic` = a failed `assert!`.
-/
namespace DryocVerif.Model.OnetimeAuth
open DryocVerif
open DryocVerif.Model.Poly1305 (State new update finalize mac)

/-- `impl ConstantTimeEq for u8`: `let x = self ^ other; let y = (x | x.wrapping_neg()) >> 7; (y ^ 1)` -/
def ctEqU8 (a b : UInt8) : UInt8 :=
  let x := a ^^^ b
  let y := (x ||| (0 - x)) >>> 7
  y ^^^ 1

/-- `impl ConstantTimeEq for [T]`:
`if len != rhs.len() { return 0 }; let mut x = 1u8; for (ai, bi) in self.iter().zip(rhs) { x &= ai.ct_eq(bi) }; x` -/
def ctEq (a b : Bytes) : UInt8 :=
  if a.length ≠ b.length then 0
  else (List.zip a b).foldl (fun x p => x &&& ctEqU8 p.1 p.2) 1

/-- `crypto_onetimeauth_verify(mac: &[u8; 16], input, key: &[u8; 32])`:
`Poly1305::new(key); update(input); finalize_to_array(); if mac.ct_eq(&computed_mac).unwrap_u8() == 1 { Ok(()) } else { Err(…) }`.
The Rust types fix `mac` at 16 bytes; the model accepts any list and lets `ct_eq`'s own length test reject the others
(the computed authenticator has 16 bytes). -/
def onetimeauthVerify (key msg tag : Bytes) : Outcome Unit :=
  let poly1305 := new key
  let poly1305 := update poly1305 msg
  let computedMac := finalize poly1305
  if ctEq tag computedMac = 1 then .ok () else .err

/-- `<Vec<u8> | &[u8] | [u8] as ByteArray<16>>::as_array`: `assert!(self.len() >= 16)`, then a view of the FIRST 16 bytes
(`self.as_ptr() as *const [u8; 16]`).  For `[u8; 16]`, `StackByteArray<16>`, `HeapByteArray<16>` it is the identity, which
is the case `tag.length = 16` here. -/
def asArray16 (tag : Bytes) : Outcome Bytes :=
  if tag.length < 16 then .panic else .ok (tag.take 16)

/-- `OnetimeAuth::verify(self, other_mac)`: `let computed_mac: Mac = self.finalize();` then
`other_mac.as_array().ct_eq(computed_mac.as_array())`; `st` is the Poly1305 state inside `self`. -/
def objectVerify (st : State) (otherMac : Bytes) : Outcome Unit :=
  let computedMac := finalize st
  match asArray16 otherMac with
  | .ok arr => if ctEq arr computedMac = 1 then .ok () else .err
  | .err => .err
  | .panic => .panic

/-- `OnetimeAuth::new(key)`, `update(c)` for each chunk, `verify(other_mac)` -/
def objectVerifyChunks (key : Bytes) (cs : List Bytes) (otherMac : Bytes) : Outcome Unit :=
  objectVerify (cs.foldl update (new key)) otherMac

/-- `OnetimeAuth::compute_and_verify(other_mac, key, input)` =
`crypto_onetimeauth_verify(other_mac.as_array(), input.as_slice(), key.as_array())` (32-byte key array) -/
def computeAndVerify (otherMac key msg : Bytes) : Outcome Unit :=
  match asArray16 otherMac with
  | .ok arr => onetimeauthVerify key msg arr
  | .err => .err
  | .panic => .panic

end DryocVerif.Model.OnetimeAuth
