/-
Byte-string helpers shared by specs, models and the driver.  Import-free
(core only) so that the driver links as a native executable.
-/
namespace DryocVerif

abbrev Bytes := List UInt8

/-- little-endian value of a byte string -/
def le : Bytes → Nat
  | [] => 0
  | b :: bs => b.toNat + 256 * le bs

/-- `n` bytes, little-endian, of `v` (truncating) -/
def toLE : Nat → Nat → Bytes
  | 0, _ => []
  | n+1, v => UInt8.ofNat (v % 256) :: toLE n (v / 256)

/-- big-endian value -/
def be (bs : Bytes) : Nat := bs.foldl (fun a b => a * 256 + b.toNat) 0

def toBE (n v : Nat) : Bytes := (toLE n v).reverse

def zeros (n : Nat) : Bytes := List.replicate n 0

def xorBytes (a b : Bytes) : Bytes := List.zipWith (· ^^^ ·) a b

/-- split into chunks of `n` bytes (last may be short); fuel-free structural on length -/
def chunksAux (n : Nat) : Nat → Bytes → List Bytes
  | 0, _ => []
  | fuel+1, bs => if bs.isEmpty then [] else bs.take n :: chunksAux n fuel (bs.drop n)

def chunks (n : Nat) (bs : Bytes) : List Bytes := chunksAux n bs.length bs

/-! hex codec -/

def hexDigit (n : Nat) : Char :=
  if n < 10 then Char.ofNat (48 + n) else Char.ofNat (87 + n)

def toHex (bs : Bytes) : String :=
  String.ofList (bs.foldr (fun b acc => hexDigit (b.toNat / 16) :: hexDigit (b.toNat % 16) :: acc) [])

def hexVal (c : Char) : Option Nat :=
  if '0' ≤ c ∧ c ≤ '9' then some (c.toNat - 48)
  else if 'a' ≤ c ∧ c ≤ 'f' then some (c.toNat - 87)
  else if 'A' ≤ c ∧ c ≤ 'F' then some (c.toNat - 55)
  else none

def ofHexAux : List Char → Option Bytes
  | [] => some []
  | [_] => none
  | a :: b :: rest =>
    match hexVal a, hexVal b, ofHexAux rest with
    | some x, some y, some r => some (UInt8.ofNat (16 * x + y) :: r)
    | _, _, _ => none

/-- "-" denotes the empty string in the line protocol -/
def ofHex (s : String) : Option Bytes :=
  if s == "-" then some [] else ofHexAux s.toList

def hexOrDash (bs : Bytes) : String := if bs.isEmpty then "-" else toHex bs

/-- three-valued result used for everything that can fail or panic in Rust -/
inductive Outcome (α : Type) where
  | ok : α → Outcome α
  | err : Outcome α
  | panic : Outcome α
  deriving Repr, DecidableEq

end DryocVerif
