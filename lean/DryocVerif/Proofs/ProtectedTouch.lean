import DryocVerif.Model.ProtectedTouch
import DryocVerif.Proofs.ProtectedRecord
/-
No byte access of a real operation faults: in every state satisfying `Inv`, `stepTouchesOk c s t = true` for every
token that is not a probe (`touches_stepCore`, `touches_step`); the teardown as well (`touches_finish`).
Counter-models: the drop after a forgetful `ro` / `na` transition DOES fault.
-/
namespace DryocVerif.Proofs.Protected
open DryocVerif DryocVerif.Model.Protected

/-! ### `touchOk` -/

theorem touchOk_iff (P : Nat) (k : Kernel) (base lo hi : Nat) (w : Bool) :
    touchOk P k base lo hi w = true ↔
      (lo < hi → ∀ p, base + 1 + lo / P ≤ p → p < base + 1 + pagesOf P hi → permAllows w (k.perm p) = true) := by
  unfold touchOk
  by_cases h : hi ≤ lo
  · simp only [h, if_true, true_iff]; intro h'; omega
  · simp only [h, if_false, List.all_eq_true, List.mem_range]
    constructor
    · intro hall _ p h1 h2
      have := hall (p - (base + 1 + lo / P)) (by omega)
      have e : base + 1 + lo / P + (p - (base + 1 + lo / P)) = p := by omega
      rwa [e] at this
    · intro hall d hd
      exact hall (by omega) _ (by omega) (by omega)

theorem permAllows_rw (w : Bool) : permAllows w .rw = true := rfl

/-- the page (relative to the first data page) of byte `lo` is among the pages of the first `n > lo` bytes -/
theorem div_lt_pagesOf {P : Nat} (hP : 0 < P) {lo n : Nat} (h : lo < n) : lo / P < pagesOf P n := by
  unfold pagesOf
  apply (Nat.div_lt_iff_lt_mul hP).mpr
  have h1 := Nat.div_add_mod (n + P - 1) P
  have h2 := Nat.mod_lt (n + P - 1) hP
  have e : (n + P - 1) / P * P = P * ((n + P - 1) / P) := Nat.mul_comm _ _
  rw [e]
  omega

/-- an access inside the allocation of a block whose data pages allow it: data pages have the block's permission,
spare pages are read-write -/
theorem BlockOK.touch {P : Nat} (hP : 0 < P) {k : Kernel} {b : Blk} (h : BlockOK P k b) (w : Bool)
    (hw : permAllows w b.dp = true) (lo hi : Nat) (hhi : hi ≤ b.v.cap) :
    touchOk P k b.v.base lo hi w = true := by
  rw [touchOk_iff]
  intro hlt p h1 h2
  have hc : 0 < b.v.cap := by omega
  have hle : pagesOf P hi ≤ b.v.cap / P + 1 := pagesOf_le hP hhi
  have hz := Nat.zero_le (lo / P)
  by_cases hd : p < b.v.base + 1 + pagesOf P b.v.len
  · rw [(h.data p (by omega) hd).1]; exact hw
  · have h3 : b.v.base + 1 + pagesOf P b.v.len ≤ p := by omega
    have h4 : p < b.v.base + b.v.cap / P + 2 := by omega
    rw [(h.spare hc p h3 h4).1]; rfl

/-- an access to data bytes of a block whose data pages do NOT allow it faults -/
theorem BlockOK.touch_false {P : Nat} (hP : 0 < P) {k : Kernel} {b : Blk} (h : BlockOK P k b) (w : Bool)
    (hw : permAllows w b.dp = false) (lo hi : Nat) (hlt : lo < hi) (hlo : lo < b.v.len) :
    touchOk P k b.v.base lo hi w = false := by
  cases hh : touchOk P k b.v.base lo hi w with
  | false => rfl
  | true =>
    exfalso
    rw [touchOk_iff] at hh
    have hpos := div_lt_pagesOf hP hlo
    have hpos' := div_lt_pagesOf hP hlt
    have hz := Nat.zero_le (lo / P)
    have := hh hlt (b.v.base + 1 + lo / P) (Nat.le_refl _) (by omega)
    rw [(h.data _ (by omega) (by omega)).1, hw] at this
    exact Bool.noConfusion this

theorem touch_head {P : Nat} (hP : 0 < P) {k : Kernel} {v : PVec} {dp : Perm} {dl : Bool} {R : List Blk}
    (g : GoodL P k (⟨v, dp, dl⟩ :: R)) (w : Bool) (hw : permAllows w dp = true) (lo hi : Nat) (hhi : hi ≤ v.cap) :
    touchOk P k v.base lo hi w = true :=
  (g.ok _ List.mem_cons_self).touch hP w hw lo hi hhi

theorem touch_second {P : Nat} (hP : 0 < P) {k : Kernel} {b0 : Blk} {v : PVec} {dp : Perm} {dl : Bool} {R : List Blk}
    (g : GoodL P k (b0 :: ⟨v, dp, dl⟩ :: R)) (w : Bool) (hw : permAllows w dp = true) (lo hi : Nat)
    (hhi : hi ≤ v.cap) : touchOk P k v.base lo hi w = true :=
  (g.ok ⟨v, dp, dl⟩ (by simp)).touch hP w hw lo hi hhi

/-! ### allocator, `Vec` -/

/-- the wipe of `deallocate` can never fault: `mprotect_readwrite(region)` precedes it and covers it -/
theorem ok_dealloc {c : Cfg} (hP : 0 < c.P) (m : Mach) (v : PVec) : deallocOk c m v = true := by
  unfold deallocOk
  simp only []
  rw [touchOk_iff]
  intro _ p h1 h2
  rw [Nat.zero_div] at h1
  rw [ptr_eq, mprotect_perm hP, if_pos ⟨by omega, by omega⟩]; rfl

theorem ok_vecDrop {c : Cfg} (hP : 0 < c.P) (m : Mach) (v : PVec) : vecDropOk c m v = true := by
  unfold vecDropOk; split
  · rfl
  · exact ok_dealloc hP m v

theorem ok_vecResize {c : Cfg} (hP : 0 < c.P) {m : Mach} {v : PVec} {R : List Blk}
    (g : GoodL c.P m.k (⟨v, .rw, false⟩ :: R)) (n : Nat) : vecResizeOk c m v n = true := by
  have ho := g.ok _ (List.mem_cons_self)
  have hlen : v.len ≤ v.cap := ho.lenle
  unfold vecResizeOk
  split
  · rfl
  split
  · exact touch_head hP g true rfl _ _ (by assumption)
  · have hg := growCap_ge v.cap n
    have hcap : v.cap ≤ growCap v.cap n := by unfold growCap; omega
    have h1 := good_alloc hP g hg.2 ⟨m.k.brk, growCap v.cap n, n, List.replicate (growCap v.cap n) 0⟩
        rfl rfl hg.1 (by simp)
    have h2 := h1.perm (List.Perm.swap _ _ _)
    have h3 := good_vecDrop hP (b := ⟨v, .rw, false⟩) h2
    simp only [Bool.and_eq_true]
    refine ⟨⟨⟨?_, ?_⟩, ok_vecDrop hP _ _⟩, ?_⟩
    · exact touch_second hP h1 false rfl _ _ (Nat.le_refl _)
    · exact touch_head hP h1 true rfl _ _ hcap
    · exact touch_head hP h3 true rfl _ _ hg.1

theorem ok_vecClone {c : Cfg} (hP : 0 < c.P) {m : Mach} {v : PVec} {dp : Perm} {dl : Bool} {R : List Blk}
    (g : GoodL c.P m.k (⟨v, dp, dl⟩ :: R)) (hr : permAllows false dp = true) : vecCloneOk c m v = true := by
  have ho := g.ok _ (List.mem_cons_self)
  unfold vecCloneOk
  split
  · rfl
  · have h1 := good_alloc hP g (size := v.len) (by omega) ⟨m.k.brk, v.len, v.len, List.replicate v.len 0⟩
        rfl rfl (Nat.le_refl _) (by simp)
    simp only [Bool.and_eq_true]
    exact ⟨touch_second hP h1 false hr _ _ ho.lenle, touch_head hP h1 true rfl _ _ (Nat.le_refl _)⟩

theorem ok_newBytes {c : Cfg} (hP : 0 < c.P) {m : Mach} {R : List Blk} (g : GoodL c.P m.k R) :
    newBytesOk c m = true := by
  unfold newBytesOk
  split
  · exact ok_vecResize hP (good_add_empty hP g _ _) _
  · rfl

/-! ### drops -/

theorem ok_write {c : Cfg} (hP : 0 < c.P) {m : Mach} {v : PVec} {dl : Bool} {R : List Blk}
    (g : GoodL c.P m.k (⟨v, .rw, dl⟩ :: R)) {n : Nat} (hn : n ≤ v.cap) : writeOk c m v n = true :=
  touch_head hP g true rfl _ _ hn

theorem ok_plainDrop {c : Cfg} (hP : 0 < c.P) {m : Mach} {v : PVec} {dl : Bool} {R : List Blk}
    (g : GoodL c.P m.k (⟨v, .rw, dl⟩ :: R)) : plainDropOk c m v = true := by
  unfold plainDropOk
  simp only [Bool.and_eq_true]
  exact ⟨ok_write hP g (g.ok _ (List.mem_cons_self)).lenle, ok_vecDrop hP _ _⟩

/-- the wipe of `Zeroize for Protected` hits writable pages as soon as "the record says `ReadWrite`" implies "the
pages are read-write" -/
theorem ok_protZeroize {c : Cfg} (hP : 0 < c.P) {m : Mach} {v : PVec} {dp : Perm} {dl : Bool} {R : List Blk}
    (g : GoodL c.P m.k (⟨v, dp, dl⟩ :: R)) (pm : PM) (h : pm = .rw → dp = .rw) : protZeroizeOk c m v pm = true := by
  have g1 := good_protAtWipe hP g pm
  have e : wipePerm pm dp = .rw := by
    unfold wipePerm; split
    · exact h ‹_›
    · rfl
  rw [e] at g1
  exact ok_write hP g1 (g.ok _ (List.mem_cons_self)).lenle

theorem ok_protDrop {c : Cfg} (hP : 0 < c.P) {m : Mach} {v : PVec} {dp : Perm} {dl : Bool} {R : List Blk}
    (g : GoodL c.P m.k (⟨v, dp, dl⟩ :: R)) (lm : LM) (pm : PM) (h : pm = .rw → dp = .rw) :
    protDropOk c m v lm pm = true := by
  have g1 := good_protZeroize hP g lm pm
  have e : wipePerm pm dp = .rw := by
    unfold wipePerm; split
    · exact h ‹_›
    · rfl
  rw [e] at g1
  unfold protDropOk
  simp only [Bool.and_eq_true]
  exact ⟨ok_protZeroize hP g pm h, ok_plainDrop hP g1⟩

/-- the drop of a region whose record tracks its type -/
theorem ok_objDrop {c : Cfg} (hP : 0 < c.P) {m : Mach} {o : Obj} {R : List Blk}
    (g : GoodL c.P m.k (blkOf o :: R)) (hrc : ∀ lm pm, o.st = .prot lm pm → o.rcd = (lm, pm)) :
    objDropOk c m o = true := by
  unfold objDropOk
  split
  · rename_i hst
    simp only [blkOf, hst, stPerm] at g
    exact ok_plainDrop hP g
  · rename_i lm pm hst
    simp only [blkOf, hst, stPerm] at g
    refine ok_protDrop hP g _ _ ?_
    rw [hrc lm pm hst]
    intro h; simp only [] at h; rw [h]; rfl

/-! ### lock, locked resize -/

/-- the error path of `mlock()` (the consumed region is dropped) touches only writable pages -/
theorem ok_lockV {c : Cfg} (hP : 0 < c.P) {m : Mach} {v : PVec} {dp : Perm} {R : List Blk}
    (g : GoodL c.P m.k (⟨v, dp, false⟩ :: R)) (rc : LM × PM) (h : rc.2 = .rw → dp = .rw) :
    lockVOk c m v rc = true := by
  unfold lockVOk
  simp only []
  split
  · rfl
  · exact ok_protDrop hP (good_dryocMlock hP g).1 _ _ h

theorem ok_lockedResize {c : Cfg} (hP : 0 < c.P) {m : Mach} {v : PVec} {dl : Bool} {R : List Blk}
    (g : GoodL c.P m.k (⟨v, .rw, dl⟩ :: R)) (rc : LM × PM) (n : Nat) (b : UInt8) :
    lockedResizeOk c m v rc n b = true := by
  have ho := g.ok _ (List.mem_cons_self)
  have g0 := good_add_empty hP g .rw false
  have g1 := good_vecResize hP g0 n b
  have g2 := good_lockV hP g1 recNew
  have hcap : n ≤ (vecResize c m PVec.empty n b).2.cap := by
    have hh := (g1.ok _ (List.mem_cons_self)).lenle
    simp only [vecResize_len] at hh; exact hh
  unfold lockedResizeOk
  simp only [Bool.and_eq_true]
  refine ⟨⟨ok_vecResize hP g0 n, ok_lockV hP g1 recNew (fun _ => rfl)⟩, ?_⟩
  split
  · rename_i hr
    have g3 := g2.1 hr
    simp only [Bool.and_eq_true]
    refine ⟨⟨?_, ?_⟩, ?_⟩
    · exact touch_second hP g3 false rfl _ _ (by have := ho.lenle; simp only [] at this; omega)
    · exact touch_head hP g3 true rfl _ _ (by omega)
    · have g4 := good_setbuf (v' := writeV (vecResize c m PVec.empty n b).2 (v.data.take n)) hP g3
        rfl rfl rfl (writeV_buf_length _ _)
      exact ok_protDrop hP (g4.perm (List.Perm.swap _ _ _)) _ _ (fun _ => rfl)
  · rfl

/-! ### harness tokens -/

theorem liveOk_elim {s : State} {i : Nat} {f : Slot → Bool}
    (hf : ∀ sl l1 l2, s.slots = l1 ++ sl :: l2 → l1.length = i → sl.gone = false → f sl = true) :
    liveOk s i f = true := by
  unfold liveOk
  split
  · rfl
  · rename_i sl hsl
    obtain ⟨l1, l2, h1, h2⟩ := slot_split hsl
    cases hg : sl.gone with
    | true => rfl
    | false => simp only [Bool.false_or]; exact hf sl l1 l2 h1 h2 hg

theorem ok_doNewLocked {c : Cfg} (hP : 0 < c.P) {m : Mach} {v : PVec} {R : List Blk}
    (g : GoodL c.P m.k (⟨v, .rw, false⟩ :: R)) (src : Option Bytes) (rnd : Bool)
    (hsrc : ∀ b, src = some b → b.length ≤ v.cap) : doNewLockedOk c m v src rnd = true := by
  have gl := good_lockV hP g recNew
  have ho := g.ok _ (List.mem_cons_self)
  unfold doNewLockedOk
  simp only [Bool.and_eq_true]
  refine ⟨ok_lockV hP g recNew (fun _ => rfl), ?_⟩
  split
  · rename_i hr
    have g1 := gl.1 hr
    simp only [Bool.and_eq_true]
    refine ⟨?_, ?_⟩
    · cases src with
      | none => rfl
      | some b => exact ok_write hP g1 (hsrc b rfl)
    · split
      · exact ok_write hP g1 ho.lenle
      · rfl
  · rfl

/-- `Clone for Locked…`: the source is read (its data pages must be readable), the copy is written -/
theorem ok_doCloneLocked {c : Cfg} (hP : 0 < c.P) {m : Mach} {src : PVec} {dp : Perm} {dl : Bool} {R : List Blk}
    (g : GoodL c.P m.k (⟨src, dp, dl⟩ :: R)) (hr : permAllows false dp = true) :
    doCloneLockedOk c m src = true := by
  have ho := g.ok _ (List.mem_cons_self)
  have g0 := good_add_empty hP g .rw false
  have gl := good_lockedResize hP g0 (.locked, .rw) src.len
  unfold doCloneLockedOk
  simp only [Bool.and_eq_true]
  refine ⟨ok_lockedResize hP g0 _ _ _, ?_⟩
  cases hn : (lockedResize c m PVec.empty (.locked, .rw) src.len).2 with
  | none => rfl
  | some nv =>
    simp only [hn] at gl ⊢
    have hl := (lockedResize_some (v := PVec.empty) (by simp [PVec.empty]) hn).1
    have hcap : src.len ≤ nv.cap := by
      have := (gl.ok _ (List.mem_cons_self)).lenle
      simp only [] at this; omega
    simp only [Bool.and_eq_true]
    exact ⟨touch_second hP gl false hr _ _ ho.lenle, ok_write hP gl hcap⟩

theorem ok_doFromSlice {c : Cfg} (hP : 0 < c.P) {s : State} (h : InvK c s) (n : Nat) :
    doFromSliceOk c s n = true := by
  unfold doFromSliceOk
  split
  · split
    · rfl
    · rename_i hn
      have hn' : n = c.n := by simpa using hn
      have g1 := good_newBytes hP (m := s.m) h
      simp only [Bool.and_eq_true]
      refine ⟨ok_newBytes hP h, ok_doNewLocked hP g1 _ _ ?_⟩
      intro b hb
      simp only [Option.some.injEq] at hb
      rw [← hb, List.length_replicate]
      have := (g1.ok _ (List.mem_cons_self)).lenle
      have hl : (newBytes c s.m).2.len = c.n := by
        unfold newBytes; simp only [*, if_true]; exact vecResize_len ..
      simp only [] at this; omega
  · have g0 := good_add_empty hP (k := s.m.k) h .rw false
    have g1 := good_vecResize hP g0 n
    simp only [Bool.and_eq_true]
    refine ⟨ok_vecResize hP g0 n, ok_doNewLocked hP g1 _ _ ?_⟩
    intro b hb
    simp only [Option.some.injEq] at hb
    rw [← hb, List.length_replicate]
    have := (g1.ok _ (List.mem_cons_self)).lenle
    rw [vecResize_len] at this; exact this

theorem ok_opNew {c : Cfg} (hP : 0 < c.P) {s : State} (h : InvK c s) : opNewOk c s = true := by
  have g1 := good_newBytes hP (m := s.m) h
  unfold opNewOk
  simp only [Bool.and_eq_true]
  refine ⟨ok_newBytes hP h, ?_⟩
  split
  · rfl
  split
  · exact ok_plainDrop hP g1
  · exact ok_vecResize hP g1 _

theorem ok_opNewLocked {c : Cfg} (hP : 0 < c.P) {s : State} (h : InvK c s) (rnd : Bool) :
    opNewLockedOk c s rnd = true := by
  unfold opNewLockedOk
  simp only [Bool.and_eq_true]
  exact ⟨ok_newBytes hP h, ok_doNewLocked hP (good_newBytes hP (m := s.m) h) _ _ (by simp)⟩

theorem ok_opFill {c : Cfg} (hP : 0 < c.P) {s : State} (h : InvK c s) (i : Nat) : opFillOk c s i = true := by
  unfold opFillOk
  apply liveOk_elim
  intro sl l1 l2 hs hi hg
  have g := good_head hs hg h
  have hl := (g.ok _ (List.mem_cons_self)).lenle
  split
  · rename_i hst
    simp only [blkOf, hst, stPerm] at g hl
    exact ok_write hP g hl
  · rename_i lm hst
    simp only [blkOf, hst, stPerm, PM.perm] at g hl
    exact ok_write hP g hl
  · rfl

theorem ok_opLock {c : Cfg} (hP : 0 < c.P) {s : State} (h : InvK c s) (hrec : RecOK s) (i : Nat) :
    opLockOk c s i = true := by
  unfold opLockOk
  apply liveOk_elim
  intro sl l1 l2 hs hi hg
  have g := good_head hs hg h
  split
  · rename_i hst
    simp only [blkOf, hst, stPerm, stLocked] at g
    exact ok_lockV hP g recNew (fun _ => rfl)
  · rename_i pm hst
    simp only [blkOf, hst, stPerm, stLocked] at g
    refine ok_lockV hP g _ ?_
    rw [hrec sl (mem_split hs) hg _ _ hst]
    intro hh; simp only [] at hh; rw [hh]; rfl
  · rfl

theorem ok_opClone {c : Cfg} (hP : 0 < c.P) {s : State} (h : InvK c s) (i : Nat) : opCloneOk c s i = true := by
  unfold opCloneOk
  apply liveOk_elim
  intro sl l1 l2 hs hi hg
  have gh := good_head hs hg h
  split
  · rename_i hst
    simp only [blkOf, hst, stPerm] at gh
    exact ok_vecClone hP gh rfl
  · rename_i hst
    simp only [blkOf, hst, stPerm, PM.perm] at gh
    exact ok_vecClone hP gh rfl
  · rename_i hst
    simp only [blkOf, hst, stPerm, PM.perm] at gh
    exact ok_vecClone hP gh rfl
  · rename_i hst
    split
    · rfl
    · simp only [blkOf, hst, stPerm, PM.perm] at gh
      exact ok_doCloneLocked hP gh rfl
  · rename_i hst
    split
    · rfl
    · simp only [blkOf, hst, stPerm, PM.perm] at gh
      exact ok_doCloneLocked hP gh rfl
  · rfl

theorem ok_opResize {c : Cfg} (hP : 0 < c.P) {s : State} (h : InvK c s) (i n : Nat) (b : UInt8) :
    opResizeOk c s i n b = true := by
  unfold opResizeOk
  apply liveOk_elim
  intro sl l1 l2 hs hi hg
  have g := good_head hs hg h
  split
  · rfl
  split
  · rename_i hst
    simp only [blkOf, hst, stPerm, stLocked] at g
    exact ok_vecResize hP g n
  · rename_i hst
    simp only [blkOf, hst, stPerm, stLocked, PM.perm] at g
    exact ok_vecResize hP g n
  · rename_i hst
    simp only [blkOf, hst, stPerm, PM.perm] at g
    exact ok_lockedResize hP g _ _ _
  · rfl

theorem ok_opDrop {c : Cfg} (hP : 0 < c.P) {s : State} (h : InvK c s) (hrec : RecOK s) (i : Nat) :
    opDropOk c s i = true := by
  unfold opDropOk
  apply liveOk_elim
  intro sl l1 l2 hs hi hg
  exact ok_objDrop hP (good_head hs hg h) (hrec sl (mem_split hs) hg)

theorem ok_opZeroize {c : Cfg} (hP : 0 < c.P) {s : State} (h : InvK c s) (hrec : RecOK s) (i : Nat) :
    opZeroizeOk c s i = true := by
  unfold opZeroizeOk
  apply liveOk_elim
  intro sl l1 l2 hs hi hg
  have g := good_head hs hg h
  split
  · rename_i hst
    simp only [blkOf, hst, stPerm] at g
    exact ok_write hP g (g.ok _ (List.mem_cons_self)).lenle
  · rename_i lm pm hst
    simp only [blkOf, hst, stPerm] at g
    refine ok_protZeroize hP g _ ?_
    rw [hrec sl (mem_split hs) hg _ _ hst]
    intro hh; simp only [] at hh; rw [hh]; rfl

/-- `Clone::clone` of a region (`clone_from`): the source's data pages must be readable, which its type state
guarantees for every state that has a `Clone` -/
theorem ok_cloneObj {c : Cfg} (hP : 0 < c.P) {m : Mach} {o : Obj} {R : List Blk}
    (g : GoodL c.P m.k (blkOf o :: R)) : cloneObjOk c m o = true := by
  unfold cloneObjOk
  split
  · rename_i hst
    simp only [blkOf, hst, stPerm] at g
    exact ok_vecClone hP g rfl
  · rename_i hst
    simp only [blkOf, hst, stPerm, PM.perm] at g
    exact ok_vecClone hP g rfl
  · rename_i hst
    simp only [blkOf, hst, stPerm, PM.perm] at g
    exact ok_vecClone hP g rfl
  · rename_i hst
    split
    · rfl
    · simp only [blkOf, hst, stPerm, PM.perm] at g
      exact ok_doCloneLocked hP g rfl
  · rename_i hst
    split
    · rfl
    · simp only [blkOf, hst, stPerm, PM.perm] at g
      exact ok_doCloneLocked hP g rfl
  · rfl

theorem ok_opCloneFrom {c : Cfg} (hP : 0 < c.P) {s : State} (h : InvK c s) (hrec : RecOK s) (i j : Nat) :
    opCloneFromOk c s i j = true := by
  unfold opCloneFromOk
  split
  · rfl
  split
  · rename_i d src hd hsrc
    split
    · rfl
    rename_i hcond
    simp only [Bool.or_eq_true, decide_eq_true_eq, not_or] at hcond
    have hg : d.gone = false := by simpa using hcond.1.1
    have hgs : src.gone = false := by simpa using hcond.1.2
    obtain ⟨l1, l2, hs, hi⟩ := slot_split hd
    obtain ⟨k1, k2, hss, hj⟩ := slot_split hsrc
    have hrd := hrec d (mem_split hs) hg
    -- the source block at the head of the live blocks (any machine in which the live blocks are good)
    have srcHead : ∀ {m : Mach} {X : List Blk}, GoodL c.P m.k (X ++ blks s.slots) →
        GoodL c.P m.k (blkOf src.o :: (X ++ (blks k1 ++ blks k2))) := by
      intro m X gm
      have hp := blks_mid_live (sl := src) hgs k1 k2
      rw [← hss] at hp
      exact gm.perm ((List.Perm.append_left X hp).trans List.perm_middle)
    have dHead : ∀ {m : Mach} {X : List Blk}, GoodL c.P m.k (X ++ blks s.slots) →
        GoodL c.P m.k (blkOf d.o :: (X ++ (blks l1 ++ blks l2))) := by
      intro m X gm
      have hp := blks_mid_live (sl := d) hg l1 l2
      rw [← hs] at hp
      exact gm.perm ((List.Perm.append_left X hp).trans List.perm_middle)
    have gp := good_cloneObj hP (m := s.m) h src.o
    have ok1 : cloneObjOk c s.m src.o = true := ok_cloneObj hP (srcHead (X := []) h)
    split
    · -- locked forms: probe clone first
      simp only [Bool.and_eq_true]
      refine ⟨ok1, ?_⟩
      cases hp : cloneObj c s.m src.o with
      | none => rfl
      | some r1 =>
        obtain ⟨m1, ot⟩ := r1
        cases ot with
        | none => rfl
        | some tmp =>
          simp only [hp, CloneSpec] at gp ⊢
          have hrt := (cloneObj_st hp).2
          have gq := good_cloneObj hP (m := m1) gp src.o
          have ok2 : cloneObjOk c m1 src.o = true := ok_cloneObj hP (srcHead (X := [blkOf tmp]) gp)
          simp only [Bool.and_eq_true]
          refine ⟨ok2, ?_⟩
          cases hq : cloneObj c m1 src.o with
          | none => exact ok_objDrop hP gp hrt
          | some r2 =>
            obtain ⟨m2, oo⟩ := r2
            cases oo with
            | none =>
              simp only [hq, CloneSpec] at gq ⊢
              exact ok_objDrop hP gq hrt
            | some o =>
              simp only [hq, CloneSpec] at gq ⊢
              simp only [Bool.and_eq_true]
              have gd := dHead (X := [blkOf o, blkOf tmp]) gq
              refine ⟨ok_objDrop hP gd hrd, ?_⟩
              have g2 := good_objDrop hP (o := d.o) gd
              exact ok_objDrop hP (g2.perm (List.Perm.swap _ _ _)) hrt
    · simp only [Bool.and_eq_true]
      refine ⟨ok1, ?_⟩
      cases hp : cloneObj c s.m src.o with
      | none => rfl
      | some r1 =>
        obtain ⟨m1, oo⟩ := r1
        cases oo with
        | none => rfl
        | some o =>
          simp only [hp, CloneSpec] at gp ⊢
          exact ok_objDrop hP (dHead (X := [blkOf o]) gp) hrd
  · rfl

theorem ok_opStackLock {c : Cfg} (hP : 0 < c.P) {s : State} (h : InvK c s) : opStackLockOk c s = true := by
  unfold opStackLockOk
  split
  · rename_i ha
    have g1 := good_newBytes hP (m := s.m) h
    have hl : (newBytes c s.m).2.len = c.n := by
      unfold newBytes; simp only [ha, if_true]; exact vecResize_len ..
    have hcap : c.n ≤ (newBytes c s.m).2.cap := by
      have := (g1.ok _ (List.mem_cons_self)).lenle
      simp only [] at this; omega
    simp only [Bool.and_eq_true]
    refine ⟨⟨ok_newBytes hP h, ok_write hP g1 hcap⟩, ?_⟩
    exact ok_doNewLocked hP
      (good_setbuf (v' := writeV (newBytes c s.m).2 (List.replicate c.n 0x5a)) hP g1 rfl rfl rfl
        (writeV_buf_length _ _)) _ _ (by simp)
  · rfl

theorem ok_seqFill {c : Cfg} (hP : 0 < c.P) (b : UInt8) {R : List Blk} (k : Nat) : ∀ (r : Mach × PVec),
    GoodL c.P r.1.k (⟨r.2, .rw, false⟩ :: R) → seqFillOk c b k r = true := by
  induction k with
  | zero => intro r _; rfl
  | succ k ih =>
    intro r g
    have g1 := good_vecResize hP g (r.2.len + 1)
    have hcap : r.2.len + 1 ≤ (vecResize c r.1 r.2 (r.2.len + 1)).2.cap := by
      have := (g1.ok _ (List.mem_cons_self)).lenle
      rw [vecResize_len] at this; exact this
    simp only [seqFillOk, Bool.and_eq_true]
    refine ⟨⟨ok_vecResize hP g _, touch_head hP g1 true rfl _ _ hcap⟩, ?_⟩
    exact ih _ (good_setbuf hP g1 rfl rfl rfl (setV_buf_length _ _ _))

theorem ok_doSerdeArrJson {c : Cfg} (hP : 0 < c.P) {s : State} (h : InvK c s) (ha : c.isArr = true) (n : Nat) :
    doSerdeArrJsonOk c s n = true := by
  have g := good_newBytes hP (m := s.m) h
  have gl := good_lockV hP g recNew
  unfold doSerdeArrJsonOk
  simp only [Bool.and_eq_true]
  refine ⟨⟨ok_newBytes hP h, ok_lockV hP g recNew (fun _ => rfl)⟩, ?_⟩
  split
  · rename_i hr
    have g1 := gl.1 hr
    have hcap : min n c.n ≤ (newBytes c s.m).2.cap := by
      have := (g.ok _ (List.mem_cons_self)).lenle
      have hl : (newBytes c s.m).2.len = c.n := by
        unfold newBytes; simp only [ha, if_true]; exact vecResize_len ..
      simp only [] at this; omega
    simp only [Bool.and_eq_true]
    refine ⟨ok_write hP g1 hcap, ?_⟩
    split
    · rfl
    · have g2 := good_setbuf (v' := writeV (newBytes c s.m).2 (List.replicate (min n c.n) 0x5a)) hP g1
        rfl rfl rfl (writeV_buf_length _ _)
      exact ok_protDrop hP g2 _ _ (fun _ => rfl)
  · rfl

theorem ok_opSerde {c : Cfg} (hP : 0 < c.P) {s : State} (h : InvK c s) (json : Bool) (n : Nat) :
    opSerdeOk c s json n = true := by
  unfold opSerdeOk
  split
  · split
    · exact ok_doSerdeArrJson hP h ‹_› n
    · have g0 := good_add_empty hP (k := s.m.k) h .rw false
      simp only [Bool.and_eq_true]
      exact ⟨ok_seqFill hP 0x5a n (s.m, PVec.empty) g0,
        ok_doNewLocked hP (good_seqFill hP 0x5a n (s.m, PVec.empty) g0) _ _ (by simp)⟩
  · exact ok_doFromSlice hP h n

/-! ### `step`, the teardown -/

theorem probe_ok_of_ne {r : Res} (h : r ≠ .segv) : (r != .segv) = true := by
  cases r <;> simp at h ⊢

/-- **no byte access of a token faults** (state satisfying the invariant; for a probe token the statement is
"the probe does not answer `segv`", which is what its hypothesis `hnp` says) -/
theorem touches_stepCore {c : Cfg} (hP : 0 < c.P) {s : State} (h : InvK c s) (hrec : RecOK s) (t : Tok)
    (hnp : isProbe t.op = true → (stepCore c s t).1 ≠ .segv) : stepCoreTouchesOk c s t = true := by
  unfold stepCoreTouchesOk
  unfold stepCore at hnp
  cases hop : t.op <;> simp only [hop] at hnp ⊢
  case new => exact ok_opNew hP h
  case fill b => exact ok_opFill hP h _
  case lock => exact ok_opLock hP h hrec _
  case clone => exact ok_opClone hP h _
  case resize n b => exact ok_opResize hP h _ _ _
  case drop => exact ok_opDrop hP h hrec _
  case panicdrop => exact ok_opDrop hP h hrec _
  case fsl n => exact ok_doFromSlice hP h _
  case fsro n => exact ok_doFromSlice hP h _
  case newlocked => exact ok_opNewLocked hP h _
  case genlocked => exact ok_opNewLocked hP h _
  case newrolocked => exact ok_opNewLocked hP h _
  case genrolocked => exact ok_opNewLocked hP h _
  case wprobe off => exact probe_ok_of_ne (hnp rfl)
  case rprobe off => exact probe_ok_of_ne (hnp rfl)
  case gprobe f => exact probe_ok_of_ne (hnp rfl)
  case zeroize => exact ok_opZeroize hP h hrec _
  case clonefrom j => exact ok_opCloneFrom hP h hrec _ _
  case stacklock => exact ok_opStackLock hP h
  case serde js n => exact ok_opSerde hP h _ _

theorem touches_step {c : Cfg} (hP : 0 < c.P) {s : State} (h : Inv c s) (t : Tok) (hnp : isProbe t.op = false) :
    stepTouchesOk c s t = true :=
  touches_stepCore hP (s := resetRel s) h.k h.rcd t (fun hp => by rw [hnp] at hp; exact Bool.noConfusion hp)

/-- `Res.segv` is produced by the probe tokens only -/
theorem step_ne_segv (c : Cfg) (s : State) (t : Tok) (hnp : isProbe t.op = false) : (step c s t).1 ≠ .segv := by
  have live : ∀ (s : State) (i : Nat) (g : Res) (f : Slot → Res × State), g ≠ .segv → (∀ sl, (f sl).1 ≠ .segv) →
      (withLive s i g f).1 ≠ .segv := by
    intro s i g f hg hf
    apply withLive_elim (Q := fun r => r.1 ≠ .segv)
    · simp
    · exact hg
    · intro sl _ _ _ _ _; exact hf sl
  have newl : ∀ (s : State) (m : Mach) (v : PVec) (src : Option Bytes) (ro rnd : Bool),
      (doNewLocked c s m v src ro rnd).1 ≠ .segv := by
    intro s m v src ro rnd
    rcases doNewLocked_res c s m v src ro rnd with h | h <;> simp [h]
  have froms : ∀ (s : State) (n : Nat) (ro : Bool), (doFromSlice c s n ro).1 ≠ .segv := by
    intro s n ro
    rcases doFromSlice_res c s n ro with h | h <;> simp [h]
  have dolock : ∀ (s : State) (i : Nat) (sl : Slot) (rc : LM × PM) (pm : PM), (doLock c s i sl rc pm).1 ≠ .segv := by
    intro s i sl rc pm
    rcases doLock_res c s i sl rc pm with h | h <;> simp [h]
  have clonel : ∀ (s : State) (sl : Slot) (ro : Bool), (doCloneLocked c s sl ro).1 ≠ .segv := by
    intro s sl ro; unfold doCloneLocked; simp only []; split <;> simp
  unfold step stepCore
  cases hop : t.op <;> simp [hop, isProbe] at hnp <;> simp only []
  case new => unfold opNew; simp only []; split
              · simp
              · split <;> simp
  case wrap => simp
  case bad => simp
  case failfrom k => simp
  case fill b => unfold opFill; apply live _ _ _ _ (by simp); intro sl; split <;> simp
  case lock =>
    unfold opLock; apply live _ _ _ _ (by simp); intro sl
    split
    · exact dolock _ _ _ _ _
    · exact dolock _ _ _ _ _
    · simp
  case unlock => unfold opUnlock; apply live _ _ _ _ (by simp); intro sl; split <;> simp
  case ro => unfold opProtect; apply live _ _ _ _ (by simp); intro sl; split <;> simp
  case rw => unfold opProtect; apply live _ _ _ _ (by simp); intro sl; split <;> simp
  case na => unfold opNa; apply live _ _ _ _ (by simp); intro sl; split <;> simp
  case clone =>
    unfold opClone; apply live _ _ _ _ (by simp); intro sl
    split
    · simp
    · simp
    · simp
    · split
      · simp
      · exact clonel _ _ _
    · split
      · simp
      · exact clonel _ _ _
    · simp
  case resize n b =>
    unfold opResize; apply live _ _ _ _ (by simp); intro sl
    split
    · simp
    split
    · simp
    · simp
    · simp only []; split <;> simp
    · simp
  case drop => unfold opDrop; apply live _ _ _ _ (by simp); intro sl; simp
  case panicdrop => unfold opDrop; apply live _ _ _ _ (by simp); intro sl; simp
  case fsl n => exact froms _ _ _
  case fsro n => exact froms _ _ _
  case newlocked => exact newl _ _ _ _ _ _
  case genlocked => exact newl _ _ _ _ _ _
  case newrolocked => exact newl _ _ _ _ _ _
  case genrolocked => exact newl _ _ _ _ _ _
  case zeroize => unfold opZeroize; apply live _ _ _ _ (by simp); intro sl; split <;> simp
  case clonefrom j =>
    unfold opCloneFrom
    split
    · simp
    split
    · split
      · simp
      split
      · split
        · simp
        · simp
        · split <;> simp
      · split <;> simp
    · simp
  case stacklock =>
    rcases opStackLock_res c (resetRel s) with h1 | h1 | h1 <;> simp [h1]
  case serde js n =>
    rcases opSerde_res c (resetRel s) js n with h1 | h1 <;> simp [h1]

/-- a probe token answers `noslot`, `n/a`, `ok` or `segv` — never `err` or `panic` -/
theorem probe_res (c : Cfg) (s : State) (t : Tok) (hp : isProbe t.op = true) :
    (step c s t).1 ≠ .err ∧ (step c s t).1 ≠ .panic := by
  have live : ∀ (i : Nat) (f : Slot → Res × State), (∀ sl, (f sl).1 ≠ .err ∧ (f sl).1 ≠ .panic) →
      (withLive (resetRel s) i .na f).1 ≠ .err ∧ (withLive (resetRel s) i .na f).1 ≠ .panic := by
    intro i f hf
    apply withLive_elim (Q := fun r => r.1 ≠ .err ∧ r.1 ≠ .panic)
    · simp
    · simp
    · intro sl _ _ _ _ _; exact hf sl
  unfold step stepCore
  cases hop : t.op <;> simp [hop, isProbe] at hp <;> simp only []
  case wprobe off =>
    unfold opWProbe; apply live; intro sl
    split
    · simp
    · split <;> simp
  case rprobe off =>
    unfold opRProbe; apply live; intro sl
    split
    · simp
    · split <;> simp
  case gprobe f =>
    unfold opGProbe; apply live; intro sl
    split
    · simp
    · simp only []; repeat' split
      all_goals simp

theorem ok_dropAll {c : Cfg} (hP : 0 < c.P) (slots : List Slot) {m : Mach}
    (g : GoodL c.P m.k (blks slots)) (hrec : ∀ sl ∈ slots, SlotRec sl) : dropAllOk c m slots = true := by
  induction slots generalizing m with
  | nil => rfl
  | cons sl rest ih =>
    unfold dropAllOk
    by_cases hg : sl.gone = true
    · simp only [hg, if_true, Bool.true_and]
      rw [blks_cons_gone hg] at g
      exact ih g (fun x hx => hrec x (by simp [hx]))
    · have hg' : sl.gone = false := by simpa using hg
      simp only [hg', Bool.false_eq_true, if_false, Bool.and_eq_true]
      rw [blks_cons_live hg'] at g
      exact ⟨ok_objDrop hP g (hrec sl (by simp) hg'),
        ih (good_objDrop hP (o := sl.o) g) (fun x hx => hrec x (by simp [hx]))⟩

/-- the final teardown (`slots.clear()`) touches only writable pages -/
theorem touches_finish {c : Cfg} (hP : 0 < c.P) {s : State} (h : Inv c s) : finishOk c s = true :=
  ok_dropAll hP s.slots (m := { s.m with rel := [] }) h.k h.rcd

/-! ### counter-models -/

theorem opDropOk_eq {c : Cfg} {s : State} {i : Nat} {sl : Slot} (hi : s.slots[i]? = some sl) (hg : sl.gone = false) :
    opDropOk c s i = objDropOk c s.m sl.o := by
  unfold opDropOk liveOk
  simp [hi, hg]

/-- a write to the data of a live region whose type state is not read-write faults: why `fill` is offered on
writable states only -/
theorem write_nonwritable_faults {c : Cfg} (hP : 0 < c.P) {s : State} (h : Inv c s) {i : Nat} {sl : Slot}
    (hi : s.slots[i]? = some sl) (hg : sl.gone = false) (hl : 0 < sl.o.v.len) (hst : stPerm sl.o.st ≠ .rw) :
    writeOk c s.m sl.o.v sl.o.v.len = false := by
  have hb := inv_block h hi hg
  refine hb.touch_false hP true ?_ 0 _ hl hl
  simp only [blkOf]
  cases hp : stPerm sl.o.st <;> simp_all [permAllows]

/-- a read of the data of a live `NoAccess` region faults: why there is no `Clone` (and no `as_slice`) there -/
theorem read_noaccess_faults {c : Cfg} (hP : 0 < c.P) {s : State} (h : Inv c s) {i : Nat} {sl : Slot}
    (hi : s.slots[i]? = some sl) (hg : sl.gone = false) (hl : 0 < sl.o.v.len) {lm : LM}
    (hst : sl.o.st = .prot lm .na) : readOk c s.m sl.o.v sl.o.v.len = false := by
  have hb := inv_block h hi hg
  refine hb.touch_false hP false ?_ 0 _ hl hl
  simp [blkOf, hst, stPerm, PM.perm, permAllows]

/-- **a stale protect record makes the drop fault**: pages read-only / no-access (as the type says), record
`ReadWrite` — `Drop` skips `mprotect_readwrite` and its wipe hits a non-writable page -/
theorem stale_protect_record_drop_faults {c : Cfg} (hP : 0 < c.P) {s : State} (h : InvK c s) {i : Nat} {sl : Slot}
    (hi : s.slots[i]? = some sl) (hg : sl.gone = false) {lm : LM} {pm : PM} (hst : sl.o.st = .prot lm pm)
    (hpm : pm ≠ .rw) (hstale : sl.o.rcd.2 = .rw) (hl : 0 < sl.o.v.len) :
    stepTouchesOk c s ⟨.drop, i⟩ = false := by
  have hi' : (resetRel s).slots[i]? = some sl := hi
  have hb : BlockOK c.P s.m.k (blkOf sl.o) := h.ok _ (blkOf_mem hi hg)
  show opDropOk c (resetRel s) i = false
  rw [opDropOk_eq hi' hg]
  unfold objDropOk
  simp only [hst]
  unfold protDropOk protZeroizeOk protAtWipe
  simp only [hstale, if_true]
  have : writeOk c (resetRel s).m sl.o.v sl.o.v.len = false := by
    refine hb.touch_false hP true ?_ 0 _ hl hl
    simp only [blkOf, hst, stPerm]
    cases pm <;> simp_all [PM.perm, permAllows]
  simp [this]

/-- **counter-model: the forgetful `ro` / `na` transition, then `drop`** (`opProtectForgetsRec`: pages and type
change, the record stays `ReadWrite`): from any state satisfying `Inv`, on a live non-empty read-write region, the
next `drop` FAULTS — its wipe touches a page that is not writable.  With the real transitions it never does
(`touches_step`). -/
theorem forgetful_protect_drop_faults {c : Cfg} (hP : 0 < c.P) {s : State} (h : Inv c s) {i : Nat} {sl : Slot}
    (hi : s.slots[i]? = some sl) (hg : sl.gone = false) {lm : LM} (hst : sl.o.st = .prot lm .rw)
    (hl : 0 < sl.o.v.len) (pm : PM) (hpm : pm ≠ .rw) :
    stepTouchesOk c (opProtectForgetsRec c s i pm).2 ⟨.drop, i⟩ = false := by
  have hrc := h.rcd sl (List.mem_of_getElem? hi) hg lm .rw hst
  obtain ⟨l1, l2, hs, hlen⟩ := slot_split hi
  have g := good_head hs hg h.k
  have hstep : opProtectForgetsRec c s i pm =
      (.ok, setSlot s (dryocMprotect c s.m (ptr c sl.o.v) sl.o.v.len pm.perm) i
              { sl with o := { sl.o with st := .prot lm pm } }) := by
    unfold opProtectForgetsRec
    rw [withLive_eq hi hg, hst]
  rw [hstep]
  have hk : InvK c (setSlot s (dryocMprotect c s.m (ptr c sl.o.v) sl.o.v.len pm.perm) i
      { sl with o := { sl.o with st := .prot lm pm } }) := by
    refine inv_set_live hs hlen hg ?_
    have := good_mprotect hP g pm.perm
    simpa [blkOf, hst, stPerm, stLocked_prot lm pm .rw] using this
  exact stale_protect_record_drop_faults hP hk (getElem?_setSlot hi _ _) hg (lm := lm) (pm := pm) rfl hpm
    (by simp [hrc]) hl

/-- the forgetful `lock` (`opLockForgetsRec`) does NOT make the drop fault — the pages are read-write — it makes
it LEAK (`forgetful_lock_leaks_on_drop`): the drop touches only writable pages and skips `munlock` -/
theorem forgetful_lock_drop_no_fault {c : Cfg} (hP : 0 < c.P) {s : State} (h : Inv c s) {i : Nat} {sl : Slot}
    (hi : s.slots[i]? = some sl) (hg : sl.gone = false) (hst : sl.o.st = .plain)
    (hok : (opLockForgetsRec c s i).1 = .ok) :
    stepTouchesOk c (opLockForgetsRec c s i).2 ⟨.drop, i⟩ = true := by
  obtain ⟨l1, l2, hs, hl⟩ := slot_split hi
  have g := good_head hs hg h.k
  have hb : blkOf sl.o = ⟨sl.o.v, .rw, false⟩ := by simp [blkOf, hst, stPerm, stLocked]
  rw [hb] at g
  have gl := good_lockV hP g recNew
  unfold opLockForgetsRec at hok ⊢
  rw [withLive_eq hi hg] at hok ⊢
  simp only [hst] at hok ⊢
  by_cases hr : (lockV c s.m sl.o.v recNew).2 = true
  · simp only [hr, if_true] at hok ⊢
    have hi2 := getElem?_setSlot hi (lockV c s.m sl.o.v recNew).1
      { sl with o := { sl.o with st := .prot .locked .rw, rcd := recNew } }
    show opDropOk c (resetRel _) i = true
    rw [opDropOk_eq (s := resetRel _)
      (sl := { sl with o := { sl.o with st := .prot .locked .rw, rcd := recNew } }) hi2 hg]
    unfold objDropOk
    simp only []
    refine ok_protDrop hP (dp := .rw) (dl := true) (R := blks l1 ++ blks l2) ?_ _ _ (fun _ => rfl)
    exact gl.1 hr
  · simp [hr] at hok

end DryocVerif.Proofs.Protected
