import DryocVerif.Proofs.Sign
/-!
RFC 8032 §7.1 TEST 1, checked by the Lean kernel (`decide +kernel`: kernel evaluation,
no compiler trust, no extra axioms).  Used for the non-vacuity examples of C06.
-/
namespace DryocVerif.Proofs.SignVectors
open DryocVerif DryocVerif.Spec.Ed25519 DryocVerif.Model.Sign DryocVerif.Proofs.Sign

def tvSeed : Bytes := [0x9d, 0x61, 0xb1, 0x9d, 0xef, 0xfd, 0x5a, 0x60, 0xba, 0x84, 0x4a, 0xf4, 0x92, 0xec, 0x2c, 0xc4, 0x44, 0x49, 0xc5, 0x69, 0x7b, 0x32, 0x69, 0x19, 0x70, 0x3b, 0xac, 0x03, 0x1c, 0xae, 0x7f, 0x60]
def tvPk : Bytes := [0xd7, 0x5a, 0x98, 0x01, 0x82, 0xb1, 0x0a, 0xb7, 0xd5, 0x4b, 0xfe, 0xd3, 0xc9, 0x64, 0x07, 0x3a, 0x0e, 0xe1, 0x72, 0xf3, 0xda, 0xa6, 0x23, 0x25, 0xaf, 0x02, 0x1a, 0x68, 0xf7, 0x07, 0x51, 0x1a]
def tvSig : Bytes := [0xe5, 0x56, 0x43, 0x00, 0xc3, 0x60, 0xac, 0x72, 0x90, 0x86, 0xe2, 0xcc, 0x80, 0x6e, 0x82, 0x8a, 0x84, 0x87, 0x7f, 0x1e, 0xb8, 0xe5, 0xd9, 0x74, 0xd8, 0x73, 0xe0, 0x65, 0x22, 0x49, 0x01, 0x55, 0x5f, 0xb8, 0x82, 0x15, 0x90, 0xa3, 0x3b, 0xac, 0xc6, 0x1e, 0x39, 0x70, 0x1c, 0xf9, 0xb4, 0x6b, 0xd2, 0x5b, 0xf5, 0xf0, 0x59, 0x5b, 0xbe, 0x24, 0x65, 0x51, 0x41, 0x43, 0x8e, 0x7a, 0x10, 0x0b]
def tvSk : Bytes := tvSeed ++ tvPk

theorem tv_sk_length : tvSk.length = 64 := by decide
theorem tv_pk : publicKey tvSeed = tvPk := by decide +kernel
theorem tv_keypair : seedKeypair Spec.Sha512.sha512 tvSeed = (tvPk, tvSk) := by decide +kernel
theorem tv_sign : signDetached Spec.Sha512.sha512 [] tvSk false = tvSig := by decide +kernel
theorem tv_verify : verifyDetached Spec.Sha512.sha512 tvSig [] tvPk false = true := by
  decide +kernel
theorem tv_verify_spec : verifyStrict tvPk [] tvSig = true := by decide +kernel
/-- a pure signature is not accepted in pre-hashed mode -/
theorem tv_verify_ph : verifyDetached Spec.Sha512.sha512 tvSig [] tvPk true = false := by
  decide +kernel

/-! #### the hypotheses of `verify_model_eq_spec'` hold on this vector -/

def tvR : Point := (decodePointLax (tvSig.take 32)).getD identity
def tvA : Point := (decodePointLax tvPk).getD identity

theorem some_getD {α} {o : Option α} (h : o.isSome = true) (d : α) : o = some (o.getD d) := by
  cases o with
  | none => simp at h
  | some a => rfl

theorem tv_R_decodes : decodePointLax (tvSig.take 32) = some tvR :=
  some_getD (by decide +kernel) _
theorem tv_A_decodes : decodePointLax tvPk = some tvA := some_getD (by decide +kernel) _
theorem tv_A_canon : isCanonicalPoint tvPk = true := by decide +kernel
theorem tv_R_so : hasSmallOrder (tvSig.take 32) = isSmallOrder tvR := by decide +kernel
theorem tv_A_so : hasSmallOrder tvPk = isSmallOrder tvA := by decide +kernel
theorem tv_R_canon :
    (pointEq (checkPoint [] tvSig [] tvPk tvA) tvR = true ↔
      encodePoint (checkPoint [] tvSig [] tvPk tvA) = tvSig.take 32) := by decide +kernel
deriving instance DecidableEq for Point
theorem tv_dec_eq : decodePoint tvPk = decodePointLax tvPk := by decide +kernel

theorem eq_of_some_eq {α} {o : Option α} {a b : α} (h1 : o = some a) (h2 : o = some b) : a = b := by
  rw [h1] at h2; exact Option.some.inj h2

theorem tv_hRcanon : ∀ A, decodePointLax tvPk = some A →
      (pointEq (checkPoint (if false = true then dom2 1 [] else []) tvSig [] tvPk A) tvR = true ↔
        encodePoint (checkPoint (if false = true then dom2 1 [] else []) tvSig [] tvPk A) = tvSig.take 32) := by
  intro A hA
  have h : A = tvA := eq_of_some_eq hA tv_A_decodes
  rw [h]
  simp only [Bool.false_eq_true, if_false]
  exact tv_R_canon

theorem tv_hsoA : ∀ A, decodePointLax tvPk = some A → hasSmallOrder tvPk = isSmallOrder A := by
  intro A hA
  have h : A = tvA := eq_of_some_eq hA tv_A_decodes
  rw [h]
  exact tv_A_so

theorem tv_model_eq_spec :
    verifyDetached Spec.Sha512.sha512 tvSig [] tvPk false = verifyCore [] tvPk [] tvSig :=
  verify_model_eq_spec' tvSig [] tvPk false tvR tv_R_decodes tv_hRcanon
    tv_dec_eq tv_A_canon tv_R_so tv_hsoA


end DryocVerif.Proofs.SignVectors
