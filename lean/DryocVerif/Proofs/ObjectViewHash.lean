import DryocVerif.Model.ObjectViewHash
import DryocVerif.Proofs.ObjectViewExtra
import DryocVerif.Proofs.Blake2bExtra
/-
Case analyses for `Model/ObjectViewHash.lean` (GenericHash keys, `Sha512::…_into_bytes`, `Auth` / `OnetimeAuth`
`compute` / `finalize` with variable-length key containers).
-/
namespace DryocVerif.Proofs.ObjectViewHash
open DryocVerif DryocVerif.Model.ArrayView DryocVerif.Model.ObjectViewHash
open DryocVerif.Proofs.ObjectViewExtra

/-! ### (a) `GenericHash` -/

/-- **`GenericHash::<KL, OL>::hash(input, Some(key))` with a variable-length key container**: NEVER a panic; `Err`
exactly when `OL ∉ 16..=64` or the CONTAINER length is outside `16..=64`; otherwise BLAKE2b keyed with the WHOLE
container — `KL` plays no role.  (The `Auth` rule would be: panic below `KL`, first `KL` bytes above.) -/
theorem genericHashObj_cases (KL OL : Nat) (input key : Bytes) :
    genericHashObj KL OL input (some key) ≠ .panic ∧
    (genericHashObj KL OL input (some key) = .err ↔
      (OL < 16 ∨ 64 < OL) ∨ (key.length < 16 ∨ 64 < key.length)) ∧
    (16 ≤ OL ∧ OL ≤ 64 → 16 ≤ key.length ∧ key.length ≤ 64 → input.length + 128 < 2 ^ 64 →
      genericHashObj KL OL input (some key) = .ok (Spec.Blake2b.hash OL key input)) := by
  unfold genericHashObj
  obtain ⟨he, hp⟩ := Proofs.Blake2b.generichash_err_iff OL input (some key)
  refine ⟨hp, he.trans ?_, ?_⟩
  · constructor
    · rintro (h | ⟨k, hk, h⟩)
      · exact Or.inl h
      · injection hk with hk; subst hk; exact Or.inr h
    · rintro (h | h)
      · exact Or.inl h
      · exact Or.inr ⟨key, rfl, h⟩
  · intro ho hk hl
    have h := Proofs.Blake2b.generichash_eq_spec OL key input ho (Or.inr hk) hl
    have e : Proofs.Blake2b.keyOpt key = some key := by
      unfold Proofs.Blake2b.keyOpt
      have : key.isEmpty = false := by cases key <;> simp_all
      simp [this]
    rw [e] at h; exact h

/-- without a key (`None`): nothing to view -/
theorem genericHashObj_none (KL OL : Nat) (input : Bytes) (ho : 16 ≤ OL ∧ OL ≤ 64)
    (hl : input.length + 128 < 2 ^ 64) :
    genericHashObj KL OL input none = .ok (Spec.Blake2b.hash OL [] input) :=
  Proofs.Blake2b.generichash_eq_spec OL [] input ho (Or.inl rfl) hl

/-- the incremental object (`new`, `update`…, `finalize`) equals the one-shot `hash` of the concatenation, for every
key container and both lengths (including the failing ones) -/
theorem genericHashObjChunks_eq (KL OL : Nat) (key : Option Bytes) (cs : List Bytes) :
    genericHashObjChunks KL OL key cs = genericHashObj KL OL cs.flatten key := by
  unfold genericHashObjChunks genericHashObjNew genericHashObj
  cases hi : Model.Blake2b.generichashInit key OL none none with
  | ok st => exact Proofs.Blake2b.generichash_inc_eq_oneshot key OL st hi cs
  | err =>
    -- `init` fails exactly when the one-shot validation fails
    unfold Model.Blake2b.generichashInit at hi
    unfold Model.Blake2b.generichash
    by_cases v1 : Model.Blake2b.validateOutlen OL = true
    · by_cases v2 : Model.Blake2b.validateKey key = true
      · exfalso
        simp only [v1, v2, Bool.not_true, Bool.false_eq_true, if_false] at hi
        have ho := (Proofs.Blake2b.validateOutlen_iff _).mp v1
        have hk := (Proofs.Blake2b.validateKey_iff _).mp v2
        have := Proofs.Blake2b.initC_ok Model.Blake2b.compress (OL % 256) key none none
          (by rw [Nat.mod_eq_of_lt (by omega)]; omega) (fun k e => (hk k e).2)
        unfold Model.Blake2b.init at hi
        rw [this] at hi; cases hi
      · simp [v1, v2]
    · simp [v1]
  | panic =>
    exfalso
    unfold Model.Blake2b.generichashInit at hi
    by_cases v1 : Model.Blake2b.validateOutlen OL = true
    · by_cases v2 : Model.Blake2b.validateKey key = true
      · simp only [v1, v2, Bool.not_true, Bool.false_eq_true, if_false] at hi
        have ho := (Proofs.Blake2b.validateOutlen_iff _).mp v1
        have hk := (Proofs.Blake2b.validateKey_iff _).mp v2
        have := Proofs.Blake2b.initC_ok Model.Blake2b.compress (OL % 256) key none none
          (by rw [Nat.mod_eq_of_lt (by omega)]; omega) (fun k e => (hk k e).2)
        unfold Model.Blake2b.init at hi
        rw [this] at hi; cases hi
      · simp [v1, v2] at hi
    · simp [v1] at hi

/-- **the rule differs from `Auth`'s on every container whose length is not `KL`**: with `KL = 32`, a 64-byte `Vec` is
hashed WHOLE where the `as_array` rule would use its first 32 bytes, and a 8-byte `Vec` is an `Err` where the
`as_array` rule would panic -/
theorem genericHashObj_vs_viewed (OL : Nat) (input key : Bytes) (ho : 16 ≤ OL ∧ OL ≤ 64)
    (hl : input.length + 128 < 2 ^ 64) :
    (key.length = 64 →
      genericHashObj 32 OL input (some key) = .ok (Spec.Blake2b.hash OL key input) ∧
      genericHashObjIfViewed 32 OL input key = .ok (Spec.Blake2b.hash OL (key.take 32) input)) ∧
    (key.length < 16 →
      genericHashObj 32 OL input (some key) = .err ∧ genericHashObjIfViewed 32 OL input key = .panic) := by
  constructor
  · intro hk
    refine ⟨(genericHashObj_cases 32 OL input key).2.2 ho (by omega) hl, ?_⟩
    unfold genericHashObjIfViewed
    rw [asArray_of_le 32 key (by omega)]
    have hk32 : (key.take 32).length = 32 := by rw [List.length_take]; omega
    exact (genericHashObj_cases 32 OL input (key.take 32)).2.2 ho (by omega) hl
  · intro hk
    refine ⟨((genericHashObj_cases 32 OL input key).2.1).2 (Or.inr (Or.inl hk)), ?_⟩
    unfold genericHashObjIfViewed
    rw [asArray_of_lt 32 key (by omega)]

/-! ### (b) `Sha512::…_into_bytes` -/

/-- **`Sha512::compute_into_bytes` / `finalize_into_bytes` panic unless the output container has EXACTLY 64 bytes**
(`GenericArray::from_mut_slice`): also a LONGER `Vec` panics, unlike every `as_array` / `as_mut_array` view -/
theorem sha512IntoBytes_panic_iff (H : Bytes → Bytes) (out input : Bytes) :
    sha512IntoBytes H out input = .panic ↔ out.length ≠ 64 := by
  unfold sha512IntoBytes
  by_cases h : out.length ≠ 64
  · simp [h]
  · simp [h]

theorem sha512IntoBytes_ok (H : Bytes → Bytes) (out input : Bytes) (h : out.length = 64) :
    sha512IntoBytes H out input = .ok (H input) := by
  unfold sha512IntoBytes; simp [h]

theorem sha512IntoBytes_ne_err (H : Bytes → Bytes) (out input : Bytes) :
    sha512IntoBytes H out input ≠ .err := by
  unfold sha512IntoBytes; split <;> simp

theorem sha512IntoBytesChunks_eq (H : Bytes → Bytes) (out : Bytes) (cs : List Bytes) :
    sha512IntoBytesChunks H out cs = sha512IntoBytes H out cs.flatten := rfl

/-! ### (c) `Auth` / `OnetimeAuth`: `compute`, `new … finalize` -/

/-- **`Auth::compute(key, input)` with a variable-length key container**: panics iff the container holds fewer than 32
bytes; otherwise HMAC-SHA-512-256 under its FIRST 32 bytes; never `Err` -/
theorem authCompute_cases (key msg : Bytes) :
    (authCompute Spec.Sha512.sha512 key msg = .panic ↔ key.length < 32) ∧
    (32 ≤ key.length →
      authCompute Spec.Sha512.sha512 key msg = .ok (Spec.Hmac.hmacSha512256 (key.take 32) msg)) ∧
    authCompute Spec.Sha512.sha512 key msg ≠ .err := by
  unfold authCompute
  by_cases h : key.length < 32
  · rw [asArray_of_lt 32 key h]; simp [h]
  · rw [asArray_of_le 32 key (by omega)]
    have hk : (key.take 32).length ≤ 128 := by rw [List.length_take]; omega
    simp only [Proofs.Core.hmac_eq_spec_le _ msg hk]
    simp [h]

/-- `Auth::new(key)`, `update(c)`…, `finalize()`: the same key rule, the MAC of the concatenation -/
theorem authNewFinalize_cases (key : Bytes) (cs : List Bytes) :
    (authNewFinalize Spec.Sha512.sha512 key cs = .panic ↔ key.length < 32) ∧
    (32 ≤ key.length →
      authNewFinalize Spec.Sha512.sha512 key cs = .ok (Spec.Hmac.hmacSha512256 (key.take 32) cs.flatten)) ∧
    authNewFinalize Spec.Sha512.sha512 key cs ≠ .err := by
  unfold authNewFinalize
  by_cases h : key.length < 32
  · rw [asArray_of_lt 32 key h]; simp [h]
  · rw [asArray_of_le 32 key (by omega)]
    have hk : (key.take 32).length ≤ 128 := by rw [List.length_take]; omega
    simp only [Proofs.Core.hmacChunks_eq, Proofs.Core.hmac_eq_spec_le _ _ hk]
    simp [h]

/-- **`OnetimeAuth::compute(key, input)`**: panics iff the key container holds fewer than 32 bytes; otherwise Poly1305
under its FIRST 32 bytes; never `Err` -/
theorem onetimeCompute_cases (key msg : Bytes) :
    (onetimeCompute key msg = .panic ↔ key.length < 32) ∧
    (32 ≤ key.length → onetimeCompute key msg = .ok (Spec.Poly1305.mac (key.take 32) msg)) ∧
    onetimeCompute key msg ≠ .err := by
  unfold onetimeCompute
  by_cases h : key.length < 32
  · rw [asArray_of_lt 32 key h]; simp [h]
  · rw [asArray_of_le 32 key (by omega)]
    have hk : (key.take 32).length = 32 := by rw [List.length_take]; omega
    simp only [Proofs.Poly1305.mac_model_eq_spec _ msg hk]
    simp [h]

/-- `OnetimeAuth::new(key)`, `update(c)`…, `finalize()` -/
theorem onetimeNewFinalize_cases (key : Bytes) (cs : List Bytes) :
    (onetimeNewFinalize key cs = .panic ↔ key.length < 32) ∧
    (32 ≤ key.length → onetimeNewFinalize key cs = .ok (Spec.Poly1305.mac (key.take 32) cs.flatten)) ∧
    onetimeNewFinalize key cs ≠ .err := by
  unfold onetimeNewFinalize
  by_cases h : key.length < 32
  · rw [asArray_of_lt 32 key h]; simp [h]
  · rw [asArray_of_le 32 key (by omega)]
    have hk : (key.take 32).length = 32 := by rw [List.length_take]; omega
    simp only [Proofs.Poly1305.macChunks_eq_spec _ hk cs]
    simp [h]

#print axioms genericHashObj_cases
#print axioms genericHashObjChunks_eq
#print axioms sha512IntoBytes_panic_iff
#print axioms authCompute_cases
#print axioms onetimeCompute_cases

end DryocVerif.Proofs.ObjectViewHash
