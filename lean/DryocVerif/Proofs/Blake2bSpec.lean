import DryocVerif.Proofs.Blake2bCompress
import DryocVerif.Proofs.Blake2bChunks
/-
Model = spec for BLAKE2b: counters, padding, parameter block, absorb loop.  Core only.
-/
open DryocVerif
open DryocVerif.Model.Blake2b
open DryocVerif.Model.Utils (loadU64LE rotr64 slice)
open DryocVerif.Proofs.Poly1305 (or_mul_two_pow le_append le_zeros)
namespace DryocVerif.Proofs.Blake2b

/-- value of the 128-bit counter `t` -/
def ctr (t0 t1 : UInt64) : Nat := t0.toNat + 2^64 * t1.toNat

theorem ctr_lt (t0 t1 : UInt64) : ctr t0 t1 < 2^128 := by
  have := t0.toNat_lt; have := t1.toNat_lt; unfold ctr; omega

theorem ctr_lo (t0 t1 : UInt64) : UInt64.ofNat (ctr t0 t1 % 2^64) = t0 := by
  have := t0.toNat_lt
  have : ctr t0 t1 % 2^64 = t0.toNat := by unfold ctr; omega
  rw [this, UInt64.ofNat_toNat]

theorem ctr_hi (t0 t1 : UInt64) : UInt64.ofNat ((ctr t0 t1 / 2^64) % 2^64) = t1 := by
  have := t0.toNat_lt; have := t1.toNat_lt
  have : (ctr t0 t1 / 2^64) % 2^64 = t1.toNat := by unfold ctr; omega
  rw [this, UInt64.ofNat_toNat]

theorem incrementCounter_ctr (t0 t1 : UInt64) (inc : Nat) (h : ctr t0 t1 + inc < 2^128) :
    ctr (incrementCounter t0 t1 inc).1 (incrementCounter t0 t1 inc).2 = ctr t0 t1 + inc := by
  have h0 := t0.toNat_lt; have h1 := t1.toNat_lt
  have e : (t1.toNat <<< 64) ||| t0.toNat = ctr t0 t1 := by
    rw [Nat.shiftLeft_eq, Nat.or_comm, or_mul_two_pow _ _ 64 h0]; unfold ctr; omega
  unfold incrementCounter
  simp only [e, Nat.mod_eq_of_lt h, Nat.shiftRight_eq_div_pow]
  unfold ctr
  simp only [UInt64.toNat_ofNat']
  unfold ctr at h
  omega

/-! ### zero padding is invisible to the spec's `wordsOfBytes` -/

theorem le_take_drop_pad (B : Bytes) (k i : Nat) :
    le (((B ++ zeros k).drop i).take 8) = le ((B.drop i).take 8) := by
  rw [List.drop_append, List.take_append]
  have hz : ∀ a b : Nat, ((zeros k).drop a).take b = zeros (min b (k - a)) := by
    intro a b; simp [zeros]
  rw [hz, le_append, le_zeros, Nat.mul_zero, Nat.add_zero]

theorem wordsOfBytes_pad (n : Nat) (B : Bytes) (k : Nat) :
    Spec.Blake2b.wordsOfBytes n (B ++ zeros k) = Spec.Blake2b.wordsOfBytes n B := by
  unfold Spec.Blake2b.wordsOfBytes
  simp only [le_take_drop_pad]

theorem spec_compress_pad (h : Array UInt64) (B : Bytes) (k T : Nat) (last : Bool) :
    Spec.Blake2b.compress h (B ++ zeros k) T last = Spec.Blake2b.compress h B T last := by
  unfold Spec.Blake2b.compress
  rw [wordsOfBytes_pad]

theorem spec_compress_size (h : Array UInt64) (B : Bytes) (T : Nat) (last : Bool) :
    (Spec.Blake2b.compress h B T last).size = 8 := by
  simp [Spec.Blake2b.compress]

/-! ### the absorb loop -/

theorem absorb_eq (B : Bytes) (hB : B.length ≤ 128) (xs : List Bytes) :
    ∀ (h : Array UInt64) (t0 t1 : UInt64), h.size = 8 → (∀ x ∈ xs, x.length = 128) →
      ctr t0 t1 + 128 * xs.length + B.length < 2^128 →
      absorbBlocks compress h t0 t1 0 (xs ++ [B]) = Spec.Blake2b.absorb h (ctr t0 t1) (xs ++ [B]) := by
  induction xs with
  | nil =>
    intro h t0 t1 hh _ hlen
    simp only [List.nil_append, absorbBlocks, Spec.Blake2b.absorb]
    have hc := incrementCounter_ctr t0 t1 B.length (by simp at hlen; omega)
    rw [compress_eq_spec h _ _ allOnes 0 (B ++ zeros (128 - B.length)) (ctr t0 t1 + B.length) true hh
      (by simp [zeros]; omega) (by rw [← hc]; exact ctr_lo _ _) (by rw [← hc]; exact ctr_hi _ _) rfl rfl,
      spec_compress_pad]
  | cons x xs ih =>
    intro h t0 t1 hh hx hlen
    have hxl : x.length = 128 := hx x (List.mem_cons_self)
    have hxs : ∀ y ∈ xs, y.length = 128 := fun y hy => hx y (List.mem_cons_of_mem _ hy)
    have hc := incrementCounter_ctr t0 t1 128 (by simp at hlen; omega)
    have hcomp := compress_eq_spec h (incrementCounter t0 t1 128).1 (incrementCounter t0 t1 128).2 0 0 x
      (ctr t0 t1 + 128) false hh hxl (by rw [← hc]; exact ctr_lo _ _) (by rw [← hc]; exact ctr_hi _ _) rfl rfl
    have step1 : absorbBlocks compress h t0 t1 0 (x :: xs ++ [B]) =
        absorbBlocks compress (compress h (incrementCounter t0 t1 128).1 (incrementCounter t0 t1 128).2 0 0 x)
          (incrementCounter t0 t1 128).1 (incrementCounter t0 t1 128).2 0 (xs ++ [B]) := by
      cases xs <;> simp only [List.cons_append, List.nil_append, absorbBlocks]
    have step2 : Spec.Blake2b.absorb h (ctr t0 t1) (x :: xs ++ [B]) =
        Spec.Blake2b.absorb (Spec.Blake2b.compress h x (ctr t0 t1 + 128) false) (ctr t0 t1 + 128) (xs ++ [B]) := by
      cases xs <;> simp only [List.cons_append, List.nil_append, Spec.Blake2b.absorb, Spec.Blake2b.blockBytes]
    rw [step1, step2, hcomp,
      ih _ _ _ (spec_compress_size _ _ _ _) hxs (by rw [hc]; simp at hlen; omega), hc]

/-! ### parameter block, initial state, output -/

theorem rep8 : Array.replicate 8 (0 : UInt64) = #[0,0,0,0,0,0,0,0] := by
  simp [Array.replicate, List.replicate]

theorem load_slice' (p : Bytes) (hp : p.length = 64) (i : Nat) (hi : i < 8) :
    loadU64LE (slice p (8 * i) (8 * i + 8)) = UInt64.ofNat (le ((p.drop (8 * i)).take 8)) := by
  have e : slice p (8 * i) (8 * i + 8) = (p.drop (8 * i)).take 8 := by
    unfold slice
    rw [List.drop_take, Nat.add_sub_cancel_left]
  rw [e, loadU64LE_eq]
  simp only [List.length_take, List.length_drop]; omega

/-- `init_param`: `h = IV xor` the parameter block -/
theorem initParam_h (p : Bytes) (hp : p.length = 64) :
    (initParam p).h =
      ((List.range 8).map fun i => Spec.Blake2b.IV[i]! ^^^ (Spec.Blake2b.wordsOfBytes 8 p)[i]!).toArray := by
  unfold initParam init0 Spec.Blake2b.wordsOfBytes
  simp only [range8, List.foldl_cons, List.foldl_nil, List.map_cons, List.map_nil, rep8]
  simp only [load_slice' p hp _ (by decide : (0:Nat) < 8), load_slice' p hp _ (by decide : (1:Nat) < 8),
    load_slice' p hp _ (by decide : (2:Nat) < 8), load_slice' p hp _ (by decide : (3:Nat) < 8),
    load_slice' p hp _ (by decide : (4:Nat) < 8), load_slice' p hp _ (by decide : (5:Nat) < 8),
    load_slice' p hp _ (by decide : (6:Nat) < 8), load_slice' p hp _ (by decide : (7:Nat) < 8)]
  simp [IV, Spec.Blake2b.IV]

theorem stateBytes_eq (h : Array UInt64) (hh : h.size = 8) :
    stateBytes h = Spec.Blake2b.bytesOfWords h := by
  obtain ⟨h0, h1, h2, h3, h4, h5, h6, h7, rfl⟩ := arr8 h hh
  simp [stateBytes, Spec.Blake2b.bytesOfWords]

theorem fit_self (n : Nat) (s : Bytes) (h : s.length = n) : Spec.Blake2b.fit n s = s := by
  unfold Spec.Blake2b.fit; exact List.take_left' h

theorem fit_nil (n : Nat) : Spec.Blake2b.fit n [] = zeros n := by
  unfold Spec.Blake2b.fit; simp [zeros]

theorem paramBytes_eq (a b : Nat) (salt personal : Bytes) :
    paramBytes (UInt8.ofNat a) (UInt8.ofNat b) salt personal
      = [UInt8.ofNat a, UInt8.ofNat b, 1, 1] ++ zeros 4 ++ zeros 8 ++ [0, 0] ++ zeros 14 ++ salt ++ personal := by
  simp [paramBytes]

theorem spec_absorb_size (bs : List Bytes) :
    ∀ (h : Array UInt64) (t : Nat), h.size = 8 → (Spec.Blake2b.absorb h t bs).size = 8 := by
  induction bs with
  | nil => intro h t hh; simpa [Spec.Blake2b.absorb] using hh
  | cons b bs ih =>
    intro h t hh
    cases bs with
    | nil => simp only [Spec.Blake2b.absorb, spec_compress_size]
    | cons b' rest =>
      simp only [Spec.Blake2b.absorb]
      exact ih _ _ (spec_compress_size _ _ _ _)

/-- the abstract absorb semantics instantiated with the model `compress`, from counter 0,
is the spec's `absorb` over the same block list -/
theorem absorbSpec_eq (h : Array UInt64) (hh : h.size = 8) (D : Bytes) (hD : D.length < 2^128) :
    absorbSpec compress h 0 0 D = Spec.Blake2b.absorb h 0 (blocks D) := by
  have hcl := consumed_le D.length
  have hcm := consumed_mod D.length
  have hDs : D = D.take (consumed D.length) ++ D.drop (consumed D.length) :=
    (List.take_append_drop _ _).symm
  generalize hPdef : D.take (consumed D.length) = P at hDs
  generalize hBdef : D.drop (consumed D.length) = B at hDs
  have hPl : P.length = consumed D.length := by rw [← hPdef, List.length_take]; omega
  have hBl : B.length = D.length - consumed D.length := by rw [← hBdef, List.length_drop]
  have hB128 : B.length ≤ 128 := by rw [hBl]; exact held_le _
  have hB0 : B.length = 0 → P.length = 0 := by
    rw [hBl, hPl]; unfold consumed; omega
  have hPm : P.length % 128 = 0 := by rw [hPl]; exact hcm
  have hxl := chunksExact_length 128 (by omega) _ P (len_eq_mul 128 P hPm)
  unfold absorbSpec
  rw [hDs, blocks_split P B hPm hB128 hB0]
  have hc0 : ctr 0 0 = 0 := by decide
  have := absorb_eq B hB128 (chunksExact 128 P) h 0 0 hh
    (chunksExact_all_len 128 (by omega) P hPm) (by rw [hc0, hxl]; omega)
  rw [hc0] at this
  exact this

end DryocVerif.Proofs.Blake2b
