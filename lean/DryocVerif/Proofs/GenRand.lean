import DryocVerif.Gen.Rand
import DryocVerif.Model.Entropy
/-
`tools/rs2lean.py` (kernel `Rand`) re-reads, on every run, WHERE the two password-hash entry points draw their salt relative to their
parameter checks and HOW MANY bytes they ask for.  The data-flow table of `Model/Entropy.lean` was written by hand from the same
source; this file ties the two.
-/
namespace DryocVerif.Proofs.GenRand
open DryocVerif DryocVerif.Model.Entropy

/-- `crypto_pwhash_str`: exactly one draw, after both `validate!` guards, of as many bytes as the table's `saltText` kind consumes;
`PwHash::hash`: sizes the salt from `config.salt_length`, draws it, and only then calls `crypto_pwhash` (which validates) -/
theorem pwhash_draw_shape :
    Gen.Rand.pwhash_str_draws = 1 ∧ Gen.Rand.pwhash_str_draws_after_validate = true
    ∧ Gen.Rand.pwhash_str_salt_bytes = Kind.saltText.consumed
    ∧ table.lookup "pwhash_str" = some .saltText
    ∧ Gen.Rand.pwhash_obj_draws_salt_length_before_validate = true := by
  decide

end DryocVerif.Proofs.GenRand
