import DryocVerif.Model.Sign
/-!
Helper lemmas for `Properties/C06.lean` (Ed25519 glue of `Model/Sign.lean`).
Core-only; no Mathlib.
-/
namespace DryocVerif.Proofs.Sign
open DryocVerif DryocVerif.Spec.Ed25519 DryocVerif.Model.Sign

/-! ### little-endian codec -/

theorem toLE_length (n v : Nat) : (toLE n v).length = n := by
  induction n generalizing v with
  | zero => rfl
  | succ n ih => simp [toLE, ih]

theorem le_toLE (n v : Nat) : le (toLE n v) = v % 256 ^ n := by
  induction n generalizing v with
  | zero => simp [toLE, le, Nat.mod_one]
  | succ n ih =>
    simp only [toLE, le, ih]
    have h1 : (UInt8.ofNat (v % 256)).toNat = v % 256 := by
      simp [UInt8.toNat_ofNat']
    rw [h1, Nat.pow_succ, Nat.mul_comm (256 ^ n) 256, Nat.mod_mul, Nat.add_comm]

theorem le_lt (bs : Bytes) : le bs < 256 ^ bs.length := by
  induction bs with
  | nil => simp [le]
  | cons b bs ih =>
    simp only [le, List.length_cons, Nat.pow_succ]
    have := b.toNat_lt
    omega

theorem le_toLE_of_lt {n v : Nat} (h : v < 256 ^ n) : le (toLE n v) = v := by
  rw [le_toLE, Nat.mod_eq_of_lt h]

theorem encodePoint_length (P : Point) : (encodePoint P).length = 32 := by
  unfold encodePoint; exact toLE_length _ _

/-! ### clamping and scalar arithmetic -/

theorem take_append_map_drop {α} (f : α → α) (n : Nat) (l : List α) (h : l.length ≤ n + 1) :
    l.take n ++ (l.drop n).map f = l.modify n f := by
  induction n generalizing l with
  | zero =>
    match l, h with
    | [], _ => rfl
    | [a], _ => rfl
    | _ :: _ :: _, h => simp at h
  | succ n ih =>
    match l, h with
    | [], _ => rfl
    | a :: l, h =>
      have : l.length ≤ n + 1 := by simpa using h
      simp only [List.take_succ_cons, List.drop_succ_cons, List.modify_succ_cons, List.cons_append, ih l this]

theorem clampHash_eq_clamp (h : Bytes) : clampHash h = Spec.X25519.clamp h := by
  unfold clampHash Spec.X25519.clamp
  cases hs : h.take 32 with
  | nil => rfl
  | cons b0 rest =>
    have hl : (b0 :: rest).length ≤ 32 := by rw [← hs]; simp [List.length_take]; omega
    simp only [List.modify_zero_cons] 
    exact take_append_map_drop _ 31 _ (by simpa using hl)

theorem clamp_take (h : Bytes) : Spec.X25519.clamp (h.take 32) = Spec.X25519.clamp h := by
  simp [Spec.X25519.clamp, List.take_take]

theorem scalar_arith (k a r L : Nat) : (k * (a % L) % L + r) % L = (r + k * a) % L := by
  rw [Nat.add_comm, Nat.add_mod_mod, Nat.add_mod r (k * (a % L)), Nat.mul_mod_mod, ← Nat.add_mod]
/-! ### signing: model = RFC 8032 -/

theorem dom2prefix_eq : DOM2PREFIX = dom2 1 [] := by decide +kernel

/-- general form: model signing = RFC 8032 `signCore`, provided the second half of
the secret key is the public key of the seed in its first half -/
theorem signDetached_eq_signCore (msg sk : Bytes) (ph : Bool)
    (hpk : sk.drop 32 = publicKey (sk.take 32)) :
    signDetached Spec.Sha512.sha512 msg sk ph
      = signCore (if ph then dom2 1 [] else []) (sk.take 32) msg := by
  unfold signDetached signCore
  simp only [hpk, publicKey, secretExpand, hashModL, Spec.X25519.decodeScalar25519,
    clampHash_eq_clamp, clamp_take, scalar_arith, dom2prefix_eq, List.append_assoc]
/-! ### layout and the acceptance condition -/

theorem signDetached_length (H : Bytes → Bytes) (msg sk : Bytes) (ph : Bool) :
    (signDetached H msg sk ph).length = 64 := by
  unfold signDetached
  simp only [List.length_append, encodePoint_length, toLE_length]

theorem signDetached_S_canonical (H : Bytes → Bytes) (msg sk : Bytes) (ph : Bool) :
    le ((signDetached H msg sk ph).drop 32) < L := by
  unfold signDetached
  simp only
  rw [List.drop_left' (encodePoint_length _), le_toLE_of_lt]
  · exact Nat.mod_lt _ (by decide)
  · exact Nat.lt_trans (Nat.mod_lt _ (by decide)) (by decide)

/-- every way `verifyDetached` can accept, as one conjunction -/
theorem verifyDetached_true_iff (H : Bytes → Bytes) (sig msg pk : Bytes) (ph : Bool) :
    verifyDetached H sig msg pk ph = true ↔
      sig.length = 64 ∧ pk.length = 32 ∧ le (sig.drop 32) < L ∧
      ∃ R A, decodePointLax (sig.take 32) = some R ∧ isSmallOrder R = false ∧
        decodePointLax pk = some A ∧ isSmallOrder A = false ∧
        pointEq (add (scalarMul
            (le (H ((if ph then DOM2PREFIX else []) ++ sig.take 32 ++ pk ++ msg)) % L) (neg A))
          (scalarMul (le (sig.drop 32)) B)) R = true := by
  unfold verifyDetached
  by_cases h1 : sig.length = 64 <;> by_cases h2 : pk.length = 32 <;>
    by_cases h3 : le (sig.drop 32) < L <;> simp [h1, h2, h3]
  cases hR : decodePointLax (sig.take 32) with
  | none => simp
  | some R =>
    cases hA : decodePointLax pk with
    | none => simp
    | some A =>
      by_cases h4 : isSmallOrder R = true <;> by_cases h5 : isSmallOrder A = true <;>
        simp [h4, h5]
/-! ### the pieces of a signature, named -/

/-- domain-separation prefix of the mode -/
def domOf (ph : Bool) : Bytes := if ph then DOM2PREFIX else []

/-- the nonce scalar `r = H(dom ‖ prefix ‖ M) mod L` -/
def nonceR (H : Bytes → Bytes) (msg sk : Bytes) (ph : Bool) : Nat :=
  le (H (domOf ph ++ (H (sk.take 32)).drop 32 ++ msg)) % L

/-- the encoded commitment `R = [r]B` -/
def sigR (H : Bytes → Bytes) (msg sk : Bytes) (ph : Bool) : Bytes :=
  encodePoint (scalarMul (nonceR H msg sk ph) B)

/-- the challenge `k = H(dom ‖ R ‖ A ‖ M) mod L` (with `A = sk[32..]`) -/
def hramK (H : Bytes → Bytes) (msg sk : Bytes) (ph : Bool) : Nat :=
  le (H (domOf ph ++ (sigR H msg sk ph ++ sk.drop 32) ++ msg)) % L

/-- the secret scalar as dryoc uses it: clamped, then reduced mod L -/
def secretA (H : Bytes → Bytes) (sk : Bytes) : Nat := le (clampHash (H (sk.take 32))) % L

/-- the response `S = (k·a + r) mod L` -/
def sigS (H : Bytes → Bytes) (msg sk : Bytes) (ph : Bool) : Nat :=
  (hramK H msg sk ph * secretA H sk % L + nonceR H msg sk ph) % L

theorem signDetached_eq (H : Bytes → Bytes) (msg sk : Bytes) (ph : Bool) :
    signDetached H msg sk ph = sigR H msg sk ph ++ toLE 32 (sigS H msg sk ph) := rfl

theorem sigR_length (H : Bytes → Bytes) (msg sk : Bytes) (ph : Bool) :
    (sigR H msg sk ph).length = 32 := encodePoint_length _

theorem sigS_lt (H : Bytes → Bytes) (msg sk : Bytes) (ph : Bool) : sigS H msg sk ph < L :=
  Nat.mod_lt _ (by decide)

theorem L_lt : L < 256 ^ 32 := by decide

theorem signDetached_take32 (H : Bytes → Bytes) (msg sk : Bytes) (ph : Bool) :
    (signDetached H msg sk ph).take 32 = sigR H msg sk ph := by
  rw [signDetached_eq, List.take_left' (sigR_length ..)]

theorem signDetached_drop32 (H : Bytes → Bytes) (msg sk : Bytes) (ph : Bool) :
    (signDetached H msg sk ph).drop 32 = toLE 32 (sigS H msg sk ph) := by
  rw [signDetached_eq, List.drop_left' (sigR_length ..)]

theorem signDetached_le_drop32 (H : Bytes → Bytes) (msg sk : Bytes) (ph : Bool) :
    le ((signDetached H msg sk ph).drop 32) = sigS H msg sk ph := by
  rw [signDetached_drop32, le_toLE_of_lt (Nat.lt_trans (sigS_lt ..) L_lt)]

/-! ### commutativity of the addition formula -/
section
open DryocVerif.Spec.X25519 (fadd fsub fmul)

theorem fmul_comm (a b : Nat) : fmul a b = fmul b a := by unfold fmul; rw [Nat.mul_comm]

theorem fmul_fmul_swap (a d b : Nat) : fmul (fmul a d) b = fmul (fmul b d) a := by
  unfold fmul
  rw [Nat.mod_mul_mod, Nat.mod_mul_mod]
  congr 1
  ac_rfl

theorem fmul_dbl_swap (a b : Nat) : fmul (fadd a a) b = fmul (fadd b b) a := by
  unfold fmul fadd
  rw [Nat.mod_mul_mod, Nat.mod_mul_mod, Nat.add_mul, Nat.add_mul, Nat.mul_comm a b]

/-- the unified addition formula is syntactically symmetric (as a function on
representations, not just up to projective equality) -/
theorem point_add_comm (P Q : Point) : add P Q = add Q P := by
  unfold add
  simp only [fmul_comm (fsub P.Y P.X), fmul_comm (fadd P.Y P.X), fmul_fmul_swap P.T,
    fmul_dbl_swap P.Z]
end

/-! ### model verification vs libsodium-style verification -/

/-- every way the libsodium-style `Spec.Ed25519.verifyCore` can accept -/
theorem verifyCore_true_iff (dom pk m sig : Bytes) :
    verifyCore dom pk m sig = true ↔
      sig.length = 64 ∧ pk.length = 32 ∧ le (sig.drop 32) < L ∧
      hasSmallOrder (sig.take 32) = false ∧ isCanonicalPoint pk = true ∧
      hasSmallOrder pk = false ∧
      ∃ A, decodePoint pk = some A ∧
        encodePoint (add (scalarMul (le (sig.drop 32)) B)
          (scalarMul (hashModL (dom ++ sig.take 32 ++ pk ++ m)) (neg A))) = sig.take 32 := by
  unfold verifyCore isCanonicalScalar
  by_cases h1 : sig.length = 64 <;> by_cases h2 : pk.length = 32 <;>
    by_cases h3 : le (sig.drop 32) < L <;> simp [h1, h2, h3]
  cases hA : decodePoint pk with
  | none => simp
  | some A =>
    by_cases h4 : hasSmallOrder (sig.take 32) = true <;>
      by_cases h5 : hasSmallOrder pk = true <;>
      by_cases h6 : isCanonicalPoint pk = true <;> simp [h4, h5, h6]

/-- the point `[S]B + [k](−A)` both verifiers compute (k from SHA-512) -/
def checkPoint (dom sig msg pk : Bytes) (A : Point) : Point :=
  add (scalarMul (le (sig.drop 32)) B)
    (scalarMul (hashModL (dom ++ sig.take 32 ++ pk ++ msg)) (neg A))

/-- dryoc's (dalek-style) and libsodium's decisions agree, under hypotheses that tie
the two styles of check together on the given `sig`, `pk` -/
theorem verify_model_eq_spec' (sig msg pk : Bytes) (ph : Bool) (R : Point)
    (hR : decodePointLax (sig.take 32) = some R)
    (hRcanon : ∀ A, decodePointLax pk = some A →
      (pointEq (checkPoint (if ph then dom2 1 [] else []) sig msg pk A) R = true ↔
        encodePoint (checkPoint (if ph then dom2 1 [] else []) sig msg pk A) = sig.take 32))
    (hdec : decodePoint pk = decodePointLax pk)
    (hcanon : isCanonicalPoint pk = true)
    (hsoR : hasSmallOrder (sig.take 32) = isSmallOrder R)
    (hsoA : ∀ A, decodePointLax pk = some A → hasSmallOrder pk = isSmallOrder A) :
    verifyDetached Spec.Sha512.sha512 sig msg pk ph
      = verifyCore (if ph then dom2 1 [] else []) pk msg sig := by
  rw [Bool.eq_iff_iff, verifyDetached_true_iff, verifyCore_true_iff, hdec, hR, hsoR,
    ← dom2prefix_eq]
  rw [← dom2prefix_eq] at hRcanon
  constructor
  · rintro ⟨h1, h2, h3, R', A, hR', hRs, hA, hAs, heq⟩
    cases hR'
    refine ⟨h1, h2, h3, hRs, hcanon, by rw [hsoA A hA]; exact hAs, A, hA, ?_⟩
    rw [point_add_comm] at heq
    exact (hRcanon A hA).1 heq
  · rintro ⟨h1, h2, h3, hRs, -, hAs, A, hA, heq⟩
    refine ⟨h1, h2, h3, R, A, rfl, hRs, hA, by rw [← hsoA A hA]; exact hAs, ?_⟩
    rw [point_add_comm]
    exact (hRcanon A hA).2 heq

theorem verify_model_eq_spec (sig msg pk : Bytes) (ph : Bool) (R : Point)
    (hR : decodePointLax (sig.take 32) = some R)
    (hRcanon : ∀ X, pointEq X R = true ↔ encodePoint X = sig.take 32)
    (hdec : decodePoint pk = decodePointLax pk)
    (hcanon : isCanonicalPoint pk = true)
    (hsoR : hasSmallOrder (sig.take 32) = isSmallOrder R)
    (hsoA : ∀ A, decodePointLax pk = some A → hasSmallOrder pk = isSmallOrder A) :
    verifyDetached Spec.Sha512.sha512 sig msg pk ph
      = verifyCore (if ph then dom2 1 [] else []) pk msg sig :=
  verify_model_eq_spec' sig msg pk ph R hR (fun _ _ => hRcanon _) hdec hcanon hsoR hsoA

end DryocVerif.Proofs.Sign
