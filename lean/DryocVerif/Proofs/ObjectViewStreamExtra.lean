import DryocVerif.Model.ObjectViewStream
import DryocVerif.Proofs.RawExtra
/-
`DryocStream::init_pull` / `init_push` with a `Vec<u8>` / `&[u8]` key or header, and `impl From<u8> for Tag`
(`Model/ObjectViewStream.lean`).  Core only.
-/
namespace DryocVerif.Proofs.ObjectViewStream
open DryocVerif DryocVerif.Model.ArrayView DryocVerif.Model.SecretStream DryocVerif.Model.ObjectViewStream
open DryocVerif.Proofs.SecretStream

/-- the `if` form and the `as_array` form of `init_pull` are the same function -/
theorem objInitPullView_eq_view (P : Prims) (key header : Bytes) :
    objInitPullView P key header = objInitPullViewCode P key header := by
  unfold objInitPullView objInitPullViewCode view2 asArray
  by_cases hh : header.length < 24
  · rw [if_pos (Or.inl hh), if_pos hh]
  · by_cases hk : key.length < 32
    · rw [if_pos (Or.inr hk), if_neg hh]
      simp only []
      rw [if_pos hk]
    · rw [if_neg (by intro h; rcases h with h | h <;> contradiction), if_neg hh]
      simp only []
      rw [if_neg hk]

/-- `DryocStream::init_pull` panics exactly when the header has fewer than 24 or the key fewer than 32 bytes -/
theorem objInitPullView_panic_iff (P : Prims) (key header : Bytes) :
    objInitPullView P key header = .panic ↔ header.length < 24 ∨ key.length < 32 := by
  unfold objInitPullView
  by_cases h : header.length < 24 ∨ key.length < 32
  · rw [if_pos h]; exact ⟨fun _ => h, fun _ => rfl⟩
  · rw [if_neg h]; exact ⟨nofun, fun e => absurd e h⟩

/-- … and never returns an error -/
theorem objInitPullView_ne_err (P : Prims) (key header : Bytes) : objInitPullView P key header ≠ .err := by
  unfold objInitPullView
  split <;> simp

/-- bytes after the 24th of the header and after the 32nd of the key are silently ignored -/
theorem objInitPullView_ignores_tail (P : Prims) (key header kt ht : Bytes)
    (hh : header.length = 24) (hk : key.length = 32) :
    objInitPullView P (key ++ kt) (header ++ ht) = .ok (initState P header key) := by
  unfold objInitPullView
  rw [if_neg (by simp only [List.length_append]; omega), List.take_left' hh, List.take_left' hk]

/-- with containers of the exact lengths (what `[u8; N]`, `StackByteArray<N>`, … guarantee by type) the view is the
identity: `init_pull` is the model's `initState` -/
theorem objInitPullView_exact (P : Prims) (key header : Bytes) (hh : header.length = 24) (hk : key.length = 32) :
    objInitPullView P key header = .ok (initState P header key) := by
  have := objInitPullView_ignores_tail P key header [] [] hh hk
  simpa using this

/-- … in general: the state of the 24- / 32-byte prefixes -/
theorem objInitPullView_ok (P : Prims) (key header : Bytes) (hh : 24 ≤ header.length) (hk : 32 ≤ key.length) :
    objInitPullView P key header = .ok (initState P (header.take 24) (key.take 32)) := by
  unfold objInitPullView
  rw [if_neg (by omega)]

theorem objInitPushView_panic_iff (P : Prims) (key hdr : Bytes) :
    objInitPushView P key hdr = .panic ↔ key.length < 32 := by
  unfold objInitPushView
  by_cases h : key.length < 32
  · rw [if_pos h]; exact ⟨fun _ => h, fun _ => rfl⟩
  · rw [if_neg h]; exact ⟨nofun, fun e => absurd e h⟩

theorem objInitPushView_ignores_tail (P : Prims) (key hdr kt : Bytes) (hk : key.length = 32) :
    objInitPushView P (key ++ kt) hdr = .ok (initState P hdr key, hdr) := by
  unfold objInitPushView
  rw [if_neg (by simp only [List.length_append]; omega), List.take_left' hk]

theorem objInitPushView_exact (P : Prims) (key hdr : Bytes) (hk : key.length = 32) :
    objInitPushView P key hdr = .ok (initState P hdr key, hdr) := by
  have := objInitPushView_ignores_tail P key hdr [] hk
  simpa using this

/-- both sides initialised from the same (over-long) key and header containers agree — on the PREFIXES -/
theorem objInit_push_pull_agree (P : Prims) (key hdr : Bytes) (hh : hdr.length = 24) (hk : 32 ≤ key.length) :
    ∃ s, objInitPushView P key hdr = .ok (s, hdr) ∧ objInitPullView P key hdr = .ok s := by
  refine ⟨initState P hdr (key.take 32), ?_, ?_⟩
  · unfold objInitPushView; rw [if_neg (by omega)]
  · rw [objInitPullView_ok P key hdr (by omega) hk, List.take_of_length_le (by omega)]

/-- `init_push` / `init_pull` start the message counter at 1 (`_counter_reset`): `01 00 00 00` -/
theorem initState_counter (P : Prims) (header key : Bytes) : (initState P header key).counter = [1, 0, 0, 0] := rfl

/-- `State::new()` / `Default`: all-zero key, counter 0 — a state no `push` / `pull` is meant to see; `init_*`
overwrites both fields -/
theorem stateNew_fields : stateNew.k = zeros 32 ∧ stateNew.counter = [0, 0, 0, 0] ∧ stateNew.inonce = zeros 8 := by
  decide

theorem initState_overwrites_new (P : Prims) (header key : Bytes) :
    ({ stateNew with k := (initState P header key).k, nonce := (initState P header key).nonce } : State)
      = initState P header key := rfl

/-! ### `impl From<u8> for Tag` -/

/-- `Tag::from(b)` panics exactly for a byte with a bit outside the four defined tags (`b & 0xFC ≠ 0`, i.e. `b ≥ 4`) -/
theorem tagFromU8_panic_iff (b : UInt8) : tagFromU8 b = .panic ↔ b &&& 0xFC ≠ 0 := by
  unfold tagFromU8 tagFromBits
  by_cases h : b &&& 0xFC = 0
  · rw [if_pos h]; exact ⟨nofun, fun e => absurd h e⟩
  · rw [if_neg h]; exact ⟨fun _ => h, fun _ => rfl⟩

theorem tagFromU8_ok_iff (b : UInt8) : tagFromU8 b = .ok b ↔ b &&& 0xFC = 0 := by
  unfold tagFromU8 tagFromBits
  by_cases h : b &&& 0xFC = 0
  · rw [if_pos h]; exact ⟨fun _ => h, fun _ => rfl⟩
  · rw [if_neg h]; exact ⟨nofun, fun e => absurd e h⟩

/-- in terms of the value: the four defined tags are 0 … 3 -/
theorem tagFromU8_panic_iff_ge (b : UInt8) : tagFromU8 b = .panic ↔ 4 ≤ b.toNat := by
  rw [tagFromU8_panic_iff]
  have aux : ∀ n : Fin 256, ((UInt8.ofNat n.val) &&& 0xFC ≠ 0 ↔ 4 ≤ n.val) := by decide +kernel
  have := aux ⟨b.toNat, b.toNat_lt⟩
  simpa using this

/-- **composed: an AUTHENTIC message with an undefined tag bit panics the caller's `Tag::from`.**  Whoever holds the
key pushes a message with tag byte `tag`, `tag & 0xFC ≠ 0` (the classic `push` takes any `u8`); the classic `pull` as
written accepts it and hands the caller the raw byte; `Tag::from(tag)` then panics.  `DryocStream::pull` itself uses
`from_bits_retain` since fix E6 and is not affected. -/
theorem classic_pull_then_tagFrom_panics (P : Prims) (hP : WF P) (s : State) (m ad : Bytes) (tag : UInt8)
    (c : Bytes) (s' : State) (h : push P s (m.length + 17) m ad tag = .ok (c, s'))
    (hm : m.length ≤ STREAM_BODY_MAX) (htag : tag &&& 0xFC ≠ 0)
    (buf : Bytes) (tagv : UInt8) (hb : m.length ≤ buf.length) :
    (pullRaw P s buf tagv c ad).res = .ok m.length ∧ (pullRaw P s buf tagv c ad).tag = tag ∧
    tagFromU8 (pullRaw P s buf tagv c ad).tag = .panic := by
  have hl := push_ct_length P hP s m ad tag c s' h
  rw [pullRaw_eq_pull P s buf tagv c ad (by omega), pull_push P hP s m ad tag c s' h buf tagv hb]
  exact ⟨rfl, rfl, (tagFromU8_panic_iff tag).mpr htag⟩

/-- the witness, evaluated: tag byte 4 on the toy primitives -/
theorem classic_pull_tag4_example :
    ∃ c s', push toyPrims toyState 20 [0x41, 0x42, 0x43] [] 4 = .ok (c, s') ∧
      (pullRaw toyPrims toyState (zeros 3) 0 c []).res = .ok 3 ∧
      (pullRaw toyPrims toyState (zeros 3) 0 c []).tag = 4 ∧
      tagFromU8 (pullRaw toyPrims toyState (zeros 3) 0 c []).tag = .panic ∧
      (objPullCode toyPrims toyState c []).1 = .ok ([0x41, 0x42, 0x43], 4) := by
  refine ⟨_, _, rfl, ?_, ?_, ?_, ?_⟩ <;> decide

end DryocVerif.Proofs.ObjectViewStream
