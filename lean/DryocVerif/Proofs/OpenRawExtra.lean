import DryocVerif.Proofs.RawExtra
import DryocVerif.Model.OpenRaw
import DryocVerif.Proofs.PwhashStr
import DryocVerif.Proofs.Core
import DryocVerif.Proofs.Poly1305Main
import DryocVerif.Proofs.Argon2
/-
C04 helper lemmas, continued: the code-shaped parsers / `open` functions of `Model/OpenRaw.lean` equal the
total models (no panic branch is reachable), their guard-less variants panic; `crypto_auth_verify`,
`crypto_onetimeauth_verify`; `crypto_pwhash_str_verify` instantiated with the Argon2 model.
-/
namespace DryocVerif.Proofs.Raw
open DryocVerif DryocVerif.Model.Raw
open scoped DryocVerif.Model.Raw

theorem errIfWhen_true (c : Prop) [Decidable c] : errIfWhen true c = errIf c := rfl
theorem errIfWhen_false (c : Prop) [Decidable c] : errIfWhen false c = .ok () := rfl
theorem whenPresent_true (x : Outcome Unit) : whenPresent true x = x := rfl
theorem whenPresent_false (x : Outcome Unit) : whenPresent false x = .ok () := rfl
theorem tryFromSlice_ok {n : Nat} {x : Bytes} (h : x.length = n) : tryFromSlice n x = some x := by
  unfold tryFromSlice; rw [if_pos h]

end DryocVerif.Proofs.Raw

/-! ### `from_bytes`, `from_sealed_bytes` -/
namespace DryocVerif.Proofs.SecretBox
open DryocVerif DryocVerif.Model.Raw DryocVerif.Proofs.Raw DryocVerif.Model.SecretBox
open scoped DryocVerif.Model.Raw

theorem fromBytesRaw_eq (bs : Bytes) : fromBytesRaw bs = fromBytes bs := by
  unfold fromBytesRaw fromBytesRawWith fromBytes MACBYTES
  rw [errIfWhen_true]
  by_cases h : bs.length < 16
  · rw [errIf_pos h, err_bind, if_pos h]
  · rw [errIf_neg h, ok_bind, splitAt_ok (by omega), ok_bind,
      tryFromSlice_ok (by rw [List.length_take]; omega), if_neg h]
    rfl

/-- without its guard `from_bytes` panics in `split_at` on every input shorter than the tag -/
theorem fromBytesNoGuard_short (bs : Bytes) (h : bs.length < 16) : fromBytesNoGuard bs = .panic := by
  unfold fromBytesNoGuard fromBytesRawWith MACBYTES
  rw [errIfWhen_false, ok_bind, splitAt_panic h, panic_bind]

theorem fromSealedBytesRaw_eq (bs : Bytes) : fromSealedBytesRaw bs = fromSealedBytes bs := by
  unfold fromSealedBytesRaw fromSealedBytesRawWith fromSealedBytes SEALBYTES MACBYTES
  rw [errIfWhen_true]
  by_cases h : bs.length < 48
  · rw [errIf_pos h, err_bind, if_pos h]
  · rw [errIf_neg h, ok_bind, splitAt_ok (by omega), ok_bind]
    simp only []
    rw [splitAt_ok (by rw [List.length_take]; omega), ok_bind]
    simp only []
    rw [tryFromSlice_ok (by rw [List.length_take, List.length_take]; omega),
      tryFromSlice_ok (by rw [List.length_drop, List.length_take]; omega), if_neg h]
    show Outcome.ok _ = Outcome.ok _
    congr 2
    · rw [List.take_take]; rfl
    · rw [List.drop_take]

theorem fromSealedBytesNoGuard_short (bs : Bytes) (h : bs.length < 48) : fromSealedBytesNoGuard bs = .panic := by
  unfold fromSealedBytesNoGuard fromSealedBytesRawWith SEALBYTES
  rw [errIfWhen_false, ok_bind, splitAt_panic h, panic_bind]

end DryocVerif.Proofs.SecretBox

/-! ### `SignedMessage::from_bytes`, `crypto_sign_open` -/
namespace DryocVerif.Proofs.SignRaw
open DryocVerif DryocVerif.Model.Raw DryocVerif.Proofs.Raw DryocVerif.Model.Sign
open scoped DryocVerif.Model.Raw

theorem fromBytesRaw_eq (bs : Bytes) : fromBytesRaw bs = fromBytes bs := by
  unfold fromBytesRaw fromBytesRawWith fromBytes
  rw [errIfWhen_true]
  by_cases h : bs.length < 64
  · rw [errIf_pos h, err_bind, if_pos h]
  · rw [errIf_neg h, ok_bind, splitAt_ok (by omega), ok_bind,
      tryFromSlice_ok (by rw [List.length_take]; omega), if_neg h]
    rfl

theorem fromBytesNoGuard_short (bs : Bytes) (h : bs.length < 64) : fromBytesNoGuard bs = .panic := by
  unfold fromBytesNoGuard fromBytesRawWith
  rw [errIfWhen_false, ok_bind, splitAt_panic h, panic_bind]

theorem lenCheck_eq (m sm : Bytes) (h : 64 ≤ sm.length) :
    lenCheck m sm = errIf (m.length ≠ sm.length - 64) := by
  unfold lenCheck
  rw [checkedSub_ok h, ok_bind]

theorem ed25519OpenRaw_eq (H : Bytes → Bytes) (m sm pk : Bytes) :
    ed25519OpenRawWith true H m sm pk = signOpen H m.length sm pk := by
  unfold ed25519OpenRawWith signOpen
  rw [errIfWhen_true, whenPresent_true]
  by_cases h : sm.length < 64
  · rw [errIf_pos h, err_bind, if_pos h]
  rw [errIf_neg h, ok_bind, if_neg h, lenCheck_eq m sm (by omega)]
  by_cases h2 : m.length ≠ sm.length - 64
  · rw [errIf_pos h2, err_bind, if_pos h2]
  rw [errIf_neg h2, ok_bind, if_neg h2, splitAt_ok (by omega), ok_bind]
  simp only []
  rw [tryFromSlice_ok (by rw [List.length_take]; omega)]
  show (errIf _ >>= fun _ => _) = _
  cases hv : verifyDetached H (sm.take 64) (sm.drop 64) pk false with
  | true =>
    rw [errIf_neg (by simp), ok_bind, copyFromSlice_ok (by rw [List.length_drop]; omega)]
    rfl
  | false =>
    rw [errIf_pos rfl, err_bind]
    rfl

/-- **`crypto_sign_open` as written = the total model**: after the two length checks, `split_at(64)`, the
`try_from(..).unwrap()` and `message.copy_from_slice(sm)` cannot fail, for any signed message, any
message buffer and any key -/
theorem signOpenRaw_eq (H : Bytes → Bytes) (m sm pk : Bytes) :
    signOpenRaw H m sm pk = signOpen H m.length sm pk := by
  unfold signOpenRaw signOpenRawWith
  rw [errIfWhen_true, whenPresent_true, ed25519OpenRaw_eq]
  unfold signOpen
  by_cases h : sm.length < 64
  · rw [errIf_pos h, err_bind, if_pos h]
  rw [errIf_neg h, ok_bind, lenCheck_eq m sm (by omega)]
  by_cases h2 : m.length ≠ sm.length - 64
  · rw [errIf_pos h2, err_bind, if_neg h, if_pos h2]
  · rw [errIf_neg h2, ok_bind]

/-- with the length checks deleted, `split_at(64)` panics on every signed message shorter than a signature -/
theorem signOpenNoGuard_short (H : Bytes → Bytes) (m sm pk : Bytes) (h : sm.length < 64) :
    signOpenNoGuard H m sm pk = .panic := by
  unfold signOpenNoGuard signOpenRawWith ed25519OpenRawWith
  rw [errIfWhen_false, whenPresent_false, ok_bind, ok_bind, ok_bind, ok_bind, splitAt_panic h, panic_bind]

/-- … and `copy_from_slice` panics on a VALID signed message whenever the caller's buffer has another
length than the message -/
theorem signOpenNoGuard_wrong_buffer (H : Bytes → Bytes) (m sm pk : Bytes) (h : 64 ≤ sm.length)
    (hv : verifyDetached H (sm.take 64) (sm.drop 64) pk false = true) (hm : m.length ≠ sm.length - 64) :
    signOpenNoGuard H m sm pk = .panic := by
  unfold signOpenNoGuard signOpenRawWith ed25519OpenRawWith
  rw [errIfWhen_false, whenPresent_false, ok_bind, ok_bind, ok_bind, ok_bind, splitAt_ok h, ok_bind]
  simp only []
  rw [tryFromSlice_ok (by rw [List.length_take]; omega)]
  show (errIf _ >>= fun _ => _) = _
  rw [errIf_neg (by simp [hv]), ok_bind]
  unfold copyFromSlice
  rw [if_pos (by rw [List.length_drop]; exact hm)]

end DryocVerif.Proofs.SignRaw

/-! ### password-hash strings -/
namespace DryocVerif.Proofs.PwhashRaw
open DryocVerif DryocVerif.Model.Raw DryocVerif.Proofs.Raw DryocVerif.Model.PwhashStr
open scoped DryocVerif.Model.Raw

theorem finalChecksRaw_eq (r : Parsed) :
    finalChecksRawWith true r =
      (if r.version ≠ some 19 then .err
      else if r.p ≠ some 1 then .err
      else if r.pwhash.isNone ∨ r.pwhash = some [] then .err
      else if r.salt.isNone ∨ r.salt = some [] then .err
      else if r.ty.isNone then .err
      else if r.m.isNone then .err
      else if r.t.isNone then .err
      else .ok r) := by
  rcases r with ⟨pw, sa, ty, t, m, p, v⟩
  unfold finalChecksRawWith
  cases v with
  | none => simp [orElse, errIf]
  | some v =>
    by_cases hv : v = 19
    · subst hv
      cases p with
      | none => simp [orElse, errIf, unwrap]
      | some p =>
        by_cases hp : p = 1
        · subst hp
          cases pw with
          | none => simp [orElse, errIf, unwrap]
          | some pw =>
            cases pw with
            | nil => simp [orElse, errIf, unwrap]
            | cons a b =>
              cases sa with
              | none => simp [orElse, errIf, unwrap]
              | some sa =>
                cases sa with
                | nil => simp [orElse, errIf, unwrap]
                | cons c d =>
                  cases ty <;> cases m <;> cases t <;> simp [orElse, errIf, unwrap]
        · simp [orElse, errIf, unwrap, hp]
    · simp [orElse, errIf, unwrap, hv]

/-- **the parser as written = the total model**: every `unwrap()` of the final checks is protected by the
`is_none() ||` in front of it -/
theorem parseRaw_eq (s : Str) : parseRaw s = parse s := by
  unfold parseRaw parseRawWith parse
  cases parseSegments (splitOn '$' s) {} with
  | none => rfl
  | some r => exact finalChecksRaw_eq r

/-- `crypto_pwhash_str_needs_rehash`: its two `unwrap()`s never fail -/
theorem needsRehashRaw_eq (s : Str) (o l : Nat) : needsRehashRaw s o l = needsRehash s o l := by
  unfold needsRehashRaw needsRehash
  rw [parseRaw_eq]
  cases h : parse s with
  | ok r =>
    obtain ⟨ty, t, m, salt, hash, _, _, hr⟩ := parse_ok_fields h
    subst hr
    simp only [ok_bind, unwrap]
    by_cases h1 : o % 4294967296 = t
    · by_cases h2 : l / 1024 % 4294967296 = m <;> simp [h1, h2]
    · simp [h1]
  | err => rfl
  | panic => rfl

/-- `crypto_pwhash_str_verify`: its six `unwrap()`s never fail, whatever Argon2 does -/
theorem strVerifyCode_eq (argon2 : Nat → Nat → Nat → Nat → Bytes → Bytes → Nat → Outcome Bytes)
    (s : Str) (pwd : Bytes) : strVerifyCode argon2 s pwd = strVerify argon2 s pwd := by
  unfold strVerifyCode strVerify
  rw [parseRaw_eq]
  cases h : parse s with
  | ok r =>
    obtain ⟨ty, t, m, salt, hash, _, _, hr⟩ := parse_ok_fields h
    subst hr
    simp only [ok_bind, unwrap]
    cases argon2 ty.num t m 1 pwd salt 32 with
    | ok c =>
      simp only [ok_bind]
      by_cases hc : c = hash
      · rw [errIf_neg (by simpa using hc), if_pos hc]
      · rw [errIf_pos (by simpa using hc), if_neg hc]
    | err => rfl
    | panic => rfl
  | err => rfl
  | panic => rfl

end DryocVerif.Proofs.PwhashRaw

/-! ### `crypto_auth_verify`, `crypto_onetimeauth_verify` -/
namespace DryocVerif.Proofs.Core
open DryocVerif DryocVerif.Model.Core

/-- `crypto_auth_hmacsha512256_verify` never panics for a key of at most 128 bytes (the API type is
`[u8; 32]`), whatever the hash function, the MAC and the message are: both bounds-checked key loops of
`crypto_auth_hmacsha512256_init` stay in range -/
theorem hmacVerify_ne_panic (H : Bytes → Bytes) (mac msg key : Bytes) (hk : key.length ≤ 128) :
    hmacVerify H mac msg key ≠ .panic := by
  unfold hmacVerify
  rw [hmac_ok H key msg hk]
  simp only
  split <;> simp

/-- … and it answers `Ok`/`Err` by comparing with a 32-byte value: `output.copy_from_slice(&ihash[..32])`
in `crypto_auth_hmacsha512256_final` is in range because SHA-512 returns 64 bytes -/
theorem hmac_ok_length (H : Bytes → Bytes) (hH : ∀ x, (H x).length = 64) (key msg : Bytes) (hk : key.length ≤ 128) :
    ∃ c, hmac H key msg = .ok c ∧ c.length = 32 ∧
      (∀ mac, hmacVerify H mac msg key = if mac = c then .ok () else .err) := by
  refine ⟨_, hmac_ok H key msg hk, by rw [List.length_take, hH]; rfl, ?_⟩
  intro mac
  rw [hmacVerify_eq_if]
  rw [hmac_ok H key msg hk]

/-- the key-length hypothesis cannot be dropped: a key of more than 128 bytes makes the verification panic
(index out of bounds in `init`; unreachable through the `[u8; 32]` API) -/
theorem hmacVerify_long_key_panics (H : Bytes → Bytes) (mac msg key : Bytes) (hk : key.length > 128)
    (hH : (H key).length = 64) : hmacVerify H mac msg key = .panic := by
  unfold hmacVerify hmac
  rw [hmacInit_long_key_panics H key hk hH]

end DryocVerif.Proofs.Core

namespace DryocVerif.Proofs.Poly1305
open DryocVerif DryocVerif.Model.Poly1305

theorem onetimeauthVerify_ok_iff (key msg tag : Bytes) (hk : key.length = 32) :
    onetimeauthVerify key msg tag = .ok () ↔ tag = Spec.Poly1305.mac key msg := by
  unfold onetimeauthVerify
  simp only
  rw [mac_model_eq_spec key msg hk]
  split <;> simp_all

theorem onetimeauthVerify_err_iff (key msg tag : Bytes) (hk : key.length = 32) :
    onetimeauthVerify key msg tag = .err ↔ tag ≠ Spec.Poly1305.mac key msg := by
  unfold onetimeauthVerify
  simp only
  rw [mac_model_eq_spec key msg hk]
  split <;> simp_all

theorem onetimeauthVerify_ne_panic (key msg tag : Bytes) : onetimeauthVerify key msg tag ≠ .panic := by
  unfold onetimeauthVerify
  simp only
  split <;> simp

end DryocVerif.Proofs.Poly1305

/-! ### `crypto_pwhash_str_verify` with the Argon2 model plugged in -/
namespace DryocVerif.Proofs.PwhashRaw
open DryocVerif DryocVerif.Model.PwhashStr

/-- Argon2 as `crypto_pwhash_str_verify` calls it: no secret, no associated data -/
def argon2Str : Nat → Nat → Nat → Nat → Bytes → Bytes → Nat → Outcome Bytes :=
  fun ty t m p pwd salt n => Model.Argon2.argon2Hash ty t m p pwd salt none none n

theorem strVerify_argon2_ne_panic (s : Str) (pwd : Bytes)
    (hm : ∀ r m, parse s = .ok r → r.m = some m → 7 * (max m 8 / 4) < 2 ^ 32 + 3) :
    strVerify argon2Str s pwd ≠ .panic := by
  unfold strVerify
  cases h : parse s with
  | ok r =>
    obtain ⟨ty, t, m, salt, hash, _, _, hr⟩ := parse_ok_fields h
    have hrange := parse_ok_range h
    have h7 := hm r m h (by rw [hr])
    subst hr
    have hm32 : m < 2 ^ 32 := hrange.2 m rfl
    simp only
    unfold argon2Str
    by_cases hv : Proofs.Argon2.Valid 32 pwd.length salt.length (Option.map List.length (none : Option Bytes))
        (Option.map List.length (none : Option Bytes)) t m 1
    · rw [Proofs.Argon2.argon2Hash_ok hv (by decide) (by simpa using h7)]
      simp only
      split <;> simp
    · rw [Proofs.Argon2.argon2Hash_err (by decide) (by decide) hm32 hv]
      simp
  | err => simp
  | panic => exact absurd h (parse_ne_panic s)

end DryocVerif.Proofs.PwhashRaw

/-! ### serde visitors -/
namespace DryocVerif.Proofs.EncodingRaw
open DryocVerif DryocVerif.Model.Raw DryocVerif.Proofs.Raw DryocVerif.Model.Encoding

theorem setIndex_ok {x : Bytes} {i : Nat} (v : UInt8) (h : i < x.length) : setIndex x i v = .ok (x.set i v) := by
  unfold setIndex; rw [if_pos h]

theorem take_succ_set (arr : Bytes) (i : Nat) (e : UInt8) (h : i < arr.length) :
    (arr.set i e).take (i + 1) = arr.take i ++ [e] := by
  rw [List.take_succ_eq_append_getElem (by rw [List.length_set]; exact h), List.take_set_of_le (Nat.le_refl i),
    List.getElem_set_self]

/-- loop invariant: `arr` has `n` bytes and its first `idx` bytes are the elements stored so far -/
theorem visitSeqFixedRawGo_eq (n : Nat) (hn : n < 2 ^ 64) (es : Bytes) :
    ∀ (arr : Bytes) (idx : Nat), arr.length = n → idx ≤ n →
      visitSeqFixedRawGo true n es arr idx = visitSeqFixedGo n es (arr.take idx) := by
  induction es with
  | nil =>
    intro arr idx ha hi
    unfold visitSeqFixedRawGo visitSeqFixedGo
    rw [List.length_take, Nat.min_eq_left (by omega)]
    by_cases h : idx = n
    · subst h
      rw [if_neg (by simp), if_neg (by simp), ← ha, List.take_length]
    · rw [if_pos h, if_pos h]
  | cons e es ih =>
    intro arr idx ha hi
    unfold visitSeqFixedRawGo visitSeqFixedGo
    rw [List.length_take, Nat.min_eq_left (by omega)]
    by_cases h : idx ≥ n
    · rw [if_pos ⟨rfl, h⟩, if_pos h]
    · rw [if_neg (fun hh => h hh.2), if_neg h, setIndex_ok e (by omega), checkedAdd_ok (by omega)]
      simp only []
      rw [ih (arr.set idx e) (idx + 1) (by rw [List.length_set]; exact ha) (by omega),
        take_succ_set arr idx e (by omega)]

/-- **the fixed-length visitors as written = the total model**: `arr[idx] = elem` is in range (guarded by
`idx >= LENGTH`), `idx += 1` cannot overflow, `copy_from_slice` gets equal lengths -/
theorem deFixedRaw_eq (n : Nat) (hn : n < 2 ^ 64) (enc : Enc) : deFixedRaw n enc = deFixed n enc := by
  unfold deFixedRaw deFixedRawWith deFixed
  cases enc with
  | seq es =>
    simp only []
    rw [visitSeqFixedRawGo_eq n hn es (zeros n) 0 (by simp [zeros]) (by omega)]
    rfl
  | bytes bs =>
    simp only []
    rw [errIfWhen_true]
    by_cases h : bs.length ≠ n
    · rw [errIf_pos h, if_pos h]
    · rw [errIf_neg h, if_neg h]
      simp only []
      rw [copyFromSlice_ok (by simp [zeros]; omega)]

theorem append_zero_set (arr : Bytes) (e : UInt8) :
    (arr ++ zeros (arr.length + 1 - arr.length)).set arr.length e = arr ++ [e] := by
  rw [Nat.add_sub_cancel_left, List.set_append_right _ _ (Nat.le_refl _), Nat.sub_self]
  rfl

theorem visitSeqHeapRawGo_eq (es : Bytes) :
    ∀ arr : Bytes, arr.length + es.length < 2 ^ 64 → visitSeqHeapRawGo es arr = .ok (visitSeqHeapGo es arr) := by
  induction es with
  | nil => intro arr _; rfl
  | cons e es ih =>
    intro arr h
    rw [List.length_cons] at h
    unfold visitSeqHeapRawGo visitSeqHeapGo
    simp only []
    rw [checkedAdd_ok (by omega)]
    simp only []
    rw [setIndex_ok e (by simp [zeros])]
    simp only []
    rw [append_zero_set, ih (arr ++ [e]) (by rw [List.length_append, List.length_singleton]; omega)]

/-- **the resizable visitors as written = the total model**, for every sequence of fewer than 2^64 elements
(a `Vec` cannot hold more): `resize(idx + 1)` makes `arr[idx]` valid -/
theorem deHeapRaw_eq (enc : Enc) (h : enc.payload.length < 2 ^ 64) : deHeapRaw enc = deHeap enc := by
  unfold deHeapRaw deHeap
  cases enc with
  | seq es => exact visitSeqHeapRawGo_eq es [] (by simpa [Enc.payload] using h)
  | bytes bs => rfl

end DryocVerif.Proofs.EncodingRaw
