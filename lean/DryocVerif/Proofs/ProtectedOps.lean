import DryocVerif.Proofs.ProtectedGood
/-
Preservation of `GoodL` / `TightL` by the container and `Protected` operations.
-/
namespace DryocVerif.Proofs.Protected
open DryocVerif DryocVerif.Model.Protected

/-! ### byte-buffer lengths -/

@[simp] theorem zeros_length (n : Nat) : (zeros n).length = n := by simp [zeros]

theorem wipeN_length (n : Nat) (b : Bytes) : (wipeN n b).length = b.length := by
  simp [wipeN]; omega

theorem setZeros_length (b : Bytes) (lo hi : Nat) (h1 : lo ≤ hi) (h2 : hi ≤ b.length) :
    (setZeros b lo hi).length = b.length := by
  simp [setZeros]; omega

theorem setFill_length (b : Bytes) (lo hi : Nat) (x : UInt8) (h1 : lo ≤ hi) (h2 : hi ≤ b.length) :
    (setFill b lo hi x).length = b.length := by
  simp [setFill]; omega

/-! ### operations on the data pages of the head block -/

theorem good_dataop {P : Nat} (hP : 0 < P) {k k' : Kernel} {v : PVec} {dp p' : Perm} {dl l' : Bool}
    {R : List Blk} (g : GoodL P k (⟨v, dp, dl⟩ :: R)) (hbrk : k'.brk = k.brk)
    (hin : ∀ i, v.base + 1 ≤ i → i < v.base + 1 + pagesOf P v.len → k'.perm i = p' ∧ k'.locked i = l')
    (hout : ∀ i, ¬ (v.base + 1 ≤ i ∧ i < v.base + 1 + pagesOf P v.len) →
      k'.perm i = k.perm i ∧ k'.locked i = k.locked i)
    (hal : k'.al = k.al := by simp) (hfl : k'.fr = k.fr := by simp) :
    GoodL P k' (⟨v, p', l'⟩ :: R) := by
  have hb := g.ok _ (List.mem_cons_self)
  have hle : pagesOf P v.len ≤ v.cap / P + 1 := pagesOf_le hP hb.lenle
  refine good_own hP g hbrk ?_ rfl rfl ?_ hal hfl
  · intro p hn
    exact hout p (fun h => hn (data_in_block hP hb.lenle h.1 h.2))
  · refine ⟨hb.lenle, hb.buflen, hb.lo, by rw [hbrk]; exact hb.hi, ?_, ?_, hin, ?_⟩
    · intro hc
      have := hout v.base (by omega)
      rw [this.1, this.2]; exact hb.fore hc
    · intro hc
      have := hout (v.base + v.cap / P + 2) (by omega)
      rw [this.1, this.2]; exact hb.aft hc
    · intro hc p h1 h2
      have := hout p (by simp only [] at h1; omega)
      rw [this.1, this.2]; exact hb.spare hc p h1 h2

theorem tight_dataop {P : Nat} (hP : 0 < P) {k k' : Kernel} {v : PVec} {dp p' : Perm} {dl l' : Bool}
    {R : List Blk} (t : TightL P k (⟨v, dp, dl⟩ :: R)) (hl : v.len ≤ v.cap)
    (hout : ∀ i, ¬ (v.base + 1 ≤ i ∧ i < v.base + 1 + pagesOf P v.len) →
      k'.perm i = k.perm i ∧ k'.locked i = k.locked i) :
    TightL P k' (⟨v, p', l'⟩ :: R) := by
  refine tight_own t ?_ rfl rfl
  intro p hn
  exact hout p (fun h => hn (data_in_block hP hl h.1 h.2))

/-- changing length / contents of a read-write unlocked container inside its capacity -/
theorem good_setvec {P : Nat} (hP : 0 < P) {k : Kernel} {v v' : PVec} {R : List Blk}
    (g : GoodL P k (⟨v, .rw, false⟩ :: R)) (hb : v'.base = v.base) (hc : v'.cap = v.cap)
    (hl : v'.len ≤ v.cap) (hbuf : v'.buf.length = v.cap) :
    GoodL P k (⟨v', .rw, false⟩ :: R) := by
  have ho := g.ok _ (List.mem_cons_self)
  have hle : pagesOf P v.len ≤ v.cap / P + 1 := pagesOf_le hP ho.lenle
  have hle' : pagesOf P v'.len ≤ v.cap / P + 1 := pagesOf_le hP hl
  have hall : 0 < v.cap → ∀ p, v.base + 1 ≤ p → p < v.base + v.cap / P + 2 →
      k.perm p = .rw ∧ k.locked p = false := by
    intro hcp p h1 h2
    by_cases h : p < v.base + 1 + pagesOf P v.len
    · exact ho.data p h1 h
    · exact ho.spare hcp p (by simp only []; omega) h2
  refine good_own hP g rfl (fun _ _ => ⟨rfl, rfl⟩) hb hc ?_
  refine ⟨by simp [hc, hl], by simp [hc, hbuf], ?_, ?_, ?_, ?_, ?_, ?_⟩ <;> simp only [hb, hc]
  · exact ho.lo
  · exact ho.hi
  · exact ho.fore
  · exact ho.aft
  · intro p h1 h2
    have hcp : 0 < v.cap := by
      rcases Nat.eq_zero_or_pos v.cap with h | h
      · have : v'.len = 0 := by omega
        rw [this, pagesOf_zero hP] at h2; omega
      · exact h
    exact hall hcp p h1 (by omega)
  · intro hcp p h1 h2
    exact hall hcp p (by omega) h2

/-- changing only the contents (same length) of any block -/
theorem good_setbuf {P : Nat} (hP : 0 < P) {k : Kernel} {v v' : PVec} {dp : Perm} {dl : Bool}
    {R : List Blk} (g : GoodL P k (⟨v, dp, dl⟩ :: R)) (hb : v'.base = v.base) (hc : v'.cap = v.cap)
    (hl : v'.len = v.len) (hbuf : v'.buf.length = v.buf.length) :
    GoodL P k (⟨v', dp, dl⟩ :: R) := by
  have ho := g.ok _ (List.mem_cons_self)
  refine good_own hP g rfl (fun _ _ => ⟨rfl, rfl⟩) hb hc ?_
  refine ⟨?_, ?_, ?_, ?_, ?_, ?_, ?_, ?_⟩ <;> simp only [hb, hc, hl, hbuf]
  · exact ho.lenle
  · exact ho.buflen
  · exact ho.lo
  · exact ho.hi
  · exact ho.fore
  · exact ho.aft
  · exact ho.data
  · exact ho.spare

theorem tight_setvec {P : Nat} {k : Kernel} {b b' : Blk} {R : List Blk}
    (t : TightL P k (b :: R)) (hb : b'.v.base = b.v.base) (hc : b'.v.cap = b.v.cap) :
    TightL P k (b' :: R) :=
  tight_own t (fun _ _ => ⟨rfl, rfl⟩) hb hc

/-! ### empty containers own no pages -/

theorem notin_empty {P : Nat} {v : PVec} (h : v.cap = 0) (p : Nat) : ¬ inBlock P v p := by
  intro hi; have := hi.1; omega

theorem good_add_empty {P : Nat} (hP : 0 < P) {k : Kernel} {R : List Blk} (g : GoodL P k R)
    (dp : Perm) (dl : Bool) : GoodL P k (⟨PVec.empty, dp, dl⟩ :: R) := by
  refine ⟨g.start, g.fresh, ?_, ?_, ?_, ?_, g.albase⟩
  rotate_left 3
  · intro z
    rw [ownedB_cons]
    have : blkP PVec.empty = [] := rfl
    rw [this, List.nil_append]; exact g.led z
  · intro o ho
    rcases List.mem_cons.mp ho with rfl | ho
    · refine ⟨by simp [PVec.empty], by simp [PVec.empty], ?_, ?_, ?_, ?_, ?_, ?_⟩ <;>
        simp [PVec.empty, pagesOf_zero hP]
      intro p h1 h2; omega
    · exact g.ok o ho
  · refine List.pairwise_cons.mpr ⟨?_, g.disj⟩
    intro o _ p hp
    exact notin_empty (by simp [PVec.empty]) p hp.1
  · intro p hp
    exact g.outside p (fun o ho => hp o (by simp [ho]))

theorem good_remove_empty {P : Nat} {k : Kernel} {b : Blk} {R : List Blk}
    (g : GoodL P k (b :: R)) (hc : b.v.cap = 0) : GoodL P k R := by
  refine ⟨g.start, g.fresh, fun o ho => g.ok o (by simp [ho]), (List.pairwise_cons.mp g.disj).2, ?_, ?_,
    g.albase⟩
  rotate_left 1
  · intro z
    have := g.led z
    rw [ownedB_cons] at this
    have e : blkP b.v = [] := by unfold blkP; rw [if_pos hc]
    rw [e, List.nil_append] at this; exact this
  intro p hp
  apply g.outside p
  intro o ho
  rcases List.mem_cons.mp ho with rfl | ho
  · exact notin_empty hc p
  · exact hp o ho

theorem tight_add {P : Nat} {k : Kernel} {R : List Blk} (t : TightL P k R) (b : Blk) :
    TightL P k (b :: R) :=
  fun p hp => t p (fun o ho => hp o (by simp [ho]))

theorem tight_remove_empty {P : Nat} {k : Kernel} {b : Blk} {R : List Blk}
    (t : TightL P k (b :: R)) (hc : b.v.cap = 0) : TightL P k R := by
  intro p hp
  apply t p
  intro o ho
  rcases List.mem_cons.mp ho with rfl | ho
  · exact notin_empty hc p
  · exact hp o ho

/-! ### `Vec` -/

theorem good_vecDrop {c : Cfg} (hP : 0 < c.P) {m : Mach} {b : Blk} {R : List Blk}
    (g : GoodL c.P m.k (b :: R)) : GoodL c.P (vecDrop c m b.v).k R := by
  unfold vecDrop
  split
  · exact good_remove_empty g ‹_›
  · exact good_dealloc hP g (by omega)

theorem tight_vecDrop {c : Cfg} {m : Mach} {b : Blk} {R : List Blk}
    (t : TightL c.P m.k (b :: R)) (hb : BlockOK c.P m.k b) (hdl : b.dl = false) :
    TightL c.P (vecDrop c m b.v).k R := by
  unfold vecDrop
  split
  · exact tight_remove_empty t ‹_›
  · exact tight_dealloc t hb hdl

@[simp] theorem vecDrop_oracle (c : Cfg) (m : Mach) (v : PVec) : (vecDrop c m v).oracle = m.oracle := by
  unfold vecDrop; split <;> simp

@[simp] theorem vecResize_oracle (c : Cfg) (m : Mach) (v : PVec) (n : Nat) (b : UInt8) :
    (vecResize c m v n b).1.oracle = m.oracle := by
  unfold vecResize; split
  · rfl
  split
  · rfl
  · simp

@[simp] theorem vecClone_oracle (c : Cfg) (m : Mach) (v : PVec) : (vecClone c m v).1.oracle = m.oracle := by
  unfold vecClone; split <;> simp

@[simp] theorem newBytes_oracle (c : Cfg) (m : Mach) : (newBytes c m).1.oracle = m.oracle := by
  unfold newBytes; split <;> simp

theorem growCap_ge (cap n : Nat) : n ≤ growCap cap n ∧ 0 < growCap cap n := by
  unfold growCap; omega

theorem good_vecResize {c : Cfg} (hP : 0 < c.P) {m : Mach} {v : PVec} {R : List Blk}
    (g : GoodL c.P m.k (⟨v, .rw, false⟩ :: R)) (n : Nat) (b : UInt8 := 0) :
    GoodL c.P (vecResize c m v n b).1.k (⟨(vecResize c m v n b).2, .rw, false⟩ :: R) := by
  have ho := g.ok _ (List.mem_cons_self)
  have hlen : v.len ≤ v.cap := ho.lenle
  have hbl : v.buf.length = v.cap := ho.buflen
  unfold vecResize
  split
  · exact good_setvec hP g rfl rfl (by simp only []; omega) (by simpa using hbl)
  split
  · exact good_setvec hP g rfl rfl (by simpa) (by
      simp only []; rw [setFill_length _ _ _ _ (by omega) (by omega)]; exact hbl)
  · have hg := growCap_ge v.cap n
    have h1 := good_alloc hP g hg.2 ⟨m.k.brk, growCap v.cap n, n,
        setFill ((v.buf ++ zeros (growCap v.cap n)).take (growCap v.cap n)) v.len n b⟩
        rfl rfl hg.1 (by
          rw [setFill_length _ _ _ _ (by omega) (by simp; omega)]; simp)
    have h2 := h1.perm (List.Perm.swap _ _ _)
    exact good_vecDrop hP (b := ⟨v, .rw, false⟩) h2

theorem tight_vecResize {c : Cfg} {m : Mach} {v : PVec} {R : List Blk}
    (t : TightL c.P m.k (⟨v, .rw, false⟩ :: R)) (g : GoodL c.P m.k (⟨v, .rw, false⟩ :: R))
    (hP : 0 < c.P) (n : Nat) (b : UInt8 := 0) :
    TightL c.P (vecResize c m v n b).1.k (⟨(vecResize c m v n b).2, .rw, false⟩ :: R) := by
  unfold vecResize
  split
  · exact tight_setvec t rfl rfl
  split
  · exact tight_setvec t rfl rfl
  · have hg := growCap_ge v.cap n
    have ho := g.ok _ (List.mem_cons_self)
    have h1 := good_alloc hP g hg.2 ⟨m.k.brk, growCap v.cap n, n,
        setFill ((v.buf ++ zeros (growCap v.cap n)).take (growCap v.cap n)) v.len n b⟩
        rfl rfl hg.1 (by
          rw [setFill_length _ _ _ _ (by have := ho.lenle; omega) (by simp; omega)]; simp)
    have t1 := (tight_alloc (c := c) (m := m) (size := growCap v.cap n) t ⟨⟨m.k.brk, growCap v.cap n, n,
        setFill ((v.buf ++ zeros (growCap v.cap n)).take (growCap v.cap n)) v.len n b⟩, .rw, false⟩).perm
        (List.Perm.swap _ _ _)
    exact tight_vecDrop (b := ⟨v, .rw, false⟩) t1 (h1.ok _ (by simp)) rfl

theorem good_vecClone {c : Cfg} (hP : 0 < c.P) {m : Mach} {R : List Blk}
    (g : GoodL c.P m.k R) (v : PVec) :
    GoodL c.P (vecClone c m v).1.k (⟨(vecClone c m v).2, .rw, false⟩ :: R) := by
  unfold vecClone
  split
  · exact good_add_empty hP g _ _
  · exact good_alloc hP g (by omega) _ rfl rfl (Nat.le_refl _) (by simp)

theorem tight_vecClone {c : Cfg} {m : Mach} {R : List Blk}
    (t : TightL c.P m.k R) (v : PVec) :
    TightL c.P (vecClone c m v).1.k (⟨(vecClone c m v).2, .rw, false⟩ :: R) := by
  unfold vecClone
  split
  · exact tight_add t _
  · exact tight_alloc t _

end DryocVerif.Proofs.Protected
