import DryocVerif.Model.Poly1305
import DryocVerif.Spec.Poly1305
/-
Bit-operation → arithmetic lemmas on `Nat`, and byte-string lemmas (`le`, `toLE`,
`chunks`) used by the Poly1305 model/spec equivalence proof.  Core only.
-/
namespace DryocVerif.Proofs.Poly1305
open DryocVerif
open DryocVerif.Model.Poly1305

/-! ### masks, shifts, ors -/

theorem and_M44 (x : Nat) : x &&& M44 = x % 2^44 :=
  Nat.and_two_pow_sub_one_eq_mod x 44

theorem and_M42 (x : Nat) : x &&& M42 = x % 2^42 :=
  Nat.and_two_pow_sub_one_eq_mod x 42

theorem and_ones64 (x : Nat) : x &&& 18446744073709551615 = x % 2^64 :=
  Nat.and_two_pow_sub_one_eq_mod x 64

theorem U64_eq : U64 = 18446744073709551616 := by decide

/-- `a ||| q*2^k = a + q*2^k` when `a < 2^k`. -/
theorem or_mul_two_pow (a q k : Nat) (ha : a < 2^k) : a ||| (q * 2^k) = a + q * 2^k := by
  have h := Nat.two_pow_add_eq_or_of_lt ha q
  rw [Nat.or_comm, Nat.mul_comm q, ← h, Nat.add_comm]

/-- `mask < 2^k → x &&& mask = (x % 2^k) &&& mask` -/
theorem and_mod_of_lt (x mask k : Nat) (hm : mask < 2^k) : x &&& mask = (x % 2^k) &&& mask := by
  have h1 : x &&& mask < 2^k := Nat.lt_of_le_of_lt Nat.and_le_right hm
  have h2 := @Nat.and_mod_two_pow x mask k
  rw [Nat.mod_eq_of_lt h1, Nat.mod_eq_of_lt hm] at h2
  exact h2

/-- split an `&&&` at bit `k` -/
theorem and_split (x mask k : Nat) :
    x &&& mask = ((x % 2^k) &&& (mask % 2^k)) + 2^k * ((x / 2^k) &&& (mask / 2^k)) := by
  rw [← Nat.and_mod_two_pow, ← Nat.and_div_two_pow]
  exact (Nat.mod_add_div _ _).symm

/-- the middle 44-bit limb as computed by the Rust from two `u64` words -/
theorem mid_limb (t0 t1 : Nat) (h0 : t0 < 2^64) :
    ((t0 >>> 44) ||| ((t1 <<< 20) % U64)) = (t0 / 2^44) + (t1 % 2^44) * 2^20 := by
  have e1 : (t1 <<< 20) % U64 = (t1 % 2^44) * 2^20 := by
    rw [Nat.shiftLeft_eq, U64_eq]; omega
  rw [e1, Nat.shiftRight_eq_div_pow]
  exact or_mul_two_pow _ _ _ (by omega)

theorem mid_limb_M44 (t0 t1 : Nat) (h0 : t0 < 2^64) :
    ((t0 >>> 44) ||| ((t1 <<< 20) % U64)) &&& M44 = ((t0 + 2^64 * t1) / 2^44) % 2^44 := by
  rw [mid_limb t0 t1 h0, and_M44]; omega

theorem lo_limb_M44 (t0 t1 : Nat) :
    t0 &&& M44 = (t0 + 2^64 * t1) % 2^44 := by
  rw [and_M44]; omega

theorem hi_limb_M42 (t0 t1 : Nat) (h0 : t0 < 2^64) (h1 : t1 < 2^64) :
    (t1 >>> 24) &&& M42 = (t0 + 2^64 * t1) / 2^88 := by
  rw [and_M42, Nat.shiftRight_eq_div_pow]; omega

theorem or_hibit (x : Nat) (hx : x < 2^40) : x ||| 2^40 = x + 2^40 := by
  have := or_mul_two_pow x 1 40 hx
  simpa using this

/-! ### `le` -/

theorem le_lt (bs : Bytes) : le bs < 2^(8 * bs.length) := by
  induction bs with
  | nil => simp [le]
  | cons b bs ih =>
    have hb := b.toNat_lt
    simp only [le, List.length_cons]
    have : 2^(8 * (bs.length + 1)) = 256 * 2^(8 * bs.length) := by
      rw [Nat.mul_add, Nat.pow_add]; omega
    rw [this]; omega

theorem le_append (a b : Bytes) : le (a ++ b) = le a + 2^(8 * a.length) * le b := by
  induction a with
  | nil => simp [le]
  | cons x a ih =>
    simp only [List.cons_append, le, List.length_cons, ih]
    have : 2^(8 * (a.length + 1)) = 256 * 2^(8 * a.length) := by
      rw [Nat.mul_add, Nat.pow_add]; omega
    rw [this, Nat.mul_add, Nat.mul_assoc, Nat.add_assoc]

theorem le_zeros (n : Nat) : le (zeros n) = 0 := by
  induction n with
  | zero => rfl
  | succ n ih =>
    have : zeros (n+1) = (0 : UInt8) :: zeros n := by simp [zeros, List.replicate_succ]
    rw [this, le, ih]; rfl

theorem le_one : le [1] = 1 := by decide

/-- value of the padded final block -/
theorem le_pad (b : Bytes) (k : Nat) : le (b ++ [1] ++ zeros k) = le b + 2^(8 * b.length) := by
  rw [List.append_assoc, le_append, le_append, le_zeros, le_one]; simp

theorem le_take16 (m : Bytes) (hm : 8 ≤ m.length) :
    le (m.take 16) = le (m.take 8) + 2^64 * le ((m.drop 8).take 8) := by
  have : m.take 16 = m.take 8 ++ (m.drop 8).take 8 := List.take_add (i := 8) (j := 8)
  rw [this, le_append]
  have : (m.take 8).length = 8 := by simp; omega
  rw [this]

theorem le_take8_lt (m : Bytes) : le (m.take 8) < 2^64 := by
  have h := le_lt (m.take 8)
  have h2 : (m.take 8).length ≤ 8 := by simp; omega
  have : 2^(8 * (m.take 8).length) ≤ 2^64 := Nat.pow_le_pow_right (by decide) (by omega)
  omega

theorem le_split16 (m : Bytes) (hm : m.length = 16) :
    le m = le (m.take 8) + 2^64 * le ((m.drop 8).take 8) := by
  have : m.take 16 = m := List.take_of_length_le (by omega)
  rw [← le_take16 m (by omega), this]

/-! ### `toLE` -/

theorem toLE_append (a b v : Nat) : toLE (a + b) v = toLE a v ++ toLE b (v / 256^a) := by
  induction a generalizing v with
  | zero => simp [toLE]
  | succ a ih =>
    rw [Nat.add_right_comm, toLE, toLE, ih, Nat.pow_succ, Nat.div_div_eq_div_mul,
      Nat.mul_comm 256, List.cons_append]

theorem toLE_mod (n v : Nat) : toLE n (v % 256^n) = toLE n v := by
  induction n generalizing v with
  | zero => simp [toLE]
  | succ n ih =>
    rw [toLE, toLE]
    have e1 : v % 256^(n+1) % 256 = v % 256 := by
      rw [Nat.pow_succ, Nat.mul_comm]; exact Nat.mod_mul_right_mod _ _ _
    have e2 : v % 256^(n+1) / 256 = (v / 256) % 256^n := by
      rw [Nat.pow_succ, Nat.mul_comm]; exact Nat.mod_mul_right_div_self _ _ _
    rw [e1, e2, ih]

theorem toLE_words (w0 w1 : Nat) (h0 : w0 < 2^64) :
    toLE 8 w0 ++ toLE 8 w1 = toLE 16 (w0 + 2^64 * w1) := by
  have h := toLE_append 8 8 (w0 + 2^64 * w1)
  have e1 : (w0 + 2^64 * w1) / 256^8 = w1 := by omega
  have e2 : toLE 8 (w0 + 2^64 * w1) = toLE 8 w0 := by
    rw [← toLE_mod 8 (w0 + 2^64 * w1)]
    have : (w0 + 2^64 * w1) % 256^8 = w0 := by omega
    rw [this]
  rw [show (8 + 8 = 16) from rfl] at h
  rw [h, e1, e2]

theorem toLE16_mod (v : Nat) : toLE 16 (v % 2^128) = toLE 16 v := toLE_mod 16 v

/-! ### `chunks` -/

theorem chunksAux_nil (n f : Nat) : chunksAux n f [] = [] := by
  cases f <;> simp [chunksAux]

theorem chunksAux_fuel (n : Nat) (hn : 0 < n) :
    ∀ (f f' : Nat) (bs : Bytes), bs.length ≤ f → bs.length ≤ f' →
      chunksAux n f bs = chunksAux n f' bs := by
  intro f
  induction f with
  | zero =>
    intro f' bs h _
    have : bs = [] := List.eq_nil_of_length_eq_zero (by omega)
    subst this
    rw [chunksAux_nil, chunksAux_nil]
  | succ f ih =>
    intro f' bs h h'
    cases bs with
    | nil => rw [chunksAux_nil, chunksAux_nil]
    | cons b bs =>
      cases f' with
      | zero => simp at h'
      | succ f' =>
        simp only [chunksAux, List.isEmpty_cons, Bool.false_eq_true, if_false]
        congr 1
        apply ih
        · simp only [List.length_drop, List.length_cons] at h ⊢; omega
        · simp only [List.length_drop, List.length_cons] at h' ⊢; omega

theorem chunks_nil (n : Nat) : chunks n [] = [] := rfl

theorem chunks_ne_nil (n : Nat) (hn : 0 < n) (bs : Bytes) (h : bs ≠ []) :
    chunks n bs = bs.take n :: chunks n (bs.drop n) := by
  cases bs with
  | nil => exact absurd rfl h
  | cons b bs =>
    unfold chunks
    simp only [List.length_cons, chunksAux, List.isEmpty_cons, Bool.false_eq_true, if_false]
    congr 1
    apply chunksAux_fuel n hn
    · simp only [List.length_drop, List.length_cons]; omega
    · exact Nat.le_refl _

theorem chunks_cons_block (n : Nat) (hn : 0 < n) (a b : Bytes) (ha : a.length = n) :
    chunks n (a ++ b) = a :: chunks n b := by
  have hne : a ++ b ≠ [] := by
    intro h
    have h2 : (a ++ b).length = 0 := by rw [h]; rfl
    rw [List.length_append] at h2; omega
  rw [chunks_ne_nil n hn _ hne]
  rw [List.take_left' ha, List.drop_left' ha]

theorem chunks_single (n : Nat) (b : Bytes) (h0 : 0 < b.length) (h1 : b.length ≤ n) :
    chunks n b = [b] := by
  have hne : b ≠ [] := by intro h; subst h; simp at h0
  rw [chunks_ne_nil n (by omega) b hne, List.take_of_length_le h1, List.drop_eq_nil_of_le h1,
    chunks_nil]

theorem chunks_blocks (n : Nat) (hn : 0 < n) :
    ∀ (k : Nat) (P : Bytes), P.length = n * k →
      (∀ Q, chunks n (P ++ Q) = chunks n P ++ chunks n Q) ∧ (∀ b ∈ chunks n P, b.length = n) := by
  intro k
  induction k with
  | zero =>
    intro P hP
    have : P = [] := List.eq_nil_of_length_eq_zero (by simpa using hP)
    subst this
    simp [chunks_nil]
  | succ k ih =>
    intro P hP
    have hlen : n ≤ P.length := by rw [hP, Nat.mul_succ]; omega
    have htake : (P.take n).length = n := by simp; omega
    have hdrop : (P.drop n).length = n * k := by
      simp only [List.length_drop, hP, Nat.mul_succ]; omega
    have hsplit : P = P.take n ++ P.drop n := (List.take_append_drop n P).symm
    obtain ⟨ih1, ih2⟩ := ih (P.drop n) hdrop
    have hP' : chunks n P = P.take n :: chunks n (P.drop n) := by
      conv => lhs; rw [hsplit]
      exact chunks_cons_block n hn _ _ htake
    constructor
    · intro Q
      have : P ++ Q = P.take n ++ (P.drop n ++ Q) := by
        rw [← List.append_assoc, List.take_append_drop]
      rw [this, chunks_cons_block n hn _ _ htake, ih1 Q, hP', List.cons_append]
    · intro b hb
      rw [hP'] at hb
      rcases List.mem_cons.mp hb with h | h
      · rw [h]; exact htake
      · exact ih2 b h

theorem chunks_append (n : Nat) (hn : 0 < n) (P Q : Bytes) (hP : P.length % n = 0) :
    chunks n (P ++ Q) = chunks n P ++ chunks n Q := by
  have : P.length = n * (P.length / n) := by
    have := Nat.mod_add_div P.length n; omega
  exact (chunks_blocks n hn _ P this).1 Q

theorem chunks_all_len (n : Nat) (hn : 0 < n) (P : Bytes) (hP : P.length % n = 0) :
    ∀ b ∈ chunks n P, b.length = n := by
  have : P.length = n * (P.length / n) := by
    have := Nat.mod_add_div P.length n; omega
  exact (chunks_blocks n hn _ P this).2

end DryocVerif.Proofs.Poly1305
