import DryocVerif.Spec.Base64
/- Bonus: round-trip theorem showing the Base64 definitions are induction-friendly. -/
namespace DryocVerif.Spec.Base64
open DryocVerif

theorem decode_encode_sextet : ∀ n, n < 64 → decodeSextet (encodeSextet n) = some n := by
  decide

theorem ofNat_toNat (a : UInt8) : UInt8.ofNat a.toNat = a := by simp

theorem decode_encode (bs : Bytes) : decodeChars (encodeChars bs) = some bs := by
  induction bs using encodeChars.induct with
  | case1 => simp [encodeChars, decodeChars]
  | case2 a =>
    have ha := a.toNat_lt
    simp only [encodeChars, decodeChars]
    rw [decode_encode_sextet _ (by omega), decode_encode_sextet _ (by omega)]
    have h1 : a.toNat % 4 * 16 % 16 = 0 := by omega
    have h2 : a.toNat / 4 * 4 + a.toNat % 4 * 16 / 16 = a.toNat := by omega
    simp only [h1, h2, ofNat_toNat, if_true]
  | case3 a b =>
    have ha := a.toNat_lt
    have hb := b.toNat_lt
    simp only [encodeChars, decodeChars]
    rw [decode_encode_sextet _ (by omega), decode_encode_sextet _ (by omega),
        decode_encode_sextet _ (by omega)]
    have h1 : b.toNat % 16 * 4 % 4 = 0 := by omega
    have h2 : a.toNat / 4 * 4 + (a.toNat % 4 * 16 + b.toNat / 16) / 16 = a.toNat := by omega
    have h3 : (a.toNat % 4 * 16 + b.toNat / 16) % 16 * 16 + b.toNat % 16 * 4 / 4 = b.toNat := by omega
    simp only [h1, h2, h3, ofNat_toNat, if_true]
  | case4 a b c rest ih =>
    have ha := a.toNat_lt
    have hb := b.toNat_lt
    have hc := c.toNat_lt
    simp only [encodeChars, decodeChars]
    rw [decode_encode_sextet _ (by omega), decode_encode_sextet _ (by omega),
        decode_encode_sextet _ (by omega), decode_encode_sextet _ (by omega), ih]
    have h2 : a.toNat / 4 * 4 + (a.toNat % 4 * 16 + b.toNat / 16) / 16 = a.toNat := by omega
    have h3 : (a.toNat % 4 * 16 + b.toNat / 16) % 16 * 16 + (b.toNat % 16 * 4 + c.toNat / 64) / 4 = b.toNat := by omega
    have h4 : (b.toNat % 16 * 4 + c.toNat / 64) % 4 * 64 + c.toNat % 64 = c.toNat := by omega
    simp only [h2, h3, h4, ofNat_toNat]

end DryocVerif.Spec.Base64
