import DryocVerif.Proofs.PwhashExtra
/-
C04 / C10 helper lemmas: `PwHash::from_string(s)?.verify(pwd)` (`strVerifyRaw` of `Model/PwhashApi.lean`) never
panics under the memory bound of `strVerify_argon2_never_panics` and a bound on the length of the hash field;
and the second bound is necessary (a 2^32 − 1 byte hash field makes `argon2_finalize` panic).  Core only.
-/
namespace DryocVerif.Proofs.PwhashExtra
open DryocVerif DryocVerif.Model.Argon2 DryocVerif.Model.PwhashStr DryocVerif.Proofs.Argon2

/-- **`PwHash::from_string(s)?.verify(pwd)` never panics**, for every string and password, provided the memory
cost recorded in the string satisfies `7·(max m 8 / 4) < 2^32 + 3` (as for `crypto_pwhash_str_verify`) AND the
decoded hash field is shorter than `u32::MAX` bytes: this route recomputes with `hash_length = hash.len()`, and
`longhash` asserts `output.len() < u32::MAX`. -/
theorem strVerifyRaw_ne_panic (s : Str) (pwd : Bytes)
    (hm : ∀ r m, parse s = .ok r → r.m = some m → 7 * (max m 8 / 4) < 2 ^ 32 + 3)
    (hh : ∀ r h, parse s = .ok r → r.pwhash = some h → h.length < 0xFFFFFFFF) :
    strVerifyRaw s pwd ≠ .panic := by
  cases h : parse s with
  | ok r =>
    obtain ⟨ty, t, m, salt, hash, _, _, hr⟩ := parse_ok_fields h
    subst hr
    have h7 := hm _ m h rfl
    have hl := hh _ hash h rfl
    have hty : ty.num = 1 ∨ ty.num = 2 := by cases ty <;> simp [Alg.num]
    rw [strVerifyRaw_of_parse pwd h]
    unfold objVerify objHashWithSalt
    have hnp := cryptoPwhash_ne_panic (pwd := pwd) (salt := salt) (opslimit := t) (memlimit := 1024 * m)
      hty hl (by rw [Nat.mul_div_cancel_left m (by decide : 0 < 1024)]; omega)
    cases hc : cryptoPwhash hash.length pwd salt t (1024 * m) ty.num with
    | ok c => simp only; split <;> simp
    | err => simp
    | panic => exact absurd hc hnp
  | err => unfold strVerifyRaw; rw [h]; simp
  | panic => exact absurd h (parse_ne_panic s)

/-- a sufficient condition on the string alone: at most 2^32 characters (the hash field decodes to at most
3/4 of them) -/
theorem strVerifyRaw_ne_panic_of_short (s : Str) (pwd : Bytes)
    (hm : ∀ r m, parse s = .ok r → r.m = some m → 7 * (max m 8 / 4) < 2 ^ 32 + 3)
    (hs : s.length ≤ 2 ^ 32) : strVerifyRaw s pwd ≠ .panic := by
  apply strVerifyRaw_ne_panic s pwd hm
  intro r h hp hr
  have := (parse_ok_alloc hp).2 h hr
  omega

/-! ### the bound on the hash length is necessary -/

/-- `argon2_finalize` with a `u32::MAX`-byte output: the XOR of the lane ends succeeds, `longhash` asserts -/
theorem finalize_panic_max {inst : Instance} {mem : Array Block} (hI : InstInv inst)
    (hmem : mem.size = inst.memoryBlocks) : finalize 0xFFFFFFFF inst mem = .panic := by
  have hsl := hI.sl_ge; have hll := hI.ll_eq; have hmb := hI.mb_lt; have hlanes := hI.lanes_ge
  have hl0 := lane_le_mem (l := 0) hI (by omega)
  simp only [Nat.zero_mul, Nat.zero_add] at hl0
  have key := forRange_eq_fold (finalizeStep inst mem)
    (fun l acc => xorBlock acc mem[l * inst.laneLength + (inst.laneLength - 1)]!)
    (fun _ _ => True) (inst.lanes - 1) 1 mem[inst.laneLength - 1]! trivial (by
      intro l acc h1 hl _
      have f := lane_le_mem (l := l) hI (by omega)
      unfold finalizeStep
      rw [mulU32_ok (by omega), ok_bind, subU32_ok (by omega), ok_bind, addU32_ok (by omega), ok_bind,
        getBlock_ok (by omega), ok_bind, pure_eq]
      exact ⟨rfl, trivial⟩)
  unfold finalize forLoop copyBlock
  have e : (inst.laneLength + U32 - 1) % U32 = inst.laneLength - 1 := by
    rw [U32_eq]; omega
  rw [e, getBlock_ok (by omega), ok_bind, key.1, ok_bind, longhash_panic _ (.inr (Nat.le_refl _))]

/-- **`argon2_hash` with accepted parameters and a `u32::MAX`-byte output buffer panics** — after the whole
memory has been filled (`Argon2Context::new` accepts `outlen = 0xFFFFFFFF`, `longhash` asserts `<`) -/
theorem argon2Hash_panic_max_outlen {ty t m p : Nat} {pwd salt : Bytes} {secret ad : Option Bytes}
    (hv : Valid 0xFFFFFFFF pwd.length salt.length (secret.map List.length) (ad.map List.length) t m p)
    (h7 : 7 * (max m (8 * p) / (4 * p)) < 2 ^ 32 + 3) :
    argon2Hash ty t m p pwd salt secret ad 0xFFFFFFFF = .panic := by
  have hp := hv.lanes_ge; have hp' := hv.lanes_le; have hm := hv.m_le
  have hI : InstInv (mkInstance ty t m p) := mkInstance_inv hp (by omega) (by omega)
  unfold argon2Hash
  rw [memoryGeometry_ok hp (by omega) (by omega), ok_bind]
  simp only []
  rw [(validate_ok_iff ..).2 hv, ok_bind]
  unfold Instance.new
  have hll : max m (8 * p) / (4 * p) * ARGON2_SYNC_POINTS < 2 ^ 32 := by
    have := hI.mb_lt; have := hI.mb_eq; have := hI.ll_eq
    have h2 := memoryBlocks_le (m := m) (p := p)
    have e4 : ARGON2_SYNC_POINTS = 4 := rfl
    rw [e4]; omega
  rw [mulU32_ok hll, ok_bind, pure_eq, ok_bind]
  show (do
    let mem ← fillFirstBlocks (initialHash p 0xFFFFFFFF m t ty pwd salt secret ad) (mkInstance ty t m p)
      (Array.replicate (mkInstance ty t m p).memoryBlocks zeroBlock)
    let st ← forLoop 0 (mkInstance ty t m p).passes (fillMemoryBlocks (mkInstance ty t m p))
      (mem, Array.replicate (mkInstance ty t m p).segmentLength 0)
    finalize 0xFFFFFFFF (mkInstance ty t m p) st.1) = _
  obtain ⟨hf1, hf2⟩ := fillFirstBlocks_ok (inst := mkInstance ty t m p)
    (initialHash p 0xFFFFFFFF m t ty pwd salt secret ad)
    (mem := Array.replicate (mkInstance ty t m p).memoryBlocks zeroBlock) hI (by simp)
  rw [hf1, ok_bind]
  have key := forRange_zero_eq_fold (fillMemoryBlocks (mkInstance ty t m p))
    (fillMemoryBlocksN (mkInstance ty t m p)) (fun _ st => SizeInv (mkInstance ty t m p) st) t
    (fillFirstBlocksN (initialHash p 0xFFFFFFFF m t ty pwd salt secret ad) (mkInstance ty t m p)
      (Array.replicate (mkInstance ty t m p).memoryBlocks zeroBlock),
      Array.replicate (mkInstance ty t m p).segmentLength 0)
    ⟨hf2, by simp⟩ (fun r st _ hst => fillMemoryBlocks_ok r hI h7 hst)
  unfold forLoop
  rw [Nat.sub_zero]
  show (do
    let st ← forRange (fillMemoryBlocks (mkInstance ty t m p)) 0 t _
    finalize 0xFFFFFFFF (mkInstance ty t m p) st.1) = _
  rw [key.1, ok_bind, finalize_panic_max hI key.2.1]

/-- **the bound on the hash length cannot be dropped**: a well-formed password-hash string (any algorithm,
`1 ≤ t`, `8 ≤ m` within the memory bound, 8 … 2^32−1 salt bytes) whose hash field decodes to exactly
`u32::MAX = 2^32 − 1` bytes makes `PwHash::from_string(s)?.verify(pwd)` PANIC, for every password of less than
4 GiB.  (The string is ≈ 5.7 GB long and Argon2 runs to completion first: a latent defect, proved symbolically,
not demonstrable on this machine.  `crypto_pwhash_str_verify` is not affected: it always hashes into 32 bytes.) -/
theorem strVerifyRaw_panics_at_max_hash {alg : Alg} {t m : Nat} {pwd salt hash : Bytes}
    (ht : 1 ≤ t) (ht' : t < 2 ^ 32) (hm8 : 8 ≤ m) (hm : m < 2 ^ 32)
    (h7 : 7 * (max m 8 / 4) < 2 ^ 32 + 3)
    (hs : 8 ≤ salt.length) (hs' : salt.length ≤ 0xFFFFFFFF) (hpw : pwd.length ≤ 0xFFFFFFFF)
    (hh : hash.length = 0xFFFFFFFF) :
    strVerifyRaw (encode alg t m salt hash) pwd = .panic := by
  have hsne : salt ≠ [] := by intro e; rw [e] at hs; simp at hs
  have hhne : hash ≠ [] := by intro e; rw [e] at hh; simp at hh
  have hty : alg.num = 1 ∨ alg.num = 2 := by cases alg <;> simp [Alg.num]
  rw [strVerifyRaw_of_parse pwd (parse_encode alg t m salt hash ht' hm hsne hhne)]
  unfold objVerify objHashWithSalt
  rw [hh, cryptoPwhash_of_costs hty ht' hm,
    argon2Hash_panic_max_outlen (secret := none) (ad := none)
      ⟨by decide, by decide, hpw, hs, hs', (fun n h => by cases h), (fun n h => by cases h), (by decide),
        (by decide), hm8, (by omega), ht, (by omega)⟩ (by simpa using h7)]

end DryocVerif.Proofs.PwhashExtra
