import DryocVerif.Proofs.SecretStream
/-
Second batch of helper lemmas for C03 / C17 (secretstream model).  Core-only.

* anatomy of a pushed ciphertext, reductions "acceptance of a modified / replayed ciphertext ⇒
  one-time-MAC forgery / collision";
* counters over a whole run of `advance` steps inside a key epoch, `rekey` in closed form;
* the `MESSAGEBYTES_MAX` guards (`pushChecked`, `pullChecked`);
* `objPullRaw` (state threaded as the Rust does) agrees with `objPull`.
-/
namespace DryocVerif.Proofs.SecretStream
open DryocVerif DryocVerif.Model.Utils DryocVerif.Model.SecretStream

/-! ### list / byte facts -/

theorem split3 (l : Bytes) (n : Nat) : l = l.take 1 ++ (l.drop 1).take n ++ l.drop (1 + n) := by
  rw [List.append_assoc, ← List.drop_drop, List.take_append_drop, List.take_append_drop]

theorem toLE_le_eq : ∀ (bs : Bytes), toLE bs.length (le bs) = bs
  | [] => rfl
  | b :: bs => by
    have hb := b.toNat_lt
    have ih := toLE_le_eq bs
    simp only [List.length_cons, toLE, le]
    have h1 : (b.toNat + 256 * le bs) % 256 = b.toNat := by omega
    have h2 : (b.toNat + 256 * le bs) / 256 = le bs := by omega
    rw [h1, h2, ih, UInt8.ofNat_toNat]

theorem eq_toLE_of_le_eq (bs : Bytes) (n v : Nat) (hl : bs.length = n) (hv : le bs = v) : bs = toLE n v := by
  rw [← hl, ← hv, toLE_le_eq]

theorem xorBytes_append (a b c d : Bytes) (h : a.length = c.length) :
    xorBytes (a ++ b) (c ++ d) = xorBytes a c ++ xorBytes b d := by
  unfold xorBytes
  exact List.zipWith_append h

theorem xorBytes_zeros : ∀ (a : Bytes), xorBytes a (zeros a.length) = a
  | [] => by simp [xorBytes]
  | x :: a => by
    rw [List.length_cons, zeros_succ, xorBytes_cons, xorBytes_zeros a, UInt8.xor_zero]

theorem xorBytes_eq_self_iff : ∀ (a b : Bytes), a.length = b.length →
    (xorBytes a b = a ↔ b = zeros a.length)
  | [], [], _ => by simp [xorBytes, zeros]
  | [], _ :: _, h => by simp at h
  | _ :: _, [], h => by simp at h
  | x :: a, y :: b, h => by
    have ih := xorBytes_eq_self_iff a b (by simpa using h)
    rw [xorBytes_cons, List.length_cons, zeros_succ]
    simp only [List.cons.injEq]
    rw [ih]
    constructor
    · rintro ⟨h1, h2⟩
      refine ⟨?_, h2⟩
      have : x ^^^ y ^^^ x = x ^^^ x := by rw [h1]
      rw [UInt8.xor_comm x y, xor_cancel, UInt8.xor_self] at this
      exact this
    · rintro ⟨rfl, h2⟩
      exact ⟨UInt8.xor_zero, h2⟩

/-! ### anatomy of a pushed ciphertext -/

theorem pullBlock_len (P : Prims) (hP : WF P) (s : State) (ct : Bytes) (h : 1 ≤ ct.length) :
    (pullBlock P s ct).length = 64 := by
  unfold pullBlock
  simp only [List.length_append, List.length_take, List.length_drop, xorBytes_length,
    hP.chacha_len, zeros_length]
  omega

/-- the encrypted-message part of a ciphertext, as `pull` slices it -/
def ctBody (ct : Bytes) : Bytes := (ct.drop 1).take (ct.length - 17)

/-- the authenticator part of a ciphertext, as `pull` slices it -/
def ctMac (ct : Bytes) : Bytes := ct.drop (1 + (ct.length - 17))

theorem ctBody_length (ct : Bytes) (h : 17 ≤ ct.length) : (ctBody ct).length = ct.length - 17 := by
  unfold ctBody
  rw [List.length_take, List.length_drop]; omega

theorem pullMac_def (P : Prims) (s : State) (ct ad : Bytes) :
    pullMac P s ct ad = P.mac (macKey P s) (macInput ad (pullBlock P s ct) (ctBody ct)) := rfl

/-- what `push` hands out: a ciphertext 17 bytes longer than the message whose last 16 bytes are
the authenticator `pull` expects at the same state under the same AD, whose first byte decrypts to
the tag, and a state that is `advance` applied to exactly that authenticator and tag -/
theorem push_parts (P : Prims) (hP : WF P) (s : State) (m ad : Bytes) (tag : UInt8) (c : Bytes) (s' : State)
    (h : push P s (m.length + 17) m ad tag = .ok (c, s')) :
    c.length = m.length + 17 ∧ ctMac c = pullMac P s c ad ∧ pullTag P s c = tag ∧
      s' = advance P s (ctMac c) tag := by
  have hl := push_ct_length P hP s m ad tag c s' h
  have hp := pull_push P hP s m ad tag c s' h (zeros m.length) 0 (by rw [zeros_length]; exact Nat.le_refl _)
  have hres : (pull P s (zeros m.length) 0 c ad).res = .ok m.length := by rw [hp]
  obtain ⟨h1, h2, _, h4⟩ := (pull_ok_iff P s _ _ c ad _).mp hres
  have hm : ctMac c = pullMac P s c ad := by unfold ctMac; rw [← h2]; exact h4
  have hpe := pull_ok_eq P s (zeros m.length) 0 c ad h1 (by rw [zeros_length]; omega)
    (by rw [← h2]; exact h4)
  rw [hp] at hpe
  simp only [Pulled.mk.injEq] at hpe
  refine ⟨hl, hm, hpe.2.2.1.symm, ?_⟩
  have h5 := hpe.2.2.2
  rw [← hpe.2.2.1] at h5
  rw [hm]; exact h5

/-! ### acceptance of anything but the genuine ciphertext is a MAC forgery -/

/-- General reduction at one stream position.  `x` is the only string `push` had authenticated
under the one-time key `macKey P s`.  If `pull` at the same state accepts a pair (ciphertext, AD)
different from the genuine one, then the presented authenticator is a valid Poly1305 tag under that
key for a string `x' ≠ x` — a one-time-MAC forgery. -/
theorem modified_accept_imp_forgery (P : Prims) (hP : WF P) (s : State) (m ad : Bytes) (tag : UInt8)
    (c : Bytes) (s' : State) (h : push P s (m.length + 17) m ad tag = .ok (c, s'))
    (ct' ad' : Bytes) (hne : (ct', ad') ≠ (c, ad))
    (had : ad.length < 2 ^ 64) (had' : ad'.length < 2 ^ 64)
    (hm : 64 + m.length < 2 ^ 64) (hct' : 47 + ct'.length < 2 ^ 64)
    (buf : Bytes) (tagv : UInt8) (n : Nat) (hacc : (pull P s buf tagv ct' ad').res = .ok n) :
    macInput ad' (pullBlock P s ct') (ctBody ct') ≠ macInput ad (pullBlock P s c) (ctBody c) ∧
    ctMac ct' = P.mac (macKey P s) (macInput ad' (pullBlock P s ct') (ctBody ct')) ∧
    ctMac c = P.mac (macKey P s) (macInput ad (pullBlock P s c) (ctBody c)) := by
  obtain ⟨hl, hmac, _, _⟩ := push_parts P hP s m ad tag c s' h
  obtain ⟨h1, h2, _, h4⟩ := (pull_ok_iff P s buf tagv ct' ad' n).mp hacc
  have hmac' : ctMac ct' = pullMac P s ct' ad' := by unfold ctMac; rw [← h2]; exact h4
  refine ⟨?_, hmac', hmac⟩
  intro hx
  have hb := ctBody_length c (by omega)
  have hb' := ctBody_length ct' h1
  obtain ⟨e1, e2, e3⟩ := macInput_injective _ _ _ _ _ _
    (pullBlock_len P hP s ct' (by omega)) (pullBlock_len P hP s c (by omega)) had' had
    (by rw [hb']; omega) (by rw [hb]; omega) hx
  have hlen : ct'.length = c.length := by
    have := congrArg List.length e3
    rw [hb, hb'] at this; omega
  have ht : ct'.take 1 = c.take 1 := by
    unfold pullBlock at e2
    exact (List.append_inj e2 (by rw [List.length_take, List.length_take, hlen])).1
  have hmm : ctMac ct' = ctMac c := by
    rw [hmac, hmac', pullMac_def, pullMac_def, hx]
  apply hne
  rw [Prod.mk.injEq]
  refine ⟨?_, e1⟩
  rw [split3 ct' (ct'.length - 17), split3 c (c.length - 17)]
  show ct'.take 1 ++ ctBody ct' ++ ctMac ct' = c.take 1 ++ ctBody c ++ ctMac c
  rw [ht, e3, hmm]

/-- Wrong AD.  If the ciphertext `push` produced under `ad` is accepted by `pull` at the same state
under another `ad'`, the two distinct strings below have the same Poly1305 tag under the same
one-time key: a collision. -/
theorem wrong_ad_accept_collision_explicit (P : Prims) (hP : WF P) (s : State) (m ad ad' : Bytes) (tag : UInt8)
    (c : Bytes) (s' : State) (h : push P s (m.length + 17) m ad tag = .ok (c, s'))
    (hne : ad' ≠ ad) (had : ad.length < 2 ^ 64) (had' : ad'.length < 2 ^ 64) (hm : 64 + m.length < 2 ^ 64)
    (buf : Bytes) (tagv : UInt8) (n : Nat) (hacc : (pull P s buf tagv c ad').res = .ok n) :
    macInput ad' (pullBlock P s c) (ctBody c) ≠ macInput ad (pullBlock P s c) (ctBody c) ∧
    P.mac (macKey P s) (macInput ad' (pullBlock P s c) (ctBody c))
      = P.mac (macKey P s) (macInput ad (pullBlock P s c) (ctBody c)) := by
  have hl := push_ct_length P hP s m ad tag c s' h
  obtain ⟨h1, h2, h3⟩ := modified_accept_imp_forgery P hP s m ad tag c s' h c ad'
    (by intro e; rw [Prod.mk.injEq] at e; exact hne e.2) had had' hm (by omega) buf tagv n hacc
  exact ⟨h1, by rw [← h2, ← h3]⟩

theorem wrong_ad_accept_imp_collision (P : Prims) (hP : WF P) (s : State) (m ad ad' : Bytes) (tag : UInt8)
    (c : Bytes) (s' : State) (h : push P s (m.length + 17) m ad tag = .ok (c, s'))
    (hne : ad' ≠ ad) (had : ad.length < 2 ^ 64) (had' : ad'.length < 2 ^ 64) (hm : 64 + m.length < 2 ^ 64)
    (buf : Bytes) (tagv : UInt8) (n : Nat) (hacc : (pull P s buf tagv c ad').res = .ok n) :
    ∃ x y, x ≠ y ∧ P.mac (macKey P s) x = P.mac (macKey P s) y :=
  ⟨_, _, wrong_ad_accept_collision_explicit P hP s m ad ad' tag c s' h hne had had' hm buf tagv n hacc⟩

/-- Replay / skip / swap.  If the ciphertext produced at state `s` is accepted by `pull` at ANY state
`t` (the successor `s'` for a replay, a later state for a skipped or swapped message) under any AD,
then the authenticator computed under the key of position `s` is also the Poly1305 tag, under the
key of position `t`, of the string `pull` builds at `t`. -/
theorem accept_at_state_imp_mac_eq (P : Prims) (hP : WF P) (s : State) (m ad : Bytes) (tag : UInt8)
    (c : Bytes) (s' : State) (h : push P s (m.length + 17) m ad tag = .ok (c, s'))
    (t : State) (ad' buf : Bytes) (tagv : UInt8) (n : Nat) (hacc : (pull P t buf tagv c ad').res = .ok n) :
    n = m.length ∧
    ctMac c = P.mac (macKey P s) (macInput ad (pullBlock P s c) (ctBody c)) ∧
    ctMac c = P.mac (macKey P t) (macInput ad' (pullBlock P t c) (ctBody c)) := by
  obtain ⟨hl, hmac, _, _⟩ := push_parts P hP s m ad tag c s' h
  obtain ⟨h1, h2, _, h4⟩ := (pull_ok_iff P t buf tagv c ad' n).mp hacc
  refine ⟨by omega, hmac, ?_⟩
  unfold ctMac; rw [← h2]; exact h4

/-- in the no-rekey case `advance` keeps the key and moves to another nonce (the counter part differs) -/
theorem advance_nonce_ne (P : Prims) (s : State) (hs : StateWF s) (mac : Bytes) (tag : UInt8)
    (hnr : ¬ (tag.toNat &&& TAG_REKEY = TAG_REKEY ∨ le s.counter = 2 ^ 32 - 1)) :
    (advance P s mac tag).k = s.k ∧ (advance P s mac tag).counter ≠ s.counter ∧
      (advance P s mac tag).nonce ≠ s.nonce := by
  have hc := counter_length s hs
  have hff := le_ff4 s.counter hc
  have h2 := (advance_counter P s hs mac tag).2 hnr
  have hcne : (advance P s mac tag).counter ≠ s.counter := by
    intro e
    have := h2.1
    rw [e] at this
    omega
  refine ⟨?_, hcne, ?_⟩
  · unfold advance
    simp only
    rw [if_neg (fun h' => hnr (h'.imp id hff.mp))]
  · intro e
    apply hcne
    unfold State.counter
    rw [e]

/-! ### a whole run of `advance` steps -/

/-- `advance` iterated over a list of (authenticator, tag byte) pairs — the state component of any
sequence of accepted pushes or pulls -/
def advanceRun (P : Prims) : State → List (Bytes × UInt8) → State
  | s, [] => s
  | s, p :: r => advanceRun P (advance P s p.1 p.2) r

/-- one step without rekey, written out -/
theorem advance_norekey (P : Prims) (s : State) (hs : StateWF s) (mac : Bytes) (tag : UInt8)
    (hnr : ¬ (tag.toNat &&& TAG_REKEY = TAG_REKEY ∨ le s.counter = 2 ^ 32 - 1)) :
    advance P s mac tag = { s with nonce := incrementBytes s.counter ++ xorBuf s.inonce mac } ∧
    StateWF (advance P s mac tag) ∧ le (advance P s mac tag).counter = le s.counter + 1 := by
  have hc := counter_length s hs
  have hi := inonce_length s hs
  have hff := le_ff4 s.counter hc
  have h2 := (advance_counter P s hs mac tag).2 hnr
  have he : advance P s mac tag = { s with nonce := incrementBytes s.counter ++ xorBuf s.inonce mac } := by
    unfold advance
    simp only
    rw [if_neg (fun h' => hnr (h'.imp id hff.mp))]
  refine ⟨he, ?_, h2.1⟩
  rw [he]
  exact ⟨hs.k_len, by simp [incrementBytes_length, xorBuf_length, hi, hc]⟩

theorem advanceRun_norekey (P : Prims) (steps : List (Bytes × UInt8)) (s : State) (hs : StateWF s)
    (hnt : ∀ p ∈ steps, ¬ (p.2.toNat &&& TAG_REKEY = TAG_REKEY))
    (hk : le s.counter + steps.length < 2 ^ 32) :
    StateWF (advanceRun P s steps) ∧ (advanceRun P s steps).k = s.k ∧
      le (advanceRun P s steps).counter = le s.counter + steps.length := by
  induction steps generalizing s with
  | nil => exact ⟨hs, rfl, rfl⟩
  | cons p r ih =>
    rw [List.length_cons] at hk
    have hnr : ¬ (p.2.toNat &&& TAG_REKEY = TAG_REKEY ∨ le s.counter = 2 ^ 32 - 1) := by
      rintro (h | h)
      · exact hnt p (List.mem_cons_self ..) h
      · omega
    obtain ⟨he, hwf, hle⟩ := advance_norekey P s hs p.1 p.2 hnr
    have hk1 : (advance P s p.1 p.2).k = s.k := by rw [he]
    obtain ⟨a, b, c⟩ := ih (advance P s p.1 p.2) hwf (fun q hq => hnt q (List.mem_cons_of_mem _ hq))
      (by rw [hle]; omega)
    refine ⟨a, by rw [← hk1]; exact b, ?_⟩
    show le (advanceRun P (advance P s p.1 p.2) r).counter = _
    rw [c, hle, List.length_cons]; omega

/-- Inside a key epoch — any run of `k = steps.length` accepted messages none of which carries the
REKEY bit, starting at counter value `c` with `c + k < 2^32` — the state after `i` steps has the
same key and the counter bytes `toLE 4 (c + i)`: the counters are `c, c+1, …, c+k`, pairwise
distinct, so no (key, nonce) pair is used for two messages of the epoch. -/
theorem counters_distinct_within_epoch (P : Prims) (s : State) (hs : StateWF s)
    (steps : List (Bytes × UInt8))
    (hnt : ∀ p ∈ steps, ¬ (p.2.toNat &&& TAG_REKEY = TAG_REKEY))
    (hk : le s.counter + steps.length < 2 ^ 32) :
    (∀ i, i ≤ steps.length →
        StateWF (advanceRun P s (steps.take i)) ∧
        (advanceRun P s (steps.take i)).k = s.k ∧
        (advanceRun P s (steps.take i)).counter = toLE 4 (le s.counter + i)) ∧
    (∀ i j, i ≤ steps.length → j ≤ steps.length → i ≠ j →
        (advanceRun P s (steps.take i)).counter ≠ (advanceRun P s (steps.take j)).counter ∧
        (advanceRun P s (steps.take i)).nonce ≠ (advanceRun P s (steps.take j)).nonce) := by
  have key : ∀ i, i ≤ steps.length →
      StateWF (advanceRun P s (steps.take i)) ∧ (advanceRun P s (steps.take i)).k = s.k ∧
        le (advanceRun P s (steps.take i)).counter = le s.counter + i := by
    intro i hi
    have hlen : (steps.take i).length = i := by rw [List.length_take]; omega
    have := advanceRun_norekey P (steps.take i) s hs (fun p hp => hnt p (List.mem_of_mem_take hp))
      (by rw [hlen]; omega)
    rwa [hlen] at this
  constructor
  · intro i hi
    obtain ⟨a, b, c⟩ := key i hi
    exact ⟨a, b, eq_toLE_of_le_eq _ 4 _ (counter_length _ a) c⟩
  · intro i j hi hj hij
    obtain ⟨_, _, ci⟩ := key i hi
    obtain ⟨_, _, cj⟩ := key j hj
    have hc : (advanceRun P s (steps.take i)).counter ≠ (advanceRun P s (steps.take j)).counter := by
      intro e
      rw [e, cj] at ci
      omega
    refine ⟨hc, ?_⟩
    intro e
    apply hc
    unfold State.counter
    rw [e]

/-! ### `rekey` in closed form -/

/-- `rekey` exactly: with `ks` the first 40 key-stream bytes under the current key and nonce
(block counter 0), the new key is `k ⊕ ks[0..32]`, the new inner nonce is `inonce ⊕ ks[32..40]`, and the
counter is reset to 1. -/
theorem rekey_exact (P : Prims) (hP : WF P) (s : State) (hs : StateWF s) :
    (rekey P s).k = xorBytes s.k ((P.chacha s.k s.nonce 0 40).take 32) ∧
    (rekey P s).nonce = [1, 0, 0, 0] ++ xorBytes s.inonce ((P.chacha s.k s.nonce 0 40).drop 32) ∧
    (rekey P s).counter = [1, 0, 0, 0] ∧
    (rekey P s).inonce = xorBytes s.inonce ((P.chacha s.k s.nonce 0 40).drop 32) := by
  have hi := inonce_length s hs
  have hc := counter_length s hs
  have hks := hP.chacha_len s.k s.nonce 0 40
  generalize hksd : P.chacha s.k s.nonce 0 40 = ks at hks
  have hsplit : xorBytes (s.k ++ s.inonce) ks
      = xorBytes s.k (ks.take 32) ++ xorBytes s.inonce (ks.drop 32) := by
    conv => lhs; rw [← List.take_append_drop 32 ks]
    exact xorBytes_append _ _ _ _ (by rw [List.length_take, hs.k_len, hks]; rfl)
  have hl1 : (xorBytes s.k (ks.take 32)).length = 32 := by
    rw [xorBytes_length, List.length_take, hs.k_len, hks]; rfl
  have hl2 : (xorBytes s.inonce (ks.drop 32)).length = 8 := by
    rw [xorBytes_length, List.length_drop, hi, hks]; rfl
  have hk : (rekey P s).k = xorBytes s.k (ks.take 32) := by
    unfold rekey counterReset
    simp only [hksd]
    rw [hsplit]; exact List.take_left' hl1
  have hn : (rekey P s).nonce = [1, 0, 0, 0] ++ xorBytes s.inonce (ks.drop 32) := by
    unfold rekey counterReset
    simp only [hksd]
    rw [hsplit, List.drop_left' hl1, List.drop_left' hc]
  refine ⟨hk, hn, rekey_counter P s, ?_⟩
  unfold State.inonce
  rw [hn]
  show (xorBytes s.inonce (ks.drop 32)).take 8 = _
  exact List.take_of_length_le (by omega)

/-- the key after `rekey` equals the key before exactly when the first 32 key-stream bytes are all zero -/
theorem rekey_key_eq_iff (P : Prims) (hP : WF P) (s : State) (hs : StateWF s) :
    (rekey P s).k = s.k ↔ (P.chacha s.k s.nonce 0 40).take 32 = zeros 32 := by
  rw [(rekey_exact P hP s hs).1]
  have hl : s.k.length = ((P.chacha s.k s.nonce 0 40).take 32).length := by
    rw [List.length_take, hP.chacha_len, hs.k_len]; rfl
  rw [xorBytes_eq_self_iff _ _ hl, hs.k_len]

/-- the rekey done by `advance` (tag bit or counter wrap), in closed form -/
theorem advance_rekey_exact (P : Prims) (hP : WF P) (s : State) (hs : StateWF s) (mac : Bytes) (tag : UInt8)
    (hrk : tag.toNat &&& TAG_REKEY = TAG_REKEY ∨ le s.counter = 2 ^ 32 - 1) :
    let n1 := incrementBytes s.counter ++ xorBuf s.inonce mac
    let ks := P.chacha s.k n1 0 40
    (advance P s mac tag).k = xorBytes s.k (ks.take 32) ∧
    (advance P s mac tag).nonce = [1, 0, 0, 0] ++ xorBytes (xorBuf s.inonce mac) (ks.drop 32) ∧
    (advance P s mac tag).counter = [1, 0, 0, 0] := by
  intro n1 ks
  have hc := counter_length s hs
  have hi := inonce_length s hs
  have hff := le_ff4 s.counter hc
  have he : advance P s mac tag = rekey P { s with nonce := n1 } := by
    unfold advance
    exact if_pos (hrk.imp id hff.mpr)
  have hwf : StateWF { s with nonce := n1 } :=
    ⟨hs.k_len, by simp [n1, incrementBytes_length, xorBuf_length, hi, hc]⟩
  obtain ⟨a, b, c, _⟩ := rekey_exact P hP _ hwf
  have hin : State.inonce { s with nonce := n1 } = xorBuf s.inonce mac := by
    show ((incrementBytes s.counter ++ xorBuf s.inonce mac).drop 4).take 8 = _
    rw [List.drop_left' (by rw [incrementBytes_length, hc])]
    exact List.take_of_length_le (by rw [xorBuf_length, hi]; omega)
  rw [he]
  rw [hin] at b
  exact ⟨a, b, c⟩

/-! ### the length guards (`KEYSTREAM_MESSAGEBYTES_MAX` since fix E16; `MESSAGEBYTES_MAX` before) -/

theorem MESSAGEBYTES_MAX_eq : MESSAGEBYTES_MAX = 274877906816 := by decide

/-- `MESSAGEBYTES_MAX − 64 = 64·(2^32 − 3)` -/
theorem KEYSTREAM_MESSAGEBYTES_MAX_val : KEYSTREAM_MESSAGEBYTES_MAX = 274877906752 := by decide

theorem pushChecked_eq_push (P : Prims) (s : State) (ctLen : Nat) (m ad : Bytes) (tag : UInt8)
    (h : m.length ≤ KEYSTREAM_MESSAGEBYTES_MAX) : pushChecked P s ctLen m ad tag = push P s ctLen m ad tag := by
  unfold pushChecked
  split
  · rename_i h1; unfold push; rw [if_pos h1]
  · rw [if_neg (by omega)]

theorem pushChecked_too_long (P : Prims) (s : State) (ctLen : Nat) (m ad : Bytes) (tag : UInt8)
    (h : KEYSTREAM_MESSAGEBYTES_MAX < m.length) : pushChecked P s ctLen m ad tag = .err := by
  unfold pushChecked
  split
  · rfl
  · first | rfl | rw [if_pos h]

theorem pullChecked_eq_pull (P : Prims) (s : State) (buf : Bytes) (tagv : UInt8) (ct ad : Bytes)
    (h : ct.length ≤ KEYSTREAM_MESSAGEBYTES_MAX + 17) :
    pullChecked P s buf tagv ct ad = pull P s buf tagv ct ad := by
  unfold pullChecked
  split
  · rename_i h1; unfold pull; rw [if_pos h1]
  · split
    · rename_i h1 h2; unfold pull; rw [if_neg h1]; simp only; rw [if_pos h2]
    · rw [if_neg (by unfold ABYTES; omega)]

theorem pullChecked_too_long (P : Prims) (s : State) (buf : Bytes) (tagv : UInt8) (ct ad : Bytes)
    (h : KEYSTREAM_MESSAGEBYTES_MAX + 17 < ct.length) : pullChecked P s buf tagv ct ad = ⟨.err, buf, tagv, s⟩ := by
  unfold pullChecked
  split
  · rfl
  · split
    · rfl
    · first | rfl | rw [if_pos (by unfold ABYTES; omega)]

/-- `pullChecked` is `pull` or a plain rejection -/
theorem pullChecked_cases (P : Prims) (s : State) (buf : Bytes) (tagv : UInt8) (ct ad : Bytes) :
    pullChecked P s buf tagv ct ad = pull P s buf tagv ct ad ∨
      pullChecked P s buf tagv ct ad = ⟨.err, buf, tagv, s⟩ := by
  by_cases h : ct.length ≤ KEYSTREAM_MESSAGEBYTES_MAX + 17
  · exact Or.inl (pullChecked_eq_pull P s buf tagv ct ad h)
  · exact Or.inr (pullChecked_too_long P s buf tagv ct ad (by omega))

/-! #### the guards before fix E16 (counter-models) -/

theorem pushCheckedOld16_eq_push (P : Prims) (s : State) (ctLen : Nat) (m ad : Bytes) (tag : UInt8)
    (h : m.length ≤ MESSAGEBYTES_MAX) : pushCheckedOld16 P s ctLen m ad tag = push P s ctLen m ad tag := by
  unfold pushCheckedOld16
  split
  · rename_i h1; unfold push; rw [if_pos h1]
  · rw [if_neg (by omega)]

theorem pushCheckedOld16_too_long (P : Prims) (s : State) (ctLen : Nat) (m ad : Bytes) (tag : UInt8)
    (h : MESSAGEBYTES_MAX < m.length) : pushCheckedOld16 P s ctLen m ad tag = .err := by
  unfold pushCheckedOld16
  split
  · rfl
  · first | rfl | rw [if_pos h]

theorem pullCheckedOld16_eq_pull (P : Prims) (s : State) (buf : Bytes) (tagv : UInt8) (ct ad : Bytes)
    (h : ct.length ≤ MESSAGEBYTES_MAX) : pullCheckedOld16 P s buf tagv ct ad = pull P s buf tagv ct ad := by
  unfold pullCheckedOld16
  split
  · rename_i h1; unfold pull; rw [if_pos h1]
  · split
    · rename_i h1 h2; unfold pull; rw [if_neg h1]; simp only; rw [if_pos h2]
    · rw [if_neg (by omega)]

theorem pullCheckedOld16_too_long (P : Prims) (s : State) (buf : Bytes) (tagv : UInt8) (ct ad : Bytes)
    (h : MESSAGEBYTES_MAX < ct.length) : pullCheckedOld16 P s buf tagv ct ad = ⟨.err, buf, tagv, s⟩ := by
  unfold pullCheckedOld16
  split
  · rfl
  · split
    · rfl
    · first | rfl | rw [if_pos h]

/-! ### object layer: the state is threaded as the Rust does -/

theorem pull_err_st (P : Prims) (s : State) (buf : Bytes) (tagv : UInt8) (ct ad : Bytes)
    (h : (pull P s buf tagv ct ad).res = .err) : (pull P s buf tagv ct ad).st = s := by
  rw [pull_eq] at h ⊢
  split
  · rfl
  split
  · rfl
  split
  · rfl
  · rename_i h1 h2 h3
    rw [if_neg h1, if_neg h2, if_neg h3] at h
    cases h

theorem pull_never_panics (P : Prims) (s : State) (buf : Bytes) (tagv : UInt8) (ct ad : Bytes) :
    (pull P s buf tagv ct ad).res ≠ .panic := by
  rw [pull_eq]
  split
  · simp
  split
  · simp
  split <;> simp

theorem objPullRaw_eq_objPull (P : Prims) (s : State) (ct ad : Bytes) :
    objPullRaw P s ct ad = objPull P s ct ad := by
  unfold objPullRaw objPull
  split
  · rfl
  · simp only
    split
    · rfl
    · rename_i h; rw [pull_err_st P s _ _ _ _ h]
    · rename_i h; exact absurd h (pull_never_panics P s _ _ _ _)

theorem objPull_never_panics (P : Prims) (s : State) (ct ad : Bytes) : (objPull P s ct ad).1 ≠ .panic := by
  rcases objPull_cases P s ct ad with h | ⟨r, _, _, h⟩ <;> rw [h] <;> simp

theorem objPull_err_state (P : Prims) (s : State) (ct ad : Bytes) (h : (objPull P s ct ad).1 = .err) :
    (objPull P s ct ad).2 = s := by
  rcases objPull_cases P s ct ad with h' | ⟨r, _, _, h'⟩
  · rw [h']
  · rw [h'] at h; cases h

end DryocVerif.Proofs.SecretStream
